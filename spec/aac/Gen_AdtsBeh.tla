---------------------------- MODULE Gen_AdtsBeh ----------------------------
(* Behaviour generation for C11: every behaviour of Adts (SetASC / Encode /    *)
(* Write / Decode on one ADTS object and one byte stream) of Depth steps, or   *)
(* seeded random ones with -simulate, emitted with the specification's          *)
(* abstract state after every step.  Gen_AdtsBeh.pay.*: raw blocks with content *)
(* (a complete frame, Encode(Encode(x)), header-like bytes).  Gen_AdtsBeh.long:  *)
(* maximum-size frames written until the stream is longer than 64 KiB, then      *)
(* taken off one at a time.                                                      *)
EXTENDS Adts, TLC, Json

CONSTANT Depth
VARIABLE hist
bvars == <<vars, hist>>

BAuxAll == [priv |-> 1, orig |-> 1, home |-> 1, cib |-> 1, cis |-> 1, bf |-> 0]
BFr(id, prot, profile, sfi, chan, n, crc, aux) ==
  [id |-> id, prot |-> prot, profile |-> profile, sfi |-> sfi, chan |-> chan,
   n |-> n, fid |-> 0, crc |-> crc, aux |-> aux, pre |-> <<>>]

\* quick: LC 44.1k stereo, HEv2 7.35k 7.1 (trailing bits set), rejected object type 4
BAscQuick == { AscBytes(2, 4, 2), <<AscBytes(29, 12, 7)[1], AscBytes(29, 12, 7)[2] + 7>>, AscBytes(4, 4, 2) }
BFramesQuick == { BFr(1, 0, 1, 4, 2, 247, 65521, Aux0),      \* CRC = FF F1, frame length 256
                  BFr(0, 0, 0, 1, 1, 1, 0, BAuxAll),          \* CRC, MPEG-4 id, Main
                  BFr(1, 1, 2, 11, 6, 2, 0, Aux0) }           \* no CRC, SSR
BAscThorough == BAscQuick \cup { AscBytes(1, 1, 1), AscBytes(3, 8, 5), AscBytes(5, 6, 2),
                                 AscBytes(2, 0, 2), AscBytes(2, 13, 2), AscBytes(2, 4, 0), AscBytes(2, 4, 8) }
BFramesThorough == BFramesQuick \cup
                { BFr(0, 0, 1, 3, 2, 2039, 65535, Aux0),      \* CRC, frame length 2048
                  BFr(1, 0, 2, 12, 7, 3, 4660, BAuxAll),
                  BFr(0, 1, 0, 5, 3, 249, 0, BAuxAll),        \* frame length 256
                  BFr(1, 0, 1, 9, 4, 505, 65521, Aux0) }

\* payload classes: a smaller alphabet, raw blocks with content
BAscPay == { AscBytes(2, 4, 2), AscBytes(29, 12, 7) }
BFramesPay == { BFr(1, 0, 1, 4, 2, 5, 65521, Aux0),
                [BFr(0, 1, 0, 3, 1, 9, 0, BAuxAll) EXCEPT !.pre = PreFrame(BFr(0, 1, 1, 4, 2, 2, 0, Aux0))] }
BPayFrames == { BFr(0, 1, 1, 4, 2, 3, 0, Aux0),                \* LC 44.1k stereo: what AscBytes(2, 4, 2) muxes
                BFr(1, 0, 0, 3, 1, 249, 65521, BAuxAll),        \* CRC, frame length 258
                [BFr(1, 1, 2, 11, 6, 10, 0, Aux0) EXCEPT !.pre = PreFrame(BFr(0, 1, 1, 12, 7, 3, 0, Aux0))] }
BPayHeads == { <<255, 241>>, <<255, 249, 80, 128, 1, 31, 252>> } \* a sync word; the header of an 8-byte frame

\* long streams: frames of the maximum size
BAscLong == { AscBytes(2, 4, 2) }
BFramesLong == { BFr(1, 0, 0, 3, 6, 8182, 4660, Aux0), BFr(0, 1, 2, 11, 5, 8184, 0, BAuxAll) }
\* every frame is written before the first is taken
WriteFirst == (Len(pend') < Len(pend)) => nw = MaxFrames

\* abstract state after the step
St == [res |-> res', asc |-> <<asc'.obj, asc'.sfi, asc'.chan>>, profile |-> ObjProfile(asc'.obj),
       wl |-> Len(wire'), np |-> Len(pend')]
Rec(r) == hist' = Append(hist, r @@ St)

\* the frame Encode was asked for is the last pending one
RecEnc == LET f == pend'[Len(pend')] IN
  Rec([op |-> "encode", raw |-> [n |-> f.n, id |-> f.fid], hf |-> Len(HeadLD(f)), ld |-> FrameLD(f), mask |-> NamedMask])

BInit == Init /\ hist = <<>>
BNext ==
  /\ Len(hist) < Depth
  /\ \/ \E b \in AscInputs : SetASC(b) /\ Rec([op |-> "setasc", b |-> b])
     \/ \E n \in RawLens, id \in LibIds :
          Encode(n, id) /\ RecEnc
     \/ \E g \in PayFrames, id \in LibIds : EncodeFrame(g, id) /\ RecEnc
     \/ \E n \in TwiceLens, id \in LibIds : EncodeTwice(n, id) /\ RecEnc
     \/ \E n \in RawLens, id \in LibIds, h \in PayHeads : EncodeHead(n, id, h) /\ RecEnc
     \/ \E f \in Frames :
          Write(f) /\ Rec([op |-> "write", prot |-> f.prot, hf |-> Len(HeadLD(f)), ld |-> FrameLD(pend'[Len(pend')])])
     \/ Decode /\ Rec([op |-> "decode", ok |-> got'[1].ok, prot |-> last'[1].prot,
                       raw |-> [n |-> Len(got'[1].raw), id |-> last'[1].fid],
                       hz |-> Hz(last'[1].sfi)])

Emit == Len(hist) = Depth => PrintT(<<"CASE", ToJson([kind |-> "beh", steps |-> hist])>>)
=============================================================================
