---------------------------- MODULE Gen_AdtsBeh ----------------------------
(* Behaviour generation for C11: every behaviour of Adts (SetASC / Encode /    *)
(* Write / Decode on one ADTS object and one byte stream) of Depth steps, or   *)
(* seeded random ones with -simulate, emitted with the specification's          *)
(* abstract state after every step.                                             *)
EXTENDS Adts, TLC, Json

CONSTANT Depth
VARIABLE hist
bvars == <<vars, hist>>

BAuxAll == [priv |-> 1, orig |-> 1, home |-> 1, cib |-> 1, cis |-> 1, bf |-> 0]
BFr(id, prot, profile, sfi, chan, n, crc, aux) ==
  [id |-> id, prot |-> prot, profile |-> profile, sfi |-> sfi, chan |-> chan,
   n |-> n, fid |-> 0, crc |-> crc, aux |-> aux]

\* quick: LC 44.1k stereo, HEv2 7.35k 7.1 (trailing bits set), rejected object type 4
BAscQuick == { AscBytes(2, 4, 2), <<AscBytes(29, 12, 7)[1], AscBytes(29, 12, 7)[2] + 7>>, AscBytes(4, 4, 2) }
BFramesQuick == { BFr(1, 0, 1, 4, 2, 247, 65521, Aux0),      \* CRC = FF F1, frame length 256
                  BFr(0, 0, 0, 1, 1, 1, 0, BAuxAll),          \* CRC, MPEG-4 id, Main
                  BFr(1, 1, 2, 11, 6, 2, 0, Aux0) }           \* no CRC, SSR
BAscThorough == BAscQuick \cup { AscBytes(1, 1, 1), AscBytes(3, 8, 5), AscBytes(5, 6, 2),
                                 AscBytes(2, 0, 2), AscBytes(2, 13, 2), AscBytes(2, 4, 0), AscBytes(2, 4, 8) }
BFramesThorough == BFramesQuick \cup
                { BFr(0, 0, 1, 3, 2, 2039, 65535, Aux0),      \* CRC, frame length 2048
                  BFr(1, 0, 2, 12, 7, 3, 4660, BAuxAll),
                  BFr(0, 1, 0, 5, 3, 249, 0, BAuxAll),        \* frame length 256
                  BFr(1, 0, 1, 9, 4, 505, 65521, Aux0) }

\* abstract state after the step
St == [res |-> res', asc |-> <<asc'.obj, asc'.sfi, asc'.chan>>, profile |-> ObjProfile(asc'.obj),
       wl |-> Len(wire'), np |-> Len(pend')]
Rec(r) == hist' = Append(hist, r @@ St)

BInit == Init /\ hist = <<>>
BNext ==
  /\ Len(hist) < Depth
  /\ \/ \E b \in AscInputs : SetASC(b) /\ Rec([op |-> "setasc", b |-> b])
     \/ \E n \in RawLens, id \in LibIds :
          Encode(n, id) /\ Rec([op |-> "encode", raw |-> [n |-> n, id |-> nw + 1],
                                ld |-> FrameLD(pend'[Len(pend')]), mask |-> NamedMask])
     \/ \E f \in Frames :
          Write(f) /\ Rec([op |-> "write", prot |-> f.prot, ld |-> FrameLD(pend'[Len(pend')])])
     \/ Decode /\ Rec([op |-> "decode", ok |-> got'[1].ok, prot |-> last'[1].prot,
                       raw |-> [n |-> Len(got'[1].raw), id |-> last'[1].fid],
                       hz |-> Hz(last'[1].sfi)])

Emit == Len(hist) = Depth => PrintT(<<"CASE", ToJson([kind |-> "beh", steps |-> hist])>>)
=============================================================================
