SPECIFICATION Spec
CONSTANTS
  AscInputs <- McAscInputs
  RawLens = {1, 3}
  LibIds = {0, 1}
  Frames <- McFrames
  MaxFrames = 3
  CrcCounted = TRUE
INVARIANTS WireIsPending SyncAtHead Drained DecodeExact SetAscOk
CHECK_DEADLOCK FALSE
