SPECIFICATION Spec
CONSTANTS
  AscInputs <- McAscInputs
  RawLens = {1, 3}
  LibIds = {0, 1}
  Frames <- McFrames
  MaxFrames = 3
  CrcCounted = TRUE
  PayFrames = {}
  PayHeads = {}
  TwiceLens = {}
  PassThrough = FALSE
  LenMod = 0
INVARIANTS WireIsPending SyncAtHead Drained DecodeExact SetAscOk
CHECK_DEADLOCK FALSE
