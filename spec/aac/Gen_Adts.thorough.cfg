INIT GenInit
NEXT GenNext
CONSTANTS
  AscInputs = {}
  RawLens = {}
  LibIds = {}
  Frames = {}
  MaxFrames = 0
  CrcCounted = TRUE
  PayFrames = {}
  PayHeads = {}
  TwiceLens = {}
  PassThrough = FALSE
  LenMod = 0
  Lens = {1, 2, 3, 7, 8, 9, 246, 247, 248, 249, 250, 255, 256, 257, 503, 505, 1015, 1017, 1023, 1024,
          2038, 2039, 2040, 2041, 2042, 2047, 2048, 4087, 4089, 4095, 4096, 6143, 8180, 8181, 8182, 8183, 8184}
  NRandLens = 12
  PoolSize = 12
  NRandStreams = 2000
  PayLens = {1, 2, 6, 7, 9, 241, 242, 249, 250, 1016, 2034, 3000, 4089, 8170, 0}
  PayOuters = 12
  PaySeqPool = 12
  LongKinds = 8
  LongTotals = {30, 31, 32, 33, 34, 35, 37, 39, 40, 41}
  MaxRep = 140000
INVARIANT Emit
CHECK_DEADLOCK FALSE
