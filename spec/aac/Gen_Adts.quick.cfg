INIT GenInit
NEXT GenNext
CONSTANTS
  AscInputs = {}
  RawLens = {}
  LibIds = {}
  Frames = {}
  MaxFrames = 0
  CrcCounted = TRUE
  Lens = {1, 2, 247, 248, 249, 2039, 2041, 8182, 8184}
  NRandLens = 1
  PoolSize = 8
  NRandStreams = 40
INVARIANT Emit
CHECK_DEADLOCK FALSE
