INIT GenInit
NEXT GenNext
CONSTANTS
  AscInputs = {}
  RawLens = {}
  LibIds = {}
  Frames = {}
  MaxFrames = 0
  CrcCounted = TRUE
  PayFrames = {}
  PayHeads = {}
  TwiceLens = {}
  PassThrough = FALSE
  LenMod = 0
  Lens = {1, 2, 247, 248, 249, 2039, 2041, 8182, 8184}
  NRandLens = 1
  PoolSize = 8
  NRandStreams = 40
  PayLens = {1, 6, 249, 3000, 0}
  PayOuters = 8
  PaySeqPool = 4
  LongKinds = 4
  LongTotals = {32, 33, 35, 41}
  MaxRep = 20000
INVARIANT Emit
CHECK_DEADLOCK FALSE
