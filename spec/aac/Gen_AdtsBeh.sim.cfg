INIT BInit
NEXT BNext
CONSTANTS
  AscInputs <- BAscThorough
  RawLens = {1, 2, 249, 2041}
  LibIds = {0}
  Frames <- BFramesThorough
  MaxFrames = 8
  CrcCounted = TRUE
  PayFrames = {}
  PayHeads = {}
  TwiceLens = {}
  PassThrough = FALSE
  LenMod = 0
  Depth = 14
INVARIANTS Emit DecodeExact
CHECK_DEADLOCK FALSE
