INIT BInit
NEXT BNext
CONSTANTS
  AscInputs <- BAscLong
  RawLens = {8184}
  LibIds = {0}
  Frames <- BFramesLong
  MaxFrames = 10
  CrcCounted = TRUE
  PayFrames = {}
  PayHeads = {}
  TwiceLens = {}
  PassThrough = FALSE
  LenMod = 0
  Depth = 44
ACTION_CONSTRAINT WriteFirst
INVARIANTS Emit DecodeExact
CHECK_DEADLOCK FALSE
