SPECIFICATION Spec
CONSTANTS
  AscInputs = {}
  RawLens = {}
  LibIds = {0}
  Frames <- LongFrames
  MaxFrames = 9
  CrcCounted = TRUE
  PayFrames = {}
  PayHeads = {}
  TwiceLens = {}
  PassThrough = FALSE
  LenMod = 0
ACTION_CONSTRAINT WriteFirst
ALIAS LongView
INVARIANTS WireIsPending SyncAtHead Drained DecodeExact SetAscOk
CHECK_DEADLOCK FALSE
