------------------------------ MODULE Gen_Adts ------------------------------
(* Case generation for C11: TLC enumerates the value matrices; every case     *)
(* carries the input and the specification's expected outcome.                *)
(*   asc     one case per first byte: expectation for all 256 second bytes    *)
(*   ascm    one case per object type value: expectation for sfi x channels   *)
(*   hz/conv the ISO frequency table and the object type <-> profile mapping  *)
(*   stream  1..3 frames, each written by the library's Encode ("lib") or by  *)
(*           the specification ("iso": either ID, with/without CRC) as an LD, *)
(*           with the raw block, the reported fields and the number of bytes  *)
(*           left after each Decode                                           *)
(*   pay     payload classes: the raw block is a complete ADTS frame (same /  *)
(*           other configuration, either ID, with CRC, nested twice, one byte *)
(*           more / less than its length field says), starts with a sync word *)
(*           or is just header bytes; alone and between other frames          *)
(*   long    stream shapes frame kind x count: runs of equal frames repeated  *)
(*           until the stream is just below / just above 2^15 .. 2^20 bytes,  *)
(*           decoded one frame at a time through one buffer                   *)
EXTENDS Adts, TLC, Json, Gen_AdtsSeed

CONSTANTS Lens,        \* raw block lengths of the single-frame matrices
          NRandLens,   \* additional seeded random lengths per matrix row
          PoolSize,    \* how many descriptors of Pool the multi-frame streams draw from
          NRandStreams,\* seeded random 3-frame streams
          PayLens,     \* payload classes: raw lengths of the inner frame (0: the largest that fits)
          PayOuters,   \* ... how many of Outers carry them
          PaySeqPool,  \* ... how many Pool frames stand before / behind one in a stream
          LongKinds,   \* long streams: how many of Kinds are used
          LongTotals,  \* ... 2 * bits + above: the stream ends just below (above = 0) / at or above (1) 2^bits bytes
          MaxRep       \* ... no shape with more frames than this

VARIABLE c
gvars == <<vars, c>>

\* ----------------------------------------------------------- seeded choice
\* a hash of (Seed, k), k < 70000, every intermediate below 2^31
Rnd(k) ==
  LET h1 == ((k + 1) * 30011 + (Seed % 65537) * 7919) % 65537
      h2 == (h1 * 75 + 74) % 65537
  IN ((h2 % 32768) * (h2 \div 2 + 1) + h1) % 65537
RandLen(k, max) == 1 + (Rnd(k) % max)

\* ------------------------------------------------------------- descriptors
AuxAll == [priv |-> 1, orig |-> 1, home |-> 1, cib |-> 1, cis |-> 1, bf |-> 0]
AuxMix == [priv |-> 0, orig |-> 1, home |-> 0, cib |-> 0, cis |-> 1, bf |-> 1365]
AuxSeq == <<Aux0, AuxAll, AuxMix,
            [priv |-> 1, orig |-> 0, home |-> 0, cib |-> 0, cis |-> 0, bf |-> 2047],
            [priv |-> 0, orig |-> 0, home |-> 0, cib |-> 1, cis |-> 0, bf |-> 1]>>

Iso(id, prot, profile, sfi, chan, n, crc, aux) ==
  [by |-> "iso", obj |-> 0,
   f |-> [id |-> id, prot |-> prot, profile |-> profile, sfi |-> sfi, chan |-> chan,
          n |-> n, fid |-> 0, crc |-> crc, aux |-> aux, pre |-> <<>>]]
Lib(obj, sfi, chan, n) ==
  [by |-> "lib", obj |-> obj, f |-> LibFrame([obj |-> obj, sfi |-> sfi, chan |-> chan], n, 0, 0)]

\* a CRC value that depends on the frame: 0xFFF1 (a sync word), 0, 0xFFFF, or a pattern
CrcOf(sfi, chan, n) ==
  CASE (sfi + chan + n) % 4 = 0 -> 65521
    [] (sfi + chan + n) % 4 = 1 -> 0
    [] (sfi + chan + n) % 4 = 2 -> 65535
    [] OTHER -> (n * 257 + sfi * 16 + chan) % 65536

Pool == << Lib(ObjLC, 4, 2, 249),                         \* frame length 256
           Iso(1, 0, 1, 4, 2, 247, 65521, Aux0),          \* CRC, frame length 256, CRC = FF F1
           Lib(ObjHEv2, 12, 7, 1),
           Iso(0, 0, 0, 1, 1, 2, 0, AuxAll),              \* CRC, MPEG-4 id
           Iso(1, 1, 2, 11, 6, 2041, 0, AuxAll),          \* frame length 2048
           Iso(0, 0, 1, 3, 2, 8182, 65535, Aux0),         \* CRC, frame length 8191
           Lib(ObjMain, 1, 1, 8184),                      \* frame length 8191
           Iso(0, 1, 1, 8, 1, 1, 0, AuxMix),
           Lib(ObjHE, 6, 2, 2041),
           Iso(1, 0, 2, 12, 7, 2039, 4660, AuxMix),       \* CRC, frame length 2048
           Lib(ObjSSR, 11, 5, 8),
           Iso(1, 0, 1, 7, 3, 1, 65521, AuxAll) >>        \* CRC, 1 byte

AccObjSeq == <<ObjMain, ObjLC, ObjSSR, ObjHE, ObjHEv2>>

\* ---------------------------------------------------------- payload classes
\* the frames that carry a raw block with content (their n is set by the class)
Outers == << Lib(ObjLC, 4, 2, 1),
             Iso(1, 0, 0, 3, 6, 1, 4660, Aux0),            \* CRC
             Lib(ObjHEv2, 12, 7, 1),
             Iso(0, 1, 2, 11, 5, 1, 0, AuxAll),
             Lib(ObjMain, 1, 1, 1),
             Iso(0, 0, 1, 4, 2, 1, 65521, AuxMix),         \* CRC = FF F1, MPEG-4 id
             Lib(ObjSSR, 8, 3, 1),
             Iso(1, 1, 1, 7, 1, 1, 0, Aux0),
             Lib(ObjHE, 6, 2, 1),
             Iso(1, 0, 2, 12, 7, 1, 65535, AuxAll),
             Lib(ObjLC, 3, 1, 1),
             Iso(0, 1, 0, 1, 4, 1, 0, AuxMix) >>

\* an inner frame: the bytes of a raw block (pattern id 40 + nesting depth)
Inner(id, prot, cf, m, aux, depth) ==
  [id |-> id, prot |-> prot, profile |-> cf[1], sfi |-> cf[2], chan |-> cf[3],
   n |-> m, fid |-> 40 + depth, crc |-> CrcOf(cf[2], cf[3], m), aux |-> aux, pre |-> <<>>]
\* a header with layer bits 10: a sync word, a matching length, still not this specification's frame
LayerHdr(cf, fl) == LET h == AdtsHdr(0, 1, cf[1], cf[2], cf[3], fl, Aux0) IN [h EXCEPT ![2] = h[2] + 4]

PayClasses == 1..18
\* bytes the class puts around the m innermost bytes
PayOver(cls) == CASE cls \in {1, 2, 4, 8} -> 7   [] cls \in {3, 5} -> 9   [] cls = 6 -> 8  [] cls = 7 -> 7
                  [] cls \in 9..14 -> 2          [] cls = 15 -> 14        [] cls = 16 -> 7
                  [] cls = 17 -> 7               [] cls = 18 -> 9
\* the raw block [n, pre] of class cls for the carrier d and m inner bytes
PayOf(cls, d, m) ==
  LET same  == <<d.f.profile, d.f.sfi, d.f.chan>>
      other == IF same = <<0, 3, 1>> THEN <<1, 4, 2>> ELSE <<0, 3, 1>>
      fr(g) == [n |-> FrameLen(g), pre |-> PreFrame(g)]
  IN CASE cls = 1  -> fr(Inner(0, 1, same, m, Aux0, 1))        \* what the muxer itself writes: wrapped twice
       [] cls = 2  -> fr(Inner(1, 1, same, m, Aux0, 1))        \* ... MPEG-2 id
       [] cls = 3  -> fr(Inner(1, 0, same, m, Aux0, 1))        \* ... with CRC
       [] cls = 4  -> fr(Inner(0, 1, other, m, Aux0, 1))       \* another configuration
       [] cls = 5  -> fr(Inner(0, 0, other, m, AuxAll, 1))     \* ... with CRC
       [] cls = 6  -> [n |-> 7 + m + 1, pre |-> PreFrame(Inner(0, 1, other, m, Aux0, 1))]   \* a frame and one byte more
       [] cls = 7  -> [n |-> 7 + m, pre |-> PreHdr(0, 1, other[1], other[2], other[3], 7 + m + 1)] \* one byte short of its length field
       [] cls = 8  -> fr(Inner(1, 1, other, m, AuxAll, 1))     \* every free header bit set
       [] cls = 9  -> [n |-> 2 + m, pre |-> PreSync(1)]        \* FF F1 ..
       [] cls = 10 -> [n |-> 2 + m, pre |-> PreSync(9)]        \* FF F9 ..
       [] cls = 11 -> [n |-> 2 + m, pre |-> PreSync(0)]        \* FF F0 ..
       [] cls = 12 -> [n |-> 2 + m, pre |-> PreSync(8)]        \* FF F8 ..
       [] cls = 13 -> [n |-> 2 + m, pre |-> PreSync(15)]       \* FF FF ..
       [] cls = 14 -> [n |-> 2 + m, pre |-> PreSync(7)]        \* FF F7 ..: layer 11
       [] cls = 15 -> fr([Inner(0, 1, same, 7 + m, Aux0, 2) EXCEPT !.pre = PreFrame(Inner(0, 1, same, m, Aux0, 1))]) \* wrapped three times
       [] cls = 16 -> [n |-> 7 + m, pre |-> <<Raw(LayerHdr(other, 7 + m))>>]
       [] cls = 17 -> [n |-> 7, pre |-> PreHdr(0, 1, other[1], other[2], other[3], 7)]      \* 7 header bytes, nothing else
       [] cls = 18 -> [n |-> 9, pre |-> PreHdr(1, 0, same[1], same[2], same[3], 9) \o <<U16(65521)>>] \* header + CRC, nothing else
\* m = 0 stands for the largest block the carrier takes
PayLen(cls, d, m) == IF m = 0 THEN MaxFrameLen - HdrSize(d.f.prot) - PayOver(cls) ELSE m
Carry(d, cls, m) == LET p == PayOf(cls, d, PayLen(cls, d, m)) IN [d EXCEPT !.f.n = p.n, !.f.pre = p.pre]

\* -------------------------------------------------------------- long streams
\* frame kinds of the long streams (size class x writer)
Kinds == << Lib(ObjLC, 4, 2, 300),                        \* an ordinary frame: 307 bytes
            Iso(1, 0, 0, 3, 6, 8182, 4660, Aux0),         \* CRC, frame length 8191
            Iso(0, 1, 1, 4, 2, 1, 0, AuxMix),             \* 8 bytes
            Lib(ObjHEv2, 12, 7, 8184),                    \* frame length 8191
            Iso(0, 0, 2, 11, 5, 2039, 65521, AuxAll),     \* CRC = FF F1, frame length 2048
            Lib(ObjMain, 1, 1, 1),                        \* 8 bytes
            Iso(1, 1, 1, 7, 1, 8000, 0, Aux0),
            Lib(ObjSSR, 8, 3, 2041) >>                    \* frame length 2048
Pow2(b) == CASE b = 15 -> 32768 [] b = 16 -> 65536 [] b = 17 -> 131072 [] b = 18 -> 262144
             [] b = 19 -> 524288 [] b = 20 -> 1048576
\* how many units of sz bytes end just below (above = 0) / at or above (1) 2^bits bytes
Target(t) == Pow2(t \div 2)
Above(t)  == t % 2 = 1
RepFor(sz, t) == IF Above(t) THEN (Target(t) + sz - 1) \div sz ELSE (Target(t) - 1) \div sz
\* a run: rep copies of the frame d (distinct raw blocks); a shape: the runs in turn, cyc times
Run(d, rep) == [d |-> d, rep |-> rep]
RunLen(r) == r.rep * FrameLen(r.d.f)
RECURSIVE RunsLen(_)
RunsLen(rs) == IF rs = <<>> THEN 0 ELSE RunLen(Head(rs)) + RunsLen(Tail(rs))
RunsCount(rs) == IF rs = <<>> THEN 0 ELSE rs[1].rep + (IF Len(rs) > 1 THEN rs[2].rep ELSE 0)
ShapeOf(k) ==
  CASE k[1] = "long"  -> [runs |-> <<Run(Kinds[k[2]], 1)>>,
                          cyc  |-> RepFor(FrameLen(Kinds[k[2]].f), k[3])]
    [] k[1] = "long2" -> LET rs == <<Run(Kinds[k[2]], k[3]), Run(Kinds[k[4]], k[5])>>
                         IN [runs |-> rs, cyc |-> RepFor(RunsLen(rs), k[6])]
    \* the first kind up to half of the total, then the second
    [] k[1] = "longh" -> LET a == Kinds[k[2]]  b == Kinds[k[3]]
                             ra == (Target(k[4]) \div 2) \div FrameLen(a.f)
                             rest == Target(k[4]) - ra * FrameLen(a.f)
                             rb == IF Above(k[4]) THEN (rest + FrameLen(b.f) - 1) \div FrameLen(b.f)
                                   ELSE (rest - 1) \div FrameLen(b.f)
                         IN [runs |-> <<Run(a, ra), Run(b, rb)>>, cyc |-> 1]
ShapeValid(sh) == /\ sh.cyc >= 1 /\ \A i \in 1..Len(sh.runs) : sh.runs[i].rep >= 1
                  /\ sh.cyc * RunsCount(sh.runs) <= MaxRep

LensFor(prot, base) == {n \in Lens \cup {RandLen(base + k, MaxFrameLen - HdrSize(prot)) : k \in 1..NRandLens} :
                          HdrSize(prot) + n <= MaxFrameLen}

\* ------------------------------------------------------------------ keys
Keys ==
  {<<"asc", b0>> : b0 \in 0..255}
  \cup {<<"ascm", o>> : o \in (0..31) \cup {33, 34, 37, 61, 255}}
  \cup {<<"hz">>, <<"conv">>}
  \cup {<<"iso", id, prot, p, s, ch, n>> :
          id \in 0..1, prot \in 0..1, p \in 0..2, s \in 1..12, ch \in 1..7, n \in Lens}
  \cup {<<"isor", id, prot, p, s, ch, k>> :
          id \in 0..1, prot \in 0..1, p \in 0..2, s \in 1..12, ch \in 1..7, k \in 1..NRandLens}
  \cup {<<"isoaux", a, id, prot, k, n>> :
          a \in 2..Len(AuxSeq), id \in 0..1, prot \in 0..1, k \in 1..3, n \in {1, 249, 2041, 8182}}
  \cup {<<"lib", o, s, ch, n>> : o \in 1..5, s \in 1..12, ch \in 1..7, n \in Lens}
  \cup {<<"libr", o, s, ch, k>> : o \in 1..5, s \in 1..12, ch \in 1..7, k \in 1..NRandLens}
  \cup {<<"seq2", i, j>> : i \in 1..PoolSize, j \in 1..PoolSize}
  \cup {<<"seq3", i, j, k>> : i \in 1..PoolSize, j \in 1..PoolSize, k \in 1..PoolSize}
  \cup {<<"rseq", k>> : k \in 1..NRandStreams}
  \cup {<<"pay", o, cls, m>> : o \in 1..PayOuters, cls \in 1..16, m \in PayLens}
  \cup {<<"pay", o, cls, 1>> : o \in 1..PayOuters, cls \in 17..18}
  \cup {<<"pseq", i, o, cls, j>> : i \in 1..PaySeqPool, o \in 1..2, cls \in PayClasses, j \in 1..PaySeqPool}
  \cup {<<"long", i, t>> : i \in 1..LongKinds, t \in LongTotals}
  \cup {<<"long2", i, a, j, b, t>> : i \in 1..LongKinds, a \in {1, 3}, j \in 1..LongKinds, b \in {1, 2}, t \in LongTotals}
  \cup {<<"longh", i, j, t>> : i \in 1..LongKinds, j \in 1..LongKinds, t \in LongTotals}

\* seeded random length for a matrix row (row number from the fields)
RowLen(id, prot, p, s, ch, k) ==
  RandLen((((id * 2 + prot) * 3 + p) * 13 + s) * 8 + ch + 1000 * k, MaxFrameLen - HdrSize(prot))

WithLen(d, n) == [d EXCEPT !.f.n = n]

\* descriptors of the stream a key stands for (<<>>: the key names no valid stream)
StreamOf(k) ==
  CASE k[1] = "iso"    -> <<Iso(k[2], k[3], k[4], k[5], k[6], k[7], CrcOf(k[5], k[6], k[7]), Aux0)>>
    [] k[1] = "isor"   -> LET n == RowLen(k[2], k[3], k[4], k[5], k[6], k[7])
                          IN <<Iso(k[2], k[3], k[4], k[5], k[6], n, CrcOf(k[5], k[6], n), Aux0)>>
    [] k[1] = "isoaux" -> LET cf == <<<<1, 4, 2>>, <<0, 1, 7>>, <<2, 12, 1>>>>[k[5]]
                          IN <<Iso(k[3], k[4], cf[1], cf[2], cf[3], k[6], CrcOf(cf[2], cf[3], k[6]), AuxSeq[k[2]])>>
    [] k[1] = "lib"    -> <<Lib(AccObjSeq[k[2]], k[3], k[4], k[5])>>
    [] k[1] = "libr"   -> <<Lib(AccObjSeq[k[2]], k[3], k[4], RowLen(0, 1, k[2], k[3], k[4], k[5] + 50))>>
    [] k[1] = "seq2"   -> <<Pool[k[2]], Pool[k[3]]>>
    [] k[1] = "seq3"   -> <<Pool[k[2]], Pool[k[3]], Pool[k[4]]>>
    [] k[1] = "rseq"   -> [i \in 1..3 |->
                            LET d == Pool[1 + (Rnd(20000 + 7 * k[2] + i) % Len(Pool))]
                            IN WithLen(d, RandLen(30000 + 7 * k[2] + i, MaxFrameLen - HdrSize(d.f.prot)))]

    [] k[1] = "pay"    -> <<Carry(Outers[k[2]], k[3], k[4])>>
    [] k[1] = "pseq"   -> <<Pool[k[2]], Carry(Outers[k[3]], k[4], 6), Pool[k[5]]>>

StreamValid(ds) == \A i \in 1..Len(ds) : ValidFrame(ds[i].f) /\ ConfigOk(ds[i].f)

\* ------------------------------------------------------------------ cases
Numbered(ds) == [i \in 1..Len(ds) |-> [ds[i] EXCEPT !.f.fid = i]]

StreamCase(k, ds0) ==
  LET ds == Numbered(ds0) IN
  [kind |-> "stream", fam |-> k[1], mask |-> NamedMask,
   frames |-> [i \in 1..Len(ds) |->
     LET d == ds[i]  f == d.f IN
       [by  |-> d.by,
        asc |-> IF d.by = "lib" THEN AscBytes(d.obj, f.sfi, f.chan) ELSE <<>>,
        ld  |-> FrameLD(f), hf |-> Len(HeadLD(f)),
        \* expected outcome of the i-th Decode and abstract state after it
        exp |-> [raw     |-> [n |-> f.n, id |-> f.fid],
                 prot    |-> f.prot,
                 profile |-> f.profile, sfi |-> f.sfi, chan |-> f.chan,
                 obj     |-> ProfileObj(f.profile),
                 hz      |-> Hz(f.sfi),
                 size    |-> ByteLen(FrameLD(f)),
                 left    |-> ByteLen(StreamLD([j \in 1..(Len(ds) - i) |-> ds[i + j].f]))]]]]

\* a long stream: the runs in turn, cyc times over; `left` is what remains behind the last frame of
\* the run in the last cycle; the remainder behind every other frame follows from size and total
LongCase(k, sh) ==
  LET rs == [i \in 1..Len(sh.runs) |-> [sh.runs[i] EXCEPT !.d.f.fid = i]]
      cl == RunsLen(rs) IN
  [kind |-> "stream", fam |-> k[1], mask |-> NamedMask, cyc |-> sh.cyc, total |-> sh.cyc * cl,
   frames |-> [i \in 1..Len(rs) |->
     LET d == rs[i].d  f == d.f IN
       [by  |-> d.by, rep |-> rs[i].rep,
        asc |-> IF d.by = "lib" THEN AscBytes(d.obj, f.sfi, f.chan) ELSE <<>>,
        ld  |-> FrameLD(f), hf |-> Len(HeadLD(f)),
        exp |-> [raw     |-> [n |-> f.n, id |-> f.fid],
                 prot    |-> f.prot,
                 profile |-> f.profile, sfi |-> f.sfi, chan |-> f.chan,
                 obj     |-> ProfileObj(f.profile),
                 hz      |-> Hz(f.sfi),
                 size    |-> ByteLen(FrameLD(f)),
                 left    |-> RunsLen([j \in 1..(Len(rs) - i) |-> rs[i + j]])]]]]

IsLongKey(k) == k[1] \in {"long", "long2", "longh"}

SfiSeq  == [i \in 1..16 |-> i - 1] \o <<17, 20, 28, 255>>
ChanSeq == [i \in 1..16 |-> i - 1] \o <<17, 23, 255>>

CaseOf(k) ==
  CASE k[1] = "asc" ->
         [kind |-> "asc", b0 |-> k[2],
          exp |-> [i \in 1..256 |->
                     LET b == <<k[2], i - 1>>  d == AscDec(b)
                     IN <<IF AscAccepted(b) THEN 1 ELSE 0, d.obj, d.sfi, d.chan, AscCanon(b)[1], AscCanon(b)[2]>>]]
    [] k[1] = "ascm" ->
         [kind |-> "ascm", obj |-> k[2],
          exp |-> [i \in 1..(Len(SfiSeq) * Len(ChanSeq)) |->
                     LET s  == SfiSeq[1 + (i - 1) \div Len(ChanSeq)]
                         ch == ChanSeq[1 + ((i - 1) % Len(ChanSeq))]
                         ok == Accepted(k[2], s, ch)
                     IN <<s, ch, IF ok THEN 1 ELSE 0,
                          IF ok THEN AscBytes(k[2], s, ch)[1] ELSE 0,
                          IF ok THEN AscBytes(k[2], s, ch)[2] ELSE 0>>]]
    [] k[1] = "hz" -> [kind |-> "hz", table |-> FreqTable, total |-> 256]
    [] k[1] = "conv" ->
         [kind |-> "conv",
          \* ADTS profile per object type value 0..255 (255: the property does not say)
          profile |-> [i \in 1..256 |-> IF (i - 1) \in AcceptedObjs THEN ObjProfile(i - 1) ELSE 255],
          \* object type per ADTS profile 0..2
          obj |-> [p \in 1..3 |-> ProfileObj(p - 1)]]
    [] IsLongKey(k) -> LongCase(k, ShapeOf(k))
    [] OTHER -> StreamCase(k, StreamOf(k))

IsStreamKey(k) == k[1] \notin {"asc", "ascm", "hz", "conv"}

KeyValid(k) == IF IsLongKey(k) THEN ShapeValid(ShapeOf(k)) /\ (k[1] \in {"long2", "longh"} => k[2] # k[IF k[1] = "long2" THEN 4 ELSE 3])
               ELSE IsStreamKey(k) => StreamValid(StreamOf(k))
GenInit == /\ Init
           /\ c \in {k \in Keys : KeyValid(k)}
GenNext == UNCHANGED gvars

Emit == PrintT(<<"CASE", ToJson(CaseOf(c))>>)
=============================================================================
