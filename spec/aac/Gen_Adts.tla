------------------------------ MODULE Gen_Adts ------------------------------
(* Case generation for C11: TLC enumerates the value matrices; every case     *)
(* carries the input and the specification's expected outcome.                *)
(*   asc     one case per first byte: expectation for all 256 second bytes    *)
(*   ascm    one case per object type value: expectation for sfi x channels   *)
(*   hz/conv the ISO frequency table and the object type <-> profile mapping  *)
(*   stream  1..3 frames, each written by the library's Encode ("lib") or by  *)
(*           the specification ("iso": either ID, with/without CRC) as an LD, *)
(*           with the raw block, the reported fields and the number of bytes  *)
(*           left after each Decode                                           *)
EXTENDS Adts, TLC, Json, Gen_AdtsSeed

CONSTANTS Lens,        \* raw block lengths of the single-frame matrices
          NRandLens,   \* additional seeded random lengths per matrix row
          PoolSize,    \* how many descriptors of Pool the multi-frame streams draw from
          NRandStreams \* seeded random 3-frame streams

VARIABLE c
gvars == <<vars, c>>

\* ----------------------------------------------------------- seeded choice
\* a hash of (Seed, k), k < 70000, every intermediate below 2^31
Rnd(k) ==
  LET h1 == ((k + 1) * 30011 + (Seed % 65537) * 7919) % 65537
      h2 == (h1 * 75 + 74) % 65537
  IN ((h2 % 32768) * (h2 \div 2 + 1) + h1) % 65537
RandLen(k, max) == 1 + (Rnd(k) % max)

\* ------------------------------------------------------------- descriptors
AuxAll == [priv |-> 1, orig |-> 1, home |-> 1, cib |-> 1, cis |-> 1, bf |-> 0]
AuxMix == [priv |-> 0, orig |-> 1, home |-> 0, cib |-> 0, cis |-> 1, bf |-> 1365]
AuxSeq == <<Aux0, AuxAll, AuxMix,
            [priv |-> 1, orig |-> 0, home |-> 0, cib |-> 0, cis |-> 0, bf |-> 2047],
            [priv |-> 0, orig |-> 0, home |-> 0, cib |-> 1, cis |-> 0, bf |-> 1]>>

Iso(id, prot, profile, sfi, chan, n, crc, aux) ==
  [by |-> "iso", obj |-> 0,
   f |-> [id |-> id, prot |-> prot, profile |-> profile, sfi |-> sfi, chan |-> chan,
          n |-> n, fid |-> 0, crc |-> crc, aux |-> aux]]
Lib(obj, sfi, chan, n) ==
  [by |-> "lib", obj |-> obj, f |-> LibFrame([obj |-> obj, sfi |-> sfi, chan |-> chan], n, 0, 0)]

\* a CRC value that depends on the frame: 0xFFF1 (a sync word), 0, 0xFFFF, or a pattern
CrcOf(sfi, chan, n) ==
  CASE (sfi + chan + n) % 4 = 0 -> 65521
    [] (sfi + chan + n) % 4 = 1 -> 0
    [] (sfi + chan + n) % 4 = 2 -> 65535
    [] OTHER -> (n * 257 + sfi * 16 + chan) % 65536

Pool == << Lib(ObjLC, 4, 2, 249),                         \* frame length 256
           Iso(1, 0, 1, 4, 2, 247, 65521, Aux0),          \* CRC, frame length 256, CRC = FF F1
           Lib(ObjHEv2, 12, 7, 1),
           Iso(0, 0, 0, 1, 1, 2, 0, AuxAll),              \* CRC, MPEG-4 id
           Iso(1, 1, 2, 11, 6, 2041, 0, AuxAll),          \* frame length 2048
           Iso(0, 0, 1, 3, 2, 8182, 65535, Aux0),         \* CRC, frame length 8191
           Lib(ObjMain, 1, 1, 8184),                      \* frame length 8191
           Iso(0, 1, 1, 8, 1, 1, 0, AuxMix),
           Lib(ObjHE, 6, 2, 2041),
           Iso(1, 0, 2, 12, 7, 2039, 4660, AuxMix),       \* CRC, frame length 2048
           Lib(ObjSSR, 11, 5, 8),
           Iso(1, 0, 1, 7, 3, 1, 65521, AuxAll) >>        \* CRC, 1 byte

AccObjSeq == <<ObjMain, ObjLC, ObjSSR, ObjHE, ObjHEv2>>

LensFor(prot, base) == {n \in Lens \cup {RandLen(base + k, MaxFrameLen - HdrSize(prot)) : k \in 1..NRandLens} :
                          HdrSize(prot) + n <= MaxFrameLen}

\* ------------------------------------------------------------------ keys
Keys ==
  {<<"asc", b0>> : b0 \in 0..255}
  \cup {<<"ascm", o>> : o \in (0..31) \cup {33, 34, 37, 61, 255}}
  \cup {<<"hz">>, <<"conv">>}
  \cup {<<"iso", id, prot, p, s, ch, n>> :
          id \in 0..1, prot \in 0..1, p \in 0..2, s \in 1..12, ch \in 1..7, n \in Lens}
  \cup {<<"isor", id, prot, p, s, ch, k>> :
          id \in 0..1, prot \in 0..1, p \in 0..2, s \in 1..12, ch \in 1..7, k \in 1..NRandLens}
  \cup {<<"isoaux", a, id, prot, k, n>> :
          a \in 2..Len(AuxSeq), id \in 0..1, prot \in 0..1, k \in 1..3, n \in {1, 249, 2041, 8182}}
  \cup {<<"lib", o, s, ch, n>> : o \in 1..5, s \in 1..12, ch \in 1..7, n \in Lens}
  \cup {<<"libr", o, s, ch, k>> : o \in 1..5, s \in 1..12, ch \in 1..7, k \in 1..NRandLens}
  \cup {<<"seq2", i, j>> : i \in 1..PoolSize, j \in 1..PoolSize}
  \cup {<<"seq3", i, j, k>> : i \in 1..PoolSize, j \in 1..PoolSize, k \in 1..PoolSize}
  \cup {<<"rseq", k>> : k \in 1..NRandStreams}

\* seeded random length for a matrix row (row number from the fields)
RowLen(id, prot, p, s, ch, k) ==
  RandLen((((id * 2 + prot) * 3 + p) * 13 + s) * 8 + ch + 1000 * k, MaxFrameLen - HdrSize(prot))

WithLen(d, n) == [d EXCEPT !.f.n = n]

\* descriptors of the stream a key stands for (<<>>: the key names no valid stream)
StreamOf(k) ==
  CASE k[1] = "iso"    -> <<Iso(k[2], k[3], k[4], k[5], k[6], k[7], CrcOf(k[5], k[6], k[7]), Aux0)>>
    [] k[1] = "isor"   -> LET n == RowLen(k[2], k[3], k[4], k[5], k[6], k[7])
                          IN <<Iso(k[2], k[3], k[4], k[5], k[6], n, CrcOf(k[5], k[6], n), Aux0)>>
    [] k[1] = "isoaux" -> LET cf == <<<<1, 4, 2>>, <<0, 1, 7>>, <<2, 12, 1>>>>[k[5]]
                          IN <<Iso(k[3], k[4], cf[1], cf[2], cf[3], k[6], CrcOf(cf[2], cf[3], k[6]), AuxSeq[k[2]])>>
    [] k[1] = "lib"    -> <<Lib(AccObjSeq[k[2]], k[3], k[4], k[5])>>
    [] k[1] = "libr"   -> <<Lib(AccObjSeq[k[2]], k[3], k[4], RowLen(0, 1, k[2], k[3], k[4], k[5] + 50))>>
    [] k[1] = "seq2"   -> <<Pool[k[2]], Pool[k[3]]>>
    [] k[1] = "seq3"   -> <<Pool[k[2]], Pool[k[3]], Pool[k[4]]>>
    [] k[1] = "rseq"   -> [i \in 1..3 |->
                            LET d == Pool[1 + (Rnd(20000 + 7 * k[2] + i) % Len(Pool))]
                            IN WithLen(d, RandLen(30000 + 7 * k[2] + i, MaxFrameLen - HdrSize(d.f.prot)))]

StreamValid(ds) == \A i \in 1..Len(ds) : ValidFrame(ds[i].f) /\ ConfigOk(ds[i].f)

\* ------------------------------------------------------------------ cases
Numbered(ds) == [i \in 1..Len(ds) |-> [ds[i] EXCEPT !.f.fid = i]]

StreamCase(k, ds0) ==
  LET ds == Numbered(ds0) IN
  [kind |-> "stream", fam |-> k[1], mask |-> NamedMask,
   frames |-> [i \in 1..Len(ds) |->
     LET d == ds[i]  f == d.f IN
       [by  |-> d.by,
        asc |-> IF d.by = "lib" THEN AscBytes(d.obj, f.sfi, f.chan) ELSE <<>>,
        ld  |-> FrameLD(f),
        \* expected outcome of the i-th Decode and abstract state after it
        exp |-> [raw     |-> [n |-> f.n, id |-> f.fid],
                 prot    |-> f.prot,
                 profile |-> f.profile, sfi |-> f.sfi, chan |-> f.chan,
                 obj     |-> ProfileObj(f.profile),
                 hz      |-> Hz(f.sfi),
                 size    |-> ByteLen(FrameLD(f)),
                 left    |-> ByteLen(StreamLD([j \in 1..(Len(ds) - i) |-> ds[i + j].f]))]]]]

SfiSeq  == [i \in 1..16 |-> i - 1] \o <<17, 20, 28, 255>>
ChanSeq == [i \in 1..16 |-> i - 1] \o <<17, 23, 255>>

CaseOf(k) ==
  CASE k[1] = "asc" ->
         [kind |-> "asc", b0 |-> k[2],
          exp |-> [i \in 1..256 |->
                     LET b == <<k[2], i - 1>>  d == AscDec(b)
                     IN <<IF AscAccepted(b) THEN 1 ELSE 0, d.obj, d.sfi, d.chan, AscCanon(b)[1], AscCanon(b)[2]>>]]
    [] k[1] = "ascm" ->
         [kind |-> "ascm", obj |-> k[2],
          exp |-> [i \in 1..(Len(SfiSeq) * Len(ChanSeq)) |->
                     LET s  == SfiSeq[1 + (i - 1) \div Len(ChanSeq)]
                         ch == ChanSeq[1 + ((i - 1) % Len(ChanSeq))]
                         ok == Accepted(k[2], s, ch)
                     IN <<s, ch, IF ok THEN 1 ELSE 0,
                          IF ok THEN AscBytes(k[2], s, ch)[1] ELSE 0,
                          IF ok THEN AscBytes(k[2], s, ch)[2] ELSE 0>>]]
    [] k[1] = "hz" -> [kind |-> "hz", table |-> FreqTable, total |-> 256]
    [] k[1] = "conv" ->
         [kind |-> "conv",
          \* ADTS profile per object type value 0..255 (255: the property does not say)
          profile |-> [i \in 1..256 |-> IF (i - 1) \in AcceptedObjs THEN ObjProfile(i - 1) ELSE 255],
          \* object type per ADTS profile 0..2
          obj |-> [p \in 1..3 |-> ProfileObj(p - 1)]]
    [] OTHER -> StreamCase(k, StreamOf(k))

IsStreamKey(k) == k[1] \notin {"asc", "ascm", "hz", "conv"}

GenInit == /\ Init
           /\ c \in {k \in Keys : IsStreamKey(k) => StreamValid(StreamOf(k))}
GenNext == UNCHANGED gvars

Emit == PrintT(<<"CASE", ToJson(CaseOf(c))>>)
=============================================================================
