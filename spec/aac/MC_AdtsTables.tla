--------------------------- MODULE MC_AdtsTables ---------------------------
(* The layout functions of Adts checked against their own reference decoders  *)
(* over the complete finite matrices: all 65536 AudioSpecificConfig inputs,   *)
(* all 32 x 16 x 16 field triples, all ADTS header field combinations x       *)
(* boundary frame lengths, all 8192 frame lengths for two configurations.     *)
EXTENDS Adts
VARIABLE t
AuxSet == { Aux0,
            [priv |-> 1, orig |-> 1, home |-> 1, cib |-> 1, cis |-> 1, bf |-> 0],
            [priv |-> 0, orig |-> 1, home |-> 0, cib |-> 0, cis |-> 1, bf |-> 1365] }
BoundaryLens == {0, 7, 8, 9, 10, 255, 256, 257, 2047, 2048, 2049, 4095, 4096, 8190, 8191}

TabInit ==
  /\ Init
  /\ \/ \E b0 \in 0..255, b1 \in 0..255 : t = <<"asc", b0, b1>>
     \/ \E o \in 0..31, s \in 0..15, c \in 0..15 : t = <<"fields", o, s, c>>
     \/ \E id \in 0..1, prot \in 0..1, p \in 0..3, s \in 0..15, c \in 0..7, fl \in BoundaryLens, a \in AuxSet :
          t = <<"hdr", id, prot, p, s, c, fl, a>>
     \/ \E id \in 0..1, prot \in 0..1, fl \in 0..8191, k \in 1..2 :
          t = <<"hdr", id, prot, IF k = 1 THEN 1 ELSE 2, IF k = 1 THEN 4 ELSE 11,
                IF k = 1 THEN 2 ELSE 7, fl, Aux0>>
     \/ \E o \in 0..31 : t = <<"obj", o>>
     \/ \E i \in 0..12 : t = <<"hz", i>>
TabNext == UNCHANGED <<vars, t>>

IsByte(x) == x \in 0..255

AscOk ==
  t[1] = "asc" =>
    LET b == <<t[2], t[3]>>  d == AscDec(b) IN
      /\ d.obj \in 0..31 /\ d.sfi \in 0..15 /\ d.chan \in 0..15
      /\ AscBytes(d.obj, d.sfi, d.chan) = AscCanon(b)              \* marshal . unmarshal on 13 bits
      /\ AscAccepted(b) <=> Accepted(d.obj, d.sfi, d.chan)
      /\ AscAccepted(b) => (ObjProfile(d.obj) \in 0..2 /\ d.sfi + 1 \in DOMAIN FreqTable)
FieldsOk ==
  t[1] = "fields" =>
    LET b == AscBytes(t[2], t[3], t[4]) IN
      /\ IsByte(b[1]) /\ IsByte(b[2]) /\ b[2] % 8 = 0
      /\ AscDec(b) = [obj |-> t[2], sfi |-> t[3], chan |-> t[4]]   \* unmarshal . marshal
HdrOk ==
  t[1] = "hdr" =>
    LET a == t[8]
        b == AdtsHdr(t[2], t[3], t[4], t[5], t[6], t[7], a)
        h == HdrDec(b) IN
      /\ Len(b) = 7 /\ \A i \in 1..7 : IsByte(b[i])
      /\ b[1] = 255 /\ b[2] \div 16 = 15                           \* syncword
      /\ h.id = t[2] /\ h.layer = 0 /\ h.prot = t[3] /\ h.profile = t[4] /\ h.sfi = t[5]
      /\ h.chan = t[6] /\ h.fl = t[7] /\ h.nrdb = 0
      /\ h.priv = a.priv /\ h.orig = a.orig /\ h.home = a.home /\ h.cib = a.cib /\ h.cis = a.cis
      /\ h.bf = a.bf
      \* aac_frame_length straddles bytes 3..5
      /\ (b[4] % 4) * 2048 + b[5] * 8 + b[6] \div 32 = t[7]
ObjOk ==
  t[1] = "obj" =>
    LET o == t[2] IN
      /\ (o \in AcceptedObjs) => (ObjProfile(o) \in 0..2 /\ ObjProfile(ProfileObj(ObjProfile(o))) = ObjProfile(o))
      /\ (o \in 1..3) => ProfileObj(ObjProfile(o)) = o
      /\ (o \notin AcceptedObjs) => ObjProfile(o) = 3
HzOk ==
  t[1] = "hz" =>
    LET i == t[2] IN
      /\ Hz(i) \in 7350..96000
      /\ i > 0 => Hz(i) < Hz(i - 1)
      /\ Hz(i) \in {96000 \div k : k \in {1, 2, 3, 4, 6, 8, 12}} \cup {88200 \div k : k \in {1, 2, 4, 8, 12}} \cup {64000}
=============================================================================
