------------------------------- MODULE Adts -------------------------------
(* ADTS framing (ISO/IEC 13818-7 6.2, ISO/IEC 14496-3 1.A.2) and the 2-byte  *)
(* AudioSpecificConfig (ISO/IEC 14496-3 1.6.2.1).                             *)
(*                                                                            *)
(*   adts_fixed_header    syncword 12 = 0xFFF | ID 1 | layer 2 = 00 |         *)
(*                        protection_absent 1 | profile 2 |                   *)
(*                        sampling_frequency_index 4 | private_bit 1 |        *)
(*                        channel_configuration 3 | original/copy 1 | home 1  *)
(*   adts_variable_header copyright_identification_bit 1 | .._start 1 |       *)
(*                        aac_frame_length 13 | adts_buffer_fullness 11 |     *)
(*                        number_of_raw_data_blocks_in_frame 2                *)
(*   adts_error_check     crc_check 16, present iff protection_absent = 0     *)
(*   aac_frame_length counts the header, the error check and the raw block.   *)
(*                                                                            *)
(*   AudioSpecificConfig  audioObjectType 5 | samplingFrequencyIndex 4 |      *)
(*                        channelConfiguration 4 | (GASpecificConfig 3 = 000) *)
(*                                                                            *)
(* The module is shaped like the library's aac.ADTS object: one configuration *)
(* record `asc` that SetASC and Decode overwrite and Encode reads; Encode     *)
(* appends a frame to a byte stream, an independent ISO writer appends frames *)
(* of its own (either ID, with or without CRC), Decode takes one frame off    *)
(* the head of the stream and leaves the remainder.                           *)
(*                                                                            *)
(* A raw data block is an opaque byte string to ADTS: a frame descriptor      *)
(* carries the block's content as a layout `pre` (literal bytes, possibly a   *)
(* complete ADTS frame of this very specification, possibly only bytes that   *)
(* look like a header) followed by pattern bytes.  Whatever the block holds,  *)
(* the frame around it is header (+ error check) + block.                     *)
EXTENDS Naturals, Sequences, LD

CONSTANTS
  AscInputs,   \* set of <<b0, b1>>: what SetASC may be given
  RawLens,     \* raw block lengths handed to Encode
  LibIds,      \* ID bit values the muxer may choose (the property leaves ID free)
  Frames,      \* descriptors of the frames the independent ISO writer may write
  MaxFrames,   \* frames written per behaviour
  CrcCounted,  \* TRUE: ISO 13818-7.  FALSE: named deviation 'CRC header counted as
               \* 7 bytes' (the 2 CRC bytes are skipped but raw = frame_length - 7)
  PayFrames,   \* payload class 'a complete ADTS frame': descriptors of frames whose bytes
               \* may be handed to Encode as its raw block
  TwiceLens,   \* payload class 'wrapped twice': lengths n for Encode(Encode(n bytes))
  PayHeads,    \* payload class 'looks like a header': byte tuples a raw block handed to
               \* Encode may start with
  PassThrough, \* FALSE: the raw block is opaque.  TRUE: named deviation 'a raw block that
               \* is itself a complete ADTS frame is passed through, never muxed twice'
  LenMod       \* 0: the decoder sees the true length of its input.  m > 0: named deviation
               \* 'the length of the input is held in log2(m) bits' (65536: a 16-bit integer)

VARIABLES
  asc,    \* the object's configuration record [obj, sfi, chan]
  res,    \* result class of the last call: "new" | "ok" | "err"
  wire,   \* bytes written to the stream and not yet taken by Decode
  pend,   \* ghost: descriptors of the frames that make up `wire`, oldest first
  got,    \* <<result of Decode>> if the last call was Decode, else <<>>
  last,   \* ghost: <<descriptor of the frame that Decode had at the head>>, or <<>>
  nw      \* number of frames written so far
vars == <<asc, res, wire, pend, got, last, nw>>

\* ------------------------------------------------------------- ISO tables
ObjMain == 1   ObjLC == 2   ObjSSR == 3   ObjHE == 5   ObjHEv2 == 29
AcceptedObjs == {ObjMain, ObjLC, ObjSSR, ObjHE, ObjHEv2}

\* what the library accepts (the property's domain)
Accepted(o, s, c) == o \in AcceptedObjs /\ s \in 1..12 /\ c \in 1..7

\* ADTS profile of an audio object type: profile = object type - 1 for Main, LC,
\* SSR (14496-3 1.A.2.2.1); SBR (HE) and SBR+PS (HEv2) ride on an LC core and
\* are signalled implicitly, i.e. as LC.  3 = not representable.
ObjProfile(o) == CASE o = ObjMain -> 0
                   [] o \in {ObjLC, ObjHE, ObjHEv2} -> 1
                   [] o = ObjSSR -> 2
                   [] OTHER -> 3
\* object type a demuxer reports for an ADTS profile (0 = none)
ProfileObj(p) == IF p \in 0..2 THEN p + 1 ELSE 0

\* ISO/IEC 13818-7 Table 35 / 14496-3 Table 1.16: sampling frequency by index 0..12
FreqTable == <<96000, 88200, 64000, 48000, 44100, 32000, 24000,
               22050, 16000, 12000, 11025, 8000, 7350>>
Hz(i) == FreqTable[i + 1]

\* ------------------------------------------------- AudioSpecificConfig (2 bytes)
\* oooo osss | sccc c000
AscBytes(o, s, c) == <<o * 8 + s \div 2, (s % 2) * 128 + c * 8>>
AscDec(b) == [obj  |-> b[1] \div 8,
              sfi  |-> (b[1] % 8) * 2 + b[2] \div 128,
              chan |-> (b[2] \div 8) % 16]
AscAccepted(b) == LET d == AscDec(b) IN Accepted(d.obj, d.sfi, d.chan)
AscCanon(b) == <<b[1], b[2] - (b[2] % 8)>>      \* the 13 significant bits

\* ------------------------------------------------------------ ADTS frames
\* Bits of the header a conformant writer is free to set.
Aux0 == [priv |-> 0, orig |-> 0, home |-> 0, cib |-> 0, cis |-> 0, bf |-> 2047]

HdrSize(prot) == IF prot = 1 THEN 7 ELSE 9
MaxFrameLen == 8191                                       \* 13 bits

\* The 7 header bytes, bit by bit from 13818-7 6.2.1 / 6.2.2.
AdtsHdr(id, prot, profile, sfi, chan, fl, aux) ==
  << 255,                                                           \* syncword[11..4]
     240 + id * 8 + 0 * 2 + prot,                                   \* syncword[3..0] ID layer(2)=00 protection_absent
     profile * 64 + sfi * 4 + aux.priv * 2 + chan \div 4,           \* profile(2) sfi(4) private chan[2]
     (chan % 4) * 64 + aux.orig * 32 + aux.home * 16
        + aux.cib * 8 + aux.cis * 4 + fl \div 2048,                 \* chan[1..0] orig home cib cis len[12..11]
     (fl \div 8) % 256,                                             \* len[10..3]
     (fl % 8) * 32 + aux.bf \div 64,                                \* len[2..0] fullness[10..6]
     (aux.bf % 64) * 4 + 0 >>                                       \* fullness[5..0] raw_data_blocks(2)=0

\* Header bits the property names (sync, layer, protection, profile, rate, channels,
\* length, block count); the others (ID, private, original, home, copyright,
\* fullness) are the encoder's own business.
NamedMask == <<255, 247, 253, 195, 255, 224, 3>>

\* A frame descriptor: [id, prot, profile, sfi, chan, n, fid, crc, aux, pre];
\* a raw block of n bytes: the layout pre (<<>> for an ordinary block), then pattern
\* bytes with pattern id fid; crc is the 16 bits of adts_error_check.
FrameLen(f)  == HdrSize(f.prot) + f.n
ConfigOk(f)  == f.profile \in 0..2 /\ f.sfi \in 1..12 /\ f.chan \in 1..7
ValidFrame(f) == /\ f.n >= 1 /\ FrameLen(f) <= MaxFrameLen /\ f.id \in 0..1 /\ f.prot \in 0..1
                 /\ ByteLen(f.pre) <= f.n

\* the raw data block: what the caller hands to the muxer / gets from the demuxer
BodyLD(f) == f.pre \o (IF f.n > ByteLen(f.pre) THEN <<Fill(f.n - ByteLen(f.pre), f.fid)>> ELSE <<>>)
HeadLD(f) ==
  <<Raw(AdtsHdr(f.id, f.prot, f.profile, f.sfi, f.chan, FrameLen(f), f.aux))>>
  \o (IF f.prot = 0 THEN <<U16(f.crc)>> ELSE <<>>)
FrameLD(f) == HeadLD(f) \o BodyLD(f)

RawOf(f) == Bytes(BodyLD(f))

\* ---- payload classes (what a raw block may look like; the property says "arbitrary")
\* the block is the complete frame g (Encode(Encode(x)), ADTS carried in ADTS)
PreFrame(g) == FrameLD(g)
\* the block starts with a 12-bit sync word and the 4 bits behind it
PreSync(nib) == <<Raw(<<255, 240 + nib>>)>>
\* the block starts with the 7 header bytes of a frame of fl bytes (fl need not be the block's length)
PreHdr(id, prot, profile, sfi, chan, fl) == <<Raw(AdtsHdr(id, prot, profile, sfi, chan, fl, Aux0))>>

RECURSIVE StreamLD(_)
StreamLD(fs) == IF fs = <<>> THEN <<>> ELSE FrameLD(Head(fs)) \o StreamLD(Tail(fs))

\* the frame the muxer writes for configuration a
LibFrame(a, n, id, fid) ==
  [id |-> id, prot |-> 1, profile |-> ObjProfile(a.obj), sfi |-> a.sfi, chan |-> a.chan,
   n |-> n, fid |-> fid, crc |-> 0, aux |-> Aux0, pre |-> <<>>]
\* ... for a raw block that starts with the layout pre
LibFrameP(a, n, id, fid, pre) == [LibFrame(a, n, id, fid) EXCEPT !.pre = pre]

\* --------------------------------------- byte-level reference decoder (total)
DecErr(why) == [ok |-> FALSE, why |-> why, id |-> 0, layer |-> 0, prot |-> 0, profile |-> 0,
                sfi |-> 0, chan |-> 0, fl |-> 0, bf |-> 0, nrdb |-> 0, raw |-> <<>>, left |-> <<>>]

HdrDec(b) == [id      |-> (b[2] \div 8) % 2,
              layer   |-> (b[2] \div 2) % 4,
              prot    |-> b[2] % 2,
              profile |-> b[3] \div 64,
              sfi     |-> (b[3] \div 4) % 16,
              priv    |-> (b[3] \div 2) % 2,
              chan    |-> (b[3] % 2) * 4 + b[4] \div 64,
              orig    |-> (b[4] \div 32) % 2,
              home    |-> (b[4] \div 16) % 2,
              cib     |-> (b[4] \div 8) % 2,
              cis     |-> (b[4] \div 4) % 2,
              fl      |-> (b[4] % 4) * 2048 + b[5] * 8 + b[6] \div 32,
              bf      |-> (b[6] % 32) * 64 + b[7] \div 4,
              nrdb    |-> b[7] % 4]

\* the length of its input as the decoder sees it
BufLen(b) == IF LenMod = 0 THEN Len(b) ELSE Len(b) % LenMod

DecodeOne(b) ==
  IF Len(b) < 7 THEN DecErr("short")
  ELSE IF b[1] # 255 \/ b[2] \div 16 # 15 THEN DecErr("sync")
  ELSE LET h    == HdrDec(b)
           skip == HdrSize(h.prot)                             \* bytes in front of the raw block
           hs   == IF CrcCounted THEN HdrSize(h.prot) ELSE 7   \* what is subtracted from the length
       IN IF h.fl < hs THEN DecErr("length")
          ELSE IF BufLen(b) < skip + (h.fl - hs) THEN DecErr("short")
          ELSE [ok |-> TRUE, why |-> "", id |-> h.id, layer |-> h.layer, prot |-> h.prot,
                profile |-> h.profile, sfi |-> h.sfi, chan |-> h.chan, fl |-> h.fl,
                bf |-> h.bf, nrdb |-> h.nrdb,
                raw  |-> Sub(b, skip + 1, h.fl - hs),
                left |-> Drop(b, skip + (h.fl - hs))]

\* ------------------------------------------------------------ transitions
Asc0 == [obj |-> 0, sfi |-> 0, chan |-> 0]            \* the zero value of a new object

Init == /\ asc = Asc0 /\ res = "new" /\ wire = <<>> /\ pend = <<>>
        /\ got = <<>> /\ last = <<>> /\ nw = 0

\* ADTS.SetASC(b): the fields are stored, then validated
SetASC(b) ==
  /\ asc' = AscDec(b)
  /\ res' = IF AscAccepted(b) THEN "ok" ELSE "err"
  /\ got' = <<>> /\ last' = <<>>
  /\ UNCHANGED <<wire, pend, nw>>

\* does a byte string look like exactly one complete ADTS frame?
IsWholeFrame(b) == LET r == DecodeOne(b) IN r.ok /\ r.layer = 0 /\ r.left = <<>> /\ r.fl = Len(b)

\* the bytes the muxer makes of the frame f it was asked for
MuxBytes(f) == IF PassThrough /\ IsWholeFrame(RawOf(f)) THEN RawOf(f) ELSE Bytes(FrameLD(f))

\* ADTS.Encode(raw) with a valid configuration ("user must set the asc first"):
\* the frame goes to the stream.  raw = n bytes starting with the layout pre.
EncodeP(n, id, pre) ==
  /\ nw < MaxFrames
  /\ Accepted(asc.obj, asc.sfi, asc.chan)
  /\ LET f == LibFrameP(asc, n, id, nw + 1, pre) IN
       /\ ValidFrame(f)
       /\ wire' = wire \o MuxBytes(f)
       /\ pend' = Append(pend, f)
  /\ nw' = nw + 1 /\ res' = "ok"
  /\ got' = <<>> /\ last' = <<>>
  /\ UNCHANGED asc

\* an ordinary raw block
Encode(n, id) == EncodeP(n, id, <<>>)
\* the raw block is a complete frame of the ISO writer
EncodeFrame(g0, id) ==
  LET g == [g0 EXCEPT !.fid = nw + 1] IN
    ValidFrame(g) /\ ConfigOk(g) /\ EncodeP(FrameLen(g), id, PreFrame(g))
\* the raw block is the frame this very object makes of n bytes: Encode(Encode(x))
EncodeTwice(n, id) ==
  /\ Accepted(asc.obj, asc.sfi, asc.chan)
  /\ LET g == LibFrame(asc, n, id, nw + 1) IN ValidFrame(g) /\ EncodeP(FrameLen(g), id, PreFrame(g))
\* the raw block of n bytes starts with bytes that look like a header
EncodeHead(n, id, h) == Len(h) <= n /\ EncodeP(n, id, <<Raw(h)>>)

\* the independent ISO 13818-7 writer appends one of its frames
Write(f0) ==
  /\ nw < MaxFrames
  /\ LET f == [f0 EXCEPT !.fid = nw + 1] IN
       /\ ValidFrame(f) /\ ConfigOk(f)
       /\ wire' = wire \o Bytes(FrameLD(f))
       /\ pend' = Append(pend, f)
  /\ nw' = nw + 1
  /\ got' = <<>> /\ last' = <<>>
  /\ UNCHANGED <<asc, res>>

\* ADTS.Decode(stream): one frame off the head, the remainder stays
Decode ==
  /\ pend # <<>>
  /\ LET r == DecodeOne(wire) IN
       /\ got' = <<r>>
       /\ last' = <<Head(pend)>>
       /\ pend' = Tail(pend)
       /\ IF r.ok
          THEN /\ wire' = r.left
               /\ asc' = [obj |-> ProfileObj(r.profile), sfi |-> r.sfi, chan |-> r.chan]
               /\ res' = IF Accepted(ProfileObj(r.profile), r.sfi, r.chan) THEN "ok" ELSE "err"
          ELSE /\ res' = "err" /\ UNCHANGED <<wire, asc>>
  /\ UNCHANGED nw

Next == \/ \E b \in AscInputs : SetASC(b)
        \/ \E n \in RawLens, id \in LibIds : Encode(n, id)
        \/ \E g \in PayFrames, id \in LibIds : EncodeFrame(g, id)
        \/ \E n \in TwiceLens, id \in LibIds : EncodeTwice(n, id)
        \/ \E n \in RawLens, id \in LibIds, h \in PayHeads : EncodeHead(n, id, h)
        \/ \E f \in Frames : Write(f)
        \/ Decode
Spec == Init /\ [][Next]_vars

\* -------------------------------------------------------------- properties
\* The stream is always exactly the frames not yet decoded: nothing is lost, nothing
\* of a frame is left behind, and after the last frame nothing is left over.
WireIsPending == wire = Bytes(StreamLD(pend))
\* ... in the property's words: the remainder starts at the next sync word
SyncAtHead == wire # <<>> => (Len(wire) >= 2 /\ wire[1] = 255 /\ wire[2] \div 16 = 15)
Drained    == pend = <<>> => wire = <<>>
\* Decode returns exactly the raw data block and reports the frame's profile, sampling
\* index and channels (for library frames: the configuration's ADTS profile).
DecodeExact ==
  got # <<>> =>
    LET r == got[1]  f == last[1] IN
      /\ r.ok
      /\ r.raw = RawOf(f)
      /\ r.profile = f.profile /\ r.sfi = f.sfi /\ r.chan = f.chan
      /\ r.layer = 0 /\ r.nrdb = 0 /\ r.fl = FrameLen(f)
      /\ asc = [obj |-> ProfileObj(f.profile), sfi |-> f.sfi, chan |-> f.chan]
      /\ ObjProfile(asc.obj) = f.profile
      /\ res = "ok"
\* SetASC accepts exactly the accepted configurations
SetAscOk == res # "new" => ((res = "ok") <=> Accepted(asc.obj, asc.sfi, asc.chan))
=============================================================================
