SPECIFICATION Spec
CONSTANTS
  Docs <- McDocsApos
  ReadSizes <- McAnyRead
  EscapeAware = FALSE
  AposStrings = TRUE
INVARIANTS StripOk
VIEW McView
CHECK_DEADLOCK FALSE
