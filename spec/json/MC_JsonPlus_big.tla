-------------------------- MODULE MC_JsonPlus_big --------------------------
(* The exhaustive check of MC_JsonPlus with bodies of up to 4 atoms /         *)
(* characters (thorough tier).  A module of its own because TLC evaluates     *)
(* every constant definition of a module at start-up, used or not.            *)
EXTENDS MC_JsonPlus
McDocsBig == DocsOver(StrBodies(McAtoms \cup {"O"}, 4), BlockBodies(Classes, 4), LineBodies(Classes, 4))
=============================================================================
