SPECIFICATION Spec
CONSTANTS
  Docs <- McDocsBig
  ReadSizes <- McAnyRead
  EscapeAware = TRUE
  AposStrings = FALSE
INVARIANTS TypeOK StripOk PassThrough OutIsFold
VIEW McView
CHECK_DEADLOCK FALSE
