INIT WalkInit
NEXT WalkNext
CONSTANTS
  Docs = {}
  ReadSizes = {1, 2, 3, 5, 8, 13, 40}
  EscapeAware = TRUE
  AposStrings = FALSE
  Fams = {}
  StrAtoms = {}
  StrK = 0
  ComClasses = {}
  ComK = 0
  BigFams = {}
  WalkMaxBody = 24
  WalkMaxCom = 6
  WalkMaxItems = 40
INVARIANTS EmitWalk WalkInv
CHECK_DEADLOCK FALSE
