------------------------------ MODULE JsonPlus ------------------------------
(* A comment-aware JSON reader ("JSON plus // line and /* block */ comments") *)
(* as a character-class model.                                               *)
(*                                                                           *)
(* Characters are abstracted to the classes that matter to a comment         *)
(* stripper:                                                                 *)
(*   q quote "    b backslash \    s slash /    t star *    a apostrophe '    *)
(*   n newline    p JSON punctuation {}[]:,     o any other character         *)
(* plus two symbolic characters for inputs that cannot be written out:       *)
(*   F  a run of doc.fill characters of class o                               *)
(*   R  doc.m repetitions of the token group doc.unit                         *)
(*                                                                           *)
(* The module is shaped like the implementation: a reader that is handed the *)
(* input in pieces (Read(n): the underlying io.Reader returns n characters)  *)
(* and runs a lexer over what it has (Step: one character), emitting the     *)
(* characters that are not comment.  The lexer is the reference stripper:    *)
(* states Code, Str, StrEsc, Slash, Line, Block, BlockStar.                  *)
(*                                                                           *)
(* Inputs are not arbitrary class sequences but *documents*: the token       *)
(* sequence of a JSON value, decorated between tokens with white space, line *)
(* comments and block comments.  RFC 8259 fixes what can occur where:        *)
(*   - outside string literals only punctuation, scalars and white space;    *)
(*     in particular no apostrophe, no slash                                 *)
(*   - inside a string literal any character except a raw quote, a raw       *)
(*     backslash and raw control characters (so no raw newline); a backslash *)
(*     is followed by one of " \ / b f n r t or uXXXX                        *)
(*   - a line comment body is anything without newline, a block comment body *)
(*     anything that does not contain star-slash.                            *)
EXTENDS Naturals, Sequences, FiniteSets, TLC

CONSTANTS
  Docs,         \* the set of documents explored
  ReadSizes,    \* Read(n) hands over n characters, n in ReadSizes or all that is left
  EscapeAware,  \* TRUE: the reference.  FALSE: named deviation "the end-of-string search
                \*       ignores backslash escapes" (go-oryx-lib before 81099ee)
  AposStrings   \* FALSE: the reference (JSON has no apostrophe strings).  TRUE: regions
                \*       between apostrophes are passed through like strings (what
                \*       go-oryx-lib does; must be harmless on documents)

VARIABLES
  doc,     \* the document being read (constant during a behaviour)
  input,   \* its text as a sequence of character classes
  fed,     \* number of characters the underlying reader has handed over
  cur,     \* number of characters the lexer has consumed
  st,      \* lexer state
  out,     \* characters emitted so far
  err,     \* end of input inside a string or a block comment
  phase,   \* "build" (only used by the random document builder of Gen), "feed", "done"
  reads    \* history: the sizes of the reads (hidden from the MC runs by VIEW)

vars == <<doc, input, fed, cur, st, out, err, phase, reads>>

Classes  == {"q", "b", "s", "t", "a", "n", "p", "o"}
Symbolic == {"F", "R"}

\* ------------------------------------------------------------------ documents
\* An item is a record [k, body, x]:
\*   k = "p"  punctuation, x the character
\*   k = "v"  scalar, x its text (number, true, false, null)
\*   k = "s"  string literal, body = sequence of atoms: raw characters o p s t a F
\*            or escapes Q (\") B (\\) S (\/) O (\n \t ...) U (\uXXXX)
\*   k = "w"  one white space character, x = "sp" | "nl"
\*   k = "l"  line comment, body over Classes \ {n} (+ F), x = "term" (newline follows)
\*            or "open" (input ends)
\*   k = "b"  block comment, body over Classes (+ F) without star-slash
\*   k = "r"  the repeated group (symbol R)
\*   k = "S"  (skeletons only) a slot for a string literal
P(c)        == [k |-> "p", body |-> <<>>, x |-> c]
V(w)        == [k |-> "v", body |-> <<>>, x |-> w]
StrI(atoms) == [k |-> "s", body |-> atoms, x |-> ""]
Ws          == [k |-> "w", body |-> <<>>, x |-> "sp"]
Nl          == [k |-> "w", body |-> <<>>, x |-> "nl"]
LineC(b, x) == [k |-> "l", body |-> b, x |-> x]
BlockC(b)   == [k |-> "b", body |-> b, x |-> ""]
RepI        == [k |-> "r", body |-> <<>>, x |-> ""]
Slot        == [k |-> "S", body |-> <<>>, x |-> ""]

MkDoc(items)                == [items |-> items, fill |-> 0, unit |-> <<>>, m |-> 0]
MkBig(items, fill, unit, m) == [items |-> items, fill |-> fill, unit |-> unit, m |-> m]

RawAtoms == {"o", "p", "s", "t", "a", "F"}
EscAtoms == {"Q", "B", "S", "O", "U"}

AtomChars(a) ==
  CASE a = "Q" -> <<"b", "q">>
    [] a = "B" -> <<"b", "b">>
    [] a = "S" -> <<"b", "s">>
    [] a = "O" -> <<"b", "o">>
    [] a = "U" -> <<"b", "o", "o", "o", "o", "o">>
    [] OTHER   -> <<a>>

RECURSIVE Cat(_)
Cat(ss) == IF ss = <<>> THEN <<>> ELSE Head(ss) \o Cat(Tail(ss))

Chars(it) ==
  CASE it.k = "p" -> <<"p">>
    [] it.k = "v" -> [i \in 1..Len(it.x) |-> "o"]
    [] it.k = "s" -> <<"q">> \o Cat([i \in 1..Len(it.body) |-> AtomChars(it.body[i])]) \o <<"q">>
    [] it.k = "w" -> IF it.x = "nl" THEN <<"n">> ELSE <<"o">>
    [] it.k = "l" -> <<"s", "s">> \o it.body \o (IF it.x = "term" THEN <<"n">> ELSE <<>>)
    [] it.k = "b" -> <<"s", "t">> \o it.body \o <<"t", "s">>
    [] it.k = "r" -> <<"R">>

IsComment(it) == it.k \in {"l", "b"}

\* the text of a sequence of items, and the same with the comments left out
DecI(items)   == Cat([i \in 1..Len(items) |-> Chars(items[i])])
UndecI(items) == Cat([i \in 1..Len(items) |-> IF IsComment(items[i]) THEN <<>> ELSE Chars(items[i])])
Dec(d)        == DecI(d.items)
Undec(d)      == UndecI(d.items)
NoComments(d) == /\ \A i \in 1..Len(d.items) : ~IsComment(d.items[i])
                 /\ \A i \in 1..Len(d.unit) : ~IsComment(d.unit[i])

\* Structural well-formedness (what the property's "decorating its text with comments
\* between tokens" means); that the tokens form a JSON value is checked by the replayer.
ItemOk(it, last) ==
  CASE it.k = "p" -> it.x \in {"{", "}", "[", "]", ":", ","}
    [] it.k = "v" -> Len(it.x) > 0
    [] it.k = "s" -> \A i \in 1..Len(it.body) : it.body[i] \in RawAtoms \cup EscAtoms
    [] it.k = "w" -> it.x \in {"sp", "nl"}
    [] it.k = "l" -> /\ \A i \in 1..Len(it.body) : it.body[i] \in (Classes \ {"n"}) \cup {"F"}
                     /\ it.x \in {"term", "open"}
                     /\ (it.x = "open" => last)
    [] it.k = "b" -> /\ \A i \in 1..Len(it.body) : it.body[i] \in Classes \cup {"F"}
                     /\ \A i \in 1..(Len(it.body) - 1) : ~(it.body[i] = "t" /\ it.body[i + 1] = "s")
    [] it.k = "r" -> TRUE
    [] OTHER -> FALSE

WellFormed(d) ==
  /\ Len(d.items) > 0
  /\ \A i \in 1..Len(d.items) : ItemOk(d.items[i], i = Len(d.items))
  /\ \A i \in 1..Len(d.unit) : ItemOk(d.unit[i], FALSE) /\ d.unit[i].k # "r"
  /\ Cardinality({i \in 1..Len(d.items) : d.items[i].k = "r"}) <= 1
  /\ (d.m > 0) = (\E i \in 1..Len(d.items) : d.items[i].k = "r")

\* ------------------------------------------ structural generation of documents
BSeq(A, k)        == UNION {[1..n -> A] : n \in 0..k}
StrBodies(A, k)   == BSeq(A, k)
LineBodies(A, k)  == BSeq(A \ {"n"}, k)
BlockBodies(A, k) == {b \in BSeq(A, k) : \A i \in 1..(Len(b) - 1) : ~(b[i] = "t" /\ b[i + 1] = "s")}

\* A skeleton is a token sequence with slots for the string literals.  Build fills
\* slot j with bodies[j] and puts gaps[g] (white space and comments) after token g
\* (g = 0: before the first token).
RECURSIVE BuildFrom(_, _, _, _, _)
BuildFrom(sk, i, bodies, bi, gaps) ==
  IF i > Len(sk) THEN <<>>
  ELSE LET isS == sk[i].k = "S"
           tok == IF isS THEN StrI(bodies[bi]) ELSE sk[i]
       IN <<tok>> \o gaps[i] \o BuildFrom(sk, i + 1, bodies, IF isS THEN bi + 1 ELSE bi, gaps)
Build(sk, bodies, gaps) == gaps[0] \o BuildFrom(sk, 1, bodies, 1, gaps)
\* gaps given for some positions only
Gaps(n, f) == [g \in 0..n |-> IF g \in DOMAIN f THEN f[g] ELSE <<>>]
NoGaps(n)  == [g \in 0..n |-> <<>>]

\* --------------------------------------------------------- the reference lexer
States == {"Code", "Str", "StrEsc", "AStr", "AStrEsc", "Slash", "Line", "Block", "BlockStar"}

CodeStep(c, apos) ==
  IF c = "q" THEN [st |-> "Str", em |-> <<c>>]
  ELSE IF c = "a" /\ apos THEN [st |-> "AStr", em |-> <<c>>]
  ELSE IF c = "s" THEN [st |-> "Slash", em |-> <<>>]          \* held back: comment or not?
  ELSE [st |-> "Code", em |-> <<c>>]

\* one character: new state and the characters emitted
Delta(s, c, esc, apos) ==
  CASE s = "Code"      -> CodeStep(c, apos)
    [] s = "Slash"     -> IF c = "s" THEN [st |-> "Line", em |-> <<>>]
                          ELSE IF c = "t" THEN [st |-> "Block", em |-> <<>>]
                          ELSE [st |-> CodeStep(c, apos).st, em |-> <<"s">> \o CodeStep(c, apos).em]
    [] s = "Str"       -> IF c = "b" /\ esc THEN [st |-> "StrEsc", em |-> <<c>>]
                          ELSE IF c = "q" THEN [st |-> "Code", em |-> <<c>>]
                          ELSE [st |-> "Str", em |-> <<c>>]
    [] s = "StrEsc"    -> [st |-> "Str", em |-> <<c>>]
    [] s = "AStr"      -> IF c = "b" /\ esc THEN [st |-> "AStrEsc", em |-> <<c>>]
                          ELSE IF c = "a" THEN [st |-> "Code", em |-> <<c>>]
                          ELSE [st |-> "AStr", em |-> <<c>>]
    [] s = "AStrEsc"   -> [st |-> "AStr", em |-> <<c>>]
    [] s = "Line"      -> IF c = "n" THEN [st |-> "Code", em |-> <<>>] ELSE [st |-> "Line", em |-> <<>>]
    [] s = "Block"     -> IF c = "t" THEN [st |-> "BlockStar", em |-> <<>>] ELSE [st |-> "Block", em |-> <<>>]
    [] s = "BlockStar" -> IF c = "s" THEN [st |-> "Code", em |-> <<>>]
                          ELSE IF c = "t" THEN [st |-> "BlockStar", em |-> <<>>]
                          ELSE [st |-> "Block", em |-> <<>>]

\* end of input: a line comment may be left open, a string or a block comment may not
EofOk(s)  == s \in {"Code", "Line", "Slash"}
EofEm(s)  == IF s = "Slash" THEN <<"s">> ELSE <<>>

\* the lexer as a function of a whole text (used for expected outputs and for OutIsFold);
\* k = how much of the output was complete when the last string or comment ended
RECURSIVE RunFrom(_, _, _, _, _, _, _)
RunFrom(s, o, k, txt, i, esc, apos) ==
  IF i > Len(txt) THEN [st |-> s, out |-> o, k |-> k]
  ELSE LET d  == Delta(s, txt[i], esc, apos)
           o2 == o \o d.em
       IN RunFrom(d.st, o2, IF d.st = "Code" /\ s \notin {"Code", "Slash"} THEN Len(o2) ELSE k, txt, i + 1, esc, apos)
Run(txt, esc, apos) ==
  LET r == RunFrom("Code", <<>>, 0, txt, 1, esc, apos) IN [st |-> r.st, out |-> r.out]
\* What a reader delivers for a whole text.  A reader that hands out a string or a comment
\* (with the text in front of it) only when it has seen its end has, when the input ends
\* inside one, delivered what was complete at the end of the previous one.
Strip(txt, esc, apos) ==
  LET r == RunFrom("Code", <<>>, 0, txt, 1, esc, apos)
  IN IF EofOk(r.st) THEN [out |-> r.out \o EofEm(r.st), err |-> FALSE]
     ELSE [out |-> SubSeq(r.out, 1, r.k), err |-> TRUE]

\* Why the symbolic characters are sound: after one character of class o the lexer
\* is in a state that further o's do not leave, and it emits either all or none of
\* them - a run of o's behaves like one o (F).  A repeated group starts and ends in
\* Code and emits itself without its comments - so does any number of repetitions (R).
ASSUME FillLemma ==
  \A s \in States, esc \in BOOLEAN, apos \in BOOLEAN :
    LET d1 == Delta(s, "o", esc, apos)
        d2 == Delta(d1.st, "o", esc, apos)
    IN /\ d2.st = d1.st
       /\ d2.em \in {<<>>, <<"o">>}
       /\ (d2.em = <<"o">>) = (d1.em # <<>>)
UnitOk(d) == d.m > 0 => Run(DecI(d.unit), TRUE, FALSE) = [st |-> "Code", out |-> UndecI(d.unit)]

\* ------------------------------------------------------------------- behaviour
Init ==
  /\ doc \in Docs
  /\ input = Dec(doc)
  /\ fed = 0 /\ cur = 0 /\ st = "Code" /\ out = <<>> /\ err = FALSE
  /\ phase = "feed" /\ reads = <<>>

\* the underlying reader returns n characters
Read(n) ==
  /\ phase = "feed"
  /\ n >= 1 /\ n <= Len(input) - fed
  /\ fed' = fed + n
  /\ reads' = Append(reads, n)
  /\ UNCHANGED <<doc, input, cur, st, out, err, phase>>

\* the lexer consumes one character of what it has been given
Step ==
  /\ phase = "feed"
  /\ cur < fed
  /\ LET d == Delta(st, input[cur + 1], EscapeAware, AposStrings)
     IN st' = d.st /\ out' = out \o d.em
  /\ cur' = cur + 1
  /\ UNCHANGED <<doc, input, fed, err, phase, reads>>

\* the underlying reader reports end of input and everything has been consumed
Finish ==
  /\ phase = "feed"
  /\ fed = Len(input) /\ cur = fed
  /\ out' = out \o EofEm(st)
  /\ err' = ~EofOk(st)
  /\ phase' = "done"
  /\ UNCHANGED <<doc, input, fed, cur, st, reads>>

Next ==
  \/ \E n \in ReadSizes \cup {Len(input) - fed} : Read(n)
  \/ Step
  \/ Finish

Spec == Init /\ [][Next]_vars

\* ------------------------------------------------------------------ properties
TypeOK ==
  /\ fed \in 0..Len(input) /\ cur \in 0..fed
  /\ st \in States /\ err \in BOOLEAN /\ phase \in {"build", "feed", "done"}
  /\ \A i \in 1..Len(out) : out[i] \in Classes \cup Symbolic

\* C17, first sentence at the level of texts: what the reader delivers for the
\* decorated text is the undecorated text (so any decoder sees the same value).
StripOk == phase = "done" => (~err /\ out = Undec(doc))

\* C17, second sentence: a document without comments passes through unchanged -
\* at every moment the output is exactly the consumed prefix of the input.
PassThrough == (phase # "build" /\ NoComments(doc)) => (~err /\ out = SubSeq(input, 1, cur))

\* The result does not depend on how the input was cut into reads: lexer state and
\* output are a function of the consumed prefix alone.
OutIsFold ==
  phase = "feed" =>
    LET r == Run(SubSeq(input, 1, cur), EscapeAware, AposStrings)
    IN st = r.st /\ out = r.out

\* ------------------------------------------------------------------- rendering
\* class sequences are emitted as strings (one letter per character)
RECURSIVE ToStr(_)
ToStr(s) == IF s = <<>> THEN "" ELSE Head(s) \o ToStr(Tail(s))
=============================================================================
