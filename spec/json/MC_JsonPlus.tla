---------------------------- MODULE MC_JsonPlus ----------------------------
(* Exhaustive check of the reference stripper on small documents, under      *)
(* every segmentation of the input into reads.                               *)
EXTENDS JsonPlus

LB == P("[")
RB == P("]")
LC == P("{")
RC == P("}")
CO == P(":")
CM == P(",")
N1 == V("1")

McAtoms == {"o", "s", "t", "a", "Q", "B"}

DocsOver(strBodies, blockBodies, lineBodies) ==
  \* string literals: alone (no comment), and followed by an open line comment
  {MkDoc(<<StrI(b)>>) : b \in strBodies}
  \cup {MkDoc(<<LB, StrI(b), RB, LineC(<<"a", "q">>, "open")>>) : b \in strBodies}
  \* comment bodies: block between tokens in front of a string, line after a string
  \* with an escaped quote (open and terminated)
  \cup {MkDoc(<<LB, N1, CM, BlockC(c), StrI(<<"o">>), RB>>) : c \in blockBodies}
  \cup {MkDoc(<<LB, StrI(<<"Q">>), RB, LineC(c, "open")>>) : c \in lineBodies}
  \cup {MkDoc(<<LB, N1, LineC(c, "term"), RB>>) : c \in lineBodies}
  \* neighbours: comments back to back, white space, a comment-free document
  \cup {MkDoc(<<BlockC(<<>>), BlockC(<<"t">>), LineC(<<"s">>, "term"), LC, StrI(<<"a">>), Ws, CO, Nl, N1, RC, LineC(<<>>, "open")>>),
        MkDoc(<<LC, StrI(<<"a">>), Ws, CO, Nl, V("true"), RC>>),
        MkBig(<<LB, StrI(<<"F", "Q">>), CM, BlockC(<<"q", "F">>), RepI, N1, RB>>, 70000, <<N1, CM, BlockC(<<"a">>)>>, 1000)}

McDocs     == DocsOver(StrBodies(McAtoms, 3), BlockBodies(Classes, 3), LineBodies(Classes, 3))
McDocsApos == DocsOver(StrBodies(McAtoms, 2), BlockBodies(Classes, 2), LineBodies(Classes, 2))
McAnyRead  == 1..40

DocsWellFormed == \A d \in Docs : WellFormed(d) /\ UnitOk(d)
ASSUME DocsWellFormed

McView == <<doc, fed, cur, st, out, err, phase>>
=============================================================================
