INIT MatrixInit
NEXT MatrixNext
CONSTANTS
  Docs = {}
  ReadSizes = {}
  EscapeAware = TRUE
  AposStrings = FALSE
  Fams = {"A0", "A1", "A2", "A3", "B0", "B1", "B2", "B3", "B4", "C0", "C1", "C2", "D", "E", "L"}
  StrAtoms = {"o", "s", "t", "a", "Q", "B", "S", "O", "U"}
  StrK = 5
  ComClasses = {"q", "b", "s", "t", "a", "n", "p", "o"}
  ComK = 5
  BigFams = {"str70k", "str40k", "str200k", "str2m", "nums100k", "strs100k", "mix100k", "block70k", "line70k", "ws70k"}
  WalkMaxBody = 0
  WalkMaxCom = 0
  WalkMaxItems = 0
INVARIANT EmitMatrix
CHECK_DEADLOCK FALSE
