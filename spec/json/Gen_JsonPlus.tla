---------------------------- MODULE Gen_JsonPlus ----------------------------
(* Case generation for C17.                                                  *)
(*  matrix mode  (INIT MatrixInit, NEXT MatrixNext, INVARIANT EmitMatrix):    *)
(*     every document of the configured families, one JSON line each;         *)
(*  walk mode    (INIT WalkInit, NEXT WalkNext, INVARIANT EmitWalk, run with  *)
(*     -simulate): a document is built token by token, character by           *)
(*     character by the Build actions (any skeleton token, any atom, any      *)
(*     comment character the grammar allows), then handed to the reader of    *)
(*     JsonPlus with Read(n)/Step/Finish; the case carries the reads chosen.  *)
(* A case = the document (items), its text as classes (dec), the text the     *)
(* reader must deliver (exp = the reference stripper's output, asserted equal *)
(* to the undecorated text), what the named deviation would deliver (dev),    *)
(* and the read sizes in characters (reads; empty = replayer's own).          *)
EXTENDS JsonPlus, Json

CONSTANTS
  Fams,       \* families emitted in matrix mode
  StrAtoms,   \* alphabet of the exhaustive string bodies
  StrK,       \* their maximal length (in atoms)
  ComClasses, \* alphabet of the exhaustive comment bodies
  ComK,       \* their maximal length
  BigFams,    \* which of the large documents
  WalkMaxBody, WalkMaxCom, WalkMaxItems

VARIABLES fam, bsk, bti, bopen
gvars   == <<fam, bsk, bti, bopen>>
allvars == <<doc, input, fed, cur, st, out, err, phase, reads, fam, bsk, bti, bopen>>

LB == P("[")
RB == P("]")
LC == P("{")
RC == P("}")
CO == P(":")
CM == P(",")
N1 == V("1")

\* ------------------------------------------------------------------- families
\* A: every string body, alone (pass-through) and next to comments that contain
\*    quotes and apostrophes
FamA ==
  LET bs == StrBodies(StrAtoms, StrK) IN
  [A0 |-> {MkDoc(<<StrI(b)>>) : b \in bs},
   A1 |-> {MkDoc(<<LB, BlockC(<<"a">>), StrI(b), RB, LineC(<<"a", "q">>, "open")>>) : b \in bs},
   A2 |-> {MkDoc(<<LC, StrI(b), BlockC(<<"q">>), CO, StrI(b), RC>>) : b \in bs},
   A3 |-> {MkDoc(<<LB, StrI(b), CM, LineC(<<"a">>, "term"), StrI(b), RB>>) : b \in bs}]

\* B: every comment body, in front of / behind string literals
FamB ==
  LET bb == BlockBodies(ComClasses, ComK)
      lb == LineBodies(ComClasses, ComK) IN
  [B0 |-> {MkDoc(<<LB, N1, CM, BlockC(c), StrI(<<"o">>), RB>>) : c \in bb},
   B1 |-> {MkDoc(<<LC, StrI(<<"a", "Q">>), BlockC(c), CO, N1, RC>>) : c \in bb},
   B2 |-> {MkDoc(<<LB, N1, CM, LineC(c, "term"), StrI(<<"o">>), RB>>) : c \in lb},
   B3 |-> {MkDoc(<<LB, StrI(<<"o">>), RB, LineC(c, "open")>>) : c \in lb},
   B4 |-> {MkDoc(<<LB, StrI(<<"Q", "a">>), LineC(c, "term"), RB>>) : c \in lb}]

\* C: three strings x three comments in one object
SkC == <<LC, Slot, CO, LB, Slot, CM, N1, RB, CM, Slot, CO, V("null"), RC>>
NastyStr == {<<"Q", "s", "s">>, <<"a", "s", "t">>, <<"B">>, <<"t", "s", "O">>}
NastyCom == {BlockC(<<"q", "a">>), LineC(<<"a", "q", "b">>, "term"),
             BlockC(<<"s", "s", "n", "t">>), LineC(<<"s", "t", "o">>, "term")}
GapTriples == [C0 |-> <<0, 2, 5>>, C1 |-> <<1, 6, 13>>, C2 |-> <<3, 9, 11>>]
AtEnd(c, g) == IF g = Len(SkC) /\ c.k = "l" THEN [c EXCEPT !.x = "open"] ELSE c
FamC(g) ==
  {MkDoc(Build(SkC, <<b1, b2, b3>>,
               Gaps(Len(SkC), (g[1] :> <<c1>>) @@ (g[2] :> <<c2>>) @@ (g[3] :> <<AtEnd(c3, g[3])>>)))) :
     b1 \in NastyStr, b2 \in NastyStr, b3 \in NastyStr,
     c1 \in NastyCom, c2 \in NastyCom, c3 \in NastyCom}

\* D: what can stand in one gap: white space and comments back to back
DecorAlpha == {Ws, Nl, BlockC(<<>>), BlockC(<<"t">>), LineC(<<>>, "term"), LineC(<<"s">>, "term")}
FamD ==
  LET gs == BSeq(DecorAlpha, 3) IN
  {MkDoc(<<LB, N1, CM>> \o g \o <<StrI(<<"o">>), RB>>) : g \in gs}
  \cup {MkDoc(g \o <<LC, StrI(<<"a">>), CO, N1, RC>> \o g) : g \in gs}

\* E: other skeletons (scalars, empty containers, nesting), one decoration at a time
\*    at every boundary, all boundaries at once, and none
Skels == {<<V("true")>>, <<V("-1.5e+3")>>, <<Slot>>, <<LB, RB>>, <<LC, RC>>,
          <<LB, V("false"), CM, V("null"), CM, V("0"), RB>>,
          <<LC, Slot, CO, LC, Slot, CO, LB, LB, RB, CM, Slot, RB, RC, RC>>}
BodiesE == <<<<"o", "Q">>, <<"s", "s">>, <<"a">>>>
DecorE  == {<<BlockC(<<"q", "a">>)>>, <<LineC(<<"a">>, "term")>>, <<Ws>>, <<Nl>>,
            <<Ws, LineC(<<"q">>, "term"), Ws, BlockC(<<"n", "s", "s">>), Nl>>}
FamE ==
  {MkDoc(Build(sk, BodiesE, NoGaps(Len(sk)))) : sk \in Skels}
  \cup {MkDoc(Build(sk, BodiesE, Gaps(Len(sk), g :> d))) : sk \in Skels, g \in 0..13, d \in DecorE}
  \cup {MkDoc(Build(sk, BodiesE, [g \in 0..Len(sk) |-> <<BlockC(<<>>)>>])) : sk \in Skels}
  \cup {MkDoc(Build(sk, BodiesE, [g \in 0..Len(sk) |-> <<LineC(<<"q">>, "term")>>])) : sk \in Skels}

\* L: documents with a token longer than any fixed buffer (F = fill characters of
\*    class o) or many small tokens (R = m repetitions of unit)
Big(n) ==
  CASE n = "str70k"    -> MkBig(<<LB, StrI(<<"F">>), RB>>, 70000, <<>>, 0)
    [] n = "str40k"    -> MkBig(<<LB, StrI(<<"F">>), RB>>, 40000, <<>>, 0)
    [] n = "str200k"   -> MkBig(<<LC, StrI(<<"o">>), CO, StrI(<<"o", "F", "Q", "a", "s", "s">>), RC, LineC(<<"a">>, "open")>>, 200000, <<>>, 0)
    [] n = "str2m"     -> MkBig(<<LB, StrI(<<"F", "Q">>), CM, BlockC(<<"F", "q">>), StrI(<<"o">>), RB>>, 2000000, <<>>, 0)
    [] n = "nums100k"  -> MkBig(<<LB, RepI, N1, RB>>, 0, <<V("12"), CM>>, 34000)
    [] n = "strs100k"  -> MkBig(<<LB, RepI, N1, RB>>, 0, <<StrI(<<"o", "o">>), CM>>, 20000)
    [] n = "mix100k"   -> MkBig(<<LB, RepI, N1, RB>>, 0, <<V("12"), CM, BlockC(<<"a">>), StrI(<<"Q">>), CM, LineC(<<"q">>, "term")>>, 7000)
    [] n = "block70k"  -> MkBig(<<LB, N1, CM, BlockC(<<"q", "F", "a">>), N1, RB>>, 70000, <<>>, 0)
    [] n = "line70k"   -> MkBig(<<LB, N1, CM, LineC(<<"F">>, "term"), N1, RB>>, 70000, <<>>, 0)
    [] n = "ws70k"     -> MkBig(<<LB, StrI(<<"o">>), CM, RepI, N1, RB>>, 0, <<Ws, Nl>>, 35000)
FamL == {Big(n) : n \in BigFams}

FamDocs(f) ==
  CASE f \in DOMAIN FamA -> FamA[f]
    [] f \in DOMAIN FamB -> FamB[f]
    [] f \in DOMAIN GapTriples -> FamC(GapTriples[f])
    [] f = "D" -> FamD
    [] f = "E" -> FamE
    [] f = "L" -> FamL

\* ---------------------------------------------------------------- matrix mode
\* one initial state per family, its documents are the successors (so that TLC's
\* workers share the families)
MatrixInit ==
  /\ fam \in Fams
  /\ doc = MkDoc(<<>>)
  /\ input = <<>>
  /\ fed = 0 /\ cur = 0 /\ st = "Code" /\ out = <<>> /\ err = FALSE
  /\ phase = "pick" /\ reads = <<>>
  /\ bsk = <<>> /\ bti = 0 /\ bopen = ""
MatrixNext ==
  /\ phase = "pick"
  /\ doc' \in FamDocs(fam)
  /\ phase' = "feed"
  /\ UNCHANGED <<input, fed, cur, st, out, err, reads, fam, bsk, bti, bopen>>

\* ------------------------------------------------------------------ walk mode
WalkSkels == {SkC, <<Slot>>, <<LB, Slot, CM, Slot, CM, Slot, RB>>,
              <<LC, Slot, CO, LC, Slot, CO, LB, V("-0.5"), CM, V("true"), CM, Slot, RB, RC, RC>>,
              <<LB, V("12"), RB>>, <<V("null")>>}
WalkStrAtoms == (RawAtoms \ {"F"}) \cup EscAtoms

WalkInit ==
  /\ fam = "W"
  /\ bsk \in WalkSkels
  /\ doc = MkDoc(<<>>)
  /\ input = <<>>
  /\ fed = 0 /\ cur = 0 /\ st = "Code" /\ out = <<>> /\ err = FALSE
  /\ phase = "build" /\ reads = <<>>
  /\ bti = 1 /\ bopen = ""

NItems  == Len(doc.items)
LastIt  == doc.items[NItems]
NCom    == Cardinality({i \in 1..NItems : IsComment(doc.items[i])})
Push(it)    == doc' = [doc EXCEPT !.items = Append(@, it)]
Grow(c)     == doc' = [doc EXCEPT !.items[NItems].body = Append(@, c)]
Keep        == UNCHANGED <<input, fed, cur, st, out, err, phase, reads, fam, bsk>>

BTok ==
  /\ phase = "build" /\ bopen = "" /\ bti <= Len(bsk)
  /\ IF bsk[bti].k = "S" THEN Push(StrI(<<>>)) /\ bopen' = "s"
                         ELSE Push(bsk[bti]) /\ bopen' = ""
  /\ bti' = bti + 1 /\ Keep
BAtom(a) ==
  /\ phase = "build" /\ bopen = "s" /\ Len(LastIt.body) < WalkMaxBody
  /\ Grow(a) /\ UNCHANGED <<bti, bopen>> /\ Keep
BCloseStr ==
  /\ phase = "build" /\ bopen = "s"
  /\ bopen' = "" /\ UNCHANGED <<doc, bti>> /\ Keep
BWs(w) ==
  /\ phase = "build" /\ bopen = "" /\ NItems < WalkMaxItems
  /\ Push(w) /\ UNCHANGED <<bti, bopen>> /\ Keep
BOpenCom(k) ==
  /\ phase = "build" /\ bopen = "" /\ NCom < WalkMaxCom /\ NItems < WalkMaxItems
  /\ Push(IF k = "l" THEN LineC(<<>>, "open") ELSE BlockC(<<>>))
  /\ bopen' = k /\ UNCHANGED bti /\ Keep
BComChar(c) ==
  /\ phase = "build" /\ bopen \in {"l", "b"} /\ Len(LastIt.body) < WalkMaxBody
  /\ bopen = "l" => c # "n"
  /\ bopen = "b" => ~(c = "s" /\ Len(LastIt.body) > 0 /\ LastIt.body[Len(LastIt.body)] = "t")
  /\ Grow(c) /\ UNCHANGED <<bti, bopen>> /\ Keep
BCloseCom ==
  /\ phase = "build" /\ bopen \in {"l", "b"}
  /\ doc' = IF bopen = "l" THEN [doc EXCEPT !.items[NItems].x = "term"] ELSE doc
  /\ bopen' = "" /\ UNCHANGED bti /\ Keep
\* all tokens placed; a line comment still open stays open (input ends in it)
BEnd ==
  /\ phase = "build" /\ bti > Len(bsk) /\ bopen \in {"", "l"}
  /\ phase' = "feed" /\ input' = Dec(doc) /\ bopen' = ""
  /\ UNCHANGED <<doc, fed, cur, st, out, err, reads, fam, bsk, bti>>

Builder ==
  \/ BTok \/ BCloseStr \/ BCloseCom \/ BEnd
  \/ \E a \in WalkStrAtoms : BAtom(a)
  \/ \E w \in {Ws, Nl} : BWs(w)
  \/ \E k \in {"l", "b"} : BOpenCom(k)
  \/ \E c \in Classes : BComChar(c)

WalkNext == Builder \/ (Next /\ UNCHANGED gvars)

\* -------------------------------------------------------------------- emission
Render(it) == [k |-> it.k, b |-> ToStr(it.body), x |-> it.x]
CaseOf(d, f, rs) ==
  LET txt == Dec(d)
      ref == Strip(txt, TRUE, FALSE)
      lib == Strip(txt, TRUE, TRUE)
      dev == Strip(txt, FALSE, TRUE)
  IN [fam   |-> f,
      items |-> [i \in 1..Len(d.items) |-> Render(d.items[i])],
      unit  |-> [i \in 1..Len(d.unit) |-> Render(d.unit[i])],
      fill  |-> d.fill, m |-> d.m,
      dec   |-> ToStr(txt),
      exp   |-> ToStr(ref.out),
      plain |-> NoComments(d),
      dev   |-> IF dev = ref THEN [same |-> TRUE, out |-> "", err |-> FALSE]
                ELSE [same |-> FALSE, out |-> ToStr(dev.out), err |-> dev.err],
      reads |-> rs]
\* the oracle is the specification's: the reference stripper is right on this very
\* document (and apostrophe pass-through regions do not change that)
CaseOk(d) ==
  LET txt == Dec(d)
      ref == Strip(txt, TRUE, FALSE)
  IN /\ WellFormed(d) /\ UnitOk(d)
     /\ ~ref.err /\ ref.out = Undec(d)
     /\ Strip(txt, TRUE, TRUE) = ref
     /\ NoComments(d) => ref.out = txt

EmitMatrix ==
  phase = "feed" =>
  /\ Assert(CaseOk(doc), <<"generated document violates the specification", doc>>)
  /\ PrintT(<<"CASE", ToJson(CaseOf(doc, fam, <<>>))>>)
EmitWalk ==
  phase = "done" =>
    /\ Assert(CaseOk(doc) /\ StripOk, <<"generated document violates the specification", doc>>)
    /\ PrintT(<<"CASE", ToJson(CaseOf(doc, fam, reads))>>)
WalkInv == phase # "build" => (StripOk /\ PassThrough)
=============================================================================
