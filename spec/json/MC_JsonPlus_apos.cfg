SPECIFICATION Spec
CONSTANTS
  Docs <- McDocsApos
  ReadSizes <- McAnyRead
  EscapeAware = TRUE
  AposStrings = TRUE
INVARIANTS TypeOK StripOk PassThrough OutIsFold
VIEW McView
CHECK_DEADLOCK FALSE
