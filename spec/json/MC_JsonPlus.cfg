SPECIFICATION Spec
CONSTANTS
  Docs <- McDocs
  ReadSizes <- McAnyRead
  EscapeAware = TRUE
  AposStrings = FALSE
INVARIANTS TypeOK StripOk PassThrough OutIsFold
VIEW McView
CHECK_DEADLOCK FALSE
