SPECIFICATION PSpec
CONSTANTS
  Dev = "decompress-sticky"
  MsgLists <- McPeerMsgLists
  FragLensOf <- McFragLensOf
  MaxFragsOf <- McMaxFragsOf
  CtlLensOf <- McCtlLensOf
  MaxCtlOf <- McMaxCtlOf
  ReadSizesOf <- McReadSizesOf
  ReadBufsOf <- McReadBufsOf
INVARIANTS Intact
CHECK_DEADLOCK FALSE
