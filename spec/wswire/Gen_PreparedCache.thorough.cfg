SPECIFICATION CSpec
CONSTANTS
  Writers = {1, 2, 3}
  Keys <- ThoroughKeys
  KeyChoices <- ThoroughChoices
  Dev = "none"
INVARIANTS HandedBuilt CTypeOk Emit
