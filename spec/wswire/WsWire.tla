------------------------------- MODULE WsWire -------------------------------
(* RFC 6455 section 5 / RFC 7692 section 6-7: which streams of frames may an  *)
(* endpoint of a given role put on the wire when its application wrote a      *)
(* given list of text/binary messages?                                        *)
(*                                                                            *)
(* The module is a VALIDATOR (code -> model): the harness tokenises the bytes *)
(* the library wrote into frame records - nothing but field extraction - and  *)
(* every record is one step here.  All rules are in this module.              *)
(*                                                                            *)
(* A frame record f:                                                          *)
(*   fin, r1, r23   FIN bit, RSV1 bit, RSV2*2+RSV3                            *)
(*   op             opcode 0..15                                              *)
(*   m              MASK bit                                                  *)
(*   form           7 | 16 | 64: the length encoding used                     *)
(*   len            payload length of the frame                               *)
(*   n              run length: n adjacent identical non-final continuation   *)
(*                  frames are one record (keeps traces of 64 KiB messages    *)
(*                  through a 256 byte buffer short); 1 otherwise             *)
(* and on the final frame of a data message, computed by the harness from the *)
(* unmasked payload of the message's frames, concatenated:                    *)
(*   ieq            the payload (for a compressed message: the payload with   *)
(*                  00 00 ff ff appended, inflated as raw DEFLATE, RFC 7692   *)
(*                  7.2.2) equals the bytes the application wrote             *)
(*   ilen           its length after inflation (-1: does not inflate)         *)
(*   last           last octet of the concatenated payload as sent (-1: none) *)
(*                                                                            *)
(* What is the sender's choice and therefore free: where a message is         *)
(* fragmented, the masking keys, the compressed octets, control frames        *)
(* between any two frames, and - RFC 7692 section 6: "an endpoint MAY choose  *)
(* per message whether to compress" - whether a message for which the         *)
(* extension is in force is sent compressed.  RSV1 on the first frame says    *)
(* which, and the payload is judged accordingly.                              *)
EXTENDS Integers, Sequences, FiniteSets

VARIABLES
  role,   \* "client" | "server": who wrote the stream
  msgs,   \* what its application wrote: sequence of [t, size, z, nl] (opcode 1|2, bytes,
          \* z: permessage-deflate negotiated and enabled for this message, i.e. the sender MAY compress it,
          \* nl: one optional trailing LF - a JSON text written by an encoder that may or may not end the line)
  i,      \* index of the message the next data frame belongs to
  open,   \* a fragmented message is in progress
  acc,    \* payload octets of the open message so far
  cz      \* the open message is compressed (RSV1 was set on its first frame)

wvars == <<role, msgs, i, open, acc, cz>>

Roles   == {"client", "server"}
OpCont  == 0
OpText  == 1
OpBin   == 2
OpClose == 8
OpPing  == 9
OpPong  == 10
DataOps == {OpText, OpBin}
CtlOps  == {OpClose, OpPing, OpPong}

\* RFC 6455 5.2: "the minimal number of bytes MUST be used to encode the length"
MinimalForm(n) == IF n <= 125 THEN 7 ELSE IF n <= 65535 THEN 16 ELSE 64
\* RFC 6455 5.1: a client MUST mask all frames, a server MUST NOT mask any
MaskBit(r) == IF r = "client" THEN 1 ELSE 0
Bit(b) == IF b THEN 1 ELSE 0

\* ------------------------------------------------------------ rules per frame
Every(f) == /\ f.r23 = 0                     \* no extension negotiated defines RSV2/RSV3
            /\ f.m = MaskBit(role)
            /\ f.len >= 0
            /\ f.form = MinimalForm(f.len)
            /\ f.n >= 1

\* the lengths the payload of a message may have
Lens(m)   == IF m.nl THEN {m.size, m.size + 1} ELSE {m.size}
MaxLen(m) == IF m.nl THEN m.size + 1 ELSE m.size

\* the message is complete with this frame; total = payload octets over all its frames; c: it is compressed
Complete(f, total, c) ==
  /\ f.ieq
  /\ IF c
     THEN /\ f.ilen \in Lens(msgs[i])
          \* RFC 7692 7.2.1 step 3: the trailing 00 00 ff ff is removed, "after this step the last
          \* octet of the compressed message contains (possibly part of) the DEFLATE header bits
          \* with the BTYPE bits set to 00": there is such an octet and it is not ff
          /\ f.last \in 0..254
     ELSE total \in Lens(msgs[i])

CanDataFirst(f) ==
  /\ Every(f)
  /\ f.op \in DataOps
  /\ ~open                                   \* 5.4: fragments of messages are not interleaved
  /\ i <= Len(msgs)
  /\ f.op = msgs[i].t
  /\ f.r1 = 1 => msgs[i].z                  \* RFC 7692 6: RSV1 marks a compressed message - only with the extension
  /\ f.n = 1
  /\ f.r1 = 0 => f.len <= MaxLen(msgs[i])
  /\ f.fin = 1 => Complete(f, f.len, f.r1 = 1)

CanContinuation(f) ==
  /\ Every(f)
  /\ f.op = OpCont
  /\ open
  /\ f.r1 = 0                                \* RFC 7692 6.1: RSV1 only on the first frame
  /\ f.n > 1 => f.fin = 0
  /\ ~cz => acc + f.n * f.len <= MaxLen(msgs[i])
  /\ f.fin = 1 => Complete(f, acc + f.len, cz)

CanControl(f) ==
  /\ Every(f)
  /\ f.op \in CtlOps
  /\ f.fin = 1                               \* 5.5: control frames MUST NOT be fragmented
  /\ f.len <= 125                            \* 5.5: payload of 125 bytes or less
  /\ f.r1 = 0
  /\ f.n = 1

Accepts(f) == CanDataFirst(f) \/ CanContinuation(f) \/ CanControl(f)
CanEnd     == ~open /\ i = Len(msgs) + 1     \* every message was sent, completely

\* ------------------------------------------------------------------- actions
Advance(f, total, c) ==
  /\ IF f.fin = 1 THEN i' = i + 1 /\ open' = FALSE /\ acc' = 0 /\ cz' = FALSE
                  ELSE i' = i /\ open' = TRUE /\ acc' = total /\ cz' = c
  /\ UNCHANGED <<role, msgs>>

DataFirst(f)    == CanDataFirst(f)    /\ Advance(f, f.len, f.r1 = 1)
Continuation(f) == CanContinuation(f) /\ Advance(f, acc + f.n * f.len, cz)
Control(f)      == CanControl(f)      /\ UNCHANGED wvars
Frame(f)        == DataFirst(f) \/ Continuation(f) \/ Control(f)

Start(r, ms) == role' = r /\ msgs' = ms /\ i' = 1 /\ open' = FALSE /\ acc' = 0 /\ cz' = FALSE

WInit == role \in Roles /\ msgs = <<>> /\ i = 1 /\ open = FALSE /\ acc = 0 /\ cz = FALSE

TypeOk == /\ role \in Roles
          /\ i \in 1..(Len(msgs) + 1)
          /\ open \in BOOLEAN
          /\ acc >= 0
          /\ open => i <= Len(msgs)
          /\ ~open => acc = 0
          /\ cz \in BOOLEAN
          /\ cz => (open /\ msgs[i].z)

\* ------------------------------------------------- diagnostics for a rejection
\* names of the rules a rejected frame breaks (reported with the offending record)
WhyIncomplete(f, total, c) ==
     (IF ~f.ieq THEN {"reassembled payload is not the message"} ELSE {})
  \cup (IF c
        THEN (IF f.ilen \notin Lens(msgs[i]) THEN {"inflated length is not the message's"} ELSE {})
             \cup (IF f.last \notin 0..254 THEN {"deflate tail 00 00 ff ff not removed"} ELSE {})
        ELSE (IF total \notin Lens(msgs[i]) THEN {"final frame before the whole message was sent"} ELSE {}))
Why(f) ==
     (IF f.r23 # 0 THEN {"rsv2/3 set"} ELSE {})
  \cup (IF f.m # MaskBit(role) THEN {IF role = "client" THEN "client frame not masked" ELSE "server frame masked"} ELSE {})
  \cup (IF f.len < 0 \/ f.form # MinimalForm(f.len) THEN {"length form not minimal"} ELSE {})
  \cup (IF f.op \in CtlOps
        THEN (IF f.fin # 1 THEN {"control frame fragmented"} ELSE {})
             \cup (IF f.len > 125 THEN {"control frame longer than 125"} ELSE {})
             \cup (IF f.r1 # 0 THEN {"rsv1 on control frame"} ELSE {})
        ELSE IF f.op = OpCont
        THEN IF ~open THEN {"continuation without an open message"}
             ELSE (IF f.r1 # 0 THEN {"rsv1 on continuation frame"} ELSE {})
                  \cup (IF ~cz /\ acc + f.n * f.len > MaxLen(msgs[i]) THEN {"more payload than the message"} ELSE {})
                  \cup (IF f.fin = 1 THEN WhyIncomplete(f, acc + f.len, cz) ELSE {})
        ELSE IF f.op \in DataOps
        THEN IF open THEN {"new message before the final frame of the previous one"}
             ELSE IF i > Len(msgs) THEN {"message the application never wrote"}
             ELSE (IF f.op # msgs[i].t THEN {"wrong message type"} ELSE {})
                  \cup (IF f.r1 = 1 /\ ~msgs[i].z THEN {"rsv1 on a message without permessage-deflate"} ELSE {})
                  \cup (IF f.r1 = 0 /\ f.len > MaxLen(msgs[i]) THEN {"more payload than the message"} ELSE {})
                  \cup (IF f.fin = 1 THEN WhyIncomplete(f, f.len, f.r1 = 1) ELSE {})
        ELSE {"reserved opcode"})
=============================================================================
