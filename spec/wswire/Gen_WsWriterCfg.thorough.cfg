SPECIFICATION Spec
CONSTANTS
  Families = {"single", "resid", "pair", "triple", "big", "rand"}
  BufSizes = {256, 512, 4096}
  CompCfgs <- AllLevels
  XBufSizes = {1, 16, 1000, 65536}
  XCompCfgs <- QuickComp
  MultiBufSizes = {256, 4096}
  MultiCompCfgs <- ThoroughBig
  ResidBufSizes = {1, 2, 3, 4, 5, 6, 7, 8, 9, 121, 122, 123, 124, 125, 126, 127, 128, 129, 130, 131, 132, 133, 134, 135, 136, 1001, 4095, 4097}
  ResidCompCfgs <- QuickComp
  BigSizes = {1048577, 3500000}
  RandSizes = {257, 541, 65536, 1048576}
  RandCalls = {3, 17, 300}
  WalkLen = 0
INVARIANTS WellFormed Emit
CHECK_DEADLOCK FALSE
