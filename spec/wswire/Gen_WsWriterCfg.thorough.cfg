SPECIFICATION Spec
CONSTANTS
  Families = {"single", "pair", "triple", "big", "rand"}
  BufSizes = {256, 512, 4096}
  CompCfgs <- AllLevels
  XBufSizes = {1, 16, 1000, 65536}
  XCompCfgs <- QuickComp
  MultiBufSizes = {256, 4096}
  MultiCompCfgs <- ThoroughBig
  BigSizes = {1048577, 3500000}
  RandSizes = {257, 541, 65536, 1048576}
  RandCalls = {3, 17, 300}
  WalkLen = 0
INVARIANTS WellFormed Emit
CHECK_DEADLOCK FALSE
