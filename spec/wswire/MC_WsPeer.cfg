SPECIFICATION PSpec
CONSTANTS
  Dev = "none"
  MsgLists <- McPeerMsgLists
  FragLensOf <- McFragLensOf
  MaxFragsOf <- McMaxFragsOf
  CtlLensOf <- McCtlLensOf
  MaxCtlOf <- McMaxCtlOf
  ReadSizesOf <- McReadSizesOf
INVARIANTS Intact AllDelivered PingsIntact SenderConformant PTypeOk
CHECK_DEADLOCK FALSE
