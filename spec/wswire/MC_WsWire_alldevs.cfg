SPECIFICATION Spec
CONSTANTS
  Dev = "any"
  MsgLists <- McDevMsgLists
  FragLens <- McFragLens
  CtlLens = {0, 125}
  MaxCtl = 1
  MaxFrags = 3
INVARIANTS Sound Caught TypeInv
CHECK_DEADLOCK FALSE
