----------------------------- MODULE Gen_WsPeer -----------------------------
(* Case generation for C13, receiving half: every complete behaviour of       *)
(* WsPeer (a conformant foreign sender's stream, consumed by the receiver     *)
(* with one Read size) is one case: the frames to put on the wire and what    *)
(* the specification's receiver delivers for them.  The harness builds the    *)
(* bytes (payload pattern, masking keys of several kinds, real DEFLATE) and   *)
(* feeds them to a real Conn of the opposite role.                            *)
(*                                                                            *)
(* The lengths of the frames of a COMPRESSED message count octets of the      *)
(* model's abstract compressed form (CLen); the harness cuts the real         *)
(* compressed octets at the same places as far as they reach and puts the     *)
(* rest into the final frame.                                                 *)
EXTENDS WsPeer, Json

GM(t, s, z) == [t |-> t, size |-> s, z |-> z, nl |-> FALSE]

\* frag: one uncompressed message cut at any two / three of these lengths: every residue modulo the key
\* length 4 and modulo the word size 8 of a word-at-a-time unmasking loop, below and above two words
WideLens   == {0, 1, 2, 3, 4, 5, 7, 8, 9, 15, 16, 17, 24, 33}
NarrowLens == {0, 1, 2, 3, 5, 9}
WideMsgs     == {<<GM(2, 70, FALSE)>>}
NarrowMsgs   == {<<GM(1, 24, FALSE)>>}
WideMsgsT    == {<<GM(2, s, FALSE)>> : s \in {70, 101}}
\* hist: what outlives a message - lists of two and three messages, compressed or not in every order,
\* with pings between the frames
HistLens   == {0, 1, 3}
HistMsgs   ==
  {<<GM(1, 7, z1), GM(2, s2, z2)>> : s2 \in {0, 21}, z1 \in BOOLEAN, z2 \in BOOLEAN}
  \cup {<<GM(1, s, TRUE)>> : s \in {0, 1, 40}}
Hist3MsgsT == {<<GM(2, 5, z1), GM(1, 6, z2), GM(2, 7, z3)>> : z1 \in BOOLEAN, z2 \in BOOLEAN, z3 \in BOOLEAN}
Hist3Msgs  == {l \in Hist3MsgsT : l[1].z # l[2].z \/ l[2].z # l[3].z}      \* quick: the extension's use changes on the way
HistMsgsT  ==
  {<<GM(1, s1, z1), GM(2, s2, z2)>> : s1 \in {0, 7}, s2 \in {0, 21}, z1 \in BOOLEAN, z2 \in BOOLEAN}
  \cup {<<GM(1, s, TRUE)>> : s \in {0, 1, 40}}

\* ctl: "any buffer sizes" on the receiving side - read buffers below, at and above the largest control payload
\* (0: the default), crossed with pings of 0..125 octets before, between and inside the messages
CtlMsgs    == {<<GM(1, 9, FALSE), GM(2, 21, z)>> : z \in BOOLEAN}
CtlFragLens == {3}
CtlPingLens == {0, 17, 101, 125}
CtlReadBufs == {0, 1, 16, 64, 100, 124, 125, 126, 4096}

\* ---- the bounds per family of lists (quick / thorough)
QuickLists    == WideMsgs \cup NarrowMsgs \cup HistMsgs \cup Hist3Msgs \cup CtlMsgs
ThoroughLists == WideMsgsT \cup NarrowMsgs \cup HistMsgsT \cup Hist3MsgsT \cup CtlMsgs
IsWide(ms)   == ms \in WideMsgsT
IsNarrow(ms) == ms \in NarrowMsgs
IsHist3(ms)  == Len(ms) = 3
IsCtl(ms)    == ms \in CtlMsgs
GFragLensOf(ms) == IF IsWide(ms) THEN WideLens ELSE IF IsNarrow(ms) THEN NarrowLens ELSE IF IsCtl(ms) THEN CtlFragLens ELSE HistLens
QMaxFragsOf(ms)  == IF IsWide(ms) THEN 3 ELSE IF IsNarrow(ms) THEN 4 ELSE 2
QCtlLensOf(ms)   == IF IsCtl(ms) THEN {0, 17, 125} ELSE {5}
QMaxCtlOf(ms)    == IF IsWide(ms) \/ IsNarrow(ms) \/ IsHist3(ms) THEN 0 ELSE 1
QReadSizesOf(ms) == IF IsWide(ms) \/ IsNarrow(ms) THEN {0, 1, 5} ELSE IF IsHist3(ms) \/ IsCtl(ms) THEN {0} ELSE {0, 3}
QReadBufsOf(ms)  == IF IsCtl(ms) THEN CtlReadBufs ELSE {-1}
TMaxFragsOf(ms)  == IF IsWide(ms) THEN (IF ms[1].size > 70 THEN 3 ELSE 4) ELSE IF IsNarrow(ms) THEN 5 ELSE 2
TCtlLensOf(ms)   == IF IsCtl(ms) THEN CtlPingLens \cup {1, 16, 124} ELSE {0, 125}
TMaxCtlOf(ms)    == IF IsWide(ms) \/ IsNarrow(ms) \/ IsHist3(ms) THEN 0 ELSE 1
TReadSizesOf(ms) == IF IsWide(ms) THEN {0, 1, 5, 19} ELSE IF IsNarrow(ms) THEN {0, 1, 3, 5} ELSE IF IsHist3(ms) THEN {0, 1, 3} ELSE IF IsCtl(ms) THEN {0, 7} ELSE {0, 3}
TReadBufsOf(ms)  == IF IsCtl(ms) THEN CtlReadBufs ELSE {-1}

Case ==
  [fam    |-> "foreign", role |-> role, rd |-> rd, rbs |-> rbs,
   msgs   |-> [n \in 1..Len(msgs) |-> [t |-> msgs[n].t, size |-> msgs[n].size, z |-> msgs[n].z]],
   frames |-> [n \in 1..Len(wire) |-> [op |-> wire[n].op, fin |-> wire[n].fin, r1 |-> wire[n].r1, len |-> wire[n].len]],
   exp    |-> [n \in 1..Len(out) |-> [t |-> out[n].t, size |-> Len(out[n].p), same |-> (n <= Len(msgs) /\ out[n] = Expected(n))]],
   pings  |-> [n \in 1..Len(pings) |-> Len(pings[n])]]

Emit == Done => PrintT(<<"CASE", ToJson(Case)>>)
=============================================================================
