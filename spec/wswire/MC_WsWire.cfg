SPECIFICATION Spec
CONSTANTS
  Dev = "none"
  MsgLists <- McMsgLists
  FragLens <- McFragLens
  CtlLens = {0, 125}
  MaxCtl = 2
  MaxFrags = 4
INVARIANTS NoReject Sound InSync TypeInv
CHECK_DEADLOCK FALSE
