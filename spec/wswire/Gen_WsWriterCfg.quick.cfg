SPECIFICATION Spec
CONSTANTS
  Families = {"single", "pair", "triple"}
  BufSizes = {256, 512, 4096}
  CompCfgs <- QuickComp
  XBufSizes = {}
  XCompCfgs <- QuickComp
  MultiBufSizes = {256, 4096}
  MultiCompCfgs <- QuickMulti
  BigSizes = {}
  RandSizes = {}
  RandCalls = {}
  WalkLen = 0
INVARIANTS WellFormed Emit
CHECK_DEADLOCK FALSE
