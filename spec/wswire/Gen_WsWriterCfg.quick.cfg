SPECIFICATION Spec
CONSTANTS
  Families = {"single", "resid", "pair", "triple"}
  BufSizes = {256, 512, 4096}
  CompCfgs <- QuickComp
  XBufSizes = {}
  XCompCfgs <- QuickComp
  MultiBufSizes = {256, 4096}
  MultiCompCfgs <- QuickMulti
  ResidBufSizes = {121, 122, 123, 124, 125, 126, 127, 128}
  ResidCompCfgs <- ResidComp
  BigSizes = {}
  RandSizes = {}
  RandCalls = {}
  WalkLen = 0
INVARIANTS WellFormed Emit
CHECK_DEADLOCK FALSE
