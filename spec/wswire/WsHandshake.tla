----------------------------- MODULE WsHandshake -----------------------------
(* RFC 6455 section 4 (opening handshake) and RFC 7692 section 5/7.1           *)
(* (negotiation of permessage-deflate) as a decision table with two actors.    *)
(*                                                                            *)
(*   Hello    a client sends its upgrade request: either the request a         *)
(*            conformant client builds from its configuration (Dialer), or a   *)
(*            crafted one from the request alphabet                            *)
(*   Reply    the server (Upgrader.Upgrade) decides: 101 with                   *)
(*            Sec-WebSocket-Accept = H(key) and the extension response, or an  *)
(*            HTTP error; or a scripted server answers anything                *)
(*   Verdict  the client (Dialer.Dial) accepts or fails the connection         *)
(*                                                                            *)
(* H(key) = base64(SHA-1(key ++ "258EAFA5-E914-47DA-95CA-C5AB0DC85B11")) is    *)
(* symbolic here (<<"H", key>>); the replayer computes it with crypto/sha1.    *)
(* Header values are sequences of tokens (absent header = <<>>); tokens match  *)
(* case-insensitively (Lower).                                                 *)
(*                                                                            *)
(* Only what RFC 6455 states is judged.  Where this library is stricter or     *)
(* laxer than the table (Connection: "keep-alive, Upgrade" in a RESPONSE is    *)
(* refused by the Dialer; an unsolicited permessage-deflate response is        *)
(* accepted; a response without client_no_context_takeover is refused) the     *)
(* alphabets below simply do not contain the input.                            *)
EXTENDS Integers, Sequences, FiniteSets, TLC

CONSTANTS
  Dev,         \* "none" | "accept-without-guid" | "extension-not-offered" | "accept-not-checked" | "extension-dropped"
  Methods, ConnVals, UpgVals, VerVals, KeyVals, Origins, Policies, ExtOffers,   \* request alphabet, server configuration
  Statuses, RespUpg, RespConn, AcceptKinds,                                     \* scripted response alphabet
  ReqFilter(_)                                                                  \* which crafted requests are explored

VARIABLES
  pc,     \* "hello" | "reply" | "verdict" | "done"
  ccfg,   \* client: [kind |-> "dialer"|"crafted", compress |-> BOOLEAN]
  scfg,   \* server: [kind |-> "upgrader"|"scripted", compress |-> BOOLEAN, policy |-> "default"|"all"|"none"]
  req,    \* the request on the wire
  resp,   \* the response on the wire
  sconn,  \* server's connection: [up |-> BOOLEAN, z |-> BOOLEAN]  (z: permessage-deflate in use)
  cconn   \* client's connection
vars == <<pc, ccfg, scfg, req, resp, sconn, cconn>>

\* ------------------------------------------------------------------- tokens
Lower(t) == CASE t \in {"Upgrade", "UPGRADE", "upgrade"}          -> "upgrade"
              [] t \in {"websocket", "WebSocket", "WEBSOCKET"}    -> "websocket"
              [] OTHER                                            -> t
HasToken(v, t) == \E j \in 1..Len(v) : Lower(v[j]) = t

H(key)  == <<"H", key>>                 \* the accept value of a key
H0(key) == <<"H0", key>>                \* SHA-1 of the key alone: a wrong accept value
NoKey   == ""
NoExt   == "none"
\* extension offers (request header Sec-WebSocket-Extensions); Offers(e): permessage-deflate is among them
PmdFull == "permessage-deflate; server_no_context_takeover; client_no_context_takeover"
Offers(e) == e \in {"permessage-deflate", PmdFull, "permessage-deflate; client_max_window_bits", "foo, permessage-deflate"}

\* ---------------------------------------------------- the server's table
\* RFC 6455 4.2.1 items 1-6 and 4.2.2; 10.2 (origin): each line with the status the server answers
OriginOk(o, policy) == CASE policy = "all" -> TRUE [] policy = "none" -> FALSE
                         [] OTHER -> o \in {"absent", "same"}           \* default: same origin or none
Failures(r, cfg) ==
     (IF r.method # "GET"                   THEN {"method"}     ELSE {})
  \cup (IF ~HasToken(r.conn, "upgrade")     THEN {"connection"} ELSE {})
  \cup (IF ~HasToken(r.upg, "websocket")    THEN {"upgrade"}    ELSE {})
  \cup (IF r.ver # "13"                     THEN {"version"}    ELSE {})
  \cup (IF r.key = NoKey                    THEN {"key"}        ELSE {})
  \cup (IF ~OriginOk(r.origin, cfg.policy)  THEN {"origin"}     ELSE {})
StatusOf(fail) == CASE fail = "method"  -> {405, 400}
                    [] fail = "version" -> {400, 426}
                    [] fail = "origin"  -> {403}
                    [] OTHER            -> {400}
\* a request that breaks several rules may be refused for any of them
RejectStatuses(r, cfg) == UNION {StatusOf(x) : x \in Failures(r, cfg)}
Valid(r, cfg) == Failures(r, cfg) = {}

ServerZ(r, cfg) == CASE Dev = "extension-not-offered" -> cfg.compress
                     [] Dev = "extension-dropped"     -> FALSE
                     [] OTHER                         -> cfg.compress /\ Offers(r.ext)
ServerAccept(k) == IF Dev = "accept-without-guid" THEN H0(k) ELSE H(k)

\* ---------------------------------------------------- the client's table
\* RFC 6455 4.1 (client requirements) and 4.2.2 item 5 as seen by the client
ClientAccepts(rs, key) ==
  /\ rs.status = 101
  /\ Len(rs.upg) = 1 /\ Lower(rs.upg[1]) = "websocket"
  /\ HasToken(rs.conn, "upgrade")
  /\ (Dev = "accept-not-checked" \/ rs.accept = H(key))

\* ------------------------------------------------------------------ actions
DialerRequest(compress, key, origin) ==
  [method |-> "GET", conn |-> <<"Upgrade">>, upg |-> <<"websocket">>, ver |-> "13", key |-> key,
   origin |-> origin, ext |-> (IF compress THEN PmdFull ELSE NoExt)]

Requests == [method : Methods, conn : ConnVals, upg : UpgVals, ver : VerVals, key : KeyVals,
             origin : Origins, ext : ExtOffers]

Hello ==
  /\ pc = "hello"
  /\ IF ccfg.kind = "dialer"
     THEN \E k \in KeyVals \ {NoKey}, o \in Origins : req' = DialerRequest(ccfg.compress, k, o)
     ELSE req' \in {r \in Requests : ReqFilter(r)}
  /\ pc' = "reply"
  /\ UNCHANGED <<ccfg, scfg, resp, sconn, cconn>>

NoResp == [status |-> 0, upg |-> <<>>, conn |-> <<>>, accept |-> <<>>, ext |-> NoExt]

Reply ==
  /\ pc = "reply"
  /\ IF scfg.kind = "upgrader"
     THEN IF Valid(req, scfg)
          THEN LET z == ServerZ(req, scfg) IN
               /\ resp' = [status |-> 101, upg |-> <<"websocket">>, conn |-> <<"Upgrade">>,
                           accept |-> ServerAccept(req.key), ext |-> (IF z THEN PmdFull ELSE NoExt)]
               /\ sconn' = [up |-> TRUE, z |-> z]
          ELSE /\ \E st \in RejectStatuses(req, scfg) : resp' = [NoResp EXCEPT !.status = st]
               /\ sconn' = [up |-> FALSE, z |-> FALSE]
     ELSE \* a scripted server: any response of the alphabet; it treats the connection as up
          /\ \E st \in Statuses, u \in RespUpg, c \in RespConn, a \in AcceptKinds, z \in {FALSE, req.ext # NoExt} :
               resp' = [status |-> st, upg |-> u, conn |-> c,
                        accept |-> (CASE a = "ok" -> H(req.key) [] a = "noguid" -> H0(req.key)
                                      [] a = "other" -> H("another key") [] OTHER -> <<>>),
                        ext |-> (IF z THEN PmdFull ELSE NoExt)]
          /\ sconn' = [up |-> resp'.status = 101, z |-> resp'.ext # NoExt]
  /\ pc' = "verdict"
  /\ UNCHANGED <<ccfg, scfg, req, cconn>>

Verdict ==
  /\ pc = "verdict"
  /\ cconn' = IF ClientAccepts(resp, req.key) THEN [up |-> TRUE, z |-> resp.ext # NoExt]
                                              ELSE [up |-> FALSE, z |-> FALSE]
  /\ pc' = "done"
  /\ UNCHANGED <<ccfg, scfg, req, resp, sconn>>

Down == [up |-> FALSE, z |-> FALSE]
Init ==
  /\ pc = "hello"
  /\ ccfg \in [kind : {"dialer", "crafted"}, compress : BOOLEAN]
  /\ scfg \in [kind : {"upgrader", "scripted"}, compress : BOOLEAN, policy : Policies]
  /\ ~(ccfg.kind = "crafted" /\ scfg.kind = "scripted")      \* nothing of the library in that pair
  /\ req = DialerRequest(FALSE, NoKey, "absent") /\ resp = NoResp /\ sconn = Down /\ cconn = Down

Next == Hello \/ Reply \/ Verdict
Spec == Init /\ [][Next]_vars

\* -------------------------------------------------------------- properties
Done == pc = "done"
Lib  == ccfg.kind = "dialer" /\ scfg.kind = "upgrader"          \* both ends are the library

\* a conformant request from an allowed origin is answered 101, anything else is not
ServerTable == (pc \in {"verdict", "done"} /\ scfg.kind = "upgrader") =>
                 /\ (resp.status = 101) = Valid(req, scfg)
                 /\ resp.status # 101 => resp.status \in RejectStatuses(req, scfg)
                 /\ sconn.up = (resp.status = 101)
\* 4.2.2 item 5.4: the accept value is the hash of the request's key and the GUID
AcceptIsHash == (pc \in {"verdict", "done"} /\ scfg.kind = "upgrader" /\ resp.status = 101) => resp.accept = H(req.key)
\* 9.1: a server only answers extensions the client offered
ExtOnlyIfOffered == (pc \in {"verdict", "done"} /\ scfg.kind = "upgrader" /\ resp.ext # NoExt) => Offers(req.ext)
\* RFC 7692 5: ... and it does answer permessage-deflate when it is configured to and it was offered
ExtWhenOffered == (pc \in {"verdict", "done"} /\ scfg.kind = "upgrader" /\ resp.status = 101) =>
                    ((resp.ext # NoExt) = (scfg.compress /\ Offers(req.ext)))
\* 4.1: the client only accepts the response that proves the server understood its request
ClientTable == Done => (cconn.up => (resp.status = 101 /\ resp.accept = H(req.key)))
\* library client + library server, allowed origin: the session comes up, and both ends agree
\* whether messages are compressed (otherwise RSV1 frames reach an endpoint that never agreed to them)
LibConnects == (Done /\ Lib /\ OriginOk(req.origin, scfg.policy)) => (cconn.up /\ sconn.up)
Agreement   == (Done /\ cconn.up /\ sconn.up) => cconn.z = sconn.z
LibCompress == (Done /\ Lib /\ cconn.up) => cconn.z = (ccfg.compress /\ scfg.compress)
=============================================================================
