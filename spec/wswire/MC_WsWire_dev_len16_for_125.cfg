SPECIFICATION Spec
CONSTANTS
  Dev = "len16-for-125"
  MsgLists <- McDevMsgLists
  FragLens <- McFragLens
  CtlLens = {0, 125}
  MaxCtl = 1
  MaxFrags = 3
INVARIANTS NoReject
CHECK_DEADLOCK FALSE
