SPECIFICATION Spec
CONSTANTS
  Dev = "accept-without-guid"
  Methods = {"GET", "POST"}
  ConnVals <- McConn
  UpgVals <- McUpg
  VerVals = {"13", "8", ""}
  KeyVals = {"k1", ""}
  Origins = {"absent", "same", "other"}
  Policies = {"default", "all", "none"}
  ExtOffers <- McExt
  Statuses = {101, 200, 400}
  RespUpg <- McRespUpg
  RespConn <- McRespConn
  AcceptKinds = {"ok", "noguid", "other", "absent"}
  ReqFilter <- All
INVARIANTS LibConnects
CHECK_DEADLOCK FALSE
