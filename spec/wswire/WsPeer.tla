------------------------------- MODULE WsPeer -------------------------------
(* C13, the RECEIVING half: "... is received by the peer as the same sequence *)
(* of (type, payload)".                                                       *)
(*                                                                            *)
(* A conformant RFC 6455/7692 SENDER - not the library: any implementation -  *)
(* writes a list of messages.  It fragments each message wherever it likes    *)
(* (empty fragments, an empty final frame), masks every frame with a key of   *)
(* its own when it is the client (RFC 6455 5.3), compresses the messages it   *)
(* chooses to (RFC 7692 6) and puts pings between any two frames.  Every      *)
(* frame it writes is handed to the validator WsWire (SenderConformant): the  *)
(* sender takes no liberty the RFC does not give.                             *)
(*                                                                            *)
(* The RECEIVER is shaped like the implementation: one step per frame         *)
(* (header: masking key loaded, mask position := 0, decompress flag :=        *)
(* RSV1; payload: consumed by the application in Read calls of rd octets,     *)
(* each unmasked at the running position; FIN: the message is delivered,      *)
(* inflated if its first frame said so).  Its state that lives longer than a  *)
(* Read call - key, position, flag, octets consumed - is what the deviations  *)
(* get wrong.                                                                 *)
(*                                                                            *)
(* Octets are SYMBOLIC.  A payload octet is [m, j, c] (octet j of message m;  *)
(* c: of its compressed form); a masking-key octet is the symbol <<f, r>>     *)
(* (octet r of the key of frame f).  An octet on the wire is [o, x]: payload  *)
(* octet o XOR the key symbols in the set x; XOR with a symbol toggles its    *)
(* membership.  This is exact for keys whose octets are independent, so an    *)
(* octet arrives intact iff x = {} - whatever the key values.                 *)
EXTENDS WsWire, TLC

CONSTANTS
  Dev,        \* "none" or the name of a receiver deviation
  MsgLists,   \* the message lists the sending application may write ([t, size, z, nl |-> FALSE])
  \* the bounds of the exploration, each a function of the message list (so that one run covers families of
  \* lists with different bounds):
  FragLensOf(_),  \* payload lengths the sender may give a non-final frame (besides "all that is left")
  MaxFragsOf(_),  \* frames per message
  CtlLensOf(_),   \* payload lengths of the pings it may put between two frames
  MaxCtlOf(_),    \* pings per stream
  ReadSizesOf(_), \* len(b) of the receiving application's Read calls; 0: ReadMessage (reads all there is)
  ReadBufsOf(_)   \* ReadBufferSize the receiving endpoint is configured with; 0: the default; -1: any (left to the harness)

VARIABLES
  \* sender
  k,          \* index of the message being sent
  soff,       \* octets of its wire form already sent
  sopen,      \* it has been started
  scmp,       \* it is sent compressed
  bud,        \* frames the sender may still use for it
  nctl,       \* pings sent
  wire,       \* the frames written so far: [op, fin, r1, m, len, oct]
  ended,      \* the sender wrote everything
  rejected,   \* WsWire refused one of its frames
  \* receiver
  rd,         \* the application's Read size (-1: not chosen yet)
  rbs,        \* the configured ReadBufferSize
  rfail,      \* the reader has failed for good (readErr): nothing is delivered any more
  rq,         \* index in wire of the next frame to parse
  rkey,       \* readMaskKey: the frame whose key is loaded (0: none)
  rpos,       \* readMaskPos after the last Read
  rdz,        \* readDecompress
  rwrap,      \* the open message is read through the inflater
  rlen,       \* octets of the open message consumed so far
  cur,        \* what the application has read of the open message
  curt,       \* its type
  out,        \* the messages delivered: [t, p]
  pings       \* payloads handed to the ping handler

svars == <<k, soff, sopen, scmp, bud, nctl, wire, ended, rejected>>
rvars == <<rd, rbs, rfail, rq, rkey, rpos, rdz, rwrap, rlen, cur, curt, out, pings>>
pvars == <<wvars, svars, rvars>>

PeerDevs == {"mask-offset-per-message", "mask-key-kept", "mask-pos-per-read", "decompress-sticky", "read-buffer-unclamped"}

Budget == MaxFragsOf(msgs)

\* ------------------------------------------------------------ symbolic octets
Oct(m, j, c)  == [o |-> [m |-> m, j |-> j, c |-> c], x |-> {}]
Xor(w, sym)   == [w EXCEPT !.x = IF sym \in @ THEN @ \ {sym} ELSE @ \cup {sym}]
\* the compressed form of n octets: an abstract length - never empty (RFC 7692 7.2.3.6: an empty message is one octet)
CLen(n)       == (n \div 2) + 1
PlainForm(n)  == [j \in 1..msgs[n].size |-> Oct(n, j, FALSE)]
CompForm(n)   == [j \in 1..CLen(msgs[n].size) |-> Oct(n, j, TRUE)]
WireForm(n, c) == IF c THEN CompForm(n) ELSE PlainForm(n)
CtlForm(f, n) == [j \in 1..n |-> Oct(0, 1000 * f + j, FALSE)]     \* the payload of the ping that is frame f
\* RFC 7692 7.2.2 on symbolic octets: only the complete compressed form of the message inflates to the message
Inflate(s, n) == IF n <= Len(msgs) /\ s = CompForm(n) THEN PlainForm(n) ELSE <<"corrupt input">>
SubSeqFrom(s, a, n) == [j \in 1..n |-> s[a + j]]                  \* n octets of s after the first a

\* RFC 6455 5.3: octet j (from 0) of a frame's payload is XORed with octet j mod 4 of THAT frame's key
Masked(s, f) == [j \in 1..Len(s) |-> Xor(s[j], <<f, (j - 1) % 4>>)]

\* ------------------------------------------------------------------- sender
\* what WsWire is told about a data frame (the fields the harness computes are true by construction:
\* this sender's payload is the message)
Rec(first, len, final, cmp) ==
  [fin |-> Bit(final), r1 |-> Bit(first /\ cmp), r23 |-> 0, op |-> (IF first THEN msgs[k].t ELSE OpCont),
   m |-> MaskBit(role), form |-> MinimalForm(len), len |-> len, n |-> 1,
   ieq |-> final, ilen |-> (IF cmp THEN (IF final THEN msgs[k].size ELSE -1) ELSE len), last |-> (IF cmp THEN 0 ELSE -1)]
CtlRec(len) ==
  [fin |-> 1, r1 |-> 0, r23 |-> 0, op |-> OpPing, m |-> MaskBit(role), form |-> MinimalForm(len), len |-> len, n |-> 1]

Feed(f) == IF Accepts(f) THEN Frame(f) /\ rejected' = FALSE
                         ELSE rejected' = TRUE /\ UNCHANGED wvars

OnWire(rec, payload) ==
  LET f == Len(wire) + 1 IN
  [op |-> rec.op, fin |-> rec.fin, r1 |-> rec.r1, m |-> rec.m, len |-> rec.len,
   oct |-> IF rec.m = 1 THEN Masked(payload, f) ELSE payload]

SendData ==
  /\ ~ended /\ ~rejected /\ k <= Len(msgs)
  /\ \E cmp \in (IF sopen THEN {scmp} ELSE IF msgs[k].z THEN BOOLEAN ELSE {FALSE}) :     \* RFC 7692 6: per message
       LET form == WireForm(k, cmp)
           left == Len(form) - soff
       IN \E len \in (FragLensOf(msgs) \cup {left}), final \in BOOLEAN :
            /\ len <= left /\ (final => len = left) /\ (final \/ bud > 1)
            /\ LET rec == Rec(~sopen, len, final, cmp) IN
                 /\ Feed(rec)
                 /\ wire' = Append(wire, OnWire(rec, SubSeqFrom(form, soff, len)))
            /\ IF final THEN k' = k + 1 /\ sopen' = FALSE /\ soff' = 0 /\ bud' = Budget /\ scmp' = FALSE
                        ELSE k' = k /\ sopen' = TRUE /\ soff' = soff + len /\ bud' = bud - 1 /\ scmp' = cmp
  /\ UNCHANGED <<nctl, ended, rvars>>

SendPing ==
  /\ ~ended /\ ~rejected /\ nctl < MaxCtlOf(msgs)
  /\ \E len \in CtlLensOf(msgs) :
       LET rec == CtlRec(len) IN
       /\ Feed(rec)
       /\ wire' = Append(wire, OnWire(rec, CtlForm(Len(wire) + 1, len)))
  /\ nctl' = nctl + 1
  /\ UNCHANGED <<k, soff, sopen, scmp, bud, ended, rvars>>

SendEnd ==
  /\ ~ended /\ ~rejected /\ k = Len(msgs) + 1
  /\ ended' = TRUE
  /\ rejected' = ~CanEnd
  /\ UNCHANGED <<wvars, k, soff, sopen, scmp, bud, nctl, wire, rvars>>

\* ----------------------------------------------------------------- receiver
\* The application reads the payload of frame f in calls of at most rd octets (0: as much as there is).
\* start(j): the frame offset at which the Read call that returns octet j (from 0) began.
ReadStart(j) == IF rd = 0 THEN 0 ELSE (j \div rd) * rd
\* the offset into the masking key the receiver uses for octet j (from 0) of the frame
KeyOffset(j) ==
  CASE Dev = "mask-offset-per-message" -> rlen + j        \* counts over the message, not the frame
    [] Dev = "mask-pos-per-read"       -> j - ReadStart(j) \* every Read call starts at key octet 0
    [] OTHER                           -> j                \* position 0 at the header, carried from Read to Read
Unmasked(s, key) == [j \in 1..Len(s) |-> Xor(s[j], <<key, KeyOffset(j - 1) % 4>>)]

\* The endpoint reads the transport through a buffer. Payload of data frames is copied out of it in pieces of any
\* size; a frame header and the payload of a control frame are looked at IN the buffer, in one piece: that needs a
\* buffer of at least as many octets.  "Any buffer sizes": whatever ReadBufferSize the application configures, the
\* endpoint keeps its buffer large enough for the largest legal control payload (RFC 6455 5.5: 125 octets).
MaxOf(a, b) == IF a > b THEN a ELSE b
DefaultReadBuf == 4096
MinBufio == 16                                     \* what a buffered reader makes of a smaller request
BufCap == LET asked == IF rbs <= 0 THEN DefaultReadBuf ELSE rbs
          IN IF Dev = "read-buffer-unclamped" THEN MaxOf(asked, MinBufio) ELSE MaxOf(asked, 125)

\* the receiving application decides how it is configured and how it reads (once, when the stream is there)
RChoose ==
  /\ ended /\ ~rejected /\ rd = -1
  /\ rd' \in ReadSizesOf(msgs)
  /\ rbs' \in ReadBufsOf(msgs)
  /\ UNCHANGED <<wvars, svars, rfail, rq, rkey, rpos, rdz, rwrap, rlen, cur, curt, out, pings>>

\* a control frame whose payload does not fit the buffer: the reader fails, for good
RTooBig ==
  /\ ended /\ ~rejected /\ rd # -1 /\ ~rfail /\ rq <= Len(wire)
  /\ wire[rq].op \in CtlOps /\ wire[rq].len > BufCap
  /\ rfail' = TRUE
  /\ UNCHANGED <<wvars, svars, rd, rbs, rq, rkey, rpos, rdz, rwrap, rlen, cur, curt, out, pings>>

RFrame ==
  /\ ended /\ ~rejected /\ rd # -1 /\ ~rfail /\ rq <= Len(wire)
  /\ ~(wire[rq].op \in CtlOps /\ wire[rq].len > BufCap)
  /\ LET f    == wire[rq]
         \* header: the key is loaded, the position starts at 0, the flag follows RSV1
         key  == IF f.m = 1 THEN (IF Dev = "mask-key-kept" /\ f.op = OpCont /\ rkey # 0 THEN rkey ELSE rq) ELSE rkey
         dz   == IF Dev = "decompress-sticky" THEN (rdz \/ f.r1 = 1) ELSE f.r1 = 1
         body == IF f.m = 1 THEN Unmasked(f.oct, key) ELSE f.oct
     IN /\ rkey' = key /\ rdz' = dz
        /\ rpos' = (IF f.m = 1 THEN f.len % 4 ELSE rpos)
        /\ IF f.op \in CtlOps
           THEN \* a control frame is consumed with its header; the open message is not touched
                /\ pings' = Append(pings, body)
                /\ UNCHANGED <<rwrap, rlen, cur, curt, out>>
           ELSE LET first == f.op \in DataOps
                    wrap  == IF first THEN dz ELSE rwrap
                    all   == (IF first THEN <<>> ELSE cur) \o body
                    t     == IF first THEN f.op ELSE curt
                IN /\ pings' = pings
                   /\ IF f.fin = 1
                      THEN /\ out' = Append(out, [t |-> t, p |-> IF wrap THEN Inflate(all, Len(out) + 1) ELSE all])
                           /\ cur' = <<>> /\ curt' = 0 /\ rlen' = 0 /\ rwrap' = FALSE
                      ELSE /\ out' = out /\ cur' = all /\ curt' = t /\ rlen' = Len(all) /\ rwrap' = wrap
  /\ rq' = rq + 1
  /\ UNCHANGED <<wvars, svars, rd, rbs, rfail>>

PInit == /\ role \in Roles /\ msgs \in MsgLists
         /\ i = 1 /\ open = FALSE /\ acc = 0 /\ cz = FALSE
         /\ k = 1 /\ soff = 0 /\ sopen = FALSE /\ scmp = FALSE /\ bud = Budget /\ nctl = 0
         /\ wire = <<>> /\ ended = FALSE /\ rejected = FALSE
         /\ rd = -1 /\ rbs = -1 /\ rfail = FALSE /\ rq = 1 /\ rkey = 0 /\ rpos = 0 /\ rdz = FALSE /\ rwrap = FALSE /\ rlen = 0
         /\ cur = <<>> /\ curt = 0 /\ out = <<>> /\ pings = <<>>
PNext == SendData \/ SendPing \/ SendEnd \/ RChoose \/ RFrame \/ RTooBig
PSpec == PInit /\ [][PNext]_pvars

\* --------------------------------------------------------------- properties
Done == ended /\ ~rejected /\ rd # -1 /\ (rq = Len(wire) + 1 \/ rfail)
Expected(n) == [t |-> msgs[n].t, p |-> PlainForm(n)]
\* C13: what the peer delivers is the sequence of (type, payload) that was written ...
Intact       == \A n \in 1..Len(out) : n <= Len(msgs) /\ out[n] = Expected(n)
\* ... all of it ...
AllDelivered == Done => Len(out) = Len(msgs)
\* ... and the pings arrive with the payload they were sent with
PingsIntact  == \A n \in 1..Len(pings) : \A j \in 1..Len(pings[n]) : pings[n][j].x = {} /\ pings[n][j].o.m = 0
\* the sender is a conformant one: WsWire accepts its stream
SenderConformant == ~rejected
PTypeOk == /\ TypeOk
           /\ rq \in 1..(Len(wire) + 1)
           /\ rkey \in 0..Len(wire) /\ rpos \in 0..3
           /\ Len(out) <= Len(msgs)
           /\ (rq > 1 /\ role = "client" /\ Dev = "none") => rpos = wire[rq - 1].len % 4
=============================================================================
