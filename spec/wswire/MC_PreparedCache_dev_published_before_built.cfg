SPECIFICATION CSpec
CONSTANTS
  Writers = {1, 2, 3}
  Keys <- QuickKeys
  KeyChoices <- QuickChoices
  Dev = "published-before-built"
INVARIANTS HandedBuilt
