SPECIFICATION PSpec
CONSTANTS
  Dev = "mask-key-kept"
  MsgLists <- McPeerMsgLists
  FragLensOf <- McFragLensOf
  MaxFragsOf <- McMaxFragsOf
  CtlLensOf <- McCtlLensOf
  MaxCtlOf <- McMaxCtlOf
  ReadSizesOf <- McReadSizesOf
  ReadBufsOf <- McReadBufsOf
INVARIANTS Intact
CHECK_DEADLOCK FALSE
