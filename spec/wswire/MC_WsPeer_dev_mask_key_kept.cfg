SPECIFICATION PSpec
CONSTANTS
  Dev = "mask-key-kept"
  MsgLists <- McPeerMsgLists
  FragLensOf <- McFragLensOf
  MaxFragsOf <- McMaxFragsOf
  CtlLensOf <- McCtlLensOf
  MaxCtlOf <- McMaxCtlOf
  ReadSizesOf <- McReadSizesOf
INVARIANTS Intact
CHECK_DEADLOCK FALSE
