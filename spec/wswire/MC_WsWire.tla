------------------------------ MODULE MC_WsWire ------------------------------
(* A small nondeterministic SENDER drives the validator WsWire.               *)
(* With Dev = "none" it is a conformant RFC 6455/7692 sender: it fragments    *)
(* each message wherever it likes (including empty fragments and an empty     *)
(* final frame), interleaves control frames, decides per message for which    *)
(* the extension is in force whether to compress it, and for a compressed     *)
(* message puts any number of octets into each frame.  WsWire must accept everything  *)
(* it does (NoReject), which guards against a validator that raises false     *)
(* alarms.  Every other value of Dev is a named deviation - one realistic     *)
(* framing mistake - and the validator must reject every complete stream in   *)
(* which the mistake shows (Caught): non-vacuity.                             *)
EXTENDS WsWire, TLC

CONSTANTS
  Dev,        \* "none" or the name of a deviation; "any": Init picks one of AllDevs
  MsgLists,   \* the message lists the application may have written
  FragLens,   \* fragment lengths the sender may pick (besides "all that is left")
  CtlLens,    \* control frame payload lengths
  MaxCtl,     \* control frames per stream
  MaxFrags    \* frames per message

VARIABLES
  dev,        \* the deviation in force
  k,          \* sender: index of the message being sent
  rem,        \* sender: octets of message k still to send (meaningless for a compressed message)
  bud,        \* sender: frames it may still use for message k (keeps the model finite)
  sopen,      \* sender: message k has been started
  scmp,       \* sender: it compresses message k (its choice when msgs[k].z)
  nctl,       \* control frames sent
  ended,      \* the stream is over
  rejected,   \* the validator refused a frame or the end
  shown       \* the deviation has changed at least one frame

svars == <<dev, k, rem, bud, sopen, scmp, nctl, ended, rejected, shown>>
vars  == <<wvars, svars>>

AllDevs == {"rsv1-on-continuation", "rsv1-missing", "rsv1-uncompressed",
            "len16-for-125", "len64-for-65535",
            "client-unmasked", "server-masked",
            "fin-on-every-frame", "fin-never", "interleaved-message",
            "control-fragmented", "control-126", "control-rsv1",
            "deflate-tail-kept", "payload-truncated", "rsv3-set"}

\* the length form a sender with a wrong threshold uses
Form(d, n) ==
  CASE d = "len16-for-125"   -> IF n < 125 THEN 7 ELSE IF n <= 65535 THEN 16 ELSE 64
    [] d = "len64-for-65535" -> IF n <= 125 THEN 7 ELSE IF n < 65535 THEN 16 ELSE 64
    [] OTHER                 -> MinimalForm(n)

Mask(d, r) ==
  CASE d = "client-unmasked" /\ r = "client" -> 0
    [] d = "server-masked"   /\ r = "server" -> 1
    [] OTHER                                 -> MaskBit(r)

\* a data frame of message k: first or continuation, len octets, final or not; cmp: the payload is compressed
DataFrame(first, len, final, cmp) ==
  LET m    == msgs[k]
      cfin == final
      \* what the first frame's RSV1 says about the message - the harness judges the payload by it
      flag == CASE dev = "rsv1-missing"      -> FALSE
                [] dev = "rsv1-uncompressed" -> TRUE
                [] OTHER                     -> cmp
      fin  == CASE dev = "fin-on-every-frame" -> 1
                [] dev = "fin-never"          -> 0
                [] OTHER                      -> Bit(cfin)
      r1   == CASE dev = "rsv1-on-continuation" -> Bit(cmp)
                [] dev = "rsv1-missing"         -> 0
                [] dev = "rsv1-uncompressed"    -> Bit(first)
                [] OTHER                        -> Bit(first /\ cmp)
      \* what the harness computes for the message that ends (according to the FIN bit) here:
      \* it is the whole message exactly if the conformant sender would have ended it here
      whole == cfin /\ dev # "payload-truncated"
  IN [fin |-> fin, r1 |-> r1, r23 |-> (IF dev = "rsv3-set" THEN 1 ELSE 0),
      op |-> (IF first THEN m.t ELSE OpCont),
      m |-> Mask(dev, role), form |-> Form(dev, len), len |-> len, n |-> 1,
      ieq |-> (whole /\ flag = cmp),        \* compressed octets read as they are, or plain octets inflated: not the message
      ilen |-> (IF flag THEN (IF whole /\ cmp THEN m.size ELSE -1) ELSE len),   \* (a compressed JSON text: the shorter form)
      last |-> (IF flag THEN (IF dev = "deflate-tail-kept" THEN 255 ELSE 0) ELSE -1)]

CtlFrame(op, len) ==
  [fin |-> (IF dev = "control-fragmented" THEN 0 ELSE 1),
   r1 |-> (IF dev = "control-rsv1" THEN 1 ELSE 0), r23 |-> (IF dev = "rsv3-set" THEN 1 ELSE 0), op |-> op,
   m |-> Mask(dev, role), form |-> Form(dev, len), len |-> len, n |-> 1]

\* does the frame differ from what the conformant sender would have sent?
Conformant(first, len, final, cmp) ==
  LET m == msgs[k] IN
  [fin |-> Bit(final), r1 |-> Bit(first /\ cmp), r23 |-> 0, op |-> (IF first THEN m.t ELSE OpCont),
   m |-> MaskBit(role), form |-> MinimalForm(len), len |-> len, n |-> 1,
   ieq |-> final, ilen |-> (IF cmp THEN (IF final THEN m.size ELSE -1) ELSE len),
   last |-> (IF cmp THEN 0 ELSE -1)]
ConformantCtl(op, len) ==
  [fin |-> 1, r1 |-> 0, r23 |-> 0, op |-> op, m |-> MaskBit(role), form |-> MinimalForm(len), len |-> len, n |-> 1]

\* hand a frame to the validator
Feed(f) == IF Accepts(f) THEN Frame(f) /\ rejected' = FALSE
                         ELSE rejected' = TRUE /\ UNCHANGED wvars

Init == /\ role \in Roles
        /\ msgs \in MsgLists
        /\ i = 1 /\ open = FALSE /\ acc = 0 /\ cz = FALSE
        /\ dev \in (IF Dev = "any" THEN AllDevs ELSE {Dev})
        /\ k = 1 /\ rem = 0 /\ bud = MaxFrags /\ sopen = FALSE /\ scmp = FALSE /\ nctl = 0
        /\ ended = FALSE /\ rejected = FALSE /\ shown = FALSE

\* lengths the sender may put into the next data frame, and whether it is the last one
Choices(Left, cmp) ==
  IF cmp
  THEN \* the compressed octets are the sender's business: any length, end whenever it likes
       {c \in (FragLens \cup {1}) \X BOOLEAN : c[2] \/ bud > 1}
  ELSE {c \in (FragLens \cup {Left}) \X BOOLEAN : c[1] <= Left /\ (c[2] => c[1] = Left) /\ (c[2] \/ bud > 1)}

SendData ==
  /\ ~ended /\ ~rejected /\ k <= Len(msgs)
  /\ \E Left \in (IF sopen THEN {rem} ELSE Lens(msgs[k])) :
     \E cmp \in (IF sopen THEN {scmp} ELSE IF msgs[k].z THEN BOOLEAN ELSE {FALSE}) :    \* RFC 7692 6: per message
     \E c \in Choices(Left, cmp) :
       LET len   == c[1]
           final == c[2]
           first == ~sopen
           f     == DataFrame(first, len, final, cmp)
       IN /\ Feed(f)
          /\ shown' = (shown \/ f # Conformant(first, len, final, cmp))
          /\ IF final THEN k' = k + 1 /\ sopen' = FALSE /\ rem' = 0 /\ bud' = MaxFrags /\ scmp' = FALSE
                      ELSE k' = k /\ sopen' = TRUE /\ rem' = (IF cmp THEN 0 ELSE Left - len) /\ bud' = bud - 1 /\ scmp' = cmp
  /\ UNCHANGED <<dev, nctl, ended>>

\* the sender that interleaves: starts message k+1 while k is open (only as a deviation)
SendInterleaved ==
  /\ dev = "interleaved-message" /\ ~ended /\ ~rejected /\ sopen /\ k + 1 <= Len(msgs)
  /\ LET m == msgs[k + 1]
         f == [fin |-> 1, r1 |-> Bit(m.z), r23 |-> 0, op |-> m.t, m |-> MaskBit(role),
               form |-> MinimalForm(IF m.z THEN 1 ELSE m.size), len |-> (IF m.z THEN 1 ELSE m.size), n |-> 1,
               ieq |-> TRUE, ilen |-> m.size, last |-> (IF m.z THEN 0 ELSE -1)]
     IN Feed(f) /\ shown' = TRUE
  /\ ended' = TRUE
  /\ UNCHANGED <<dev, k, rem, bud, sopen, scmp, nctl>>

SendCtl ==
  /\ ~ended /\ ~rejected /\ nctl < MaxCtl
  /\ \E op \in CtlOps, len \in (CtlLens \cup (IF dev = "control-126" THEN {126} ELSE {})) :
       LET f == CtlFrame(op, len) IN
       /\ Feed(f)
       /\ shown' = (shown \/ f # ConformantCtl(op, len) \/ len > 125)
  /\ nctl' = nctl + 1
  /\ UNCHANGED <<dev, k, rem, bud, sopen, scmp, ended>>

\* the stream ends when the sender has sent everything (a sender that never sets FIN thinks so too)
End ==
  /\ ~ended /\ ~rejected
  /\ k = Len(msgs) + 1
  /\ ended' = TRUE
  /\ rejected' = ~CanEnd
  /\ UNCHANGED <<wvars, dev, k, rem, bud, sopen, scmp, nctl, shown>>

Next == SendData \/ SendCtl \/ SendInterleaved \/ End
Spec == Init /\ [][Next]_vars

\* ------------------------------------------------------------------ properties
NoReject == ~rejected                          \* with Dev = "none": the conformant sender is always accepted
Sound    == rejected => shown                  \* a frame is only ever refused if a deviation changed it
Caught   == (ended /\ shown) => rejected       \* a deviation that shows never passes
InSync   == (~rejected /\ ~shown) => (i = k /\ open = sopen /\ cz = scmp)
TypeInv  == TypeOk

\* --------------------------------------------------------------- configurations
\* message lists: sizes around the length-form boundaries, both types, compressed or not
M(t, s, z) == [t |-> t, size |-> s, z |-> z, nl |-> FALSE]
McSizes == {0, 1, 125, 126, 65535, 65536}
McMsgLists ==
  {<<>>}
  \cup {<<M(t, s, z)>> : t \in DataOps, s \in McSizes, z \in BOOLEAN}
  \cup {<<[M(OpText, s, z) EXCEPT !.nl = TRUE]>> : s \in {2, 124, 125}, z \in BOOLEAN}     \* JSON texts
  \cup {<<M(OpText, s1, z1), M(OpBin, s2, z2)>> : s1 \in {0, 126}, s2 \in {1, 65536}, z1 \in BOOLEAN, z2 \in BOOLEAN}
\* the run over all deviations: fewer lists, each deviation still has a list on which it shows
McDevMsgLists ==
  {<<>>}
  \cup {<<M(t, s, z)>> : t \in {OpText}, s \in {1, 125, 65535}, z \in BOOLEAN}
  \cup {<<[M(OpText, 124, FALSE) EXCEPT !.nl = TRUE]>>}
  \cup {<<M(OpText, 126, z1), M(OpBin, 1, z2)>> : z1 \in BOOLEAN, z2 \in BOOLEAN}
McFragLens == {0, 1, 125, 126, 65535, 65536}
=============================================================================
