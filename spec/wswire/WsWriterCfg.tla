---------------------------- MODULE WsWriterCfg ----------------------------
(* The configuration matrix of C13 as a specification: a SESSION is a sender   *)
(* configuration (role, per-message compression negotiated or not and at which *)
(* level, write buffer size) and a list of steps; a step writes one text or    *)
(* binary message of a given size through one of the write APIs, split into    *)
(* given Write calls.  The module has no dynamics beyond building a session:   *)
(* what it specifies is the EXPECTED OUTCOME - the list msgs of (type, size,   *)
(* compressed?) the peer must receive and WsWire must see on the wire:         *)
(*     msgs[k] = [t |-> steps[k].t, size |-> steps[k].size,                     *)
(*                z |-> compression negotiated /\ steps[k].wc,                  *)
(*                nl |-> the API is WriteJSON (a line feed may follow the text)] *)
(* whatever the API, the partition, the buffer size.                            *)
(*                                                                            *)
(* Dimensions are factored into families instead of multiplied:               *)
(*   single : every environment x API x size class x partition class, 1 message*)
(*   pair   : every ordered pair of a menu of 8 steps (all APIs, write          *)
(*            compression switched off for one), with and without control      *)
(*            frames before and inside messages                                 *)
(*   triple : every triple of a sub-menu of 5 steps                             *)
(*   resid  : buffer sizes of every residue modulo 8 (the library's client     *)
(*            fragments a message at exactly the buffer size, so the lengths   *)
(*            of its fragments and their running sums take every residue       *)
(*            modulo the masking-key length 4 and the word size 8 only if the  *)
(*            buffer size does) x API x messages of 2..6 fragments             *)
(*   big    : (thorough) multi-megabyte messages                                *)
(*   rand   : (thorough) seeded random partitions                               *)
(*   walk   : (thorough, simulation) sessions of WalkLen messages built step by *)
(*            step from the menu                                                *)
EXTENDS Integers, Sequences, FiniteSets, TLC, Json

CONSTANTS
  Families,      \* which families Init enumerates
  BufSizes,      \* write buffer sizes of the single family
  CompCfgs,      \* set of <<level, content>>: compression negotiated, at that level, on that kind of payload
  XBufSizes,     \* (thorough) further buffer sizes of the single family, from 1 byte up, with XCompCfgs
  XCompCfgs,
  MultiBufSizes, \* buffer sizes of the multi-message families
  MultiCompCfgs,
  ResidBufSizes, \* buffer sizes of the resid family
  ResidCompCfgs,
  BigSizes, RandSizes, RandCalls,
  WalkLen

VARIABLE ses
vars == <<ses>>

Roles == {"client", "server"}
APIs  == {"WM", "NW", "WS", "RF", "PM", "JS"}     \* WriteMessage, NextWriter+Write, io.WriteString, io.Copy (ReadFrom),
                                                  \* WritePreparedMessage, WriteJSON
Streaming == {"NW", "WS", "RF"}                   \* the APIs with a partition into calls
Off == <<-100, "pat">>                            \* compression not negotiated

\* ------------------------------------------------------------ value classes
\* sizes around the length-form boundaries and around the write buffer and its multiples
\* (2bs+28/29: where a single Write exceeds twice the buffer including its header room)
Sizes(bs) == {0, 1, 125, 126, 127, bs - 1, bs, bs + 1, 2 * bs + 1, 2 * bs + 28, 2 * bs + 29, 65535, 65536}

One(n) == <<<<n, 1>>>>
\* a partition is run-length encoded: <<len, count>> pairs
Partitions(n, bs) ==
  {One(n)}
  \cup {<<<<c, 1>>, <<n - c, 1>>>> : c \in {x \in {0, 1, bs - 1, bs, bs + 1, n - 1, n} : 0 <= x /\ x <= n /\ n > 0}}
  \cup (IF n \in 2..127 THEN {<<<<1, n>>>>} ELSE {})          \* 1-byte calls
  \cup (IF n = 0 THEN {<<>>} ELSE {})                         \* no Write call at all

StepOf(api, t, n, id, parts) ==
  [api |-> api, t |-> t, size |-> n, id |-> id, parts |-> parts, rand |-> 0, wc |-> TRUE, ping |-> -1, mid |-> -1, via |-> "WC"]

MinSize(api) == IF api = "JS" THEN 2 ELSE 0       \* "" is the shortest JSON string; size counts the JSON text,
                                                  \* the encoder may end it with a line feed (nl)
TypeFor(api, n, p) == IF api = "JS" THEN 1 ELSE 1 + ((n + Len(p)) % 2)

PartsFor(api, n, bs) == IF n < MinSize(api) THEN {}
                        ELSE IF api \in Streaming THEN Partitions(n, bs) ELSE {One(n)}
SingleSteps(bs) ==
  UNION {{StepOf(api, TypeFor(api, n, p), n, 1, p) : p \in PartsFor(api, n, bs)} : api \in APIs, n \in Sizes(bs)}

\* resid: messages of two to six fragments of bs octets, the last one full, short or of another residue
ResidSizes(bs) == {2 * bs, 2 * bs + 1, 3 * bs + 5, 5 * bs + 3}
ResidParts(n, bs) ==
  {p \in {One(n), <<<<bs + 1, 1>>, <<n - bs - 1, 1>>>>, <<<<3, 1>>, <<n - 3, 1>>>>} : \A q \in 1..Len(p) : p[q][1] >= 0}
ResidSteps(bs) ==
  UNION {{StepOf(api, TypeFor(api, n, p), n, 1, p) : p \in (IF api \in Streaming THEN ResidParts(n, bs) ELSE {One(n)})} :
         api \in APIs, n \in ResidSizes(bs)}

\* the menu of the multi-message families
Menu(bs) == <<
  StepOf("WM", 1, 125, 1, One(125)),
  StepOf("NW", 2, bs + 1, 2, <<<<bs, 1>>, <<1, 1>>>>),
  StepOf("WS", 1, 2 * bs + 1, 3, One(2 * bs + 1)),
  StepOf("RF", 2, 2 * bs + 29, 4, One(2 * bs + 29)),
  StepOf("PM", 2, 126, 5, One(126)),
  StepOf("JS", 1, 127, 6, One(127)),
  StepOf("WM", 2, 0, 7, One(0)),
  [StepOf("NW", 1, bs, 8, <<<<1, 1>>, <<bs - 1, 1>>>>) EXCEPT !.wc = FALSE] >>
TripleMenu == {2, 4, 5, 7, 8}

\* control frames: a ping before every message (0 and 125 bytes in turn), a pong inside streamed messages.
\* via: the entry point the ping (and the session's close frame) is written through - WriteControl, or the MESSAGE
\* API with a control type: WriteMessage, NextWriter + Write + Close, a prepared message. Whatever the entry point
\* and whatever is negotiated for data messages, a control frame is a control frame (RFC 6455 5.5, RFC 7692 6.1:
\* never compressed, RSV1 clear) and the data messages around it arrive as written.  (A pong INSIDE a message has
\* no entry point but WriteControl: the message API would end the open message.)
CtlVias == {"WC", "WM", "NW", "PM"}
WithCtl(steps, via) ==
  [k \in 1..Len(steps) |->
     [steps[k] EXCEPT !.ping = (IF k % 2 = 1 THEN 0 ELSE 125),
                      !.mid  = (IF steps[k].api \in {"NW", "WS"} THEN 1 ELSE -1),
                      !.via  = via]]
Renumber(steps) == [k \in 1..Len(steps) |-> [steps[k] EXCEPT !.id = 10 * k + steps[k].id]]

\* ------------------------------------------------------ the expected outcome
Negotiated(cc) == cc # Off
MsgsOf(cc, steps) ==
  [k \in 1..Len(steps) |-> [t |-> steps[k].t, size |-> steps[k].size, z |-> Negotiated(cc) /\ steps[k].wc,
                             nl |-> steps[k].api = "JS"]]

\* over: before closing, the application also asks for control frames of 126 bytes (WriteControl and
\* WriteMessage with a control type). Whatever the calls return, no such frame may reach the wire.
Session(fam, role, cc, bs, steps) ==
  [fam |-> fam, role |-> role, comp |-> Negotiated(cc), lvl |-> cc[1], content |-> cc[2], bs |-> bs,
   steps |-> steps, msgs |-> MsgsOf(cc, steps), over |-> FALSE]

\* ------------------------------------------------------------------ families
\* (state predicates "ses is a session of the family": TLC enumerates them as initial states)
MultiEnvs == Roles \X ({Off} \cup MultiCompCfgs) \X MultiBufSizes
MinBuf    == CHOOSE m \in MultiBufSizes : \A o \in MultiBufSizes : m <= o

Single == \E bs \in BufSizes, r \in Roles, cc \in ({Off} \cup CompCfgs) : \E st \in SingleSteps(bs) :
            ses = Session("single", r, cc, bs, <<st>>)

XSingle == \E bs \in XBufSizes, r \in Roles, cc \in ({Off} \cup XCompCfgs) : \E st \in SingleSteps(bs) :
             ses = Session("single", r, cc, bs, <<st>>)

Resid == \E bs \in ResidBufSizes, r \in Roles, cc \in ({Off} \cup ResidCompCfgs) : \E st \in ResidSteps(bs) :
           ses = Session("resid", r, cc, bs, <<st>>)

Pair == \E e \in MultiEnvs, a \in 1..8, b \in 1..8, ctl \in BOOLEAN : \E via \in (IF ctl THEN CtlVias ELSE {"WC"}) :
          LET st == Renumber(<<Menu(e[3])[a], Menu(e[3])[b]>>)
          IN ses = [Session("pair", e[1], e[2], e[3], IF ctl THEN WithCtl(st, via) ELSE st) EXCEPT !.over = ctl]

Triple == \E e \in MultiEnvs, a \in TripleMenu, b \in TripleMenu, c \in TripleMenu :
            /\ e[3] = MinBuf
            /\ ses = Session("triple", e[1], e[2], e[3], Renumber(<<Menu(e[3])[a], Menu(e[3])[b], Menu(e[3])[c]>>))

Big == \E e \in MultiEnvs, api \in APIs, n \in BigSizes :
         ses = Session("big", e[1], e[2], e[3], <<StepOf(api, TypeFor(api, n, <<>>), n, 1, One(n))>>)

Rand == \E e \in MultiEnvs, api \in Streaming, n \in RandSizes, calls \in RandCalls :
          ses = Session("rand", e[1], e[2], e[3], <<[StepOf(api, 2, n, 1, <<>>) EXCEPT !.rand = calls]>>)

\* ------------------------------------------------------------- transitions
Init == \/ "single" \in Families /\ (Single \/ XSingle)
        \/ "resid"  \in Families /\ Resid
        \/ "pair"   \in Families /\ Pair
        \/ "triple" \in Families /\ Triple
        \/ "big"    \in Families /\ Big
        \/ "rand"   \in Families /\ Rand
Next == UNCHANGED vars
Spec == Init /\ [][Next]_vars

\* walk: a session grows by one step of the menu at a time (used with -simulate)
WalkInit == ses \in {Session("walk", e[1], e[2], e[3], <<>>) : e \in MultiEnvs}
WalkNext ==
  /\ Len(ses.steps) < WalkLen
  /\ \E a \in 1..8, ctl \in BOOLEAN : \E via \in (IF ctl THEN CtlVias ELSE {"WC"}) :
       LET k  == Len(ses.steps) + 1
           s0 == [Menu(ses.bs)[a] EXCEPT !.id = 10 * k + a]
           s  == IF ctl THEN [s0 EXCEPT !.ping = (IF k % 2 = 1 THEN 0 ELSE 125),
                                        !.mid = (IF s0.api \in {"NW", "WS"} THEN 1 ELSE -1), !.via = via] ELSE s0
           st == Append(ses.steps, s)
       IN ses' = [ses EXCEPT !.steps = st, !.msgs = MsgsOf(<<ses.lvl, ses.content>>, st), !.over = (ses.over \/ ctl)]
WalkSpec == WalkInit /\ [][WalkNext]_vars

\* -------------------------------------------------------------- properties
\* the expectation is well formed: one message per step, same type and size, compressed only if negotiated
WellFormed ==
  /\ Len(ses.msgs) = Len(ses.steps)
  /\ \A k \in 1..Len(ses.steps) :
       /\ ses.msgs[k].t = ses.steps[k].t /\ ses.msgs[k].t \in {1, 2}
       /\ ses.msgs[k].size = ses.steps[k].size
       /\ ses.msgs[k].z => ses.comp
       /\ ses.msgs[k].nl = (ses.steps[k].api = "JS")
       /\ ses.steps[k].size >= MinSize(ses.steps[k].api)
       /\ ses.steps[k].api \in APIs
       /\ ses.steps[k].via \in CtlVias
  /\ ses.role \in Roles

Emit     == PrintT(<<"CASE", ToJson(ses)>>)
EmitWalk == Len(ses.steps) = WalkLen => PrintT(<<"CASE", ToJson(ses)>>)
=============================================================================
