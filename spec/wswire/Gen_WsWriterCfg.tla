-------------------------- MODULE Gen_WsWriterCfg --------------------------
(* Case generation for C13: the sessions of WsWriterCfg, one JSON line each,  *)
(* with the expected message list.                                            *)
EXTENDS WsWriterCfg

\* <<level, content>>; "rnd" payloads stay as long as they are when deflated (frames keep crossing the
\* buffer boundaries), "pat" payloads shrink to a few octets at levels >= 1 and barely at -2 (Huffman only)
QuickComp    == {<<-2, "pat">>, <<1, "pat">>, <<1, "rnd">>, <<9, "rnd">>}
QuickMulti   == {<<1, "pat">>, <<1, "rnd">>}
AllLevels    == {<<l, c>> : l \in -2..9, c \in {"pat", "rnd"}}
ThoroughBig  == {<<1, "pat">>, <<1, "rnd">>, <<9, "rnd">>, <<-2, "pat">>}
ResidComp    == {<<1, "rnd">>}
=============================================================================
