\* used with -simulate: random sessions of WalkLen messages
\* (buffer sizes above 125: with a smaller one the oversize control writes of "over" leave 125 buffered octets, which this
\* version of the library sends as a ping of its own with the next message - valid frames, no message touched: not C13)
SPECIFICATION WalkSpec
CONSTANTS
  Families = {}
  BufSizes = {}
  CompCfgs <- QuickComp
  XBufSizes = {}
  XCompCfgs <- QuickComp
  MultiBufSizes = {127, 256, 512, 4096}
  MultiCompCfgs <- ThoroughBig
  ResidBufSizes = {}
  ResidCompCfgs <- ResidComp
  BigSizes = {}
  RandSizes = {}
  RandCalls = {}
  WalkLen = 5
INVARIANTS WellFormed EmitWalk
CHECK_DEADLOCK FALSE
