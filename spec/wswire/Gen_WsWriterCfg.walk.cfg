\* used with -simulate: random sessions of WalkLen messages
SPECIFICATION WalkSpec
CONSTANTS
  Families = {}
  BufSizes = {}
  CompCfgs <- QuickComp
  XBufSizes = {}
  XCompCfgs <- QuickComp
  MultiBufSizes = {256, 512, 4096}
  MultiCompCfgs <- ThoroughBig
  BigSizes = {}
  RandSizes = {}
  RandCalls = {}
  WalkLen = 5
INVARIANTS WellFormed EmitWalk
CHECK_DEADLOCK FALSE
