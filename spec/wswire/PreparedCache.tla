---------------------------- MODULE PreparedCache ----------------------------
(* C13, "written with any mix of the write APIs ... prepared message": a      *)
(* prepared message keeps, per set of connection options (role, compression,  *)
(* level) - its KEY -, the wire form of its payload, built on first use.  A   *)
(* broadcast hands the SAME prepared message to several connections, each     *)
(* written by a goroutine of its own: first use of a key may happen on        *)
(* several connections at once.  Whatever the schedule, what a writer puts    *)
(* on its connection must be the built frame - else the message is missing    *)
(* from that connection's sequence.                                           *)
(*                                                                            *)
(* Shaped like the implementation: per writer                                 *)
(*   Lookup   under the cache's lock: find the key's entry or register an     *)
(*            empty one                                                       *)
(*   Build    run-once per entry: the first writer to arrive builds; writers  *)
(*            arriving while it runs wait (they have no step)                 *)
(*   Publish  the builder stores the frame in the entry; the run-once is done *)
(*   Take     the writer takes what the entry holds and writes it             *)
EXTENDS Integers, FiniteSets, TLC

CONSTANTS
  Writers,    \* the connections of the broadcast, one writing goroutine each
  Keys,       \* the sets of connection options
  KeyChoices, \* the assignments [Writers -> Keys] explored
  Dev         \* "none" | "published-before-built"

VARIABLES
  keyOf,      \* the options of each writer's connection
  warm,       \* keys the prepared message was already sent with before the broadcast
  entry,      \* per key: "absent" | "registered" (in the cache, no frame yet) | "built"
  once,       \* per key: the run-once of its entry: "new" | "running" | "done"
  pc,         \* per writer: "start" | "looked" | "building" | "built" | "done"
  first,      \* per writer: its Lookup registered the entry
  handed      \* per writer: what it wrote: "nothing yet" | "frame" | "empty"

cvars == <<keyOf, warm, entry, once, pc, first, handed>>

CInit ==
  /\ keyOf \in KeyChoices
  /\ warm \in {{}} \cup {{keyOf[w]} : w \in Writers}
  /\ entry = [k \in Keys |-> IF k \in warm THEN "built" ELSE "absent"]
  /\ once  = [k \in Keys |-> IF k \in warm THEN "done" ELSE "new"]
  /\ pc = [w \in Writers |-> "start"]
  /\ first = [w \in Writers |-> FALSE]
  /\ handed = [w \in Writers |-> "nothing yet"]

Lookup(w) ==
  /\ pc[w] = "start"
  /\ LET k == keyOf[w] IN
       /\ first' = [first EXCEPT ![w] = (entry[k] = "absent")]
       /\ entry' = [entry EXCEPT ![k] = IF @ = "absent" THEN "registered" ELSE @]
  /\ pc' = [pc EXCEPT ![w] = "looked"]
  /\ UNCHANGED <<keyOf, warm, once, handed>>

\* who builds: the run-once decides (the first to get there); the deviation lets the lookup decide
MayBuild(w) == IF Dev = "published-before-built" THEN first[w] ELSE TRUE

Build(w) ==
  /\ pc[w] = "looked" /\ MayBuild(w) /\ once[keyOf[w]] = "new"
  /\ once' = [once EXCEPT ![keyOf[w]] = "running"]
  /\ pc' = [pc EXCEPT ![w] = "building"]
  /\ UNCHANGED <<keyOf, warm, entry, first, handed>>

Publish(w) ==
  /\ pc[w] = "building"
  /\ entry' = [entry EXCEPT ![keyOf[w]] = "built"]
  /\ once' = [once EXCEPT ![keyOf[w]] = "done"]
  /\ pc' = [pc EXCEPT ![w] = "built"]
  /\ UNCHANGED <<keyOf, warm, first, handed>>

\* a writer that did not build takes the frame when the run-once is done; with the deviation a writer whose
\* lookup found the entry does not go through the run-once at all: it takes what is there
MayTake(w) ==
  \/ pc[w] = "built"
  \/ pc[w] = "looked" /\ (once[keyOf[w]] = "done" \/ (Dev = "published-before-built" /\ ~first[w]))

Take(w) ==
  /\ MayTake(w)
  /\ handed' = [handed EXCEPT ![w] = IF entry[keyOf[w]] = "built" THEN "frame" ELSE "empty"]
  /\ pc' = [pc EXCEPT ![w] = "done"]
  /\ UNCHANGED <<keyOf, warm, entry, once, first>>

AllDone == \A w \in Writers : pc[w] = "done"
CNext == \/ \E w \in Writers : Lookup(w) \/ Build(w) \/ Publish(w) \/ Take(w)
         \/ AllDone /\ UNCHANGED cvars
CSpec == CInit /\ [][CNext]_cvars

\* --------------------------------------------------------------- properties
\* a frame handed to a connection's writer is built: the message is on every connection
HandedBuilt == \A w \in Writers : handed[w] # "empty"
\* the wire form of a key is built at most once at a time, and only for keys in use
CTypeOk == /\ \A k \in Keys : (once[k] = "done") => (entry[k] = "built")
           /\ \A k \in Keys : Cardinality({w \in Writers : pc[w] = "building" /\ keyOf[w] = k}) <= 1
           /\ \A w \in Writers : (pc[w] = "done") = (handed[w] # "nothing yet")
=============================================================================
