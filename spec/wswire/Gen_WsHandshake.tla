-------------------------- MODULE Gen_WsHandshake --------------------------
(* Case generation for the handshake part of C13. One JSON line per           *)
(*   upgrade : crafted request x server configuration, with the table's        *)
(*             verdict (101 + accept of the key + extension answer, or the set *)
(*             of admissible error statuses)                                   *)
(*   dial    : client configuration x scripted response, with the client's     *)
(*             verdict and whether permessage-deflate is then in use           *)
(*   session : library client x library server (configuration, origin), with   *)
(*             whether the session comes up and whether both compress, once    *)
(*             with the client and once with the server sending data first     *)
EXTENDS WsHandshake, Json

GenConn == {<<"Upgrade">>, <<"upgrade">>, <<"keep-alive", "Upgrade">>, <<"keep-alive">>, <<>>}
GenUpg  == {<<"websocket">>, <<"WebSocket">>, <<"h2c">>, <<>>}
GenExt  == {NoExt, "permessage-deflate", PmdFull, "permessage-deflate; client_max_window_bits",
            "foo, permessage-deflate", "foo"}
GenRespUpg  == {<<"websocket">>, <<"WebSocket">>, <<"h2c">>, <<>>}
GenRespConn == {<<"Upgrade">>, <<"upgrade">>, <<"close">>, <<>>}

\* crafted requests: the conformant request with at most MaxOff fields changed
Base == [method |-> "GET", conn |-> <<"Upgrade">>, upg |-> <<"websocket">>, ver |-> "13", key |-> "k1",
         origin |-> "absent", ext |-> NoExt]
Fields == {"method", "conn", "upg", "ver", "key", "origin", "ext"}
Off(r) == Cardinality({f \in Fields : r[f] # Base[f]})
AtMost2(r) == Off(r) <= 2
AtMost3(r) == Off(r) <= 3

Emit ==
  CASE pc = "reply" /\ ccfg.kind = "crafted" /\ ~ccfg.compress ->
         PrintT(<<"CASE", ToJson([kind |-> "upgrade", req |-> req,
                                  server |-> [compress |-> scfg.compress, policy |-> scfg.policy],
                                  valid |-> Valid(req, scfg),
                                  statuses |-> RejectStatuses(req, scfg),
                                  z |-> (Valid(req, scfg) /\ scfg.compress /\ Offers(req.ext))])>>)
    [] pc = "verdict" /\ scfg.kind = "scripted" /\ ~scfg.compress /\ scfg.policy = "default" /\ req.origin = "absent" /\ req.key = "k1" ->
         PrintT(<<"CASE", ToJson([kind |-> "dial", compress |-> ccfg.compress, resp |-> resp, key |-> req.key,
                                  accepts |-> ClientAccepts(resp, req.key),
                                  z |-> (ClientAccepts(resp, req.key) /\ resp.ext # NoExt)])>>)
    [] pc = "done" /\ Lib /\ req.key = "k1" ->
         \* once the handshake is done either end may send at once (RFC 6455 4.2.2, 5.1): in one variant the
         \* client speaks first, in the other the server's first frames travel right behind its 101 response
         \A first \in {"client", "server"} :
           PrintT(<<"CASE", ToJson([kind |-> "session", first |-> first,
                                    client |-> [compress |-> ccfg.compress, origin |-> req.origin],
                                    server |-> [compress |-> scfg.compress, policy |-> scfg.policy],
                                    up |-> (cconn.up /\ sconn.up), status |-> resp.status,
                                    z |-> (cconn.up /\ cconn.z)])>>)
    [] OTHER -> TRUE
=============================================================================
