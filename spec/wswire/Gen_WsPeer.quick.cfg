SPECIFICATION PSpec
CONSTANTS
  Dev = "none"
  MsgLists <- QuickLists
  FragLensOf <- GFragLensOf
  MaxFragsOf <- QMaxFragsOf
  CtlLensOf <- QCtlLensOf
  MaxCtlOf <- QMaxCtlOf
  ReadSizesOf <- QReadSizesOf
  ReadBufsOf <- QReadBufsOf
INVARIANTS Intact AllDelivered PingsIntact SenderConformant Emit
CHECK_DEADLOCK FALSE
