SPECIFICATION PSpec
CONSTANTS
  Dev = "none"
  MsgLists <- ThoroughLists
  FragLensOf <- GFragLensOf
  MaxFragsOf <- TMaxFragsOf
  CtlLensOf <- TCtlLensOf
  MaxCtlOf <- TMaxCtlOf
  ReadSizesOf <- TReadSizesOf
  ReadBufsOf <- TReadBufsOf
INVARIANTS Intact AllDelivered PingsIntact SenderConformant Emit
CHECK_DEADLOCK FALSE
