SPECIFICATION PSpec
CONSTANTS
  Dev = "none"
  MsgLists <- McPeerMsgLists
  FragLensOf <- McFragLensOf
  MaxFragsOf <- McMaxFragsOf
  CtlLensOf <- McCtlLensOf
  MaxCtlOf <- McMaxCtlOfQ
  ReadSizesOf <- McReadSizesOfQ
  ReadBufsOf <- McReadBufsOf
INVARIANTS Intact AllDelivered PingsIntact SenderConformant PTypeOk
CHECK_DEADLOCK FALSE
