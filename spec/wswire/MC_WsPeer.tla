------------------------------ MODULE MC_WsPeer ------------------------------
(* Exhaustive check of WsPeer with small constants: with Dev = "none" the     *)
(* receiver delivers what any conformant sender wrote (Intact, AllDelivered,  *)
(* PingsIntact) and the sender is one WsWire accepts (SenderConformant).      *)
(* With a named deviation Intact must be violated (non-vacuity).              *)
EXTENDS WsPeer

PM(t, s, z) == [t |-> t, size |-> s, z |-> z, nl |-> FALSE]
\* one message around the key length, fragmented anywhere; pairs and a triple for the state that outlives a message
McPeerMsgLists ==
  {<<>>}
  \cup {<<PM(t, s, z)>> : t \in {OpText}, s \in {0, 1, 6, 9}, z \in BOOLEAN}
  \cup {<<PM(OpBin, 5, z1), PM(OpText, 3, z2)>> : z1 \in BOOLEAN, z2 \in BOOLEAN}
  \cup {<<PM(OpText, 1, TRUE), PM(OpBin, 2, FALSE), PM(OpText, 1, TRUE)>>}
McFragLensOf(ms)  == {0, 1, 3, 4}
McMaxFragsOf(ms)  == IF Len(ms) > 1 THEN 2 ELSE 3
McCtlLensOf(ms)   == IF Len(ms) = 1 /\ ms[1].size = 6 THEN {5, 20} ELSE {5}
McMaxCtlOf(ms)    == IF Len(ms) = 2 THEN 0 ELSE 1
McReadSizesOf(ms) == {0, 1, 3}
\* a read buffer smaller than a ping (of 20) that the endpoint must cope with, and one that is larger anyway
McReadBufsOf(ms)  == IF Len(ms) = 1 /\ ms[1].size = 6 THEN {1, 16, 200} ELSE {200}
\* quick tier: pings only around and inside a single message, two Read sizes
McMaxCtlOfQ(ms)    == IF Len(ms) = 1 THEN 1 ELSE 0
McReadSizesOfQ(ms) == {0, 3}
=============================================================================
