SPECIFICATION CSpec
CONSTANTS
  Writers = {1, 2, 3}
  Keys <- QuickKeys
  KeyChoices <- QuickChoices
  Dev = "none"
INVARIANTS HandedBuilt CTypeOk Emit
