---------------------------- MODULE Trace_WsWire ----------------------------
(* Trace validation (code -> model) for C13: are the frames the real library  *)
(* wrote a stream WsWire allows for the messages the application wrote?       *)
(*                                                                            *)
(* trace.ndjson holds many sessions, one record per line:                     *)
(*   {"e":"reset","s":k,"role":"client"|"server","msgs":[{"t":1|2,"size":n,"z":bool,"nl":bool},..]} *)
(*       session k begins: who wrote, and what its application wrote          *)
(*   {"e":"f","fin":..,"r1":..,"r23":..,"op":..,"m":..,"form":..,"len":..,"n":..   *)
(*        [,"ieq":bool,"ilen":n,"last":b]}        one frame (WsWire.tla)       *)
(*   {"e":"junk","at":offset,"left":n}   bytes that are not a whole frame      *)
(*   {"e":"end"}                         the sender wrote nothing more         *)
(* Each line is one step.  A frame WsWire does not allow is reported as        *)
(*   <<"REJECT", line, session, set of broken rules>>                          *)
(* and the rest of that session is skipped (so that one run judges every       *)
(* session); the POSTCONDITION reports <<"TRACE", consumed, total, rejected>>. *)
(* vcheck accepts the trace iff consumed = total and rejected = 0.             *)
(* Run with -workers 1 (TLCSet/TLCGet registers), deadlock check off.          *)
EXTENDS WsWire, Json, TLC

VARIABLES ln,    \* the next line
          ses,   \* the session it belongs to
          bad    \* this session was rejected; skip to the next reset
tvars == <<wvars, ln, ses, bad>>

Trace == ndJsonDeserialize("trace.ndjson")

Reject(why) == /\ bad' = TRUE
               /\ PrintT(<<"REJECT", ln, ses, why>>)
               /\ TLCSet(2, TLCGet(2) + 1)
               /\ UNCHANGED <<wvars, ses>>

TReset(e) == /\ e.role \in Roles
             /\ Start(e.role, e.msgs)
             /\ ses' = e.s /\ bad' = FALSE

TFrame(e) == IF bad THEN UNCHANGED <<wvars, ses, bad>>
             ELSE IF Accepts(e) THEN Frame(e) /\ UNCHANGED <<ses, bad>>
             ELSE Reject(Why(e))

TEnd == IF bad \/ CanEnd THEN UNCHANGED <<wvars, ses, bad>>
        ELSE Reject({IF open THEN "stream ends inside a message" ELSE "stream ends before every message was sent"})

TJunk == IF bad THEN UNCHANGED <<wvars, ses, bad>> ELSE Reject({"bytes that are not a whole frame"})

TInit == /\ WInit /\ role = "server"
         /\ ln = 1 /\ ses = -1 /\ bad = FALSE
         /\ TLCSet(1, 0) /\ TLCSet(2, 0)

TNext == /\ ln <= Len(Trace)
         /\ LET e == Trace[ln] IN
              CASE e.e = "reset" -> TReset(e)
                [] e.e = "f"     -> TFrame(e)
                [] e.e = "end"   -> TEnd
                [] e.e = "junk"  -> TJunk
         /\ ln' = ln + 1
         /\ TLCSet(1, ln)

TSpec == TInit /\ [][TNext]_tvars

Accepted == PrintT(<<"TRACE", TLCGet(1), Len(Trace), TLCGet(2)>>)
=============================================================================
