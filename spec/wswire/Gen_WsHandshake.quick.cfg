SPECIFICATION Spec
CONSTANTS
  Dev = "none"
  Methods = {"GET", "POST"}
  ConnVals <- GenConn
  UpgVals <- GenUpg
  VerVals = {"13", "8", ""}
  KeyVals = {"k1", "k2", ""}
  Origins = {"absent", "same", "other"}
  Policies = {"default", "all", "none"}
  ExtOffers <- GenExt
  Statuses = {101, 200, 400}
  RespUpg <- GenRespUpg
  RespConn <- GenRespConn
  AcceptKinds = {"ok", "noguid", "other", "absent"}
  ReqFilter <- AtMost2
INVARIANTS Emit ServerTable ClientTable Agreement
CHECK_DEADLOCK FALSE
