SPECIFICATION PSpec
CONSTANTS
  Dev = "mask-offset-per-message"
  MsgLists <- McPeerMsgLists
  FragLensOf <- McFragLensOf
  MaxFragsOf <- McMaxFragsOf
  CtlLensOf <- McCtlLensOf
  MaxCtlOf <- McMaxCtlOf
  ReadSizesOf <- McReadSizesOf
  ReadBufsOf <- McReadBufsOf
INVARIANTS Intact
CHECK_DEADLOCK FALSE
