-------------------------- MODULE Gen_PreparedCache --------------------------
(* MC and case generation for PreparedCache in one run: TLC explores every    *)
(* schedule of the writers for every configuration (HandedBuilt), and every   *)
(* initial state - a configuration: the options of each connection, whether   *)
(* the prepared message was used before with one of them - is one case for    *)
(* the harness, crossed with payload classes.  The schedule is the Go         *)
(* scheduler's: the harness releases the writers together and repeats.        *)
EXTENDS PreparedCache, Json, Sequences

\* options: <<role, compression negotiated, level>>
K(r, c, l) == [role |-> r, comp |-> c, lvl |-> l]
QuickKeys    == {K("server", FALSE, -100), K("server", TRUE, 1), K("client", FALSE, -100), K("client", TRUE, 9)}
ThoroughKeys == QuickKeys \cup {K("server", TRUE, 9), K("client", TRUE, 1), K("server", TRUE, -2)}
Ord(k) == (IF k.role = "server" THEN 0 ELSE 100) + (IF k.comp THEN 10 + k.lvl + 2 ELSE 0)
\* every multiset of options (the writers are interchangeable)
Sorted(ks) == {f \in [Writers -> ks] : \A a, b \in Writers : a < b => Ord(f[a]) <= Ord(f[b])}
QuickChoices    == Sorted(QuickKeys)
ThoroughChoices == Sorted(ThoroughKeys)

\* payload classes: small; large enough that building the wire form takes a while (octets; "rnd" does not shrink)
Payloads == {[t |-> 1, size |-> 1000, content |-> "pat"], [t |-> 2, size |-> 500000, content |-> "rnd"]}

Case(p) ==
  [fam |-> "prepared", conns |-> [w \in Writers |-> keyOf[w]], warm |-> (warm # {}),
   warmkey |-> (IF warm = {} THEN K("none", FALSE, 0) ELSE CHOOSE k \in warm : TRUE),
   t |-> p.t, size |-> p.size, content |-> p.content,
   \* expected on every connection: the broadcast, then the message written behind it
   msgs |-> [w \in Writers |-> <<[t |-> p.t, size |-> p.size, z |-> keyOf[w].comp, nl |-> FALSE],
                                 [t |-> 1, size |-> 3, z |-> keyOf[w].comp, nl |-> FALSE]>>]]

Emit == (\A w \in Writers : pc[w] = "start") => \A p \in Payloads : PrintT(<<"CASE", ToJson(Case(p))>>)
=============================================================================
