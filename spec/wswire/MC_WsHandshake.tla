--------------------------- MODULE MC_WsHandshake ---------------------------
(* Exhaustive check of the handshake table on a small alphabet: every crafted *)
(* request x server configuration, every scripted response x client           *)
(* configuration, and library client x library server.                        *)
EXTENDS WsHandshake
McConn == {<<"Upgrade">>, <<"keep-alive", "upgrade">>, <<"keep-alive">>, <<>>}
McUpg  == {<<"websocket">>, <<"WebSocket">>, <<"h2c">>, <<>>}
McExt  == {NoExt, "permessage-deflate", PmdFull, "foo"}
McRespUpg  == {<<"websocket">>, <<"WebSocket">>, <<"h2c">>, <<>>}
McRespConn == {<<"Upgrade">>, <<"upgrade">>, <<"close">>, <<>>}
All(r) == TRUE
=============================================================================
