\* run with -workers 1
SPECIFICATION TSpec
INVARIANT TypeOk
POSTCONDITION Accepted
CHECK_DEADLOCK FALSE
