SPECIFICATION Spec
CONSTANTS
  Dev = "rsv1-on-continuation"
  MsgLists <- McDevMsgLists
  FragLens <- McFragLens
  CtlLens = {0, 125}
  MaxCtl = 1
  MaxFrags = 3
INVARIANTS NoReject
CHECK_DEADLOCK FALSE
