SPECIFICATION PSpec
CONSTANTS
  Dev = "read-buffer-unclamped"
  MsgLists <- McPeerMsgLists
  FragLensOf <- McFragLensOf
  MaxFragsOf <- McMaxFragsOf
  CtlLensOf <- McCtlLensOf
  MaxCtlOf <- McMaxCtlOf
  ReadSizesOf <- McReadSizesOf
  ReadBufsOf <- McReadBufsOf
INVARIANTS AllDelivered
CHECK_DEADLOCK FALSE
