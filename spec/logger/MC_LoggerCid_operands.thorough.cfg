\* C18 model checking, operand family (thorough): all interleavings of 2 goroutines each making <= 1 context
\* and <= 2 logging calls whose operands are written out in the call or are a window (1..3 cells) of ONE
\* caller-owned slice of capacity 3 that both goroutines use (sequential reuse and read-only sharing),
\* with a library-made context (new or alias) or an id-less one.
SPECIFICATION Spec
CONSTANTS
  N = 2
  MaxCtx = 1
  MaxLog = 2
  Levels = {"trace"}
  ArgKinds = {"bg", "ctx"}
  ObjIds = {1000}
  Pid = 7
  AtomicNew = TRUE
  AtomicLine = TRUE
  ObjCid = TRUE
  Bufs = {1}
  Cap = 3
  Wins = {1, 2, 3}
  OwnStorage = TRUE
  Forms = {"ln"}
  Shapes = {"plain"}
  WholeMsg = TRUE
  SignedCid = TRUE
  Sink <- KeepAll
INVARIANTS TypeOK Unique AliasSame WholeLines OnePerCall Adjacent CounterOk OperandsUntouched
CHECK_DEADLOCK FALSE
