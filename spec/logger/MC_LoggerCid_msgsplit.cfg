\* Non-vacuity: named deviation C18/split-at-newline (WholeMsg = FALSE: a message with an interior newline is
\* written piece by piece). TLC must report WholeLines violated (a write that is not the call's whole line).
SPECIFICATION Spec
CONSTANTS
  N = 2
  MaxCtx = 0
  MaxLog = 2
  Levels = {"trace"}
  ArgKinds = {"obj"}
  ObjIds <- NegIds
  Pid = 7
  AtomicNew = TRUE
  AtomicLine = TRUE
  ObjCid = TRUE
  Bufs = {}
  Cap = 0
  Wins = {}
  OwnStorage = TRUE
  Forms = {"ln", "f"}
  Shapes = {"plain", "inner1"}
  WholeMsg = FALSE
  SignedCid = TRUE
  Sink <- KeepAll
INVARIANTS WholeLines
CHECK_DEADLOCK FALSE
