\* C18 model checking, message family: all interleavings of 2 goroutines each making <= 2 logging calls,
\* println- and printf-style, message plain or with an interior newline, routed and discarded level,
\* application objects whose Cid() is 0 or negative.
SPECIFICATION Spec
CONSTANTS
  N = 2
  MaxCtx = 0
  MaxLog = 2
  Levels = {"trace", "info"}
  ArgKinds = {"obj"}
  ObjIds <- NegIds
  Pid = 7
  AtomicNew = TRUE
  AtomicLine = TRUE
  ObjCid = TRUE
  Bufs = {}
  Cap = 0
  Wins = {}
  OwnStorage = TRUE
  Forms = {"ln", "f"}
  Shapes = {"plain", "inner1"}
  WholeMsg = TRUE
  SignedCid = TRUE
  Sink <- KeepAll
INVARIANTS TypeOK Unique AliasSame WholeLines OnePerCall Adjacent CounterOk OperandsUntouched
CHECK_DEADLOCK FALSE
