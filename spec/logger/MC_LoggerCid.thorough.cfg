\* C18 model checking, mixed family (thorough): 2 goroutines, each <= 2 contexts and <= 2 logging calls,
\* every level/context-kind choice (the 3-goroutine product is factored into the _ids and _lines families).
SPECIFICATION Spec
CONSTANTS
  N = 2
  MaxCtx = 2
  MaxLog = 2
  Levels = {"trace", "info"}
  ArgKinds = {"nil", "bg", "obj", "ctx"}
  ObjIds = {1000}
  Pid = 7
  AtomicNew = TRUE
  AtomicLine = TRUE
  ObjCid = TRUE
  Bufs = {}
  Cap = 0
  Wins = {}
  OwnStorage = TRUE
  Forms = {"ln"}
  Shapes = {"plain"}
  WholeMsg = TRUE
  SignedCid = TRUE
  Sink <- KeepAll
INVARIANTS TypeOK Unique AliasSame WholeLines OnePerCall Adjacent CounterOk OperandsUntouched
CHECK_DEADLOCK FALSE
