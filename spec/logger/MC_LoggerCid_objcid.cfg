\* Non-vacuity: named deviation C18/obj-cid-dropped (ObjCid = FALSE: a Cid() object is logged
\* with the nil prefix). TLC must report WholeLines violated.
SPECIFICATION Spec
CONSTANTS
  N = 1
  MaxCtx = 0
  MaxLog = 1
  Levels = {"trace"}
  ArgKinds = {"nil", "obj"}
  ObjIds = {1000}
  Pid = 7
  AtomicNew = TRUE
  AtomicLine = TRUE
  ObjCid = FALSE
  Bufs = {}
  Cap = 0
  Wins = {}
  OwnStorage = TRUE
  Forms = {"ln"}
  Shapes = {"plain"}
  WholeMsg = TRUE
  SignedCid = TRUE
  Sink <- KeepAll
INVARIANTS WholeLines
CHECK_DEADLOCK FALSE
