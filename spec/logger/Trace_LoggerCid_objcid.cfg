\* run with -workers 1; the library under the known deviation C18/obj-cid-dropped
SPECIFICATION TSpec
CONSTANTS
  N = 64
  Pid <- TracePid
  MaxCtx = 0
  MaxLog = 0
  Levels = {}
  ArgKinds = {}
  ObjIds = {}
  AtomicNew = TRUE
  AtomicLine = TRUE
  ObjCid = FALSE
  Bufs = {}
  Cap = 0
  Wins = {}
  OwnStorage = TRUE
  Forms = {"ln"}
  Shapes = {"plain"}
  WholeMsg = TRUE
  SignedCid = TRUE
  Sink <- KeepLast
POSTCONDITION Accepted
CHECK_DEADLOCK FALSE
