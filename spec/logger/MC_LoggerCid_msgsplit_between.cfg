\* Non-vacuity, the interleaving clause: with deviation C18/split-at-newline and only Adjacent looked at, TLC must
\* report Adjacent violated - another goroutine's line between two pieces of one call (needs 2 goroutines).
SPECIFICATION Spec
CONSTANTS
  N = 2
  MaxCtx = 0
  MaxLog = 2
  Levels = {"trace"}
  ArgKinds = {"obj"}
  ObjIds <- NegIds
  Pid = 7
  AtomicNew = TRUE
  AtomicLine = TRUE
  ObjCid = TRUE
  Bufs = {}
  Cap = 0
  Wins = {}
  OwnStorage = TRUE
  Forms = {"ln", "f"}
  Shapes = {"plain", "inner1"}
  WholeMsg = FALSE
  SignedCid = TRUE
  Sink <- KeepAll
INVARIANTS Adjacent
CHECK_DEADLOCK FALSE
