\* Non-vacuity: named deviation C18/cid-counter-race (AtomicNew = FALSE: WithContext is a
\* separate load and store of the counter). TLC must report Unique violated.
SPECIFICATION Spec
CONSTANTS
  N = 2
  MaxCtx = 1
  MaxLog = 0
  Levels = {"trace"}
  ArgKinds = {"nil"}
  ObjIds = {1000}
  Pid = 7
  AtomicNew = FALSE
  AtomicLine = TRUE
  ObjCid = TRUE
  Bufs = {}
  Cap = 0
  Wins = {}
  OwnStorage = TRUE
  Forms = {"ln"}
  Shapes = {"plain"}
  WholeMsg = TRUE
  SignedCid = TRUE
  Sink <- KeepAll
INVARIANTS Unique
CHECK_DEADLOCK FALSE
