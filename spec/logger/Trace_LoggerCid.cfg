\* run with -workers 1
SPECIFICATION TSpec
CONSTANTS
  N = 64
  Pid <- TracePid
  MaxCtx = 0
  MaxLog = 0
  Levels = {}
  ArgKinds = {}
  ObjIds = {}
  AtomicNew = TRUE
  AtomicLine = TRUE
  ObjCid = TRUE
  Bufs = {}
  Cap = 0
  Wins = {}
  OwnStorage = TRUE
  Forms = {"ln"}
  Shapes = {"plain"}
  WholeMsg = TRUE
  SignedCid = TRUE
  Sink <- KeepLast
POSTCONDITION Accepted
CHECK_DEADLOCK FALSE
