\* C18 model checking, operand family (quick): all interleavings of 2 goroutines each making <= 2 logging
\* calls whose operands are written out in the call or are a window (0..2 cells) of ONE caller-owned slice of
\* capacity 2 that BOTH goroutines use (sequential reuse and read-only sharing), routed and discarded level,
\* context arguments with a prefix (nil) and without (id-less context).
SPECIFICATION Spec
CONSTANTS
  N = 2
  MaxCtx = 0
  MaxLog = 2
  Levels = {"trace", "info"}
  ArgKinds = {"nil", "bg"}
  ObjIds = {1000}
  Pid = 7
  AtomicNew = TRUE
  AtomicLine = TRUE
  ObjCid = TRUE
  Bufs = {1}
  Cap = 2
  Wins = {0, 1, 2}
  OwnStorage = TRUE
  Forms = {"ln"}
  Shapes = {"plain"}
  WholeMsg = TRUE
  SignedCid = TRUE
  Sink <- KeepAll
INVARIANTS TypeOK Unique AliasSame WholeLines OnePerCall Adjacent CounterOk OperandsUntouched
CHECK_DEADLOCK FALSE
