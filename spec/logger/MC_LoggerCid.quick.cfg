\* C18 model checking, mixed family (quick): 3 goroutines, each <= 1 context and <= 1 logging call,
\* every level/context-kind choice, so that ids and lines interact (a line's cid is the context's).
SPECIFICATION Spec
CONSTANTS
  N = 3
  MaxCtx = 1
  MaxLog = 1
  Levels = {"trace", "info"}
  ArgKinds = {"nil", "bg", "obj", "ctx"}
  ObjIds = {1000}
  Pid = 7
  AtomicNew = TRUE
  AtomicLine = TRUE
  ObjCid = TRUE
  Bufs = {}
  Cap = 0
  Wins = {}
  OwnStorage = TRUE
  Forms = {"ln"}
  Shapes = {"plain"}
  WholeMsg = TRUE
  SignedCid = TRUE
  Sink <- KeepAll
INVARIANTS TypeOK Unique AliasSame WholeLines OnePerCall Adjacent CounterOk OperandsUntouched
CHECK_DEADLOCK FALSE
