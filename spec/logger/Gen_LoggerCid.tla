---------------------------- MODULE Gen_LoggerCid ----------------------------
(* Run descriptors for the recorded executions of C18 (code -> model).  The   *)
(* schedule is chosen by the Go runtime, not by the model: a case only fixes  *)
(* how many goroutines run, how many calls each makes and how the calls are   *)
(* distributed over the actions of LoggerCid (New / Alias / Log, in percent). *)
(* What the execution must look like is decided by Trace_LoggerCid.           *)
(* A second dimension is how logging calls are given their operands           *)
(* (LoggerCid!Lit / Win): written out in the call, a window of the            *)
(* goroutine's own slice used again call after call, or a window of a slice   *)
(* all goroutines pass read-only at the same time - in percent - and the      *)
(* capacities of those slices (every window length 1..cap is used, so the     *)
(* spare capacity behind a window sweeps cap-1..0).                           *)
(* Value classes every run draws from: the shapes of rendered messages        *)
(* (LoggerCid!AllShapes: empty, interior / trailing newlines, CR, CRLF,       *)
(* > 4 KiB, > 64 KiB - in println and printf form, the newline written in the *)
(* format or produced by an operand) and the classes of ids application       *)
(* objects expose through Cid() (names: TLC integers are 32-bit).             *)
EXTENDS Naturals, FiniteSets, TLC, Json
CONSTANTS Goroutines,   \* goroutines of a run
          Calls,        \* calls of a run, shared out evenly: ops = Calls \div n per goroutine
          Reps,         \* repetitions of a descriptor (each a different seed)
          Shared,       \* contexts made by the main goroutine before the others start
          MixNames,
          OpndNames,   \* operand mixes
          Shapes,      \* message shapes of a run (all of them in every run), subset of LoggerCid!AllShapes
          ObjIdClasses,\* classes of Cid() values of a run: "zero", "minus1", "negative", "minint32", "maxint32",
                       \* "minint64", "maxint64", "small", "librange" (the ids the library hands out), "random"
          Caps,        \* capacities of the caller-owned operand slices of a run (all of them in every run)
          Closers      \* is the writer handed to Switch also an io.Closer? {TRUE, FALSE}: both for every
                       \* descriptor; {}: one of the two, alternating over goroutine counts and mixes
VARIABLES n, ops, mix, shared, closer, rep, opnd
vars == <<n, ops, mix, shared, closer, rep, opnd>>

\* percent of calls per action of LoggerCid
Mix(name) == CASE name = "create"   -> [name |-> name, new |-> 75, alias |-> 25, log |-> 0]
               [] name = "log"      -> [name |-> name, new |-> 4,  alias |-> 4,  log |-> 92]
               [] name = "balanced" -> [name |-> name, new |-> 30, alias |-> 20, log |-> 50]

\* percent of logging calls per way of passing the operands
Opnd(name) == CASE name = "lit"   -> [name |-> name, lit |-> 100, own |-> 0,  shared |-> 0]
                [] name = "mixed" -> [name |-> name, lit |-> 40,  own |-> 30, shared |-> 30]
                [] name = "reuse" -> [name |-> name, lit |-> 10,  own |-> 45, shared |-> 45]

Pos(x, S) == Cardinality({y \in S : y < x})
MixPos(m) == CASE m = "create" -> 0 [] m = "log" -> 1 [] m = "balanced" -> 2

GenInit == /\ n \in Goroutines /\ ops \in {c \div n : c \in Calls} /\ shared \in Shared /\ rep \in Reps
           /\ mix \in {Mix(m) : m \in MixNames}
           /\ opnd \in {Opnd(o) : o \in OpndNames}
           /\ closer \in (IF Closers # {} THEN Closers ELSE {(Pos(n, Goroutines) + MixPos(mix.name)) % 2 = 1})
GenNext == UNCHANGED vars
Emit == PrintT(<<"CASE", ToJson([n |-> n, ops |-> ops, mix |-> mix, shared |-> shared, closer |-> closer, rep |-> rep,
                               opnd |-> opnd, caps |-> Caps,
                               shapes |-> Shapes, objids |-> ObjIdClasses])>>)
=============================================================================
