---------------------------- MODULE Gen_LoggerCid ----------------------------
(* Run descriptors for the recorded executions of C18 (code -> model).  The   *)
(* schedule is chosen by the Go runtime, not by the model: a case only fixes  *)
(* how many goroutines run, how many calls each makes and how the calls are   *)
(* distributed over the actions of LoggerCid (New / Alias / Log, in percent). *)
(* What the execution must look like is decided by Trace_LoggerCid.           *)
EXTENDS Naturals, TLC, Json
CONSTANTS Goroutines, Ops, Shared, MixNames
VARIABLES n, ops, mix, shared
vars == <<n, ops, mix, shared>>

\* percent of calls per action of LoggerCid
Mix(name) == CASE name = "create"   -> [name |-> name, new |-> 75, alias |-> 25, log |-> 0]
               [] name = "log"      -> [name |-> name, new |-> 4,  alias |-> 4,  log |-> 92]
               [] name = "balanced" -> [name |-> name, new |-> 30, alias |-> 20, log |-> 50]

GenInit == /\ n \in Goroutines /\ ops \in Ops /\ shared \in Shared
           /\ mix \in {Mix(m) : m \in MixNames}
GenNext == UNCHANGED vars
Emit == PrintT(<<"CASE", ToJson([n |-> n, ops |-> ops, mix |-> mix, shared |-> shared])>>)
=============================================================================
