\* Non-vacuity: named deviation C18/obj-cid-unsigned (SignedCid = FALSE: println-style calls print a negative Cid()
\* as an unsigned number). TLC must report WholeLines violated (the cid of the line is not the object's).
SPECIFICATION Spec
CONSTANTS
  N = 2
  MaxCtx = 0
  MaxLog = 2
  Levels = {"trace"}
  ArgKinds = {"obj"}
  ObjIds <- NegIds
  Pid = 7
  AtomicNew = TRUE
  AtomicLine = TRUE
  ObjCid = TRUE
  Bufs = {}
  Cap = 0
  Wins = {}
  OwnStorage = TRUE
  Forms = {"ln", "f"}
  Shapes = {"plain", "inner1"}
  WholeMsg = TRUE
  SignedCid = FALSE
  Sink <- KeepAll
INVARIANTS WholeLines
CHECK_DEADLOCK FALSE
