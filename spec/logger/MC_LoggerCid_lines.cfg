\* C18 model checking, line family: all interleavings of 3 goroutines each making <= 2
\* logging calls (routed and discarded level; nil / id-less / application-object context).
SPECIFICATION Spec
CONSTANTS
  N = 3
  MaxCtx = 0
  MaxLog = 2
  Levels = {"trace", "info"}
  ArgKinds = {"nil", "obj"}
  ObjIds = {1000}
  Pid = 7
  AtomicNew = TRUE
  AtomicLine = TRUE
  ObjCid = TRUE
  Bufs = {}
  Cap = 0
  Wins = {}
  OwnStorage = TRUE
  Forms = {"ln"}
  Shapes = {"plain"}
  WholeMsg = TRUE
  SignedCid = TRUE
  Sink <- KeepAll
INVARIANTS TypeOK Unique AliasSame WholeLines OnePerCall Adjacent CounterOk OperandsUntouched
CHECK_DEADLOCK FALSE
