\* C18 model checking, id family: all interleavings of 3 goroutines each making <= 2
\* contexts (WithContext, or AliasContext of any context made so far / of one without id).
SPECIFICATION Spec
CONSTANTS
  N = 3
  MaxCtx = 2
  MaxLog = 0
  Levels = {"trace"}
  ArgKinds = {"nil"}
  ObjIds = {1000}
  Pid = 7
  AtomicNew = TRUE
  AtomicLine = TRUE
  ObjCid = TRUE
  Bufs = {}
  Cap = 0
  Wins = {}
  OwnStorage = TRUE
  Forms = {"ln"}
  Shapes = {"plain"}
  WholeMsg = TRUE
  SignedCid = TRUE
  Sink <- KeepAll
INVARIANTS TypeOK Unique AliasSame WholeLines OnePerCall Adjacent CounterOk OperandsUntouched
CHECK_DEADLOCK FALSE
