--------------------------- MODULE Trace_LoggerCid ---------------------------
(* Trace validation (code -> model) for C18: is a recorded execution of the   *)
(* real logger package a behaviour of LoggerCid?                              *)
(*                                                                            *)
(* trace.ndjson holds one event per line, several runs of ONE process         *)
(* separated by `reset` events.  Events of a goroutine are in program order;  *)
(* log events of different goroutines are in the order of their Write calls   *)
(* at the writer; `new`/`alias` events of different goroutines are in no      *)
(* particular order (they are recorded after the call returned), which is why *)
(* a `new` event is accepted on freshness of its id (id \notin used) and not  *)
(* on id = next + 1: the property demands uniqueness, not an order.           *)
(*   {"e":"reset","run":r,"pid":p,"n":N}                                      *)
(*   {"e":"new",  "g":g,"c":{"g":g,"i":i},"id":id}                            *)
(*   {"e":"alias","g":g,"c":{..},"src":{"k":"ctx"|"bg"|"nil","g":..,"i":..},"id":id} *)
(*   {"e":"buf",  "g":g,"b":{"g":g,"i":j},"cap":c}  the application made the   *)
(*        operand slice b (the j-th of goroutine g) with c cells of capacity  *)
(*   {"e":"log",  "g":g,"k":k,"level":l,"arg":{"k":..,"g":..,"i":..},         *)
(*        "src":{"k":"lit"|"win","b":{..},"n":n}, "after":[..],               *)
(*        "w":[{"label":l,"pid":p,"cid":c,"whole":b}, ...]}                   *)
(*        "m":{"form":"ln"|"f","shape":s} = call form and shape of the rendered  *)
(*        message (LoggerCid!AllShapes); w = EVERY Write call that carried    *)
(*        anything of this call - the unit is the Write, not the text line:   *)
(*        whole = the write is label, time, prefix and the call's entire      *)
(*        message (interior newlines, CR, 64 KiB and all), newline-terminated *)
(*        The Cid() of an application object that is not in 1..2^31-1 (0,     *)
(*        negative, 64-bit) is written as a code <= -10 in arg.i and - when   *)
(*        the line prints exactly its decimal form - in w[..].cid.            *)
(*        src = how the operands were passed (written out in the call, or the *)
(*        first n cells of slice b); after = the cells of b up to its capacity*)
(*        as the caller found them when the call had returned: j = what the   *)
(*        application put into cell j, 0 = something else ([] for "lit")      *)
(*        w = every Write call at the writer that contained the call's unique *)
(*        message token, tokenised by the harness (cid 0 = no '[cid]' part,   *)
(*        pid 0 = no prefix, -1 = unparsable prefix; whole = one line, ending *)
(*        in exactly the message the operands AS THE APPLICATION FILLED THEM  *)
(*        format to)                                                          *)
(*   {"e":"write","raw":..}  a Write call that belongs to no logging call     *)
(*        (no action of the specification produces one: always rejected)      *)
(* Acceptance: every event is consumed.  The high-water mark of consumed      *)
(* events is kept with TLCSet (run with -workers 1) and reported by the       *)
(* POSTCONDITION as <<"TRACE", consumed, total>>; vcheck turns consumed <     *)
(* total into a failing result that names event consumed + 1.                 *)
EXTENDS LoggerCid, Json

VARIABLES i,        \* index of the next event
          floor     \* every id in FirstId..floor-1 has been handed out in this process: the ids
                    \* of the process so far are (FirstId..floor-1) \cup used
tvars == <<vars, i, floor>>

Trace    == TLCEval(ndJsonDeserialize("trace.ndjson"))
TracePid == Trace[1].pid
\* N is a plain number in the cfg (an upper bound of the goroutines of a run): defining it
\* from the trace (N <- ...) makes TLC re-read the file at every step.

Max(a, b) == IF a >= b THEN a ELSE b
Quiet(g)  == rd[g] = Idle /\ pend[g] = <<>>

\* a new process-level run: contexts, lines and call counters of the previous run are
\* forgotten; the ids handed out in the process are NOT (uniqueness is per process)
\* (kept in compact form when they are a gap-free range, which is what a counter produces;
\* otherwise the set is simply kept)
TReset(e) == /\ e.e = "reset"
             /\ e.pid = Pid /\ e.n <= N
             /\ ctxid' = [g \in AllProcs |-> <<>>] /\ origin' = [g \in AllProcs |-> <<>>]
             /\ nlog' = [g \in AllProcs |-> 0]
             /\ out' = <<>>
             /\ buf' = <<>>
             /\ IF used = floor..next
                THEN used' = {} /\ floor' = next + 1
                ELSE UNCHANGED <<used, floor>>
             /\ UNCHANGED <<next, rd, pend>>

\* NewAtomic with `id = next + 1` weakened to freshness
TFresh(g, c, id) == /\ Quiet(g)
                    /\ c.g = g
                    /\ id >= floor
                    /\ id \notin used
                    /\ Hand(c, id)
                    /\ next' = Max(next, id)
                    /\ UNCHANGED <<rd, pend, nlog, out, buf>>

TNew(e) == e.e = "new" /\ TFresh(e.g, e.c, e.id) /\ UNCHANGED floor

TAlias(e) == /\ e.e = "alias"
             /\ ArgOk(e.src)
             /\ IF HasId(e.src)
                THEN e.c.g = e.g /\ Alias(e.g, e.c, e.src) /\ ctxid'[e.c.g][e.c.i] = e.id
                ELSE e.src.k \in {"bg", "nil"} /\ TFresh(e.g, e.c, e.id)
             /\ UNCHANGED floor

\* the application makes an operand slice (not a call of the library)
TBuf(e) == /\ e.e = "buf"
           /\ e.b.g = e.g /\ e.b \notin DOMAIN buf /\ e.cap \in Nat
           /\ buf' = buf @@ (e.b :> Pristine(e.cap))
           /\ UNCHANGED <<next, used, ctxid, origin, rd, pend, nlog, out, floor>>

\* what the harness read from a Write call against the line of the specification
Observed(w, line) == /\ w.whole
                     /\ w.label = line.level
                     /\ line.pfx.judged => (w.pid = line.pfx.pid /\ w.cid = line.pfx.cid)
                     /\ line.ops = Meant(line.src)

TLog(e) == /\ e.e = "log"
           /\ e.k = nlog[e.g] + 1
           /\ e.level \in AllLevels
           /\ e.m.form \in AllForms /\ e.m.shape \in AllShapes
           /\ \/ /\ Len(e.w) = 1             \* one write, and it is the specification's line
                 /\ LogCall(e.g, e.level, e.arg, e.src, e.m, TRUE)
                 /\ Observed(e.w[1], out'[Len(out')])
              \/ /\ Len(e.w) = 0             \* nothing at the writer: only for a level that
                 /\ e.level \notin Routed    \* Switch does not route to it (Info)
                 /\ LogCall(e.g, e.level, e.arg, e.src, e.m, FALSE)
           \* the caller's slice after the call is the specification's: untouched, up to its capacity
           /\ e.src.k = "win" => e.after = buf'[e.src.b]
           /\ UNCHANGED floor

TInit == Init /\ i = 1 /\ floor = FirstId /\ TLCSet(1, 0)

TNext == /\ i <= Len(Trace)
         /\ LET e == Trace[i] IN TReset(e) \/ TNew(e) \/ TAlias(e) \/ TBuf(e) \/ TLog(e)
         /\ i' = i + 1
         /\ TLCSet(1, i)

TSpec == TInit /\ [][TNext]_tvars

Consumed == TLCGet(1)
Accepted == PrintT(<<"TRACE", Consumed, Len(Trace)>>)
=============================================================================
