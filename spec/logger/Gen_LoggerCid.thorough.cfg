INIT GenInit
NEXT GenNext
CONSTANTS
  Goroutines = {2, 8, 32, 64}
  Calls = {3000}
  Reps = {1, 2}
  Shared = {0, 3}
  MixNames = {"create", "log", "balanced"}
  Closers = {TRUE, FALSE}
INVARIANT Emit
CHECK_DEADLOCK FALSE
