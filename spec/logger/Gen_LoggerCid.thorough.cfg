INIT GenInit
NEXT GenNext
CONSTANTS
  Goroutines = {2, 8, 32, 64}
  Calls = {3000}
  Reps = {1}
  Shared = {0, 3}
  MixNames = {"create", "log", "balanced"}
  OpndNames = {"mixed", "reuse"}
  Caps = {1, 2, 3, 4, 5, 8, 9}
  Shapes = {"plain", "empty", "trail1", "trail2", "inner1", "inner2", "inner1trail1", "cr", "crlf", "long4k", "long64k", "long64kinner"}
  ObjIdClasses = {"zero", "minus1", "negative", "minint32", "maxint32", "minint64", "maxint64", "small", "librange", "random"}
  Closers = {TRUE, FALSE}
INVARIANT Emit
CHECK_DEADLOCK FALSE
