INIT GenInit
NEXT GenNext
CONSTANTS
  Goroutines = {2, 16, 64}
  Ops = {250}
  Shared = {0, 3}
  MixNames = {"create", "log", "balanced"}
  Closers = {TRUE, FALSE}
INVARIANT Emit
CHECK_DEADLOCK FALSE
