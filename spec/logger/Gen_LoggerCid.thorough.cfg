INIT GenInit
NEXT GenNext
CONSTANTS
  Goroutines = {2, 8, 32, 64}
  Ops = {100, 400}
  Shared = {0, 3}
  MixNames = {"create", "log", "balanced"}
  Closers = {TRUE, FALSE}
INVARIANT Emit
CHECK_DEADLOCK FALSE
