INIT GenInit
NEXT GenNext
CONSTANTS
  Goroutines = {2, 8, 32, 64}
  Calls = {3000}
  Reps = {1}
  Shared = {0, 3}
  MixNames = {"create", "log", "balanced"}
  OpndNames = {"mixed", "reuse"}
  Caps = {1, 2, 3, 4, 5, 8, 9}
  Closers = {TRUE, FALSE}
INVARIANT Emit
CHECK_DEADLOCK FALSE
