\* Non-vacuity: named deviation C18/split-line (AtomicLine = FALSE: prefix and message reach
\* the writer in two writes). TLC must report WholeLines violated.
SPECIFICATION Spec
CONSTANTS
  N = 2
  MaxCtx = 0
  MaxLog = 1
  Levels = {"trace"}
  ArgKinds = {"nil"}
  ObjIds = {1000}
  Pid = 7
  AtomicNew = TRUE
  AtomicLine = FALSE
  ObjCid = TRUE
  Bufs = {}
  Cap = 0
  Wins = {}
  OwnStorage = TRUE
  Forms = {"ln"}
  Shapes = {"plain"}
  WholeMsg = TRUE
  SignedCid = TRUE
  Sink <- KeepAll
INVARIANTS WholeLines
CHECK_DEADLOCK FALSE
