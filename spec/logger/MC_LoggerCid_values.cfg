\* C18 model checking, value matrix: one goroutine, two calls, EVERY message shape x call form x context kind,
\* Cid() of an application object 0, negative, small, in the range of the library's ids, 32-bit extremes.
SPECIFICATION Spec
CONSTANTS
  N = 1
  MaxCtx = 1
  MaxLog = 2
  Levels = {"trace"}
  ArgKinds = {"nil", "bg", "obj", "ctx"}
  ObjIds <- WideIds
  Pid = 7
  AtomicNew = TRUE
  AtomicLine = TRUE
  ObjCid = TRUE
  Bufs = {}
  Cap = 0
  Wins = {}
  OwnStorage = TRUE
  Forms = {"ln", "f"}
  Shapes = {"plain", "empty", "trail1", "trail2", "inner1", "inner2", "inner1trail1", "cr", "crlf", "long4k", "long64k", "long64kinner"}
  WholeMsg = TRUE
  SignedCid = TRUE
  Sink <- KeepAll
INVARIANTS TypeOK Unique AliasSame WholeLines OnePerCall Adjacent CounterOk OperandsUntouched
CHECK_DEADLOCK FALSE
