------------------------------ MODULE LoggerCid ------------------------------
(* Connection ids and log lines of the logger package (property C18).         *)
(*                                                                            *)
(* Goroutines g \in 1..N (0 is the main goroutine, inert in model checking,   *)
(* used by recorded traces for contexts made before the workers start) share  *)
(*   next   the process-wide counter: last id handed out, initially 999       *)
(*   used   every id ever handed out to a *new* connection                    *)
(*   ctxid  library-made context -> the id it carries: context <<g, i>> is    *)
(*          the i-th context goroutine g made, ctxid[g][i] its id             *)
(*   origin library-made context -> how it was made ("new" / alias of src)    *)
(*   out    what arrived at the current writer: one element per Write call    *)
(* One action per public call / critical section:                             *)
(*   New(g, c)        WithContext: under the lock next' = next + 1, c gets it *)
(*   Alias(g, c, s)   AliasContext: c gets id(s), or New if s carries none    *)
(*   Log(g, l, a)     T/Tf/W/Wf/E/Ef/I/If, Logger.Println/Printf: exactly one *)
(*                    line <<label, [pid][cid], message>> in ONE write        *)
(* Named deviations (CONSTANT switches, FALSE = deviation):                   *)
(*   AtomicNew   C18/cid-counter-race: New is ReadCounter ; WriteCounter,     *)
(*               which is what an unsynchronised `gCid += 1` is               *)
(*   AtomicLine  C18/split-line: prefix and message reach the writer in two   *)
(*               writes, so another goroutine's write can fall in between     *)
(*   ObjCid      C18/obj-cid-dropped: a line logged with an application       *)
(*               object (Cid() int) carries '[pid]' only, as if ctx were nil  *)
EXTENDS Naturals, Sequences, FiniteSets, TLC

CONSTANTS N,          \* worker goroutines 1..N
          MaxCtx,     \* contexts a goroutine may make          (bound of Next only)
          MaxLog,     \* logging calls a goroutine may make     (bound of Next only)
          Levels,     \* levels Next logs through, subset of AllLevels
          ObjIds,     \* ids application objects expose through Cid()
          ArgKinds,   \* kinds of context argument Next logs with, subset of {"nil","bg","obj","ctx"}
          Pid,        \* the process id
          AtomicNew, AtomicLine, ObjCid,
          Sink(_, _)  \* how the writer's history is kept: KeepAll (the specification), or KeepLast for
                      \* long recorded traces, where only the newest write is looked at

VARIABLES next, used, ctxid, origin, rd, pend, nlog, out
vars == <<next, used, ctxid, origin, rd, pend, nlog, out>>
idvars == <<next, used, ctxid, origin, rd>>

Procs    == 1..N
AllProcs == 0..N
FirstId  == 1000
Idle     == 0                       \* rd[g]: no counter value read and not yet written back
AllLevels == {"info", "trace", "warn", "error"}
Routed    == {"trace", "warn", "error"}   \* Switch(w) hands w to these; Info goes to ioutil.Discard

(* Context names and what may be passed as the ctx argument of a logging call *)
(* (one record shape for all kinds so that values are always comparable).     *)
Name(g, i) == [g |-> g, i |-> i]
NilArg     == [k |-> "nil", g |-> 0, i |-> 0]    \* nil
BgArg      == [k |-> "bg",  g |-> 0, i |-> 0]    \* a context.Context that carries no id
ObjArg(id) == [k |-> "obj", g |-> 0, i |-> id]   \* application object, Cid() = id
CtxArg(c)  == [k |-> "ctx", g |-> c.g, i |-> c.i]\* library-made context c
NameOf(a)  == Name(a.g, a.i)
IsMade(c)  == c.g \in AllProcs /\ c.i \in 1..Len(ctxid[c.g])
Made       == UNION {{Name(g, i) : i \in 1..Len(ctxid[g])} : g \in AllProcs}
IdOf(c)    == ctxid[c.g][c.i]
OriginOf(c) == origin[c.g][c.i]
ArgOk(a)   == a.k = "ctx" => IsMade(NameOf(a))
HasId(a)   == a.k = "ctx" /\ IsMade(NameOf(a))

(* The prefix the property fixes: '[pid][cid]' for an id-carrying context,    *)
(* '[pid]' for nil (cid 0 = absent).  For a context.Context without id the    *)
(* property says nothing: not judged.                                         *)
SpecPrefix(a) == CASE a.k = "nil" -> [judged |-> TRUE,  pid |-> Pid, cid |-> 0]
                   [] a.k = "obj" -> [judged |-> TRUE,  pid |-> Pid, cid |-> a.i]
                   [] a.k = "ctx" -> [judged |-> TRUE,  pid |-> Pid, cid |-> IdOf(NameOf(a))]
                   [] OTHER       -> [judged |-> FALSE, pid |-> 0,   cid |-> 0]

(* What a logging call writes.  Deviation C18/obj-cid-dropped (ObjCid = FALSE): *)
(* an application object is treated as if no context had been passed.          *)
Prefix(a) == IF a.k = "obj" /\ ~ObjCid THEN SpecPrefix(NilArg) ELSE SpecPrefix(a)

KeepAll(o, w)  == Append(o, w)
KeepLast(o, w) == <<w>>

Init == /\ next = FirstId - 1
        /\ used = {}
        /\ ctxid = [g \in AllProcs |-> <<>>] /\ origin = [g \in AllProcs |-> <<>>]
        /\ rd = [g \in AllProcs |-> Idle]
        /\ pend = [g \in AllProcs |-> <<>>]
        /\ nlog = [g \in AllProcs |-> 0]
        /\ out = <<>>

(* ------------------------------ connection ids ---------------------------- *)
NewOrigin      == [how |-> "new",   g |-> 0,   i |-> 0]
AliasOrigin(s) == [how |-> "alias", g |-> s.g, i |-> s.i]

\* context c comes into existence carrying id: it is the next one of its goroutine
Create(c, id, how) == /\ c.g \in AllProcs /\ c.i = Len(ctxid[c.g]) + 1
                      /\ ctxid'  = [ctxid  EXCEPT ![c.g] = Append(@, id)]
                      /\ origin' = [origin EXCEPT ![c.g] = Append(@, how)]

\* id is handed out: a new connection's context c carries it
Hand(c, id) == /\ used' = used \cup {id}
               /\ Create(c, id, NewOrigin)

\* WithContext, the whole critical section in one step
NewAtomic(g, c) == /\ rd[g] = Idle /\ pend[g] = <<>>
                   /\ next' = next + 1
                   /\ Hand(c, next')
                   /\ UNCHANGED <<rd, pend, nlog, out>>

\* deviation C18/cid-counter-race: load ...
ReadCounter(g) == /\ rd[g] = Idle /\ pend[g] = <<>>
                  /\ rd' = [rd EXCEPT ![g] = next + 1]      \* the value it is going to store
                  /\ UNCHANGED <<next, used, ctxid, origin, pend, nlog, out>>
\* ... then store, whatever happened in between
WriteCounter(g, c) == /\ rd[g] # Idle
                      /\ next' = rd[g]
                      /\ Hand(c, rd[g])
                      /\ rd' = [rd EXCEPT ![g] = Idle]
                      /\ UNCHANGED <<pend, nlog, out>>

New(g, c) == IF AtomicNew THEN NewAtomic(g, c)
             ELSE ReadCounter(g) \/ WriteCounter(g, c)

\* AliasContext(parent, source): the source's id, or a new one if it has none
\* (src is an argument: a made context, BgArg or NilArg)
Alias(g, c, src) ==
  IF HasId(src)
  THEN /\ rd[g] = Idle /\ pend[g] = <<>>
       /\ Create(c, IdOf(NameOf(src)), AliasOrigin(NameOf(src)))
       /\ UNCHANGED <<next, used, rd, pend, nlog, out>>
  ELSE /\ src.k \in {"bg", "nil"}
       /\ New(g, c)

(* --------------------------------- logging -------------------------------- *)
Msg(g)  == [g |-> g, k |-> nlog[g] + 1]           \* unique per call
Line(g, level, a) == [kind |-> "line", level |-> level, pfx |-> Prefix(a), msg |-> Msg(g), arg |-> a]
HeadOf(l) == [l EXCEPT !.kind = "head"]             \* label, time, prefix - no message, no newline
TailOf(l) == [l EXCEPT !.kind = "tail"]             \* message and newline only

\* one logging call through `level` with context argument a; routed = the level's
\* logger writes to the current writer (otherwise to the discard sink)
LogCall(g, level, a, routed) ==
  /\ rd[g] = Idle /\ pend[g] = <<>>
  /\ ArgOk(a)
  /\ nlog' = [nlog EXCEPT ![g] = @ + 1]
  /\ IF ~routed THEN UNCHANGED <<out, pend>>
     ELSE IF AtomicLine THEN out' = Sink(out, Line(g, level, a)) /\ UNCHANGED pend
     ELSE /\ out' = Sink(out, HeadOf(Line(g, level, a)))          \* deviation C18/split-line
          /\ pend' = [pend EXCEPT ![g] = <<TailOf(Line(g, level, a))>>]
  /\ UNCHANGED idvars

WriteTail(g) == /\ pend[g] # <<>>
                /\ out' = Sink(out, pend[g][1])
                /\ pend' = [pend EXCEPT ![g] = <<>>]
                /\ UNCHANGED <<idvars, nlog>>

Log(g, level, a) == LogCall(g, level, a, level \in Routed)

(* ---------------------------------- Next ---------------------------------- *)
NumMade(g) == Len(ctxid[g])
Fresh(g)   == Name(g, NumMade(g) + 1)
Sources    == {CtxArg(c) : c \in Made} \cup {BgArg, NilArg}
Args       == {a \in {CtxArg(c) : c \in Made} \cup {NilArg, BgArg} \cup {ObjArg(id) : id \in ObjIds} : a.k \in ArgKinds}

Next == \E g \in Procs :
          \/ /\ NumMade(g) < MaxCtx
             /\ \/ New(g, Fresh(g))
                \/ \E s \in Sources : Alias(g, Fresh(g), s)
          \/ /\ nlog[g] < MaxLog
             /\ \E l \in Levels, a \in Args : Log(g, l, a)
          \/ WriteTail(g)

Spec == Init /\ [][Next]_vars

(* ------------------------------- the property ----------------------------- *)
IsNew(c) == OriginOf(c).how = "new"

\* every context made for a new connection carries an id no other one carries
Unique == \A c1, c2 \in Made : (IsNew(c1) /\ IsNew(c2) /\ c1 # c2) => IdOf(c1) # IdOf(c2)

\* an aliased context carries exactly its source's id
AliasSame == \A c \in Made : OriginOf(c).how = "alias" => IdOf(c) = IdOf(Name(OriginOf(c).g, OriginOf(c).i))

\* every write at the writer is one whole line, its cid the passed context's
WholeLines == \A i \in 1..Len(out) :
                /\ out[i].kind = "line"
                /\ out[i].pfx = SpecPrefix(out[i].arg)
                /\ out[i].level \in Routed

\* exactly one line per (routed) call: messages are unique per call, so no message twice
\* and every line belongs to a call that was made
OnePerCall == /\ \A i, j \in 1..Len(out) : (i # j /\ out[i].kind = out[j].kind) => out[i].msg # out[j].msg
              /\ \A i \in 1..Len(out) : out[i].msg.k <= nlog[out[i].msg.g]

\* bookkeeping that ties the variables together (not part of the property)
CounterOk == /\ used = {IdOf(c) : c \in {d \in Made : IsNew(d)}}
             /\ \A id \in used : FirstId <= id /\ id <= next
             /\ AtomicNew => next = FirstId - 1 + Cardinality({c \in Made : IsNew(c)})

TypeOK == /\ next \in Nat /\ used \subseteq Nat
          /\ \A g \in AllProcs : Len(origin[g]) = Len(ctxid[g])
          /\ \A c \in Made : IdOf(c) \in Nat /\ IdOf(c) >= FirstId
          /\ \A g \in AllProcs : rd[g] \in Nat /\ nlog[g] \in Nat /\ Len(pend[g]) <= 1
=============================================================================
