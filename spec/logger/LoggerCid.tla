------------------------------ MODULE LoggerCid ------------------------------
(* Connection ids and log lines of the logger package (property C18).         *)
(*                                                                            *)
(* Goroutines g \in 1..N (0 is the main goroutine, inert in model checking,   *)
(* used by recorded traces for contexts made before the workers start) share  *)
(*   next   the process-wide counter: last id handed out, initially 999       *)
(*   used   every id ever handed out to a *new* connection                    *)
(*   ctxid  library-made context -> the id it carries: context <<g, i>> is    *)
(*          the i-th context goroutine g made, ctxid[g][i] its id             *)
(*   origin library-made context -> how it was made ("new" / alias of src)    *)
(*   out    what arrived at the current writer: one element per Write call    *)
(* One action per public call / critical section:                             *)
(*   New(g, c)        WithContext: under the lock next' = next + 1, c gets it *)
(*   Alias(g, c, s)   AliasContext: c gets id(s), or New if s carries none    *)
(*   Log(g, l, a, s)  T/Tf/W/Wf/E/Ef/I/If, Logger.Println/Printf: exactly one *)
(*                    line <<label, [pid][cid], message>> in ONE write; the   *)
(*                    message is made of the operands the caller passed: s    *)
(*                    says how - operands written out in the call ("lit",     *)
(*                    storage nobody else sees) or a window buf[b][1..n] of a *)
(*                    slice the CALLER owns, `fields[:n]...`, whose backing   *)
(*                    array has Len(buf[b]) >= n cells. The caller (and every *)
(*                    goroutine it shares the slice with) goes on using it:   *)
(*                    a logging call only READS its operands.                 *)
(*                    m = [form, shape] says which call form it is ("ln" =    *)
(*                    println-style I/T/W/E/X.Println, "f" = printf-style) and *)
(*                    what the rendered message looks like (plain, empty,     *)
(*                    interior / trailing newlines, CR, long): whatever it    *)
(*                    looks like, the unit is the Write call - ONE per call,  *)
(*                    holding label, time, prefix and the whole message.      *)
(*   buf    caller-owned operand storage: buffer -> its cells up to capacity. *)
(*          A cell is j when it holds what the application put into cell j,   *)
(*          0 when it holds something the application never put there.        *)
(* Named deviations (CONSTANT switches, FALSE = deviation):                   *)
(*   AtomicNew   C18/cid-counter-race: New is ReadCounter ; WriteCounter,     *)
(*               which is what an unsynchronised `gCid += 1` is               *)
(*   AtomicLine  C18/split-line: prefix and message reach the writer in two   *)
(*               writes, so another goroutine's write can fall in between     *)
(*   ObjCid      C18/obj-cid-dropped: a line logged with an application       *)
(*               object (Cid() int) carries '[pid]' only, as if ctx were nil  *)
(*   OwnStorage  C18/prefix-inserted-in-place: the call builds the argument   *)
(*               list <<prefix>> \o operands INSIDE the caller's slice when   *)
(*               that has spare capacity (append(a, nil); copy(a[1:], a);     *)
(*               a[0] = prefix): the line of this call is still right, the    *)
(*               caller's cells are shifted by one, so the NEXT call with the *)
(*               same slice - by this goroutine or any other - prints the     *)
(*               earlier call's prefix inside a truncated message             *)
(*   WholeMsg    C18/split-at-newline: a message whose rendered text has k    *)
(*               interior newlines is logged piece by piece, k+1 writes each  *)
(*               with its own label/time/prefix; the logger's lock is free    *)
(*               between them, so other goroutines' lines land in between     *)
(*   SignedCid   C18/obj-cid-unsigned: the println-style prefix renders the   *)
(*               Cid() of an application object as an unsigned number: a      *)
(*               negative id prints as id + 2^w, and differently from what    *)
(*               the printf-style calls print for the same object             *)
EXTENDS Integers, Sequences, FiniteSets, TLC

CONSTANTS N,          \* worker goroutines 1..N
          MaxCtx,     \* contexts a goroutine may make          (bound of Next only)
          MaxLog,     \* logging calls a goroutine may make     (bound of Next only)
          Levels,     \* levels Next logs through, subset of AllLevels
          ObjIds,     \* ids application objects expose through Cid()
          ArgKinds,   \* kinds of context argument Next logs with, subset of {"nil","bg","obj","ctx"}
          Pid,        \* the process id
          AtomicNew, AtomicLine, ObjCid,
          Bufs,       \* caller-owned operand buffers that exist from the start (names)
          Cap,        \* their capacity (cells)
          Wins,       \* window lengths n Next passes operands with: buf[b][1..n], subset of 0..Cap
          OwnStorage, \* TRUE: the call never writes to the caller's operands (FALSE = deviation)
          Forms,      \* call forms Next logs through, subset of {"ln", "f"}
          Shapes,     \* message shapes Next logs, subset of AllShapes
          WholeMsg,   \* TRUE: one write per call whatever the message looks like (FALSE = deviation)
          SignedCid,  \* TRUE: an object's Cid() is printed as the integer it is (FALSE = deviation)
          Sink(_, _)  \* how the writer's history is kept: KeepAll (the specification), or KeepLast for
                      \* long recorded traces, where only the newest write is looked at

VARIABLES next, used, ctxid, origin, rd, pend, nlog, out, buf
vars == <<next, used, ctxid, origin, rd, pend, nlog, out, buf>>
idvars == <<next, used, ctxid, origin, rd>>

Procs    == 1..N
AllProcs == 0..N
FirstId  == 1000
Idle     == 0                       \* rd[g]: no counter value read and not yet written back
AllLevels == {"info", "trace", "warn", "error"}
Routed    == {"trace", "warn", "error"}   \* Switch(w) hands w to these; Info goes to ioutil.Discard

(* Context names and what may be passed as the ctx argument of a logging call *)
(* (one record shape for all kinds so that values are always comparable).     *)
Name(g, i) == [g |-> g, i |-> i]
NilArg     == [k |-> "nil", g |-> 0, i |-> 0]    \* nil
BgArg      == [k |-> "bg",  g |-> 0, i |-> 0]    \* a context.Context that carries no id
ObjArg(id) == [k |-> "obj", g |-> 0, i |-> id]   \* application object, Cid() = id
CtxArg(c)  == [k |-> "ctx", g |-> c.g, i |-> c.i]\* library-made context c
NameOf(a)  == Name(a.g, a.i)
IsMade(c)  == c.g \in AllProcs /\ c.i \in 1..Len(ctxid[c.g])
Made       == UNION {{Name(g, i) : i \in 1..Len(ctxid[g])} : g \in AllProcs}
IdOf(c)    == ctxid[c.g][c.i]
OriginOf(c) == origin[c.g][c.i]
ArgOk(a)   == a.k = "ctx" => IsMade(NameOf(a))
HasId(a)   == a.k = "ctx" /\ IsMade(NameOf(a))

(* The prefix the property fixes: '[pid][cid]' for an id-carrying context,    *)
(* '[pid]' for nil (cid 0 = absent).  For a context.Context without id the    *)
(* property says nothing: not judged.                                         *)
SpecPrefix(a) == CASE a.k = "nil" -> [judged |-> TRUE,  pid |-> Pid, cid |-> 0]
                   [] a.k = "obj" -> [judged |-> TRUE,  pid |-> Pid, cid |-> a.i]
                   [] a.k = "ctx" -> [judged |-> TRUE,  pid |-> Pid, cid |-> IdOf(NameOf(a))]
                   [] OTHER       -> [judged |-> FALSE, pid |-> 0,   cid |-> 0]

(* Call form and message shape.  Inner(sh) = newlines in the rendered message that are *)
(* not at its end; everything else about a shape (empty, trailing newlines, CR, 4 KiB,  *)
(* 64 KiB) is a value class of the generator the specification treats alike.            *)
AllForms  == {"ln", "f"}
AllShapes == {"plain", "empty", "trail1", "trail2", "inner1", "inner2", "inner1trail1", "cr", "crlf",
              "long4k", "long64k", "long64kinner"}
Inner(sh) == CASE sh \in {"inner1", "inner1trail1", "crlf", "long64kinner"} -> 1
               [] sh = "inner2" -> 2
               [] OTHER -> 0
Plain     == [form |-> "ln", shape |-> "plain"]
\* value classes for ObjIds (a cfg file cannot write a negative number: ObjIds <- NegIds)
NegIds    == {0, -1}
WideIds   == {0, -1, -2147483647, 1, 1000, 2147483647}
Unsigned(id) == IF id < 0 THEN id + 65536 ELSE id

(* What a logging call writes.  Deviation C18/obj-cid-dropped (ObjCid = FALSE): *)
(* an application object is treated as if no context had been passed.          *)
(* Deviation C18/obj-cid-unsigned (SignedCid = FALSE): println-style only.      *)
Prefix(a, m) == IF a.k = "obj" /\ ~ObjCid THEN SpecPrefix(NilArg)
                ELSE IF a.k = "obj" /\ ~SignedCid /\ m.form = "ln" THEN [SpecPrefix(a) EXCEPT !.cid = Unsigned(a.i)]
                ELSE SpecPrefix(a)

(* How the operands of a logging call are passed.                             *)
Lit       == [k |-> "lit", b |-> 0, n |-> 0]     \* written out in the call: storage of the call itself
Win(b, n) == [k |-> "win", b |-> b, n |-> n]     \* buf[b][1..n], storage of the caller
Pristine(c)  == [j \in 1..c |-> j]               \* a buffer as the application filled it
Foreign      == 0
SrcOk(s)     == s.k = "win" => (s.b \in DOMAIN buf /\ s.n \in 0..Len(buf[s.b]))
Operands(s)  == IF s.k = "win" THEN SubSeq(buf[s.b], 1, s.n) ELSE <<>>   \* what the call reads (and prints)
Meant(s)     == IF s.k = "win" THEN Pristine(s.n) ELSE <<>>               \* what the application passed
\* the in-place insert of deviation C18/prefix-inserted-in-place on a slice with spare capacity
Shifted(cells, n) == <<Foreign>> \o SubSeq(cells, 1, n) \o SubSeq(cells, n + 2, Len(cells))

KeepAll(o, w)  == Append(o, w)
KeepLast(o, w) == <<w>>

Init == /\ next = FirstId - 1
        /\ used = {}
        /\ ctxid = [g \in AllProcs |-> <<>>] /\ origin = [g \in AllProcs |-> <<>>]
        /\ rd = [g \in AllProcs |-> Idle]
        /\ pend = [g \in AllProcs |-> <<>>]
        /\ nlog = [g \in AllProcs |-> 0]
        /\ out = <<>>
        /\ buf = [b \in Bufs |-> Pristine(Cap)]

(* ------------------------------ connection ids ---------------------------- *)
NewOrigin      == [how |-> "new",   g |-> 0,   i |-> 0]
AliasOrigin(s) == [how |-> "alias", g |-> s.g, i |-> s.i]

\* context c comes into existence carrying id: it is the next one of its goroutine
Create(c, id, how) == /\ c.g \in AllProcs /\ c.i = Len(ctxid[c.g]) + 1
                      /\ ctxid'  = [ctxid  EXCEPT ![c.g] = Append(@, id)]
                      /\ origin' = [origin EXCEPT ![c.g] = Append(@, how)]

\* id is handed out: a new connection's context c carries it
Hand(c, id) == /\ used' = used \cup {id}
               /\ Create(c, id, NewOrigin)

\* WithContext, the whole critical section in one step
NewAtomic(g, c) == /\ rd[g] = Idle /\ pend[g] = <<>>
                   /\ next' = next + 1
                   /\ Hand(c, next')
                   /\ UNCHANGED <<rd, pend, nlog, out, buf>>

\* deviation C18/cid-counter-race: load ...
ReadCounter(g) == /\ rd[g] = Idle /\ pend[g] = <<>>
                  /\ rd' = [rd EXCEPT ![g] = next + 1]      \* the value it is going to store
                  /\ UNCHANGED <<next, used, ctxid, origin, pend, nlog, out, buf>>
\* ... then store, whatever happened in between
WriteCounter(g, c) == /\ rd[g] # Idle
                      /\ next' = rd[g]
                      /\ Hand(c, rd[g])
                      /\ rd' = [rd EXCEPT ![g] = Idle]
                      /\ UNCHANGED <<pend, nlog, out, buf>>

New(g, c) == IF AtomicNew THEN NewAtomic(g, c)
             ELSE ReadCounter(g) \/ WriteCounter(g, c)

\* AliasContext(parent, source): the source's id, or a new one if it has none
\* (src is an argument: a made context, BgArg or NilArg)
Alias(g, c, src) ==
  IF HasId(src)
  THEN /\ rd[g] = Idle /\ pend[g] = <<>>
       /\ Create(c, IdOf(NameOf(src)), AliasOrigin(NameOf(src)))
       /\ UNCHANGED <<next, used, rd, pend, nlog, out, buf>>
  ELSE /\ src.k \in {"bg", "nil"}
       /\ New(g, c)

(* --------------------------------- logging -------------------------------- *)
Msg(g)  == [g |-> g, k |-> nlog[g] + 1]           \* unique per call
Line(g, level, a, s, m) == [kind |-> "line", level |-> level, pfx |-> Prefix(a, m), msg |-> Msg(g), arg |-> a,
                            src |-> s, ops |-> Operands(s), m |-> m, part |-> 0]
HeadOf(l) == [l EXCEPT !.kind = "head"]             \* label, time, prefix - no message, no newline
TailOf(l) == [l EXCEPT !.kind = "tail"]             \* message and newline only
PieceOf(l, j) == [l EXCEPT !.kind = "piece", !.part = j]   \* label, time, prefix, j-th piece of the message

\* Does the call put a prefix of its own before the operands?  (The deviation needs one to insert.)
HasPrefix(a) == a.k # "bg"

\* one logging call through `level` with context argument a and operands passed as s; routed =
\* the level's logger writes to the current writer (otherwise to the discard sink).  The argument
\* list is formatted whether or not the level is routed, so the deviation shows for discarded levels too.
LogCall(g, level, a, s, m, routed) ==
  /\ rd[g] = Idle /\ pend[g] = <<>>
  /\ ArgOk(a) /\ SrcOk(s)
  /\ nlog' = [nlog EXCEPT ![g] = @ + 1]
  /\ LET l == Line(g, level, a, s, m) IN
     IF ~routed THEN UNCHANGED <<out, pend>>
     ELSE IF ~AtomicLine
     THEN /\ out' = Sink(out, HeadOf(l))                             \* deviation C18/split-line
          /\ pend' = [pend EXCEPT ![g] = <<TailOf(l)>>]
     ELSE IF ~WholeMsg /\ Inner(m.shape) > 0
     THEN /\ out' = Sink(out, PieceOf(l, 1))                         \* deviation C18/split-at-newline
          /\ pend' = [pend EXCEPT ![g] = [j \in 1..Inner(m.shape) |-> PieceOf(l, j + 1)]]
     ELSE out' = Sink(out, l) /\ UNCHANGED pend                      \* the specification: one write
  /\ IF ~OwnStorage /\ s.k = "win" /\ HasPrefix(a) /\ s.n < Len(buf[s.b])
     THEN buf' = [buf EXCEPT ![s.b] = Shifted(@, s.n)]             \* deviation C18/prefix-inserted-in-place
     ELSE UNCHANGED buf                                            \* operands are only read
  /\ UNCHANGED idvars

WriteTail(g) == /\ pend[g] # <<>>
                /\ out' = Sink(out, pend[g][1])
                /\ pend' = [pend EXCEPT ![g] = Tail(@)]
                /\ UNCHANGED <<idvars, nlog, buf>>

Log(g, level, a, s, m) == LogCall(g, level, a, s, m, level \in Routed)

(* ---------------------------------- Next ---------------------------------- *)
NumMade(g) == Len(ctxid[g])
Fresh(g)   == Name(g, NumMade(g) + 1)
Sources    == {CtxArg(c) : c \in Made} \cup {BgArg, NilArg}
Srcs       == {Lit} \cup {Win(b, n) : b \in Bufs, n \in Wins}
Args       == {a \in {CtxArg(c) : c \in Made} \cup {NilArg, BgArg} \cup {ObjArg(id) : id \in ObjIds} : a.k \in ArgKinds}

Next == \E g \in Procs :
          \/ /\ NumMade(g) < MaxCtx
             /\ \/ New(g, Fresh(g))
                \/ \E s \in Sources : Alias(g, Fresh(g), s)
          \/ /\ nlog[g] < MaxLog
             /\ \E l \in Levels, a \in Args, s \in Srcs, f \in Forms, sh \in Shapes :
                   Log(g, l, a, s, [form |-> f, shape |-> sh])
          \/ WriteTail(g)

Spec == Init /\ [][Next]_vars

(* ------------------------------- the property ----------------------------- *)
IsNew(c) == OriginOf(c).how = "new"

\* every context made for a new connection carries an id no other one carries
Unique == \A c1, c2 \in Made : (IsNew(c1) /\ IsNew(c2) /\ c1 # c2) => IdOf(c1) # IdOf(c2)

\* an aliased context carries exactly its source's id
AliasSame == \A c \in Made : OriginOf(c).how = "alias" => IdOf(c) = IdOf(Name(OriginOf(c).g, OriginOf(c).i))

\* every write at the writer is one whole line, its cid the passed context's, its message made of
\* the operands the application passed
WholeLines == \A i \in 1..Len(out) :
                /\ out[i].kind = "line"
                /\ out[i].pfx = SpecPrefix(out[i].arg)
                /\ out[i].level \in Routed
                /\ out[i].ops = Meant(out[i].src)

\* never interleaved with another goroutine's line: whatever one call writes is adjacent at the writer
\* (implied by WholeLines and OnePerCall - one write per call -; stated on its own for the deviations)
Adjacent == \A i, k \in 1..Len(out) : (i < k /\ out[i].msg = out[k].msg) => \A j \in i..k : out[j].msg = out[i].msg

\* a logging call leaves the caller's operands - the whole backing array, not only the window it was
\* given - as the application filled them.  This is what makes `one line with the right prefix and
\* message` hold for the NEXT call with the same slice, and what makes read-only sharing of a slice
\* between goroutines free of data races: nobody writes.
OperandsUntouched == \A b \in DOMAIN buf : buf[b] = Pristine(Len(buf[b]))

\* exactly one line per (routed) call: messages are unique per call, so no message twice
\* and every line belongs to a call that was made
OnePerCall == /\ \A i, j \in 1..Len(out) : (i # j /\ out[i].kind = out[j].kind) => out[i].msg # out[j].msg
              /\ \A i \in 1..Len(out) : out[i].msg.k <= nlog[out[i].msg.g]

\* bookkeeping that ties the variables together (not part of the property)
CounterOk == /\ used = {IdOf(c) : c \in {d \in Made : IsNew(d)}}
             /\ \A id \in used : FirstId <= id /\ id <= next
             /\ AtomicNew => next = FirstId - 1 + Cardinality({c \in Made : IsNew(c)})

TypeOK == /\ next \in Nat /\ used \subseteq Nat
          /\ \A g \in AllProcs : Len(origin[g]) = Len(ctxid[g])
          /\ \A c \in Made : IdOf(c) \in Nat /\ IdOf(c) >= FirstId
          /\ \A g \in AllProcs : rd[g] \in Nat /\ nlog[g] \in Nat /\ Len(pend[g]) <= 2
          /\ \A b \in DOMAIN buf : \A j \in 1..Len(buf[b]) : buf[b][j] \in 0..Len(buf[b])
=============================================================================
