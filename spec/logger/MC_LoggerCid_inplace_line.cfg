\* Non-vacuity, the history the deviation C18/prefix-inserted-in-place needs to show AT THE WRITER: with
\* OperandsUntouched not looked at, TLC must report WholeLines violated - by the SECOND call that is given
\* the same slice (same goroutine or another one), never by the first; windows that fill the capacity
\* (n = Cap) never show it.
SPECIFICATION Spec
CONSTANTS
  N = 2
  MaxCtx = 0
  MaxLog = 2
  Levels = {"trace"}
  ArgKinds = {"nil", "obj"}
  ObjIds = {1000}
  Pid = 7
  AtomicNew = TRUE
  AtomicLine = TRUE
  ObjCid = TRUE
  Bufs = {1}
  Cap = 3
  Wins = {2, 3}
  OwnStorage = FALSE
  Forms = {"ln"}
  Shapes = {"plain"}
  WholeMsg = TRUE
  SignedCid = TRUE
  Sink <- KeepAll
INVARIANTS WholeLines
CHECK_DEADLOCK FALSE
