\* Non-vacuity: named deviation C18/prefix-inserted-in-place (OwnStorage = FALSE: the prefix is inserted
\* into the caller's slice when it has spare capacity). TLC must report OperandsUntouched violated
\* (one call is enough: the caller's cells are shifted although the line of that call is right).
SPECIFICATION Spec
CONSTANTS
  N = 2
  MaxCtx = 0
  MaxLog = 2
  Levels = {"trace"}
  ArgKinds = {"nil", "obj"}
  ObjIds = {1000}
  Pid = 7
  AtomicNew = TRUE
  AtomicLine = TRUE
  ObjCid = TRUE
  Bufs = {1}
  Cap = 3
  Wins = {2, 3}
  OwnStorage = FALSE
  Forms = {"ln"}
  Shapes = {"plain"}
  WholeMsg = TRUE
  SignedCid = TRUE
  Sink <- KeepAll
INVARIANTS OperandsUntouched
CHECK_DEADLOCK FALSE
