INIT GenInit
NEXT GenNext
CONSTANTS
  Goroutines = {8, 32}
  Calls = {2400}
  Reps = {1}
  Shared = {2}
  MixNames = {"create", "log", "balanced"}
  Closers = {}
INVARIANT Emit
CHECK_DEADLOCK FALSE
