INIT GenInit
NEXT GenNext
CONSTANTS
  Goroutines = {8, 32}
  Calls = {2400}
  Reps = {1}
  Shared = {2}
  MixNames = {"create", "log", "balanced"}
  OpndNames = {"mixed"}
  Caps = {1, 2, 3, 5, 9}
  Shapes = {"plain", "empty", "trail1", "trail2", "inner1", "inner2", "inner1trail1", "cr", "crlf", "long4k", "long64k", "long64kinner"}
  ObjIdClasses = {"zero", "minus1", "negative", "minint32", "maxint32", "minint64", "maxint64", "small", "librange", "random"}
  Closers = {}
INVARIANT Emit
CHECK_DEADLOCK FALSE
