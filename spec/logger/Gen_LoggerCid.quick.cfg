INIT GenInit
NEXT GenNext
CONSTANTS
  Goroutines = {8, 32}
  Calls = {2400}
  Reps = {1}
  Shared = {2}
  MixNames = {"create", "log", "balanced"}
  OpndNames = {"mixed"}
  Caps = {1, 2, 3, 5, 9}
  Closers = {}
INVARIANT Emit
CHECK_DEADLOCK FALSE
