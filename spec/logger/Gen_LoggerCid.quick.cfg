INIT GenInit
NEXT GenNext
CONSTANTS
  Goroutines = {8, 32}
  Ops = {150}
  Shared = {2}
  MixNames = {"create", "log", "balanced"}
  Closers = {}
INVARIANT Emit
CHECK_DEADLOCK FALSE
