SPECIFICATION Spec
CONSTANTS
  SigAlgs <- DevSigAlgs
  KmAlgs <- DevKmAlgs
  Encs <- DevEncs
  Zips <- McZips
  Forms <- McForms
  Sizes = {17}
  AadSizes = {0, 20}
  PayClasses = {"pattern"}
  KeyVars = {"plain"}
  Deviation = "reserialised-header"
INVARIANTS AcceptIff
CHECK_DEADLOCK FALSE
