-------------------------------- MODULE Jose --------------------------------
(* JOSE objects (RFC 7515 JWS, RFC 7516 JWE, RFC 7518 JWA) as a symbolic     *)
(* state machine shaped like the library's API:                               *)
(*     Sign / Encrypt  ->  Serialize(compact | json)  ->  [Tamper(field)]     *)
(*                     ->  Parse  ->  Verify(key') / Decrypt(key')            *)
(* The cryptography is UNINTERPRETED: keys are atoms, a signature, a wrapped  *)
(* key, a ciphertext and an authentication tag are constructor terms over     *)
(* exactly the inputs the RFCs say they are computed from, and a check        *)
(* succeeds iff the recomputed term equals the received one (perfect          *)
(* cryptography).  What the module does specify:                              *)
(*   - the algorithm matrix of RFC 7518 (12 signature algorithms, the 14 key  *)
(*     management algorithms this library implements - no PBES2 -, 6 content  *)
(*     encryptions, zip in {none, DEF}) with the key kind/size each needs;    *)
(*   - the fields an object carries in each serialization (HasField);         *)
(*   - which bytes are authenticated: the JWS signing input is                *)
(*     b64(protected bytes AS RECEIVED) '.' b64(payload); the JWE AAD is      *)
(*     b64(protected bytes AS RECEIVED) [ '.' b64(aad) ]; the tag covers      *)
(*     aad, iv and ciphertext; the wrapped key is integrity protected by its  *)
(*     own algorithm (or replaced by a random CEK for RSA1_5, RFC 3218);      *)
(*   - the oracle Accept = nothing tampered /\ same key, stated as            *)
(*     invariants over every behaviour.                                       *)
(* Named deviations (CONSTANT Deviation) switch on realistic wrong            *)
(* behaviours; the MC_Jose_dev_*.cfg runs show the invariants catch them.     *)
EXTENDS Naturals, Sequences, FiniteSets

CONSTANTS
  SigAlgs,    \* signature algorithms explored        (subset of AllSigAlgs)
  KmAlgs,     \* key management algorithms explored   (subset of AllKmAlgs)
  Encs,       \* content encryptions explored         (subset of AllEncs)
  Zips,       \* subset of {"", "DEF"}
  Forms,      \* subset of {"compact", "json"}
  Sizes,      \* payload size classes (bytes)
  AadSizes,   \* additional authenticated data sizes, 0 = no aad
  PayClasses, \* payload CONTENT classes explored (subset of AllPayClasses)
  KeyVars,    \* variants of the object's symmetric key (subset of AllKeyVars)
  Deviation   \* "none" | "aad-not-authenticated" | "reserialised-header" | "inflate-skipped"
              \* | "open-consumes-object" | "shared-entry-header" (histories and several parties: JoseHist.tla)
              \* | "unpad-greedy" | "key-resized" (values: what the payload ends in, how a wrong key relates to the right one)

VARIABLES pc, obj, form, wire, tampered, kc, result
vars == <<pc, obj, form, wire, tampered, kc, result>>

\* ------------------------------------------------- RFC 7518 tables (fixed)
AllSigAlgs == {"HS256", "HS384", "HS512", "RS256", "RS384", "RS512",
               "PS256", "PS384", "PS512", "ES256", "ES384", "ES512"}
AllKmAlgs  == {"RSA1_5", "RSA-OAEP", "RSA-OAEP-256", "A128KW", "A192KW", "A256KW", "dir",
               "ECDH-ES", "ECDH-ES+A128KW", "ECDH-ES+A192KW", "ECDH-ES+A256KW",
               "A128GCMKW", "A192GCMKW", "A256GCMKW"}
AllEncs    == {"A128CBC-HS256", "A192CBC-HS384", "A256CBC-HS512", "A128GCM", "A192GCM", "A256GCM"}
AllZips    == {"", "DEF"}

\* key kinds: symmetric keys by length in bytes, one RSA modulus size, the three NIST curves
OctKinds == {"oct16", "oct24", "oct32", "oct48", "oct64"}
EcKinds  == {"P-256", "P-384", "P-521"}
KeyKinds == OctKinds \cup {"RSA2048"} \cup EcKinds
OctBytes(k) == CASE k = "oct16" -> 16 [] k = "oct24" -> 24 [] k = "oct32" -> 32
                 [] k = "oct48" -> 48 [] k = "oct64" -> 64
OctKind(n)  == CHOOSE k \in OctKinds : OctBytes(k) = n

\* RFC 7518 3.1: "alg" values for JWS.  3.2: an HMAC key of the size of the hash output
\* or larger MUST be used; 3.3/3.5: RSA keys of 2048 bits or larger; 3.4: the curve is fixed.
HashBytes(alg) == CASE alg \in {"HS256", "RS256", "PS256", "ES256"} -> 32
                    [] alg \in {"HS384", "RS384", "PS384", "ES384"} -> 48
                    [] alg \in {"HS512", "RS512", "PS512", "ES512"} -> 64
SigApplicable(alg, kind) ==
  CASE alg \in {"HS256", "HS384", "HS512"} -> kind \in OctKinds /\ OctBytes(kind) >= HashBytes(alg)
    [] alg \in {"RS256", "RS384", "RS512", "PS256", "PS384", "PS512"} -> kind = "RSA2048"
    [] alg = "ES256" -> kind = "P-256"
    [] alg = "ES384" -> kind = "P-384"
    [] alg = "ES512" -> kind = "P-521"
    [] OTHER -> FALSE
\* ECDSA signature = R || S, each of the curve's coordinate size (RFC 7518 3.4); JWK coordinates too (6.2.1.2)
CoordBytes(crv) == CASE crv = "P-256" -> 32 [] crv = "P-384" -> 48 [] crv = "P-521" -> 66

\* RFC 7518 5.1: "enc" values; CEK, IV and tag sizes (5.2.3-5.2.5, 5.3)
CekBytes(enc) == CASE enc = "A128CBC-HS256" -> 32 [] enc = "A192CBC-HS384" -> 48 [] enc = "A256CBC-HS512" -> 64
                   [] enc = "A128GCM" -> 16 [] enc = "A192GCM" -> 24 [] enc = "A256GCM" -> 32
IsCbc(enc)    == enc \in {"A128CBC-HS256", "A192CBC-HS384", "A256CBC-HS512"}
IvBytes(enc)  == IF IsCbc(enc) THEN 16 ELSE 12
\* ciphertext length for an n byte plaintext: CBC pads with PKCS#7 to the next block, GCM is a stream
CtBytes(enc, n) == IF IsCbc(enc) THEN 16 * (n \div 16 + 1) ELSE n

\* RFC 7518 4.1: "alg" values for JWE
IsRsaKm(km) == km \in {"RSA1_5", "RSA-OAEP", "RSA-OAEP-256"}
IsEcdh(km)  == km \in {"ECDH-ES", "ECDH-ES+A128KW", "ECDH-ES+A192KW", "ECDH-ES+A256KW"}
Direct(km)  == km \in {"dir", "ECDH-ES"}          \* the CEK is agreed, not transported: empty encrypted_key
KekBytes(km) == CASE km \in {"A128KW", "A128GCMKW", "ECDH-ES+A128KW"} -> 16
                  [] km \in {"A192KW", "A192GCMKW", "ECDH-ES+A192KW"} -> 24
                  [] km \in {"A256KW", "A256GCMKW", "ECDH-ES+A256KW"} -> 32
KmApplicable(km, enc, kind) ==
  CASE IsRsaKm(km) -> kind = "RSA2048"
    [] km \in {"A128KW", "A192KW", "A256KW", "A128GCMKW", "A192GCMKW", "A256GCMKW"} ->
          kind \in OctKinds /\ OctBytes(kind) = KekBytes(km)
    [] km = "dir" -> kind \in OctKinds /\ OctBytes(kind) = CekBytes(enc)   \* the shared key IS the CEK
    [] IsEcdh(km) -> kind \in EcKinds
    [] OTHER -> FALSE
\* size of the JWE Encrypted Key: RSA - the modulus; AES key wrap - CEK + 8 (RFC 3394);
\* AES-GCM key wrap - the CEK (its iv and tag travel in the header); direct modes - empty
EncryptedKeyBytes(km, enc) ==
  CASE IsRsaKm(km) -> 256
    [] km \in {"A128KW", "A192KW", "A256KW", "ECDH-ES+A128KW", "ECDH-ES+A192KW", "ECDH-ES+A256KW"} -> CekBytes(enc) + 8
    [] km \in {"A128GCMKW", "A192GCMKW", "A256GCMKW"} -> CekBytes(enc)
    [] Direct(km) -> 0

ASSUME /\ Cardinality(AllSigAlgs) = 12 /\ Cardinality(AllKmAlgs) = 14 /\ Cardinality(AllEncs) = 6
       /\ SigAlgs \subseteq AllSigAlgs /\ KmAlgs \subseteq AllKmAlgs /\ Encs \subseteq AllEncs
       /\ Zips \subseteq AllZips /\ Forms \subseteq {"compact", "json"}
       /\ \A a \in AllSigAlgs : \E k \in KeyKinds : SigApplicable(a, k)
       /\ \A a \in AllKmAlgs, e \in AllEncs : \E k \in KeyKinds : KmApplicable(a, e, k)
       /\ Deviation \in {"none", "aad-not-authenticated", "reserialised-header", "inflate-skipped",
                         "open-consumes-object", "shared-entry-header",   \* these two: JoseHist.tla
                         "unpad-greedy", "key-resized",
                         "producer-header-cached"}                        \* JoseProd.tla

\* ------------------------------------------------------------ value classes
\* The property quantifies over payloads and keys, and some VALUES are special to the encodings on the way:
\* CBC (RFC 7518 5.2.2.1) pads the plaintext with PKCS #7 (RFC 5652 6.3): v = 16 - (n mod 16) octets of value v.
\* A payload whose own tail looks like that padding - its last octet is the v its length produces - must come
\* back whole.  A payload is n octets of a seeded pattern whose last TailRun octets have the value TailVal:
AllPayClasses == {"pattern", "pad1", "padrun", "allpad", "ones", "zeros"}
PadValue(n)   == 16 - (n % 16)
Min2(a, b)    == IF a < b THEN a ELSE b
TailVal(c, n) == CASE c \in {"pad1", "padrun", "allpad"} -> PadValue(n)   \* what PKCS #7 would append to n octets
                   [] c = "ones" -> 1 [] c = "zeros" -> 0 [] OTHER -> 0
TailRun(c, n) == CASE c = "pattern" -> 0
                   [] c = "pad1"   -> 1                              \* the last octet alone
                   [] c = "padrun" -> Min2(n, PadValue(n))           \* a whole would-be padding
                   [] OTHER        -> n                              \* every octet (n = 16, allpad: a block of 0x10)
EndsLikePadding(p) == p.t = "payload" /\ TailRun(p.cls, p.n) > 0 /\ TailVal(p.cls, p.n) = PadValue(p.n)

\* A "different key" need not have the same length.  For a symmetric key K of n octets (the input of dir, AxxxKW,
\* AxxxGCMKW, HSxxx) the wrong keys that are RELATED to K: K followed by more octets (one; n more - the size a
\* sibling algorithm takes), K followed by zero octets, a prefix of K (all but one octet; half).  Key variant "tz":
\* the second half of K is zero octets, so that a prefix of K is K without trailing zeros.
AllKeyVars == {"plain", "tz"}
KeyRels    == {"ext1", "extdouble", "zeroext1", "zerodouble", "trunc1", "trunchalf"}
\* <<octets of K kept, zero octets appended, seeded octets (the last one non-zero) appended>>
RelForm(r, n) == CASE r = "ext1"       -> <<n, 0, 1>>  [] r = "extdouble"  -> <<n, 0, n>>
                   [] r = "zeroext1"   -> <<n, 1, 0>>  [] r = "zerodouble" -> <<n, n, 0>>
                   [] r = "trunc1"     -> <<n - 1, 0, 0>> [] r = "trunchalf" -> <<n \div 2, 0, 0>>
                   [] OTHER            -> <<0, 0, 0>>
\* RFC 2104 section 2: an HMAC key shorter than the block is padded with zeros - K and K || 0.. ARE one HMAC key
\* (no verifier can tell them apart), so nothing is claimed about zero-extension / zero-stripping for HSxxx
RelApplicable(o, r) == o.kind = "jws" => r \notin {"zeroext1", "zerodouble"}
ASSUME PayClasses \subseteq AllPayClasses /\ KeyVars \subseteq AllKeyVars
KeyChoices(o) == {"same", "other"} \cup (IF o.keykind \in OctKinds THEN {r \in KeyRels : RelApplicable(o, r)} ELSE {})

\* ------------------------------------------------------------------ objects
\* What the application asks for.  profile "acme" = the way /repo/https/acme signs a request:
\* nonce source, embedded public JWK, JSON serialization.
JwsObjects ==
  { [kind |-> "jws", alg |-> a, enc |-> "", zip |-> "", keykind |-> k, size |-> n, aad |-> 0, profile |-> p,
     pcls |-> c, keyvar |-> "plain"] :
      a \in SigAlgs, k \in KeyKinds, n \in Sizes, p \in {"plain", "acme"}, c \in PayClasses }
JweObjects ==
  { [kind |-> "jwe", alg |-> a, enc |-> e, zip |-> z, keykind |-> k, size |-> n, aad |-> d, profile |-> "plain",
     pcls |-> c, keyvar |-> kv] :
      a \in KmAlgs, e \in Encs, z \in Zips, k \in KeyKinds, n \in Sizes, d \in AadSizes, c \in PayClasses, kv \in KeyVars }
\* the ACME client signs with RS256, or ES256/ES384 according to the account key's curve
Legal(o) ==
  /\ IF o.kind = "jws"
     THEN SigApplicable(o.alg, o.keykind) /\ (o.profile = "acme" => o.alg \in {"RS256", "ES256", "ES384"})
     ELSE KmApplicable(o.alg, o.enc, o.keykind)
  /\ o.pcls # "pattern" => o.size > 0                                 \* an empty payload has no tail
  /\ o.keyvar = "tz" => (o.kind = "jwe" /\ o.keykind \in OctKinds)     \* HMAC: see RelApplicable
Objects == { o \in JwsObjects \cup JweObjects : Legal(o) }

\* RFC 7516 7.1: the compact serialization has no place for aad (nor for unprotected members)
Representable(o, f) == f = "compact" => (o.aad = 0 /\ o.profile # "acme")

JwsFields == {"protected", "payload", "signature"}
JweFields == {"protected", "encrypted_key", "iv", "ciphertext", "tag", "aad"}
\* the fields an object really carries in a serialization
HasField(o, f, fld) ==
  IF o.kind = "jws" THEN fld \in JwsFields
  ELSE CASE fld = "encrypted_key" -> ~Direct(o.alg)
         [] fld = "aad"           -> f = "json" /\ o.aad > 0
         [] OTHER                 -> fld \in JweFields
\* byte length class of a carried field: only "is there a bit to flip" is needed
NonEmpty(o, fld) ==
  CASE fld = "payload"    -> o.size > 0
    [] fld = "ciphertext" -> o.zip = "DEF" \/ CtBytes(o.enc, o.size) > 0   \* a DEFLATE stream is never empty
    [] OTHER              -> TRUE

\* -------------------------------------------------------- constructor terms
K1 == "k1"   \* the key the object is made for
K2 == "k2"   \* another key of the same kind and size
\* the atom of a related wrong key says how it relates; a prefix of a "tz" key is that key without trailing zeros
KeyOf(o, choice) == CASE choice = "same" -> K1 [] choice = "other" -> K2
                      [] choice \in {"trunc1", "trunchalf"} /\ o.keyvar = "tz" -> "zerostripped"
                      [] OTHER -> choice
\* a key is the key it is - unless the recipient cuts / zero-fills whatever it is given to the size it wants
FitKey(k) == IF Deviation = "key-resized" /\ k \in {"ext1", "extdouble", "zeroext1", "zerodouble", "zerostripped"}
             THEN K1 ELSE k

Pay(o)  == [t |-> "payload", n |-> o.size, cls |-> o.pcls]
Aad(o)  == IF o.aad > 0 THEN [t |-> "aad", n |-> o.aad] ELSE [t |-> "absent"]
Absent  == [t |-> "absent"]
Bad     == [t |-> "bad"]
Fail    == [t |-> "fail"]
\* header members (RFC 7515 4, RFC 7516 4): the ones verification depends on
HdrOf(o)    == [alg |-> o.alg, enc |-> o.enc, zip |-> o.zip,
                epk |-> IF o.kind = "jwe" /\ IsEcdh(o.alg) THEN "epk" ELSE ""]
HdrBytes(m) == [t |-> "hdr", m |-> m]                        \* the producer's serialization of the members
Flip(x, c)  == [t |-> "flip", of |-> x, c |-> c]             \* x with one bit changed, c = what the bit hit

\* RS256/PS256 (etc.) are one bit apart: 'R' = 0x52, 'P' = 0x50
Sibling(alg) == CASE alg = "RS256" -> "PS256" [] alg = "PS256" -> "RS256"
                  [] alg = "RS384" -> "PS384" [] alg = "PS384" -> "RS384"
                  [] alg = "RS512" -> "PS512" [] alg = "PS512" -> "RS512"
                  [] OTHER -> "?"
\* What a JSON parser makes of the protected header bytes.  A flipped bit either breaks the
\* syntax, or changes a member ("alg" to the sibling algorithm or to an unknown one), or hits
\* a place that parses to the same members (member names are matched case-insensitively by
\* Go's encoding/json: "alg" -> "Alg").
HdrClasses == {"syntax", "alg", "case"}
ParseHdr(raw) ==
  CASE raw.t = "hdr" -> raw.m
    [] raw.t = "flip" /\ raw.c = "case" -> raw.of.m
    [] raw.t = "flip" /\ raw.c = "alg"  -> [raw.of.m EXCEPT !.alg = Sibling(@)]
    [] OTHER -> Bad
\* the protected header octets that enter the signing input / the AAD
AuthHdr(raw) ==
  IF Deviation = "reserialised-header" /\ ParseHdr(raw) # Bad THEN HdrBytes(ParseHdr(raw)) ELSE raw

SigTerm(alg, k, in) == [t |-> "sig", alg |-> alg, k |-> k, in |-> in]
Wrap(km, kek, cek)  == [t |-> "wrap", km |-> km, kek |-> kek, cek |-> cek]
KeyTerm(k)          == [t |-> "key", k |-> k]
Kdf(k, epk, id)     == [t |-> "kdf", k |-> k, epk |-> epk, id |-> id]   \* ECDH + Concat KDF, RFC 7518 4.6.2
Zip(z, p)           == IF z = "DEF" THEN [t |-> "deflate", of |-> p] ELSE p
Unzip(z, x)         == IF z = "DEF" /\ Deviation # "inflate-skipped" THEN x.of ELSE x
\* what the content cipher is given and gives back: CBC pads and un-pads (exactly the padding it appended)
Padded(enc, x)      == IF IsCbc(enc) THEN [t |-> "padded", of |-> x] ELSE x
Unpadded(y)         == IF y.t # "padded" THEN y
                       ELSE IF Deviation = "unpad-greedy" /\ EndsLikePadding(y.of) THEN [t |-> "shortened", of |-> y.of]
                       ELSE y.of
Plain(enc, z, p)    == Padded(enc, Zip(z, p))
Recover(z, pt)      == Unzip(z, Unpadded(pt))
AuthData(hraw, aad) == IF Deviation = "aad-not-authenticated" THEN <<hraw>> ELSE <<hraw, aad>>
CtTerm(enc, cek, iv, pt)      == [t |-> "ct", enc |-> enc, cek |-> cek, iv |-> iv, pt |-> pt]
TagTerm(enc, cek, iv, ad, ct) == [t |-> "tag", enc |-> enc, cek |-> cek, iv |-> iv, ad |-> ad, ct |-> ct]

Ok(p, a) == [ok |-> TRUE, payload |-> p, aad |-> a]
Err(w)   == [ok |-> FALSE, why |-> w]

\* ------------------------------------------------- the API steps as operators
\* Sign: signature over b64(protected) '.' b64(payload)  (RFC 7515 5.1)
MakeJws(o) ==
  LET h == HdrBytes(HdrOf(o))
  IN [protected |-> h, payload |-> Pay(o), signature |-> SigTerm(o.alg, K1, <<h, Pay(o)>>)]

\* the key-encryption key / the agreed CEK of a recipient holding key k, given the header members
Kek(m, k) == IF IsEcdh(m.alg) THEN Kdf(k, m.epk, m.alg) ELSE KeyTerm(k)
\* Encrypt (RFC 7516 5.1): CEK, encrypted key, iv, ciphertext and tag over the AAD
MakeJwe(o) ==
  LET m   == HdrOf(o)
      h   == HdrBytes(m)
      cek == CASE o.alg = "dir"     -> KeyTerm(K1)
               [] o.alg = "ECDH-ES" -> Kdf(K1, m.epk, m.enc)
               [] OTHER             -> [t |-> "cek"]
      iv  == [t |-> "iv"]
      ct  == CtTerm(o.enc, cek, iv, Plain(o.enc, o.zip, Pay(o)))
  IN [protected     |-> h,
      encrypted_key |-> IF Direct(o.alg) THEN Absent ELSE Wrap(o.alg, Kek(m, K1), cek),
      iv            |-> iv,
      ciphertext    |-> ct,
      tag           |-> TagTerm(o.enc, cek, iv, AuthData(h, Aad(o)), ct),
      aad           |-> Aad(o)]
Make(o) == IF o.kind = "jws" THEN MakeJws(o) ELSE MakeJwe(o)

\* Serialize: the fields the form carries (everything else is lost)
SerializeOp(o, f) == LET made == Make(o)
                     IN [fld \in {x \in DOMAIN made : HasField(o, f, x)} |-> made[fld]]
Tamperable(o, f)  == {fld \in JwsFields \cup JweFields : HasField(o, f, fld) /\ NonEmpty(o, fld)}
Classes(fld)      == IF fld = "protected" THEN HdrClasses ELSE {"bits"}
TamperOp(w, fld, c) == [w EXCEPT ![fld] = Flip(@, c)]
Get(w, fld)       == IF fld \in DOMAIN w THEN w[fld] ELSE Absent

\* Verify (RFC 7515 5.2): recompute over the RECEIVED protected octets and payload
VerifyJws(w, k) ==
  LET m == ParseHdr(w.protected)
  IN IF m = Bad THEN Err("parse")
     ELSE IF m.alg \notin AllSigAlgs THEN Err("alg")
     ELSE IF w.signature = SigTerm(m.alg, k, <<AuthHdr(w.protected), w.payload>>)
          THEN Ok(w.payload, Absent) ELSE Err("crypto")

\* Decrypt (RFC 7516 5.2)
RecipientCek(m, k, ek) ==
  CASE m.alg = "dir"     -> KeyTerm(FitKey(k))
    [] m.alg = "ECDH-ES" -> Kdf(k, m.epk, m.enc)
    [] OTHER ->
        IF ek.t = "wrap" /\ ek.km = m.alg /\ ek.kek = Kek(m, k) THEN ek.cek
        ELSE IF m.alg = "RSA1_5" THEN [t |-> "random-cek"]   \* RFC 3218 / RFC 7516 11.5: never an oracle
        ELSE Fail
DecryptJwe(w, k) ==
  LET m == ParseHdr(w.protected)
  IN IF m = Bad THEN Err("parse")
     ELSE IF m.alg \notin AllKmAlgs THEN Err("alg")
     ELSE LET cek == RecipientCek(m, k, Get(w, "encrypted_key"))
              ad  == AuthData(AuthHdr(w.protected), Get(w, "aad"))
          IN IF cek = Fail THEN Err("unwrap")
             ELSE IF w.tag = TagTerm(m.enc, cek, w.iv, ad, w.ciphertext)
                  THEN Ok(Recover(m.zip, w.ciphertext.pt), Get(w, "aad"))
                  ELSE Err("crypto")
Open(o, w, k) == IF o.kind = "jws" THEN VerifyJws(w, k) ELSE DecryptJwe(w, k)

\* a whole run, used by the case generator: the same operators the actions apply one by one
Pipeline(o, f, fld, c, choice) ==
  LET w0 == SerializeOp(o, f)
      w1 == IF fld = "none" THEN w0 ELSE TamperOp(w0, fld, c)
  IN Open(o, w1, KeyOf(o, choice))

\* ------------------------------------------------------------ state machine
Init == /\ pc = "new" /\ obj \in Objects /\ form \in Forms /\ Representable(obj, form)
        /\ wire = <<>> /\ tampered = {} /\ kc = "none" /\ result = <<>>

\* Sign / Encrypt + CompactSerialize / FullSerialize
ProduceAndSerialize ==
  /\ pc = "new" /\ pc' = "wire" /\ wire' = SerializeOp(obj, form)
  /\ UNCHANGED <<obj, form, tampered, kc, result>>
\* an attacker changes one bit of one field that is there
Tamper(fld, c) ==
  /\ pc = "wire" /\ tampered = {} /\ fld \in Tamperable(obj, form) /\ c \in Classes(fld)
  /\ wire' = TamperOp(wire, fld, c) /\ tampered' = {fld}
  /\ UNCHANGED <<pc, obj, form, kc, result>>
\* ParseSigned / ParseEncrypted followed by Verify / Decrypt with the same or another key
ParseAndOpen(choice) ==
  /\ pc = "wire" /\ pc' = "done" /\ kc' = choice
  /\ choice \in KeyChoices(obj)
  /\ result' = Open(obj, wire, KeyOf(obj, choice))
  /\ UNCHANGED <<obj, form, wire, tampered>>
Next == \/ ProduceAndSerialize
        \/ \E fld \in JwsFields \cup JweFields, c \in HdrClasses \cup {"bits"} : Tamper(fld, c)
        \/ \E choice \in {"same", "other"} \cup KeyRels : ParseAndOpen(choice)
Spec == Init /\ [][Next]_vars

\* -------------------------------------------------------------- properties
Accept == tampered = {} /\ kc = "same"
\* verification / decryption succeeds exactly if nothing was tampered with and the key is the right one
AcceptIff     == pc = "done" => (result.ok <=> Accept)
\* ... and then returns exactly the original payload and authenticated data
PayloadIntact == (pc = "done" /\ result.ok) => (result.payload = Pay(obj) /\ result.aad = Aad(obj))
\* every legal object round-trips in every form that can represent it (no vacuous Accept)
RoundTrip     == (pc = "done" /\ Accept) => result = Ok(Pay(obj), Aad(obj))

\* ----------------------------------------------------------------- JWK part
\* RFC 7517/7518 6: members of a key; RFC 7638 3.2: required members in lexicographic order
Kty(kind) == IF kind \in OctKinds THEN "oct" ELSE IF kind = "RSA2048" THEN "RSA" ELSE "EC"
Template(kty) == CASE kty = "EC"  -> <<"crv", "kty", "x", "y">>
                   [] kty = "RSA" -> <<"e", "kty", "n">>
                   [] kty = "oct" -> <<"k", "kty">>
PrivateMembers(kty) == CASE kty = "EC" -> {"d"} [] kty = "RSA" -> {"d", "p", "q"} [] kty = "oct" -> {}
=============================================================================
