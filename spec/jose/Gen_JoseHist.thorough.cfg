INIT GenInit
NEXT GenNext
CONSTANTS
  SigAlgs <- GenSigAlgs
  KmAlgs <- GenKmAlgs
  Encs <- GenEncs
  Zips <- GenZips
  Forms <- GenForms
  Sizes = {0, 17}
  AadSizes = {0, 20}
  MaxParties = 3
  HistLen = 8
  JwsEmbeds = {TRUE, FALSE}
  OpenLen = 3
  OpenLenMulti = 2
  MultiSizes = {17}
  JweSizes = {17}
  EmbedsOf3 = {TRUE}
  EcdhCurves3 = {"P-256", "P-521"}
  MultiSig <- GenSigAlgs
  MultiSig3 <- ThoroughMultiSig3
  MultiKm <- NonDirectKms
  MultiKm3 <- ThoroughMultiKm3
  MultiEncs <- QuickMultiEncs
  MultiEncs3 <- QuickMultiEncs
  MultiZips = {""}
  MultiAads = {0}
  EcdhCurves = {"P-384", "P-521"}
  ReserAll = FALSE
  Flips = 2
  PayClasses = {"pattern"}
  KeyVars = {"plain"}
  Deviation = "none"
INVARIANT Emit
CHECK_DEADLOCK FALSE
