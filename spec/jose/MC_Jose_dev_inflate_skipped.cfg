SPECIFICATION Spec
CONSTANTS
  SigAlgs <- DevSigAlgs
  KmAlgs <- DevKmAlgs
  Encs <- DevEncs
  Zips <- McZips
  Forms <- McForms
  Sizes = {17}
  AadSizes = {0, 20}
  PayClasses = {"pattern"}
  KeyVars = {"plain"}
  Deviation = "inflate-skipped"
INVARIANTS PayloadIntact
CHECK_DEADLOCK FALSE
