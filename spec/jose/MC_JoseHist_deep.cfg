SPECIFICATION HSpec
CONSTANTS
  SigAlgs <- TSigAlgs
  KmAlgs <- TKmAlgs
  Encs <- TEncs
  Zips <- TZips
  Forms <- HForms
  Sizes = {17}
  AadSizes = {0}
  MaxParties = 3
  HistLen = 3
  JwsEmbeds = {TRUE}
  PayClasses = {"pattern"}
  KeyVars = {"plain"}
  Deviation = "none"
INVARIANTS HistoryFree HAcceptOnlyIf HRoundTrip HPayloadIntact
CHECK_DEADLOCK FALSE
