SPECIFICATION Spec
CONSTANTS
  SigAlgs <- McSigAlgs
  KmAlgs <- McKmAlgs
  Encs <- McEncs
  Zips <- McZips
  Forms <- McForms
  Sizes = {0, 17}
  AadSizes = {0, 20}
  PayClasses = {"pattern"}
  KeyVars = {"plain"}
  Deviation = "none"
INVARIANTS AcceptIff PayloadIntact RoundTrip
CHECK_DEADLOCK FALSE
