SPECIFICATION HSpec
CONSTANTS
  SigAlgs <- HSigAlgs
  KmAlgs <- HKmAlgs
  Encs <- TEncs
  Zips <- TZips
  Forms <- HForms
  Sizes = {17}
  AadSizes = {0, 20}
  MaxParties = 2
  HistLen = 2
  JwsEmbeds = {TRUE, FALSE}
  PayClasses = {"pattern"}
  KeyVars = {"plain"}
  Deviation = "none"
INVARIANTS HistoryFree HAcceptOnlyIf HRoundTrip HPayloadIntact
CHECK_DEADLOCK FALSE
