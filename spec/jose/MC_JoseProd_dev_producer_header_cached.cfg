SPECIFICATION PSpec
CONSTANTS
  SigAlgs <- HSigAlgs
  KmAlgs <- PKmAlgs
  Encs <- HEncs
  Zips = {""}
  Forms <- HForms
  Sizes = {17}
  AadSizes = {0, 20}
  MaxParties = 2
  HistLen = 0
  JwsEmbeds = {TRUE}
  PayClasses = {"pattern"}
  KeyVars = {"plain"}
  SeqLen = 3
  ProdZips = {"", "DEF"}
  Nonces = {TRUE, FALSE}
  Deviation = "producer-header-cached"
INVARIANTS ProdRoundTrip
CHECK_DEADLOCK FALSE
