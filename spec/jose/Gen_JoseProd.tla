---------------------------- MODULE Gen_JoseProd ----------------------------
(* Cases for producer reuse (JoseProd.tla).  One case = one producer           *)
(* configuration (parties, content encryption, aad, serialization, nonce       *)
(* source) with EVERY behaviour of PSpec of length 2..SeqLen: every sequence   *)
(* of SetCompression values (JWE), each message with its payload size and, for  *)
(* every key choice, the verdict POpen computes on the object the producer      *)
(* makes as its k-th.                                                           *)
EXTENDS JoseProd, TLC, Json

CONSTANTS ProdEncs,    \* content encryptions of the one-recipient producers
          ProdSig2, ProdKm2, ProdEncs2, ProdCurves2   \* alphabets of the two-party producers

GenSigAlgs == AllSigAlgs
GenKmAlgs  == AllKmAlgs
QuickSig2  == {"HS256", "RS256", "ES256"}
QuickKm2   == {"A128KW", "A128GCMKW", "ECDH-ES+A128KW", "RSA-OAEP"}

ProdPick ==
  \/ \E n \in 1..2, b \in JwsEmbeds :
       \E ps \in [1..n -> {p \in JwsParties : n = 1 \/ p.alg \in ProdSig2}] : obj = JwsObj(ps, 17, b)
  \/ \E n \in 1..2, d \in AadSizes :
       \E e \in (IF n = 1 THEN ProdEncs ELSE ProdEncs2) :
         \E ps \in [1..n -> {p \in JweParties(e) : n = 1 \/ (p.alg \in ProdKm2 /\ ~Direct(p.alg)
                                                            /\ (p.keykind \in EcKinds => p.keykind \in ProdCurves2))}] :
           obj = JweObj(ps, e, "", 17, d)
GenInit ==
  /\ pc = "new" /\ wire = <<>> /\ mem = <<>> /\ tampered = {} /\ hist = <<>> /\ kc = "none" /\ result = <<>> /\ zs = <<>>
  /\ ProdPick /\ form \in {"compact", "json"} /\ HRepresentable(obj, form)
  /\ nonce \in (IF obj.kind = "jws" THEN Nonces ELSE {FALSE})
GenNext == UNCHANGED pvars

ZSeqs(o) == UNION { [1..n -> IF o.kind = "jws" THEN {""} ELSE ProdZips] : n \in 2..SeqLen }
Verdict(r) == IF r.ok THEN "ok" ELSE "error"
KeyList(o) == [i \in 1..(2 * NP(o) + 1) |-> IF i <= NP(o) THEN RightKey(i) ELSE IF i <= 2 * NP(o) THEN OtherKey(i - NP(o)) ELSE AlienKey]
SeqOf(o, zz, nn) ==
  [k \in DOMAIN zz |-> [size |-> MsgSizes[k], zip |-> zz[k],
                        opens |-> [i \in DOMAIN KeyList(o) |->
                                     <<KeyList(o)[i].v, KeyList(o)[i].p, Verdict(POpen(o, Made(o, zz, nn, k), KeyList(o)[i]))>>]]]
CaseOf ==
  [kind |-> "prod", obj |-> obj.kind, parties |-> obj.parties, enc |-> obj.enc, aad |-> obj.aad, embed |-> obj.embed,
   nonce |-> nonce, form |-> form, seqs |-> {SeqOf(obj, zz, nonce) : zz \in ZSeqs(obj)}]
Emit == PrintT(<<"CASE", ToJson(CaseOf)>>)
=============================================================================
