INIT GenInit
NEXT GenNext
CONSTANTS
  SigAlgs <- GenSigAlgs
  KmAlgs <- GenKmAlgs
  Encs <- GenEncs
  Zips = {""}
  Forms <- GenForms
  Sizes = {0, 17}
  AadSizes = {0}
  MaxParties = 3
  HistLen = 8
  JwsEmbeds = {TRUE, FALSE}
  OpenLen = 2
  OpenLenMulti = 2
  MultiSizes = {17}
  JweSizes = {17}
  EmbedsOf3 = {TRUE}
  EcdhCurves3 = {"P-256"}
  MultiSig <- QuickMultiSig
  MultiSig3 <- QuickMultiSig3
  MultiKm <- QuickMultiKm
  MultiKm3 <- QuickMultiKm3
  MultiEncs <- QuickMultiEncs
  MultiEncs3 = {"A128GCM"}
  MultiZips = {""}
  MultiAads = {0}
  EcdhCurves = {"P-256", "P-521"}
  ReserAll = FALSE
  Flips = 1
  PayClasses = {"pattern"}
  KeyVars = {"plain"}
  Deviation = "none"
INVARIANT Emit
CHECK_DEADLOCK FALSE
