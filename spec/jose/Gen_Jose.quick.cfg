INIT GenInit
NEXT GenNext
CONSTANTS
  SigAlgs <- GenSigAlgs
  KmAlgs <- GenKmAlgs
  Encs <- GenEncs
  Zips <- GenZips
  Forms <- GenForms
  Sizes = {0, 1, 15, 16, 17, 1000, 4096}
  MatrixSizes = {17}
  SizeKms <- QuickSizeKms
  AadSizes = {0, 20}
  AllBitsSizes = {}
  SigSearch = 1500
  Families = {"jws", "jwe", "jwk"}
  Deviation = "none"
INVARIANT Emit
CHECK_DEADLOCK FALSE
