INIT GenInit
NEXT GenNext
CONSTANTS
  SigAlgs <- GenSigAlgs
  KmAlgs <- GenKmAlgs
  Encs <- GenEncs
  Zips <- GenZips
  Forms <- GenForms
  Sizes = {0, 1, 15, 16, 17, 1000, 4096}
  MatrixSizes = {17}
  SizeKms <- QuickSizeKms
  AadSizes = {0, 20}
  AllBitsSizes = {}
  SigSearch = 1500
  Families = {"jws", "jwe", "jwk", "values"}
  ValSizes = {1, 2, 3, 4, 5, 6, 7, 8, 9, 10, 11, 12, 13, 14, 15, 16, 17, 32}
  ValKms = {"dir"}
  ValSigs = {"HS256"}
  ValForms = {"compact"}
  PayClasses = {"pattern"}
  KeyVars = {"plain"}
  Deviation = "none"
INVARIANT Emit
CHECK_DEADLOCK FALSE
