INIT GenInit
NEXT GenNext
CONSTANTS
  SigAlgs <- GenSigAlgs
  KmAlgs <- GenKmAlgs
  Encs <- GenEncs
  Zips <- GenZips
  Forms <- GenForms
  Sizes = {0, 1, 15, 16, 17, 1000, 4096}
  MatrixSizes = {0, 1, 15, 16, 17, 1000}
  SizeKms <- ThoroughSizeKms
  AadSizes = {0, 1, 20}
  AllBitsSizes = {1}
  SigSearch = 1500
  Families = {"jws", "jwe", "jwk"}
  Deviation = "none"
INVARIANT Emit
CHECK_DEADLOCK FALSE
