INIT GenInit
NEXT GenNext
CONSTANTS
  SigAlgs <- GenSigAlgs
  KmAlgs <- GenKmAlgs
  Encs <- GenEncs
  Zips <- GenZips
  Forms <- GenForms
  Sizes = {0, 1, 15, 16, 17, 1000, 4096}
  MatrixSizes = {0, 1, 15, 16, 17, 1000}
  SizeKms <- ThoroughSizeKms
  AadSizes = {0, 1, 20}
  AllBitsSizes = {1}
  SigSearch = 1500
  Families = {"jws", "jwe", "jwk", "values"}
  ValSizes = {1, 2, 3, 4, 5, 6, 7, 8, 9, 10, 11, 12, 13, 14, 15, 16, 17, 31, 32, 33, 48, 1000}
  ValKms = {"dir", "A128KW", "A256GCMKW", "RSA-OAEP"}
  ValSigs = {"HS256", "ES384"}
  ValForms = {"compact", "json"}
  PayClasses = {"pattern"}
  KeyVars = {"plain"}
  Deviation = "none"
INVARIANT Emit
CHECK_DEADLOCK FALSE
