SPECIFICATION HSpec
CONSTANTS
  SigAlgs <- HSigAlgs
  KmAlgs <- HKmAlgs
  Encs <- HEncs
  Zips <- TZips
  Forms <- HForms
  Sizes = {17}
  AadSizes = {0}
  MaxParties = 2
  HistLen = 2
  JwsEmbeds = {TRUE}
  PayClasses = {"pattern"}
  KeyVars = {"plain"}
  Deviation = "shared-entry-header"
INVARIANTS HRoundTrip
CHECK_DEADLOCK FALSE
