------------------------------ MODULE JoseHist ------------------------------
(* Jose.tla has one party per object and opens a parsed object once:           *)
(*     Sign/Encrypt -> Serialize -> [Tamper] -> Parse -> Open(key)             *)
(* This module adds the two dimensions that one-shot machine cannot express:   *)
(*                                                                              *)
(*  1. SEVERAL PARTIES.  A JWS carries 1..MaxParties signatures (RFC 7515 7.2.1 *)
(*     general JSON serialization: one protected header and one signature per   *)
(*     signer over the shared payload), a JWE 1..MaxParties recipients          *)
(*     (RFC 7516 7.2.1: one encrypted key and one per-recipient header each,    *)
(*     over the shared protected header, iv, ciphertext, tag, aad).  Every      *)
(*     party has its own key; Verify/Decrypt tries the entries in turn.         *)
(*                                                                              *)
(*  2. HISTORY.  A parsed object is a VALUE the application keeps (mem): it is   *)
(*     opened any number of times, with any keys in any order (the right key    *)
(*     of each party, another key of the same kind, a key of a foreign kind),   *)
(*     and serialized again afterwards:                                         *)
(*     ... -> Parse -> ( Open(key) | Reserialize+Parse+Open(key) )*             *)
(*     The verdict of every such step is a function of (object as received,     *)
(*     key) only - invariant HistoryFree.                                       *)
(*                                                                              *)
(* The cryptography stays uninterpreted (constructor terms of Jose.tla).        *)
(* Named deviations (CONSTANT Deviation of Jose.tla):                           *)
(*   "open-consumes-object": Open works in the storage of the parsed object -   *)
(*       once the content check was reached the ciphertext (JWS: the payload)   *)
(*       of mem is no longer what was received;                                 *)
(*   "shared-entry-header": every signature entry is verified against the       *)
(*       protected header of the LAST entry (one variable shared by the loop).  *)
EXTENDS Jose

CONSTANTS
  MaxParties,   \* 1..3
  HistLen,      \* number of Open / Reserialize steps on one parsed object
  JwsEmbeds     \* subset of BOOLEAN: the signers embed their public key as "jwk" in the protected header

VARIABLES mem, hist
hvars == <<pc, obj, form, wire, tampered, kc, result, mem, hist>>

\* ------------------------------------------------------------------ parties
\* HMAC keys larger than the hash are covered by the one-party matrix of Jose.tla
HSigApplicable(a, k) == SigApplicable(a, k) /\ (k \in OctKinds => OctBytes(k) = HashBytes(a))
JwsParties    == {p \in [alg : SigAlgs, keykind : KeyKinds] : HSigApplicable(p.alg, p.keykind)}
JweParties(e) == {p \in [alg : KmAlgs, keykind : KeyKinds] : KmApplicable(p.alg, e, p.keykind)}
SeqsUpTo(S, n) == UNION {[1..m -> S] : m \in 1..n}
NP(o) == Len(o.parties)

JwsObj(ps, n, b)       == [kind |-> "jws", parties |-> ps, enc |-> "", zip |-> "", size |-> n, aad |-> 0, embed |-> b,
                           pcls |-> "pattern", keyvar |-> "plain"]
JweObj(ps, e, z, n, d) == [kind |-> "jwe", parties |-> ps, enc |-> e, zip |-> z, size |-> n, aad |-> d, embed |-> FALSE,
                           pcls |-> "pattern", keyvar |-> "plain"]
\* (operators with a parameter: TLC evaluates constant definitions without one eagerly, whatever the cfg uses)
HJws(mp) == { JwsObj(ps, n, b) : ps \in SeqsUpTo(JwsParties, mp), n \in Sizes, b \in JwsEmbeds }
HJwe(mp) == UNION { { JweObj(ps, e, z, n, d) : ps \in SeqsUpTo(JweParties(e), mp), z \in Zips, n \in Sizes, d \in AadSizes } :
                e \in Encs }
\* Direct Encryption and Direct Key Agreement fix the CEK by one recipient's key: one recipient only
HLegal(o) == NP(o) > 1 => \A i \in 1..NP(o) : ~Direct(o.parties[i].alg)
HObjects(mp) == {o \in HJws(mp) \cup HJwe(mp) : HLegal(o)}
\* compact: one party, no aad; several parties: general JSON only (RFC 7515 7.1, RFC 7516 7.1)
HRepresentable(o, f) == f = "compact" => (NP(o) = 1 /\ o.aad = 0)

\* -------------------------------------------------------------------- keys
\* key atoms: the key of party p, another key of the same kind as party p's, a key of a kind no party uses
RightKey(p) == [p |-> p, v |-> "right"]
OtherKey(p) == [p |-> p, v |-> "other"]
AlienKey    == [p |-> 0, v |-> "alien"]
HKeyChoices(o) == {RightKey(p) : p \in 1..NP(o)} \cup {OtherKey(p) : p \in 1..NP(o)} \cup {AlienKey}
Asymmetric(kind) == kind \notin OctKinds

\* ----------------------------------------------------------------- produce
\* header members verification depends on; "jwk" is what makes two signers' headers differ even for one alg
JwsMembers(o, i) == [alg |-> o.parties[i].alg, enc |-> "", zip |-> "", epk |-> <<>>,
                     jwk |-> IF o.embed /\ Asymmetric(o.parties[i].keykind) THEN <<"pub", i>> ELSE <<>>]
\* one recipient: its parameters are merged into the protected header; several: they stay per recipient (unprotected)
EpkOf(o, i) == IF IsEcdh(o.parties[i].alg) THEN <<"epk", i>> ELSE <<>>     \* every recipient gets its own ephemeral key
JweMembers(o) == [alg |-> IF NP(o) = 1 THEN o.parties[1].alg ELSE "", enc |-> o.enc, zip |-> o.zip,
                  epk |-> IF NP(o) = 1 THEN EpkOf(o, 1) ELSE <<>>, jwk |-> <<>>]
RcptHeader(o, i) == IF NP(o) = 1 THEN Absent ELSE [t |-> "rh", alg |-> o.parties[i].alg, epk |-> EpkOf(o, i)]
Merged(m, rh) == IF rh = Absent THEN m ELSE [m EXCEPT !.alg = rh.alg, !.epk = rh.epk]

HMakeJws(o) ==
  [payload |-> Pay(o),
   entries |-> [i \in 1..NP(o) |->
                  LET h == HdrBytes(JwsMembers(o, i))
                  IN [protected |-> h, signature |-> SigTerm(o.parties[i].alg, RightKey(i), <<h, Pay(o)>>)]]]
HMakeJwe(o) ==
  LET m   == JweMembers(o)
      h   == HdrBytes(m)
      a1  == o.parties[1].alg
      cek == CASE NP(o) = 1 /\ a1 = "dir"     -> KeyTerm(RightKey(1))
               [] NP(o) = 1 /\ a1 = "ECDH-ES" -> Kdf(RightKey(1), m.epk, m.enc)
               [] OTHER                       -> [t |-> "cek"]
      iv  == [t |-> "iv"]
      ct  == CtTerm(o.enc, cek, iv, Plain(o.enc, o.zip, Pay(o)))
  IN [protected  |-> h, iv |-> iv, ciphertext |-> ct,
      tag        |-> TagTerm(o.enc, cek, iv, AuthData(h, Aad(o)), ct),
      aad        |-> Aad(o),
      entries    |-> [i \in 1..NP(o) |->
                        LET rh == RcptHeader(o, i)
                            mm == Merged(m, rh)
                        IN [header |-> rh,
                            encrypted_key |-> IF Direct(mm.alg) THEN Absent ELSE Wrap(mm.alg, Kek(mm, RightKey(i)), cek)]]]
HSerializeOp(o, f) == IF o.kind = "jws" THEN HMakeJws(o) ELSE HMakeJwe(o)

\* ------------------------------------------------------------------ tamper
\* a target is a field and the entry it belongs to (at = 0: a field all parties share)
HTargets(o, f) ==
  IF o.kind = "jws"
  THEN (IF o.size > 0 THEN {[fld |-> "payload", at |-> 0]} ELSE {})
       \cup {[fld |-> x, at |-> i] : x \in {"protected", "signature"}, i \in 1..NP(o)}
  ELSE {[fld |-> x, at |-> 0] : x \in {"protected", "iv", "tag"}}
       \cup (IF o.zip = "DEF" \/ CtBytes(o.enc, o.size) > 0 THEN {[fld |-> "ciphertext", at |-> 0]} ELSE {})
       \cup (IF f = "json" /\ o.aad > 0 THEN {[fld |-> "aad", at |-> 0]} ELSE {})
       \cup {[fld |-> "encrypted_key", at |-> i] : i \in {j \in 1..NP(o) : ~Direct(o.parties[j].alg)}}
HTamperOp(w, t, c) ==
  IF t.at = 0 THEN [w EXCEPT ![t.fld] = Flip(@, c)]
  ELSE [w EXCEPT !.entries = [@ EXCEPT ![t.at] = [@ EXCEPT ![t.fld] = Flip(@, c)]]]

\* -------------------------------------------------------------------- open
\* Verify (RFC 7515 5.2, 7.2.1): the object verifies for a key if SOME signature entry does, each entry
\* against ITS OWN protected header as received and the shared payload
EntryAuthHdr(m, i) == IF Deviation = "shared-entry-header"
                      THEN AuthHdr(m.entries[Len(m.entries)].protected) ELSE AuthHdr(m.entries[i].protected)
EntryVerifies(m, i, k) ==
  LET e == m.entries[i]
      h == ParseHdr(e.protected)
  IN /\ h.alg \in AllSigAlgs
     /\ e.signature = SigTerm(h.alg, k, <<EntryAuthHdr(m, i), m.payload>>)
HVerify(m, k) ==
  IF \E i \in DOMAIN m.entries : ParseHdr(m.entries[i].protected) = Bad THEN Err("parse")
  ELSE IF \E i \in DOMAIN m.entries : EntryVerifies(m, i, k) THEN Ok(m.payload, Absent)
  ELSE Err("crypto")

\* Decrypt (RFC 7516 5.2): the recipients are tried in turn; the CEK a recipient entry yields for the key
\* must open the shared ciphertext under the shared AAD
EntryCek(m, pm, i, k) ==
  LET mm == Merged(pm, m.entries[i].header)
  IN IF mm.alg \notin AllKmAlgs THEN Fail ELSE RecipientCek(mm, k, m.entries[i].encrypted_key)
EntryOpens(m, pm, i, k) ==
  LET cek == EntryCek(m, pm, i, k)
  IN /\ cek # Fail
     /\ m.tag = TagTerm(pm.enc, cek, m.iv, AuthData(AuthHdr(m.protected), m.aad), m.ciphertext)
HDecrypt(m, k) ==
  LET pm == ParseHdr(m.protected)
  IN IF pm = Bad THEN Err("parse")
     ELSE IF \E i \in DOMAIN m.entries : EntryOpens(m, pm, i, k)
          THEN Ok(Recover(pm.zip, m.ciphertext.pt), m.aad)
          ELSE Err("crypto")
HOpen(o, m, k) == IF o.kind = "jws" THEN HVerify(m, k) ELSE HDecrypt(m, k)

\* what Open leaves behind in the parsed object: nothing - unless it works in the object's own storage
Consumed == [t |-> "consumed"]
ReachedContent(o, m, k) ==
  IF o.kind = "jws" THEN \A i \in DOMAIN m.entries : ParseHdr(m.entries[i].protected) # Bad
  ELSE LET pm == ParseHdr(m.protected)
       IN pm # Bad /\ \E i \in DOMAIN m.entries : EntryCek(m, pm, i, k) # Fail
HOpenMem(o, m, k) ==
  IF Deviation = "open-consumes-object" /\ ReachedContent(o, m, k)
  THEN IF o.kind = "jws" THEN [m EXCEPT !.payload = Consumed] ELSE [m EXCEPT !.ciphertext = Consumed]
  ELSE m

\* Serialize a parsed object again: the fields as stored; the protected header is written from its members
HReser(o, m) ==
  LET again(raw) == IF ParseHdr(raw) = Bad THEN raw ELSE HdrBytes(ParseHdr(raw))
  IN IF o.kind = "jws"
     THEN [m EXCEPT !.entries = [i \in DOMAIN @ |-> [@[i] EXCEPT !.protected = again(@)]]]
     ELSE [m EXCEPT !.protected = again(@)]

\* one step on a parsed object, as an operator (the actions below and the case generator apply the same one)
StepRes(o, m, s) == IF s.op = "open" THEN HOpen(o, m, s.key) ELSE HOpen(o, HReser(o, m), s.key)
StepMem(o, m, s) == IF s.op = "open" THEN HOpenMem(o, m, s.key) ELSE m

\* ------------------------------------------------------------ state machine
HInit == /\ pc = "new" /\ obj \in HObjects(MaxParties) /\ form \in Forms /\ HRepresentable(obj, form)
         /\ wire = <<>> /\ mem = <<>> /\ tampered = {} /\ hist = <<>> /\ kc = "none" /\ result = <<>>
HProduce ==
  /\ pc = "new" /\ pc' = "wire" /\ wire' = HSerializeOp(obj, form)
  /\ UNCHANGED <<obj, form, tampered, kc, result, mem, hist>>
HTamper(t, c) ==
  /\ pc = "wire" /\ tampered = {} /\ t \in HTargets(obj, form) /\ c \in Classes(t.fld)
  /\ wire' = HTamperOp(wire, t, c) /\ tampered' = {t}
  /\ UNCHANGED <<pc, obj, form, kc, result, mem, hist>>
\* ParseSigned / ParseEncrypted: from here on the application holds ONE object
HParse ==
  /\ pc = "wire" /\ pc' = "parsed" /\ mem' = wire
  /\ UNCHANGED <<obj, form, wire, tampered, kc, result, hist>>
\* Verify / Decrypt on that object, or FullSerialize/CompactSerialize it and open the copy
HStep(s) ==
  /\ pc = "parsed" /\ Len(hist) < HistLen
  /\ s.op = "reser" => tampered = {}        \* a re-serialized TAMPERED object is a new object: nothing is claimed
  /\ result' = StepRes(obj, mem, s) /\ mem' = StepMem(obj, mem, s) /\ kc' = s.key
  /\ hist' = Append(hist, [op |-> s.op, key |-> s.key, res |-> result'])
  /\ UNCHANGED <<pc, obj, form, wire, tampered>>
HNext == \/ HProduce
         \/ \E fld \in JwsFields \cup JweFields, at \in 0..MaxParties, c \in HdrClasses \cup {"bits"} :
               HTamper([fld |-> fld, at |-> at], c)
         \/ HParse
         \/ \E op \in {"open", "reser"}, k \in HKeyChoices(obj) : HStep([op |-> op, key |-> k])
HSpec == HInit /\ [][HNext]_hvars

\* -------------------------------------------------------------- properties
\* key k opens the object as far as the property speaks: it is the key of a party, and nothing that
\* party's check covers was changed (shared fields, or the party's own entry)
HAccept(k) == k.v = "right" /\ \A t \in tampered : t.at \notin {0, k.p}
\* the verdict of every step depends on the object as received and the key - not on the steps before
HistoryFree == \A i \in DOMAIN hist : hist[i].res = StepRes(obj, wire, [op |-> hist[i].op, key |-> hist[i].key])
\* never accepted with a key that is not a party's, nor when something that party's check covers was changed
HAcceptOnlyIf == \A i \in DOMAIN hist : hist[i].res.ok => HAccept(hist[i].key)
\* an untampered object opens for EVERY party's key, at any point of any history, to the original payload and aad.
\* (Of a re-serialized copy the property says nothing by itself: HistoryFree demands that it opens exactly as the
\* copy made of the object as received would - Open does not change what the object serializes to.)
HRoundTrip == tampered = {} =>
                \A i \in DOMAIN hist : (hist[i].op = "open" /\ hist[i].key.v = "right") => hist[i].res = Ok(Pay(obj), Aad(obj))
HPayloadIntact == \A i \in DOMAIN hist : hist[i].res.ok => (hist[i].res.payload = Pay(obj) /\ hist[i].res.aad = Aad(obj))
=============================================================================
