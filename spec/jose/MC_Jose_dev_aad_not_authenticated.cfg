SPECIFICATION Spec
CONSTANTS
  SigAlgs <- DevSigAlgs
  KmAlgs <- DevKmAlgs
  Encs <- DevEncs
  Zips <- McZips
  Forms <- McForms
  Sizes = {17}
  AadSizes = {0, 20}
  Deviation = "aad-not-authenticated"
INVARIANTS AcceptIff
CHECK_DEADLOCK FALSE
