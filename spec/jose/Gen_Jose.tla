------------------------------ MODULE Gen_Jose ------------------------------
(* Case generation for the replayer.  One case = one object the application   *)
(* asks for (algorithms, key kind, payload size class, aad, serialization)    *)
(* together with EVERY continuation the state machine of Jose.tla allows      *)
(* after Serialize - no tamper with the same / another key, and one flipped   *)
(* bit in each field the serialization carries - each with the outcome the    *)
(* specification computes by running the same operators its actions apply     *)
(* (Pipeline).  JWK cases carry the RFC 7518 coordinate width and the         *)
(* RFC 7638 template.                                                         *)
EXTENDS Jose, TLC, Json

CONSTANTS
  MatrixSizes,   \* payload sizes for which the whole key-management matrix is emitted
  SizeKms,       \* key-management algorithms for which every payload size is emitted
  AllBitsSizes,  \* payload sizes for which the replayer flips EVERY bit of every field
  SigSearch,     \* ECDSA is randomised: the binding draws up to this many signatures looking for one
                 \* whose R or S has a leading zero octet (fixed width R||S, RFC 7518 3.4)
  Families,      \* subset of {"jws", "jwe", "jwk", "values"}
  ValSizes,      \* "values": payload sizes of the payload content classes (every length mod 16)
  ValKms,        \* ... key management algorithms they are encrypted under
  ValSigs,       \* ... signature algorithms they are signed with
  ValForms       \* ... serializations

GenSigAlgs == AllSigAlgs
GenKmAlgs  == AllKmAlgs
GenEncs    == AllEncs
GenZips    == AllZips
GenForms   == {"compact", "json"}
QuickSizeKms    == {"dir", "A128KW", "RSA-OAEP", "ECDH-ES"}
ThoroughSizeKms == AllKmAlgs

GenObjects ==
  { o \in Objects : \/ o.kind = "jws" /\ "jws" \in Families
                    \/ o.kind = "jwe" /\ "jwe" \in Families /\ o.size \in MatrixSizes
                    \/ o.kind = "jwe" /\ "jwe" \in Families /\ o.alg \in SizeKms /\ o.aad = 0 }

JwkCases ==
  { [kind |-> "jwk", keykind |-> k, variant |-> v, private |-> p] :
      k \in KeyKinds, v \in {"k1", "k2", "lzx", "lzy"}, p \in BOOLEAN }
LegalJwk(j) == /\ (j.variant \in {"lzx", "lzy"} => j.keykind \in EcKinds)   \* leading zero byte in X / in Y
               /\ (j.keykind \in OctKinds => j.private)                      \* a symmetric key is its own secret

\* Family "values" (picked dimension by dimension; Objects holds the "pattern"/"plain" matrix only):
\*  - every payload content class x every content encryption x every size of ValSizes (zip none: the payload itself
\*    is what the content cipher pads), under the key managements of ValKms; signed with ValSigs;
\*  - key variant "tz" (the second half of the symmetric key is zeros) for every key management that takes a raw
\*    symmetric key x every content encryption.
\* Their runs are the untampered object opened with every key choice (Runs without the tamper part).
ValObj(kind, a, e, k, n, c, kv) ==
  [kind |-> kind, alg |-> a, enc |-> e, zip |-> "", keykind |-> k, size |-> n, aad |-> 0, profile |-> "plain",
   pcls |-> c, keyvar |-> kv]
ValPick ==
  \/ \E a \in ValKms, e \in GenEncs, n \in ValSizes, c \in AllPayClasses \ {"pattern"} :
       \E k \in {kk \in KeyKinds : KmApplicable(a, e, kk)} : obj = ValObj("jwe", a, e, k, n, c, "plain")
  \/ \E a \in ValSigs, n \in ValSizes, c \in AllPayClasses \ {"pattern"} :
       \E k \in {kk \in KeyKinds : SigApplicable(a, kk)} : obj = ValObj("jws", a, "", k, n, c, "plain")
  \/ \E a \in GenKmAlgs, e \in GenEncs, n \in MatrixSizes :
       \E k \in {kk \in OctKinds : KmApplicable(a, e, kk)} : obj = ValObj("jwe", a, e, k, n, "pattern", "tz")
IsValue(o) == o.pcls # "pattern" \/ o.keyvar # "plain"

GenInit ==
  /\ pc = "new" /\ wire = <<>> /\ tampered = {} /\ kc = "none" /\ result = <<>>
  /\ \/ obj \in GenObjects /\ form \in GenForms /\ Representable(obj, form)
     \/ "values" \in Families /\ ValPick /\ Legal(obj) /\ form \in ValForms /\ Representable(obj, form)
     \/ "jwk" \in Families /\ obj \in {j \in JwkCases : LegalJwk(j)} /\ form = "json"
GenNext == UNCHANGED vars

\* what the replayer can aim at in the protected header: any bit ("bits": the specification
\* expects the same outcome whatever the bit hits), the case bit of a member name, the bit
\* that turns RS* into PS* and back
ReplayClasses(o, fld) ==
  IF fld # "protected" THEN {"bits"}
  ELSE {"bits", "case"} \cup (IF Sibling(o.alg) # "?" THEN {"alg"} ELSE {})
Verdict(r) == IF r.ok THEN "ok" ELSE "error"
Expect(o, f, fld, c, choice) ==
  IF fld = "protected" /\ c = "bits"
  THEN LET vs == {Verdict(Pipeline(o, f, fld, mc, choice)) : mc \in HdrClasses}
       IN IF Cardinality(vs) = 1 THEN CHOOSE v \in vs : TRUE ELSE "either"
  ELSE Verdict(Pipeline(o, f, fld, c, choice))

\* a related wrong key is built from the right one: RelForm = <<octets kept, zero octets, seeded octets appended>>
KeyRuns(o, f) ==
  { [tamper |-> "none", cls |-> "", key |-> choice, expect |-> Expect(o, f, "none", "", choice),
     kform |-> IF choice \in KeyRels THEN RelForm(choice, OctBytes(o.keykind)) ELSE <<0, 0, 0>>] :
      choice \in KeyChoices(o) }
Runs(o, f) ==
  KeyRuns(o, f)
  \cup UNION { { [tamper |-> fld, cls |-> c, key |-> "same", expect |-> Expect(o, f, fld, c, "same"), kform |-> <<0, 0, 0>>] :
                   c \in ReplayClasses(o, fld) } : fld \in Tamperable(o, f) }

Carried(o, f) == {fld \in JwsFields \cup JweFields : HasField(o, f, fld)}

CaseOf ==
  IF obj.kind = "jwk"
  THEN [kind |-> "jwk", keykind |-> obj.keykind, variant |-> obj.variant, private |-> obj.private,
        kty |-> Kty(obj.keykind),
        coord |-> IF obj.keykind \in EcKinds THEN CoordBytes(obj.keykind) ELSE 0,
        octets |-> IF obj.keykind \in OctKinds THEN OctBytes(obj.keykind) ELSE 0,
        template |-> Template(Kty(obj.keykind)),
        privmembers |-> IF obj.private THEN PrivateMembers(Kty(obj.keykind)) ELSE {}]
  ELSE [kind |-> obj.kind, alg |-> obj.alg, enc |-> obj.enc, zip |-> obj.zip, keykind |-> obj.keykind,
        size |-> obj.size, aad |-> obj.aad, profile |-> obj.profile, form |-> form,
        pcls |-> obj.pcls, tailval |-> TailVal(obj.pcls, obj.size), tailrun |-> TailRun(obj.pcls, obj.size),
        padvalue |-> IF obj.kind = "jwe" /\ IsCbc(obj.enc) /\ obj.zip = "" THEN PadValue(obj.size) ELSE 0,
        keyvar |-> obj.keyvar,
        fields |-> Carried(obj, form),
        empty |-> {fld \in Carried(obj, form) : ~NonEmpty(obj, fld)},
        eklen |-> IF obj.kind = "jwe" THEN EncryptedKeyBytes(obj.alg, obj.enc) ELSE 0,
        ivlen |-> IF obj.kind = "jwe" THEN IvBytes(obj.enc) ELSE 0,
        siglen |-> IF obj.keykind \in EcKinds /\ obj.kind = "jws" THEN 2 * CoordBytes(obj.keykind) ELSE 0,
        sigsearch |-> IF obj.keykind \in EcKinds /\ obj.kind = "jws" THEN SigSearch ELSE 0,
        bits |-> IF obj.size \in AllBitsSizes /\ obj.aad <= 1 THEN "all" ELSE "seeded",
        runs |-> IF IsValue(obj) THEN KeyRuns(obj, form) ELSE Runs(obj, form)]
Emit == PrintT(<<"CASE", ToJson(CaseOf)>>)
=============================================================================
