---------------------------- MODULE MC_JoseProd ----------------------------
EXTENDS JoseProd
\* one algorithm of every family whose verdicts differ in kind: HMAC / RSA / ECDSA signatures (the asymmetric ones
\* embed a jwk, so their protected headers differ even for one alg); direct, key wrap (integrity protected),
\* RSA1_5 (a wrong key yields a random CEK, never an error) and ECDH-ES + key wrap recipients
HSigAlgs == {"HS256", "RS256", "ES512"}
HKmAlgs  == {"dir", "A128KW", "RSA1_5", "ECDH-ES+A128KW"}
PKmAlgs  == {"dir", "A128KW", "RSA-OAEP", "ECDH-ES", "ECDH-ES+A128KW", "A256GCMKW"}
HEncs    == {"A128CBC-HS256", "A256GCM"}
HZips    == {"", "DEF"}
HForms   == {"compact", "json"}
\* thorough: three parties, longer histories, on a smaller alphabet
TSigAlgs == {"HS256", "ES512"}
TKmAlgs  == {"A128KW", "RSA1_5"}
TEncs    == {"A256GCM"}
TZips    == {""}
=============================================================================
