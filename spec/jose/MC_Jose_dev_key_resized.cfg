SPECIFICATION Spec
CONSTANTS
  SigAlgs <- ValSigAlgs
  KmAlgs <- ValKmAlgs
  Encs <- DevEncs
  Zips <- McZips
  Forms <- McForms
  Sizes = {15, 16, 17}
  AadSizes = {0}
  PayClasses = {"pattern", "pad1", "padrun", "allpad", "ones", "zeros"}
  KeyVars = {"plain", "tz"}
  Deviation = "key-resized"
INVARIANTS AcceptIff
CHECK_DEADLOCK FALSE
