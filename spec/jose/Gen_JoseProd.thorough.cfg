INIT GenInit
NEXT GenNext
CONSTANTS
  SigAlgs <- GenSigAlgs
  KmAlgs <- GenKmAlgs
  Encs = {"A128GCM", "A256CBC-HS512"}
  Zips = {""}
  Forms = {"compact", "json"}
  Sizes = {17}
  AadSizes = {0, 20}
  MaxParties = 2
  HistLen = 0
  JwsEmbeds = {TRUE}
  PayClasses = {"pattern"}
  KeyVars = {"plain"}
  SeqLen = 3
  ProdZips = {"", "DEF"}
  Nonces = {TRUE, FALSE}
  ProdEncs = {"A128GCM", "A192GCM", "A256GCM", "A128CBC-HS256", "A192CBC-HS384", "A256CBC-HS512"}
  ProdSig2 <- QuickSig2
  ProdKm2 <- QuickKm2
  ProdEncs2 = {"A128GCM"}
  ProdCurves2 = {"P-256", "P-521"}
  Deviation = "none"
INVARIANT Emit
CHECK_DEADLOCK FALSE
