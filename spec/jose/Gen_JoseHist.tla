---------------------------- MODULE Gen_JoseHist ----------------------------
(* Case generation for the histories and the several-party objects of         *)
(* JoseHist.tla.  One case = one object the application asks for (parties,     *)
(* content encryption, zip, aad, serialization) together with a set of         *)
(* BEHAVIOURS of the state machine HSpec after Produce: an optional Tamper     *)
(* (one field of one entry), Parse, and then a sequence of steps on the ONE    *)
(* parsed object - Open with a key, or Reserialize + Parse + Open with a key - *)
(* each step with the verdict the specification computes by applying, one      *)
(* after the other, the same operators the actions HStep apply (StepRes,       *)
(* StepMem).  For an untampered object: every sequence of OpenLen keys out of   *)
(* HKeyChoices (every party's key, another key of each party's kind, a foreign   *)
(* key) in every order, followed by a re-serialization opened with a party's    *)
(* key.  For every tamper target and class: all parties' keys in        *)
(* ascending and then descending order on the one parsed object.               *)
EXTENDS JoseHist, TLC, Json

CONSTANTS
  OpenLen,      \* number of Open steps before the re-serialization (untampered behaviours), one party
  OpenLenMulti, \* ... several parties
  MultiSizes,   \* payload sizes of the several-party objects
  JweSizes,     \* payload sizes of the one-recipient JWE objects (Sizes: one-signer JWS)
  EmbedsOf3,    \* JwsEmbeds of the 3-signer objects
  EcdhCurves3,  \* curves of the ECDH-ES+AxxxKW recipients of 3-recipient objects
  MultiSig,     \* signature algorithms the 2-party objects are formed over
  MultiSig3,    \* ... the 3-party objects
  MultiKm,      \* key management algorithms of 2-recipient objects
  MultiKm3,     \* ... 3-recipient objects
  MultiEncs,    \* content encryptions of the several-recipient objects
  MultiZips,    \* ... their compression
  MultiAads,    \* ... their aad sizes
  EcdhCurves,   \* curves of the ECDH-ES+AxxxKW recipients of several-recipient objects
  MultiEncs3,   \* content encryptions of the 3-recipient objects
  ReserAll,     \* TRUE: the re-serialized object is opened with every party's key; FALSE: with one, in rotation
  Flips         \* seeded bits the replayer flips per tamper target and class

GenSigAlgs == AllSigAlgs
GenKmAlgs  == AllKmAlgs
GenEncs    == AllEncs
GenZips    == AllZips
GenForms   == {"compact", "json"}
QuickMultiSig  == {"HS256", "HS512", "RS256", "PS384", "ES256", "ES512"}
QuickMultiSig3 == {"HS384", "PS256", "ES384"}
QuickMultiKm   == {"RSA1_5", "RSA-OAEP", "A128KW", "A128GCMKW", "ECDH-ES+A128KW"}
QuickMultiKm3  == {"RSA1_5", "A256GCMKW", "ECDH-ES+A192KW"}
QuickMultiEncs == {"A128GCM", "A256CBC-HS512"}
ThoroughMultiSig3 == {"HS256", "RS512", "PS256", "ES384", "ES512"}
ThoroughMultiKm3  == {"RSA1_5", "A192KW", "A256GCMKW", "ECDH-ES+A192KW"}
NonDirectKms   == {a \in AllKmAlgs : ~Direct(a)}

\* the objects: every one-party object of the matrix (all algorithms, key kinds, content encryptions, zip, aad);
\* several parties: every sequence over the tier's alphabet for that number of parties
SigAlpha(n) == CASE n = 1 -> SigAlgs [] n = 2 -> MultiSig [] OTHER -> MultiSig3
KmAlpha(n)  == CASE n = 1 -> KmAlgs  [] n = 2 -> MultiKm  [] OTHER -> MultiKm3
JwsAlphabet(n)    == {p \in JwsParties : p.alg \in SigAlpha(n)}
JweAlphabet(n, e) == {p \in JweParties(e) : /\ p.alg \in KmAlpha(n)
                                            /\ n > 1 => /\ ~Direct(p.alg)
                                                        /\ p.keykind \in EcKinds =>
                                                              p.keykind \in (IF n = 2 THEN EcdhCurves ELSE EcdhCurves3)}
GenPick ==
  \/ \E n \in 1..MaxParties :
       \E b \in (IF n = 3 THEN EmbedsOf3 ELSE JwsEmbeds), sz \in (IF n = 1 THEN Sizes ELSE MultiSizes) :
         \E ps \in [1..n -> JwsAlphabet(n)] : obj = JwsObj(ps, sz, b)
  \/ \E n \in 1..MaxParties :
      \E sz \in (IF n = 1 THEN JweSizes ELSE MultiSizes) :
       \E e \in (CASE n = 1 -> Encs [] n = 2 -> MultiEncs [] OTHER -> MultiEncs3), z \in (IF n = 1 THEN Zips ELSE MultiZips),
          d \in (IF n = 1 THEN AadSizes ELSE MultiAads) :
         \E ps \in [1..n -> JweAlphabet(n, e)] : obj = JweObj(ps, e, z, sz, d)

GenInit ==
  /\ pc = "new" /\ wire = <<>> /\ mem = <<>> /\ tampered = {} /\ hist = <<>> /\ kc = "none" /\ result = <<>>
  /\ GenPick /\ form \in GenForms /\ HRepresentable(obj, form)
GenNext == UNCHANGED hvars

\* ------------------------------------------------------------- behaviours
Verdict(r) == IF r.ok THEN "ok" ELSE "error"
\* fold the step operators over a sequence of steps, from the parsed object m: the sequence of verdicts
RECURSIVE Run(_, _, _)
Run(o, m, steps) ==
  IF steps = <<>> THEN <<>>
  ELSE LET s == Head(steps)
       IN <<Verdict(StepRes(o, m, s))>> \o Run(o, StepMem(o, m, s), Tail(steps))

OpenOf(k)  == [op |-> "open", key |-> k]
ReserOf(k) == [op |-> "reser", key |-> k]
OpenN(o)   == IF NP(o) = 1 THEN OpenLen ELSE OpenLenMulti
KeySeqs(o) == [1..OpenN(o) -> HKeyChoices(o)]
Rights(o)  == [i \in 1..NP(o) |-> RightKey(i)]
Rev(s)     == [i \in 1..Len(s) |-> s[Len(s) + 1 - i]]
\* a step as the replayer reads it: <<op, key variant, party, expected verdict>>
Out(s, e)  == <<s.op, s.key.v, s.key.p, e>>

\* a re-serialized copy must open as the copy made of the object as received (no history) does: the specification
\* computes both and they agree (HistoryFree); the replayer compares with that control on the real library
AsFresh(o, w, s, v) == IF v = Verdict(StepRes(o, w, s)) THEN "asfresh" ELSE "model-error"
\* untampered: the verdicts are demanded as computed.  After the opens the object is serialized again and the copy
\* opened with a party's key (every party's in turn, or one chosen in rotation over the key sequences)
RECURSIVE SumP(_)
SumP(ks) == IF ks = <<>> THEN 0 ELSE Head(ks).p + SumP(Tail(ks))
ReserSteps(o, ks) == IF ReserAll THEN [i \in 1..NP(o) |-> ReserOf(RightKey(i))]
                     ELSE <<ReserOf(RightKey((SumP(ks) % NP(o)) + 1))>>
Untampered(o, f) ==
  LET w == HSerializeOp(o, f)
  IN { [fld |-> "none", at |-> 0, cls |-> "",
        steps |-> LET ss == [i \in 1..OpenN(o) |-> OpenOf(ks[i])] \o ReserSteps(o, ks)
                      rs == Run(o, w, ss)
                  IN [i \in DOMAIN ss |-> Out(ss[i], IF ss[i].op = "reser" THEN AsFresh(o, w, ss[i], rs[i]) ELSE rs[i])]] :
         ks \in KeySeqs(o) }

\* what the replayer can aim at in a protected header (see Gen_Jose): any bit, the case bit of a member
\* name, RS <-> PS
HReplayClasses(o, t) ==
  IF t.fld # "protected" THEN {"bits"}
  ELSE {"bits", "case"} \cup (IF o.kind = "jws" /\ Sibling(o.parties[t.at].alg) # "?" THEN {"alg"} ELSE {})
ModelClasses(t, c) == IF t.fld = "protected" /\ c = "bits" THEN HdrClasses ELSE {c}
\* tampered: all parties' keys in ascending, then descending order on the one parsed object.  A step MUST
\* fail where the specification says so for every way the bit can hit; where the specification accepts (the
\* key of a party whose entry was not touched) the property is silent: "either" (an accepted object must still
\* return the original payload)
Tampered(o, f) ==
  LET w  == HSerializeOp(o, f)
      ss == [i \in 1..(2 * NP(o)) |-> OpenOf((Rights(o) \o Rev(Rights(o)))[i])]
  IN UNION { { [fld |-> t.fld, at |-> t.at, cls |-> c,
                steps |-> LET rs == { Run(o, HTamperOp(w, t, mc), ss) : mc \in ModelClasses(t, c) }
                          IN [i \in DOMAIN ss |->
                                Out(ss[i], IF \A r \in rs : r[i] = "error" THEN "error" ELSE "either")]] :
                 c \in HReplayClasses(o, t) } : t \in HTargets(o, f) }

CaseOf ==
  [kind |-> "hist", obj |-> obj.kind, parties |-> obj.parties, enc |-> obj.enc, zip |-> obj.zip,
   size |-> obj.size, aad |-> obj.aad, embed |-> obj.embed, form |-> form, flips |-> Flips,
   entries |-> IF obj.kind = "jws" THEN {"protected", "signature"} ELSE {"encrypted_key"},
   nokey |-> {i \in 1..NP(obj) : obj.kind = "jwe" /\ Direct(obj.parties[i].alg)},
   behaviours |-> Untampered(obj, form) \cup Tampered(obj, form)]
Emit == PrintT(<<"CASE", ToJson(CaseOf)>>)
=============================================================================
