------------------------------ MODULE JoseProd ------------------------------
(* PRODUCER REUSE.  Jose.tla / JoseHist.tla make every object with a producer  *)
(* of its own.  Here ONE Encrypter / Signer (NewEncrypter, NewMultiEncrypter,  *)
(* NewSigner, NewMultiSigner [+ SetNonceSource]) makes a SEQUENCE of objects:  *)
(*     configure -> ( [SetCompression(z)] -> Encrypt/Sign(payload k) )*        *)
(* with a different payload each, compression switched between them where the  *)
(* API allows.  Every message has its own PER-MESSAGE parameters: the CEK and   *)
(* iv, and in the header the ephemeral key of ECDH-ES(+AxxxKW) (RFC 7518 4.6),  *)
(* the iv/tag of AxxxGCMKW (4.7), "zip" as set for that message, the nonce of   *)
(* a signer with a nonce source.  Object k must open with every party's key to  *)
(* ITS OWN payload: its verdict is independent of the objects 1..k-1 the same   *)
(* producer made before (ProdIndependent).                                      *)
(* Named deviation "producer-header-cached": the producer keeps the protected   *)
(* header object of its first message and only FILLS EMPTY members for later    *)
(* ones - they are sent with the first message's per-message parameters.        *)
EXTENDS JoseHist

CONSTANTS SeqLen,     \* objects one producer makes (2..3)
          ProdZips,   \* what SetCompression can be set to before a message (JWE)
          Nonces      \* subset of BOOLEAN: the signer has a nonce source (JWS)

VARIABLES zs, nonce   \* zs[k]: compression in force for message k (the messages made so far); nonce: source set
pvars == <<pc, obj, form, wire, tampered, kc, result, mem, hist, zs, nonce>>

MsgSizes == <<17, 40, 5>>      \* the payloads differ (content: seeded per message)
PayK(o, k) == [t |-> "payload", n |-> MsgSizes[k], cls |-> "pattern", msg |-> k]
GcmKw(a)   == a \in {"A128GCMKW", "A192GCMKW", "A256GCMKW"}
PerMsg(a)  == IsEcdh(a) \/ GcmKw(a)         \* key managements with per-message HEADER parameters
\* the member "epk" stands for them all: the ephemeral key, or the key-wrap iv and tag
Pmp(o, i, k) == IF PerMsg(o.parties[i].alg) THEN <<"pmp", i, k>> ELSE <<>>

\* protected header members of message k as they SHOULD be (one recipient: its parameters are merged in)
TrueMembers(o, z, k) ==
  [alg |-> IF NP(o) = 1 THEN o.parties[1].alg ELSE "", enc |-> o.enc, zip |-> z,
   epk |-> IF NP(o) = 1 THEN Pmp(o, 1, k) ELSE <<>>, jwk |-> <<>>]
\* ... and as they are SENT
Stale(c, m) == [m EXCEPT !.epk = IF c.epk # <<>> THEN c.epk ELSE @, !.zip = IF @ # "" THEN @ ELSE c.zip]
RECURSIVE SentMembers(_, _, _)
SentMembers(o, zz, k) ==
  IF Deviation = "producer-header-cached" /\ k > 1
  THEN Stale(SentMembers(o, zz, k - 1), TrueMembers(o, zz[k], k))
  ELSE TrueMembers(o, zz[k], k)

\* key-encryption key of a recipient: ECDH - from the ephemeral key; AES-GCM key wrap - under the header's iv/tag
PKek(mm, k) == IF IsEcdh(mm.alg) THEN Kdf(k, mm.epk, mm.alg)
               ELSE IF GcmKw(mm.alg) THEN [t |-> "gcmkw", k |-> k, ivtag |-> mm.epk] ELSE KeyTerm(k)
ProdJwe(o, zz, k) ==
  LET m   == TrueMembers(o, zz[k], k)
      h   == HdrBytes(SentMembers(o, zz, k))
      a1  == o.parties[1].alg
      cek == CASE NP(o) = 1 /\ a1 = "dir"     -> KeyTerm(RightKey(1))
               [] NP(o) = 1 /\ a1 = "ECDH-ES" -> Kdf(RightKey(1), m.epk, m.enc)
               [] OTHER                       -> [t |-> "cek", msg |-> k]
      iv  == [t |-> "iv", msg |-> k]
      ct  == CtTerm(o.enc, cek, iv, Plain(o.enc, zz[k], PayK(o, k)))
  IN [protected |-> h, iv |-> iv, ciphertext |-> ct,
      tag     |-> TagTerm(o.enc, cek, iv, AuthData(h, Aad(o)), ct),
      aad     |-> Aad(o),
      entries |-> [i \in 1..NP(o) |->
                     LET rh == IF NP(o) = 1 THEN Absent ELSE [t |-> "rh", alg |-> o.parties[i].alg, epk |-> Pmp(o, i, k)]
                         mm == Merged(m, rh)
                     IN [header |-> rh,
                         encrypted_key |-> IF Direct(mm.alg) THEN Absent ELSE Wrap(mm.alg, PKek(mm, RightKey(i)), cek)]]]
ProdJws(o, nn, k) ==
  [payload |-> PayK(o, k),
   entries |-> [i \in 1..NP(o) |->
                  LET h == HdrBytes([alg |-> o.parties[i].alg, enc |-> "", zip |-> "", epk |-> <<>>,
                                     jwk |-> IF o.embed /\ Asymmetric(o.parties[i].keykind) THEN <<"pub", i>> ELSE <<>>,
                                     nonce |-> IF nn THEN <<"nonce", k, i>> ELSE <<>>])
                  IN [protected |-> h, signature |-> SigTerm(o.parties[i].alg, RightKey(i), <<h, PayK(o, k)>>)]]]
Made(o, zz, nn, k) == IF o.kind = "jws" THEN ProdJws(o, nn, k) ELSE ProdJwe(o, zz, k)

\* opening (as HDecrypt, with the per-message parameters taken from the header AS RECEIVED)
PUnzip(z, x) == IF z = "DEF" THEN (IF x.t = "deflate" THEN x.of ELSE [t |-> "garbage"]) ELSE x
PCek(mm, k, ek) ==
  CASE mm.alg = "dir"     -> KeyTerm(k)
    [] mm.alg = "ECDH-ES" -> Kdf(k, mm.epk, mm.enc)
    [] OTHER -> IF ek.t = "wrap" /\ ek.km = mm.alg /\ ek.kek = PKek(mm, k) THEN ek.cek
                ELSE IF mm.alg = "RSA1_5" THEN [t |-> "random-cek"] ELSE Fail
PDecrypt(w, k) ==
  LET pm == ParseHdr(w.protected)
      opens(i) == LET mm  == Merged(pm, w.entries[i].header)
                      cek == IF mm.alg \notin AllKmAlgs THEN Fail ELSE PCek(mm, k, w.entries[i].encrypted_key)
                  IN cek # Fail /\ w.tag = TagTerm(pm.enc, cek, w.iv, AuthData(AuthHdr(w.protected), w.aad), w.ciphertext)
  IN IF \E i \in DOMAIN w.entries : opens(i)
     THEN LET r == PUnzip(pm.zip, Unpadded(w.ciphertext.pt))
          IN IF r.t = "garbage" THEN Err("inflate") ELSE Ok(r, w.aad)
     ELSE Err("crypto")
POpen(o, w, k) == IF o.kind = "jws" THEN HVerify(w, k) ELSE PDecrypt(w, k)

\* ------------------------------------------------------------ state machine
PInit == /\ pc = "new" /\ obj \in HObjects(MaxParties) /\ form = "json"
         /\ wire = <<>> /\ mem = <<>> /\ tampered = {} /\ hist = <<>> /\ kc = "none" /\ result = <<>>
         /\ zs = <<>> /\ nonce \in (IF obj.kind = "jws" THEN Nonces ELSE {FALSE})
\* [SetCompression(z)] then Encrypt / Sign of the next payload with the SAME producer
Produce(z) ==
  /\ Len(zs) < SeqLen /\ (obj.kind = "jws" => z = "")
  /\ zs' = Append(zs, z)
  /\ UNCHANGED <<pc, obj, form, wire, tampered, kc, result, mem, hist, nonce>>
PNext == \E z \in ProdZips : Produce(z)
PSpec == PInit /\ [][PNext]_pvars

\* -------------------------------------------------------------- properties
\* what a producer of its own would have made of message k
Fresh(o, zz, nn, k) == IF o.kind = "jws" THEN ProdJws(o, nn, k)
                       ELSE [ProdJwe(o, zz, k) EXCEPT !.protected = HdrBytes(TrueMembers(o, zz[k], k))]
\* object k opens for every party's key to ITS payload ...
ProdRoundTrip == \A k \in DOMAIN zs : \A p \in 1..NP(obj) :
                   POpen(obj, Made(obj, zs, nonce, k), RightKey(p)) = Ok(PayK(obj, k), Aad(obj))
\* ... for no other key ...
ProdOnlyRight == \A k \in DOMAIN zs : \A p \in 1..NP(obj) : ~POpen(obj, Made(obj, zs, nonce, k), OtherKey(p)).ok
\* ... and is, field by field, what the producer would have made had it made nothing before
ProdIndependent == \A k \in DOMAIN zs : \A key \in HKeyChoices(obj) :
                     LET w == Made(obj, zs, nonce, k) f == Fresh(obj, zs, nonce, k)
                     IN POpen(obj, w, key).ok = POpen(obj, f, key).ok /\ w.entries = f.entries
=============================================================================
