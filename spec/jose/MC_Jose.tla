------------------------------ MODULE MC_Jose ------------------------------
EXTENDS Jose
McSigAlgs == AllSigAlgs
McKmAlgs  == AllKmAlgs
McEncs    == AllEncs
McZips    == AllZips
McForms   == {"compact", "json"}
\* small matrix for the non-vacuity runs
DevSigAlgs == {"HS256", "RS256", "ES512"}
DevKmAlgs  == {"dir", "A128KW", "RSA1_5", "ECDH-ES+A128KW"}
DevEncs    == {"A128CBC-HS256", "A256GCM"}
\* value classes (payload tails, related wrong keys): the algorithms that take a raw symmetric key, one that does not
ValSigAlgs == {"HS256", "ES256"}
ValKmAlgs  == {"dir", "A128KW", "A256GCMKW", "RSA-OAEP"}
=============================================================================
