------------------------------ MODULE MC_Jose ------------------------------
EXTENDS Jose
McSigAlgs == AllSigAlgs
McKmAlgs  == AllKmAlgs
McEncs    == AllEncs
McZips    == AllZips
McForms   == {"compact", "json"}
\* small matrix for the non-vacuity runs
DevSigAlgs == {"HS256", "RS256", "ES512"}
DevKmAlgs  == {"dir", "A128KW", "RSA1_5", "ECDH-ES+A128KW"}
DevEncs    == {"A128CBC-HS256", "A256GCM"}
=============================================================================
