SPECIFICATION MCSpec
CONSTANTS
  Dev = {}
  Fam = "real"
  NonceChoice <- MinOnly
  Deep = TRUE
INVARIANTS TypeOK NonceNeverReused RespondWhilePresented CleanupAlways CertOnlyIfAllValid PollStops OutcomeExact ServedOnlyWhilePresented PoolSound Emit
CHECK_DEADLOCK FALSE
