SPECIFICATION MCSpec
CONSTANTS
  Dev = {}
  Fam = "all"
  NonceChoice <- MinOnly
  Deep = FALSE
INVARIANTS TypeOK NonceNeverReused RespondWhilePresented CleanupAlways CertOnlyIfAllValid PollStops OutcomeExact ServedOnlyWhilePresented PoolSound Emit
CHECK_DEADLOCK FALSE
