\* named deviation "no-cleanup-on-fail": TLC must report CleanupAlways violated
SPECIFICATION MCSpec
CONSTANTS
  Dev = {"no-cleanup-on-fail"}
  Fam = "dev2"
  NonceChoice <- MinOnly
  Deep = FALSE
INVARIANTS TypeOK NonceNeverReused RespondWhilePresented CleanupAlways CertOnlyIfAllValid PollStops OutcomeExact
CHECK_DEADLOCK FALSE
