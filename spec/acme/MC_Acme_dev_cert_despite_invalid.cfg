\* named deviation "cert-despite-invalid": TLC must report CertOnlyIfAllValid violated
SPECIFICATION MCSpec
CONSTANTS
  Dev = {"cert-despite-invalid"}
  Fam = "dev2"
  NonceChoice <- MinOnly
  Deep = FALSE
INVARIANTS TypeOK NonceNeverReused RespondWhilePresented CleanupAlways CertOnlyIfAllValid PollStops OutcomeExact
CHECK_DEADLOCK FALSE
