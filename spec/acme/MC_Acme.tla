------------------------------ MODULE MC_Acme ------------------------------
(* Model checking of Acme over families of server scripts, and generation of *)
(* the scripts for the fake ACME server of the harness (every initial state  *)
(* prints its script as a CASE).                                             *)
EXTENDS Acme, Json

CONSTANTS Fam,      \* family of scripts to enumerate
          Deep      \* FALSE: the quick selection of a family, TRUE: the thorough one

Base == [n |-> 1, bundle |-> FALSE, ops |-> <<"new", "register", "agree", "obtain">>,
         reg |-> "ok", agree |-> "ok", az |-> <<"ok">>, offer |-> <<"h">>, prov |-> <<"ok">>, ch |-> <<"valid">>,
         ch2 |-> <<>>, cert |-> "now", issuer |-> "ok", revoke |-> "ok", renew |-> "same",
         drop |-> {}, excl |-> {}, real |-> "mock", key |-> "ec", fam |-> Fam]

\* registration, agreement, nonce headers missing, both kinds of account key (one domain, sequential)
AcctAll ==
  {[Base EXCEPT !.reg = r, !.agree = a, !.drop = dr, !.key = k] :
      r \in {"ok", "err", "bn", "nonext", "badlink"}, a \in {"ok", "err", "bn"},
      dr \in {{}, {"new-reg"}, {"reg"}, {"new-reg", "reg", "new-authz", "chal", "new-cert"}} \cup
             (IF Deep THEN {{"head", "new-reg"}, {"head", "reg"}, {"dir"}, {"new-reg", "reg"}} ELSE {{"head", "reg"}}),
      k \in {"ec", "rsa"}}
  \cup {[Base EXCEPT !.drop = dr, !.ch = <<c>>, !.cert = ce] :
      dr \in {{"head", "new-authz"}, {"head", "chal"}, {"head", "new-reg", "reg"}, {"head", "new-reg", "reg", "new-authz"}},
      c \in {"valid", "p-valid"}, ce \in {"now", "d0-202"}}

Acct ==
  {sc \in AcctAll : Deep \/ sc.key = "ec" \/ (sc.reg = "ok" /\ sc.agree = "ok")}

\* challenges of one domain: offers, excluded solvers, the application's provider, validation outcomes
ChalQ ==
  {[Base EXCEPT !.offer = <<o>>, !.excl = x, !.prov = <<p>>, !.ch = <<c>>] :
      o \in {"h", "t", "ht", "h+t", "dh", "d", "nocombo"}, x \in {{}, {"http-01"}, {"tls-sni-01"}},
      p \in {"ok", "perr", "cerr"}, c \in {"valid", "pp-invalid"}}
  \cup {[Base EXCEPT !.offer = <<o>>, !.ch = <<c>>, !.drop = dr] :
      o \in {"h", "h+t"}, c \in {"valid", "invalid", "p-valid", "pp-invalid", "err", "bn", "revoked", "p-err"},
      dr \in {{}, {"chal"}}}
ChalD ==
  {[Base EXCEPT !.offer = <<o>>, !.excl = x, !.prov = <<p>>, !.ch = <<c>>, !.drop = dr] :
      o \in {"h", "t", "ht", "h+t", "dh", "d", "nocombo"}, x \in {{}, {"http-01"}, {"tls-sni-01"}, {"http-01", "tls-sni-01"}},
      p \in {"ok", "perr", "cerr"}, c \in {"valid", "invalid", "p-valid", "pp-invalid", "err", "bn", "revoked", "p-err"},
      dr \in {{}, {"chal"}}}

\* issuance, bundle, issuer link, then revoke / renew / a second obtain (issuer certificate cached)
Tails == {<<>>, <<"revoke">>, <<"renew">>, <<"obtain">>, <<"renew", "revoke">>}
CertAll ==
  {[Base EXCEPT !.n = nd, !.az = [d \in 1..nd |-> "ok"], !.offer = [d \in 1..nd |-> "h"], !.prov = [d \in 1..nd |-> "ok"],
                !.ch = [d \in 1..nd |-> "valid"],
                !.cert = ce, !.bundle = b, !.issuer = iss, !.ops = Base.ops \o tl, !.revoke = rv, !.renew = rn, !.drop = dr] :
      nd \in (IF Deep THEN {1, 2} ELSE {1}),
      ce \in {"now", "d0-202", "d1-202", "d1-200", "err", "bn"}, b \in BOOLEAN, iss \in {"ok", "err"},
      tl \in Tails, rv \in (IF Deep THEN {"ok", "err", "bn"} ELSE {"ok", "err"}), rn \in {"new", "same"},
      dr \in (IF Deep THEN {{}, {"new-cert"}} ELSE {{}})}
\* a dimension is varied only where the session can tell the difference
Has(sc, o) == \E j \in DOMAIN sc.ops : sc.ops[j] = o
CertF == {sc \in CertAll : (sc.revoke = "ok" \/ Has(sc, "revoke")) /\ (sc.renew = "same" \/ Has(sc, "renew")) /\ (sc.issuer = "ok" \/ sc.bundle)}

\* several domains: the authorizations are requested concurrently
PerDom == {<<"ok", "ok", "valid">>, <<"ok", "ok", "invalid">>, <<"ok", "perr", "valid">>, <<"err", "ok", "valid">>, <<"nonext", "ok", "valid">>}
          \cup (IF Deep THEN {<<"bn", "ok", "valid">>, <<"ok", "cerr", "p-valid">>} ELSE {})
MultiN(nd) ==
  {[Base EXCEPT !.n = nd, !.az = [d \in 1..nd |-> f[d][1]], !.prov = [d \in 1..nd |-> f[d][2]], !.ch = [d \in 1..nd |-> f[d][3]],
                !.offer = [d \in 1..nd |-> IF d = 2 THEN "ht" ELSE "h"], !.bundle = b, !.ops = Base.ops \o tl] :
      f \in [1..nd -> PerDom], b \in {nd = 2}, tl \in {<<>>}}
\* renewal of a certificate with several names where a later name fails
RenewN ==
  {[Base EXCEPT !.n = 2, !.az = <<"ok", a2>>, !.prov = <<"ok", "ok">>, !.ch = <<"valid", c2>>, !.offer = <<"h", "h">>,
                !.ops = <<"new", "register", "agree", "obtain", "renew">>, !.renew = rn, !.bundle = b] :
      a2 \in {"ok"}, c2 \in {"valid"}, rn \in {"new", "same"}, b \in BOOLEAN}
  \cup {[Base EXCEPT !.n = 2, !.az = <<"ok", "ok">>, !.prov = <<"ok", "ok">>, !.ch = <<"valid", "valid">>, !.ch2 = c2, !.offer = <<"h", "h">>,
                     !.ops = <<"new", "register", "agree", "obtain", "renew">>, !.renew = "same"] :
      c2 \in {<<"valid", "invalid">>, <<"invalid", "valid">>, <<"p-valid", "p-err">>}}
Multi == MultiN(2) \cup RenewN \cup (IF Deep THEN MultiN(3) ELSE {})

\* the package's own challenge servers, probed by the ACME server
Real ==
  {[Base EXCEPT !.n = nd, !.az = [d \in 1..nd |-> "ok"], !.prov = [d \in 1..nd |-> "ok"], !.ch = [d \in 1..nd |-> c],
                !.offer = [d \in 1..nd |-> o], !.real = r] :
      nd \in (IF Deep THEN {1, 2} ELSE {1}), c \in {"valid", "invalid", "p-valid"},
      r \in {"http", "tls"}, o \in (IF Deep THEN {"h", "t", "h+t"} ELSE {"ht"}) \cup {"h+t"}}

Tag(S, f) == {[sc EXCEPT !.fam = f] : sc \in S}
Family(f) == CASE f = "acct"  -> Acct
               [] f = "chal"  -> IF Deep THEN ChalD ELSE ChalQ
               [] f = "cert"  -> CertF
               [] f = "multi" -> Multi
               [] f = "real"  -> Real
Families == {"acct", "chal", "cert", "multi", "real"}

Scripts == CASE Fam \in Families -> Family(Fam)
             [] Fam = "all"   -> UNION {Tag(Family(f), f) : f \in Families}
             [] Fam = "one"   -> {Base}
             [] Fam = "dev2"  -> {[Base EXCEPT !.n = 2, !.az = <<"ok", "ok">>, !.prov = <<"ok", "ok">>, !.ch = <<"valid", c2>>,
                                               !.offer = <<"h", "h">>] : c2 \in {"valid", "pp-invalid"}}

MinOnly(S) == IF S = {} THEN {} ELSE {CHOOSE a \in S : \A b \in S : a <= b}

MCInit == \E sc \in Scripts : s = InitState(sc)
MCNext == \E ev \in Allowed(s) : s' = Apply(s, ev)
MCSpec == MCInit /\ [][MCNext]_s

\* generation: the script of every initial state
Emit == (s.op = "idle" /\ s.opi = 1 /\ s.nn = 0) => PrintT(<<"CASE", ToJson(s.sc)>>)

\* vacuity guards: some behaviour issues a certificate, some fails a domain
SomeCert == ~(s.ended /\ s.have # "none")
=============================================================================
