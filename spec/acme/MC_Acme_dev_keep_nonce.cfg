\* named deviation "keep-nonce": TLC must report NonceNeverReused violated
SPECIFICATION MCSpec
CONSTANTS
  Dev = {"keep-nonce"}
  Fam = "one"
  NonceChoice <- MinOnly
  Deep = FALSE
INVARIANTS TypeOK NonceNeverReused RespondWhilePresented CleanupAlways CertOnlyIfAllValid PollStops OutcomeExact
CHECK_DEADLOCK FALSE
