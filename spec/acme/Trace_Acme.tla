----------------------------- MODULE Trace_Acme -----------------------------
(* Trace validation (code -> model) for X04: is a recorded session of the    *)
(* real acme package against the scripted ACME server a behaviour of Acme?   *)
(*                                                                           *)
(* trace.ndjson: one event per line, sessions of one process one after the   *)
(* other, each opened by                                                     *)
(*   {"e":"reset","sess":k,"sc":{...the script...}}                          *)
(* followed by events {"e","a","d","c","n","rn","st","x", "q","why"} in the *)
(* order of their sequence number q (taken under one mutex by the server     *)
(* handlers, the provider callbacks and the goroutine that makes the API     *)
(* calls).  Every event is logged, so validation is linear: event k of a     *)
(* session is accepted iff it is in Allowed(s), then s' = Apply(s, event).   *)
(* The first event of a session that is not allowed is reported as           *)
(*   <<"REJECT", line, session, json of the set of allowed events>>          *)
(* and the rest of that session is skipped; a session cut short (no "end")   *)
(* is reported at the next reset / at the closing {"e":"eof"} line.          *)
(* POSTCONDITION prints <<"TRACE", lines consumed, lines, sessions>>.        *)
EXTENDS Acme, Json

VARIABLES i, skip, sess
tvars == <<s, i, skip, sess>>

Trace == TLCEval(ndJsonDeserialize("trace.ndjson"))

Range(f) == {f[j] : j \in DOMAIN f}
FixSc(sc) == [sc EXCEPT !.drop = Range(@), !.excl = Range(@)]
Norm(e) == Ev(e.e, e.a, e.d, e.c, e.n, e.rn, e.st, e.x)

Idle == [sc |-> [n |-> 0], ended |-> TRUE]

Unfinished == ~s.ended /\ ~skip
Report(line, k, what) == PrintT(<<"REJECT", line, k, what>>)

TInit == s = Idle /\ i = 1 /\ skip = FALSE /\ sess = 0 /\ TLCSet(1, 0) /\ TLCSet(2, 0)

TNext == /\ i <= Len(Trace)
         /\ LET e == Trace[i] IN
            IF e.e = "reset"
            THEN /\ (Unfinished => Report(i, sess, "\"session cut short\""))
                 /\ s' = InitState(FixSc(e.sc)) /\ skip' = FALSE /\ sess' = e.sess
                 /\ TLCSet(2, TLCGet(2) + 1)
            ELSE IF e.e = "eof"
            THEN /\ (Unfinished => Report(i, sess, "\"session cut short\""))
                 /\ s' = Idle /\ skip' = FALSE /\ sess' = 0
            ELSE IF skip THEN UNCHANGED <<s, skip, sess>>
            ELSE IF Norm(e) \in Allowed(s)
                 THEN s' = Apply(s, Norm(e)) /\ UNCHANGED <<skip, sess>>
                 ELSE /\ Report(i, sess, ToJson(Allowed(s)))
                      /\ skip' = TRUE /\ UNCHANGED <<s, sess>>
         /\ i' = i + 1
         /\ TLCSet(1, i)

TSpec == TInit /\ [][TNext]_tvars

Accepted == /\ (TLCGet(1) = Len(Trace) /\ Len(Trace) > 0 => TRUE)
            /\ PrintT(<<"TRACE", TLCGet(1), Len(Trace), TLCGet(2)>>)
=============================================================================
