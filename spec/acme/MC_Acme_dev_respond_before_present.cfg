\* named deviation "respond-before-present": TLC must report RespondWhilePresented violated
SPECIFICATION MCSpec
CONSTANTS
  Dev = {"respond-before-present"}
  Fam = "one"
  NonceChoice <- MinOnly
  Deep = FALSE
INVARIANTS TypeOK NonceNeverReused RespondWhilePresented CleanupAlways CertOnlyIfAllValid PollStops OutcomeExact
CHECK_DEADLOCK FALSE
