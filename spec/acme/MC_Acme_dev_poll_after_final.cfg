\* named deviation "poll-after-final": TLC must report PollStops violated
SPECIFICATION MCSpec
CONSTANTS
  Dev = {"poll-after-final"}
  Fam = "one"
  NonceChoice <- MinOnly
  Deep = FALSE
INVARIANTS TypeOK NonceNeverReused RespondWhilePresented CleanupAlways CertOnlyIfAllValid PollStops OutcomeExact
CHECK_DEADLOCK FALSE
