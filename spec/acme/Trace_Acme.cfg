\* run with -workers 1
SPECIFICATION TSpec
CONSTANTS
  Dev = {}
POSTCONDITION Accepted
CHECK_DEADLOCK FALSE
