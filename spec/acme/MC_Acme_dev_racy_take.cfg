\* named deviation "racy-take": TLC must report NonceNeverReused violated
SPECIFICATION MCSpec
CONSTANTS
  Dev = {"racy-take"}
  Fam = "dev2"
  NonceChoice <- MinOnly
  Deep = FALSE
INVARIANTS TypeOK NonceNeverReused RespondWhilePresented CleanupAlways CertOnlyIfAllValid PollStops OutcomeExact
CHECK_DEADLOCK FALSE
