------------------------------- MODULE Acme -------------------------------
(* X04 (extra): the ACME v1 client of https/acme (lego 2016) against an ACME *)
(* server.  Written from the protocol (draft-ietf-acme-acme-01) and from the  *)
(* package's documented API, shaped like the implementation: one step per     *)
(* request the client sends / per class of server response, per provider      *)
(* callback, per API call and return.                                         *)
(*                                                                            *)
(* A step is an EVENT, a record of one fixed shape                            *)
(*   [e, a, d, c, n, rn, st, x]                                               *)
(*   e  "call" | "http" | "cb" | "probe" | "ret" | "hang" | "end"             *)
(*   a  call/ret/hang: the API call; http: the resource; cb: present|cleanup; *)
(*      probe: right|wrong (Host header / SNI name used)                      *)
(*   d  domain (1..n, 0 = none)    c  challenge index within the authz (0 = none) *)
(*   n  number of the nonce in the JWS of a POST (0 = none / not one the      *)
(*      server issued)        rn number of the Replay-Nonce of the response   *)
(*   st class of the response / result                                        *)
(*   x  the fields of the request the specification fixes (tuple)             *)
(* The whole state is one record s; Allowed(s) is the set of events the       *)
(* specification allows next, Apply(s, ev) the state after it.  The server's  *)
(* choices are fixed by a script s.sc (chosen in Init): the server is the     *)
(* environment, TLC enumerates scripts.  Trace validation (Trace_Acme) asks   *)
(* `event \in Allowed(s)` for every recorded event: linear.                   *)
(*                                                                            *)
(* Dev is the set of named deviations switched on ({} = the specification);   *)
(* each deviation makes more events allowed, monitors (s.bad, s.nlog) and the *)
(* invariants below notice.                                                   *)
EXTENDS Naturals, Sequences, FiniteSets, TLC

CONSTANT Dev

VARIABLE s

Ev(e, a, d, c, n, rn, st, x) == [e |-> e, a |-> a, d |-> d, c |-> c, n |-> n, rn |-> rn, st |-> st, x |-> x]

---------------------------------------------------------------------------
(* The script: what the server (and the application's provider) will do.    *)
(*  n      number of domains of the certificate (domain d = d-th name)       *)
(*  ops    the API calls of the session, in order; a failed call ends it     *)
(*  reg    answer to new-reg: ok | err | bn (badNonce) | nonext (no "next"   *)
(*         link) | badlink (ok, plus a Link header without parameters)       *)
(*  agree  answer to reg (agreement): ok | err | bn                          *)
(*  az[d]  answer to new-authz: ok | err | bn | nonext                       *)
(*  offer[d] challenges and combinations of the authorization                *)
(*  prov[d]  the application's provider: ok | perr (Present fails) | cerr    *)
(*  ch[d]  how validation goes: valid | invalid | p-valid | pp-invalid |     *)
(*         err | bn | revoked | p-err   (p = one "pending" answer first)     *)
(*  ch2[d] the same for the second obtain of the session (<<>>: as ch)       *)
(*  cert   new-cert: now | d0-202 | d1-202 | d1-200 | err | bn               *)
(*  issuer GET of the "up" link: ok | err     revoke: ok | err | bn          *)
(*  renew  GET of the certificate URL: new (a renewed one) | same            *)
(*  drop   resources whose responses carry no Replay-Nonce header            *)
(*  excl   challenge types the application excluded (ExcludeChallenges)      *)
(*  real   mock | http | tls: which provider answers (the package's own      *)
(*         servers are probed by the ACME server)                            *)

Types == {"http-01", "tls-sni-01", "dns-01"}

Chs(o) == CASE o = "h" -> <<"http-01">>
            [] o = "t" -> <<"tls-sni-01">>
            [] o \in {"ht", "h+t"} -> <<"http-01", "tls-sni-01">>
            [] o = "dh" -> <<"dns-01", "http-01">>
            [] o = "d" -> <<"dns-01">>
            [] o = "nocombo" -> <<"http-01">>

Combos(o) == CASE o \in {"h", "t", "d"} -> <<{1}>>
               [] o \in {"ht", "dh"} -> <<{1}, {2}>>
               [] o = "h+t" -> <<{1, 2}>>
               [] o = "nocombo" -> <<>>

\* "combinations" is optional; without it the client completes all challenges
EffCombos(o) == IF Combos(o) = <<>> THEN <<1..Len(Chs(o))>> ELSE Combos(o)

Solvers(sc) == {"http-01", "tls-sni-01"} \ sc.excl

\* the challenges the client will solve for domain d: the first combination it can solve completely
Plan(sc, d) == LET o  == sc.offer[d]
                   cs == EffCombos(o)
                   I  == {j \in 1..Len(cs) : \A c \in cs[j] : Chs(o)[c] \in Solvers(sc)}
               IN IF I = {} THEN {} ELSE cs[CHOOSE j \in I : \A k \in I : j <= k]

\* the status in the answer to the challenge response (p = 0) and to the p-th poll
ChalAns(ch, p) == CASE ch \in {"valid", "invalid", "revoked"} -> ch
                    [] ch \in {"err", "bn"} -> "err"
                    [] ch = "p-valid" -> IF p = 0 THEN "pending" ELSE "valid"
                    [] ch = "pp-invalid" -> IF p <= 1 THEN "pending" ELSE "invalid"
                    [] ch = "p-err" -> IF p = 0 THEN "pending" ELSE "err"

CertAns0(k) == CASE k = "now" -> "cert" [] k \in {"err", "bn"} -> "err" [] OTHER -> "empty"
CertPoll(k, q) == CASE k = "d0-202" -> "cert"
                    [] k = "d1-202" -> IF q = 0 THEN "empty" ELSE "cert"
                    [] k = "d1-200" -> IF q = 0 THEN "empty" ELSE "cert200"
                    [] OTHER -> "err"

RECURSIVE SeqOfSet(_)
SeqOfSet(S) == IF S = {} THEN <<>> ELSE LET m == CHOOSE a \in S : \A b \in S : a <= b IN <<m>> \o SeqOfSet(S \ {m})

Doms(sc) == 1..sc.n
Names(sc) == [j \in 1..sc.n |-> j]

---------------------------------------------------------------------------
InitState(sc) ==
  [sc |-> sc,
   \* server
   nn |-> 0, used |-> {}, nlog |-> <<>>, acct |-> "none", valid |-> {},
   \* client: nonces it holds from POST / HEAD responses (pool) and from GET responses (spare: it may use or ignore them)
   pool |-> {}, spare |-> {}, recent |-> {}, heads |-> 0,
   \* session
   opi |-> 1, round |-> 0, op |-> "idle", dead |-> FALSE, ended |-> FALSE, inner |-> FALSE,
   ph |-> "-", err |-> FALSE,
   az |-> [d \in 1..sc.n |-> "none"], headfail |-> 0, failed |-> {},
   k |-> 0, todo |-> {}, cur |-> 0, cst |-> "-", polls |-> 0, ans |-> "-",
   presented |-> {}, certq |-> 0, cert |-> "none", have |-> "none", issuer |-> FALSE,
   bad |-> {}]

\* the second obtain of a session (a renewal) may go differently: ch2 (<<>> = as the first)
ChOf(t, d) == IF t.round > 1 /\ t.sc.ch2 # <<>> THEN t.sc.ch2[d] ELSE t.sc.ch[d]

Pending(t) == {d \in Doms(t.sc) : t.az[d] = "none"}
AuthzValid(t, d) == Plan(t.sc, d) # {} /\ \A c \in Plan(t.sc, d) : <<d, c>> \in t.valid

\* steps without an event: the end of the concurrent authorization phase, domains without a solvable combination
RECURSIVE Settle(_)
Settle(t) ==
  CASE t.ph = "authz" /\ Cardinality(Pending(t)) = t.headfail ->
         LET f == {d \in Doms(t.sc) : t.az[d] # "ok"} IN
         IF f # {} THEN [t EXCEPT !.failed = f, !.ph = "done"]
         ELSE Settle([t EXCEPT !.ph = "solve", !.k = 0, !.todo = {}, !.cur = 0, !.cst = "-"])
    [] t.ph = "solve" /\ t.cur = 0 /\ t.todo = {} ->
         IF t.k = t.sc.n
         THEN IF t.failed = {} \/ "cert-despite-invalid" \in Dev THEN [t EXCEPT !.ph = "cert"] ELSE [t EXCEPT !.ph = "done"]
         ELSE LET d == t.k + 1
                  p == Plan(t.sc, d) IN
              IF p = {} THEN Settle([t EXCEPT !.k = d, !.failed = @ \cup {d}])
              ELSE [t EXCEPT !.k = d, !.todo = p]
    [] OTHER -> t

---------------------------------------------------------------------------
(* Nonces.  Every response carries a fresh Replay-Nonce (unless the script   *)
(* drops the header for that resource); the server accepts a nonce once and  *)
(* only if it issued it.  The client takes a nonce it holds for every POST   *)
(* and fetches one with HEAD when it holds none.                             *)
Rn(t, a) == IF a \in t.sc.drop THEN 0 ELSE t.nn + 1

\* which of the nonces it holds the client takes is its own business (the package takes the newest); model checking
\* overrides NonceChoice with the smallest one (nonces are interchangeable: a symmetry reduction)
NonceChoice(S) == S
Nonces(t) == NonceChoice(t.pool \cup t.spare) \cup (IF "racy-take" \in Dev /\ t.ph = "authz" THEN t.recent ELSE {})

\* goroutines of the concurrent phase decide on a pool they saw earlier
Concurrent(t) == t.ph = "authz" /\ t.sc.n > 1

HeadEv(t) == IF t.pool = {} \/ (Concurrent(t) /\ t.heads < t.sc.n) THEN {Ev("http", "head", 0, 0, 0, Rn(t, "head"), "ok", <<TRUE>>)} ELSE {}
Posts(t, a, d, c, st, x) == {Ev("http", a, d, c, n, Rn(t, a), st, x) : n \in Nonces(t)}
Get(t, a, d, c, st) == {Ev("http", a, d, c, 0, Rn(t, a), st, <<TRUE>>)}

\* bookkeeping of one exchange: post = a JWS with nonce n was received; store = the client keeps the response's nonce
Net(t, post, n, rn, store) ==
  [t EXCEPT !.nn = IF rn # 0 THEN rn ELSE @,
            !.used = IF post THEN @ \cup {n} ELSE @,
            !.nlog = IF post THEN Append(@, n) ELSE @,
            !.recent = IF post /\ t.ph = "authz" THEN @ \cup {n} ELSE @,
            !.heads = IF ~post /\ store /\ t.ph = "authz" THEN @ + 1 ELSE @,
            !.pool = (IF post /\ "keep-nonce" \notin Dev THEN @ \ {n} ELSE @) \cup (IF store /\ rn # 0 THEN {rn} ELSE {}),
            !.spare = (IF post THEN @ \ {n} ELSE @) \cup (IF ~store /\ rn # 0 THEN {rn} ELSE {}),
            !.bad = IF post /\ (n \in t.used \/ n \notin 1..t.nn) THEN @ \cup {"nonce"} ELSE @]

---------------------------------------------------------------------------
(* The requests of the simple calls                                          *)
SimpleReq(t) ==
  CASE t.op = "register" -> [a |-> "new-reg", st |-> t.sc.reg, x |-> <<TRUE, TRUE, TRUE>>]
    [] t.op = "agree"    -> [a |-> "reg", st |-> t.sc.agree, x |-> <<TRUE, TRUE, TRUE, TRUE>>]
    [] t.op = "revoke"   -> [a |-> "revoke", st |-> t.sc.revoke, x |-> <<TRUE, TRUE, TRUE, TRUE>>]

\* x of a POST: <<JWS verifies under the account key and carries it as jwk, User-Agent, "resource" field right, ...>>
ChalX(t, d, c) == <<TRUE, TRUE, TRUE, Chs(t.sc.offer[d])[c], TRUE>>      \* ..., type, keyAuthorization = token "." thumbprint(account key)
CertX(t) == <<TRUE, TRUE, TRUE, Names(t.sc)>>                             \* ..., names of the CSR: CN first

ProbeRes(t, h, d, c) == IF <<d, c>> \in t.presented THEN (IF h = "right" THEN "ka" ELSE "other") ELSE "refused"
Probes(t) == IF t.sc.real = "mock" THEN {}
             ELSE {Ev("probe", h, d, c, 0, 0, ProbeRes(t, h, d, c), <<>>) : h \in {"right", "wrong"}, d \in Doms(t.sc), c \in 1..2}

RetOf(t) ==
  IF t.op \in {"obtain", "renew"}
  THEN Ev("ret", t.op, 0, 0, 0, 0, IF t.failed = {} THEN "ok" ELSE "err",
          <<IF t.op = "obtain" THEN SeqOfSet(t.failed) ELSE <<>>, IF t.failed = {} THEN t.cert ELSE "none", TRUE>>)
  ELSE Ev("ret", t.op, 0, 0, 0, 0, IF t.err THEN "err" ELSE "ok", <<<<>>, "none", TRUE>>)

CurD(t) == t.k

Allowed(t) ==
  IF t.ended THEN {}
  ELSE Probes(t) \cup
  (IF t.op = "idle"
   THEN IF t.dead \/ t.opi > Len(t.sc.ops) THEN {Ev("end", "", 0, 0, 0, 0, "", <<>>)}
        ELSE {Ev("call", t.sc.ops[t.opi], 0, 0, 0, 0, "", <<>>)}
   ELSE CASE t.ph = "done" -> {RetOf(t)}
          [] t.ph = "dir" -> Get(t, "dir", 0, 0, "ok")
          [] t.ph = "req" -> HeadEv(t) \cup Posts(t, SimpleReq(t).a, 0, 0, SimpleReq(t).st, SimpleReq(t).x)
          [] t.ph = "fetch" -> Get(t, "certget", 0, 0, t.sc.renew)
          [] t.ph = "authz" ->
               HeadEv(t) \cup UNION {Posts(t, "new-authz", d, 0, t.sc.az[d], <<TRUE, TRUE, TRUE>>) : d \in Pending(t)}
          [] t.ph = "solve" ->
               LET d == CurD(t) IN
               (CASE t.cur = 0 ->
                      {Ev("cb", "present", d, c, 0, 0, IF t.sc.prov[d] = "perr" THEN "err" ELSE "ok", <<TRUE>>) : c \in t.todo}
                      \cup (IF "respond-before-present" \in Dev
                            THEN UNION {Posts(t, "chal", d, c, ChalAns(ChOf(t, d), 0), ChalX(t, d, c)) : c \in t.todo} ELSE {})
                 [] t.cst = "early" ->
                      {Ev("cb", "present", d, t.cur, 0, 0, "ok", <<TRUE>>)}
                 [] t.cst = "presented" ->
                      HeadEv(t) \cup Posts(t, "chal", d, t.cur, ChalAns(ChOf(t, d), 0), ChalX(t, d, t.cur))
                 [] t.cst = "polling" ->
                      Get(t, "chalpoll", d, t.cur, ChalAns(ChOf(t, d), t.polls + 1))
                 [] t.cst = "final" ->
                      {Ev("cb", "cleanup", d, t.cur, 0, 0, IF t.sc.prov[d] = "cerr" THEN "err" ELSE "ok", <<TRUE>>)}
                      \cup (IF "poll-after-final" \in Dev /\ t.polls < 3
                            THEN Get(t, "chalpoll", d, t.cur, t.ans) ELSE {}))
          [] t.ph = "cert" -> HeadEv(t) \cup Posts(t, "new-cert", 0, 0, CertAns0(t.sc.cert), CertX(t))
          [] t.ph = "certpoll" -> Get(t, "certpoll", 0, 0, CertPoll(t.sc.cert, t.certq))
          [] t.ph = "issuer" -> Get(t, "issuer", 0, 0, t.sc.issuer))

---------------------------------------------------------------------------
GotCert(t) == IF t.sc.bundle /\ ~t.issuer THEN [t EXCEPT !.ph = "issuer", !.cert = "leaf"]
              ELSE [t EXCEPT !.ph = "done", !.cert = IF t.sc.bundle THEN "bundle" ELSE "leaf"]

StartObtain(t) == Settle([t EXCEPT !.ph = "authz", !.round = @ + 1, !.valid = {}, !.az = [d \in Doms(t.sc) |-> "none"], !.headfail = 0, !.failed = {},
                                   !.recent = {}, !.heads = 0, !.k = 0, !.todo = {}, !.cur = 0, !.cst = "-", !.cert = "none", !.certq = 0])

\* the outcome of the current challenge is known: st is the last status
Outcome(t, st) ==
  LET d  == CurD(t)
      t1 == [t EXCEPT !.ans = st,
                      !.valid = IF st = "valid" THEN @ \cup {<<d, t.cur>>} ELSE @,
                      !.failed = IF st = "valid" THEN @ ELSE @ \cup {d}]
  IN IF st # "valid" /\ "no-cleanup-on-fail" \in Dev
     THEN Settle([t1 EXCEPT !.cur = 0, !.cst = "-"])          \* the deviation: the failure path forgets CleanUp
     ELSE [t1 EXCEPT !.cst = "final"]

ApplyHttp(t, ev) ==
  LET post  == ev.n # 0 \/ ev.a \in {"new-reg", "reg", "revoke", "new-authz", "chal", "new-cert"}
      store == post \/ ev.a = "head"
      u     == Net(t, post, ev.n, ev.rn, store)
  IN CASE ev.a = "head" ->
            IF ev.rn # 0 THEN u
            ELSE \* no nonce to be had: the request that needed it is not sent, the call (or the domain) fails
              (CASE t.ph = "req"   -> [u EXCEPT !.ph = "done", !.err = TRUE]
                [] t.ph = "authz" -> Settle([u EXCEPT !.headfail = @ + 1])
                [] t.ph = "solve" -> Outcome(u, "err")
                [] t.ph = "cert"  -> [u EXCEPT !.ph = "done", !.failed = Doms(t.sc)])
       [] ev.a = "dir" -> [u EXCEPT !.ph = "done"]
       [] ev.a = "new-reg" -> [u EXCEPT !.ph = "done", !.err = ev.st \notin {"ok", "badlink"},
                                        !.acct = IF ev.st \in {"ok", "badlink", "nonext"} THEN "reg" ELSE @]
       [] ev.a = "reg" -> [u EXCEPT !.ph = "done", !.err = ev.st # "ok", !.acct = IF ev.st = "ok" THEN "agreed" ELSE @]
       [] ev.a = "revoke" -> [u EXCEPT !.ph = "done", !.err = ev.st # "ok"]
       [] ev.a = "certget" -> IF ev.st = "new" THEN GotCert(u) ELSE StartObtain(u)
       [] ev.a = "new-authz" -> Settle([u EXCEPT !.az[ev.d] = IF ev.st = "ok" THEN "ok" ELSE IF ev.st = "nonext" THEN "nonext" ELSE "fail"])
       [] ev.a = "chal" ->
            LET u1 == [u EXCEPT !.polls = 0,
                                !.bad = IF <<ev.d, ev.c>> \notin t.presented THEN @ \cup {"resp-before-present"} ELSE @] IN
            IF t.cur = 0      \* deviation respond-before-present: the Present call comes afterwards
            THEN [u1 EXCEPT !.cur = ev.c, !.todo = @ \ {ev.c}, !.cst = "early", !.ans = ev.st]
            ELSE IF ev.st = "pending" THEN [u1 EXCEPT !.cst = "polling"] ELSE Outcome(u1, ev.st)
       [] ev.a = "chalpoll" ->
            LET u1 == [u EXCEPT !.polls = @ + 1,
                                !.bad = IF t.cst = "final" THEN @ \cup {"poll-after-final"} ELSE @] IN
            IF t.cst = "final" THEN u1
            ELSE IF ev.st = "pending" THEN u1 ELSE Outcome(u1, ev.st)
       [] ev.a = "new-cert" ->
            LET u1 == [u EXCEPT !.bad = IF \E d \in Doms(t.sc) : ~AuthzValid(t, d) THEN @ \cup {"cert-without-valid"} ELSE @] IN
            (CASE ev.st = "cert"  -> GotCert(u1)
              [] ev.st = "empty" -> [u1 EXCEPT !.ph = "certpoll", !.certq = 0]
              [] OTHER           -> [u1 EXCEPT !.ph = "done", !.failed = Doms(t.sc)])
       [] ev.a = "certpoll" ->
            IF ev.st = "empty" THEN [u EXCEPT !.certq = @ + 1]
            ELSE IF ev.st \in {"cert", "cert200"} THEN GotCert(u)
            ELSE [u EXCEPT !.ph = "done", !.failed = Doms(t.sc)]
       [] ev.a = "issuer" -> [u EXCEPT !.ph = "done", !.cert = IF ev.st = "ok" THEN "bundle" ELSE "leaf",
                                       !.issuer = (ev.st = "ok")]

ApplyCb(t, ev) ==
  IF ev.a = "present"
  THEN IF t.cst = "early"
       THEN LET u == [t EXCEPT !.presented = @ \cup {<<ev.d, ev.c>>}] IN
            IF t.ans = "pending" THEN [u EXCEPT !.cst = "polling"] ELSE Outcome(u, t.ans)
       ELSE IF ev.st = "ok"
            THEN [t EXCEPT !.cur = ev.c, !.todo = @ \ {ev.c}, !.cst = "presented", !.presented = @ \cup {<<ev.d, ev.c>>}]
            ELSE Settle([t EXCEPT !.todo = @ \ {ev.c}, !.failed = @ \cup {ev.d}])
  ELSE Settle([t EXCEPT !.presented = @ \ {<<ev.d, ev.c>>}, !.cur = 0, !.cst = "-"])

ApplyCall(t, ev) ==
  LET u == [t EXCEPT !.op = ev.a, !.err = FALSE, !.inner = FALSE] IN
  CASE ev.a = "new" -> [u EXCEPT !.ph = "dir"]
    [] ev.a \in {"register", "agree", "revoke"} -> [u EXCEPT !.ph = "req"]
    [] ev.a = "obtain" -> StartObtain(u)
    [] ev.a = "renew" -> [u EXCEPT !.ph = "fetch", !.failed = {}, !.cert = "none"]

ApplyRet(t, ev) ==
  [t EXCEPT !.op = "idle", !.ph = "-", !.opi = @ + 1, !.dead = (ev.st # "ok"),
            !.have = IF ev.a \in {"obtain", "renew"} /\ ev.st = "ok" THEN t.cert ELSE @,
            !.bad = @ \cup (IF t.presented # {} THEN {"cleanup-missing"} ELSE {})
                      \cup (IF ev.a \in {"obtain", "renew"} /\ \A d \in Doms(t.sc) : t.az[d] = "ok"
                               /\ t.failed # Doms(t.sc) /\ t.failed # {dd \in Doms(t.sc) : ~AuthzValid(t, dd)}
                            THEN {"outcome-map"} ELSE {})]

Apply(t, ev) ==
  CASE ev.e = "call"  -> ApplyCall(t, ev)
    [] ev.e = "http"  -> ApplyHttp(t, ev)
    [] ev.e = "cb"    -> ApplyCb(t, ev)
    [] ev.e = "probe" -> t
    [] ev.e = "ret"   -> ApplyRet(t, ev)
    [] ev.e = "end"   -> [t EXCEPT !.ended = TRUE]

---------------------------------------------------------------------------
(* Properties *)
\* the server never receives the same nonce twice, nor one it did not issue
NonceNeverReused == /\ \A a, b \in DOMAIN s.nlog : a # b => s.nlog[a] # s.nlog[b]
                    /\ "nonce" \notin s.bad
\* no challenge response before the provider's Present returned (and the authorization exists)
RespondWhilePresented == "resp-before-present" \notin s.bad
\* CleanUp after the outcome, always: no call returns with something still presented
CleanupAlways == "cleanup-missing" \notin s.bad /\ (s.op = "idle" => s.presented = {})
\* new-cert only when every requested authorization is valid
CertOnlyIfAllValid == "cert-without-valid" \notin s.bad
\* polling stops on valid / invalid / error
PollStops == "poll-after-final" \notin s.bad
\* the returned map holds exactly the domains whose authorization did not become valid (or all, if issuance failed)
OutcomeExact == "outcome-map" \notin s.bad
\* the key authorization is served only between Present and CleanUp (by construction of ProbeRes; stated for the record)
ServedOnlyWhilePresented == \A d \in Doms(s.sc), c \in 1..2 : <<d, c>> \notin s.presented => ProbeRes(s, "right", d, c) = "refused"
\* a nonce the client holds was issued and is unused
PoolSound == "keep-nonce" \in Dev \/ (s.pool \cup s.spare) \subseteq (1..s.nn) \ s.used

TypeOK == /\ s.nn \in Nat /\ s.used \subseteq 1..s.nn
          /\ s.failed \subseteq Doms(s.sc) /\ s.cur \in 0..2
          /\ s.ph \in {"-", "dir", "req", "fetch", "authz", "solve", "cert", "certpoll", "issuer", "done"}
=============================================================================
