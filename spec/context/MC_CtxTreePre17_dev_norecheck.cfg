\* X02 non-vacuity: deviation "no-recheck" (cancel ignores err under the lock) must violate ClosedOnce
SPECIFICATION Spec
CONSTANTS
  NP = 2
  Calls = 1
  SetupNodes = 2
  MaxNodes = 2
  Deadlines = {}
  MaxNow = 1
  WithValues = FALSE
  Deviation = "no-recheck"
INVARIANTS TypeOK ClosedOnce
CHECK_DEADLOCK FALSE
