\* X02 non-vacuity: deviation "own-deadline" must violate DeadlineIsMin
SPECIFICATION Spec
CONSTANTS
  MaxNodes = 3
  Keys = {"k1"}
  Vals = {"v1"}
  Deadlines = {2, 3}
  Timeouts = {}
  MaxNow = 2
  Kinds = {"cancel", "deadline"}
  Deviation = "own-deadline"
INVARIANTS TypeOK DeadlineIsMin
CHECK_DEADLOCK FALSE
