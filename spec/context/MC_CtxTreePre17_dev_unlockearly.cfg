\* X02 non-vacuity: deviation "unlock-early" must violate LockedPropagation
SPECIFICATION Spec
CONSTANTS
  NP = 2
  Calls = 1
  SetupNodes = 2
  MaxNodes = 2
  Deadlines = {}
  MaxNow = 1
  WithValues = FALSE
  Deviation = "unlock-early"
INVARIANTS TypeOK LockedPropagation
CHECK_DEADLOCK FALSE
