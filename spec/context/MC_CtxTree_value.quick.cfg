\* X02 contract, value family: every tree of WithValue nodes over 2 keys x 2 values
SPECIFICATION Spec
CONSTANTS
  MaxNodes = 4
  Keys = {"k1", "k2"}
  Vals = {"v1", "v2"}
  Deadlines = {}
  Timeouts = {}
  MaxNow = 1
  Kinds = {"value"}
  Deviation = "none"
INVARIANTS Inv
PROPERTIES Sticky CancelExact Idempotent Immutable
CHECK_DEADLOCK FALSE
