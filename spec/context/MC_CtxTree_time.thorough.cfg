\* X02 contract, time family: deadlines before / at / after every instant, cancels and ticks in every order
SPECIFICATION Spec
CONSTANTS
  MaxNodes = 4
  Keys = {"k1"}
  Vals = {"v1"}
  Deadlines = {1, 2, 3}
  Timeouts = {1}
  MaxNow = 2
  Kinds = {"cancel", "deadline", "timeout", "value"}
  Deviation = "none"
INVARIANTS Inv
PROPERTIES Sticky CancelExact Idempotent Immutable
CHECK_DEADLOCK FALSE
