\* X02 non-vacuity: deviation "overwrite-err" must violate FirstCauseWins
SPECIFICATION Spec
CONSTANTS
  MaxNodes = 3
  Keys = {"k1"}
  Vals = {"v1"}
  Deadlines = {2, 3}
  Timeouts = {}
  MaxNow = 3
  Kinds = {"cancel", "deadline"}
  Deviation = "overwrite-err"
INVARIANTS TypeOK FirstCauseWins
CHECK_DEADLOCK FALSE
