SPECIFICATION Spec
CONSTANTS
  NP = 3
  Calls = 1
  SetupNodes = 4
  MaxNodes = 5
  Deadlines = {}
  MaxNow = 1
  WithValues = TRUE
  Deviation = "none"
INVARIANTS TypeOK ClosedOnce LockedPropagation LockOrder QDone QRegistry QTimers
PROPERTIES Sticky
CHECK_DEADLOCK TRUE
