\* X02 lock-level model of pre_go17.go: 3 goroutines, one call each (CancelFunc / WithCancel), every tree of the setup bound, every interleaving
SPECIFICATION Spec
CONSTANTS
  NP = 3
  Calls = 1
  SetupNodes = 4
  MaxNodes = 5
  Deadlines = {}
  MaxNow = 1
  WithValues = TRUE
  Deviation = "none"
INVARIANTS TypeOK ClosedOnce LockedPropagation LockOrder QDone QRegistry QTimers
PROPERTIES Sticky
CHECK_DEADLOCK TRUE
