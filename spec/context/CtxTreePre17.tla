---------------------------- MODULE CtxTreePre17 ----------------------------
(* X02, second module: the hand written cancellation tree of                   *)
(* /repo/https/net/context/pre_go17.go at the granularity of its mutexes, with *)
(* several goroutines calling CancelFuncs and constructors at the same time    *)
(* and the runtime's timer goroutines firing deadlines.                        *)
(*                                                                             *)
(* STATUS OF THE BINDING. On every Go >= 1.7 toolchain the file is excluded by *)
(* its constraint "+build !go1.7" (no flag can satisfy it), so no user of the  *)
(* library runs this code. This module is checked by TLC on its own. It is     *)
(* bound to the code only indirectly: checks/x02.py compiles the file with the *)
(* constraint line removed (go build -overlay) and replays the behaviours of   *)
(* CtxTree.tla (sequential contract, concurrent final states, registry sizes,  *)
(* race detector) on it; the interleavings explored HERE are not replayed.     *)
(*                                                                             *)
(* One action per critical section (transcribed from the source):              *)
(*   cancelCtx.cancel   Lock     : mu.Lock; err != nil -> Unlock, return;      *)
(*                                 err = cause; close(done)                    *)
(*                      Iter     : for child := range children: child.cancel   *)
(*                                 (false, err)   - holding mu -               *)
(*                      IterDone : children = nil; mu.Unlock                   *)
(*                      Rm       : removeChild: parent's mu.Lock; delete;      *)
(*                                 Unlock (only for cancel(true, ..))          *)
(*   timerCtx.cancel    the above on the embedded cancelCtx, then              *)
(*                      TStop    : mu.Lock; timer.Stop; timer = nil; Unlock    *)
(*   propagateCancel    Prop     : parent's mu.Lock; parent cancelled ->       *)
(*                                 child.cancel(false, p.err), else register   *)
(*                                 the child; Unlock                           *)
(*   WithDeadline       Prop, then cancel(true, DeadlineExceeded) if the       *)
(*                      deadline has passed, else                              *)
(*                      Arm      : mu.Lock; err == nil -> timer = AfterFunc;   *)
(*                                 Unlock                                      *)
(*   time.AfterFunc     Fire     : the timer goroutine of x calls              *)
(*                                 x.cancel(true, DeadlineExceeded)            *)
(* A thread is a goroutine: the user goroutines 1..NP, each making up to Calls *)
(* calls, and one timer goroutine per timerCtx. A tree of up to SetupNodes     *)
(* contexts is built first by one goroutine (every shape), then all run.       *)
EXTENDS Integers, Sequences, FiniteSets, TLC

CONSTANTS NP, Calls, SetupNodes, MaxNodes, Deadlines, MaxNow, WithValues,
          Deviation   \* "none" | "no-recheck": cancel does not look at err after taking the lock
                      \*        | "unlock-early": cancel releases the lock before it cancels the children

Nil      == "nil"
Canceled == "Canceled"
Exceeded == "DeadlineExceeded"
Free     == 0

VARIABLES
  node,    \* node[x] = [parent, kind, dl], kind in {"cancel", "deadline", "value"}; Background = 0
  err, closes, kids,
  mu,      \* mu[x]: the thread holding cancelCtx.mu of x, or Free
  pub,     \* pub[x]: propagateCancel has run (the context can be reached from its parent)
  timer,   \* timer[x]: "no" | "armed" | "fired" | "stopped"
  now,
  stk,     \* stk[t]: call stack of thread t (frames of cancel / constructor calls in progress)
  todo,    \* todo[p]: calls user goroutine p may still make
  phase,   \* "setup" | "run"
  hit      \* ghost: the cancel(true, cause) calls made so far, [n |-> context, c |-> cause]

vars == <<node, err, closes, kids, mu, pub, timer, now, stk, todo, phase, hit>>

N == Len(node)
Ids == 1..N
Procs == 1..NP
TimerT(x) == 100 + x
Threads == Procs \cup {TimerT(x) : x \in 1..MaxNodes}

IsCanceler(x) == x # 0 /\ node[x].kind \in {"cancel", "deadline"}
Cancelers == {x \in Ids : IsCanceler(x)}
RECURSIVE Owner(_)
Owner(x) == IF x = 0 THEN 0 ELSE IF IsCanceler(x) THEN x ELSE Owner(node[x].parent)
RECURSIVE Deadline(_)
Deadline(x) == IF x = 0 THEN -1 ELSE IF node[x].kind = "deadline" THEN node[x].dl ELSE Deadline(node[x].parent)
RECURSIVE AncSelf(_)
AncSelf(x) == IF x = 0 THEN {} ELSE {x} \cup AncSelf(node[x].parent)

Top(t)  == stk[t][Len(stk[t])]
Idle(t) == stk[t] = <<>>
Popped(t)      == [stk EXCEPT ![t] = SubSeq(@, 1, Len(@) - 1)]
Replaced(t, f) == [stk EXCEPT ![t] = [@ EXCEPT ![Len(@)] = f]]

CancelFrame(c, rm, cause) == [op |-> "cancel", c |-> c, rm |-> rm, cause |-> cause, st |-> "lock", iter |-> {}]

\* what follows the cancelCtx part of a cancel frame: removeChild, the timer, or return
After(f) == IF f.rm THEN "rm" ELSE IF node[f.c].kind = "deadline" THEN "tstop" ELSE "ret"
Continue(t, f, st) == IF st = "ret" THEN Popped(t) ELSE Replaced(t, [f EXCEPT !.st = st])

---------------------------------------------------------------------------
Lock(t) ==
  /\ ~Idle(t) /\ Top(t).op = "cancel" /\ Top(t).st = "lock"
  /\ LET f == Top(t) c == f.c IN
     /\ mu[c] = Free
     /\ IF err[c] # Nil /\ Deviation # "no-recheck"
        THEN \* already cancelled: Unlock, return (cancelCtx.cancel skips removeChild, timerCtx.cancel goes on)
             /\ stk' = Continue(t, f, IF node[c].kind = "deadline" THEN After(f) ELSE "ret")
             /\ UNCHANGED <<err, closes, mu>>
        ELSE /\ err' = [err EXCEPT ![c] = f.cause]
             /\ closes' = [closes EXCEPT ![c] = @ + 1]
             /\ mu' = [mu EXCEPT ![c] = IF Deviation = "unlock-early" THEN Free ELSE t]
             /\ stk' = Replaced(t, [f EXCEPT !.st = "iter", !.iter = kids[c]])
  /\ UNCHANGED <<node, kids, pub, timer, now, todo, phase, hit>>

Iter(t) ==
  /\ ~Idle(t) /\ Top(t).op = "cancel" /\ Top(t).st = "iter" /\ Top(t).iter # {}
  /\ LET f == Top(t)
         d == CHOOSE d \in f.iter : \A e \in f.iter : d <= e     \* map order is irrelevant to what is checked here
     IN stk' = [stk EXCEPT ![t] = Append([@ EXCEPT ![Len(@)] = [f EXCEPT !.iter = @ \ {d}]],
                                         CancelFrame(d, FALSE, f.cause))]
  /\ UNCHANGED <<node, err, closes, kids, mu, pub, timer, now, todo, phase, hit>>

IterDone(t) ==
  /\ ~Idle(t) /\ Top(t).op = "cancel" /\ Top(t).st = "iter" /\ Top(t).iter = {}
  /\ LET f == Top(t) IN
     /\ kids' = [kids EXCEPT ![f.c] = {}]
     /\ mu' = [mu EXCEPT ![f.c] = Free]
     /\ stk' = Continue(t, f, After(f))
  /\ UNCHANGED <<node, err, closes, pub, timer, now, todo, phase, hit>>

Rm(t) ==
  /\ ~Idle(t) /\ Top(t).op = "cancel" /\ Top(t).st = "rm"
  /\ LET f == Top(t) o == Owner(node[f.c].parent) IN
     /\ o # 0 => mu[o] = Free
     /\ kids' = IF o = 0 THEN kids ELSE [kids EXCEPT ![o] = @ \ {f.c}]
     /\ stk' = Continue(t, f, IF node[f.c].kind = "deadline" THEN "tstop" ELSE "ret")
  /\ UNCHANGED <<node, err, closes, mu, pub, timer, now, todo, phase, hit>>

TStop(t) ==
  /\ ~Idle(t) /\ Top(t).op = "cancel" /\ Top(t).st = "tstop"
  /\ LET f == Top(t) IN
     /\ mu[f.c] = Free
     /\ timer' = [timer EXCEPT ![f.c] = IF @ = "armed" THEN "stopped" ELSE @]
     /\ stk' = Popped(t)
  /\ UNCHANGED <<node, err, closes, kids, mu, pub, now, todo, phase, hit>>

\* propagateCancel(parent, x), and what WithDeadline does next
Prop(t) ==
  /\ ~Idle(t) /\ Top(t).op = "ctor" /\ Top(t).st = "prop"
  /\ LET f == Top(t) x == f.x o == Owner(node[x].parent) IN
     /\ mu[o] = Free
     /\ IF err[o] # Nil
        THEN /\ err' = [err EXCEPT ![x] = err[o]] /\ closes' = [closes EXCEPT ![x] = @ + 1] /\ kids' = kids
        ELSE /\ kids' = [kids EXCEPT ![o] = @ \cup {x}] /\ UNCHANGED <<err, closes>>
     /\ pub' = [pub EXCEPT ![x] = TRUE]
     /\ IF node[x].kind # "deadline" THEN stk' = Popped(t) /\ hit' = hit
        ELSE IF node[x].dl <= now
        THEN stk' = Replaced(t, CancelFrame(x, TRUE, Exceeded)) /\ hit' = hit \cup {[n |-> x, c |-> Exceeded]}
        ELSE stk' = Replaced(t, [f EXCEPT !.st = "arm"]) /\ hit' = hit
  /\ UNCHANGED <<node, mu, timer, now, todo, phase>>

Arm(t) ==
  /\ ~Idle(t) /\ Top(t).op = "ctor" /\ Top(t).st = "arm"
  /\ LET x == Top(t).x IN
     /\ mu[x] = Free
     /\ timer' = [timer EXCEPT ![x] = IF err[x] = Nil THEN "armed" ELSE @]
  /\ stk' = Popped(t)
  /\ UNCHANGED <<node, err, closes, kids, mu, pub, now, todo, phase, hit>>

Fire(x) ==
  /\ phase = "run" /\ x \in Ids /\ timer[x] = "armed" /\ now >= node[x].dl
  /\ timer' = [timer EXCEPT ![x] = "fired"]
  /\ stk' = [stk EXCEPT ![TimerT(x)] = <<CancelFrame(x, TRUE, Exceeded)>>]
  /\ hit' = hit \cup {[n |-> x, c |-> Exceeded]}
  /\ UNCHANGED <<node, err, closes, kids, mu, pub, now, todo, phase>>

---------------------------------------------------------------------------
(* the calls of a user goroutine *)

\* a context (and its CancelFunc) is in the program's hands once its constructor has returned
Building(x) == \E q \in Procs : ~Idle(q) /\
                 LET g == stk[q][1] IN \/ g.op = "ctor" /\ g.x = x
                                       \/ g.op = "cancel" /\ g.cause = Exceeded /\ g.c = x   \* WithDeadline expiring it
CanCall(p) == Idle(p) /\ todo[p] > 0 /\ (phase = "setup" => p = 1)
Spent(p)   == todo' = [todo EXCEPT ![p] = @ - 1]

NewNode(p, par, k, d) ==
  LET x == N + 1 o == Owner(par) IN
  /\ N < (IF phase = "setup" THEN SetupNodes ELSE MaxNodes)
  /\ ~Building(par)
  /\ node'   = Append(node, [parent |-> par, kind |-> k, dl |-> d])
  /\ err'    = Append(err, Nil)
  /\ closes' = Append(closes, 0)
  /\ kids'   = Append(kids, {})
  /\ mu'     = Append(mu, Free)
  /\ timer'  = Append(timer, "no")
  /\ IF k = "value" \/ (o = 0 /\ k = "cancel")
     THEN pub' = Append(pub, TRUE) /\ stk' = stk /\ hit' = hit        \* parent.Done() == nil: nothing to arrange
     ELSE IF o = 0
     THEN /\ pub' = Append(pub, TRUE)                                 \* timerCtx under Background
          /\ IF d <= now
             THEN stk' = [stk EXCEPT ![p] = <<CancelFrame(x, TRUE, Exceeded)>>] /\ hit' = hit \cup {[n |-> x, c |-> Exceeded]}
             ELSE stk' = [stk EXCEPT ![p] = <<[op |-> "ctor", x |-> x, st |-> "arm"]>>] /\ hit' = hit
     ELSE pub' = Append(pub, FALSE) /\ stk' = [stk EXCEPT ![p] = <<[op |-> "ctor", x |-> x, st |-> "prop"]>>] /\ hit' = hit
  /\ Spent(p)
  /\ UNCHANGED <<now, phase>>

CallWithCancel(p, par) == CanCall(p) /\ NewNode(p, par, "cancel", -1)
CallWithDeadline(p, par, d) ==
  /\ CanCall(p)
  /\ IF Deadline(par) # -1 /\ Deadline(par) < d THEN NewNode(p, par, "cancel", -1) ELSE NewNode(p, par, "deadline", d)
CallWithValue(p, par) == CanCall(p) /\ WithValues /\ phase = "setup" /\ NewNode(p, par, "value", -1)

CallCancel(p, c) ==
  /\ CanCall(p) /\ phase = "run" /\ IsCanceler(c) /\ pub[c]      \* the CancelFunc is in hand once the constructor returned
  /\ ~Building(c)
  /\ stk' = [stk EXCEPT ![p] = <<CancelFrame(c, TRUE, Canceled)>>]
  /\ hit' = hit \cup {[n |-> c, c |-> Canceled]}
  /\ Spent(p)
  /\ UNCHANGED <<node, err, closes, kids, mu, pub, timer, now, phase>>

Start ==
  /\ phase = "setup" /\ Idle(1) /\ N >= 1
  /\ phase' = "run"
  /\ todo' = [p \in Procs |-> Calls]
  /\ UNCHANGED <<node, err, closes, kids, mu, pub, timer, now, stk, hit>>

Tick ==
  /\ phase = "run" /\ now < MaxNow /\ now' = now + 1
  /\ UNCHANGED <<node, err, closes, kids, mu, pub, timer, stk, todo, phase, hit>>

Init ==
  /\ node = <<>> /\ err = <<>> /\ closes = <<>> /\ kids = <<>> /\ mu = <<>> /\ pub = <<>> /\ timer = <<>>
  /\ now = 1 /\ phase = "setup" /\ hit = {}
  /\ stk = [t \in Threads |-> <<>>]
  /\ todo = [p \in Procs |-> IF p = 1 THEN SetupNodes ELSE 0]

Quiescent == phase = "run" /\ \A t \in Threads : Idle(t)
Finished  == Quiescent /\ UNCHANGED vars      \* so that TLC's deadlock check reports real deadlocks only

Next ==
  \/ \E t \in Threads : Lock(t) \/ Iter(t) \/ IterDone(t) \/ Rm(t) \/ TStop(t) \/ Prop(t) \/ Arm(t)
  \/ \E x \in Ids : Fire(x)
  \/ \E p \in Procs, par \in 0..N :
        \/ CallWithCancel(p, par)
        \/ \E d \in Deadlines : CallWithDeadline(p, par, d)
        \/ CallWithValue(p, par)
  \/ \E p \in Procs, c \in Ids : CallCancel(p, c)
  \/ Start \/ Tick \/ Finished

Spec == Init /\ [][Next]_vars

---------------------------------------------------------------------------
TypeOK ==
  /\ \A x \in Ids : /\ node[x].parent \in 0..(x - 1)
                    /\ err[x] \in {Nil, Canceled, Exceeded}
                    /\ mu[x] \in Threads \cup {Free}
                    /\ kids[x] \subseteq Cancelers
                    /\ timer[x] \in {"no", "armed", "fired", "stopped"}
  /\ now \in 1..MaxNow

\* close(done) happens once: a second close would panic
ClosedOnce == \A x \in Cancelers : closes[x] = IF err[x] = Nil THEN 0 ELSE 1

\* whoever finds a cancelled context unlocked finds every reachable child cancelled
LockedPropagation == \A x \in Cancelers :
  err[x] # Nil /\ mu[x] = Free =>
    \A d \in Cancelers : pub[d] /\ Owner(node[d].parent) = x => err[d] # Nil

\* a thread that waits for a lock holds only locks of strict ancestors of the context it waits for: no cycle
Waits(t) == IF Idle(t) THEN 0
            ELSE LET f == Top(t) IN
                 IF f.op = "cancel" /\ f.st \in {"lock", "tstop"} THEN f.c
                 ELSE IF f.op = "cancel" /\ f.st = "rm" THEN Owner(node[f.c].parent)
                 ELSE IF f.op = "ctor" /\ f.st = "prop" THEN Owner(node[f.x].parent)
                 ELSE IF f.op = "ctor" /\ f.st = "arm" THEN f.x ELSE 0
LockOrder == \A t \in Threads : \A x \in Ids :
  mu[x] = t /\ Waits(t) # 0 => x \in AncSelf(Waits(t)) \ {Waits(t)}

\* when every call has returned, the tree is in a state of the sequential contract
QDone == Quiescent => \A x \in Cancelers :
  /\ (err[x] # Nil) <=> \E h \in hit : h.n \in AncSelf(x)
  /\ err[x] # Nil => \E h \in hit : h.n \in AncSelf(x) /\ h.c = err[x]
QRegistry == Quiescent => \A x \in Cancelers :
  /\ mu[x] = Free
  /\ kids[x] = IF err[x] # Nil THEN {}
               ELSE {d \in Cancelers : err[d] = Nil /\ Owner(node[d].parent) = x}
\* no timer is left armed on a cancelled context
QTimers == Quiescent => \A x \in Ids : err[x] # Nil => timer[x] # "armed"

Inv == TypeOK /\ ClosedOnce /\ LockedPropagation /\ LockOrder /\ QDone /\ QRegistry /\ QTimers

Sticky == [][\A x \in Ids : err[x] # Nil => err'[x] = err[x]]_vars
=============================================================================
