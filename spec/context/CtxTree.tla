------------------------------ MODULE CtxTree ------------------------------
(* X02 (extra check, no listed property): the contract of the context package *)
(* fork /repo/https/net/context - a tree of contexts under Background with    *)
(* cancellation, deadlines and values.                                         *)
(*                                                                             *)
(* Shaped like the implementation (the hand written pre-go1.7 tree and the     *)
(* standard library's, which the go1.7+ build delegates to, have this shape):  *)
(*   - one action per public call: WithCancel, WithDeadline, WithTimeout,      *)
(*     WithValue, the CancelFunc (Cancel), and Tick for the passage of time    *)
(*     (the runtime timers of every armed timerCtx whose deadline is reached); *)
(*   - every cancelCtx / timerCtx has its own err, done channel and registry   *)
(*     of children (kids = cancelCtx.children, filled by propagateCancel with  *)
(*     the nearest canceler below a chain of valueCtx: parentCancelCtx);       *)
(*     cancel walks the registries downwards (Reach);                          *)
(*   - valueCtx has no state: Done / Err / Deadline delegate to the parent.    *)
(* The observers Done, Err, Deadline, Value are operators on the state.        *)
(*                                                                             *)
(* The contract is stated independently of that mechanism, through the parent  *)
(* pointers (AncSelf) and ghost variables seq / evt that remember which        *)
(* context was cancelled by its CancelFunc or reached its own deadline, and in *)
(* which order: FirstCauseWins, DoneIff, DeadlineIsMin, ValueNearest,          *)
(* ClosedOnce, DownwardClosed, RegistryClean and the action properties Sticky, *)
(* CancelExact, Idempotent.                                                    *)
(*                                                                             *)
(* Cancel and Tick are atomic here: this is the sequential contract, which     *)
(* the replayer binds to the real package step by step. The lock-level model   *)
(* of the hand written tree, with concurrent cancelling goroutines, is         *)
(* CtxTreePre17.tla.                                                           *)
EXTENDS Integers, Sequences, FiniteSets, TLC

CONSTANTS
  MaxNodes,    \* contexts besides Background
  Keys, Vals,  \* WithValue arguments
  Deadlines,   \* abstract instants usable as deadlines
  Timeouts,    \* abstract durations usable with WithTimeout
  MaxNow,      \* time runs from 1 to MaxNow
  Kinds,       \* constructors in play: subset of {"cancel", "deadline", "timeout", "value"}
  Deviation    \* "none", or a named wrong behaviour:
               \*   "no-grandchildren": cancel reaches the registered children but not theirs
               \*   "overwrite-err"   : a later cause overwrites the Err of a context that is already done
               \*   "own-deadline"    : WithDeadline arms its own, later deadline although the parent's is earlier

Nil      == "nil"
Canceled == "Canceled"
Exceeded == "DeadlineExceeded"
NoDl     == -1
NoVal    == "none"
NoEvt    == [s |-> 0, c |-> Nil]

VARIABLES
  node,    \* node[x] = [parent, kind, dl, key, val, req]; x in 1..Len(node); Background is 0. Never changes.
  err,     \* err[x]: own error of a canceler ("cancel"/"deadline" kind), Nil until cancelled
  closes,  \* closes[x]: how many times the done channel of x has been closed
  kids,    \* kids[x]: cancelers registered with canceler x (cancelCtx.children)
  now,     \* current instant
  seq, evt \* ghosts: evt[x] = first direct event on x (its CancelFunc called / its own timer due), s = order

vars == <<node, err, closes, kids, now, seq, evt>>

N == Len(node)
Ids == 1..N

---------------------------------------------------------------------------
(* Observers, parameterised by the state they look at (the generator needs   *)
(* them on the primed state).                                                *)

IsCancelerIn(nd, x) == x # 0 /\ nd[x].kind \in {"cancel", "deadline"}

RECURSIVE OwnerIn(_, _)   \* parentCancelCtx: nearest canceler at or above x; 0 = none, never cancelled
OwnerIn(nd, x) == IF x = 0 THEN 0 ELSE IF IsCancelerIn(nd, x) THEN x ELSE OwnerIn(nd, nd[x].parent)

ErrIn(nd, er, x) == IF OwnerIn(nd, x) = 0 THEN Nil ELSE er[OwnerIn(nd, x)]

\* "never": Done() is the nil channel; "open" / "closed"
DoneIn(nd, er, x) == IF OwnerIn(nd, x) = 0 THEN "never"
                     ELSE IF er[OwnerIn(nd, x)] = Nil THEN "open" ELSE "closed"

RECURSIVE DeadlineIn(_, _)   \* the deadline of the nearest timerCtx at or above x
DeadlineIn(nd, x) == IF x = 0 THEN NoDl
                     ELSE IF nd[x].kind = "deadline" THEN nd[x].dl ELSE DeadlineIn(nd, nd[x].parent)

RECURSIVE ValueIn(_, _, _)   \* valueCtx.Value: own key, else ask the parent
ValueIn(nd, x, k) == IF x = 0 THEN NoVal
                     ELSE IF nd[x].kind = "value" /\ nd[x].key = k THEN nd[x].val
                     ELSE ValueIn(nd, nd[x].parent, k)

IsCanceler(x) == IsCancelerIn(node, x)
Owner(x)      == OwnerIn(node, x)
Err(x)        == ErrIn(node, err, x)
Done(x)       == DoneIn(node, err, x)
Deadline(x)   == DeadlineIn(node, x)
Value(x, k)   == ValueIn(node, x, k)
Cancelers     == {x \in Ids : IsCanceler(x)}

---------------------------------------------------------------------------
(* cancel: walk the registries downwards *)

RECURSIVE Reach(_, _)
Reach(c, depth) ==
  IF err[c] # Nil THEN {}                      \* already cancelled: cancel returns at once
  ELSE {c} \cup (IF Deviation = "no-grandchildren" /\ depth >= 1 THEN {}
                 ELSE UNION {Reach(d, depth + 1) : d \in kids[c]})

\* cancel(true, cause) on every context of S
Apply(S, cause) ==
  LET R == UNION {Reach(c, 0) : c \in S}
      O == IF Deviation = "overwrite-err" THEN S \ R ELSE {}
  IN /\ err'    = [x \in Ids |-> IF x \in R \cup O THEN cause ELSE err[x]]
     /\ closes' = [x \in Ids |-> IF x \in R THEN closes[x] + 1 ELSE closes[x]]
     /\ kids'   = [x \in Ids |-> IF x \in R THEN {} ELSE kids[x] \ S]   \* children = nil; removeChild

---------------------------------------------------------------------------
(* constructors *)

\* a new cancelCtx (k = "cancel") or timerCtx (k = "deadline", deadline d) below p; req = the deadline asked for
NewCanceler(p, k, d, req) ==
  LET x         == N + 1
      o         == Owner(p)
      inherited == Err(p)                         \* propagateCancel: parent already cancelled
      expired   == k = "deadline" /\ d <= now     \* deadline has already passed
      e         == IF inherited # Nil THEN inherited ELSE IF expired THEN Exceeded ELSE Nil
  IN /\ N < MaxNodes
     /\ node'   = Append(node, [parent |-> p, kind |-> k, dl |-> d, key |-> NoVal, val |-> NoVal, req |-> req])
     /\ err'    = Append(err, e)
     /\ closes' = Append(closes, IF e = Nil THEN 0 ELSE 1)
     /\ kids'   = Append(IF o # 0 /\ e = Nil THEN [kids EXCEPT ![o] = @ \cup {x}] ELSE kids, {})
     /\ evt'    = Append(evt, IF expired THEN [s |-> seq + 1, c |-> Exceeded] ELSE NoEvt)
     /\ seq'    = IF expired THEN seq + 1 ELSE seq
     /\ UNCHANGED now

WithCancel(p) == NewCanceler(p, "cancel", NoDl, NoDl)

WithDeadline(p, d) ==
  IF Deadline(p) # NoDl /\ Deadline(p) < d /\ Deviation # "own-deadline"
  THEN NewCanceler(p, "cancel", NoDl, d)     \* the current deadline is already sooner than the new one
  ELSE NewCanceler(p, "deadline", d, d)

WithTimeout(p, t) == WithDeadline(p, now + t)

WithValue(p, k, v) ==
  /\ N < MaxNodes
  /\ node'   = Append(node, [parent |-> p, kind |-> "value", dl |-> NoDl, key |-> k, val |-> v, req |-> NoDl])
  /\ err'    = Append(err, Nil)
  /\ closes' = Append(closes, 0)
  /\ kids'   = Append(kids, {})
  /\ evt'    = Append(evt, NoEvt)
  /\ UNCHANGED <<now, seq>>

---------------------------------------------------------------------------
(* the CancelFunc of c, and time *)

Cancel(c) ==
  /\ IsCanceler(c)
  /\ Apply({c}, Canceled)
  /\ evt' = IF evt[c] = NoEvt THEN [evt EXCEPT ![c] = [s |-> seq + 1, c |-> Canceled]] ELSE evt
  /\ seq' = IF evt[c] = NoEvt THEN seq + 1 ELSE seq
  /\ UNCHANGED <<node, now>>

Due(t) == {x \in Ids : node[x].kind = "deadline" /\ node[x].dl = t}

Tick ==
  /\ now < MaxNow
  /\ now' = now + 1
  /\ Apply(Due(now + 1), Exceeded)
  /\ evt' = [x \in Ids |-> IF x \in Due(now + 1) /\ evt[x] = NoEvt THEN [s |-> seq + 1, c |-> Exceeded] ELSE evt[x]]
  /\ seq' = seq + 1
  /\ UNCHANGED node

Init ==
  /\ node = <<>> /\ err = <<>> /\ closes = <<>> /\ kids = <<>> /\ evt = <<>>
  /\ now = 1 /\ seq = 0

Construct ==
  \E p \in 0..N :
     \/ "cancel" \in Kinds /\ WithCancel(p)
     \/ "deadline" \in Kinds /\ \E d \in Deadlines : WithDeadline(p, d)
     \/ "timeout" \in Kinds /\ \E t \in Timeouts : WithTimeout(p, t)
     \/ "value" \in Kinds /\ \E k \in Keys, v \in Vals : WithValue(p, k, v)

Next == Construct \/ (\E c \in Ids : Cancel(c)) \/ Tick

Spec == Init /\ [][Next]_vars

---------------------------------------------------------------------------
(* The contract, stated through the parent pointers only *)

RECURSIVE AncSelf(_)
AncSelf(x) == IF x = 0 THEN {} ELSE {x} \cup AncSelf(node[x].parent)

Desc(c) == {x \in Ids : c \in AncSelf(x)}          \* the subtree of c, c included

SetMin(S) == CHOOSE a \in S : \A b \in S : a <= b
SetMax(S) == CHOOSE a \in S : \A b \in S : a >= b

TypeOK ==
  /\ N <= MaxNodes /\ Len(err) = N /\ Len(closes) = N /\ Len(kids) = N /\ Len(evt) = N
  /\ \A x \in Ids : /\ node[x].parent \in 0..(x - 1)
                    /\ node[x].kind \in {"cancel", "deadline", "value"}
                    /\ err[x] \in {Nil, Canceled, Exceeded}
                    /\ kids[x] \subseteq Cancelers
  /\ now \in 1..MaxNow

\* Done is closed exactly once: never twice, and closed iff Err is not nil
ClosedOnce == \A x \in Cancelers : closes[x] = IF err[x] = Nil THEN 0 ELSE 1

\* Err is nil unless a context on the path to the root had an event (CancelFunc called, own timer due);
\* then it is the cause of the earliest of those events: first cause wins
Events(x) == {evt[a] : a \in {b \in AncSelf(x) : evt[b] # NoEvt}}
Expected(x) == IF Events(x) = {} THEN Nil
               ELSE (CHOOSE e \in Events(x) : \A f \in Events(x) : e.s <= f.s).c
FirstCauseWins == \A x \in Cancelers : err[x] = Expected(x)

\* a context is done iff it or an ancestor was cancelled or has a requested deadline that is reached
DoneIff == \A x \in Ids :
  (Done(x) = "closed") <=> \E a \in AncSelf(x) : evt[a] # NoEvt \/ (node[a].req # NoDl /\ node[a].req <= now)

\* DeadlineExceeded is only ever reported when a deadline on the path is reached; Canceled only after a CancelFunc
CauseHonest == \A x \in Ids :
  /\ Err(x) = Exceeded => \E a \in AncSelf(x) : node[a].req # NoDl /\ node[a].req <= now
  /\ Err(x) = Canceled => \E a \in AncSelf(x) : evt[a].c = Canceled

\* Deadline() is the minimum of the deadlines requested on the path to the root
Reqs(x) == {node[a].req : a \in {b \in AncSelf(x) : node[b].req # NoDl}}
DeadlineIsMin == \A x \in Ids : Deadline(x) = IF Reqs(x) = {} THEN NoDl ELSE SetMin(Reqs(x))

\* Value(k) is the binding of the nearest ancestor-or-self that binds k (ids grow along a path)
Binders(x, k) == {a \in AncSelf(x) : node[a].kind = "value" /\ node[a].key = k}
ValueNearest == \A x \in Ids : \A k \in Keys :
  Value(x, k) = IF Binders(x, k) = {} THEN NoVal ELSE node[SetMax(Binders(x, k))].val

\* every descendant of a done context is done
DownwardClosed == \A x \in Ids : node[x].parent # 0 /\ Done(node[x].parent) = "closed" => Done(x) = "closed"

\* the registries hold live cancelers only (removeChild / children = nil): nothing leaks
RegistryClean == \A x \in Cancelers :
  /\ \A d \in kids[x] : err[d] = Nil /\ Owner(node[d].parent) = x
  /\ err[x] # Nil => kids[x] = {}
\* and every live canceler below a canceler is registered with it: cancellation can reach it
RegistryComplete == \A d \in Cancelers :
  err[d] = Nil /\ Owner(node[d].parent) # 0 => d \in kids[Owner(node[d].parent)]

Inv == /\ TypeOK /\ ClosedOnce /\ FirstCauseWins /\ DoneIff /\ CauseHonest /\ DeadlineIsMin
       /\ ValueNearest /\ DownwardClosed /\ RegistryClean /\ RegistryComplete

(* action properties *)

\* Err never changes once it is not nil
Sticky == [][\A x \in Ids : err[x] # Nil => err'[x] = err[x]]_vars

\* the CancelFunc of c changes exactly the live part of c's subtree: every descendant, no ancestor, no sibling
CancelExact == [][\A c \in Ids : Cancel(c) =>
                    \A x \in Ids : (err'[x] # err[x]) <=> (x \in Desc(c) /\ IsCanceler(x) /\ err[x] = Nil)]_vars

\* calling a CancelFunc again changes nothing
Idempotent == [][\A c \in Ids : Cancel(c) /\ err[c] # Nil => UNCHANGED <<err, closes, kids>>]_vars

\* contexts are immutable but for cancellation; time does not run backwards
Immutable == [][/\ \A x \in Ids : node'[x] = node[x]
                /\ now' >= now]_vars
=============================================================================
