\* X02 contract, cancel family: WithCancel / WithValue trees, every interleaving of CancelFunc calls, no time
SPECIFICATION Spec
CONSTANTS
  MaxNodes = 4
  Keys = {"k1"}
  Vals = {"v1"}
  Deadlines = {}
  Timeouts = {}
  MaxNow = 1
  Kinds = {"cancel", "value"}
  Deviation = "none"
INVARIANTS Inv
PROPERTIES Sticky CancelExact Idempotent Immutable
CHECK_DEADLOCK FALSE
