\* X02 non-vacuity: deviation "no-grandchildren" must violate DownwardClosed
SPECIFICATION Spec
CONSTANTS
  MaxNodes = 3
  Keys = {"k1"}
  Vals = {"v1"}
  Deadlines = {}
  Timeouts = {}
  MaxNow = 1
  Kinds = {"cancel", "value"}
  Deviation = "no-grandchildren"
INVARIANTS TypeOK DownwardClosed
CHECK_DEADLOCK FALSE
