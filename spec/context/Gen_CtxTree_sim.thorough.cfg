\* X02 behaviour generation, seeded random behaviours (tlc -simulate), all calls in play
INIT BInit
NEXT SNext
CONSTANTS
  Fams <- FamsSim14
  MaxNodes = 6
  MaxNow = 3
  Keys = {"k1", "k2"}
  Vals = {"v1", "v2"}
  Deadlines = {}
  Timeouts = {}
  Kinds = {}
  Deviation = "none"
INVARIANTS Emit TypeOK ParOrderFree
CHECK_DEADLOCK FALSE
