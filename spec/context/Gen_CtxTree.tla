---------------------------- MODULE Gen_CtxTree ----------------------------
(* Behaviour generation for X02: behaviours of CtxTree (constructor / cancel / *)
(* tick steps), each step with the specification's Done / Err / Deadline /     *)
(* Value of EVERY context after the step.                                      *)
(*                                                                             *)
(* A family fixes the calls in play and the length; the exhaustive configs     *)
(* enumerate every behaviour of every family (BNext), the simulation configs   *)
(* draw seeded random ones (SNext: the class of the next call - construct,     *)
(* cancel, tick - is drawn first, so cancels and ticks are as frequent as      *)
(* constructors although there are fewer of them).                             *)
(*                                                                             *)
(* Concurrent families: after fam.seq sequential steps the remaining steps are *)
(* "par" steps (cancel an existing canceler, derive a child from an existing   *)
(* context); the replayer runs them from one goroutine each, at the same time. *)
(* ParOrderFree states why that is meaningful: the state after the par steps   *)
(* is a function of the SET of par steps (cancellation commutes), so the last  *)
(* step's expectation is the expectation for every schedule.                   *)
EXTENDS CtxTree, Json

CONSTANT Fams
VARIABLES hist, fam, phase, cls, n0, pre
gvars == <<vars, hist, fam, phase, cls, n0, pre>>

AllOps == {"cancelctx", "deadline", "timeout", "value", "cancel", "tick"}

\* ---- families (substituted for Fams by the configs)
F(name, ops, depth, seqd, dls, tos, keys, vals) ==
  [name |-> name, ops |-> ops, depth |-> depth, seq |-> seqd, dls |-> dls, tos |-> tos, keys |-> keys, vals |-> vals]

\* now = 1 at the start: deadline 0, 1 = already passed; 2, 3 = reached by a tick; 9 = never reached
FamCancel5   == F("cancel", {"cancelctx", "cancel"}, 5, 5, {}, {}, {"k1"}, {"v1"})
FamCancelV4  == F("cancelv", {"cancelctx", "value", "cancel"}, 4, 4, {}, {}, {"k1"}, {"v1"})
FamTime3     == F("time", {"cancelctx", "deadline", "timeout", "cancel", "tick"}, 3, 3, {1, 2, 9}, {0, 1}, {"k1"}, {"v1"})
FamTime4     == F("time4", {"cancelctx", "deadline", "cancel", "tick"}, 4, 4, {1, 2, 9}, {}, {"k1"}, {"v1"})
FamValue3    == F("value", {"value"}, 3, 3, {}, {}, {"k1", "k2"}, {"v1", "v2"})
FamValue4    == F("value4", {"value", "cancelctx"}, 4, 4, {}, {}, {"k1", "k2"}, {"v1", "v2"})
FamCancel6   == F("cancel6", {"cancelctx", "cancel"}, 6, 6, {}, {}, {"k1"}, {"v1"})
FamsQuick    == {FamCancel5, FamTime3, FamValue3}
FamsThorough == {FamCancel6, FamCancelV4, FamTime4, FamTime3, FamValue4}

FamSim(depth) == F("sim", AllOps, depth, depth, {0, 1, 2, 3, 9}, {-1, 0, 1, 2, 8}, {"k1", "k2"}, {"v1", "v2"})
FamsSim10 == {FamSim(10)}
FamsSim14 == {FamSim(14)}

\* concurrent: 3 sequential steps then 3 par steps (exhaustive), or 6 + 5 (simulation)
FamConcX   == F("conc", {"cancelctx", "cancel"}, 6, 3, {}, {}, {"k1"}, {"v1"})
FamConcSim(s, p) == F("concsim", {"cancelctx", "deadline", "value", "cancel", "tick"}, s + p, s, {1, 2, 9}, {}, {"k1"}, {"v1"})
FamConcV   == F("concv", {"cancelctx", "value", "cancel"}, 5, 3, {}, {}, {"k1"}, {"v1"})
FamConcX4  == F("conc4", {"cancelctx", "cancel"}, 7, 3, {}, {}, {"k1"}, {"v1"})
FamsConcQuick    == {FamConcX}
FamsConcThorough == {FamConcX4, FamConcV}
FamsConcSimQ  == {FamConcSim(6, 5)}
FamsConcSimT  == {FamConcSim(7, 8)}

\* ---- the observation of every context after the step
ObsP(x) == [done |-> DoneIn(node', err', x), err |-> ErrIn(node', err', x), dl |-> DeadlineIn(node', x),
            vals |-> [k \in fam.keys |-> ValueIn(node', x, k)],
            kids |-> IF IsCancelerIn(node', x) THEN Cardinality(kids'[x]) ELSE 0]
ObsAll  == [i \in 1..(Len(node') + 1) |-> ObsP(i - 1)]
InPar   == Len(hist) >= fam.seq                   \* the step being taken is a par step
Rec(r)  == hist' = Append(hist, r @@ [now |-> now', par |-> InPar, obs |-> ObsAll])

\* par steps refer to contexts that exist when the par phase starts
N0     == IF Len(hist) = fam.seq THEN N ELSE n0   \* contexts existing when the par phase starts
Old(x) == ~InPar \/ x <= N0
Snap == IF Len(hist) = fam.seq /\ fam.seq < fam.depth
        THEN n0' = N /\ pre' = err ELSE UNCHANGED <<n0, pre>>

Has(o) == o \in fam.ops

GCtorOp(o) ==
  /\ N < MaxNodes
  /\ \E p \in 0..N :
      /\ Old(p)
      /\ CASE o = "cancelctx" -> WithCancel(p) /\ Rec([op |-> "cancelctx", p |-> p, x |-> N + 1])
           [] o = "deadline"  -> ~InPar /\ \E d \in fam.dls :
                                   WithDeadline(p, d) /\ Rec([op |-> "deadline", p |-> p, d |-> d, x |-> N + 1])
           [] o = "timeout"   -> ~InPar /\ \E t \in fam.tos :
                                   WithTimeout(p, t) /\ Rec([op |-> "timeout", p |-> p, d |-> now + t, x |-> N + 1])
           [] o = "value"     -> \E k \in fam.keys, v \in fam.vals :
                                   WithValue(p, k, v) /\ Rec([op |-> "value", p |-> p, k |-> k, v |-> v, x |-> N + 1])
CtorOps == {"cancelctx", "deadline", "timeout", "value"}
GCtor   == \E o \in CtorOps \cap fam.ops : GCtorOp(o)
GCancel == Has("cancel") /\ \E c \in Cancelers : Old(c) /\ Cancel(c) /\ Rec([op |-> "cancel", c |-> c])
GTick   == Has("tick") /\ ~InPar /\ Tick /\ Rec([op |-> "tick"])

Running == phase = "run" /\ Len(hist) < fam.depth
Finish  == phase = "run" /\ Len(hist) = fam.depth /\ phase' = "emit" /\ UNCHANGED <<vars, hist, fam, cls, n0, pre>>

BInit == Init /\ hist = <<>> /\ fam \in Fams /\ phase = "run" /\ cls = "" /\ n0 = 0 /\ pre = <<>>

\* exhaustive
BNext == \/ Running /\ (GCtor \/ GCancel \/ GTick) /\ Snap /\ UNCHANGED <<fam, phase, cls>>
         \/ Finish

\* simulation: draw the call, then its arguments ("cancel2" = "cancel": cancels twice as likely)
ClassOn(c) == CASE c \in CtorOps            -> Has(c) /\ N < MaxNodes /\ (InPar => c \in {"cancelctx", "value"})
                [] c \in {"cancel", "cancel2"} -> Has("cancel") /\ \E x \in Cancelers : Old(x)
                [] c = "tick"               -> Has("tick") /\ ~InPar /\ now < MaxNow
SNext == \/ /\ Running /\ cls = ""
            /\ cls' \in {c \in CtorOps \cup {"cancel", "cancel2", "tick"} : ClassOn(c)}
            /\ UNCHANGED <<vars, hist, fam, phase, n0, pre>>
         \/ /\ Running /\ cls # "" /\ cls' = ""
            /\ (CASE cls \in CtorOps -> GCtorOp(cls) [] cls \in {"cancel", "cancel2"} -> GCancel [] cls = "tick" -> GTick)
            /\ Snap /\ UNCHANGED <<fam, phase>>
         \/ Finish

Emit == phase = "emit" =>
  PrintT(<<"CASE", ToJson([fam |-> fam.name, seq |-> fam.seq, keys |-> fam.keys, steps |-> hist])>>)

\* ---- cancellation commutes: during the par phase the state is a function of the set of par steps
ParTargets == {hist[i].c : i \in {j \in (fam.seq + 1)..Len(hist) : hist[j].op = "cancel"}}
Base(x) == IF x <= n0 THEN pre[x]
           ELSE IF Owner(node[x].parent) = 0 THEN Nil ELSE pre[Owner(node[x].parent)]
ParOrderFree ==
  Len(hist) > fam.seq =>
    \A x \in Cancelers :
      err[x] = IF Base(x) # Nil THEN Base(x)
               ELSE IF AncSelf(x) \cap ParTargets # {} THEN Canceled ELSE Nil
=============================================================================
