SPECIFICATION Spec
CONSTANTS
  NP = 3
  Calls = 1
  SetupNodes = 3
  MaxNodes = 3
  Deadlines = {}
  MaxNow = 1
  WithValues = FALSE
  Deviation = "none"
INVARIANTS TypeOK ClosedOnce LockedPropagation LockOrder QDone QRegistry QTimers
PROPERTIES Sticky
CHECK_DEADLOCK TRUE
