\* X02 contract, time family: deadlines before / at / after every instant, cancels and ticks in every order
SPECIFICATION Spec
CONSTANTS
  MaxNodes = 3
  Keys = {"k1"}
  Vals = {"v1"}
  Deadlines = {1, 2, 3}
  Timeouts = {}
  MaxNow = 3
  Kinds = {"cancel", "deadline"}
  Deviation = "none"
INVARIANTS Inv
PROPERTIES Sticky CancelExact Idempotent Immutable
CHECK_DEADLOCK FALSE
