SPECIFICATION Spec
CONSTANTS
  MaxNodes = 3
  Keys = {"k1"}
  Vals = {"v1"}
  Deadlines = {1, 2, 3, 4}
  Timeouts = {1}
  MaxNow = 3
  Kinds = {"cancel", "deadline", "timeout"}
  Deviation = "none"
INVARIANTS Inv
PROPERTIES Sticky CancelExact Idempotent Immutable
CHECK_DEADLOCK FALSE
