\* X02 concurrent cases, seeded random: sequential prefix (with deadlines and ticks) then par steps
INIT BInit
NEXT SNext
CONSTANTS
  Fams <- FamsConcSimQ
  MaxNodes = 8
  MaxNow = 2
  Keys = {"k1", "k2"}
  Vals = {"v1", "v2"}
  Deadlines = {}
  Timeouts = {}
  Kinds = {}
  Deviation = "none"
INVARIANTS Emit TypeOK ParOrderFree
CHECK_DEADLOCK FALSE
