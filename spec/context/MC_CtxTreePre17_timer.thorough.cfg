\* X02 lock-level model of pre_go17.go with timerCtx: goroutines + timer goroutines + ticks, every interleaving
SPECIFICATION Spec
CONSTANTS
  NP = 3
  Calls = 1
  SetupNodes = 2
  MaxNodes = 3
  Deadlines = {2}
  MaxNow = 2
  WithValues = FALSE
  Deviation = "none"
INVARIANTS TypeOK ClosedOnce LockedPropagation LockOrder QDone QRegistry QTimers
PROPERTIES Sticky
CHECK_DEADLOCK TRUE
