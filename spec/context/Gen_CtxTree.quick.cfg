\* X02 behaviour generation, exhaustive families (every behaviour of each family to its depth)
INIT BInit
NEXT BNext
CONSTANTS
  Fams <- FamsQuick
  MaxNodes = 6
  MaxNow = 2
  Keys = {"k1", "k2"}
  Vals = {"v1", "v2"}
  Deadlines = {}
  Timeouts = {}
  Kinds = {}
  Deviation = "none"
INVARIANTS Emit TypeOK ParOrderFree
CHECK_DEADLOCK FALSE
