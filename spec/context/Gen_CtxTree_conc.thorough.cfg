\* X02 concurrent cases, exhaustive: 3 sequential steps then par steps
INIT BInit
NEXT BNext
CONSTANTS
  Fams <- FamsConcThorough
  MaxNodes = 7
  MaxNow = 1
  Keys = {"k1", "k2"}
  Vals = {"v1", "v2"}
  Deadlines = {}
  Timeouts = {}
  Kinds = {}
  Deviation = "none"
INVARIANTS Emit TypeOK ParOrderFree
CHECK_DEADLOCK FALSE
