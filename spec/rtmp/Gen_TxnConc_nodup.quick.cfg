SPECIFICATION GenSpec
CONSTANTS
  Reqs <- Reqs3
  Dups = {}
  FailIdx = {}
  RegisterFirst = TRUE
INVARIANTS NoSpurious MatchOnce NoLoss Emit
CHECK_DEADLOCK FALSE
