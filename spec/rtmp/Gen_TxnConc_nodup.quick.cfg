SPECIFICATION GenSpec
CONSTANTS
  Reqs <- Reqs3
  Parts <- P111
  RegAfter <- RegFirst
  Dups = {}
  LookupAtomic = TRUE
  FailIdx = {}
INVARIANTS NoSpurious MatchOnce NoLoss Emit
CHECK_DEADLOCK FALSE
