SPECIFICATION Spec
CONSTANTS
  Dirs = {"B"}
  ChunkSizes = {}
  Shapes <- PairShapes
  AbsLens = {1, 129}
  RelLens = FALSE
  MaxWrites = 2
  WriterFollowsOwnSCS = TRUE
  HsOrder = "serial"
  HsReadExact = TRUE
  ScsSids = {0}
  ReaderScsAnySid = TRUE
  LazyFlushTypes = {}
  NoSharedState = TRUE
INVARIANTS NoDesync Emit
CHECK_DEADLOCK FALSE
