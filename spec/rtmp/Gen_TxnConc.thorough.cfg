SPECIFICATION GenSpec
CONSTANTS
  Reqs <- Reqs3
  Parts <- P111
  RegAfter <- RegFirst
  KeyOf <- IdKey
  Dups = {3}
  LookupAtomic = TRUE
  FailIdx = {}
INVARIANTS NoSpurious MatchOnce NoLoss RightType Emit
CHECK_DEADLOCK FALSE
