SPECIFICATION GenSpec
CONSTANTS
  Reqs <- Reqs3
  Dups = {3}
  RegisterFirst = TRUE
INVARIANTS NoSpurious MatchOnce NoLoss Emit
CHECK_DEADLOCK FALSE
