SPECIFICATION Spec
CONSTANTS
  Packets <- McPackets
  Dev = "none"
INVARIANTS FieldsSurvive LayoutAgrees SizeIsBytes ArrivesAsDefined DecodedSizeIsPayload RemarshalIsPayload
CHECK_DEADLOCK FALSE
