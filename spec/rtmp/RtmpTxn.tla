------------------------------ MODULE RtmpTxn ------------------------------
(* Request/response matching of one RTMP endpoint A talking to a peer          *)
(* (sequential histories, C03).  A remembers the requests it sent (connect,    *)
(* createStream) by transaction id; a _result arriving from the peer is        *)
(* decoded as the response type of the remembered request and forgets it; a    *)
(* _result nobody asked for is an error.  Typed waits consume the traffic      *)
(* before the packet (or message) they wait for.                               *)
(* One action per public call of the library: WritePacket (ASend),             *)
(* ReadMessage+DecodeMessage (ARecv), ExpectPacket (AExpectPkt),               *)
(* ExpectMessage (AExpectMsg); PSend is the peer writing.                      *)
EXTENDS RtmpPacket, FiniteSets, TLC

CONSTANTS
  Requests,    \* packets A may send
  PeerItems,   \* what the peer may send: [i |-> "pkt", p |-> packet] or [i |-> "media", type |-> 8/9, n |-> len, id |-> id]
  WaitKinds,   \* packet kinds A may wait for
  WaitTypes,   \* message types A may wait for
  MaxPeer,     \* the peer sends at most this many items, all before A's first call (the transport
               \* buffers them, so their timing relative to A's calls is irrelevant in a sequential history)
  MaxOps,      \* number of calls A makes
  DeleteOnMatch, \* TRUE: a matched request is forgotten (the property); FALSE: named deviation "lookup without delete"
  WaitDecodes    \* TRUE: a typed packet wait decodes every message it passes over (the property: a skipped _result is matched
                 \* exactly once, an unsolicited one fails the wait); FALSE: named deviation "wait skips undecoded": waiting
                 \* for a control packet type, messages of another message type are dropped without being decoded

VARIABLES pending,   \* set of <<tid, name>>: requests sent and not yet answered
          inbox,     \* items sent by the peer and not yet consumed by A
          hist,      \* the behaviour so far, with the expected outcome of every step
          reg, matched, \* per tid: how often registered / matched (for MatchOnce)
          seen, refused \* per tid: responses taken from the stream by a packet-level call (ReadMessage+DecodeMessage,
                        \* ExpectPacket) / of those, the ones answered with an error (for EveryResponseJudged)
vars == <<pending, inbox, hist, reg, matched, seen, refused>>

Init == /\ pending = {} /\ inbox = <<>> /\ hist = <<>> /\ reg = [t \in Tids |-> 0] /\ matched = [t \in Tids |-> 0]
        /\ seen = [t \in Tids |-> 0] /\ refused = [t \in Tids |-> 0]

NameOf(pend, tid) == IF \E x \in pend : x[1] = tid THEN (CHOOSE x \in pend : x[1] = tid)[2] ELSE "none"
IsResult(p) == p.k \in {"connectRes", "createStreamRes"}
\* the body of a response decodes as the response type of the request only if it has that shape
ShapeOk(p, name) == (p.k = "connectRes" /\ name = "connect") \/ (p.k = "createStreamRes" /\ name = "createStream")

\* decoding one packet at A: <<outcome, pending'>>; outcome is the Go type name or "error"
DecodePkt(p, pend) ==
  IF IsResult(p)
  THEN LET name == NameOf(pend, p.tid)
           pend2 == IF DeleteOnMatch THEN {x \in pend : x[1] # p.tid} ELSE pend
       IN IF name = "none" THEN <<"error", pend>>
          ELSE IF ShapeOk(p, name) THEN <<KindOf(p, name), pend2>>
          ELSE <<"error", pend2>>          \* looked up and forgotten, then the body does not fit
  ELSE <<KindOf(p, "none"), pend>>

ASend(p) ==
  /\ p \in Requests
  /\ pending' = IF Registers(p) THEN {x \in pending : x[1] # p.tid} \cup {<<p.tid, ReqName(p)>>} ELSE pending
  /\ reg' = IF Registers(p) THEN [reg EXCEPT ![p.tid] = @ + 1] ELSE reg
  /\ hist' = Append(hist, [op |-> "send", p |-> p, pending |-> pending'])
  /\ UNCHANGED <<inbox, matched, seen, refused>>

PSend(it) ==
  /\ it \in PeerItems
  /\ inbox' = Append(inbox, it)
  /\ \A k \in 1..Len(hist) : hist[k].op = "peer"
  /\ Len(hist) < MaxPeer
  /\ hist' = Append(hist, [op |-> "peer", it |-> it])
  /\ UNCHANGED <<pending, reg, matched, seen, refused>>

Bump(p, out) == IF IsResult(p) /\ out # "error" THEN [matched EXCEPT ![p.tid] = @ + 1] ELSE matched
Bump2(mt, p, out) == IF IsResult(p) /\ out # "error" THEN [mt EXCEPT ![p.tid] = @ + 1] ELSE mt
See(f, p)    == IF IsResult(p) THEN [f EXCEPT ![p.tid] = @ + 1] ELSE f
Refuse(f, p, out) == IF IsResult(p) /\ out = "error" THEN [f EXCEPT ![p.tid] = @ + 1] ELSE f

\* ReadMessage + DecodeMessage of the next packet
ARecv ==
  /\ inbox # <<>> /\ Head(inbox).i = "pkt"
  /\ LET p == Head(inbox).p
         d == DecodePkt(p, pending)
     IN /\ pending' = d[2]
        /\ matched' = Bump(p, d[1])
        /\ seen' = See(seen, p) /\ refused' = Refuse(refused, p, d[1])
        /\ hist' = Append(hist, [op |-> "recv", out |-> d[1], pending |-> d[2]])
  /\ inbox' = Tail(inbox)
  /\ UNCHANGED reg

\* WritePacket of a request whose answer arrives - and is read and decoded by A's reader - while the request's
\* bytes are still being handed to the transport (the peer is fast, the writer has not returned yet)
ASendInline(p, it) ==
  /\ p \in Requests /\ Registers(p) /\ it \in PeerItems /\ it.i = "pkt" /\ IsResult(it.p)
  /\ inbox = <<>>
  /\ LET pend1 == {x \in pending : x[1] # p.tid} \cup {<<p.tid, ReqName(p)>>}
         d == DecodePkt(it.p, pend1)
     IN /\ pending' = d[2]
        /\ reg' = [reg EXCEPT ![p.tid] = @ + 1]
        /\ matched' = Bump(it.p, d[1])
        /\ seen' = See(seen, it.p) /\ refused' = Refuse(refused, it.p, d[1])
        /\ hist' = Append(hist, [op |-> "send_inline", p |-> p, it |-> it, out |-> d[1], pending |-> d[2]])
  /\ UNCHANGED inbox

\* ExpectPacket(kind): decode everything on the way; stop at the first packet of that kind or at the first error.
\* c = [pending, matched, seen, refused] as the wait proceeds.
ControlKinds == {"SetChunkSize", "UserControl", "WindowAcknowledgementSize", "SetPeerBandwidth"}
MsgTypeOfKind(kind) == CASE kind = "SetChunkSize" -> 1 [] kind = "UserControl" -> 4 [] kind = "WindowAcknowledgementSize" -> 5
                         [] kind = "SetPeerBandwidth" -> 6 [] OTHER -> 20
\* the deviation: this message is passed over without being looked at
SkippedUndecoded(p, kind) == ~WaitDecodes /\ kind \in ControlKinds /\ MsgType(p) # MsgTypeOfKind(kind)
RECURSIVE Scan(_, _, _, _)
Scan(inb, c, kind, n) ==
  IF inb = <<>> THEN [res |-> "blocked", n |-> n, c |-> c]
  ELSE IF Head(inb).i # "pkt" THEN [res |-> "media", n |-> n, c |-> c]
  ELSE LET p == Head(inb).p IN
       IF SkippedUndecoded(p, kind) THEN Scan(Tail(inb), [c EXCEPT !.seen = See(@, p)], kind, n + 1)
       ELSE LET d == DecodePkt(p, c.pending)
                c2 == [pending |-> d[2], matched |-> Bump2(c.matched, p, d[1]), seen |-> See(c.seen, p), refused |-> Refuse(c.refused, p, d[1])]
            IN IF d[1] = "error" THEN [res |-> "error", n |-> n + 1, c |-> c2]
               ELSE IF d[1] = kind THEN [res |-> "ok", n |-> n + 1, c |-> c2, p |-> p]
               ELSE Scan(Tail(inb), c2, kind, n + 1)

AExpectPkt(kind) ==
  /\ kind \in WaitKinds
  /\ LET s == Scan(inbox, [pending |-> pending, matched |-> matched, seen |-> seen, refused |-> refused], kind, 0) IN
     /\ s.res \in {"ok", "error"}        \* otherwise the call would block / meets media, outside the property
     /\ pending' = s.c.pending /\ matched' = s.c.matched /\ seen' = s.c.seen /\ refused' = s.c.refused
     /\ inbox' = SubSeq(inbox, s.n + 1, Len(inbox))
     /\ hist' = Append(hist, [op |-> "expectpkt", kind |-> kind, out |-> s.res, consumed |-> s.n, pending |-> s.c.pending,
                              tid |-> IF s.res = "ok" /\ IsResult(s.p) THEN s.p.tid ELSE <<>>])
  /\ UNCHANGED reg

\* ExpectMessage(type): first message of that type, nothing decoded, nothing matched
TypeOfItem(it) == IF it.i = "pkt" THEN MsgType(it.p) ELSE it.type
AExpectMsg(ty) ==
  /\ ty \in WaitTypes
  /\ \E k \in 1..Len(inbox) :
       /\ TypeOfItem(inbox[k]) = ty /\ \A j \in 1..(k - 1) : TypeOfItem(inbox[j]) # ty
       /\ inbox' = SubSeq(inbox, k + 1, Len(inbox))
       /\ hist' = Append(hist, [op |-> "expectmsg", type |-> ty, consumed |-> k, it |-> inbox[k], pending |-> pending])
  /\ UNCHANGED <<pending, reg, matched, seen, refused>>

NOps == Cardinality({k \in 1..Len(hist) : hist[k].op # "peer"})
Next == /\ NOps < MaxOps
        /\ \/ \E p \in Requests : ASend(p)
           \/ \E p \in Requests, it \in PeerItems : ASendInline(p, it)
           \/ \E it \in PeerItems : PSend(it)
           \/ ARecv
           \/ \E k \in WaitKinds : AExpectPkt(k)
           \/ \E t \in WaitTypes : AExpectMsg(t)
Spec == Init /\ [][Next]_vars

\* every registered request is matched by at most one response
MatchOnce == \A t \in Tids : matched[t] <= reg[t]
\* every response a packet-level call took from the stream was either matched to its request or answered with an error:
\* none is passed over unjudged (its request would stay outstanding and a later duplicate would be accepted; an
\* unsolicited one would go unnoticed)
EveryResponseJudged == \A t \in Tids : seen[t] = matched[t] + refused[t]
\* at most one remembered request per transaction id
OnePerTid == \A x, y \in pending : x[1] = y[1] => x = y
Done == NOps = MaxOps
=============================================================================
