SPECIFICATION Spec
CONSTANTS
  Dirs = {"A", "B"}
  ChunkSizes <- AgreeSizes
  Shapes <- HeaderShapes
  AbsLens = {1, 300, 65535, 65536}
  RelLens = TRUE
  MaxWrites = 10
  WriterFollowsOwnSCS = TRUE
  HsOrder = "serial"
  HsReadExact = TRUE
  ScsSids <- SidClasses
  ReaderScsAnySid = TRUE
  LazyFlushTypes = {}
  NoSharedState = TRUE
INVARIANTS NoDesync Emit
CHECK_DEADLOCK FALSE
