SPECIFICATION Spec
CONSTANTS
  Dirs = {"A", "B"}
  ChunkSizes <- BidirSizes
  Shapes <- OneShape
  AbsLens = {1, 300}
  RelLens = FALSE
  MaxWrites = 4
  WriterFollowsOwnSCS = TRUE
INVARIANTS NoDesync PrefixOk InFollowsOut Independent AllDelivered
PROPERTY AppendOnly
CHECK_DEADLOCK FALSE
