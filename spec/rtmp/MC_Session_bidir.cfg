SPECIFICATION Spec
CONSTANTS
  Dirs = {"A", "B"}
  ChunkSizes <- BidirSizes
  Shapes <- OneShape
  AbsLens = {1, 300}
  RelLens = FALSE
  MaxWrites = 4
  WriterFollowsOwnSCS = TRUE
  HsOrder = "serial"
  HsReadExact = TRUE
  ScsSids = {0}
  ReaderScsAnySid = TRUE
  LazyFlushTypes = {}
  NoSharedState = TRUE
INVARIANTS NoDesync PrefixOk InFollowsOut Independent AllDelivered HandshakeBytes HsExact NoByteLost SessionAfterHandshake
PROPERTY AppendOnly
CHECK_DEADLOCK FALSE
