SPECIFICATION Spec
CONSTANTS
  Msgs <- LibMsgs
  DataCids = {5}
  MaxMsgs = 3
  Fmts = {0, 1, 2, 3}
  AllForms = TRUE
  Atomic = TRUE
  FollowSCS = TRUE
  ExtDelta = TRUE
  Violations = {}
  LibrtmpPing = FALSE
  TopBits = FALSE
INVARIANTS Emit
CHECK_DEADLOCK FALSE
