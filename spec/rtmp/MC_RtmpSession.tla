-------------------------- MODULE MC_RtmpSession --------------------------
EXTENDS RtmpSession, TLC, Json
OneShape   == {[type |-> 8, sid |-> 1, ts |-> 0]}
AgreeSizes == {1, 127, 128, 129, 4096, 2147483647}
TsClasses  == {0, 16777214, 16777215, 16777216, 2147483647}
SidClasses == {0, 1, 16777217}
\* every message type RTMP 1.0 defines (Set Chunk Size, type 1, is ScsMsg): protocol control 2..6, 7, audio, video,
\* AMF3/AMF0 data, shared object, command, aggregate
AllTypes   == {2, 3, 4, 5, 6, 7, 8, 9, 15, 16, 17, 18, 19, 20, 22}
HeaderShapes == {[type |-> t, sid |-> s, ts |-> x] : t \in AllTypes, s \in SidClasses, x \in TsClasses}
\* the ctl family: a protocol-control message of every type on every stream-id class, before and behind long messages
CtlShapes  == {[type |-> t, sid |-> s, ts |-> 0] : t \in 2..6, s \in SidClasses} \cup OneShape
CtlSizes   == {1, 127, 4096}
PairShapes == {[type |-> t, sid |-> 1, ts |-> x] : t \in {8, 9}, x \in TsClasses}
BidirSizes == {1, 128, 4096}

\* MC with HsOrder = "free": the history variables are left out of the fingerprint, every interleaving is still taken
NoHistory == <<hsw, hsr, put, took, rdoff, out, inn, wire, held, sent, got, desync>>

\* GEN with HsOrder = "free": one schedule per class of schedules that differ only in the order of neighbouring
\* steps of different endpoints that do not see each other (two writes, or two handshake reads): of those, the
\* client's step comes first.  What a read finds in the transport is the same for the whole class.
IsWrite(k) == k \in {"W", "m"}
Canonical == Len(sched) < 2 \/
  LET x == sched[Len(sched) - 1]
      y == sched[Len(sched)] IN
  ~(x.e = "B" /\ y.e = "A" /\ IsWrite(x.k) = IsWrite(y.k))
\* the session reads are not part of a case (the replayer chooses when to read): take them after the last write only
ReadsLast == NWrites = MaxWrites \/ \A e \in E : got[e] = <<>>

\* GEN: a finished behaviour is printed once, as the sequence of writes with the writer's
\* chunk size after each of them (InFollowsOut makes that the reader's size after reading it)
\* and the schedule: the handshake calls of both endpoints and the session writes in the order they happened,
\* with the byte counters of the acting endpoint after each of them
Emit == Done => PrintT(<<"CASE", ToJson([steps |-> hist, sched |-> sched])>>)
=============================================================================
