-------------------------- MODULE MC_RtmpSession --------------------------
EXTENDS RtmpSession, TLC, Json
OneShape   == {[type |-> 8, sid |-> 1, ts |-> 0]}
AgreeSizes == {1, 127, 128, 129, 4096, 2147483647}
TsClasses  == {0, 16777214, 16777215, 16777216, 2147483647}
HeaderShapes == {[type |-> t, sid |-> s, ts |-> x] : t \in {4, 5, 6, 8, 9, 18, 20}, s \in {0, 1, 16777217}, x \in TsClasses}
PairShapes == {[type |-> t, sid |-> 1, ts |-> x] : t \in {8, 9}, x \in TsClasses}
BidirSizes == {1, 128, 4096}

\* MC with HsOrder = "free": the history variables are left out of the fingerprint, every interleaving is still taken
NoHistory == <<hsw, hsr, put, took, rdoff, out, inn, wire, sent, got, desync>>

\* GEN with HsOrder = "free": one schedule per class of schedules that differ only in the order of neighbouring
\* steps of different endpoints that do not see each other (two writes, or two handshake reads): of those, the
\* client's step comes first.  What a read finds in the transport is the same for the whole class.
IsWrite(k) == k \in {"W", "m"}
Canonical == Len(sched) < 2 \/
  LET x == sched[Len(sched) - 1]
      y == sched[Len(sched)] IN
  ~(x.e = "B" /\ y.e = "A" /\ IsWrite(x.k) = IsWrite(y.k))
\* the session reads are not part of a case (the replayer chooses when to read): take them after the last write only
ReadsLast == NWrites = MaxWrites \/ \A e \in E : got[e] = <<>>

\* GEN: a finished behaviour is printed once, as the sequence of writes with the writer's
\* chunk size after each of them (InFollowsOut makes that the reader's size after reading it)
\* and the schedule: the handshake calls of both endpoints and the session writes in the order they happened,
\* with the byte counters of the acting endpoint after each of them
Emit == Done => PrintT(<<"CASE", ToJson([steps |-> hist, sched |-> sched])>>)
=============================================================================
