-------------------------- MODULE MC_RtmpSession --------------------------
EXTENDS RtmpSession, TLC, Json
OneShape   == {[type |-> 8, sid |-> 1, ts |-> 0]}
AgreeSizes == {1, 127, 128, 129, 4096, 2147483647}
TsClasses  == {0, 16777214, 16777215, 16777216, 2147483647}
HeaderShapes == {[type |-> t, sid |-> s, ts |-> x] : t \in {4, 5, 6, 8, 9, 18, 20}, s \in {0, 1, 16777217}, x \in TsClasses}
PairShapes == {[type |-> t, sid |-> 1, ts |-> x] : t \in {8, 9}, x \in TsClasses}
BidirSizes == {1, 128, 4096}

\* GEN: a finished behaviour is printed once, as the sequence of writes with the writer's
\* chunk size after each of them (InFollowsOut makes that the reader's size after reading it)
Emit == Done => PrintT(<<"CASE", ToJson([steps |-> hist])>>)
=============================================================================
