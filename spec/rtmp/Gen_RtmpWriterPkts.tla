----------------------- MODULE Gen_RtmpWriterPkts -----------------------
(* X03: real packets for the writer sessions - the packet matrix of C03       *)
(* (Gen_RtmpPacket) without the sweep over all 65536 user-control event       *)
(* types.  Only the abstract packet is emitted: X03 looks at how the message  *)
(* is chunked, not at its body (that is C03).                                 *)
EXTENDS Gen_RtmpPacket

FewUserControls ==
  {[k |-> "uc", et |-> e, dhi |-> u[1], dlo |-> u[2], xhi |-> u[2], xlo |-> u[1], d0 |-> u[2] % 256] :
      e \in {0, 1, 3, 6, 7, 26, 31, 65535}, u \in {<<0, 1>>, <<32768, 0>>, <<65535, 65535>>}}
\* Set Chunk Size only with sizes a sender may announce (1 .. 2^31-1)
SendableControls == {c \in Controls : c.k = "scs" => (c.hi < 32768 /\ (c.hi > 0 \/ c.lo > 0))}
InitW == p \in Commands \cup SendableControls \cup FewUserControls
EmitW == PrintT(<<"CASE", ToJson([p |-> p, size |-> PktSize(p), mtype |-> MsgType(p)])>>)
=============================================================================
