SPECIFICATION Spec
CONSTANTS
  Dirs = {"A"}
  ChunkSizes <- AgreeSizes
  Shapes <- OneShape
  AbsLens = {1, 65536}
  RelLens = TRUE
  MaxWrites = 4
  WriterFollowsOwnSCS = TRUE
  HsOrder = "serial"
  HsReadExact = TRUE
  ScsSids = {0}
  ReaderScsAnySid = TRUE
  LazyFlushTypes = {}
  NoSharedState = TRUE
INVARIANTS NoDesync PrefixOk InFollowsOut AllDelivered HandshakeBytes HsExact NoByteLost SessionAfterHandshake
PROPERTY AppendOnly
CHECK_DEADLOCK FALSE
