SPECIFICATION ManySpec
CONSTANTS
  Msgs <- ManyMsgs
  DataCids <- ManyCids
  MaxMsgs = 2200
  Fmts = {0, 1}
  AllForms = FALSE
  Atomic = FALSE
  FollowSCS = TRUE
  ExtDelta = TRUE
  Violations = {}
  LibrtmpPing = FALSE
  TopBits = FALSE
INVARIANTS Emit
CHECK_DEADLOCK FALSE
