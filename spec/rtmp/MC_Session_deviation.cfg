SPECIFICATION Spec
CONSTANTS
  Dirs = {"A"}
  ChunkSizes <- AgreeSizes
  Shapes <- OneShape
  AbsLens = {1, 65536}
  RelLens = TRUE
  MaxWrites = 2
  WriterFollowsOwnSCS = FALSE
  HsOrder = "serial"
  HsReadExact = TRUE
  ScsSids = {0}
  ReaderScsAnySid = TRUE
  LazyFlushTypes = {}
  NoSharedState = TRUE
INVARIANTS NoDesync
CHECK_DEADLOCK FALSE
