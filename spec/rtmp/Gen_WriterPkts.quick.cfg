INIT InitW
NEXT Next
CONSTANTS Thorough = FALSE
INVARIANTS EmitW
CHECK_DEADLOCK FALSE
