---------------------------- MODULE MC_RtmpCodec ----------------------------
EXTENDS RtmpCodec

\* small values of every class: empty / one byte / the constructor's preset / something else
Rec      == <<114, 101, 99>>                       \* "rec"
Strs     == {EmptyStr, S(<<120>>), S(Live), S(Rec)}
EmptyObj == O(<<>>)
SmallObj == O(<< <<App, S(Live)>>, << <<>>, N(Num7)>>, <<Code, O(<< <<App, B(TRUE)>>, <<Level, EmptyStr>> >>)>>, <<Level, Und>> >>)
McTids   == {Num0, Num1, Num2, Num2_5}
McU32    == {<<0, 0>>, <<0, 128>>, <<32768, 1>>}

McPackets ==
       {[k |-> "connect", tid |-> Num1, obj |-> o, hasargs |-> h[1], args |-> h[2]] :
           o \in {EmptyObj, SmallObj}, h \in {<<FALSE, Nul>>, <<TRUE, EmptyObj>>, <<TRUE, SmallObj>>}}
  \cup {[k |-> "connectRes", tid |-> t, obj |-> o, hasargs |-> h[1], args |-> h[2]] :
           t \in McTids \ {Num0}, o \in {EmptyObj, SmallObj}, h \in {<<FALSE, Nul>>, <<TRUE, SmallObj>>}}
  \cup {[k |-> "createStream", tid |-> t, obj |-> o] : t \in McTids, o \in {Nul, Und, EmptyObj}}
  \cup {[k |-> "createStreamRes", tid |-> t, obj |-> o, sid |-> s] : t \in McTids \ {Num0}, o \in {Nul, Und}, s \in {Num0, Num1, Num2_5}}
  \cup {[k |-> "publish", tid |-> t, obj |-> o, name |-> n, type |-> ty] : t \in {Num0, Num7}, o \in {Nul, Und, SmallObj}, n \in Strs, ty \in Strs}
  \cup {[k |-> "play", tid |-> t, obj |-> o, name |-> n] : t \in {Num0, Num7}, o \in {Nul, Und, SmallObj}, n \in Strs}
  \cup {[k |-> "call", cmd |-> c, tid |-> t, hasobj |-> h[1], obj |-> h[2], hasargs |-> h[3], args |-> h[4]] :
           c \in {<<>>, <<120>>, OnStatus, CloseStream}, t \in {Num0, Num3},
           h \in {<<FALSE, Nul, FALSE, Nul>>} \cup {<<TRUE, o, FALSE, Nul>> : o \in {Nul, Und, SmallObj, N(Num0)}}
                 \cup {<<TRUE, o, TRUE, a>> : o \in {Nul, SmallObj}, a \in {Nul, Und, EmptyStr, N(Num0), B(FALSE), SmallObj}}}
  \cup {[k |-> "scs", hi |-> u[1], lo |-> u[2]] : u \in McU32}
  \cup {[k |-> "winack", hi |-> u[1], lo |-> u[2]] : u \in McU32}
  \cup {[k |-> "peerbw", hi |-> u[1], lo |-> u[2], limit |-> l] : u \in McU32, l \in {0, 2, 255}}
  \cup {[k |-> "uc", et |-> e, dhi |-> u[1], dlo |-> u[2], xhi |-> u[2], xlo |-> u[1], d0 |-> u[2] % 256] : e \in {0, 3, 6, 26, 27, 65535}, u \in McU32}
=============================================================================
