INIT Init
NEXT Next
CONSTANTS Thorough = FALSE
INVARIANTS SizeSane Emit
CHECK_DEADLOCK FALSE
