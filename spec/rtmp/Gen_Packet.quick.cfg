INIT Init
NEXT Next
CONSTANTS Thorough = FALSE
INVARIANTS SizeSane CodecOk Emit
CHECK_DEADLOCK FALSE
