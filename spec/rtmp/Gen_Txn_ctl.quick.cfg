SPECIFICATION Spec
CONSTANTS
  Requests <- CtlRequests
  PeerItems <- CtlQPeerItems
  WaitKinds <- CtlQWaitKinds
  WaitTypes <- CtlWaitTypes
  MaxPeer = 3
  MaxOps = 2
  DeleteOnMatch = TRUE
  WaitDecodes = TRUE
INVARIANTS MatchOnce OnePerTid EveryResponseJudged Emit
CHECK_DEADLOCK FALSE
