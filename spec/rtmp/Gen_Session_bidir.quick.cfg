SPECIFICATION Spec
CONSTANTS
  Dirs = {"A", "B"}
  ChunkSizes <- BidirSizes
  Shapes <- OneShape
  AbsLens = {1, 300}
  RelLens = FALSE
  MaxWrites = 3
  WriterFollowsOwnSCS = TRUE
  HsOrder = "serial"
  HsReadExact = TRUE
  ScsSids = {0}
  ReaderScsAnySid = TRUE
  LazyFlushTypes = {}
  NoSharedState = TRUE
INVARIANTS NoDesync Emit
CHECK_DEADLOCK FALSE
