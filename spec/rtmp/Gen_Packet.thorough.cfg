INIT Init
NEXT Next
CONSTANTS Thorough = TRUE
INVARIANTS SizeSane Emit
CHECK_DEADLOCK FALSE
