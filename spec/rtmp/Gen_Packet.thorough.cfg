INIT Init
NEXT Next
CONSTANTS Thorough = TRUE
INVARIANTS SizeSane CodecOk Emit
CHECK_DEADLOCK FALSE
