SPECIFICATION Spec
CONSTANTS
  Reqs <- Reqs2
  Parts <- P13
  RegAfter <- RegBeforeLast
  Dups = {3}
  LookupAtomic = TRUE
  FailIdx = {}
INVARIANTS NoSpurious MatchOnce NoLoss
CHECK_DEADLOCK FALSE
VIEW McView
