SPECIFICATION Spec
CONSTANTS
  Reqs <- Reqs2
  Parts <- P13
  RegAfter <- RegBeforeLast
  KeyOf <- IdKey
  Dups = {3}
  LookupAtomic = TRUE
  FailIdx = {}
INVARIANTS NoSpurious MatchOnce NoLoss RightType
CHECK_DEADLOCK FALSE
VIEW McView
