SPECIFICATION TraceSpec
CONSTANTS
  Reqs <- TraceReqs
  Dups = {}
  FailIdx = {}
  RegisterFirst = TRUE
INVARIANTS NoSpurious MatchOnce
CONSTRAINT HighWater
POSTCONDITION TraceAccepted
CHECK_DEADLOCK FALSE
VIEW TraceView
