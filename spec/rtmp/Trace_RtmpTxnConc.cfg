SPECIFICATION TraceSpec
CONSTANTS
  Reqs <- TraceReqs
  Parts <- TraceParts
  RegAfter <- TraceRegAfter
  KeyOf <- TraceKey
  Dups = {}
  LookupAtomic = TRUE
  FailIdx = {}
INVARIANTS NoSpuriousLast MatchOnceLast
CONSTRAINT HighWater
POSTCONDITION TraceAccepted
CHECK_DEADLOCK FALSE
VIEW TraceView
