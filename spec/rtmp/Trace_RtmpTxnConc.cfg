SPECIFICATION TraceSpec
CONSTANTS
  Reqs <- TraceReqs
  Dups = {}
  RegisterFirst = TRUE
INVARIANTS NoSpurious MatchOnce
CONSTRAINT HighWater
POSTCONDITION TraceAccepted
CHECK_DEADLOCK FALSE
VIEW TraceView
