SPECIFICATION Spec
CONSTANTS
  Msgs <- MixMsgs
  DataCids = {3, 64}
  MaxMsgs = 2
  Fmts = {0, 1, 2, 3}
  AllForms = TRUE
  Atomic = FALSE
  FollowSCS = TRUE
  ExtDelta = TRUE
  Violations = {}
  LibrtmpPing = FALSE
  TopBits = FALSE
INVARIANTS DecodeOk Agree Emit
CHECK_DEADLOCK FALSE
