SPECIFICATION Spec
CONSTANTS
  Requests <- CtlRequests
  PeerItems <- CtlPeerItems
  WaitKinds <- CtlWaitKinds
  WaitTypes <- CtlWaitTypes
  MaxPeer = 3
  MaxOps = 3
  DeleteOnMatch = TRUE
  WaitDecodes = TRUE
INVARIANTS MatchOnce OnePerTid EveryResponseJudged Emit
CHECK_DEADLOCK FALSE
