SPECIFICATION ChainSpec
CONSTANTS
  Msgs <- ChainMsgs
  DataCids = {3, 64}
  MaxMsgs = 22
  Fmts = {0, 1, 2, 3}
  AllForms = FALSE
  Atomic = TRUE
  FollowSCS = TRUE
  ExtDelta = TRUE
  Violations = {}
  LibrtmpPing = FALSE
  TopBits = FALSE
INVARIANTS EndOk Emit
CHECK_DEADLOCK FALSE
