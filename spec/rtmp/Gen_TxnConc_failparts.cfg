SPECIFICATION GenSpec
CONSTANTS
  Reqs <- ReqsSame
  Parts <- P112
  RegAfter <- RegFirst
  Dups = {}
  LookupAtomic = TRUE
  FailIdx = {3}
INVARIANTS NoSpurious MatchOnce NoLoss Emit
CHECK_DEADLOCK FALSE
