SPECIFICATION Spec
CONSTANTS
  Msgs <- ScsMsgs
  DataCids = {4}
  MaxMsgs = 2
  Fmts = {0, 1, 2, 3}
  AllForms = FALSE
  Atomic = FALSE
  FollowSCS = TRUE
  ExtDelta = TRUE
  Violations = {}
  LibrtmpPing = FALSE
  TopBits = FALSE
INVARIANTS DecodeOk Agree Emit
CHECK_DEADLOCK FALSE
