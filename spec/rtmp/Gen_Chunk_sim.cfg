SPECIFICATION Spec
CONSTANTS
  Msgs <- SimMsgs
  DataCids = {3, 4, 64, 320, 65599}
  MaxMsgs = 8
  Fmts = {0, 1, 2, 3}
  AllForms = TRUE
  Atomic = FALSE
  FollowSCS = TRUE
  ExtDelta = TRUE
  Violations = {"t0_in_msg", "len_change", "fresh_fmt"}
  LibrtmpPing = TRUE
  TopBits = TRUE
INVARIANTS DecodeOk Agree Emit
CHECK_DEADLOCK FALSE
