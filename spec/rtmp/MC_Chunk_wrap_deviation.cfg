SPECIFICATION Spec
CONSTANTS
  Msgs <- WrapMsgs
  RxAdd <- RxAddExtOnly
  DataCids = {3}
  MaxMsgs = 2
  Fmts = {0, 1, 2, 3}
  AllForms = FALSE
  Atomic = FALSE
  FollowSCS = TRUE
  ExtDelta = TRUE
  Violations = {}
  LibrtmpPing = FALSE
  TopBits = FALSE
INVARIANTS DecodeOk
CHECK_DEADLOCK FALSE
