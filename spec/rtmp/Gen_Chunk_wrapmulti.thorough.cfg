SPECIFICATION Spec
CONSTANTS
  Msgs <- WrapMultiMsgs
  DataCids = {3, 64}
  MaxMsgs = 3
  Fmts = {0, 1, 2, 3}
  AllForms = FALSE
  Atomic = FALSE
  FollowSCS = TRUE
  ExtDelta = TRUE
  Violations = {}
  LibrtmpPing = FALSE
  TopBits = FALSE
INVARIANTS DecodeOk Agree Emit
CHECK_DEADLOCK FALSE
