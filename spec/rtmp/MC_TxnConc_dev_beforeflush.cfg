SPECIFICATION Spec
CONSTANTS
  Reqs <- Reqs2
  Parts <- P13
  RegAfter <- RegBeforeFlush
  KeyOf <- IdKey
  Dups = {}
  LookupAtomic = TRUE
  FailIdx = {}
INVARIANTS NoSpurious
CHECK_DEADLOCK FALSE
