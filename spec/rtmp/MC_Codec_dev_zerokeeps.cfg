SPECIFICATION Spec
CONSTANTS
  Packets <- McPackets
  Dev = "zero-keeps-preset"
INVARIANTS FieldsSurvive LayoutAgrees SizeIsBytes ArrivesAsDefined DecodedSizeIsPayload RemarshalIsPayload
CHECK_DEADLOCK FALSE
