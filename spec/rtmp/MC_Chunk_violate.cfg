SPECIFICATION Spec
CONSTANTS
  Msgs <- PingMsgs
  DataCids = {3, 70}
  MaxMsgs = 3
  Fmts = {0, 1, 2, 3}
  AllForms = FALSE
  Atomic = FALSE
  FollowSCS = TRUE
  ExtDelta = TRUE
  Violations = {"t0_in_msg", "len_change", "fresh_fmt"}
  LibrtmpPing = TRUE
  TopBits = FALSE
INVARIANTS DecodeOk Agree
CHECK_DEADLOCK FALSE
