----------------------- MODULE Trace_RtmpTxnConc -----------------------
(* Validation of executions recorded from the real code (free-running        *)
(* writer and reader goroutines under -race, peer answering from inside the   *)
(* transport write on a seeded fraction of requests).  Logged events:         *)
(*   twrite(t)   the transport's Write was entered with the bytes that        *)
(*               COMPLETE request t in the transport (an independent chunk    *)
(*               stream parser of the harness decides that; earlier writes    *)
(*               of the same request are not logged, so the recorded runs     *)
(*               are judged as Parts = 1 whatever the library's buffering)    *)
(*   return(t)   WritePacket returned                                         *)
(*   respond(t)  the peer's response was put on the wire                      *)
(*   lookup(t,r) the reader's DecodeMessage of response t returned ok / fail  *)
(*   reset       a new run starts                                             *)
(* Not logged (the library has no hook there): W_Call, W_Register, R_Read.    *)
(* They are silent steps of the trace specification - TLC infers where they   *)
(* happened; with RegisterFirst the registration can only be placed before    *)
(* twrite(t), so a lookup that fails because the code registered later has    *)
(* no explanation and the trace is rejected.                                  *)
EXTENDS RtmpTxnConc, Json

TraceLog == ndJsonDeserialize("trace.ndjson")
TraceReqs == [i \in 1..40 |-> i + 1]       \* every run sends transaction ids 2..41 in order
TraceKey == [t \in 2..41 |-> t]
TraceParts == [i \in 1..40 |-> 1]
TraceRegAfter == [i \in 1..40 |-> 0]

VARIABLE l
tvars == <<vars, l>>

ASSUME TLCSet(1, 0)
TraceInit == Init /\ l = 1
IsEvent(e) == l <= Len(TraceLog) /\ TraceLog[l].ev = e /\ l' = l + 1

Silent    == (W_Call \/ W_Register \/ R_Read) /\ UNCHANGED l
TwriteEv  == IsEvent("twrite") /\ widx <= Len(Reqs) /\ Cur = TraceLog[l].t /\ W_TWrite
ReturnEv  == IsEvent("return") /\ widx <= Len(Reqs) /\ Cur = TraceLog[l].t /\ W_Return
RespondEv == IsEvent("respond") /\ P_Respond(TraceLog[l].t)
LookupEv  == /\ IsEvent("lookup") /\ rcur = TraceLog[l].t /\ R_Lookup
             /\ results'[Len(results')] = <<TraceLog[l].t, TraceLog[l].res>>
ResetEv   == /\ IsEvent("reset")
             /\ widx' = 1 /\ wpc' = "idle" /\ wparts' = 0 /\ wreg' = FALSE /\ pending' = {} /\ written' = {}
             /\ nresp' = [t \in Ids |-> 0] /\ inbox' = <<>> /\ rcur' = 0 /\ rreset' = FALSE /\ results' = <<>> /\ sched' = <<>>

TraceNext == Silent \/ TwriteEv \/ ReturnEv \/ RespondEv \/ LookupEv \/ ResetEv
TraceSpec == TraceInit /\ [][TraceNext]_tvars

\* NoSpurious and MatchOnce, stated on the result just appended (every result is the last one of some state, so checking
\* them in every state is the same as RtmpTxnConc!NoSpurious /\ RtmpTxnConc!MatchOnce, at a cost linear in the run)
Earlier == {k \in 1..(Len(results) - 1) : results[k][1] = results[Len(results)][1]}
NoSpuriousLast == results # <<>> => (results[Len(results)][2] = "fail" => Earlier # {})
MatchOnceLast  == results # <<>> => (results[Len(results)][2] = "ok" => Earlier = {})

TraceView == <<widx, wpc, wparts, wreg, pending, written, nresp, inbox, rcur, rreset, results, l>>
\* high-water mark of the consumed prefix (needs -workers 1)
HighWater == IF l > TLCGet(1) THEN TLCSet(1, l) ELSE TRUE
TraceAccepted == IF TLCGet(1) = Len(TraceLog) + 1 THEN TRUE
                 ELSE Print(<<"REJECTED at trace line", TLCGet(1),
                              IF TLCGet(1) <= Len(TraceLog) THEN TraceLog[TLCGet(1)] ELSE "end">>, FALSE)
=============================================================================
