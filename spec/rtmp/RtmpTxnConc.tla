--------------------------- MODULE RtmpTxnConc ---------------------------
(* Request/response matching with a writer goroutine W and a reader           *)
(* goroutine R on one connection, and the peer (C04).                         *)
(*                                                                            *)
(* W, per request i (transaction id t = Reqs[i]):                             *)
(*     W_Call         enters WritePacket (marshal)                            *)
(*     W_Register     remembers t under the lock                              *)
(*     W_TWrite       ONE transport write carrying the next part of the       *)
(*                    request's bytes; the request reaches the transport in   *)
(*                    Parts[i] >= 1 transport writes (a buffered writer       *)
(*                    writes through as soon as its buffer overflows, a       *)
(*                    chunk-by-chunk flusher writes once per chunk, ...) and  *)
(*                    is IN the transport when the last of them was entered   *)
(*     W_Return       WritePacket returns                                     *)
(*   RegAfter[i] = number of transport writes of request i that precede its   *)
(*   registration. The rule the property needs ("RegisterFirst over parts")   *)
(*   is RegAfter[i] = 0: registration precedes the FIRST transport write of   *)
(*   the request's bytes. Named deviations:                                   *)
(*     "register-after-write"   RegAfter[i] = Parts[i]                        *)
(*     "register-before-flush"  RegAfter[i] = 0 for a request that fits into  *)
(*                              the write buffer (Parts[i] = 1), = Parts[i]   *)
(*                              for one that was written through before the   *)
(*                              final flush                                   *)
(*   (TLC also shows that NoSpurious is exactly "registered before the        *)
(*   COMPLETING write": RegAfter[i] < Parts[i], cfg MC_TxnConc_beforelast;    *)
(*   replayed executions are judged by lookup outcomes only.)                 *)
(* The table remembers a request under KeyOf[t] together with the request's    *)
(* type KindOf(t) (the response is decoded as that type's response). The       *)
(* property needs KeyOf injective on the ids in use: transaction ids are AMF0  *)
(* numbers (any positive double) and two DISTINCT numbers are two transactions *)
(* - fractional ids, ids 2^32 apart, adjacent doubles, doubles beyond int64.   *)
(* Named deviation "lossy-key": the key is derived from the id by a lossy      *)
(* conversion (integer truncation, 32-bit wrap, float32, short formatting), so *)
(* two outstanding requests share a slot: the later registration overwrites    *)
(* the earlier type, the first response consumes the slot (decoded as the      *)
(* wrong type), the second finds nothing.                                      *)
(* Peer:  P_Respond(t) once the complete request is in the transport          *)
(*        (Dups: set of ids answered twice).                                  *)
(* R:     R_Read reads the next response; R_Lookup looks it up under the      *)
(*        lock: found => forget it and succeed, else fail - ONE atomic step   *)
(*        (LookupAtomic = TRUE). Named deviation "lookup-then-reset"          *)
(*        (LookupAtomic = FALSE): when the lookup emptied the table, the      *)
(*        reader replaces the table by a fresh one in a SECOND critical       *)
(*        section (R_Reset) - what W registered in between is lost.           *)
EXTENDS Integers, Sequences, FiniteSets, TLC

CONSTANTS Reqs,          \* sequence of transaction ids W sends, in order (an id may be used again by a later request)
          Parts,         \* Parts[i]: number of transport writes the bytes of request i take (>= 1)
          RegAfter,      \* RegAfter[i] \in 0..Parts[i]: transport writes of request i before its registration
          KeyOf,         \* KeyOf[t]: the key under which the table remembers transaction id t (injective: the property)
          Dups,          \* ids the peer answers twice
          LookupAtomic,  \* the reader's lookup+forget is one critical section and nothing else touches the table
          FailIdx        \* positions in Reqs one of whose transport writes FAILS (that part and what follows never reaches
                         \* the transport, WritePacket returns the transport's error); a failed request must not disturb
                         \* an earlier outstanding request that happens to use the same id

Ids == {Reqs[i] : i \in 1..Len(Reqs)}
\* after a failed transport write the connection's buffered writer stays failed: only the last request can fail
ASSUME FailIdx \subseteq {Len(Reqs)}
ASSUME DOMAIN KeyOf = Ids
\* the two request types whose responses the library matches: odd ids are connect requests, even ones createStream
KindOf(t) == IF t % 2 = 1 THEN "connect" ELSE "createStream"
ASSUME Len(Parts) = Len(Reqs) /\ Len(RegAfter) = Len(Reqs)
ASSUME \A i \in 1..Len(Reqs) : Parts[i] >= 1 /\ RegAfter[i] \in 0..Parts[i]

VARIABLES widx,      \* index of the request W is working on (Len+1 when done)
          wpc,       \* "idle" | "busy" (inside WritePacket) | "done" (about to return)
          wparts,    \* transport writes of the current request entered so far
          wreg,      \* the current request has been registered
          pending,   \* the table: set of <<key, request type>>, at most one entry per key
          written,   \* ids whose bytes COMPLETELY reached the transport
          nresp,     \* id -> number of responses the peer sent
          inbox,     \* responses in flight to R
          rcur,      \* response R has read and not yet looked up (0 = none)
          rreset,    \* (deviation) R emptied the table and will replace it in a second critical section
          results,   \* sequence of <<id, "ok"|"fail">> in lookup order
          sched      \* the schedule so far (<<label, id, flag>>), for replay
vars == <<widx, wpc, wparts, wreg, pending, written, nresp, inbox, rcur, rreset, results, sched>>

Init == /\ widx = 1 /\ wpc = "idle" /\ wparts = 0 /\ wreg = FALSE /\ pending = {} /\ written = {}
        /\ nresp = [t \in Ids |-> 0] /\ inbox = <<>> /\ rcur = 0 /\ rreset = FALSE /\ results = <<>> /\ sched = <<>>

Cur == Reqs[widx]
Log(l, t, x) == sched' = Append(sched, <<l, t, x>>)

W_Call == /\ widx <= Len(Reqs) /\ wpc = "idle" /\ wpc' = "busy" /\ wparts' = 0 /\ wreg' = FALSE /\ Log("call", Cur, 0)
          /\ UNCHANGED <<widx, pending, written, nresp, inbox, rcur, rreset, results>>

W_Register ==
  /\ widx <= Len(Reqs) /\ wpc = "busy" /\ ~wreg /\ wparts = RegAfter[widx]
  /\ pending' = {p \in pending : p[1] # KeyOf[Cur]} \cup {<<KeyOf[Cur], KindOf(Cur)>>}    \* table[key] = type
  /\ wreg' = TRUE
  /\ Log("register", Cur, 0)
  /\ UNCHANGED <<widx, wpc, wparts, written, nresp, inbox, rcur, rreset, results>>

\* one transport write; flag 1 in the schedule = this write completes the request
W_TWrite ==
  /\ widx <= Len(Reqs) /\ wpc = "busy" /\ wparts < Parts[widx]
  /\ wreg \/ wparts < RegAfter[widx]
  /\ \/ /\ widx \in FailIdx                     \* the transport refuses this part: WritePacket returns the error
        /\ wpc' = "done" /\ wparts' = wparts /\ written' = written
        /\ Log("twritefail", Cur, 0)
     \/ /\ widx \in FailIdx => wparts + 1 < Parts[widx]      \* a failing request never gets complete
        /\ wparts' = wparts + 1
        /\ written' = IF wparts' = Parts[widx] THEN written \cup {Cur} ELSE written
        /\ wpc' = "busy"
        /\ Log("twrite", Cur, IF wparts' = Parts[widx] THEN 1 ELSE 0)
  /\ UNCHANGED <<widx, wreg, pending, nresp, inbox, rcur, rreset, results>>

W_Return == /\ widx <= Len(Reqs)
            /\ wpc = "done" \/ (wpc = "busy" /\ wparts = Parts[widx] /\ wreg)
            /\ wpc' = "idle" /\ widx' = widx + 1 /\ Log("return", Cur, 0)
            /\ UNCHANGED <<wparts, wreg, pending, written, nresp, inbox, rcur, rreset, results>>

P_Respond(t) ==
  /\ t \in written /\ nresp[t] < (IF t \in Dups THEN 2 ELSE 1)
  /\ nresp' = [nresp EXCEPT ![t] = @ + 1]
  /\ inbox' = Append(inbox, t) /\ Log("respond", t, 0)
  /\ UNCHANGED <<widx, wpc, wparts, wreg, pending, written, rcur, rreset, results>>

R_Read == /\ rcur = 0 /\ ~rreset /\ inbox # <<>> /\ rcur' = Head(inbox) /\ inbox' = Tail(inbox) /\ Log("read", Head(inbox), 0)
          /\ UNCHANGED <<widx, wpc, wparts, wreg, pending, written, nresp, rreset, results>>

Slot(t) == {p \in pending : p[1] = KeyOf[t]}
R_Lookup ==
  /\ rcur # 0
  /\ IF Slot(rcur) # {}
     THEN /\ pending' = pending \ Slot(rcur)
          \* the response is decoded as the response type of the request found in the slot
          /\ results' = Append(results, <<rcur, IF <<KeyOf[rcur], KindOf(rcur)>> \in pending THEN "ok" ELSE "wrongtype">>)
          /\ rreset' = (~LookupAtomic /\ pending' = {})
     ELSE /\ pending' = pending /\ results' = Append(results, <<rcur, "fail">>) /\ rreset' = rreset
  /\ rcur' = 0 /\ Log("lookup", rcur, 0)
  /\ UNCHANGED <<widx, wpc, wparts, wreg, written, nresp, inbox>>

\* deviation only: the second critical section of "lookup-then-reset"
R_Reset == /\ rreset /\ rreset' = FALSE /\ pending' = {} /\ Log("reset", 0, 0)
           /\ UNCHANGED <<widx, wpc, wparts, wreg, written, nresp, inbox, rcur, results>>

Next == W_Call \/ W_Register \/ W_TWrite \/ W_Return \/ (\E t \in Ids : P_Respond(t)) \/ R_Read \/ R_Lookup \/ R_Reset
Spec == Init /\ [][Next]_vars

\* ---------------------------------------------------------------- properties
NthResult(t, n) == LET idx == {k \in 1..Len(results) : results[k][1] = t} IN
                   IF Cardinality(idx) < n THEN "none"
                   ELSE results[CHOOSE k \in idx : Cardinality({j \in idx : j <= k}) = n][2]
\* every first response to a request is matched (it exists only because the request reached the transport)
NoSpurious == \A t \in Ids : NthResult(t, 1) # "fail"
\* no response is matched twice
MatchOnce  == \A t \in Ids : NthResult(t, 2) \in {"none", "fail"}
\* a matched response is decoded as the response type of ITS request
RightType  == \A k \in 1..Len(results) : results[k][2] # "wrongtype"
\* the rule that makes NoSpurious hold whatever the number of transport writes of a request:
\* no byte of a request is in the transport before the request is remembered
RegisterFirst == (wpc = "busy" /\ wparts > 0) => wreg
\* nothing is lost: when everything has been sent, answered, read and looked up, exactly the
\* requests without response are still remembered
Quiescent == widx > Len(Reqs) /\ inbox = <<>> /\ rcur = 0 /\ ~rreset
AllAnswered == \A t \in Ids : nresp[t] = (IF t \in Dups THEN 2 ELSE 1)
\* nothing is lost: at quiescence every request that reached the transport and was not answered is still
\* remembered, and nothing else is - except that a request whose write failed may leave its id remembered
FailedIds == {Reqs[i] : i \in FailIdx \cap (1..Len(Reqs))}
PendingKeys == {p[1] : p \in pending}
NoLoss == Quiescent => /\ {KeyOf[t] : t \in {u \in written : nresp[u] = 0}} \subseteq PendingKeys
                       /\ PendingKeys \subseteq {KeyOf[t] : t \in ({u \in Ids : nresp[u] = 0} \cup FailedIds)}
Done == Quiescent /\ AllAnswered
=============================================================================
