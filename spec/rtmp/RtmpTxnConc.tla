--------------------------- MODULE RtmpTxnConc ---------------------------
(* Request/response matching with a writer goroutine W and a reader           *)
(* goroutine R on one connection, and the peer (C04).                         *)
(*                                                                            *)
(* W, per request (transaction id t):                                         *)
(*     W_Call(t)      enters WritePacket (marshal)                            *)
(*     W_Register(t)  remembers t under the lock                              *)
(*     W_TWrite(t)    hands the request bytes to the transport                *)
(*     W_Return(t)    WritePacket returns                                     *)
(*   the property requires Register before TWrite (RegisterFirst = TRUE);     *)
(*   RegisterFirst = FALSE is the named deviation "register after write".     *)
(* Peer:  P_Respond(t) once the request bytes are in the transport            *)
(*        (Dups: set of ids answered twice).                                  *)
(* R:     R_Read reads the next response; R_Lookup looks it up under the      *)
(*        lock: found => forget it and succeed, else fail.                    *)
EXTENDS Integers, Sequences, FiniteSets, TLC

CONSTANTS Reqs,          \* sequence of transaction ids W sends, in order (an id may be used again by a later request)
          Dups,          \* ids the peer answers twice
          RegisterFirst,
          FailIdx        \* positions in Reqs whose transport write FAILS (nothing reaches the transport, WritePacket
                         \* returns the transport's error); a failed request must not disturb an earlier outstanding
                         \* request that happens to use the same id

Ids == {Reqs[i] : i \in 1..Len(Reqs)}
\* after a failed transport write the connection's buffered writer stays failed: only the last request can fail
ASSUME FailIdx \subseteq {Len(Reqs)}

VARIABLES widx,      \* index of the request W is working on (Len+1 when done)
          wpc,       \* "idle" | "called" | "registered" | "written" (waiting to return)
          pending,   \* set of remembered ids
          written,   \* ids whose bytes reached the transport
          nresp,     \* id -> number of responses the peer sent
          inbox,     \* responses in flight to R
          rcur,      \* response R has read and not yet looked up (0 = none)
          results,   \* sequence of <<id, "ok"|"fail">> in lookup order
          sched      \* the schedule so far (labels), for replay
vars == <<widx, wpc, pending, written, nresp, inbox, rcur, results, sched>>

Init == /\ widx = 1 /\ wpc = "idle" /\ pending = {} /\ written = {}
        /\ nresp = [t \in Ids |-> 0] /\ inbox = <<>> /\ rcur = 0 /\ results = <<>> /\ sched = <<>>

Cur == Reqs[widx]
Log(l, t) == sched' = Append(sched, <<l, t>>)

W_Call == /\ widx <= Len(Reqs) /\ wpc = "idle" /\ wpc' = "called" /\ Log("call", Cur)
          /\ UNCHANGED <<widx, pending, written, nresp, inbox, rcur, results>>

W_Register ==
  /\ widx <= Len(Reqs)
  /\ IF RegisterFirst THEN wpc = "called" ELSE wpc = "written"
  /\ pending' = pending \cup {Cur}
  /\ wpc' = IF RegisterFirst THEN "registered" ELSE "done"
  /\ Log("register", Cur)
  /\ UNCHANGED <<widx, written, nresp, inbox, rcur, results>>

W_TWrite ==
  /\ widx <= Len(Reqs)
  /\ IF RegisterFirst THEN wpc = "registered" ELSE wpc = "called"
  /\ IF widx \in FailIdx
     THEN /\ written' = written                 \* the transport refused the bytes
          /\ wpc' = "done"                      \* WritePacket returns the error
          /\ Log("twritefail", Cur)
     ELSE /\ written' = written \cup {Cur}
          /\ wpc' = IF RegisterFirst THEN "done" ELSE "written"
          /\ Log("twrite", Cur)
  /\ UNCHANGED <<widx, pending, nresp, inbox, rcur, results>>

W_Return == /\ widx <= Len(Reqs) /\ wpc = "done" /\ wpc' = "idle" /\ widx' = widx + 1 /\ Log("return", Cur)
            /\ UNCHANGED <<pending, written, nresp, inbox, rcur, results>>

P_Respond(t) ==
  /\ t \in written /\ nresp[t] < (IF t \in Dups THEN 2 ELSE 1)
  /\ nresp' = [nresp EXCEPT ![t] = @ + 1]
  /\ inbox' = Append(inbox, t) /\ Log("respond", t)
  /\ UNCHANGED <<widx, wpc, pending, written, rcur, results>>

R_Read == /\ rcur = 0 /\ inbox # <<>> /\ rcur' = Head(inbox) /\ inbox' = Tail(inbox) /\ Log("read", Head(inbox))
          /\ UNCHANGED <<widx, wpc, pending, written, nresp, results>>

R_Lookup ==
  /\ rcur # 0
  /\ IF rcur \in pending
     THEN pending' = pending \ {rcur} /\ results' = Append(results, <<rcur, "ok">>)
     ELSE pending' = pending /\ results' = Append(results, <<rcur, "fail">>)
  /\ rcur' = 0 /\ Log("lookup", rcur)
  /\ UNCHANGED <<widx, wpc, written, nresp, inbox>>

Next == W_Call \/ W_Register \/ W_TWrite \/ W_Return \/ (\E t \in Ids : P_Respond(t)) \/ R_Read \/ R_Lookup
Spec == Init /\ [][Next]_vars

\* ---------------------------------------------------------------- properties
NthResult(t, n) == LET idx == {k \in 1..Len(results) : results[k][1] = t} IN
                   IF Cardinality(idx) < n THEN "none"
                   ELSE results[CHOOSE k \in idx : Cardinality({j \in idx : j <= k}) = n][2]
\* every first response to a request is matched (it exists only because the request reached the transport)
NoSpurious == \A t \in Ids : NthResult(t, 1) # "fail"
\* no response is matched twice
MatchOnce  == \A t \in Ids : NthResult(t, 2) \in {"none", "fail"}
\* nothing is lost: when everything has been sent, answered, read and looked up, exactly the
\* requests without response are still remembered
Quiescent == widx > Len(Reqs) /\ inbox = <<>> /\ rcur = 0
AllAnswered == \A t \in Ids : nresp[t] = (IF t \in Dups THEN 2 ELSE 1)
\* nothing is lost: at quiescence every request that reached the transport and was not answered is still
\* remembered, and nothing else is - except that a request whose write failed may leave its id remembered
FailedIds == {Reqs[i] : i \in FailIdx \cap (1..Len(Reqs))}
NoLoss == Quiescent => /\ {t \in written : nresp[t] = 0} \subseteq pending
                       /\ pending \subseteq ({t \in Ids : nresp[t] = 0} \cup FailedIds)
Done == Quiescent /\ AllAnswered
=============================================================================
