---------------------------- MODULE MC_RtmpTxn ----------------------------
EXTENDS RtmpTxn, Json

EmptyObj == O(<<>>)
AppObj   == O(<< <<App, S(Live)>>, <<TcUrl, SF(40, 3)>> >>)
ConnectP(t)    == [k |-> "connect", tid |-> t, obj |-> AppObj, hasargs |-> FALSE, args |-> Nul]
CreateP(t)     == [k |-> "createStream", tid |-> t, obj |-> Nul]
PublishP(t)    == [k |-> "publish", tid |-> t, obj |-> Nul, name |-> S(Live), type |-> S(Live)]
ConnResP(t)    == [k |-> "connectRes", tid |-> t, obj |-> EmptyObj, hasargs |-> TRUE, args |-> O(<< <<Code, S(OnStatus)>> >>)]
CreateResP(t)  == [k |-> "createStreamRes", tid |-> t, obj |-> Nul, sid |-> Num1]
CallP(c, t)    == [k |-> "call", cmd |-> c, tid |-> t, hasobj |-> TRUE, obj |-> Nul, hasargs |-> FALSE, args |-> Nul]
WinAckP        == [k |-> "winack", hi |-> 38, lo |-> 9632]
UcP            == [k |-> "uc", et |-> 0, dhi |-> 0, dlo |-> 1, xhi |-> 0, xlo |-> 0, d0 |-> 0]
Pkt(p)         == [i |-> "pkt", p |-> p]
Media(t, n, id) == [i |-> "media", type |-> t, n |-> n, id |-> id]

McRequests  == {ConnectP(Num1), CreateP(Num2), CreateP(Num3), PublishP(Num7)}
McPeerItems == {Pkt(ConnResP(Num1)), Pkt(CreateResP(Num2)), Pkt(CreateResP(Num3)), Pkt(ConnResP(Num2)),
                Pkt(CallP(OnStatus, Num0)), Pkt(WinAckP), Pkt(UcP), Media(8, 5, 1)}
\* a second alphabet: non-integral and large transaction ids, command/control traffic to skip
AltRequests  == {CreateP(Num2_5), CreateP(NumM31), ConnectP(Num7)}
AltPeerItems == {Pkt(CreateResP(Num2_5)), Pkt(CreateResP(NumM31)), Pkt(ConnResP(Num7)), Pkt(CallP(FCPublish, Num3)),
                 Pkt(UcP), Media(9, 300, 4)}
McWaitKinds == {"ConnectAppResPacket", "CreateStreamResPacket", "CallPacket"}
McWaitTypes == {8, 20}

\* a thinner alphabet for deeper histories
ThinRequests  == {ConnectP(Num1), CreateP(Num2)}
ThinPeerItems == {Pkt(ConnResP(Num1)), Pkt(CreateResP(Num2)), Pkt(CreateResP(Num2_5)), Pkt(WinAckP), Media(9, 130, 2)}
ThinWaitKinds == {"ConnectAppResPacket", "CreateStreamResPacket"}
ThinWaitTypes == {9}

\* typed waits for the control packet types (and the command types) while responses, duplicates and unsolicited
\* responses arrive before the awaited packet
ScsP           == [k |-> "scs", hi |-> 0, lo |-> 4096]
PeerBwP        == [k |-> "peerbw", hi |-> 38, lo |-> 9632, limit |-> 2]
CtlRequests  == {ConnectP(Num1), CreateP(Num2)}
CtlPeerItems == {Pkt(ConnResP(Num1)), Pkt(CreateResP(Num2)), Pkt(WinAckP), Pkt(UcP), Pkt(ScsP), Pkt(PeerBwP), Pkt(PublishP(Num3))}
CtlWaitKinds == {"SetChunkSize", "UserControl", "WindowAcknowledgementSize", "SetPeerBandwidth", "PublishPacket", "CreateStreamResPacket"}
CtlWaitTypes == {}
CtlQPeerItems == CtlPeerItems \ {Pkt(PublishP(Num3))}
CtlQWaitKinds == CtlWaitKinds \ {"PublishPacket"}
\* the same, thinner, for the model-checking runs
Ctl2PeerItems == {Pkt(CreateResP(Num2)), Pkt(WinAckP), Pkt(PeerBwP)}
Ctl2WaitKinds == {"WindowAcknowledgementSize", "SetPeerBandwidth", "CreateStreamResPacket"}

Emit == Done => PrintT(<<"CASE", ToJson([steps |-> hist])>>)
=============================================================================
