SPECIFICATION GenSpec
CONSTANTS
  Reqs <- Reqs2
  Dups = {3}
  FailIdx = {}
  RegisterFirst = TRUE
INVARIANTS NoSpurious MatchOnce NoLoss Emit
CHECK_DEADLOCK FALSE
