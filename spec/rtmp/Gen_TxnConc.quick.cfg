SPECIFICATION GenSpec
CONSTANTS
  Reqs <- Reqs2
  Parts <- P11
  RegAfter <- RegFirst
  Dups = {3}
  LookupAtomic = TRUE
  FailIdx = {}
INVARIANTS NoSpurious MatchOnce NoLoss Emit
CHECK_DEADLOCK FALSE
