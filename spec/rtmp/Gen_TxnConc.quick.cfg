SPECIFICATION GenSpec
CONSTANTS
  Reqs <- Reqs2
  Parts <- P11
  RegAfter <- RegFirst
  KeyOf <- IdKey
  Dups = {3}
  LookupAtomic = TRUE
  FailIdx = {}
INVARIANTS NoSpurious MatchOnce NoLoss RightType Emit
CHECK_DEADLOCK FALSE
