SPECIFICATION Spec
CONSTANTS
  Requests <- ThinRequests
  PeerItems <- ThinPeerItems
  WaitKinds <- ThinWaitKinds
  WaitTypes <- ThinWaitTypes
  MaxPeer = 3
  MaxOps = 3
  DeleteOnMatch = TRUE
  WaitDecodes = TRUE
INVARIANTS MatchOnce OnePerTid EveryResponseJudged Emit
CHECK_DEADLOCK FALSE
