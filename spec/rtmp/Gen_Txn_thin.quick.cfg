SPECIFICATION Spec
CONSTANTS
  Requests <- ThinRequests
  PeerItems <- ThinPeerItems
  WaitKinds <- ThinWaitKinds
  WaitTypes <- ThinWaitTypes
  MaxPeer = 3
  MaxOps = 3
  DeleteOnMatch = TRUE
INVARIANTS MatchOnce OnePerTid Emit
CHECK_DEADLOCK FALSE
