INIT InitW
NEXT Next
CONSTANTS Thorough = TRUE
INVARIANTS EmitW
CHECK_DEADLOCK FALSE
