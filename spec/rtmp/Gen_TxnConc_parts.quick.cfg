SPECIFICATION GenSpec
CONSTANTS
  Reqs <- Reqs2
  Parts <- P22
  RegAfter <- RegFirst
  Dups = {}
  LookupAtomic = TRUE
  FailIdx = {}
INVARIANTS NoSpurious MatchOnce NoLoss Emit
CHECK_DEADLOCK FALSE
