SPECIFICATION GenSpec
CONSTANTS
  Reqs <- Reqs2
  Parts <- P22
  RegAfter <- RegFirst
  KeyOf <- IdKey
  Dups = {}
  LookupAtomic = TRUE
  FailIdx = {}
INVARIANTS NoSpurious MatchOnce NoLoss RightType Emit
CHECK_DEADLOCK FALSE
