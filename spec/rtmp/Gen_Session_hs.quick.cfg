SPECIFICATION Spec
CONSTANTS
  Dirs = {"A", "B"}
  ChunkSizes = {}
  Shapes <- OneShape
  AbsLens = {300}
  RelLens = FALSE
  MaxWrites = 2
  WriterFollowsOwnSCS = TRUE
  HsOrder = "free"
  HsReadExact = TRUE
  ScsSids = {0}
  ReaderScsAnySid = TRUE
  LazyFlushTypes = {}
  NoSharedState = TRUE
INVARIANTS NoDesync HsExact Emit
CONSTRAINTS Canonical ReadsLast
CHECK_DEADLOCK FALSE
