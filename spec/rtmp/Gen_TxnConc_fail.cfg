SPECIFICATION GenSpec
CONSTANTS
  Reqs <- ReqsSame
  Dups = {}
  FailIdx = {3}
  RegisterFirst = TRUE
INVARIANTS NoSpurious MatchOnce NoLoss Emit
CHECK_DEADLOCK FALSE
