SPECIFICATION GenSpec
CONSTANTS
  Reqs <- ReqsSame
  Parts <- P111
  RegAfter <- RegFirst
  Dups = {}
  LookupAtomic = TRUE
  FailIdx = {3}
INVARIANTS NoSpurious MatchOnce NoLoss Emit
CHECK_DEADLOCK FALSE
