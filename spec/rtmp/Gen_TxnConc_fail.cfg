SPECIFICATION GenSpec
CONSTANTS
  Reqs <- ReqsSame
  Parts <- P111
  RegAfter <- RegFirst
  KeyOf <- IdKey
  Dups = {}
  LookupAtomic = TRUE
  FailIdx = {3}
INVARIANTS NoSpurious MatchOnce NoLoss RightType Emit
CHECK_DEADLOCK FALSE
