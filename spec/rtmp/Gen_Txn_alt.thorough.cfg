SPECIFICATION Spec
CONSTANTS
  Requests <- AltRequests
  PeerItems <- AltPeerItems
  WaitKinds <- McWaitKinds
  WaitTypes <- McWaitTypes
  MaxPeer = 3
  MaxOps = 3
  DeleteOnMatch = TRUE
  WaitDecodes = TRUE
INVARIANTS MatchOnce OnePerTid EveryResponseJudged Emit
CHECK_DEADLOCK FALSE
