SPECIFICATION Spec
CONSTANTS
  Dirs = {"A"}
  ChunkSizes = {}
  Shapes <- HeaderShapes
  AbsLens = {1, 128, 129, 300}
  RelLens = FALSE
  MaxWrites = 1
  WriterFollowsOwnSCS = TRUE
  HsOrder = "serial"
  HsReadExact = TRUE
  ScsSids = {0}
  ReaderScsAnySid = TRUE
  LazyFlushTypes = {}
  NoSharedState = TRUE
INVARIANTS NoDesync PrefixOk InFollowsOut AllDelivered Flushed Emit
CHECK_DEADLOCK FALSE
