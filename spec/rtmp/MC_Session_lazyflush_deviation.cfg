SPECIFICATION Spec
CONSTANTS
  Dirs = {"A"}
  ChunkSizes <- CtlSizes
  Shapes <- CtlShapes
  AbsLens = {1, 300}
  RelLens = TRUE
  MaxWrites = 2
  WriterFollowsOwnSCS = TRUE
  HsOrder = "serial"
  HsReadExact = TRUE
  ScsSids <- SidClasses
  ReaderScsAnySid = TRUE
  LazyFlushTypes = {3}
  NoSharedState = TRUE
INVARIANTS AllDelivered
CHECK_DEADLOCK FALSE
