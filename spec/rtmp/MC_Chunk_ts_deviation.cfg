SPECIFICATION Spec
CONSTANTS
  Msgs <- TsMsgs
  DataCids = {3}
  MaxMsgs = 2
  Fmts = {0, 1, 2, 3}
  AllForms = FALSE
  Atomic = FALSE
  FollowSCS = TRUE
  ExtDelta = FALSE
  Violations = {}
  LibrtmpPing = FALSE
  TopBits = FALSE
INVARIANTS DecodeOk
CHECK_DEADLOCK FALSE
