SPECIFICATION Spec
CONSTANTS
  Dirs = {"A", "B"}
  ChunkSizes = {}
  Shapes <- OneShape
  AbsLens = {1}
  RelLens = FALSE
  MaxWrites = 1
  WriterFollowsOwnSCS = TRUE
  HsOrder = "free"
  HsReadExact = FALSE
  ScsSids = {0}
  ReaderScsAnySid = TRUE
  LazyFlushTypes = {}
  NoSharedState = TRUE
INVARIANTS HsExact
CHECK_DEADLOCK FALSE
