SPECIFICATION Spec
CONSTANTS
  Reqs <- Reqs3
  Parts <- P132
  RegAfter <- RegFirst
  Dups = {3}
  LookupAtomic = TRUE
  FailIdx = {}
INVARIANTS NoSpurious MatchOnce NoLoss RegisterFirst
CHECK_DEADLOCK FALSE
VIEW McView
