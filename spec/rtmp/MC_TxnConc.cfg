SPECIFICATION Spec
CONSTANTS
  Reqs <- Reqs3
  Parts <- P132
  RegAfter <- RegFirst
  KeyOf <- IdKey
  Dups = {3}
  LookupAtomic = TRUE
  FailIdx = {}
INVARIANTS NoSpurious MatchOnce NoLoss RightType RegisterFirst
CHECK_DEADLOCK FALSE
VIEW McView
