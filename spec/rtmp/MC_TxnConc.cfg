SPECIFICATION Spec
CONSTANTS
  Reqs <- Reqs3
  Dups = {3}
  RegisterFirst = TRUE
INVARIANTS NoSpurious MatchOnce NoLoss
CHECK_DEADLOCK FALSE
VIEW McView
