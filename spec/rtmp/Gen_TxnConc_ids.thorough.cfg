SPECIFICATION GenSpec
CONSTANTS
  Reqs <- Reqs3
  Parts <- P111
  RegAfter <- RegFirst
  KeyOf <- IdKey
  Dups = {}
  LookupAtomic = TRUE
  FailIdx = {}
INVARIANTS NoSpurious MatchOnce NoLoss RightType EmitIds
CHECK_DEADLOCK FALSE
