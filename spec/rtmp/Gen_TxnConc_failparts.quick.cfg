SPECIFICATION GenSpec
CONSTANTS
  Reqs <- ReqsSame2
  Parts <- P13
  RegAfter <- RegFirst
  Dups = {}
  LookupAtomic = TRUE
  FailIdx = {2}
INVARIANTS NoSpurious MatchOnce NoLoss Emit
CHECK_DEADLOCK FALSE
