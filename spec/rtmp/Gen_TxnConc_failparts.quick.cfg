SPECIFICATION GenSpec
CONSTANTS
  Reqs <- ReqsSame2
  Parts <- P13
  RegAfter <- RegFirst
  KeyOf <- IdKey
  Dups = {}
  LookupAtomic = TRUE
  FailIdx = {2}
INVARIANTS NoSpurious MatchOnce NoLoss RightType Emit
CHECK_DEADLOCK FALSE
