SPECIFICATION Spec
CONSTANTS
  Requests <- McRequests
  PeerItems <- McPeerItems
  WaitKinds <- McWaitKinds
  WaitTypes <- McWaitTypes
  MaxPeer = 2
  MaxOps = 2
  DeleteOnMatch = TRUE
INVARIANTS MatchOnce OnePerTid Emit
CHECK_DEADLOCK FALSE
