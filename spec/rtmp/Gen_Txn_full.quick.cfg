SPECIFICATION Spec
CONSTANTS
  Requests <- McRequests
  PeerItems <- McPeerItems
  WaitKinds <- McWaitKinds
  WaitTypes <- McWaitTypes
  MaxPeer = 2
  MaxOps = 2
  DeleteOnMatch = TRUE
  WaitDecodes = TRUE
INVARIANTS MatchOnce OnePerTid EveryResponseJudged Emit
CHECK_DEADLOCK FALSE
