SPECIFICATION Spec
CONSTANTS
  Reqs <- ReqsSame
  Parts <- P112
  RegAfter <- RegFirst
  KeyOf <- IdKey
  Dups = {}
  LookupAtomic = TRUE
  FailIdx = {3}
INVARIANTS NoSpurious MatchOnce NoLoss RightType RegisterFirst
CHECK_DEADLOCK FALSE
VIEW McView
