SPECIFICATION Spec
CONSTANTS
  Reqs <- ReqsSame
  Dups = {}
  FailIdx = {3}
  RegisterFirst = TRUE
INVARIANTS NoSpurious MatchOnce NoLoss
CHECK_DEADLOCK FALSE
VIEW McView
