SPECIFICATION Spec
CONSTANTS
  Reqs <- ReqsSame
  Parts <- P112
  RegAfter <- RegFirst
  Dups = {}
  LookupAtomic = TRUE
  FailIdx = {3}
INVARIANTS NoSpurious MatchOnce NoLoss RegisterFirst
CHECK_DEADLOCK FALSE
VIEW McView
