SPECIFICATION Spec
CONSTANTS
  Dirs = {"A"}
  ChunkSizes <- CtlSizes
  Shapes <- CtlShapes
  AbsLens = {1, 300}
  RelLens = TRUE
  MaxWrites = 2
  WriterFollowsOwnSCS = TRUE
  HsOrder = "serial"
  HsReadExact = TRUE
  ScsSids <- SidClasses
  ReaderScsAnySid = FALSE
  LazyFlushTypes = {}
  NoSharedState = TRUE
INVARIANTS NoDesync
CHECK_DEADLOCK FALSE
