SPECIFICATION Spec
CONSTANTS
  Dirs = {"A"}
  ChunkSizes = {}
  Shapes <- HeaderShapes
  AbsLens = {1, 128, 129}
  RelLens = FALSE
  MaxWrites = 1
  WriterFollowsOwnSCS = TRUE
  HsOrder = "serial"
  HsReadExact = TRUE
INVARIANTS NoDesync PrefixOk InFollowsOut AllDelivered
CHECK_DEADLOCK FALSE
