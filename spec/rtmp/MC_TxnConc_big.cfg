SPECIFICATION Spec
CONSTANTS
  Reqs <- Reqs4
  Parts <- P2132
  RegAfter <- RegFirst
  KeyOf <- IdKey
  Dups = {3, 5}
  LookupAtomic = TRUE
  FailIdx = {}
INVARIANTS NoSpurious MatchOnce NoLoss RightType RegisterFirst
CHECK_DEADLOCK FALSE
VIEW McView
