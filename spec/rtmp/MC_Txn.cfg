SPECIFICATION Spec
CONSTANTS
  Requests <- McRequests
  PeerItems <- McPeerItems
  WaitKinds <- McWaitKinds
  WaitTypes <- McWaitTypes
  MaxPeer = 3
  MaxOps = 3
  DeleteOnMatch = TRUE
  WaitDecodes = TRUE
INVARIANTS MatchOnce OnePerTid EveryResponseJudged
CHECK_DEADLOCK FALSE
