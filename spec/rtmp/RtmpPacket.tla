----------------------------- MODULE RtmpPacket -----------------------------
(* RTMP packets (rtmp_specification_1.0 sections 5.4, 7.1, 7.2) as layout      *)
(* descriptors over a small AMF0 value language, their sizes, and the         *)
(* dispatch function that maps (message type, command name, pending request)  *)
(* to the packet type a receiver must produce.                                *)
EXTENDS Integers, Sequences, LD

\* ------------------------------------------------------------------ AMF0 values
\* N(b8): number as its 8 IEEE-754 bytes; S(bytes): string of literal bytes; SF(n,id): string of n
\* pattern bytes; Nul; Und; B(bool); O(pairs): object, pairs = sequence of <<key bytes, value>>
N(b8)     == [a |-> "num", b |-> b8]
S(bytes)  == [a |-> "str", b |-> bytes]
SF(n, id) == [a |-> "strf", n |-> n, id |-> id]
Nul       == [a |-> "null"]
Und       == [a |-> "undef"]
B(v)      == [a |-> "bool", v |-> v]
O(pairs)  == [a |-> "obj", p |-> pairs]

\* ASCII of the names used here (TLA+ has no ord())
Connect      == <<99, 111, 110, 110, 101, 99, 116>>
CreateStream == <<99, 114, 101, 97, 116, 101, 83, 116, 114, 101, 97, 109>>
Publish      == <<112, 117, 98, 108, 105, 115, 104>>
Play         == <<112, 108, 97, 121>>
CloseStream  == <<99, 108, 111, 115, 101, 83, 116, 114, 101, 97, 109>>
ResultName   == <<95, 114, 101, 115, 117, 108, 116>>
OnStatus     == <<111, 110, 83, 116, 97, 116, 117, 115>>
FCPublish    == <<70, 67, 80, 117, 98, 108, 105, 115, 104>>
Live         == <<108, 105, 118, 101>>
App          == <<97, 112, 112>>
TcUrl        == <<116, 99, 85, 114, 108>>
Level        == <<108, 101, 118, 101, 108>>
Code         == <<99, 111, 100, 101>>

\* IEEE-754 doubles used as transaction / stream ids
Num1   == <<63, 240, 0, 0, 0, 0, 0, 0>>          \* 1.0
Num2   == <<64, 0, 0, 0, 0, 0, 0, 0>>            \* 2.0
Num3   == <<64, 8, 0, 0, 0, 0, 0, 0>>            \* 3.0
Num7   == <<64, 28, 0, 0, 0, 0, 0, 0>>           \* 7.0
Num2_5 == <<64, 4, 0, 0, 0, 0, 0, 0>>            \* 2.5
NumM31 == <<65, 223, 255, 255, 255, 192, 0, 0>>  \* 2147483647.0
Num0   == <<0, 0, 0, 0, 0, 0, 0, 0>>             \* 0.0
Tids   == {Num1, Num2, Num3, Num7, Num2_5, NumM31}

RECURSIVE ValLD(_), PairsLD(_)
ValLD(v) ==
  CASE v.a = "num"   -> <<U8(0), Raw(v.b)>>
    [] v.a = "bool"  -> <<U8(1), U8(IF v.v THEN 1 ELSE 0)>>
    [] v.a = "str"   -> <<U8(2), U16(Len(v.b)), Raw(v.b)>>
    [] v.a = "strf"  -> <<U8(2), U16(v.n)>> \o (IF v.n > 0 THEN <<Fill(v.n, v.id)>> ELSE <<>>)
    [] v.a = "obj"   -> <<U8(3)>> \o PairsLD(v.p) \o <<U8(0), U8(0), U8(9)>>
    [] v.a = "null"  -> <<U8(5)>>
    [] v.a = "undef" -> <<U8(6)>>
PairsLD(ps) == IF ps = <<>> THEN <<>>
               ELSE <<U16(Len(Head(ps)[1])), Raw(Head(ps)[1])>> \o ValLD(Head(ps)[2]) \o PairsLD(Tail(ps))

\* ------------------------------------------------------------------ packets
\* A packet is [k |-> kind, ...fields]; `opt` sequences hold the optional trailing values.
PktLD(p) ==
  CASE p.k = "connect"         -> ValLD(S(Connect)) \o ValLD(N(p.tid)) \o ValLD(p.obj) \o (IF p.hasargs THEN ValLD(p.args) ELSE <<>>)
    [] p.k = "connectRes"      -> ValLD(S(ResultName)) \o ValLD(N(p.tid)) \o ValLD(p.obj) \o (IF p.hasargs THEN ValLD(p.args) ELSE <<>>)
    [] p.k = "createStream"    -> ValLD(S(CreateStream)) \o ValLD(N(p.tid)) \o ValLD(p.obj)
    [] p.k = "createStreamRes" -> ValLD(S(ResultName)) \o ValLD(N(p.tid)) \o ValLD(p.obj) \o ValLD(N(p.sid))
    [] p.k = "publish"         -> ValLD(S(Publish)) \o ValLD(N(p.tid)) \o ValLD(p.obj) \o ValLD(p.name) \o ValLD(p.type)
    [] p.k = "play"            -> ValLD(S(Play)) \o ValLD(N(p.tid)) \o ValLD(p.obj) \o ValLD(p.name)
    [] p.k = "call"            -> ValLD(S(p.cmd)) \o ValLD(N(p.tid)) \o (IF p.hasobj THEN ValLD(p.obj) ELSE <<>>)
                                  \o (IF p.hasargs THEN ValLD(p.args) ELSE <<>>)
    [] p.k = "scs"             -> <<U32X(p.hi, p.lo)>>
    [] p.k = "winack"          -> <<U32X(p.hi, p.lo)>>
    [] p.k = "peerbw"          -> <<U32X(p.hi, p.lo), U8(p.limit)>>
    [] p.k = "uc"              -> <<U16(p.et)>> \o
                                  (IF p.et = 26 THEN <<U8(p.d0)>>                      \* 0x1a: 1 byte of event data
                                   ELSE IF p.et = 3 THEN <<U32X(p.dhi, p.dlo), U32X(p.xhi, p.xlo)>>  \* SetBufferLength: 8 bytes
                                   ELSE <<U32X(p.dhi, p.dlo)>>)                         \* everything else: 4 bytes
PktSize(p) == ByteLen(PktLD(p))
UcBodyLen(et) == IF et = 26 THEN 1 ELSE IF et = 3 THEN 8 ELSE 4

\* message type carrying the packet
MsgType(p) == CASE p.k = "scs" -> 1 [] p.k = "uc" -> 4 [] p.k = "winack" -> 5 [] p.k = "peerbw" -> 6 [] OTHER -> 20

\* The packet type a receiver must produce for a command message, given the command name and the
\* request registered under the response's transaction id ("none" if there is none)
KindOfCommand(cmd, pendingName) ==
  IF cmd = ResultName
  THEN CASE pendingName = "connect"      -> "ConnectAppResPacket"
         [] pendingName = "createStream" -> "CreateStreamResPacket"
         [] OTHER                        -> "error"
  ELSE CASE cmd = Connect      -> "ConnectAppPacket"
         [] cmd = CreateStream -> "CreateStreamPacket"
         [] cmd = Publish      -> "PublishPacket"
         [] cmd = Play         -> "PlayPacket"
         [] OTHER              -> "CallPacket"
CmdOf(p) == CASE p.k = "connect" -> Connect [] p.k = "createStream" -> CreateStream [] p.k = "publish" -> Publish
              [] p.k = "play" -> Play [] p.k = "call" -> p.cmd [] OTHER -> ResultName
KindOf(p, pendingName) ==
  CASE p.k = "scs" -> "SetChunkSize" [] p.k = "winack" -> "WindowAcknowledgementSize"
    [] p.k = "peerbw" -> "SetPeerBandwidth" [] p.k = "uc" -> "UserControl"
    [] OTHER -> KindOfCommand(CmdOf(p), pendingName)
\* a request that the sender must remember until its response arrives
Registers(p) == p.k \in {"connect", "createStream"} /\ p.tid # Num0
ReqName(p) == IF p.k = "connect" THEN "connect" ELSE "createStream"
=============================================================================
