----------------------------- MODULE RtmpPacket -----------------------------
(* RTMP packets (rtmp_specification_1.0 sections 5.4, 7.1, 7.2) as layout      *)
(* descriptors over a small AMF0 value language, their sizes, and the         *)
(* dispatch function that maps (message type, command name, pending request)  *)
(* to the packet type a receiver must produce.                                *)
EXTENDS Integers, Sequences, LD

\* ------------------------------------------------------------------ AMF0 values
\* N(b8): number as its 8 IEEE-754 bytes; S(bytes): string of literal bytes; SF(n,id): string of n
\* pattern bytes; Nul; Und; B(bool); O(pairs): object, pairs = sequence of <<key bytes, value>>
N(b8)     == [a |-> "num", b |-> b8]
S(bytes)  == [a |-> "str", b |-> bytes]
SF(n, id) == [a |-> "strf", n |-> n, id |-> id]
Nul       == [a |-> "null"]
Und       == [a |-> "undef"]
B(v)      == [a |-> "bool", v |-> v]
O(pairs)  == [a |-> "obj", p |-> pairs]

\* ASCII of the names used here (TLA+ has no ord())
Connect      == <<99, 111, 110, 110, 101, 99, 116>>
CreateStream == <<99, 114, 101, 97, 116, 101, 83, 116, 114, 101, 97, 109>>
Publish      == <<112, 117, 98, 108, 105, 115, 104>>
Play         == <<112, 108, 97, 121>>
CloseStream  == <<99, 108, 111, 115, 101, 83, 116, 114, 101, 97, 109>>
ResultName   == <<95, 114, 101, 115, 117, 108, 116>>
OnStatus     == <<111, 110, 83, 116, 97, 116, 117, 115>>
FCPublish    == <<70, 67, 80, 117, 98, 108, 105, 115, 104>>
Live         == <<108, 105, 118, 101>>
App          == <<97, 112, 112>>
TcUrl        == <<116, 99, 85, 114, 108>>
Level        == <<108, 101, 118, 101, 108>>
Code         == <<99, 111, 100, 101>>

\* IEEE-754 doubles used as transaction / stream ids
Num1   == <<63, 240, 0, 0, 0, 0, 0, 0>>          \* 1.0
Num2   == <<64, 0, 0, 0, 0, 0, 0, 0>>            \* 2.0
Num3   == <<64, 8, 0, 0, 0, 0, 0, 0>>            \* 3.0
Num7   == <<64, 28, 0, 0, 0, 0, 0, 0>>           \* 7.0
Num2_5 == <<64, 4, 0, 0, 0, 0, 0, 0>>            \* 2.5
NumM31 == <<65, 223, 255, 255, 255, 192, 0, 0>>  \* 2147483647.0
Num0   == <<0, 0, 0, 0, 0, 0, 0, 0>>             \* 0.0
Tids   == {Num1, Num2, Num3, Num7, Num2_5, NumM31}

RECURSIVE ValLD(_), PairsLD(_)
ValLD(v) ==
  CASE v.a = "num"   -> <<U8(0), Raw(v.b)>>
    [] v.a = "bool"  -> <<U8(1), U8(IF v.v THEN 1 ELSE 0)>>
    [] v.a = "str"   -> <<U8(2), U16(Len(v.b)), Raw(v.b)>>
    [] v.a = "strf"  -> <<U8(2), U16(v.n)>> \o (IF v.n > 0 THEN <<Fill(v.n, v.id)>> ELSE <<>>)
    [] v.a = "obj"   -> <<U8(3)>> \o PairsLD(v.p) \o <<U8(0), U8(0), U8(9)>>
    [] v.a = "null"  -> <<U8(5)>>
    [] v.a = "undef" -> <<U8(6)>>
PairsLD(ps) == IF ps = <<>> THEN <<>>
               ELSE <<U16(Len(Head(ps)[1])), Raw(Head(ps)[1])>> \o ValLD(Head(ps)[2]) \o PairsLD(Tail(ps))

\* ------------------------------------------------------------------ packets
\* A packet is [k |-> kind, ...fields]; `opt` sequences hold the optional trailing values.
PktLD(p) ==
  CASE p.k = "connect"         -> ValLD(S(Connect)) \o ValLD(N(p.tid)) \o ValLD(p.obj) \o (IF p.hasargs THEN ValLD(p.args) ELSE <<>>)
    [] p.k = "connectRes"      -> ValLD(S(ResultName)) \o ValLD(N(p.tid)) \o ValLD(p.obj) \o (IF p.hasargs THEN ValLD(p.args) ELSE <<>>)
    [] p.k = "createStream"    -> ValLD(S(CreateStream)) \o ValLD(N(p.tid)) \o ValLD(p.obj)
    [] p.k = "createStreamRes" -> ValLD(S(ResultName)) \o ValLD(N(p.tid)) \o ValLD(p.obj) \o ValLD(N(p.sid))
    [] p.k = "publish"         -> ValLD(S(Publish)) \o ValLD(N(p.tid)) \o ValLD(p.obj) \o ValLD(p.name) \o ValLD(p.type)
    [] p.k = "play"            -> ValLD(S(Play)) \o ValLD(N(p.tid)) \o ValLD(p.obj) \o ValLD(p.name)
    [] p.k = "call"            -> ValLD(S(p.cmd)) \o ValLD(N(p.tid)) \o (IF p.hasobj THEN ValLD(p.obj) ELSE <<>>)
                                  \o (IF p.hasargs THEN ValLD(p.args) ELSE <<>>)
    [] p.k = "scs"             -> <<U32X(p.hi, p.lo)>>
    [] p.k = "winack"          -> <<U32X(p.hi, p.lo)>>
    [] p.k = "peerbw"          -> <<U32X(p.hi, p.lo), U8(p.limit)>>
    [] p.k = "uc"              -> <<U16(p.et)>> \o
                                  (IF p.et = 26 THEN <<U8(p.d0)>>                      \* 0x1a: 1 byte of event data
                                   ELSE IF p.et = 3 THEN <<U32X(p.dhi, p.dlo), U32X(p.xhi, p.xlo)>>  \* SetBufferLength: 8 bytes
                                   ELSE <<U32X(p.dhi, p.dlo)>>)                         \* everything else: 4 bytes
PktSize(p) == ByteLen(PktLD(p))
UcBodyLen(et) == IF et = 26 THEN 1 ELSE IF et = 3 THEN 8 ELSE 4

\* message type carrying the packet
MsgType(p) == CASE p.k = "scs" -> 1 [] p.k = "uc" -> 4 [] p.k = "winack" -> 5 [] p.k = "peerbw" -> 6 [] OTHER -> 20

\* The packet type a receiver must produce for a command message, given the command name and the
\* request registered under the response's transaction id ("none" if there is none)
KindOfCommand(cmd, pendingName) ==
  IF cmd = ResultName
  THEN CASE pendingName = "connect"      -> "ConnectAppResPacket"
         [] pendingName = "createStream" -> "CreateStreamResPacket"
         [] OTHER                        -> "error"
  ELSE CASE cmd = Connect      -> "ConnectAppPacket"
         [] cmd = CreateStream -> "CreateStreamPacket"
         [] cmd = Publish      -> "PublishPacket"
         [] cmd = Play         -> "PlayPacket"
         [] OTHER              -> "CallPacket"
CmdOf(p) == CASE p.k = "connect" -> Connect [] p.k = "createStream" -> CreateStream [] p.k = "publish" -> Publish
              [] p.k = "play" -> Play [] p.k = "call" -> p.cmd [] OTHER -> ResultName
KindOf(p, pendingName) ==
  CASE p.k = "scs" -> "SetChunkSize" [] p.k = "winack" -> "WindowAcknowledgementSize"
    [] p.k = "peerbw" -> "SetPeerBandwidth" [] p.k = "uc" -> "UserControl"
    [] OTHER -> KindOfCommand(CmdOf(p), pendingName)
\* a request that the sender must remember until its response arrives
Registers(p) == p.k \in {"connect", "createStream"} /\ p.tid # Num0
ReqName(p) == IF p.k = "connect" THEN "connect" ELSE "createStream"

\* ------------------------------------------------------------------ field view of a packet (C03 codec model)
\* A packet seen as the sequence of its fields in wire order.  A field holds an AMF0 value (above), one of the
\* numeric values below (control packets), or Absent (an optional trailing field that is not sent).
Absent       == [a |-> "absent"]
U32V(hi, lo) == [a |-> "u32", hi |-> hi, lo |-> lo]
U16V(v)      == [a |-> "u16", v |-> v]
U8V(v)       == [a |-> "u8", v |-> v]
EmptyStr     == S(<<>>)

\* a slot: the library's field name, the class of value it takes (str / num / obj = object only / any = any AMF0
\* value / u32 / u16 / u8), and whether it is an optional trailing field
Slot(f, c, opt) == [f |-> f, c |-> c, opt |-> opt]
CmdHead == <<Slot("CommandName", "str", FALSE), Slot("TransactionID", "num", FALSE)>>
SlotsOf(k) ==
  CASE k \in {"connect", "connectRes"} -> CmdHead \o <<Slot("CommandObject", "obj", FALSE), Slot("Args", "obj", TRUE)>>
    [] k = "createStream"    -> CmdHead \o <<Slot("CommandObject", "any", FALSE)>>
    [] k = "createStreamRes" -> CmdHead \o <<Slot("CommandObject", "any", FALSE), Slot("StreamID", "num", FALSE)>>
    [] k = "publish"         -> CmdHead \o <<Slot("CommandObject", "any", FALSE), Slot("StreamName", "str", FALSE),
                                             Slot("StreamType", "str", FALSE)>>
    [] k = "play"            -> CmdHead \o <<Slot("CommandObject", "any", FALSE), Slot("StreamName", "str", FALSE)>>
    [] k = "call"            -> CmdHead \o <<Slot("CommandObject", "any", TRUE), Slot("Args", "any", TRUE)>>
    [] k = "scs"             -> <<Slot("ChunkSize", "u32", FALSE)>>
    [] k = "winack"          -> <<Slot("AckSize", "u32", FALSE)>>
    [] k = "peerbw"          -> <<Slot("Bandwidth", "u32", FALSE), Slot("LimitType", "u8", FALSE)>>
    [] k = "uc"              -> <<Slot("EventType", "u16", FALSE), Slot("EventData", "data", FALSE), Slot("ExtraData", "u32", TRUE)>>
IsCommandKind(k) == k \in {"connect", "connectRes", "createStream", "createStreamRes", "publish", "play", "call"}

\* the values a packet holds, slot by slot
Fields(p) ==
  CASE p.k = "connect"         -> <<S(Connect), N(p.tid), p.obj, IF p.hasargs THEN p.args ELSE Absent>>
    [] p.k = "connectRes"      -> <<S(ResultName), N(p.tid), p.obj, IF p.hasargs THEN p.args ELSE Absent>>
    [] p.k = "createStream"    -> <<S(CreateStream), N(p.tid), p.obj>>
    [] p.k = "createStreamRes" -> <<S(ResultName), N(p.tid), p.obj, N(p.sid)>>
    [] p.k = "publish"         -> <<S(Publish), N(p.tid), p.obj, p.name, p.type>>
    [] p.k = "play"            -> <<S(Play), N(p.tid), p.obj, p.name>>
    [] p.k = "call"            -> <<S(p.cmd), N(p.tid), IF p.hasobj THEN p.obj ELSE Absent, IF p.hasargs THEN p.args ELSE Absent>>
    [] p.k = "scs"             -> <<U32V(p.hi, p.lo)>>
    [] p.k = "winack"          -> <<U32V(p.hi, p.lo)>>
    [] p.k = "peerbw"          -> <<U32V(p.hi, p.lo), U8V(p.limit)>>
    [] p.k = "uc"              -> <<U16V(p.et), IF p.et = 26 THEN U8V(p.d0) ELSE U32V(p.dhi, p.dlo),
                                    IF p.et = 3 THEN U32V(p.xhi, p.xlo) ELSE Absent>>

\* pattern strings as literal bytes, so that decoded values compare with = 
RECURSIVE NormVal(_)
NormVal(v) ==
  CASE v.a = "strf" -> S(FieldBytes(Fill(v.n, v.id)))
    [] v.a = "obj"  -> O([i \in 1..Len(v.p) |-> <<v.p[i][1], NormVal(v.p[i][2])>>])
    [] OTHER        -> v
NormFields(fs) == [i \in 1..Len(fs) |-> NormVal(fs[i])]

\* What the receiver's packet holds BEFORE it is unmarshalled into:
\*  "ctor": the packet made by the library's constructor for that type (the path of DecodeMessage / ExpectPacket);
\*          tid is the transaction id the response constructors are given (taken from the wire)
\*  "zero": a blank packet (every string empty, every number 0, no values)
\* The outcome of unmarshalling must not depend on it.
Target(k, into, tid) ==
  IF into = "ctor"
  THEN CASE k = "connect"         -> <<S(Connect), N(Num1), O(<<>>), Absent>>
         [] k = "connectRes"      -> <<S(ResultName), N(tid), O(<<>>), Absent>>
         [] k = "createStream"    -> <<S(CreateStream), N(Num2), Nul>>
         [] k = "createStreamRes" -> <<S(ResultName), N(tid), Nul, N(Num0)>>
         [] k = "publish"         -> <<S(Publish), N(Num0), Nul, EmptyStr, S(Live)>>
         [] k = "play"            -> <<S(Play), N(Num0), Nul, EmptyStr>>
         [] k = "call"            -> <<EmptyStr, N(Num0), Absent, Absent>>
         [] k = "scs"             -> <<U32V(0, 128)>>
         [] k = "winack"          -> <<U32V(0, 0)>>
         [] k = "peerbw"          -> <<U32V(0, 0), U8V(0)>>
         [] k = "uc"              -> <<U16V(0), U32V(0, 0), Absent>>
  ELSE CASE k \in {"connect", "connectRes"} -> <<EmptyStr, N(Num0), O(<<>>), Absent>>
         [] k = "createStream"    -> <<EmptyStr, N(Num0), Absent>>
         [] k = "createStreamRes" -> <<EmptyStr, N(Num0), Absent, N(Num0)>>
         [] k = "publish"         -> <<EmptyStr, N(Num0), Absent, EmptyStr, EmptyStr>>
         [] k = "play"            -> <<EmptyStr, N(Num0), Absent, EmptyStr>>
         [] k = "call"            -> <<EmptyStr, N(Num0), Absent, Absent>>
         [] k = "scs"             -> <<U32V(0, 0)>>
         [] k = "winack"          -> <<U32V(0, 0)>>
         [] k = "peerbw"          -> <<U32V(0, 0), U8V(0)>>
         [] k = "uc"              -> <<U16V(0), U32V(0, 0), Absent>>

\* Named deviations of the codec (dev = "none": the property):
\*  "empty-is-absent":   a trailing string field that is empty is not marshalled (and not counted by Size); the
\*                       decoder, finding nothing left, keeps what its packet held
\*  "trust-preset":      the decoder checks and skips the command name but does not store it (it relies on the
\*                       constructor having set it)
\*  "zero-keeps-preset": a number 0 on the wire is taken as "not set": the decoder keeps what its packet held
IsEmptyStr(v) == (v.a = "str" /\ v.b = <<>>) \/ (v.a = "strf" /\ v.n = 0)
IsZeroNum(v)  == (v.a = "num" /\ v.b = Num0) \/ (v.a = "u32" /\ v.hi = 0 /\ v.lo = 0)
FieldLD(v) ==
  CASE v.a = "absent" -> <<>>
    [] v.a = "u32"    -> <<U32X(v.hi, v.lo)>>
    [] v.a = "u16"    -> <<U16(v.v)>>
    [] v.a = "u8"     -> <<U8(v.v)>>
    [] OTHER          -> ValLD(v)
Omitted(k, fs, i, dev) == dev = "empty-is-absent" /\ IsCommandKind(k) /\ i = Len(fs) /\ i > 3
                          /\ SlotsOf(k)[i].c = "str" /\ IsEmptyStr(fs[i])
RECURSIVE EncFrom(_, _, _, _)
EncFrom(k, fs, i, dev) == IF i > Len(fs) THEN <<>>
                          ELSE (IF Omitted(k, fs, i, dev) THEN <<>> ELSE FieldLD(fs[i])) \o EncFrom(k, fs, i + 1, dev)
EncFieldsD(k, fs, dev) == EncFrom(k, fs, 1, dev)          \* MarshalBinary
SizeD(k, fs, dev)      == ByteLen(EncFieldsD(k, fs, dev)) \* Size()

\* ---- byte-level decoder of the value language: [ok, v, n] = value and number of bytes it occupies at 1-based offset o
DErr == [ok |-> FALSE]
DOk(v, n) == [ok |-> TRUE, v |-> v, n |-> n]
RECURSIVE DecVal(_, _), DecProps(_, _, _, _)
DecVal(b, o) ==
  IF o > Len(b) THEN DErr
  ELSE CASE b[o] = 0 -> IF o + 8 > Len(b) THEN DErr ELSE DOk(N(Sub(b, o + 1, 8)), 9)
         [] b[o] = 1 -> IF o + 1 > Len(b) THEN DErr ELSE DOk(B(b[o + 1] # 0), 2)
         [] b[o] = 2 -> IF o + 2 > Len(b) THEN DErr
                        ELSE LET l == BE16(b, o + 1) IN IF o + 2 + l > Len(b) THEN DErr ELSE DOk(S(Sub(b, o + 3, l)), 3 + l)
         [] b[o] = 3 -> DecProps(b, o + 1, o, <<>>)
         [] b[o] = 5 -> DOk(Nul, 1)
         [] b[o] = 6 -> DOk(Und, 1)
         [] OTHER    -> DErr
\* properties until 00 00 09; an empty name followed by anything else is a property
DecProps(b, o, start, acc) ==
  IF o + 2 > Len(b) THEN DErr
  ELSE LET l == BE16(b, o) IN
       IF l = 0 /\ b[o + 2] = 9 THEN DOk(O(acc), o + 3 - start)
       ELSE IF o + 1 + l > Len(b) THEN DErr
       ELSE LET d == DecVal(b, o + 2 + l) IN
            IF ~d.ok THEN DErr ELSE DecProps(b, o + 2 + l + d.n, start, Append(acc, <<Sub(b, o + 2, l), d.v>>))

ClassOk(c, v) == CASE c = "str" -> v.a = "str" [] c = "num" -> v.a = "num" [] c = "obj" -> v.a = "obj" [] OTHER -> TRUE

\* UnmarshalBinary of a command packet of kind k into a packet holding `target`, shaped like the implementation:
\* one slot after the other, the offset advanced by what the slot occupied.  [ok, f] = the fields afterwards.
RECURSIVE DecSlots(_, _, _, _, _, _, _)
DecSlots(k, b, o, target, i, acc, dev) ==
  LET sl == SlotsOf(k) IN
  IF i > Len(sl) THEN [ok |-> TRUE, f |-> acc]
  ELSE IF o > Len(b)                                     \* nothing left
       THEN IF sl[i].opt THEN DecSlots(k, b, o, target, i + 1, Append(acc, Absent), dev)   \* absent, whatever the packet held
            ELSE IF dev = "empty-is-absent" /\ sl[i].c = "str" /\ i = Len(sl) /\ i > 3
                 THEN DecSlots(k, b, o, target, i + 1, Append(acc, target[i]), dev)
            ELSE DErr
       ELSE LET d == DecVal(b, o) IN
            IF ~d.ok THEN DErr
            ELSE IF ~ClassOk(sl[i].c, d.v) THEN DErr
            ELSE LET keep == \/ (dev = "trust-preset" /\ i = 1)
                             \/ (dev = "zero-keeps-preset" /\ sl[i].c = "num" /\ IsZeroNum(d.v))
                 IN DecSlots(k, b, o + d.n, target, i + 1, Append(acc, IF keep THEN target[i] ELSE d.v), dev)

\* UnmarshalBinary of a control packet
DecCtl(k, b, target, dev) ==
  LET u32(o)   == U32V(BE16(b, o), BE16(b, o + 2))
      kept(v, i) == IF dev = "zero-keeps-preset" /\ IsZeroNum(v) THEN target[i] ELSE v
  IN CASE k \in {"scs", "winack"} -> IF Len(b) < 4 THEN DErr ELSE [ok |-> TRUE, f |-> <<kept(u32(1), 1)>>]
       [] k = "peerbw" -> IF Len(b) < 5 THEN DErr ELSE [ok |-> TRUE, f |-> <<kept(u32(1), 1), U8V(b[5])>>]
       [] k = "uc"     -> IF Len(b) < 2 THEN DErr
                          ELSE LET et == BE16(b, 1) IN
                               IF Len(b) < 2 + UcBodyLen(et) THEN DErr
                               ELSE [ok |-> TRUE, f |-> <<U16V(et), IF et = 26 THEN U8V(b[3]) ELSE u32(3),
                                                          IF et = 3 THEN u32(7) ELSE Absent>>]

DecPktD(k, b, target, dev) == IF IsCommandKind(k) THEN DecSlots(k, b, 1, target, 1, <<>>, dev) ELSE DecCtl(k, b, target, dev)

\* The kind the receiving protocol gives a message (type mt, payload b), given the request it has outstanding
KindOfGoType(t) == CASE t = "ConnectAppPacket" -> "connect" [] t = "ConnectAppResPacket" -> "connectRes"
                     [] t = "CreateStreamPacket" -> "createStream" [] t = "CreateStreamResPacket" -> "createStreamRes"
                     [] t = "PublishPacket" -> "publish" [] t = "PlayPacket" -> "play" [] t = "CallPacket" -> "call"
                     [] OTHER -> "error"
DispatchKind(mt, b, pendingName) ==
  CASE mt = 1 -> "scs" [] mt = 4 -> "uc" [] mt = 5 -> "winack" [] mt = 6 -> "peerbw"
    [] mt = 20 -> LET d == DecVal(b, 1) IN
                  IF ~d.ok \/ d.v.a # "str" THEN "error" ELSE KindOfGoType(KindOfCommand(d.v.b, pendingName))
    [] OTHER -> "error"
\* the transaction id of a command on the wire (the response constructors are given it)
WireTid(b) == LET d == DecVal(b, 1) IN
              IF ~d.ok THEN Num0 ELSE LET t == DecVal(b, 1 + d.n) IN IF t.ok /\ t.v.a = "num" THEN t.v.b ELSE Num0
PendingFor(p) == CASE p.k = "connectRes" -> "connect" [] p.k = "createStreamRes" -> "createStream" [] OTHER -> "none"
=============================================================================
