SPECIFICATION Spec
CONSTANTS
  Dirs = {"A", "B"}
  ChunkSizes = {4096}
  Shapes <- OneShape
  AbsLens = {1, 300}
  RelLens = FALSE
  MaxWrites = 3
  WriterFollowsOwnSCS = TRUE
  HsOrder = "free"
  HsReadExact = TRUE
  ScsSids = {0}
  ReaderScsAnySid = TRUE
  LazyFlushTypes = {}
  NoSharedState = TRUE
INVARIANTS NoDesync PrefixOk InFollowsOut Independent AllDelivered HandshakeBytes HsExact NoByteLost SessionAfterHandshake
VIEW NoHistory
CHECK_DEADLOCK FALSE
