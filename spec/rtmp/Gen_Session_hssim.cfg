SPECIFICATION Spec
CONSTANTS
  Dirs = {"A", "B"}
  ChunkSizes <- AgreeSizes
  Shapes <- HeaderShapes
  AbsLens = {1, 300, 65535, 65536}
  RelLens = TRUE
  MaxWrites = 8
  WriterFollowsOwnSCS = TRUE
  HsOrder = "free"
  HsReadExact = TRUE
  ScsSids <- SidClasses
  ReaderScsAnySid = TRUE
  LazyFlushTypes = {}
  NoSharedState = TRUE
INVARIANTS NoDesync HsExact Emit
CHECK_DEADLOCK FALSE
