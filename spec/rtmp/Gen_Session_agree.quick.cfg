SPECIFICATION Spec
CONSTANTS
  Dirs = {"A"}
  ChunkSizes <- AgreeSizes
  Shapes <- OneShape
  AbsLens = {1, 65536}
  RelLens = TRUE
  MaxWrites = 3
  WriterFollowsOwnSCS = TRUE
  HsOrder = "serial"
  HsReadExact = TRUE
  ScsSids = {0}
  ReaderScsAnySid = TRUE
  LazyFlushTypes = {}
  NoSharedState = TRUE
INVARIANTS NoDesync Emit
CHECK_DEADLOCK FALSE
