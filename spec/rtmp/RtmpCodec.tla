------------------------------ MODULE RtmpCodec ------------------------------
(* The journey of one RTMP packet (C03, codec part): the sender constructs it, *)
(* marshals it, the message travels, the receiver creates the packet it        *)
(* unmarshals into - through the protocol (DecodeMessage / ExpectPacket: the   *)
(* type is found by dispatch and made by the library's constructor, which      *)
(* presets some fields) or directly into a blank packet of the known type -,   *)
(* unmarshals, and marshals what it got again.                                 *)
(* One action per call: MarshalBinary, (dispatch +) UnmarshalBinary,           *)
(* MarshalBinary of the decoded packet.  The encoder is the layout of          *)
(* RtmpPacket (an LD), the decoder works on the expanded BYTES, slot by slot.  *)
EXTENDS RtmpPacket, TLC

CONSTANTS Packets,   \* the packets the sender may construct
          Dev        \* "none" or a named deviation of RtmpPacket!EncFieldsD / DecSlots

VARIABLES phase,     \* "built" -> "marshalled" -> "decoded" -> "remarshalled"
          sent,      \* the sender's packet
          wire,      \* the payload, bytes
          into,      \* "ctor" / "zero": what the receiver unmarshalled into
          got,       \* [ok, k, f]: the receiver's packet after unmarshalling (kind, fields)
          wire2      \* what the receiver's packet marshals to
vars == <<phase, sent, wire, into, got, wire2>>

Init == /\ phase = "built" /\ sent \in Packets
        /\ wire = <<>> /\ into = "none" /\ got = [ok |-> FALSE] /\ wire2 = <<>>

Marshal ==
  /\ phase = "built"
  /\ wire' = Bytes(EncFieldsD(sent.k, Fields(sent), Dev))
  /\ phase' = "marshalled"
  /\ UNCHANGED <<sent, into, got, wire2>>

\* t = "ctor": the protocol finds the type (message type, command name, outstanding request) and constructs it;
\* t = "zero": the caller knows the type and unmarshals into a blank packet
Unmarshal(t) ==
  /\ phase = "marshalled"
  /\ into' = t
  /\ LET k == IF t = "ctor" THEN DispatchKind(MsgType(sent), wire, PendingFor(sent)) ELSE sent.k IN
     got' = IF k = "error" THEN [ok |-> FALSE]
            ELSE LET d == DecPktD(k, wire, Target(k, t, IF IsCommandKind(k) THEN WireTid(wire) ELSE Num0), Dev) IN
                 IF d.ok THEN [ok |-> TRUE, k |-> k, f |-> d.f] ELSE [ok |-> FALSE]
  /\ phase' = "decoded"
  /\ UNCHANGED <<sent, wire, wire2>>

Remarshal ==
  /\ phase = "decoded" /\ got.ok
  /\ wire2' = Bytes(EncFieldsD(got.k, got.f, Dev))
  /\ phase' = "remarshalled"
  /\ UNCHANGED <<sent, wire, into, got>>

Next == Marshal \/ (\E t \in {"ctor", "zero"} : Unmarshal(t)) \/ Remarshal
Spec == Init /\ [][Next]_vars

Decoded == phase \in {"decoded", "remarshalled"}
\* the new field view and the layout of RtmpPacket are the same bytes
LayoutAgrees       == Bytes(EncFieldsD(sent.k, Fields(sent), "none")) = Bytes(PktLD(sent))
\* marshals to exactly Size() bytes
SizeIsBytes        == phase # "built" => SizeD(sent.k, Fields(sent), Dev) = Len(wire)
\* arrives as the packet type the protocol defines for it
ArrivesAsDefined   == Decoded => got.ok /\ got.k = sent.k
\* unmarshals back to equal field values - whatever the receiver's packet held before
FieldsSurvive      == Decoded /\ got.ok => got.f = NormFields(Fields(sent))
\* the decoded packet's Size() is the length of the payload it was decoded from
DecodedSizeIsPayload == Decoded /\ got.ok => SizeD(got.k, got.f, Dev) = Len(wire)
\* re-marshalling to the same payload
RemarshalIsPayload == phase = "remarshalled" => wire2 = wire
=============================================================================
