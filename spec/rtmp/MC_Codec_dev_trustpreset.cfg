SPECIFICATION Spec
CONSTANTS
  Packets <- McPackets
  Dev = "trust-preset"
INVARIANTS FieldsSurvive LayoutAgrees SizeIsBytes ArrivesAsDefined DecodedSizeIsPayload RemarshalIsPayload
CHECK_DEADLOCK FALSE
