-------------------------- MODULE Gen_RtmpPacket --------------------------
(* The packet matrix of C03: every packet kind x presence of the optional      *)
(* trailing values x value classes, with the specification's layout, size and  *)
(* the type a receiver must give it.  All 65536 user-control event types.      *)
EXTENDS RtmpPacket, TLC, Json

CONSTANTS Thorough

EmptyObj == O(<<>>)
AppObj   == O(<< <<App, S(Live)>>, <<TcUrl, SF(300, 3)>> >>)
NestObj  == O(<< <<Level, O(<< <<Code, N(Num2_5)>>, <<App, B(TRUE)>> >>)>>, <<Code, Und>>, <<App, Nul>> >>)
BigObj   == O(<< <<TcUrl, SF(65535, 5)>>, <<App, SF(0, 6)>> >>)
\* property names may be empty: an empty name followed by a value is a pair, only 00 00 09 ends the object
EKObj    == O(<< <<App, S(Live)>>, << <<>>, N(Num7)>>, <<Code, Nul>> >>)
EKEnd    == O(<< <<App, B(FALSE)>>, << <<>>, S(Live)>> >>)
Objs     == {EmptyObj, AppObj, NestObj, EKObj, EKEnd} \cup (IF Thorough THEN {BigObj} ELSE {})
\* Value classes.  Every string-valued field: the empty string, one byte, the value the library's constructor presets
\* for that field (if it presets one) and values different from it; every number: 0, the constructor's preset, others;
\* every AMF0 value slot: null, undefined, an object (and absent where the slot is an optional trailing one).
Rec      == <<114, 101, 99, 111, 114, 100>>        \* "record"
Liv      == <<108, 105, 118>>                      \* "liv": a proper prefix of the preset
Names    == {S(Live), SF(0, 7), SF(1, 7), SF(300, 7)} \cup (IF Thorough THEN {SF(65535, 8), S(Publish)} ELSE {})
PubTypes == {EmptyStr, SF(1, 9), S(Live), S(Rec)} \cup (IF Thorough THEN {S(Liv), SF(300, 9)} ELSE {})
CmdNames == {<<>>, <<120>>, OnStatus, FCPublish, CloseStream}
U32s     == {<<0, 0>>, <<0, 1>>, <<0, 128>>, <<1, 0>>, <<32767, 65535>>, <<32768, 0>>, <<65535, 65535>>}
STids    == IF Thorough THEN Tids ELSE {Num1, Num2_5, NumM31}
ZTids    == STids \cup {Num0, Num2}                \* with 0 and the presets of the constructors (1, 2)
CmdObjs  == {Nul, Und, EmptyObj} \cup (IF Thorough THEN {AppObj} ELSE {})
StrObj   == O(<< <<App, EmptyStr>>, <<Code, SF(1, 4)>>, <<Level, N(Num0)>>, <<TcUrl, B(FALSE)>> >>)   \* empty / one-byte / zero inside a tree

Commands ==
       {[k |-> "connect", tid |-> Num1, obj |-> o, hasargs |-> h, args |-> a] : o \in Objs \cup {StrObj}, h \in BOOLEAN, a \in {EmptyObj, AppObj, EKObj}}
  \cup {[k |-> "connectRes", tid |-> t, obj |-> o, hasargs |-> h, args |-> a] : t \in STids, o \in Objs \cup {StrObj}, h \in BOOLEAN, a \in {EmptyObj, NestObj}}
  \cup {[k |-> "createStream", tid |-> t, obj |-> o] : t \in Tids \cup {Num0}, o \in {Nul, Und, EmptyObj}}
  \cup {[k |-> "createStreamRes", tid |-> t, obj |-> o, sid |-> s] : t \in Tids, o \in {Nul, Und, EmptyObj}, s \in {Num1, Num2_5, NumM31, Num0}}
  \cup {[k |-> "publish", tid |-> t, obj |-> o, name |-> n, type |-> ty] : t \in ZTids, o \in CmdObjs, n \in Names, ty \in PubTypes}
  \cup {[k |-> "play", tid |-> t, obj |-> o, name |-> n] : t \in ZTids, o \in CmdObjs, n \in Names}
  \cup {[k |-> "call", cmd |-> c, tid |-> t, hasobj |-> ho[1], obj |-> o, hasargs |-> ho[2], args |-> a] :
           c \in CmdNames, t \in {Num0, Num3}, ho \in {<<FALSE, FALSE>>, <<TRUE, FALSE>>, <<TRUE, TRUE>>},
           o \in {Nul, Und, AppObj, N(Num2)}, a \in {Nul, Und, AppObj, S(Live), EmptyStr, B(TRUE), B(FALSE), N(NumM31), N(Num0), EKEnd}}
Controls ==
       {[k |-> "scs", hi |-> u[1], lo |-> u[2]] : u \in U32s}
  \cup {[k |-> "winack", hi |-> u[1], lo |-> u[2]] : u \in U32s}
  \cup {[k |-> "peerbw", hi |-> u[1], lo |-> u[2], limit |-> l] : u \in U32s, l \in {0, 1, 2, 255}}
UserControls ==
       {[k |-> "uc", et |-> e, dhi |-> 43690, dlo |-> 21845, xhi |-> 4660, xlo |-> 22136, d0 |-> 129] : e \in 0..65535}
  \cup {[k |-> "uc", et |-> e, dhi |-> u[1], dlo |-> u[2], xhi |-> u[2], xlo |-> u[1], d0 |-> u[2] % 256] : e \in {0, 3, 6, 7, 26, 27, 65535}, u \in U32s}

VARIABLES p
Init == p \in Commands \cup Controls \cup UserControls
Next == FALSE /\ UNCHANGED p

\* the request the receiver must have sent for a response to be decodable
Pending(pkt) == PendingFor(pkt)
\* the fields one by one: the library's name of the field, the value, its layout
FieldRecs(pkt) == LET fs == Fields(pkt) sl == SlotsOf(pkt.k) IN [i \in 1..Len(fs) |->
                    [f |-> sl[i].f, v |-> fs[i], e |-> IF IsCommandKind(pkt.k) THEN FieldLD(fs[i]) ELSE <<>>]]
Emit == PrintT(<<"CASE", ToJson([p |-> p, enc |-> PktLD(p), size |-> PktSize(p), mtype |-> MsgType(p),
                                 pending |-> Pending(p), kind |-> KindOf(p, Pending(p)), fields |-> FieldRecs(p)])>>)
SizeSane == PktSize(p) >= 3 /\ (p.k = "uc" => PktSize(p) = 2 + UcBodyLen(p.et))
\* every packet of the matrix makes the journey of RtmpCodec inside TLC (byte-level decoder of the specification; the
\* 64 KB strings are left to the implementation): dispatched to its own kind and decoded to its own fields, whatever
\* the receiver's packet held before
CodecOk ==
  PktSize(p) > 4000 \/ (~Thorough /\ p.k = "uc" /\ p.et >= 64 /\ p.et % 257 # 0) \/   \* quick: a sample of the event-type sweep
  LET b == Bytes(PktLD(p)) IN
  /\ b = Bytes(EncFieldsD(p.k, Fields(p), "none"))
  /\ DispatchKind(MsgType(p), b, PendingFor(p)) = p.k
  /\ \A t \in {"ctor", "zero"} :
       LET d == DecPktD(p.k, b, Target(p.k, t, IF IsCommandKind(p.k) THEN WireTid(b) ELSE Num0), "none") IN
       d.ok /\ d.f = NormFields(Fields(p)) /\ SizeD(p.k, d.f, "none") = Len(b)
=============================================================================
