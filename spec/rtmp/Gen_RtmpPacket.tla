-------------------------- MODULE Gen_RtmpPacket --------------------------
(* The packet matrix of C03: every packet kind x presence of the optional      *)
(* trailing values x value classes, with the specification's layout, size and  *)
(* the type a receiver must give it.  All 65536 user-control event types.      *)
EXTENDS RtmpPacket, TLC, Json

CONSTANTS Thorough

EmptyObj == O(<<>>)
AppObj   == O(<< <<App, S(Live)>>, <<TcUrl, SF(300, 3)>> >>)
NestObj  == O(<< <<Level, O(<< <<Code, N(Num2_5)>>, <<App, B(TRUE)>> >>)>>, <<Code, Und>>, <<App, Nul>> >>)
BigObj   == O(<< <<TcUrl, SF(65535, 5)>>, <<App, SF(0, 6)>> >>)
\* property names may be empty: an empty name followed by a value is a pair, only 00 00 09 ends the object
EKObj    == O(<< <<App, S(Live)>>, << <<>>, N(Num7)>>, <<Code, Nul>> >>)
EKEnd    == O(<< <<App, B(FALSE)>>, << <<>>, S(Live)>> >>)
Objs     == {EmptyObj, AppObj, NestObj, EKObj, EKEnd} \cup (IF Thorough THEN {BigObj} ELSE {})
Names    == {S(Live), SF(0, 7), SF(300, 7)} \cup (IF Thorough THEN {SF(65535, 8)} ELSE {})
U32s     == {<<0, 0>>, <<0, 1>>, <<0, 128>>, <<1, 0>>, <<32767, 65535>>, <<32768, 0>>, <<65535, 65535>>}
STids    == IF Thorough THEN Tids ELSE {Num1, Num2_5, NumM31}

Commands ==
       {[k |-> "connect", tid |-> Num1, obj |-> o, hasargs |-> h, args |-> a] : o \in Objs, h \in BOOLEAN, a \in {EmptyObj, AppObj, EKObj}}
  \cup {[k |-> "connectRes", tid |-> t, obj |-> o, hasargs |-> h, args |-> a] : t \in STids, o \in Objs, h \in BOOLEAN, a \in {EmptyObj, NestObj}}
  \cup {[k |-> "createStream", tid |-> t, obj |-> o] : t \in Tids, o \in {Nul, Und, EmptyObj}}
  \cup {[k |-> "createStreamRes", tid |-> t, obj |-> Nul, sid |-> s] : t \in Tids, s \in {Num1, Num2_5, NumM31, Num0}}
  \cup {[k |-> "publish", tid |-> t, obj |-> Nul, name |-> n, type |-> ty] : t \in STids, n \in Names, ty \in {S(Live), SF(1, 9)}}
  \cup {[k |-> "play", tid |-> t, obj |-> Nul, name |-> n] : t \in STids, n \in Names}
  \cup {[k |-> "call", cmd |-> c, tid |-> t, hasobj |-> ho[1], obj |-> o, hasargs |-> ho[2], args |-> a] :
           c \in {OnStatus, FCPublish, CloseStream}, t \in {Num0, Num3}, ho \in {<<FALSE, FALSE>>, <<TRUE, FALSE>>, <<TRUE, TRUE>>},
           o \in {Nul, AppObj, N(Num2)}, a \in {Nul, AppObj, S(Live), B(TRUE), N(NumM31), EKEnd}}
Controls ==
       {[k |-> "scs", hi |-> u[1], lo |-> u[2]] : u \in U32s}
  \cup {[k |-> "winack", hi |-> u[1], lo |-> u[2]] : u \in U32s}
  \cup {[k |-> "peerbw", hi |-> u[1], lo |-> u[2], limit |-> l] : u \in U32s, l \in {0, 1, 2, 255}}
UserControls ==
       {[k |-> "uc", et |-> e, dhi |-> 43690, dlo |-> 21845, xhi |-> 4660, xlo |-> 22136, d0 |-> 129] : e \in 0..65535}
  \cup {[k |-> "uc", et |-> e, dhi |-> u[1], dlo |-> u[2], xhi |-> u[2], xlo |-> u[1], d0 |-> u[2] % 256] : e \in {0, 3, 6, 7, 26, 27, 65535}, u \in U32s}

VARIABLES p
Init == p \in Commands \cup Controls \cup UserControls
Next == UNCHANGED p

\* the request the receiver must have sent for a response to be decodable
Pending(pkt) == CASE pkt.k = "connectRes" -> "connect" [] pkt.k = "createStreamRes" -> "createStream" [] OTHER -> "none"
Emit == PrintT(<<"CASE", ToJson([p |-> p, enc |-> PktLD(p), size |-> PktSize(p), mtype |-> MsgType(p),
                                 pending |-> Pending(p), kind |-> KindOf(p, Pending(p))])>>)
SizeSane == PktSize(p) >= 3 /\ (p.k = "uc" => PktSize(p) = 2 + UcBodyLen(p.et))
=============================================================================
