SPECIFICATION GenSpec
CONSTANTS
  Reqs <- Reqs2
  Parts <- P13
  RegAfter <- RegFirst
  KeyOf <- IdKey
  Dups = {}
  LookupAtomic = TRUE
  FailIdx = {}
INVARIANTS NoSpurious MatchOnce NoLoss RightType EmitSized
CHECK_DEADLOCK FALSE
