SPECIFICATION GenSpec
CONSTANTS
  Reqs <- Reqs2
  Parts <- P13
  RegAfter <- RegFirst
  Dups = {}
  LookupAtomic = TRUE
  FailIdx = {}
INVARIANTS NoSpurious MatchOnce NoLoss EmitSized
CHECK_DEADLOCK FALSE
