SPECIFICATION Spec
CONSTANTS
  Requests <- ThinRequests
  PeerItems <- ThinPeerItems
  WaitKinds <- ThinWaitKinds
  WaitTypes <- ThinWaitTypes
  MaxPeer = 2
  MaxOps = 3
  DeleteOnMatch = FALSE
  WaitDecodes = TRUE
INVARIANTS MatchOnce
CHECK_DEADLOCK FALSE
