SPECIFICATION Spec
CONSTANTS
  Packets <- McPackets
  Dev = "empty-is-absent"
INVARIANTS FieldsSurvive LayoutAgrees SizeIsBytes ArrivesAsDefined DecodedSizeIsPayload RemarshalIsPayload
CHECK_DEADLOCK FALSE
