SPECIFICATION GenSpec
CONSTANTS
  Reqs <- Reqs1
  Parts <- P2
  RegAfter <- RegFirst
  KeyOf <- IdKey
  Dups = {}
  LookupAtomic = TRUE
  FailIdx = {}
INVARIANTS NoSpurious MatchOnce NoLoss RightType EmitSized
CHECK_DEADLOCK FALSE
