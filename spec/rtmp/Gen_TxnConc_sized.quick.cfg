SPECIFICATION GenSpec
CONSTANTS
  Reqs <- Reqs1
  Parts <- P2
  RegAfter <- RegFirst
  Dups = {}
  LookupAtomic = TRUE
  FailIdx = {}
INVARIANTS NoSpurious MatchOnce NoLoss EmitSized
CHECK_DEADLOCK FALSE
