---------------------------- MODULE RtmpSession ----------------------------
(* An RTMP session between two endpoints of the library (C01), at message     *)
(* granularity.  Each endpoint has an output chunk size (what its writer      *)
(* cuts with) and an input chunk size (what its reader expects from the       *)
(* peer); both start at 128 and change only through Set Chunk Size messages   *)
(* (type 1) travelling in the respective direction.                           *)
(* The wire of a direction is run-length encoded: one record [m, cs] per      *)
(* message, cs being the chunk size the writer cut it with.  Chunk counts and *)
(* byte counts are arithmetic, so a 65536-byte message at chunk size 1 is one *)
(* record (the per-chunk refinement is module RtmpChunk with Atomic = TRUE).  *)
(* Before any message the simple handshake moves 1 + 1536 + 1536 bytes in     *)
(* each direction in the order of the library's example code.                 *)
EXTENDS Integers, Sequences, SequencesExt

CONSTANTS
  Dirs,          \* endpoints allowed to write: subset of {"A", "B"}
  ChunkSizes,    \* chunk sizes an endpoint may announce
  Shapes,        \* data-message shapes [type, sid, ts] (length chosen relative to the chunk size)
  AbsLens,       \* absolute payload lengths always offered
  RelLens,       \* TRUE: also cs-1, cs, cs+1, 2cs+1 for the writer's current chunk size cs
  MaxWrites,     \* total number of messages written
  WriterFollowsOwnSCS   \* TRUE: the property's writer; FALSE: named deviation (writer keeps its old size)

E == {"A", "B"}
Peer(e) == IF e = "A" THEN "B" ELSE "A"
M31 == 2147483647
Min2(a, b) == IF a < b THEN a ELSE b

VARIABLES hs, out, inn, wire, sent, got, desync, hist
vars == <<hs, out, inn, wire, sent, got, desync, hist>>

\* ------------------------------------------------------------- handshake
\* step k of the handshake: <<writer, bytes>>; the reads follow the example code
HsSteps == << <<"A", 1>>, <<"A", 1536>>, <<"B", 1>>, <<"B", 1536>>, <<"B", 1536>>, <<"A", 1536>> >>
HsBytes(e) == IF hs = 0 THEN 0
              ELSE LET Sum[k \in 0..hs] == IF k = 0 THEN 0
                                           ELSE Sum[k - 1] + (IF HsSteps[k][1] = e THEN HsSteps[k][2] ELSE 0)
                   IN Sum[hs]

Init == /\ hs = 0
        /\ out = [e \in E |-> 128] /\ inn = [e \in E |-> 128]
        /\ wire = [e \in E |-> <<>>] /\ sent = [e \in E |-> <<>>] /\ got = [e \in E |-> <<>>]
        /\ desync = [e \in E |-> FALSE] /\ hist = <<>>

HsStep == /\ hs < Len(HsSteps) /\ hs' = hs + 1
          /\ UNCHANGED <<out, inn, wire, sent, got, desync, hist>>

\* ------------------------------------------------------------- messages
LensFor(cs) == AbsLens \cup
  (IF RelLens /\ cs < 35000 THEN {x \in {cs - 1, cs, cs + 1, 2 * cs + 1} : x >= 1} ELSE {})

\* protocol-control messages carry well-formed bodies: User Control (4) = event type + 4 bytes,
\* Window Acknowledgement Size (5) = 4 bytes, Set Peer Bandwidth (6) = 4 + 1 bytes
LensForShape(sh, cs) == CASE sh.type = 4 -> {6} [] sh.type = 5 -> {4} [] sh.type = 6 -> {5} [] OTHER -> LensFor(cs)

ScsMsg(cs, n) == [id |-> n, type |-> 1, sid |-> 0, ts |-> 0, len |-> 4, scs |-> cs]
DataMsg(sh, l, n) == [id |-> n, type |-> sh.type, sid |-> sh.sid, ts |-> sh.ts, len |-> l, scs |-> 0]

NWrites == Len(sent["A"]) + Len(sent["B"])

\* the library's writer: the whole message is cut with the current output chunk size;
\* an outgoing Set Chunk Size switches the writer itself (the peer's reader will switch on reading it)
Write(e, m) ==
  /\ hs = Len(HsSteps) /\ e \in Dirs /\ NWrites < MaxWrites
  /\ wire' = [wire EXCEPT ![e] = Append(@, [m |-> m, cs |-> out[e]])]
  /\ sent' = [sent EXCEPT ![e] = Append(@, m)]
  /\ out'  = [out EXCEPT ![e] = IF m.type = 1 /\ WriterFollowsOwnSCS THEN m.scs ELSE @]
  /\ hist' = Append(hist, [e |-> e, m |-> m, cs |-> out[e], out_after |-> out'[e]])
  /\ UNCHANGED <<hs, inn, got, desync>>

\* the library's reader takes min(input chunk size, remaining) payload bytes per chunk; it sees the
\* message the writer sent iff both cut it the same way
SameCut(len, csW, csR) == (len <= csW /\ len <= csR) \/ csW = csR

Read(e) ==
  LET p == Peer(e) IN
  /\ wire[p] # <<>> /\ ~desync[e]
  /\ LET r == Head(wire[p]) IN
     IF SameCut(r.m.len, r.cs, inn[e])
     THEN /\ got' = [got EXCEPT ![e] = Append(@, r.m)]
          /\ inn' = [inn EXCEPT ![e] = IF r.m.type = 1 THEN r.m.scs ELSE @]
          /\ UNCHANGED desync
     ELSE /\ desync' = [desync EXCEPT ![e] = TRUE]
          /\ UNCHANGED <<got, inn>>
  /\ wire' = [wire EXCEPT ![p] = Tail(@)]
  /\ UNCHANGED <<hs, out, sent, hist>>

Next == \/ HsStep
        \/ \E e \in Dirs, cs \in ChunkSizes : Write(e, ScsMsg(cs, NWrites + 1))
        \/ \E e \in Dirs, sh \in Shapes : \E l \in LensForShape(sh, out[e]) : Write(e, DataMsg(sh, l, NWrites + 1))
        \/ \E e \in E : Read(e)
Spec == Init /\ [][Next]_vars

\* --------------------------------------------------------------- bytes on the wire (for offsets)
HdrBytes(ts, first) == IF first THEN (IF ts >= 16777215 THEN 16 ELSE 12) ELSE (IF ts >= 16777215 THEN 5 ELSE 1)
NChunks(len, cs) == ((len - 1) \div cs) + 1      \* ceil(len/cs) for len >= 1, overflow-free
MsgBytes(m, cs) == HdrBytes(m.ts, TRUE) + (NChunks(m.len, cs) - 1) * HdrBytes(m.ts, FALSE) + m.len

\* -------------------------------------------------------------- properties
NoDesync   == \A e \in E : ~desync[e]
PrefixOk   == \A e \in E : IsPrefix(got[e], sent[Peer(e)])
AppendOnly == [][\A e \in E : IsPrefix(got[e], got'[e])]_vars
\* after reading the k-th message the reader expects what the writer cut with after writing it
InFollowsOut == \A e \in E :
   LET k == Len(got[e]) IN
   ~desync[e] => inn[e] = (IF \E i \in 1..k : sent[Peer(e)][i].type = 1
                           THEN LET j == CHOOSE i \in 1..k : sent[Peer(e)][i].type = 1
                                              /\ \A i2 \in (i + 1)..k : sent[Peer(e)][i2].type # 1
                                IN sent[Peer(e)][j].scs
                           ELSE 128)
\* the two directions do not interfere
Independent == \A e \in E : (sent[e] = <<>> => inn[Peer(e)] = 128 /\ out[e] = 128)
Quiescent == \A e \in E : wire[e] = <<>>
AllDelivered == (Quiescent /\ NoDesync) => \A e \in E : got[e] = sent[Peer(e)]
HandshakeBytes == hs = Len(HsSteps) => HsBytes("A") = 3073 /\ HsBytes("B") = 3073
Done == NWrites = MaxWrites /\ Quiescent
=============================================================================
