---------------------------- MODULE RtmpSession ----------------------------
(* An RTMP session between two endpoints of the library (C01), at message     *)
(* granularity.  Each endpoint has an output chunk size (what its writer      *)
(* cuts with) and an input chunk size (what its reader expects from the       *)
(* peer); both start at 128 and change only through Set Chunk Size messages   *)
(* (type 1) travelling in the respective direction.                           *)
(* The wire of a direction is run-length encoded: one record [m, cs] per      *)
(* message, cs being the chunk size the writer cut it with.  Chunk counts and *)
(* byte counts are arithmetic, so a 65536-byte message at chunk size 1 is one *)
(* record (the per-chunk refinement is module RtmpChunk with Atomic = TRUE).  *)
(* Before any message the simple handshake moves 1 + 1536 + 1536 bytes in     *)
(* each direction.  Handshake and session share ONE byte stream per direction *)
(* (as on a TCP connection): put[e] counts the bytes e has written into its   *)
(* direction, took[e] the bytes e has taken out of the peer's direction.  The *)
(* six handshake calls of an endpoint (three writes, three reads) are single  *)
(* actions; with HsOrder = "free" they interleave with the peer's calls and   *)
(* with the peer's first session messages in every order the standard allows  *)
(* (RTMP 1.0, 5.2.1), so that an endpoint reads C0/C1/C2 (S0/S1/S2) while the *)
(* bytes that follow them are already in the transport.  Every handshake read *)
(* takes exactly its 1 / 1536 bytes (HsExact).                                *)
EXTENDS Integers, Sequences, SequencesExt

CONSTANTS
  Dirs,          \* endpoints allowed to write: subset of {"A", "B"}
  ChunkSizes,    \* chunk sizes an endpoint may announce
  Shapes,        \* data-message shapes [type, sid, ts] (length chosen relative to the chunk size)
  AbsLens,       \* absolute payload lengths always offered
  RelLens,       \* TRUE: also cs-1, cs, cs+1, 2cs+1 for the writer's current chunk size cs
  MaxWrites,     \* total number of messages written
  WriterFollowsOwnSCS,  \* TRUE: the property's writer; FALSE: named deviation (writer keeps its old size)
  HsOrder,       \* "serial": the twelve handshake calls in the order of the library's example code, session afterwards;
                 \* "free": every interleaving of the two endpoints' calls and session writes the standard allows
  HsReadExact,   \* TRUE: a handshake read takes exactly its 1/1536 bytes; FALSE: named deviation "handshake-overread"
                 \* (it reads through a buffer of its own and takes whatever the transport holds)
  ScsSids,       \* message stream ids a Set Chunk Size may travel on ("any message type ... any stream id")
  ReaderScsAnySid,  \* TRUE: the reader follows every Set Chunk Size it reads, as the writer does; FALSE: named deviation
                 \* "reader-ignores-scs-on-stream" (only the one on message stream 0 switches the reader)
  NoSharedState, \* TRUE (assumption): this module is ONE session.  A process runs many; a second session is a second, disjoint
                 \* copy of all variables below - nothing (no buffer, no table, no counter of the package) is common to two
                 \* sessions, so every property of one session holds for each of them whatever the others do.  The assumption
                 \* is not provable here; the replay stage "pair" tests it (two behaviours at once in one process, turns changing
                 \* at every transport read, under the race detector; named deviation "sessions-share-state")
  LazyFlushTypes \* {}: when WriteMessage returns the message is in the transport; otherwise named deviation "lazy-flush":
                 \* messages of these types stay in the writer's buffer until the next other message is written

ASSUME NoSharedState = TRUE

E == {"A", "B"}
Peer(e) == IF e = "A" THEN "B" ELSE "A"
M31 == 2147483647
Min2(a, b) == IF a < b THEN a ELSE b

VARIABLES hsw, hsr, put, took, rdoff, out, inn, wire, held, sent, got, desync, hist, sched
vars == <<hsw, hsr, put, took, rdoff, out, inn, wire, held, sent, got, desync, hist, sched>>

\* --------------------------------------------------------------- bytes on the wire
HdrBytes(ts, first) == IF first THEN (IF ts >= 16777215 THEN 16 ELSE 12) ELSE (IF ts >= 16777215 THEN 5 ELSE 1)
NChunks(len, cs) == ((len - 1) \div cs) + 1      \* ceil(len/cs) for len >= 1, overflow-free
MsgBytes(m, cs) == HdrBytes(m.ts, TRUE) + (NChunks(m.len, cs) - 1) * HdrBytes(m.ts, FALSE) + m.len

\* ------------------------------------------------------------- handshake
\* "A" is the client (C0 C1 C2), "B" the server (S0 S1 S2).  hsw[e] / hsr[e]: how many of its three handshake
\* packets e has written / has read; the k-th packet of a direction has HsSize[k] bytes.
HsSize == <<1, 1536, 1536>>
HsSum(k) == CASE k = 0 -> 0 [] k = 1 -> 1 [] k = 2 -> 1537 [] k = 3 -> 3073
HsDone(e) == hsw[e] = 3 /\ hsr[e] = 3

\* what a handshake write has to wait for: C2 echoes S1 and S2 echoes C1 (the library's WriteC2S2 takes the
\* bytes ReadC1S1 returned); the server sends S0 only after C0 (RTMP 1.0, 5.2.1)
MayHsWrite(e) == /\ hsw[e] < 3
                 /\ hsw[e] = 2 => hsr[e] >= 2
                 /\ (e = "B" /\ hsw[e] = 0) => hsr[e] >= 1

\* the order of the library's example code (client: write C0 C1, read S0 S1 S2, write C2;
\* server: read C0 C1, write S0 S1 S2, read C2)
SerialOrder == << <<"A", "W">>, <<"A", "W">>, <<"B", "R">>, <<"B", "R">>, <<"B", "W">>, <<"B", "W">>, <<"B", "W">>,
                  <<"A", "R">>, <<"A", "R">>, <<"A", "R">>, <<"A", "W">>, <<"B", "R">> >>
HsCount == hsw["A"] + hsr["A"] + hsw["B"] + hsr["B"]
InOrder(e, k) == HsOrder = "free" \/ (HsCount < Len(SerialOrder) /\ SerialOrder[HsCount + 1] = <<e, k>>)

Init == /\ hsw = [e \in E |-> 0] /\ hsr = [e \in E |-> 0]
        /\ put = [e \in E |-> 0] /\ took = [e \in E |-> 0] /\ rdoff = [e \in E |-> 0]
        /\ out = [e \in E |-> 128] /\ inn = [e \in E |-> 128]
        /\ wire = [e \in E |-> <<>>] /\ held = [e \in E |-> <<>>]
        /\ sent = [e \in E |-> <<>>] /\ got = [e \in E |-> <<>>]
        /\ desync = [e \in E |-> FALSE] /\ hist = <<>> /\ sched = <<>>

\* one entry of the schedule: k = "W"/"R" a handshake write/read of n bytes, k = "m" the n-th session write (hist[n]);
\* c: the byte counter of e the step advances (put[e] for a write, took[e] for a read), after the step
Entry(k, e, n, c) == [k |-> k, e |-> e, n |-> n, c |-> c]

\* WriteC0S0 / WriteC1S1 / WriteC2S2
HsWrite(e) ==
  /\ MayHsWrite(e) /\ InOrder(e, "W")
  /\ LET n == HsSize[hsw[e] + 1] IN
     /\ hsw' = [hsw EXCEPT ![e] = @ + 1]
     /\ put' = [put EXCEPT ![e] = @ + n]
     /\ sched' = Append(sched, Entry("W", e, n, put'[e]))
  /\ UNCHANGED <<hsr, took, rdoff, out, inn, wire, held, sent, got, desync, hist>>

\* ReadC0S0 / ReadC1S1 / ReadC2S2: returns once its n bytes are there (whatever else is behind them)
HsRead(e) ==
  /\ hsr[e] < 3 /\ InOrder(e, "R")
  /\ LET n == HsSize[hsr[e] + 1]
         avail == put[Peer(e)] - took[e] IN
     /\ avail >= n
     /\ hsr' = [hsr EXCEPT ![e] = @ + 1]
     /\ took' = [took EXCEPT ![e] = @ + (IF HsReadExact THEN n ELSE avail)]
     /\ sched' = Append(sched, Entry("R", e, n, took'[e]))
  /\ UNCHANGED <<hsw, put, rdoff, out, inn, wire, held, sent, got, desync, hist>>

\* ------------------------------------------------------------- messages
LensFor(cs) == AbsLens \cup
  (IF RelLens /\ cs < 35000 THEN {x \in {cs - 1, cs, cs + 1, 2 * cs + 1} : x >= 1} ELSE {})

\* protocol-control messages carry well-formed bodies: Abort (2) = chunk stream id, Acknowledgement (3) = sequence
\* number, Window Acknowledgement Size (5) = window: 4 bytes; User Control (4) = event type + 4 bytes;
\* Set Peer Bandwidth (6) = 4 + 1 bytes
LensForShape(sh, cs) == CASE sh.type \in {2, 3, 5} -> {4} [] sh.type = 4 -> {6} [] sh.type = 6 -> {5} [] OTHER -> LensFor(cs)

ScsMsg(cs, n, sid) == [id |-> n, type |-> 1, sid |-> sid, ts |-> 0, len |-> 4, scs |-> cs]
DataMsg(sh, l, n) == [id |-> n, type |-> sh.type, sid |-> sh.sid, ts |-> sh.ts, len |-> l, scs |-> 0]

NWrites == Len(sent["A"]) + Len(sent["B"])

\* the library's writer: the whole message is cut with the current output chunk size;
\* an outgoing Set Chunk Size - on whatever message stream - switches the writer itself (the peer's reader will
\* switch on reading it).  When the call returns, the message is in the transport (wire), together with anything
\* the writer still held: the peer can read it although nothing is written behind it.
Write(e, m) ==
  /\ HsDone(e) /\ (HsOrder = "serial" => HsDone(Peer(e)))   \* "any other data" only after the own handshake (5.2.1)
  /\ e \in Dirs /\ NWrites < MaxWrites
  /\ IF m.type \in LazyFlushTypes
     THEN /\ held' = [held EXCEPT ![e] = Append(@, [m |-> m, cs |-> out[e]])]
          /\ UNCHANGED wire
     ELSE /\ wire' = [wire EXCEPT ![e] = @ \o held[e] \o <<[m |-> m, cs |-> out[e]]>>]
          /\ held' = [held EXCEPT ![e] = <<>>]
  /\ put' = [put EXCEPT ![e] = @ + MsgBytes(m, out[e])]
  /\ sched' = Append(sched, Entry("m", e, Len(hist) + 1, put'[e]))
  /\ sent' = [sent EXCEPT ![e] = Append(@, m)]
  /\ out'  = [out EXCEPT ![e] = IF m.type = 1 /\ WriterFollowsOwnSCS THEN m.scs ELSE @]
  /\ hist' = Append(hist, [e |-> e, m |-> m, cs |-> out[e], out_after |-> out'[e]])
  /\ UNCHANGED <<hsw, hsr, took, rdoff, inn, got, desync>>

\* the library's reader takes min(input chunk size, remaining) payload bytes per chunk; it sees the
\* message the writer sent iff both cut it the same way and it starts at the message's first byte
\* (every byte before it was taken by the handshake or by the earlier messages, and no other)
Aligned(e) == took[e] = HsSum(3) + rdoff[e]
SameCut(len, csW, csR) == (len <= csW /\ len <= csR) \/ csW = csR

Read(e) ==
  LET p == Peer(e) IN
  /\ HsDone(e) /\ wire[p] # <<>> /\ ~desync[e]
  /\ LET r == Head(wire[p]) IN
     IF Aligned(e) /\ SameCut(r.m.len, r.cs, inn[e])
     THEN /\ got' = [got EXCEPT ![e] = Append(@, r.m)]
          /\ inn' = [inn EXCEPT ![e] = IF r.m.type = 1 /\ (ReaderScsAnySid \/ r.m.sid = 0) THEN r.m.scs ELSE @]
          /\ took' = [took EXCEPT ![e] = @ + MsgBytes(r.m, r.cs)]
          /\ rdoff' = [rdoff EXCEPT ![e] = @ + MsgBytes(r.m, r.cs)]
          /\ UNCHANGED desync
     ELSE /\ desync' = [desync EXCEPT ![e] = TRUE]
          /\ UNCHANGED <<got, inn, took, rdoff>>
  /\ wire' = [wire EXCEPT ![p] = Tail(@)]
  /\ UNCHANGED <<hsw, hsr, put, out, held, sent, hist, sched>>

Next == \/ \E e \in E : HsWrite(e) \/ HsRead(e)
        \/ \E e \in Dirs, cs \in ChunkSizes, sid \in ScsSids : Write(e, ScsMsg(cs, NWrites + 1, sid))
        \/ \E e \in Dirs, sh \in Shapes : \E l \in LensForShape(sh, out[e]) : Write(e, DataMsg(sh, l, NWrites + 1))
        \/ \E e \in E : Read(e)
Spec == Init /\ [][Next]_vars

\* -------------------------------------------------------------- properties
NoDesync   == \A e \in E : ~desync[e]
PrefixOk   == \A e \in E : IsPrefix(got[e], sent[Peer(e)])
AppendOnly == [][\A e \in E : IsPrefix(got[e], got'[e])]_vars
\* after reading the k-th message the reader expects what the writer cut with after writing it
InFollowsOut == \A e \in E :
   LET k == Len(got[e]) IN
   ~desync[e] => inn[e] = (IF \E i \in 1..k : sent[Peer(e)][i].type = 1
                           THEN LET j == CHOOSE i \in 1..k : sent[Peer(e)][i].type = 1
                                              /\ \A i2 \in (i + 1)..k : sent[Peer(e)][i2].type # 1
                                IN sent[Peer(e)][j].scs
                           ELSE 128)
\* the two directions do not interfere
Independent == \A e \in E : (sent[e] = <<>> => inn[Peer(e)] = 128 /\ out[e] = 128)
\* the transport is drained: the peer has read all it can read without anything further being written
Quiescent == \A e \in E : wire[e] = <<>>
\* a message is in the transport when the call that wrote it has returned - also the last one of a direction
Flushed == \A e \in E : held[e] = <<>>
AllDelivered == (Quiescent /\ NoDesync) => \A e \in E : got[e] = sent[Peer(e)]
\* each handshake step consumes exactly its 1 / 1536 bytes: what an endpoint has taken out of the transport is
\* its handshake reads plus the session messages it has read - never a byte of what follows
HsExact == \A e \in E : took[e] = HsSum(hsr[e]) + rdoff[e]
\* ... and the handshake puts exactly 1 + 1536 + 1536 bytes in front of the session
HandshakeBytes == \A e \in E : (HsDone(e) /\ sent[e] = <<>>) => put[e] = 3073
\* nothing is taken that was not written; at quiescence every byte written was taken
NoByteLost == \A e \in E : /\ took[e] <= put[Peer(e)]
                            /\ (Quiescent /\ NoDesync /\ HsDone("A") /\ HsDone("B")) => took[e] = put[Peer(e)]
\* no session byte before the own handshake is complete (RTMP 1.0, 5.2.1)
SessionAfterHandshake == \A e \in E : sent[e] # <<>> => HsDone(e)
Done == NWrites = MaxWrites /\ Quiescent /\ HsDone("A") /\ HsDone("B")
=============================================================================
