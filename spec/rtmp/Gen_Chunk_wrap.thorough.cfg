SPECIFICATION Spec
CONSTANTS
  Msgs <- WrapMsgs
  DataCids = {3}
  MaxMsgs = 3
  Fmts = {0, 1, 2, 3}
  AllForms = FALSE
  Atomic = FALSE
  FollowSCS = TRUE
  ExtDelta = TRUE
  Violations = {}
  LibrtmpPing = FALSE
  TopBits = TRUE
INVARIANTS DecodeOk Agree Emit
CHECK_DEADLOCK FALSE
