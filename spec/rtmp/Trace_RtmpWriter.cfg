SPECIFICATION TraceSpec
CONSTANTS
  Msgs <- TraceMsgs
  DataCids <- TraceCids
  MaxMsgs = 1000000
  Fmts = {0, 1, 2, 3}
  AllForms = TRUE
  Atomic = FALSE
  FollowSCS = TRUE
  ExtDelta = TRUE
  Violations = {}
  LibrtmpPing = FALSE
  TopBits = FALSE
CONSTRAINT HighWater
POSTCONDITION TraceAccepted
CHECK_DEADLOCK FALSE
