--------------------------- MODULE MC_RtmpChunk ---------------------------
EXTENDS RtmpChunk, TLC, Json

D(id, type, sid, ts, len) == [id |-> id, type |-> type, sid |-> sid, ts |-> ts, len |-> len, ctl |-> "none", scs |-> 0]
S(id, cs)  == [id |-> id, type |-> 1, sid |-> 0, ts |-> 0, len |-> 4, ctl |-> "scs", scs |-> cs]
UC(id, ts) == [id |-> id, type |-> 4, sid |-> 0, ts |-> ts, len |-> 6, ctl |-> "uc", scs |-> 0]

\* the library's writer: fmt 0 then fmt 3, one message at a time, Set Chunk Size in between
LibMsgs == {S(1, 1), S(2, 3), S(3, 200), D(4, 8, 1, 0, 1), D(5, 9, 1, 16777215, 7), D(6, 8, 1, 5, 129), D(7, 18, 1, 16777216, 257)}

\* timestamps: everything around the 24-bit limit, deltas that need the extended field
TsMsgs == {D(1, 8, 1, 0, 1), D(2, 8, 1, 1000, 1), D(3, 8, 1, 16777214, 1), D(4, 8, 1, 16777215, 1),
           D(5, 8, 1, 16777216, 1), D(6, 8, 1, 33554430, 1), D(7, 8, 1, 2147483647, 1), D(8, 8, 1, 2000, 1)}
\* lengths, types, two chunk streams interleaved, all basic-header forms
MixMsgs == {D(1, 8, 1, 0, 0), D(2, 8, 1, 40, 1), D(3, 9, 1, 40, 128), D(4, 9, 1, 80, 129), D(5, 8, 1, 80, 257),
            D(6, 8, 2, 120, 129), D(7, 9, 1, 120, 257)}
\* Set Chunk Size between and inside other messages
ScsMsgs == {S(1, 3), S(2, 4096), S(3, 127), D(4, 8, 1, 0, 5), D(5, 9, 1, 10, 130), D(6, 8, 1, 20, 7), UC(7, 0)}
ScsMsgsQ == {S(1, 3), S(2, 4096), D(5, 9, 1, 10, 130), D(6, 8, 1, 20, 7)}
\* basic header forms
FormMsgs == {D(1, 8, 1, 0, 1), D(2, 9, 1, 16777215, 130), D(3, 8, 1, 16777215, 1)}
\* documented librtmp form and the rule violations
PingMsgs == {UC(1, 0), UC(2, 7), D(3, 8, 1, 0, 130), D(4, 8, 1, 5, 3)}

\* extended timestamps and extended DELTAS on messages of several chunks (the field is repeated in every
\* continuation chunk: after fmt 0 it is the timestamp, after fmt 1/2 - and for a fmt 3 that starts a message - the delta)
TsMultiMsgs == {D(1, 8, 1, 1000, 130), D(2, 8, 1, 16778216, 130), D(3, 9, 1, 16777215, 257), D(4, 9, 1, 33554430, 130),
                D(5, 8, 1, 50331645, 129), D(6, 8, 1, 2147483647, 130)}

\* many chunk streams in one connection: ManyN chunk streams each carry a fmt-0 message, then each of them a
\* fmt-1 message (which needs the header state the first pass left behind); a scripted, single behaviour
ManyN == 1100
ManyMsgs == {D(i, 8, 1, 10 * i, 1) : i \in 1..(2 * ManyN)}
ManyCids == 3..(ManyN + 2)
ManyNext == LET k == Cardinality(started) + 1 IN
  /\ k <= 2 * ManyN
  /\ LET cid == IF k <= ManyN THEN k + 2 ELSE k - ManyN + 2
         f   == IF k <= ManyN THEN 0 ELSE 1
     IN Start(MsgById(k), cid, f, CHOOSE x \in FormsOf(cid) : TRUE, FALSE)
ManySpec == Init /\ [][ManyNext]_vars

\* ---------------------------------------------------------------- roll-over of the 31-bit timestamp
\* named deviation C02/timestamp-reduced-only-after-extended: the receiver reduces a sum to 31 bits only when the chunk
\* carried an extended timestamp; a sum that passes 2^31 through a plain 24-bit delta (fmt 1/2, or the delta a fmt-3
\* first chunk repeats) stays >= 2^31.  The unreduced 32-bit value u is written as the 32-bit signed integer u - 2^32.
RxAddExtOnly(a, d, isext) == IF isext \/ a < 0 \/ a <= M31 - d THEN AddMod31(a, d)
                             ELSE (a - M31 - 1) + (d - M31 - 1)
\* timestamp classes just below 2^31 (T31 = 2^31): absolute type-0 values that need the extended field, then small and
\* large plain deltas, the largest plain delta 0xFFFFFE, extended deltas, sums equal to 2^31 exactly and to 2^31 - 1
\*   2147483600 = T31-48   2147483632 = T31-16   2147483647 = T31-1   2139095040 = T31-0x800000   2130706432 = T31-0x1000000
WrapMsgs == {D(1, 8, 1, 2147483600, 1), D(2, 8, 1, 2147483632, 1), D(3, 8, 1, 16, 1), D(4, 8, 1, 48, 1),
             D(5, 8, 1, 2147483647, 1), D(6, 8, 1, 0, 1), D(7, 8, 1, 2139095040, 1), D(8, 8, 1, 8388606, 1),
             D(9, 8, 1, 16777232, 1), D(10, 8, 1, 2130706432, 1)}
\* the same on messages of several chunks (continuation chunks follow the header that crossed 2^31; after an extended
\* delta they repeat the field), two chunk streams interleaved (each has its own timestamp to roll over), 2-byte form
WrapMultiMsgs == {D(1, 8, 1, 2147483632, 130), D(2, 8, 1, 16, 130), D(3, 8, 1, 48, 130), D(4, 9, 1, 2147483632, 1),
                  D(5, 9, 1, 16, 257), D(6, 8, 1, 16777232, 130)}
\* several roll-overs in a row on each of two chunk streams: a scripted sequence of timestamps; message k goes to chunk
\* stream 3 for odd k (1 byte, every header type the rules allow at that point is taken) and to chunk stream 64 for
\* even k (130 bytes = 2 chunks; always the most compressed header type allowed, as FFmpeg does), so both chunk streams
\* see the timestamps below in order, with different header histories.  fmt 0 only where nothing else is allowed.
\*    1  T31-0x800000   type 0, extended absolute timestamp
\*    2  0x7FFFFE       + 0xFFFFFE, the largest plain delta, passes 2^31
\*    3  0x17FFFFC      + 0xFFFFFE (type 3 repeats a large plain delta)
\*    4  1098907628     + 0x3FFFFFF0, extended delta
\*    5  25165788       + 0x3FFFFFF0, extended delta passes 2^31 (type 1/2, or type 3 repeating the extended delta)
\*    6  T31-48         + 2122317812, extended delta
\*    7  T31-16         + 32
\*    8  16             + 32 passes 2^31 (type 1/2, or type 3 repeating the delta)
\*    9  48             + 32
\*   10  T31-144        + (T31-192), extended delta
\*   11  0              + 144: the sum is 2^31 exactly
\*   12  T31-1          + (T31-1), extended delta
\*   13  0              + 1 passes 2^31
\*   14  1              + 1
ChainTs == <<2139095040, 8388606, 25165820, 1098907628, 25165788, 2147483600, 2147483632, 16, 48, 2147483504, 0,
             2147483647, 0, 1>>
ChainN == 2 * Len(ChainTs)
ChainMsgs == {D(k, 8, 1, ChainTs[(k + 1) \div 2], 1) : k \in {j \in 1..ChainN : j % 2 = 1}} \cup
             {D(k, 9, 1, ChainTs[(k + 1) \div 2], 130) : k \in {j \in 1..ChainN : j % 2 = 0}}
ChainFmts(cid, m) == LET ok == {f \in 1..3 : Allowed(f, cid, m)} IN
                     IF ok = {} THEN {0} ELSE IF cid = 3 THEN ok ELSE {CHOOSE f \in ok : \A g \in ok : g <= f}
ChainNext == \/ \E cid \in AllCids : Continue(cid, CHOOSE x \in FormsOf(cid) : TRUE)
             \/ LET k == Cardinality(started) + 1 IN
                /\ k <= MaxMsgs /\ k <= ChainN
                /\ LET cid == IF k % 2 = 1 THEN 3 ELSE 64 IN
                   \E f \in ChainFmts(cid, MsgById(k)) : Start(MsgById(k), cid, f, CHOOSE x \in FormsOf(cid) : TRUE, FALSE)
ChainSpec == Init /\ [][ChainNext]_vars
\* Decode is a fold over the wire and its output only grows: correct at the end = correct at every prefix
EndOk == Done => DecodeOk /\ Agree

\* simulation: the unfactored product
SimMsgs == {D(1, 8, 1, 0, 0), D(2, 8, 1, 40, 1), D(3, 9, 1, 16777214, 128), D(4, 9, 2, 16777215, 129), D(5, 8, 1, 16777216, 257),
            D(6, 18, 1, 33554430, 300), D(7, 9, 1, 2147483647, 5), D(8, 8, 1, 1000, 130), D(9, 20, 0, 2000, 64), D(10, 9, 1, 2000, 64),
            D(11, 8, 1, 16779216, 1), D(12, 9, 1, 33556430, 7),
            S(13, 3), S(14, 4096), S(15, 127), S(16, 64), UC(17, 0), UC(18, 5000),
            D(19, 8, 1, 2147483632, 1), D(20, 8, 1, 16, 1), D(21, 9, 1, 2147483600, 64), D(22, 9, 1, 48, 64), D(23, 8, 1, 2139095040, 130)}
\* control messages among the completed ones, keyed by id, so that the replayer knows their bodies
Bodies == [i \in {ToString(order[k].id) : k \in {j \in 1..Len(order) : order[j].ctl # "none"}} |->
             LET m == CHOOSE x \in Msgs : ToString(x.id) = i IN [ctl |-> m.ctl, scs |-> m.scs]]
Emit == Done => PrintT(<<"CASE", ToJson([wire |-> [i \in 1..Len(wire) |-> ChunkLD(wire[i])],
                                         expect |-> Decode(wire).out, err |-> dead,
                                         nchunks |-> Len(wire), bodies |-> Bodies])>>)
=============================================================================
