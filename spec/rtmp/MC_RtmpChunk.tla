--------------------------- MODULE MC_RtmpChunk ---------------------------
EXTENDS RtmpChunk, TLC, Json

D(id, type, sid, ts, len) == [id |-> id, type |-> type, sid |-> sid, ts |-> ts, len |-> len, ctl |-> "none", scs |-> 0]
S(id, cs)  == [id |-> id, type |-> 1, sid |-> 0, ts |-> 0, len |-> 4, ctl |-> "scs", scs |-> cs]
UC(id, ts) == [id |-> id, type |-> 4, sid |-> 0, ts |-> ts, len |-> 6, ctl |-> "uc", scs |-> 0]

\* the library's writer: fmt 0 then fmt 3, one message at a time, Set Chunk Size in between
LibMsgs == {S(1, 1), S(2, 3), S(3, 200), D(4, 8, 1, 0, 1), D(5, 9, 1, 16777215, 7), D(6, 8, 1, 5, 129), D(7, 18, 1, 16777216, 257)}

\* timestamps: everything around the 24-bit limit, deltas that need the extended field
TsMsgs == {D(1, 8, 1, 0, 1), D(2, 8, 1, 1000, 1), D(3, 8, 1, 16777214, 1), D(4, 8, 1, 16777215, 1),
           D(5, 8, 1, 16777216, 1), D(6, 8, 1, 33554430, 1), D(7, 8, 1, 2147483647, 1), D(8, 8, 1, 2000, 1)}
\* lengths, types, two chunk streams interleaved, all basic-header forms
MixMsgs == {D(1, 8, 1, 0, 0), D(2, 8, 1, 40, 1), D(3, 9, 1, 40, 128), D(4, 9, 1, 80, 129), D(5, 8, 1, 80, 257),
            D(6, 8, 2, 120, 129), D(7, 9, 1, 120, 257)}
\* Set Chunk Size between and inside other messages
ScsMsgs == {S(1, 3), S(2, 4096), S(3, 127), D(4, 8, 1, 0, 5), D(5, 9, 1, 10, 130), D(6, 8, 1, 20, 7), UC(7, 0)}
ScsMsgsQ == {S(1, 3), S(2, 4096), D(5, 9, 1, 10, 130), D(6, 8, 1, 20, 7)}
\* basic header forms
FormMsgs == {D(1, 8, 1, 0, 1), D(2, 9, 1, 16777215, 130), D(3, 8, 1, 16777215, 1)}
\* documented librtmp form and the rule violations
PingMsgs == {UC(1, 0), UC(2, 7), D(3, 8, 1, 0, 130), D(4, 8, 1, 5, 3)}

\* extended timestamps and extended DELTAS on messages of several chunks (the field is repeated in every
\* continuation chunk: after fmt 0 it is the timestamp, after fmt 1/2 - and for a fmt 3 that starts a message - the delta)
TsMultiMsgs == {D(1, 8, 1, 1000, 130), D(2, 8, 1, 16778216, 130), D(3, 9, 1, 16777215, 257), D(4, 9, 1, 33554430, 130),
                D(5, 8, 1, 50331645, 129), D(6, 8, 1, 2147483647, 130)}

\* many chunk streams in one connection: ManyN chunk streams each carry a fmt-0 message, then each of them a
\* fmt-1 message (which needs the header state the first pass left behind); a scripted, single behaviour
ManyN == 1100
ManyMsgs == {D(i, 8, 1, 10 * i, 1) : i \in 1..(2 * ManyN)}
ManyCids == 3..(ManyN + 2)
ManyNext == LET k == Cardinality(started) + 1 IN
  /\ k <= 2 * ManyN
  /\ LET cid == IF k <= ManyN THEN k + 2 ELSE k - ManyN + 2
         f   == IF k <= ManyN THEN 0 ELSE 1
     IN Start(MsgById(k), cid, f, CHOOSE x \in FormsOf(cid) : TRUE, FALSE)
ManySpec == Init /\ [][ManyNext]_vars

\* simulation: the unfactored product
SimMsgs == {D(1, 8, 1, 0, 0), D(2, 8, 1, 40, 1), D(3, 9, 1, 16777214, 128), D(4, 9, 2, 16777215, 129), D(5, 8, 1, 16777216, 257),
            D(6, 18, 1, 33554430, 300), D(7, 9, 1, 2147483647, 5), D(8, 8, 1, 1000, 130), D(9, 20, 0, 2000, 64), D(10, 9, 1, 2000, 64),
            D(11, 8, 1, 16779216, 1), D(12, 9, 1, 33556430, 7),
            S(13, 3), S(14, 4096), S(15, 127), S(16, 64), UC(17, 0), UC(18, 5000)}
\* control messages among the completed ones, keyed by id, so that the replayer knows their bodies
Bodies == [i \in {ToString(order[k].id) : k \in {j \in 1..Len(order) : order[j].ctl # "none"}} |->
             LET m == CHOOSE x \in Msgs : ToString(x.id) = i IN [ctl |-> m.ctl, scs |-> m.scs]]
Emit == Done => PrintT(<<"CASE", ToJson([wire |-> [i \in 1..Len(wire) |-> ChunkLD(wire[i])],
                                         expect |-> Decode(wire).out, err |-> dead,
                                         nchunks |-> Len(wire), bodies |-> Bodies])>>)
=============================================================================
