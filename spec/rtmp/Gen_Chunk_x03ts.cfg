SPECIFICATION Spec
CONSTANTS
  Msgs <- TsMsgs
  DataCids = {64}
  MaxMsgs = 2
  Fmts = {0, 1, 2, 3}
  AllForms = TRUE
  Atomic = TRUE
  FollowSCS = TRUE
  ExtDelta = TRUE
  Violations = {}
  LibrtmpPing = FALSE
  TopBits = FALSE
INVARIANTS Emit
CHECK_DEADLOCK FALSE
