SPECIFICATION Spec
CONSTANTS
  Dirs = {"A"}
  ChunkSizes = {1, 128, 65536, 2147483647}
  Shapes <- OneShape
  AbsLens = {16777215}
  RelLens = FALSE
  MaxWrites = 2
  WriterFollowsOwnSCS = TRUE
  HsOrder = "serial"
  HsReadExact = TRUE
  ScsSids = {0}
  ReaderScsAnySid = TRUE
  LazyFlushTypes = {}
  NoSharedState = TRUE
INVARIANTS NoDesync Emit
CHECK_DEADLOCK FALSE
