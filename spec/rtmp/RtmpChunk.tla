----------------------------- MODULE RtmpChunk -----------------------------
(* RTMP 1.0 chunk stream (rtmp_specification_1.0 section 5.3).                 *)
(*                                                                            *)
(* ConformantSend: a chunker that follows the chunking rules - it may pick,   *)
(* for every chunk, any header type (fmt 0..3) and basic-header form the      *)
(* specification allows at that point, interleave chunk streams and change    *)
(* the chunk size with Set Chunk Size.  Its output `wire` is a sequence of    *)
(* chunk records (rendered to bytes by ChunkLD).                              *)
(* Decode: the reference receiver of section 5.3.1 over chunk records.        *)
(* Violate: one chunk that breaks a rule the reader relies on.                *)
(* The library's reader is bound to Decode by replaying `wire` (bytes) into   *)
(* rtmp.Protocol.ReadMessage; the library's writer corresponds to the         *)
(* restriction Atomic = TRUE, Fmts = {0}.                                     *)
EXTENDS Integers, Sequences, FiniteSets, LD

CONSTANTS
  Msgs,        \* set of messages [id, type, sid, ts, len, ctl, scs]; ctl \in {"none","scs","uc","ack"}
  DataCids,    \* chunk stream ids for data messages
  MaxMsgs,     \* at most this many messages are started
  Fmts,        \* header types the sender may use
  AllForms,    \* TRUE: every legal basic-header form, chosen per chunk
  Atomic,      \* TRUE: no interleaving (a message is chunked completely before the next starts)
  FollowSCS,   \* TRUE (RTMP): the sender switches to the chunk size it announced
  ExtDelta,    \* TRUE (RTMP): the extended timestamp of fmt 1/2 is a delta
  Violations,  \* violation kinds the sender may commit once: subset of {"t0_in_msg","len_change","fresh_fmt"}
  LibrtmpPing, \* TRUE: the sender may start chunk stream 2 with fmt 1 (documented librtmp form)
  TopBits      \* TRUE: a fmt-0 extended timestamp may carry a set top bit (32-bit senders)

M31 == 2147483647                 \* 2^31 - 1
X24 == 16777215                   \* 0xFFFFFF
NoMsg == [id |-> -1]
Min2(a, b) == IF a < b THEN a ELSE b

\* (a + b) mod 2^31 without leaving 32-bit integers
AddMod31(a, b) == IF a > M31 - b THEN a - (M31 - b) - 1 ELSE a + b
\* (b - a) mod 2^31: the delta a sender whose clock rolled over puts on the wire
Delta31(a, b) == IF b >= a THEN b - a ELSE ((b - a) + M31) + 1
\* A sender's clock runs forward.  Message timestamps are the 31-bit values the property defines; a later message with
\* a smaller 31-bit timestamp is a roll-over (32-bit clock passing 2^31 or 2^32) if it is less than RollWindow ahead,
\* otherwise the clock went backwards and section 5.3.1.2.1 demands a type-0 header.
RollWindow == 1073741824          \* 2^30
Forward(a, b) == b >= a \/ Delta31(a, b) < RollWindow
\* the receiver's timestamp sum (previous timestamp a, delta d, d taken from an extended field or not): reduced to
\* 31 bits after EVERY addition.  Named deviations replace this operator in a cfg (RxAdd <- ...).
RxAdd(a, d, isext) == AddMod31(a, d)

AllCids == DataCids \cup {2}

\* ------------------------------------------------------------ message bodies
CtlBody(m) == CASE m.ctl = "scs" -> Bytes(<<U32(m.scs)>>)
                [] m.ctl = "uc"  -> <<0, 6, 0, 0, 0, m.id % 256>>   \* PingRequest, 4-byte event data
                [] m.ctl = "ack" -> Bytes(<<U32(2500000)>>)
MsgLen(m)  == IF m.ctl = "none" THEN m.len ELSE Len(CtlBody(m))
CidsOf(m)  == IF m.ctl = "none" THEN DataCids ELSE {2}  \* protocol control goes on chunk stream 2

VARIABLES
  scs,      \* sender's current chunk size
  cst,      \* cid -> header cache of the sender ("the preceding chunk" of that chunk stream)
  prog,     \* cid -> [m, done] message in progress, or NoMsg
  wire,     \* chunk records sent so far
  started,  \* ids of messages started
  order,    \* messages in completion order (what a receiver must deliver)
  dead      \* "no" or the violation committed (sender stops)
vars == <<scs, cst, prog, wire, started, order, dead>>

FreshCst == [has |-> FALSE, ts |-> 0, delta |-> 0, len |-> 0, type |-> 0, sid |-> 0, ext |-> FALSE, extval |-> 0]

Init == /\ scs = 128
        /\ cst = [c \in AllCids |-> FreshCst]
        /\ prog = [c \in AllCids |-> NoMsg]
        /\ wire = <<>> /\ started = {} /\ order = <<>> /\ dead = "no"

FormsOf(cid) == IF cid <= 63 THEN {1}
                ELSE IF cid <= 319 THEN (IF AllForms THEN {2, 3} ELSE {2})
                ELSE {3}

\* header types section 5.3.1.2 allows for the first chunk of message m on chunk stream cid
Allowed(f, cid, m) ==
  LET c == cst[cid] IN
  CASE f = 0 -> TRUE
    [] f = 1 -> c.has /\ c.sid = m.sid /\ Forward(c.ts, m.ts)
    [] f = 2 -> c.has /\ c.sid = m.sid /\ Forward(c.ts, m.ts) /\ c.len = MsgLen(m) /\ c.type = m.type
    [] f = 3 -> c.has /\ c.sid = m.sid /\ Forward(c.ts, m.ts) /\ c.len = MsgLen(m) /\ c.type = m.type
                /\ Delta31(c.ts, m.ts) = c.delta

Chunk(f, cid, form, tsf, ext, top, m, pay, off) ==
  [fmt |-> f, cid |-> cid, form |-> form, tsf |-> tsf, ext |-> ext, top |-> top,
   len |-> MsgLen(m), type |-> m.type, sid |-> m.sid, pay |-> pay, off |-> off, mid |-> m.id]

Complete(m) == /\ order' = Append(order, m)
               /\ scs' = IF m.ctl = "scs" /\ FollowSCS THEN m.scs ELSE scs

\* first chunk of a new message
Start(m, cid, f, form, top) ==
  /\ dead = "no" /\ m.id \notin started /\ Cardinality(started) < MaxMsgs
  /\ cid \in CidsOf(m) /\ prog[cid] = NoMsg /\ form \in FormsOf(cid)
  /\ (Atomic => \A c \in AllCids : prog[c] = NoMsg)
  /\ \/ f \in Fmts /\ Allowed(f, cid, m)
     \/ LibrtmpPing /\ f = 1 /\ cid = 2 /\ ~cst[2].has /\ m.ctl = "uc" /\ m.sid = 0
  /\ LET c      == cst[cid]
         tsval  == IF f = 0 \/ ~c.has THEN m.ts ELSE Delta31(c.ts, m.ts)   \* absolute, or delta (mod 2^31)
         isext  == IF f = 3 THEN c.ext ELSE tsval >= X24
         extval == IF f = 3 THEN c.extval ELSE tsval
         pay    == Min2(scs, MsgLen(m))
     IN /\ top \in (IF TopBits /\ f = 0 /\ isext THEN BOOLEAN ELSE {FALSE})
        /\ wire' = Append(wire, Chunk(f, cid, form, IF f = 3 THEN -1 ELSE Min2(tsval, X24),
                                       IF isext THEN extval ELSE -1, top, m, pay, 0))
        /\ cst' = [cst EXCEPT ![cid] = [has |-> TRUE, ts |-> m.ts,
                                        delta |-> IF f = 3 THEN c.delta ELSE tsval,
                                        len |-> MsgLen(m), type |-> m.type, sid |-> m.sid,
                                        ext |-> isext, extval |-> extval]]
        /\ started' = started \cup {m.id}
        /\ IF pay = MsgLen(m)
           THEN Complete(m) /\ UNCHANGED prog
           ELSE prog' = [prog EXCEPT ![cid] = [m |-> m, done |-> pay, id |-> m.id]] /\ UNCHANGED <<order, scs>>
  /\ UNCHANGED dead

\* next chunk of the message in progress on cid: fmt 3, extended timestamp repeated
Continue(cid, form) ==
  /\ dead = "no" /\ prog[cid] # NoMsg /\ form \in FormsOf(cid)
  /\ LET m == prog[cid].m
         done == prog[cid].done
         pay == Min2(scs, MsgLen(m) - done)
         c == cst[cid]
     IN /\ wire' = Append(wire, Chunk(3, cid, form, -1, IF c.ext THEN c.extval ELSE -1, FALSE, m, pay, done))
        /\ IF done + pay = MsgLen(m)
           THEN Complete(m) /\ prog' = [prog EXCEPT ![cid] = NoMsg]
           ELSE prog' = [prog EXCEPT ![cid] = [m |-> m, done |-> done + pay, id |-> m.id]] /\ UNCHANGED <<order, scs>>
  /\ UNCHANGED <<cst, started, dead>>

\* one chunk that breaks a rule the reader relies on; the sender stops afterwards
Violate(kind, cid, f) ==
  /\ dead = "no" /\ kind \in Violations
  /\ \/ /\ kind = "t0_in_msg" /\ prog[cid] # NoMsg /\ f = 0
        /\ LET m == prog[cid].m IN
           wire' = Append(wire, Chunk(0, cid, CHOOSE x \in FormsOf(cid) : TRUE, Min2(m.ts, X24 - 1), -1, FALSE, m,
                                      Min2(scs, MsgLen(m)), 0))
     \/ /\ kind = "len_change" /\ prog[cid] # NoMsg /\ f = 1
        /\ LET m == prog[cid].m IN
           wire' = Append(wire, [Chunk(1, cid, CHOOSE x \in FormsOf(cid) : TRUE, 0, -1, FALSE, m,
                                       Min2(scs, MsgLen(m) - prog[cid].done), prog[cid].done)
                                 EXCEPT !.len = MsgLen(m) + 1])
     \/ /\ kind = "fresh_fmt" /\ ~cst[cid].has /\ f \in {1, 2, 3} /\ ~(cid = 2 /\ f = 1)
        /\ \E m \in Msgs : /\ m.id \notin started /\ cid \in CidsOf(m)
                           /\ wire' = Append(wire, Chunk(f, cid, CHOOSE x \in FormsOf(cid) : TRUE,
                                                         IF f = 3 THEN -1 ELSE 0, -1, FALSE, m,
                                                         Min2(scs, MsgLen(m)), 0))
  /\ dead' = kind
  /\ UNCHANGED <<scs, cst, prog, started, order>>

Next == \/ \E m \in Msgs, cid \in AllCids, f \in 0..3, form \in 1..3, top \in BOOLEAN : Start(m, cid, f, form, top)
        \/ \E cid \in AllCids, form \in 1..3 : Continue(cid, form)
        \/ \E k \in Violations, cid \in AllCids, f \in 0..3 : Violate(k, cid, f)
Spec == Init /\ [][Next]_vars

Quiescent == \A c \in AllCids : prog[c] = NoMsg
Done == dead # "no" \/ (Quiescent /\ (Cardinality(started) = MaxMsgs \/ started = {m.id : m \in Msgs}))

\* ------------------------------------------------------------- byte layout
BasicHdr(ch) ==
  CASE ch.form = 1 -> <<U8(ch.fmt * 64 + ch.cid)>>
    [] ch.form = 2 -> <<U8(ch.fmt * 64), U8(ch.cid - 64)>>
    [] ch.form = 3 -> <<U8(ch.fmt * 64 + 1), U8((ch.cid - 64) % 256), U8((ch.cid - 64) \div 256)>>
MsgHdr(ch) ==
  CASE ch.fmt = 0 -> <<U24(ch.tsf), U24(ch.len), U8(ch.type), U32LE(ch.sid)>>
    [] ch.fmt = 1 -> <<U24(ch.tsf), U24(ch.len), U8(ch.type)>>
    [] ch.fmt = 2 -> <<U24(ch.tsf)>>
    [] ch.fmt = 3 -> <<>>
ExtTs(ch) == IF ch.ext < 0 THEN <<>>
             ELSE <<U32X((ch.ext \div 65536) + (IF ch.top THEN 32768 ELSE 0), ch.ext % 65536)>>
Payload(ch, m) ==
  IF ch.pay = 0 THEN <<>>
  ELSE IF m.ctl = "none" THEN <<FillOff(ch.pay, ch.mid, ch.off)>>
  ELSE <<Raw(SubSeq(CtlBody(m), ch.off + 1, ch.off + ch.pay))>>
MsgById(id) == CHOOSE m \in Msgs : m.id = id
ChunkLD(ch) == BasicHdr(ch) \o MsgHdr(ch) \o ExtTs(ch) \o Payload(ch, MsgById(ch.mid))

\* ------------------------------------------------- reference receiver (5.3.1)
\* state: per chunk stream [has, ts, delta, len, type, sid, got], receiver chunk size, output
FreshRx == [has |-> FALSE, inmsg |-> FALSE, ts |-> 0, delta |-> 0, len |-> 0, type |-> 0, sid |-> 0, got |-> 0, mid |-> -1]

RxStep(st, ch) ==
  LET c == st.rx[ch.cid] IN
  IF st.err # "no" THEN st
  ELSE IF ~c.has /\ ch.fmt # 0 /\ ~(ch.cid = 2 /\ ch.fmt = 1)
       THEN [st EXCEPT !.err = "fresh chunk stream must start with fmt 0"]
  ELSE IF c.inmsg /\ ch.fmt = 0
       THEN [st EXCEPT !.err = "fmt 0 inside an unfinished message"]
  ELSE IF c.inmsg /\ ch.fmt = 1 /\ ch.len # c.len
       THEN [st EXCEPT !.err = "message length changed inside a message"]
  ELSE
    LET first == ~c.inmsg
        v     == IF ch.ext >= 0 THEN ch.ext ELSE ch.tsf        \* timestamp field value (masked to 31 bits)
        ts2   == IF ~first THEN c.ts
                 ELSE CASE ch.fmt = 0 -> v
                        [] ch.fmt \in {1, 2} -> IF ExtDelta \/ ch.ext < 0 THEN RxAdd(c.ts, v, ch.ext >= 0) ELSE v
                        [] ch.fmt = 3 -> RxAdd(c.ts, c.delta, ch.ext >= 0)
        d2    == IF ~first \/ ch.fmt = 3 THEN c.delta ELSE v
        len2  == IF ch.fmt <= 1 THEN ch.len ELSE c.len
        ty2   == IF ch.fmt <= 1 THEN ch.type ELSE c.type
        sid2  == IF ch.fmt = 0 THEN ch.sid ELSE c.sid
        got0  == IF first THEN 0 ELSE c.got
        want  == Min2(st.rcs, len2 - got0)
    IN IF ch.pay # want
       THEN [st EXCEPT !.err = "desync"]      \* the sender cut the chunk with another size than the receiver expects
       ELSE LET got2 == got0 + ch.pay
                fin  == got2 = len2
                c2   == [has |-> TRUE, inmsg |-> ~fin, ts |-> ts2, delta |-> d2, len |-> len2, type |-> ty2,
                         sid |-> sid2, got |-> got2, mid |-> ch.mid]
                m    == MsgById(ch.mid)
            IN [st EXCEPT !.rx[ch.cid] = c2,
                          !.out = IF fin THEN Append(st.out, [id |-> ch.mid, type |-> ty2, sid |-> sid2, ts |-> ts2, len |-> len2])
                                  ELSE st.out,
                          !.rcs = IF fin /\ ty2 = 1 THEN m.scs ELSE st.rcs]

RECURSIVE RxFold(_, _)
RxFold(st, w) == IF w = <<>> THEN st ELSE RxFold(RxStep(st, Head(w)), Tail(w))
Decode(w) == RxFold([rx |-> [c \in AllCids |-> FreshRx], rcs |-> 128, out |-> <<>>, err |-> "no"], w)

Deliverable(m) == [id |-> m.id, type |-> m.type, sid |-> m.sid, ts |-> m.ts, len |-> MsgLen(m)]
Expected == [i \in 1..Len(order) |-> Deliverable(order[i])]

\* -------------------------------------------------------------- properties
\* The reference pair is consistent: what the reference receiver decodes from a conformant
\* sender's chunks is exactly the completed messages, in completion order, with their timestamps.
DecodeOk == LET d == Decode(wire) IN
            /\ d.out = Expected
            /\ (dead = "no" => d.err = "no")
            /\ (dead # "no" => d.err \notin {"no", "desync"})
\* sender and receiver always agree on the chunk size in force
Agree == Decode(wire).err # "desync"
AppendOnly == [][\E k \in 0..1 : Len(order') = Len(order) + k /\ SubSeq(order', 1, Len(order)) = order]_vars
=============================================================================
