SPECIFICATION Spec
CONSTANTS
  Reqs <- Reqs2
  Parts <- P11
  RegAfter <- RegFirst
  KeyOf <- IdKey
  Dups = {}
  LookupAtomic = FALSE
  FailIdx = {}
INVARIANTS NoSpurious
CHECK_DEADLOCK FALSE
