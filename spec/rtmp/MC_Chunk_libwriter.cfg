SPECIFICATION Spec
CONSTANTS
  Msgs <- LibMsgs
  DataCids = {5}
  MaxMsgs = 3
  Fmts = {0}
  AllForms = FALSE
  Atomic = TRUE
  FollowSCS = TRUE
  ExtDelta = TRUE
  Violations = {}
  LibrtmpPing = FALSE
  TopBits = FALSE
INVARIANTS DecodeOk Agree
CHECK_DEADLOCK FALSE
