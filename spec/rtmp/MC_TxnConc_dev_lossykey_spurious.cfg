SPECIFICATION Spec
CONSTANTS
  Reqs <- Reqs2
  Parts <- P11
  RegAfter <- RegFirst
  KeyOf <- LossyKey
  Dups = {}
  LookupAtomic = TRUE
  FailIdx = {}
INVARIANTS NoSpurious
CHECK_DEADLOCK FALSE
