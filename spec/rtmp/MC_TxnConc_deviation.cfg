SPECIFICATION Spec
CONSTANTS
  Reqs <- Reqs2
  Parts <- P11
  RegAfter <- RegAfterWrite
  Dups = {3}
  LookupAtomic = TRUE
  FailIdx = {}
INVARIANTS NoSpurious
CHECK_DEADLOCK FALSE
