SPECIFICATION Spec
CONSTANTS
  Reqs <- Reqs2
  Parts <- P11
  RegAfter <- RegAfterWrite
  KeyOf <- IdKey
  Dups = {3}
  LookupAtomic = TRUE
  FailIdx = {}
INVARIANTS NoSpurious
CHECK_DEADLOCK FALSE
