SPECIFICATION Spec
CONSTANTS
  Reqs <- Reqs2
  Dups = {3}
  RegisterFirst = FALSE
INVARIANTS NoSpurious
CHECK_DEADLOCK FALSE
