SPECIFICATION Spec
CONSTANTS
  Reqs <- Reqs2
  Dups = {3}
  FailIdx = {}
  RegisterFirst = FALSE
INVARIANTS NoSpurious
CHECK_DEADLOCK FALSE
