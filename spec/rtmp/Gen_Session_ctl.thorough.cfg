SPECIFICATION Spec
CONSTANTS
  Dirs = {"A"}
  ChunkSizes <- CtlSizes
  Shapes <- CtlShapes
  AbsLens = {1, 300}
  RelLens = TRUE
  MaxWrites = 3
  WriterFollowsOwnSCS = TRUE
  HsOrder = "serial"
  HsReadExact = TRUE
  ScsSids <- SidClasses
  ReaderScsAnySid = TRUE
  LazyFlushTypes = {}
  NoSharedState = TRUE
INVARIANTS NoDesync PrefixOk InFollowsOut AllDelivered Flushed HsExact NoByteLost Emit
CHECK_DEADLOCK FALSE
