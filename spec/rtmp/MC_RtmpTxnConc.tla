------------------------- MODULE MC_RtmpTxnConc -------------------------
EXTENDS RtmpTxnConc, Json
Reqs4 == <<2, 3, 4, 5>>
Reqs3 == <<2, 3, 4>>
Reqs2 == <<2, 3>>
Reqs1 == <<2>>
\* the same id used again by a request whose transport write fails: the first request stays outstanding
ReqsSame == <<2, 3, 2>>
ReqsSame2 == <<2, 2>>

\* number of transport writes per request
P1     == <<1>>
P2     == <<2>>
P3     == <<3>>
P11    == <<1, 1>>
P12    == <<1, 2>>
P13    == <<1, 3>>
P21    == <<2, 1>>
P22    == <<2, 2>>
P111   == <<1, 1, 1>>
P112   == <<1, 1, 2>>
P121   == <<1, 2, 1>>
P132   == <<1, 3, 2>>
P212   == <<2, 1, 2>>
P2132  == <<2, 1, 3, 2>>

\* the table is keyed by the transaction id itself
IdKey == [t \in Ids |-> t]
\* named deviation "lossy-key": distinct ids, one slot
LossyKey == [t \in Ids |-> 0]

\* the rule: every request is registered before the first of its transport writes
RegFirst == [i \in 1..Len(Reqs) |-> 0]
\* named deviation "register-after-write"
RegAfterWrite == [i \in 1..Len(Reqs) |-> Parts[i]]
\* named deviation "register-before-flush": the registration sits between filling the buffered writer and its final
\* flush - right for a request that fits into the buffer (its only transport write is the flush), but a request that
\* overflowed the buffer has been written through and is on the wire before it is registered
RegBeforeFlush == [i \in 1..Len(Reqs) |-> IF Parts[i] = 1 THEN 0 ELSE Parts[i]]
\* not the library's rule, but enough for the property: registered before the COMPLETING transport write
RegBeforeLast == [i \in 1..Len(Reqs) |-> Parts[i] - 1]

\* Schedules for replay: steps the code cannot be paused between are kept adjacent
\* (marshal/register/entry of the FIRST transport write of one WritePacket; read/lookup of one DecodeMessage).
\* Between two transport writes of one request the writer sits in the transport: everything else can happen there.
GenNext == IF widx <= Len(Reqs) /\ wpc = "busy" /\ wparts = 0
           THEN W_Register \/ W_TWrite
           ELSE IF rcur # 0 THEN R_Lookup ELSE Next
McView == <<widx, wpc, wparts, wreg, pending, written, nresp, inbox, rcur, rreset, results>>
GenSpec == Init /\ [][GenNext]_vars
Case == [sched |-> sched, results |-> results, reqs |-> Reqs, parts |-> Parts, dups |-> Dups, failed |-> FailedIds]
Emit == Done => PrintT(<<"CASE", ToJson(Case)>>)

\* The id dimension: the model's ids are abstract names of DISTINCT transactions; every schedule is emitted once per
\* class of concrete AMF0 numbers (decimal strings; all positive - the library tracks ids > 0 - and pairwise distinct
\* doubles) that are distinct as numbers but equal under some lossy conversion: same integral part; below 1; equal
\* modulo 2^32; equal as float32; around 2^53; beyond int64; adjacent doubles (equal in short decimal formatting);
\* above 2^31 and equal modulo 2^32.
IdClasses == {
  <<"2.75", "2.5", "2.25">>,
  <<"0.25", "0.5", "0.75">>,
  <<"1", "4294967297", "8589934593">>,
  <<"16777216", "16777217", "16777218">>,
  <<"9007199254740991", "9007199254740992", "9007199254740994">>,
  <<"1e300", "1.5e300", "1e308">>,
  <<"2", "2.0000000000000004", "2.000000000000001">>,
  <<"3000000000", "7294967296", "11589934592">> }
IdList == [k \in 1..Cardinality(Ids) |-> CHOOSE t \in Ids : Cardinality({u \in Ids : u < t}) = k - 1]
EmitIds == Done => \A c \in IdClasses :
              PrintT(<<"CASE", ToJson(Case @@ [ids |-> [k \in 1..Cardinality(Ids) |-> <<IdList[k], c[k]>>]])>>)

\* the size dimension: every schedule is emitted once per (request size, output chunk size) - sizes below / around /
\* far above a write buffer of a few KB (up to several times a 64 KB one), chunk sizes default / one buffer / larger than
\* most requests / larger than every request. The request with
\* the most transport writes in the model is the sized one; the specification does not say how many transport writes a
\* size takes (that is the implementation's buffering), the replayer maps the model's parts onto the writes it sees.
Sizes  == {300, 3000, 4000, 4096, 4200, 8000, 8300, 12500, 20000, 70000, 140000, 300000}
Chunks == {128, 4096, 65536, 1048576}
EmitSized == Done => \A s \in Sizes : \A c \in Chunks :
                PrintT(<<"CASE", ToJson(Case @@ [size |-> s, chunk |-> c])>>)
=============================================================================
