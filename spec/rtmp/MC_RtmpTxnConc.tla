------------------------- MODULE MC_RtmpTxnConc -------------------------
EXTENDS RtmpTxnConc, Json
Reqs3 == <<2, 3, 4>>
Reqs2 == <<2, 3>>
\* the same id used again by a request whose transport write fails: the first request stays outstanding
ReqsSame == <<2, 3, 2>>
\* Schedules for replay: steps the code cannot be paused between are kept adjacent
\* (marshal/register/transport-write entry of one WritePacket; read/lookup of one DecodeMessage).
GenNext == IF widx <= Len(Reqs) /\ wpc \in {"called", "registered"} /\ RegisterFirst
           THEN W_Register \/ W_TWrite
           ELSE IF rcur # 0 THEN R_Lookup ELSE Next
McView == <<widx, wpc, pending, written, nresp, inbox, rcur, results>>
GenSpec == Init /\ [][GenNext]_vars
Emit == Done => PrintT(<<"CASE", ToJson([sched |-> sched, results |-> results, reqs |-> Reqs, dups |-> Dups, failed |-> FailedIds])>>)
=============================================================================
