SPECIFICATION GenSpec
CONSTANTS
  Reqs <- Reqs3
  Parts <- P132
  RegAfter <- RegFirst
  Dups = {}
  LookupAtomic = TRUE
  FailIdx = {}
INVARIANTS NoSpurious MatchOnce NoLoss Emit
CHECK_DEADLOCK FALSE
