SPECIFICATION GenSpec
CONSTANTS
  Reqs <- Reqs3
  Parts <- P132
  RegAfter <- RegFirst
  KeyOf <- IdKey
  Dups = {}
  LookupAtomic = TRUE
  FailIdx = {}
INVARIANTS NoSpurious MatchOnce NoLoss RightType Emit
CHECK_DEADLOCK FALSE
