SPECIFICATION Spec
CONSTANTS
  Msgs <- LibMsgs
  DataCids = {5}
  MaxMsgs = 3
  Fmts = {0}
  AllForms = FALSE
  Atomic = TRUE
  FollowSCS = FALSE
  ExtDelta = TRUE
  Violations = {}
  LibrtmpPing = FALSE
  TopBits = FALSE
INVARIANTS Agree
CHECK_DEADLOCK FALSE
