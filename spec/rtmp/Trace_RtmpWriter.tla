------------------------- MODULE Trace_RtmpWriter -------------------------
(* X03 (extra check): code -> model validation of the bytes the library's     *)
(* chunk WRITER puts on the wire.  C02 binds the library's reader to          *)
(* RtmpChunk, C01 binds writer and reader to each other; a deviation that is  *)
(* symmetric between the library's writer and reader is invisible to both.    *)
(* Here the recorded output of a real rtmp.Protocol (WriteMessage /           *)
(* WritePacket) is accepted only if it is a behaviour of RtmpChunk's          *)
(* ConformantSend AND RtmpChunk's reference receiver RxStep takes every chunk *)
(* without error or desync at the chunk size in force and delivers exactly    *)
(* the messages the application wrote.                                        *)
(*                                                                            *)
(* trace.ndjson, several sessions per file:                                   *)
(*   reset  msgs = the messages the application wrote in this session         *)
(*          [id, type, sid, ts, len, ctl ("scs" for Set Chunk Size), scs];    *)
(*          hint = a diagnosis aid of the recorder, used by Why only          *)
(*   chunk  one chunk as tokenised from the raw bytes by an independent       *)
(*          tokenizer that knows only the grammar of section 5.3.1:           *)
(*          fmt, cid, form (bytes of the basic header), tsf (24-bit timestamp *)
(*          field, -1 if the header has none), ext (extended timestamp, low   *)
(*          31 bits, -1 if absent), top (its top bit), len / type / sid (-1   *)
(*          where the header type does not carry them), pay (payload bytes),  *)
(*          mi / off (k-th message started on the wire, offset inside it),    *)
(*          pm (payload bytes equal that slice of the k-th message written;   *)
(*          pmn = number of leading payload bytes that do),                   *)
(*          rep (run length: rep identical full continuation chunks in a row) *)
(*   junk   bytes the tokenizer could not frame as a chunk                    *)
(*   end    end of the session's bytes                                        *)
(* Every record is one step; there are no silent steps (the writer's output   *)
(* is fully observed), so the behaviour is a single path and acceptance is    *)
(* the high-water mark of consumed lines reaching the end of the file.        *)
EXTENDS RtmpChunk, TLC, Json

\* Everything derived from the file is computed once, in one LET, and kept as an explicit value (TLCEval): TLC keeps
\* set constructors lazy and re-evaluates a definition like ndJsonDeserialize(..) at every use, i.e. once per line.
Trace == TLCEval(LET log    == ndJsonDeserialize("trace.ndjson")
                     n      == Len(log)
                     resets == {i \in 1..n : log[i].ev = "reset"}
                     chunks == {i \in 1..n : log[i].ev = "chunk"}
                 IN [log  |-> log,
                     msgs |-> UNION {{log[i].msgs[k] : k \in 1..Len(log[i].msgs)} : i \in resets},
                     ids  |-> UNION {{<<i, log[i].msgs[k].id>> : k \in 1..Len(log[i].msgs)} : i \in resets},
                     cids |-> {log[i].cid : i \in chunks}])
TraceLog   == Trace.log
NLog       == Len(TraceLog)
\* CONSTANTS of RtmpChunk taken from the trace (cfg: Msgs <- TraceMsgs, DataCids <- TraceCids)
TraceMsgs  == Trace.msgs
TraceCids  == Trace.cids

ASSUME NLog >= 2 /\ TraceLog[1].ev = "reset" /\ TraceLog[NLog].ev = "end"
\* message ids are unique in the file (MsgById)
ASSUME Cardinality({p[2] : p \in Trace.ids}) = Cardinality(Trace.ids)

VARIABLES
  st,     \* state of the reference receiver (RtmpChunk!Decode's accumulator)
  l,      \* next line of the trace
  sess    \* line of the current session's reset record, 0 between sessions
tvars == <<vars, st, l, sess>>

RxInit == [rx |-> [c \in AllCids |-> FreshRx], rcs |-> 128, out |-> <<>>, err |-> "no"]
AppOf(s) == IF s = 0 THEN <<>> ELSE TraceLog[s].msgs
App == AppOf(sess)
ExpectedOf(o) == [i \in 1..Len(o) |-> Deliverable(o[i])]

ASSUME TLCSet(1, 0) /\ TLCSet(2, 0)
TraceInit == Init /\ st = RxInit /\ l = 1 /\ sess = 0
IsEvent(e) == l <= NLog /\ TraceLog[l].ev = e /\ l' = l + 1

\* ------------------------------------------------------------ sender side
\* the chunk the tokenizer saw is the chunk ConformantSend appended (fields the header type does not carry are not compared)
SameHdr(r, ch) ==
  /\ r.fmt = ch.fmt /\ r.cid = ch.cid /\ r.form = ch.form
  /\ r.tsf = ch.tsf /\ r.ext = ch.ext /\ r.top = ch.top
  /\ (r.fmt <= 1 => r.len = ch.len /\ r.type = ch.type)
  /\ (r.fmt = 0 => r.sid = ch.sid)
  /\ r.pay = ch.pay /\ r.off = ch.off

\* protocol control messages MUST go on chunk stream 2 (section 5.4)
CtlCidOk(m, cid) == m.type \in {1, 2, 3, 5, 6} => cid = 2

\* first chunk of the next message the application wrote: a Start step of RtmpChunk
StartEv(r) ==
  LET k == Cardinality(started) + 1 IN
  /\ prog[r.cid] = NoMsg
  /\ k <= Len(App) /\ r.mi = k /\ r.rep = 1 /\ r.pm
  /\ CtlCidOk(App[k], r.cid)
  /\ Start(App[k], r.cid, r.fmt, r.form, r.top)
  /\ SameHdr(r, wire'[Len(wire')])

\* r.rep continuation chunks of the message in progress on r.cid: Continue steps of RtmpChunk (fmt 3, extended
\* timestamp repeated, payload Min(chunk size, rest)), a run of n > 1 full chunks taken arithmetically
ContEv(r) ==
  /\ prog[r.cid] # NoMsg
  /\ LET m    == prog[r.cid].m
         done == prog[r.cid].done
         c    == cst[r.cid]
         rest == MsgLen(m) - done
     IN /\ r.fmt = 3 /\ r.form \in FormsOf(r.cid) /\ r.tsf = -1
        /\ r.ext = (IF c.ext THEN c.extval ELSE -1) /\ r.top = FALSE
        /\ r.pm /\ r.off = done /\ r.mi \in 1..Len(App) /\ App[r.mi].id = m.id
        /\ r.rep >= 1 /\ r.pay >= 1
        /\ IF r.rep = 1 THEN r.pay = Min2(scs, rest)
                        ELSE r.pay = scs /\ r.rep <= rest \div r.pay
        /\ LET adv == r.rep * r.pay IN
           IF done + adv = MsgLen(m)
           THEN Complete(m) /\ prog' = [prog EXCEPT ![r.cid] = NoMsg]
           ELSE prog' = [prog EXCEPT ![r.cid] = [m |-> m, done |-> done + adv, id |-> m.id]] /\ UNCHANGED <<order, scs>>
  /\ UNCHANGED <<cst, started, dead, wire>>

\* ---------------------------------------------------------- receiver side
RxCh(r) == [fmt |-> r.fmt, cid |-> r.cid, tsf |-> r.tsf, ext |-> r.ext, len |-> r.len, type |-> r.type,
            sid |-> r.sid, pay |-> r.pay, mid |-> App[r.mi].id]
\* n identical continuation chunks: the first n-1 are full chunks that only advance the byte count, the last goes through RxStep
RxRun(s, ch, n) ==
  IF n = 1 THEN RxStep(s, ch)
  ELSE LET c == s.rx[ch.cid] IN
       IF s.err = "no" /\ c.inmsg /\ ch.fmt = 3 /\ ch.pay >= 1 /\ ch.pay = s.rcs /\ n <= (c.len - c.got) \div ch.pay
       THEN RxStep([s EXCEPT !.rx[ch.cid].got = @ + (n - 1) * ch.pay], ch)
       ELSE [s EXCEPT !.err = "desync"]

ChunkEv ==
  /\ IsEvent("chunk") /\ sess # 0
  /\ LET r == TraceLog[l] IN
     /\ StartEv(r) \/ ContEv(r)
     /\ st' = RxRun(st, RxCh(r), r.rep)
  /\ st'.err = "no"
  /\ st'.out = ExpectedOf(order')      \* every message is delivered when its last chunk has gone by
  /\ UNCHANGED sess

ResetEv ==
  /\ IsEvent("reset") /\ sess = 0 /\ sess' = l
  /\ scs' = 128 /\ cst' = [c \in AllCids |-> FreshCst] /\ prog' = [c \in AllCids |-> NoMsg]
  /\ wire' = <<>> /\ started' = {} /\ order' = <<>> /\ dead' = "no" /\ st' = RxInit

\* end of the session's bytes: nothing unfinished, every message the application wrote was delivered, in order
EndEv ==
  /\ IsEvent("end") /\ sess # 0 /\ sess' = 0
  /\ Quiescent /\ Cardinality(started) = Len(App)
  /\ st.err = "no" /\ st.out = ExpectedOf(App)
  /\ UNCHANGED <<vars, st>>

TraceNext == ChunkEv \/ ResetEv \/ EndEv
TraceSpec == TraceInit /\ [][TraceNext]_tvars

\* ------------------------------------------------------------- acceptance
\* high-water mark of the consumed prefix and the state in which the next record had to be taken (-workers 1)
HighWater == IF l > TLCGet(1)
             THEN TLCSet(1, l) /\ TLCSet(2, [scs |-> scs, cst |-> cst, prog |-> prog, n |-> Cardinality(started), st |-> st, sess |-> sess])
             ELSE TRUE

\* why the record at the high-water mark is not a step: a name for the class of deviation (diagnosis only -
\* acceptance is decided by TraceNext above)
Why(S, r) ==
  \* the recorder's hint (diagnosis only): the bytes frame into the written messages if the chunk size never changes
  IF S.sess # 0 /\ TraceLog[S.sess].hint = "fixed-chunk-size-128" THEN "set-chunk-size-not-followed"
  ELSE IF r.ev = "junk" THEN "bytes-not-a-chunk"
  ELSE IF r.ev = "reset" THEN "session-not-ended"
  ELSE IF r.ev = "end" THEN
       (IF S.sess = 0 THEN "end-outside-session"
        ELSE IF \E c \in AllCids : S.prog[c] # NoMsg THEN "message-unfinished"
        ELSE IF S.n < Len(AppOf(S.sess)) THEN "message-not-on-the-wire"
        ELSE "delivered-messages-differ")
  ELSE IF r.ev # "chunk" THEN "unknown-record"
  ELSE IF S.sess = 0 THEN "chunk-outside-session"
  ELSE
    LET app == AppOf(S.sess)
        c   == S.cst[r.cid]
    IN
    IF S.prog[r.cid] = NoMsg
    THEN IF \E c2 \in AllCids : S.prog[c2] # NoMsg THEN "continuation-header-expected"   \* (diagnosis assumes a writer that does not interleave)
         ELSE IF S.n >= Len(app) THEN "chunk-beyond-messages"
         ELSE
           LET m      == app[S.n + 1]
               same   == c.has /\ c.sid = m.sid /\ Forward(c.ts, m.ts)   \* as RtmpChunk!Allowed (roll-over of the 31-bit timestamp)
               okf    == CASE r.fmt = 0 -> TRUE
                           [] r.fmt = 1 -> same
                           [] r.fmt = 2 -> same /\ c.len = MsgLen(m) /\ c.type = m.type
                           [] r.fmt = 3 -> same /\ c.len = MsgLen(m) /\ c.type = m.type /\ Delta31(c.ts, m.ts) = c.delta
               tsval  == IF r.fmt = 0 \/ ~c.has THEN m.ts ELSE Delta31(c.ts, m.ts)
               isext  == IF r.fmt = 3 THEN c.ext ELSE tsval >= X24
               extval == IF r.fmt = 3 THEN c.extval ELSE tsval
           IN IF MsgLen(m) = 0 /\ r.fmt <= 1 /\ r.len # 0 THEN "empty-message-not-on-the-wire"
              ELSE IF ~okf THEN "header-type-not-allowed"
              ELSE IF r.form \notin FormsOf(r.cid) THEN "basic-header-form"
              ELSE IF ~CtlCidOk(m, r.cid) THEN "control-message-chunk-stream"
              ELSE IF r.fmt # 3 /\ r.tsf = X24 /\ tsval < X24 THEN "ext-timestamp-below-threshold"
              ELSE IF r.fmt # 3 /\ r.tsf # X24 /\ tsval >= X24 THEN "ext-timestamp-missing"
              ELSE IF r.fmt # 3 /\ r.tsf # Min2(tsval, X24) THEN "timestamp-field"
              ELSE IF (r.ext >= 0) # isext THEN "ext-timestamp-presence"
              ELSE IF isext /\ r.ext # extval THEN "ext-timestamp-value"
              ELSE IF r.top THEN "ext-timestamp-top-bit"
              ELSE IF r.fmt <= 1 /\ r.len # MsgLen(m) THEN "message-length-field"
              ELSE IF r.fmt <= 1 /\ r.type # m.type THEN "message-type-field"
              ELSE IF r.fmt = 0 /\ r.sid # m.sid THEN "stream-id-field"
              ELSE IF r.pay # Min2(S.scs, MsgLen(m)) THEN "chunk-size-not-in-force"
              ELSE IF ~r.pm THEN (IF r.pmn > 0 THEN "chunk-shorter-than-size-in-force" ELSE "payload-bytes")
              ELSE IF r.mi # S.n + 1 \/ r.off # 0 \/ r.rep # 1 THEN "framing-disagrees"
              ELSE "receiver-rejects"
    ELSE
      LET m    == S.prog[r.cid].m
          done == S.prog[r.cid].done
      IN IF r.fmt # 3 THEN "continuation-header-expected"
         ELSE IF r.form \notin FormsOf(r.cid) THEN "basic-header-form"
         ELSE IF (r.ext >= 0) # c.ext THEN "c3-ext-timestamp-presence"
         ELSE IF c.ext /\ (r.ext # c.extval \/ r.top) THEN "c3-ext-timestamp"
         ELSE IF r.pay # (IF r.rep = 1 THEN Min2(S.scs, MsgLen(m) - done) ELSE S.scs) THEN "chunk-size-not-in-force"
         ELSE IF ~r.pm THEN (IF r.pmn > 0 THEN "chunk-shorter-than-size-in-force" ELSE "payload-bytes")
         ELSE IF r.off # done THEN "framing-disagrees"
         ELSE "receiver-rejects"

TraceAccepted ==
  IF TLCGet(1) = NLog + 1 THEN TRUE
  ELSE LET hw == TLCGet(1)
           r  == TraceLog[hw]
           S  == TLCGet(2)
       IN Print(<<"REJECTED at trace line", hw, Why(S, r), IF S.sess = 0 THEN "-" ELSE TraceLog[S.sess].name, r>>, FALSE)
=============================================================================
