SPECIFICATION Spec
CONSTANTS
  Requests <- CtlRequests
  PeerItems <- Ctl2PeerItems
  WaitKinds <- Ctl2WaitKinds
  WaitTypes <- CtlWaitTypes
  MaxPeer = 3
  MaxOps = 3
  DeleteOnMatch = TRUE
  WaitDecodes = FALSE
INVARIANTS EveryResponseJudged
CHECK_DEADLOCK FALSE
