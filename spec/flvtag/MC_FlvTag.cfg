SPECIFICATION Spec
CONSTANTS
  MaskOpusRate = TRUE
  AudioParams <- McAudioParams
  VideoParams <- McVideoParams
  AudioBodies <- McAudioBodies
  VideoBodies <- McVideoBodies
  ShortBodies <- McShortBodies
INVARIANTS FramesCanonical EncAccepted RoundTrip FirstByte DecCanonical Reproduce SizeOk
CHECK_DEADLOCK FALSE
