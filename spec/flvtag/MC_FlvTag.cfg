SPECIFICATION Spec
CONSTANTS
  MaskOpusRate = TRUE
  AudioFrames <- McAudioFrames
  VideoFrames <- McVideoFrames
  AudioBodies <- McAudioBodies
  VideoBodies <- McVideoBodies
INVARIANTS FramesCanonical EncAccepted RoundTrip FirstByte DecCanonical Reproduce SizeOk
CHECK_DEADLOCK FALSE
