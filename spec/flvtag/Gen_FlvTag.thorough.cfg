INIT GenInit
NEXT GenNext
CONSTANTS
  MaskOpusRate = TRUE
  AudioParams = {}
  VideoParams = {}
  AudioBodies = {}
  VideoBodies = {}
  ShortBodies = {}
  Families = {"a-first", "a-aac", "a-opus", "a-body", "v-first", "v-avc", "rate"}
  LenDeltas = {0, 1, 2}
  AbsLens = {255, 300, 65536}
  Ids = {1, 77}
  Levels = {0, 1, 255, 256, 65535}
  Ctss = {0, 1, 255, 256, 65535, 65536, 16777215, 1193046, 8388608}
  AvcFrameTypes = {0, 1, 2, 5, 15}
  BodyRateBytes <- AllBytes
INVARIANTS GenSound Emit
CHECK_DEADLOCK FALSE
