----------------------------- MODULE MC_FlvTag -----------------------------
(* Exhaustive check of FlvTag's properties on the specification itself:      *)
(* every first byte with boundary side fields, and every trait byte with a   *)
(* few first bytes (the dimensions are factored, not multiplied).            *)
EXTENDS FlvTag

AllBytes == 0..255
SomeTraits == {0, 1, 2, 4, 6, 8, 10, 12, 14, 15, 16, 128, 251, 255}

McAudioParams == {
       ([fbs |-> AllBytes, aac |-> SomeTraits, opus |-> SomeTraits, rates |-> OpusRates,
                      levels |-> {0, 1, 255, 256, 65535}, dl |-> {0, 1}, al |-> {}, ids |-> {3}])
       , ([fbs |-> {160, 166, 175, 208, 211}, aac |-> AllBytes, opus |-> AllBytes, rates |-> {8, 12, 48},
                      levels |-> {1, 65534}, dl |-> {0, 2}, al |-> {}, ids |-> {5}])
       , ([fbs |-> {208, 210}, aac |-> {}, opus |-> {4, 6, 12, 14}, rates |-> AllBytes,
                      levels |-> {258}, dl |-> {0, 1}, al |-> {}, ids |-> {6}])
       , ([fbs |-> {0, 47, 175, 209, 255}, aac |-> {1}, opus |-> {2, 14}, rates |-> {24},
                      levels |-> {513}, dl |-> {}, al |-> {40}, ids |-> {7}]) }

McVideoParams == {
       ([fbs |-> AllBytes, traits |-> {0, 1, 2, 255}, ctss |-> {0, 1, 256, 65536, 16777215},
                      dl |-> {0, 1}, al |-> {}, ids |-> {3}])
       , ([fbs |-> {23, 28, 39, 252}, traits |-> AllBytes, ctss |-> {0, 1193046, 8388608},
                      dl |-> {0, 2}, al |-> {}, ids |-> {5}])
       , ([fbs |-> {18, 23, 44}, traits |-> {1}, ctss |-> {66051}, dl |-> {}, al |-> {40}, ids |-> {7}]) }

\* bodies from an arbitrary writer: too short, just long enough, Opus side fields cut anywhere,
\* Opus first bytes with non-zero rate bits
McTails == {<<>>, <<16>>, <<48, 1>>, <<12, 255, 254>>, <<24, 0, 1, 9>>, <<8, 7, 6, 5, 4>>}
McAudioBodies == { <<AllBytes, SomeTraits, McTails>>,
                   <<{160, 175, 208, 211, 212, 223}, AllBytes, {<<>>, <<8>>, <<48, 2, 1, 7>>}>> }
McVideoBodies == { <<AllBytes, {0, 1, 2, 255}, McTails>>,
                   <<{23, 28, 39, 252}, AllBytes, {<<0, 0>>, <<0, 0, 1>>, <<1, 2, 3, 4>>}>> }
McShortBodies == {<<>>, <<175>>, <<208>>, <<23>>}

ASSUME RateTables
=============================================================================
