SPECIFICATION Spec
CONSTANTS
  MaskOpusRate = FALSE
  AudioParams <- McAudioParams
  VideoParams <- McVideoParams
  AudioBodies <- McAudioBodies
  VideoBodies <- McVideoBodies
  ShortBodies <- McShortBodies
INVARIANTS FirstByte
CHECK_DEADLOCK FALSE
