SPECIFICATION Spec
CONSTANTS
  MaskOpusRate = FALSE
  AudioFrames <- McAudioFrames
  VideoFrames <- McVideoFrames
  AudioBodies <- McAudioBodies
  VideoBodies <- McVideoBodies
INVARIANTS FirstByte
CHECK_DEADLOCK FALSE
