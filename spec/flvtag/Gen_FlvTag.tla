---------------------------- MODULE Gen_FlvTag ----------------------------
(* Case generation: every member of the configured frame families with the   *)
(* specification's layout of its tag body (one JSON line per case), bodies   *)
(* only an arbitrary writer produces, and the rate tables over 0..255.       *)
(*   dir = "both":  frame -> Encode -> Decode = frame, first byte; and the   *)
(*                  specification's body -> Decode -> Encode = body          *)
(*   dir = "bytes": only the second direction (canon: the body is canonical) *)
EXTENDS FlvTag, Json

CONSTANTS Families, LenDeltas, AbsLens, Ids, Levels, Ctss, AvcFrameTypes, BodyRateBytes

AllBytes == 0..255
OpusFirsts == {208, 209, 210, 211}           \* 13*16 + size*2 + type, rate bits zero
Base == [dl |-> LenDeltas, al |-> AbsLens, ids |-> Ids]

\* the dimensions are factored: every first byte with few side-field values; every trait byte (and for
\* Opus every defined rate x level for the flags the trait byte has) with few first bytes
AudioFamily(fam) ==
  CASE fam = "a-first" -> Base @@ [fbs |-> AllBytes, aac |-> {0, 1}, opus |-> {2, 14}, rates |-> {16}, levels |-> {513}]
    [] fam = "a-aac"   -> Base @@ [fbs |-> {160, 166, 175}, aac |-> AllBytes, opus |-> {}, rates |-> {}, levels |-> {}]
    [] fam = "a-opus"  -> Base @@ [fbs |-> OpusFirsts, aac |-> {}, opus |-> AllBytes, rates |-> OpusRates, levels |-> Levels]
VideoFamily(fam) ==
  CASE fam = "v-first" -> Base @@ [fbs |-> AllBytes, traits |-> {0, 1, 2, 255}, ctss |-> Ctss]
    [] fam = "v-avc"   -> Base @@ [fbs |-> {ft * 16 + c : ft \in AvcFrameTypes, c \in {AVC, HEVC}},
                                   traits |-> AllBytes, ctss |-> Ctss]

AudioCase(f, dir, canon) ==
  [kind |-> "audio", dir |-> dir, f |-> f, enc |-> AudioEnc(f), first |-> AudioFirstSpec(f),
   canon |-> canon, hzdef |-> HzDefined(f), hz |-> FrameHz(f)]
VideoCase(f) ==
  [kind |-> "video", dir |-> "both", f |-> f, enc |-> VideoEnc(f), first |-> VideoFirstSpec(f), canon |-> TRUE]

\* Opus bodies only another writer produces: any sampling-rate byte, and rate bits in the first byte
\* (not canonical: the encoder clears them). f is the specification's decoding of the body.
BodyCase(fb, t, r, l, n, id) ==
  LET ld == <<U8(fb), U8(t)>> \o (IF HasSR(t) THEN <<U8(r)>> ELSE <<>>) \o (IF HasAL(t) THEN <<U16(l)>> ELSE <<>>)
            \o (IF n > 0 THEN <<Fill(n, id)>> ELSE <<>>)
      d  == AudioDec(Bytes(ld))
      f  == [fmt |-> d.fmt, rate |-> d.rate, size |-> d.size, type |-> d.type, trait |-> d.trait,
             level |-> d.level, n |-> Len(d.raw), id |-> id]
  IN [kind |-> "audio", dir |-> "bytes", f |-> f, enc |-> ld, first |-> fb,
      canon |-> CanonAudioBody(Bytes(ld)), hzdef |-> HzDefined(f), hz |-> FrameHz(f)]

RateCase(table, r) ==
  [kind |-> "rate", table |-> table, rate |-> r,
   defined |-> (IF table = "flv" THEN r \in FlvRates ELSE r \in OpusRates),
   hz |-> (IF table = "flv" THEN (IF r \in FlvRates THEN FlvHz(r) ELSE 0) ELSE (IF r \in OpusRates THEN OpusHz(r) ELSE 0))]

GenInit ==
  /\ kind \in Families
  /\ \/ /\ kind \in {"a-first", "a-aac", "a-opus"}
        /\ LET p == AudioFamily(kind) IN
           \E fb \in p.fbs : \E t \in AudioTraits(p, fb) : \E f \in AudioFramesAt(p, fb, t) :
              val = AudioCase(f, "both", TRUE)
     \/ /\ kind \in {"v-first", "v-avc"}
        /\ LET p == VideoFamily(kind) IN
           \E fb \in p.fbs : \E t \in VideoTraits(p, fb) : \E f \in VideoFramesAt(p, fb, t) :
              val = VideoCase(f)
     \/ /\ kind = "a-body"
        /\ \/ \E fb \in {208, 211} : \E t \in {4, 14} : \E r \in BodyRateBytes : \E n \in {0, 1} :
                val = BodyCase(fb, t, r, 258, n, 9)
           \/ \E fb \in 208..223 : \E t \in {0, 2, 4, 8, 12} : \E r \in {8, 200} : \E n \in {0, 2} :
                val = BodyCase(fb, t, r, 65534, n, 9)
     \/ /\ kind = "rate"
        /\ \E table \in {"flv", "opus"} : \E r \in AllBytes : val = RateCase(table, r)
  /\ src = "gen" /\ pc = "gen" /\ wire = <<>> /\ back = <<>> /\ wire2 = <<>>
GenNext == UNCHANGED vars

\* every emitted frame is canonical and its body is accepted by the specification's decoder
GenSound ==
  (val.kind # "rate" /\ val.canon) =>
     /\ val.dir = "both" => (IF val.kind = "audio" THEN CanonAudio(val.f, val.f.n) ELSE CanonVideo(val.f, val.f.n))
     /\ ByteLen(val.enc) >= (IF val.kind = "audio" THEN 2 ELSE 5)
Emit == PrintT(<<"CASE", ToJson(val)>>)
=============================================================================
