------------------------------- MODULE FlvTag -------------------------------
(* FLV audio and video tag bodies (Adobe Flash Video File Format v10.1).     *)
(*                                                                           *)
(* E.4.2.1 AUDIODATA  SoundFormat UB[4] | SoundRate UB[2] | SoundSize UB[1]  *)
(*                    | SoundType UB[1]; if SoundFormat = 10 (AAC) one more  *)
(*                    byte AACPacketType (0 sequence header, 1 raw); data.   *)
(* E.4.3.1 VIDEODATA  FrameType UB[4] | CodecID UB[4]; if CodecID = 7 (AVC;  *)
(*                    the repository adds 12 = HEVC with the same layout):   *)
(*                    AVCPacketType UI8, CompositionTime 24 bits big endian; *)
(*                    data.                                                  *)
(* Opus extension documented in flv/flv.go (SoundFormat 13): the SoundRate   *)
(* bits of the first byte are 0; a trait byte follows (flags RAW = 2,        *)
(* SamplingRate = 4, AudioLevel = 8); if SamplingRate is set one byte with   *)
(* the sampling rate in kHz (8, 12, 16, 24, 48 - RFC 6716 section 2); if     *)
(* AudioLevel is set a 16-bit big-endian audio level; then the raw data.     *)
(*                                                                           *)
(* The module is shaped like the packagers' API: a frame is built, Encode    *)
(* gives the tag body, Decode gives a fresh frame, Encode again gives a body *)
(* (src = "frame"); or a body written by somebody else arrives, is decoded   *)
(* and encoded again (src = "body").                                         *)
EXTENDS Naturals, Sequences, TLC, LD

CONSTANTS
  AudioParams, VideoParams,   \* frame families (parameter records, see AudioFramesAt / VideoFramesAt)
  AudioBodies, VideoBodies,   \* bodies as an arbitrary writer produces them: sets of <<firsts, seconds, tails>>
  ShortBodies,                \* bodies of less than two bytes
  MaskOpusRate                \* TRUE: the layout above. FALSE: named deviation 'Opus rate not masked':
                              \* rate<<2 is or-ed into the first byte before its rate bits are cleared

VARIABLES pc, kind, src, val, wire, back, wire2
vars == <<pc, kind, src, val, wire, back, wire2>>

AAC  == 10
Opus == 13
AVC  == 7
HEVC == 12

Bit(v, k)   == (v \div 2^k) % 2
HasSR(t)    == Bit(t, 2) = 1          \* trait flag 4: a sampling-rate byte follows
HasAL(t)    == Bit(t, 3) = 1          \* trait flag 8: a 16-bit audio level follows
OrBit(a, b, k) == IF Bit(a, k) + Bit(b, k) > 0 THEN 2^k ELSE 0
Or8(a, b)   == OrBit(a, b, 0) + OrBit(a, b, 1) + OrBit(a, b, 2) + OrBit(a, b, 3)
             + OrBit(a, b, 4) + OrBit(a, b, 5) + OrBit(a, b, 6) + OrBit(a, b, 7)

\* ------------------------------------------------------------ rate tables
FlvRates  == 0..3
OpusRates == {8, 12, 16, 24, 48}
FlvHz(r)  == CASE r = 0 -> 5512 [] r = 1 -> 11025 [] r = 2 -> 22050 [] r = 3 -> 44100
OpusHz(r) == CASE r = 8 -> 8000 [] r = 12 -> 12000 [] r = 16 -> 16000 [] r = 24 -> 24000 [] r = 48 -> 48000
\* the frequency a frame's rate code stands for (0 where HzDefined is false)
FrameHz(f) == IF f.fmt = Opus
              THEN (IF HasSR(f.trait) /\ f.rate \in OpusRates THEN OpusHz(f.rate) ELSE 0)
              ELSE (IF f.rate \in FlvRates THEN FlvHz(f.rate) ELSE 0)
HzDefined(f) == IF f.fmt = Opus THEN HasSR(f.trait) /\ f.rate \in OpusRates ELSE f.rate \in FlvRates

\* ------------------------------------------------------------------ audio
\* frame fields: fmt, rate, size, type, trait, level  (+ n, id abstract | raw concrete)
AudioHdr(fmt, rate, size, type) == fmt * 16 + rate * 4 + size * 2 + type

\* what E.4.2 / the Opus extension say the first byte of a frame's body is
AudioFirstSpec(f) == AudioHdr(f.fmt, IF f.fmt = Opus THEN 0 ELSE f.rate, f.size, f.type)

\* what the encoder writes (equal to AudioFirstSpec unless the deviation is switched on)
AudioFirst(f) ==
  IF MaskOpusRate \/ f.fmt # Opus THEN AudioFirstSpec(f)
  ELSE LET x == Or8(AudioHdr(f.fmt, 0, f.size, f.type), (f.rate * 4) % 256)
       IN x - Bit(x, 2) * 4 - Bit(x, 3) * 8

AudioHead(f) ==
     <<U8(AudioFirst(f))>>
  \o (IF f.fmt \in {AAC, Opus}            THEN <<U8(f.trait)>>  ELSE <<>>)
  \o (IF f.fmt = Opus /\ HasSR(f.trait)   THEN <<U8(f.rate)>>   ELSE <<>>)
  \o (IF f.fmt = Opus /\ HasAL(f.trait)   THEN <<U16(f.level)>> ELSE <<>>)

Payload(f)   == IF f.n > 0 THEN <<Fill(f.n, f.id)>> ELSE <<>>
AudioEnc(f)  == AudioHead(f) \o Payload(f)            \* abstract frame -> LD
AudioEncC(c) == Bytes(AudioHead(c)) \o c.raw          \* concrete frame -> bytes

\* the decoder's acceptance: two bytes, and for Opus the announced side fields
AudioAccepts(b) ==
  /\ Len(b) >= 2
  /\ (b[1] \div 16 = Opus) =>
       Len(b) >= 2 + (IF HasSR(b[2]) THEN 1 ELSE 0) + (IF HasAL(b[2]) THEN 2 ELSE 0)

AudioDec(b) ==
  LET fmt  == b[1] \div 16
      bits == [fmt |-> fmt, rate |-> (b[1] \div 4) % 4, size |-> (b[1] \div 2) % 2, type |-> b[1] % 2,
               trait |-> 0, level |-> 0, raw |-> Drop(b, 1)]
  IN IF fmt = AAC THEN [bits EXCEPT !.trait = b[2], !.raw = Drop(b, 2)]
     ELSE IF fmt = Opus THEN
       LET t  == b[2]
           p1 == Drop(b, 2)
           r  == IF HasSR(t) THEN p1[1] ELSE bits.rate
           p2 == IF HasSR(t) THEN Drop(p1, 1) ELSE p1
           l  == IF HasAL(t) THEN BE16(p2, 1) ELSE 0
           p3 == IF HasAL(t) THEN Drop(p2, 2) ELSE p2
       IN [bits EXCEPT !.trait = t, !.rate = r, !.level = l, !.raw = p3]
     ELSE bits

AudioMinRaw(fmt) == IF fmt \in {AAC, Opus} THEN 0 ELSE 1

\* canonical: every field is one the format carries; fields it does not carry are zero
CanonAudio(f, rawlen) ==
  /\ f.fmt \in 0..15 /\ f.size \in 0..1 /\ f.type \in 0..1
  /\ f.trait \in (IF f.fmt \in {AAC, Opus} THEN 0..255 ELSE {0})
  /\ f.rate \in (IF f.fmt # Opus THEN 0..3 ELSE IF HasSR(f.trait) THEN 0..255 ELSE {0})
  /\ f.level \in (IF f.fmt = Opus /\ HasAL(f.trait) THEN 0..65535 ELSE {0})
  /\ rawlen >= AudioMinRaw(f.fmt)

\* a canonical body: accepted, and for Opus the rate bits of the first byte are zero
CanonAudioBody(b) == AudioAccepts(b) /\ (b[1] \div 16 = Opus => (b[1] \div 4) % 4 = 0)

\* ------------------------------------------------------------------ video
\* frame fields: ft, codec, trait, cts (+ n, id | raw)
HasAvcHeader(codec) == codec \in {AVC, HEVC}
VideoFirstSpec(f)   == f.ft * 16 + f.codec

VideoHead(f) ==
  <<U8(VideoFirstSpec(f))>> \o (IF HasAvcHeader(f.codec) THEN <<U8(f.trait), U24(f.cts)>> ELSE <<>>)
VideoEnc(f)  == VideoHead(f) \o Payload(f)
VideoEncC(c) == Bytes(VideoHead(c)) \o c.raw

VideoAccepts(b) == Len(b) >= 5
VideoDec(b) ==
  LET codec == b[1] % 16
  IN IF HasAvcHeader(codec)
     THEN [ft |-> b[1] \div 16, codec |-> codec, trait |-> b[2], cts |-> BE24(b, 3), raw |-> Drop(b, 5)]
     ELSE [ft |-> b[1] \div 16, codec |-> codec, trait |-> 0, cts |-> 0, raw |-> Drop(b, 1)]

VideoMinRaw(codec) == IF HasAvcHeader(codec) THEN 0 ELSE 4

CanonVideo(f, rawlen) ==
  /\ f.ft \in 0..15 /\ f.codec \in 0..15
  /\ f.trait \in (IF HasAvcHeader(f.codec) THEN 0..255 ELSE {0})
  /\ f.cts \in (IF HasAvcHeader(f.codec) THEN 0..16777215 ELSE {0})
  /\ rawlen >= VideoMinRaw(f.codec)

CanonVideoBody(b) == VideoAccepts(b)

\* --------------------------------------------------------- frame families
\* A family is described by a parameter record; the members are chosen one dimension at a time
\* (first byte, trait byte, side fields, payload) so that no large set is ever built.
RawLens(min, p) == {min + d : d \in p.dl} \cup {a \in p.al : a >= min}

\* audio p = [fbs, aac, opus, rates, levels, dl, al, ids]: first bytes; AAC / Opus trait bytes; Opus rate
\* bytes; audio levels; payload lengths as offsets from the minimum (dl) and absolute (al); fill ids
AudioTraits(p, fb) == LET fmt == fb \div 16 IN
  IF fmt = AAC THEN p.aac
  ELSE IF fmt = Opus THEN (IF (fb \div 4) % 4 = 0 THEN p.opus ELSE {})  \* Opus frames have no rate bits
  ELSE {0}
AudioFramesAt(p, fb, t) ==
  LET fmt == fb \div 16 IN
  { [fmt |-> fmt, size |-> (fb \div 2) % 2, type |-> fb % 2, trait |-> t, rate |-> r, level |-> l, n |-> n, id |-> id] :
      r \in (IF fmt # Opus THEN {(fb \div 4) % 4} ELSE IF HasSR(t) THEN p.rates ELSE {0}),
      l \in (IF fmt = Opus /\ HasAL(t) THEN p.levels ELSE {0}),
      n \in RawLens(AudioMinRaw(fmt), p), id \in p.ids }

\* video p = [fbs, traits, ctss, dl, al, ids]
VideoTraits(p, fb) == IF HasAvcHeader(fb % 16) THEN p.traits ELSE {0}
VideoFramesAt(p, fb, t) ==
  LET codec == fb % 16 IN
  { [ft |-> fb \div 16, codec |-> codec, trait |-> t, cts |-> c, n |-> n, id |-> id] :
      c \in (IF HasAvcHeader(codec) THEN p.ctss ELSE {0}),
      n \in RawLens(VideoMinRaw(codec), p), id \in p.ids }

\* ---------------------------------------------------------------- dispatch
RawOf(f)        == [i \in 1..f.n |-> FillByte(f.id, i - 1)]
ConcreteA(f)    == [fmt |-> f.fmt, rate |-> f.rate, size |-> f.size, type |-> f.type,
                    trait |-> f.trait, level |-> f.level, raw |-> RawOf(f)]
ConcreteV(f)    == [ft |-> f.ft, codec |-> f.codec, trait |-> f.trait, cts |-> f.cts, raw |-> RawOf(f)]

IsFrame(k, f)   == IF k = "audio"
                   THEN \E p \in AudioParams : \E fb \in p.fbs : \E t \in AudioTraits(p, fb) : f \in AudioFramesAt(p, fb, t)
                   ELSE \E p \in VideoParams : \E fb \in p.fbs : \E t \in VideoTraits(p, fb) : f \in VideoFramesAt(p, fb, t)
IsBody(k, b)    == \/ b \in ShortBodies
                   \/ \E bp \in (IF k = "audio" THEN AudioBodies ELSE VideoBodies) :
                        \E b1 \in bp[1] : \E b2 \in bp[2] : \E t \in bp[3] : b = <<b1, b2>> \o t
Enc(k, f)       == IF k = "audio" THEN AudioEnc(f) ELSE VideoEnc(f)
EncC(k, c)      == IF k = "audio" THEN AudioEncC(c) ELSE VideoEncC(c)
Dec(k, b)       == IF k = "audio" THEN AudioDec(b) ELSE VideoDec(b)
Accepts(k, b)   == IF k = "audio" THEN AudioAccepts(b) ELSE VideoAccepts(b)
Concrete(k, f)  == IF k = "audio" THEN ConcreteA(f) ELSE ConcreteV(f)
FirstSpec(k, f) == IF k = "audio" THEN AudioFirstSpec(f) ELSE VideoFirstSpec(f)
CanonFrame(k, f, rawlen) == IF k = "audio" THEN CanonAudio(f, rawlen) ELSE CanonVideo(f, rawlen)
CanonBody(k, b) == IF k = "audio" THEN CanonAudioBody(b) ELSE CanonVideoBody(b)

\* ------------------------------------------------------------ transitions
Init == /\ kind \in {"audio", "video"}
        /\ src \in {"frame", "body"}
        /\ IF src = "frame" THEN IsFrame(kind, val) /\ wire = <<>> /\ pc = "built"
                            ELSE val = <<>> /\ IsBody(kind, wire) /\ pc = "tag"
        /\ back = <<>> /\ wire2 = <<>>

\* packager.Encode(frame)
Encode   == /\ pc = "built" /\ wire' = Bytes(Enc(kind, val)) /\ pc' = "tag"
            /\ UNCHANGED <<kind, src, val, back, wire2>>
\* packager.Decode(tag): a frame, or 'data not enough'
Decode   == /\ pc = "tag"
            /\ IF Accepts(kind, wire) THEN back' = Dec(kind, wire) /\ pc' = "back"
                                      ELSE back' = <<>> /\ pc' = "rejected"
            /\ UNCHANGED <<kind, src, val, wire, wire2>>
\* packager.Encode(decoded frame)
Reencode == /\ pc = "back" /\ wire2' = EncC(kind, back) /\ pc' = "again"
            /\ UNCHANGED <<kind, src, val, wire, back>>
Next == Encode \/ Decode \/ Reencode
Spec == Init /\ [][Next]_vars

\* -------------------------------------------------------------- properties
Decoded == pc \in {"back", "again"}

\* the explored frames are the canonical ones
FramesCanonical == src = "frame" => CanonFrame(kind, val, val.n)
\* an encoded canonical frame is a canonical body and the decoder accepts it
EncAccepted == (src = "frame" /\ pc # "built") => (CanonBody(kind, wire) /\ pc # "rejected")
\* decoding the encoded body yields the same frame
RoundTrip   == (src = "frame" /\ Decoded) => back = Concrete(kind, val)
\* the first byte is the standard's, with the frame's own format / frame type and codec id
FirstByte   == (src = "frame" /\ pc # "built") =>
                 /\ wire[1] = FirstSpec(kind, val)
                 /\ kind = "audio" => wire[1] \div 16 = val.fmt
                 /\ kind = "video" => (wire[1] \div 16 = val.ft /\ wire[1] % 16 = val.codec)
\* a canonical body decodes to a canonical frame ...
DecCanonical == (Decoded /\ CanonBody(kind, wire)) => CanonFrame(kind, back, Len(back.raw))
\* ... and encoding that frame reproduces the bytes
Reproduce   == (pc = "again" /\ CanonBody(kind, wire)) => wire2 = wire
\* the size of a body is the size of its layout
SizeOk      == (src = "frame" /\ pc # "built") => Len(wire) = ByteLen(Enc(kind, val))

\* the rate tables as the FLV specification and RFC 6716 give them
RateTables ==
  /\ <<FlvHz(0), FlvHz(1), FlvHz(2), FlvHz(3)>> = <<5512, 11025, 22050, 44100>>
  /\ \A r \in OpusRates : OpusHz(r) = r * 1000
  /\ \A r \in 0..2 : FlvHz(r + 1) \in {2 * FlvHz(r), 2 * FlvHz(r) + 1}
=============================================================================
