INIT GenInit
NEXT GenNext
CONSTANTS
  MaskOpusRate = TRUE
  AudioParams = {}
  VideoParams = {}
  AudioBodies = {}
  VideoBodies = {}
  ShortBodies = {}
  Families = {"a-first", "a-aac", "a-opus", "a-body", "v-first", "v-avc", "rate"}
  LenDeltas = {0, 1}
  AbsLens = {300}
  Ids = {1}
  Levels = {0, 1, 65535}
  Ctss = {0, 1, 16777215, 1193046, 8388608}
  AvcFrameTypes = {1, 15}
  BodyRateBytes <- AllBytes
INVARIANTS GenSound Emit
CHECK_DEADLOCK FALSE
