SPECIFICATION Spec
CONSTANTS
  Alphabet <- DevAlphabet
  MaxSteps = 4
  AutoStart = FALSE
  Deviation = "none"
VIEW View
INVARIANTS TypeOK Sane AvgDef Baseline StartedGuard ReadsRefusedUnlessStarted ReadsAnsweredWhileRunning
PROPERTIES RateDef BackwardsZero WindowRule FirstObservation ReadIsPure ClosedIsFinal CloseIdempotent
CHECK_DEADLOCK FALSE
