SPECIFICATION Spec
CONSTANTS
  Alphabet <- DevAlphabet
  MaxSteps = 3
  AutoStart = FALSE
  Deviation = "unsigned-diff"
VIEW View
PROPERTIES BackwardsZero
CHECK_DEADLOCK FALSE
