SPECIFICATION Spec
CONSTANTS
  Alphabet <- DevAlphabet
  MaxSteps = 3
  AutoStart = FALSE
  Deviation = "avg-late"
VIEW View
INVARIANTS AvgDef
CHECK_DEADLOCK FALSE
