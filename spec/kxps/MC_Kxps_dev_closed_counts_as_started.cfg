SPECIFICATION Spec
CONSTANTS
  Alphabet <- DevAlphabet
  MaxSteps = 3
  AutoStart = FALSE
  Deviation = "closed-counts-as-started"
VIEW View
INVARIANTS ReadsRefusedUnlessStarted
CHECK_DEADLOCK FALSE
