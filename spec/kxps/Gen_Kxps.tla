------------------------------ MODULE Gen_Kxps ------------------------------
(* Behaviour generation: every behaviour of the meter over an alphabet, to a  *)
(* fixed number of observations, with the specification's expectation after   *)
(* every observation.  One JSON object per behaviour:                         *)
(*   fam  family name ("life": every history of Start / Close / Observe /     *)
(*        ReadRate of length MaxSteps, NEXT GenLifeNext, INVARIANT EmitLife;  *)
(*        the other families: Start + MaxSteps observations)                  *)
(*   w    window lengths in ms                                                *)
(*   kb,kr unit scaling <<mul, div>> of the bitrate / request-rate meters      *)
(*   h    the history, one entry per action:                                  *)
(*        <<1, 1>>                                          Start             *)
(*        <<2, 1>>                                          Close             *)
(*        <<3, i, ok, cls, num, den>>                       ReadRate(i)       *)
(*        i       1..3: the window's rate, 4: the average                     *)
(*        ok      1: answered, 0: refused (what the specification does)       *)
(*        cls     0: the meter was never started: the read must be refused    *)
(*                1: the meter is running: the read must be answered          *)
(*                2: closed after a start, or started again after Close: the  *)
(*                   property is silent (ok says what the library does)       *)
(*        num/den the value per second, if answered (for i = 4: as avn/avd    *)
(*                of the last observation)                                    *)
(*        <<0, st, dt, mk, mv, cnt, now,                    Observe           *)
(*          f1, f2, f3, n1, n2, n3, a1, a2, a3, avn, avd, ava>>               *)
(*        st      1 iff the meter is started (rates may be read)              *)
(*        dt      ms since the previous observation                           *)
(*        mk, mv  the counter move: mk = 0: add mv (mod 2^16), mk = 1: set mv *)
(*        cnt     the counter after the move (in Z/2^16), now: the instant    *)
(*        f_i     1: window i samples at this observation; 0: it does not     *)
(*                and keeps its rate; 2: its own length has elapsed but a     *)
(*                shorter window did not sample (the library's cascade does   *)
(*                not consult it) or the counter reads 0 (the library does    *)
(*                not sample then): the property does not say                 *)
(*        n_i     numerator of window i's rate after the observation: the     *)
(*                rate is n_i / w_i per second (n_i = growth * 1000, w_i ms); *)
(*                for f_i = 2: the numerator it would report if it sampled    *)
(*        a_i     (only when f_i > 0) numerator under the plain-number        *)
(*                reading of "increase"; differs from n_i only when the move  *)
(*                crosses the sign boundary of the fixed-width difference     *)
(*        avn/avd the average after the observation, per second: avn = total  *)
(*                growth * 1000 since the first non-zero observation, avd =   *)
(*                ms since then (avd = 0: no time has passed, the value read  *)
(*                at this instant is only required to be finite and           *)
(*                non-negative; avn stays meaningful for a later read)        *)
(*        ava     numerator under the plain-number reading                    *)
EXTENDS MC_Kxps, TLC, Json

CONSTANT Family
VARIABLE hist
gvars == <<vars, hist>>

\* ---- thinned alphabets
\* timing / cascade: every spacing with a growing counter, and slow / stalled /
\* decreasing counters at the spacings that make 0, 1 or 2 windows sample
GenTime == (AllDts \X {Add(1000)}) \cup ({1, 10000, 30000} \X {Add(1), Add(0), Add(-5)})
\* counter: every move at spacings that make 0, 1 or 3 windows sample
GenCounter == {1, 10000, 301000} \X AllMoves
\* public meters with Start at any position
GenApi == {<<1, Add(1000)>>, <<10000, Add(1000)>>, <<30000, Add(1)>>, <<10000, Add(-5)>>}
\* lifecycle family: one observation letter that makes the 10 s window sample
\* (every other letter of the history is Start, Close or one of the four reads)
GenLife == {<<10000, Add(1000)>>}
\* simulation: the unfactored product
GenFull == AllDts \X AllMoves

B(x) == IF x THEN 1 ELSE 0
F(i, e) == IF i \in e.fired THEN 1 ELSE IF i \in e.may THEN 2 ELSE 0
N(i, e, w) == IF i \in e.may THEN e.num[i] ELSE w[i].num

ObsEntry(a, st, c, t, w, e, a0, tt0) ==
  <<0, B(st), a[1], IF a[2][1] = "add" THEN 0 ELSE 1, a[2][2], c, t,
    F(1, e), F(2, e), F(3, e),
    N(1, e, w), N(2, e, w), N(3, e, w),
    e.alt[1], e.alt[2], e.alt[3],
    AvgNum(a0, c), IF a0 # 0 THEN t - tt0 ELSE 0, IF a0 # 0 THEN AltNum(a0, c) ELSE 0>>

GenInit == Init /\ hist = <<>>
GenNext ==
  \/ \E a \in Alphabet :
       /\ Observe(a[1], a[2])
       /\ hist' = Append(hist, ObsEntry(a, started', cnt', now', win', ev', avg0', t0'))
  \/ /\ Start
     /\ hist' = Append(hist, <<1, 1>>)

\* ---- lifecycle family: every history of {Start, Close, Observe, ReadRate(1..4)}
\* of length MaxSteps (every shorter history is a prefix of one of them: ReadRate
\* is always enabled)
GenLifeNext ==
  /\ Len(hist) < MaxSteps
  /\ \/ GenNext
     \/ /\ Close
        /\ hist' = Append(hist, <<2, 1>>)
     \/ \E i \in Reads :
          /\ ReadRate(i)
          /\ hist' = Append(hist, <<3, i, B(ev'.ok), ReadClass, ev'.num, ev'.den>>)

CaseOf == [fam |-> Family, w |-> WLen, kb |-> KbpsScale, kr |-> KrpsScale, h |-> hist]
Emit == (steps = MaxSteps) => PrintT(<<"CASE", ToJson(CaseOf)>>)
EmitLife == (Len(hist) = MaxSteps) => PrintT(<<"CASE", ToJson(CaseOf)>>)
=============================================================================
