SPECIFICATION Spec
CONSTANTS
  Alphabet <- DevAlphabet
  MaxSteps = 3
  AutoStart = FALSE
  Deviation = "read-unguarded"
VIEW View
INVARIANTS StartedGuard
CHECK_DEADLOCK FALSE
