SPECIFICATION Spec
CONSTANTS
  Alphabet <- DevAlphabet
  MaxSteps = 3
  AutoStart = FALSE
  Deviation = "elapsed-div"
VIEW View
PROPERTIES RateDef
CHECK_DEADLOCK FALSE
