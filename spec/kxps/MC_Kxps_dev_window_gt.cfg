SPECIFICATION Spec
CONSTANTS
  Alphabet <- DevAlphabet
  MaxSteps = 3
  AutoStart = FALSE
  Deviation = "window-gt"
VIEW View
PROPERTIES WindowRule
CHECK_DEADLOCK FALSE
