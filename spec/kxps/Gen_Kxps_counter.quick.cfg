INIT GenInit
NEXT GenNext
CONSTANTS
  Alphabet <- GenCounter
  MaxSteps = 3
  AutoStart = TRUE
  Deviation = "none"
  Family = "counter"
INVARIANT Emit
CHECK_DEADLOCK FALSE
