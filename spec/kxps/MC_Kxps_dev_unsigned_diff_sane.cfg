SPECIFICATION Spec
CONSTANTS
  Alphabet <- DevAlphabet
  MaxSteps = 3
  AutoStart = FALSE
  Deviation = "unsigned-diff"
VIEW View
INVARIANTS Sane
CHECK_DEADLOCK FALSE
