------------------------------ MODULE MC_Kxps ------------------------------
(* Exhaustive checks of the property on the specification itself.  Two       *)
(* factored alphabets (time x counter) instead of their product.             *)
EXTENDS Kxps

Add(d) == <<"add", d>>
Set(v) == <<"set", v>>

AllDts   == {0, 1, 5000, 9999, 10000, 11000, 30000, 301000}
AllMoves == {Add(0), Add(1), Add(1000), Add(-5), Set(0), Set(M - 2), Add(Half)}

\* every spacing, monotone / stalled / slightly decreasing counter
TimeAlphabet == AllDts \X {Add(1000), Add(0), Add(-5)}
\* every counter move, spacings that make 0, 1, 2 or 3 windows sample
WrapAlphabet == {1, 10000, 30000, 301000} \X AllMoves
\* thorough tier: one more spacing (two observations at the same instant)
WrapAlphabetT == {0, 1, 10000, 30000, 301000} \X AllMoves
\* small alphabet for the non-vacuity runs
DevAlphabet  == {0, 1, 10000, 11000, 30000} \X {Add(1000), Add(-5), Add(0)}
=============================================================================
