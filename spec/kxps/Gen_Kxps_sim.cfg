INIT GenInit
NEXT GenNext
CONSTANTS
  Alphabet <- GenFull
  MaxSteps = 40
  AutoStart = TRUE
  Deviation = "none"
  Family = "sim"
INVARIANT Emit
CHECK_DEADLOCK FALSE
