INIT GenInit
NEXT GenNext
CONSTANTS
  Alphabet <- GenTime
  MaxSteps = 4
  AutoStart = TRUE
  Deviation = "none"
  Family = "time"
INVARIANT Emit
CHECK_DEADLOCK FALSE
