SPECIFICATION Spec
CONSTANTS
  Alphabet <- WrapAlphabetT
  MaxSteps = 4
  AutoStart = FALSE
  Deviation = "none"
VIEW View
INVARIANTS TypeOK Sane AvgDef Baseline StartedGuard
PROPERTIES RateDef BackwardsZero WindowRule FirstObservation ReadIsPure
CHECK_DEADLOCK FALSE
