INIT GenInit
NEXT GenLifeNext
CONSTANTS
  Alphabet <- GenLife
  MaxSteps = 6
  AutoStart = FALSE
  Deviation = "none"
  Family = "life"
INVARIANT EmitLife
CHECK_DEADLOCK FALSE
