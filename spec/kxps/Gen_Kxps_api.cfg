INIT GenInit
NEXT GenNext
CONSTANTS
  Alphabet <- GenApi
  MaxSteps = 3
  AutoStart = FALSE
  Deviation = "none"
  Family = "api"
INVARIANT Emit
CHECK_DEADLOCK FALSE
