-------------------------------- MODULE Kxps --------------------------------
(* Rate meters (kxps): a counter is observed at sampling instants; three      *)
(* windows (10 s, 30 s, 300 s) each remember the count and the time of their  *)
(* previous sample and the rate computed at that sample; an average runs      *)
(* since the first non-zero observation; rates may only be read once the      *)
(* meter is started.                                                          *)
(*                                                                            *)
(* Shaped like the implementation: one action per call                        *)
(*   Observe(dt, mv)  the sampling step at instant now+dt after the counter   *)
(*                    moved by mv, followed by a read of the average at the   *)
(*                    same instant                                            *)
(*   Start            the meter is started                                    *)
(*   Close            the meter is closed                                     *)
(*   ReadRate(i)      a rate (i = 1..3) or the average (i = 4) is read        *)
(*                    through the public meter                                *)
(*                                                                            *)
(* Lifecycle.  The package documents: "Start the kbps sample goroutine" and   *)
(* "When closed, this kbps should never use again"; its example is            *)
(* New; defer Close; Start; reads.  The property says: reading a rate before  *)
(* the meter is started is refused.  A meter is therefore in one of           *)
(*   new                 never started, not closed        reads refused  (P)  *)
(*   running             started, not closed              reads answered (P)  *)
(*   closed-unstarted    closed, never started            reads refused  (P)  *)
(*   closed-after-start  started, then closed             reads refused  (L)  *)
(*   restarted           closed, then started (again)     reads answered (L)  *)
(* (P): demanded by the property - a meter that was never started has no      *)
(* sample to report, whether or not it was closed meanwhile; Close does not   *)
(* start a meter.  (L): the documentation only says that a closed meter is    *)
(* not to be used again; the specification records what the unmodified        *)
(* library does (Close clears the started flag, Start sets it whatever        *)
(* happened before), the property is silent there and the replay accepts      *)
(* either outcome.  Close is idempotent; it stops the sampler: the sampling   *)
(* step refuses to run on a closed meter, so Observe is disabled from then    *)
(* on (also after a later Start: the sampler it spawns sees the meter closed  *)
(* and ends at once).  Starting a running meter once more is not modelled.    *)
(*                                                                            *)
(* Time is integer milliseconds.  The counter lives in Z/M (M = 2^16); the    *)
(* difference of two counts is taken in Z/M and interpreted as a signed       *)
(* number, as a fixed-width machine counter does.  The replayer embeds Z/M    *)
(* into the 64-bit counter of the library by multiplying with 2^48, which     *)
(* preserves zero tests, wrap-around and the sign of the difference, and      *)
(* scales every rate by exactly 2^48.                                         *)
(* A rate is the exact fraction num/den per second: num = growth * 1000,      *)
(* den = milliseconds.                                                        *)
EXTENDS Integers, Sequences, FiniteSets

CONSTANTS
  Alphabet,   \* set of <<dt, mv>>; dt in ms; mv = <<"add", d>> (d may be negative) or <<"set", v>>
  MaxSteps,   \* bound on the number of observations (Gen_Kxps, family "life": on the length of the history)
  AutoStart,  \* TRUE: Start is the forced first action; FALSE: Start may happen at any time
  Deviation   \* "none", or a named wrong behaviour:
              \*   "window-gt"     a window samples only when MORE than its length has elapsed
              \*   "elapsed-div"   growth is divided by the elapsed time, not by the window length
              \*   "unsigned-diff" the difference of counts is not interpreted as signed
              \*   "avg-late"      the average's baseline time is the current read, not the first one
              \*   "read-unguarded" rates can be read before Start
              \*   "closed-counts-as-started" the read guard is "started or closed": Close opens it

M    == 65536
Half == 32768
WLen == <<10000, 30000, 300000>>   \* window lengths in ms, shortest first
Win  == 1..3
Zero3 == [i \in Win |-> 0]

\* unit scaling of the public meters: value = rate * Scale[1] / Scale[2]
KbpsScale == <<8, 1000>>           \* counter counts bytes; reported in kbit/s
KrpsScale == <<1, 1>>              \* counter counts requests; reported per second

VARIABLES
  now,      \* current instant, ms
  cnt,      \* the counter, in 0..M-1
  win,      \* [Win -> [c: count at the window's previous sample, last: its time, num, den: last rate]]
  avg0, t0, \* the average's baseline: count (0 = not yet set) and time
  avg,      \* result of the last read of the average, <<num, den>>
  started,  \* the flag the read guard looks at
  closed,   \* Close was called
  ever,     \* ghost: Start was called at some time in the past
  steps,    \* number of observations so far
  g0,       \* ghost: [c, t] of the first observation that saw a non-zero counter (c = 0: none yet)
  ev        \* ghost: what the last action did
vars == <<now, cnt, win, avg0, t0, avg, started, closed, ever, steps, g0, ev>>

\* ------------------------------------------------------------------ arithmetic
ApplyMove(c, mv) == IF mv[1] = "add" THEN (c + mv[2] + M) % M ELSE mv[2]

\* b - a in Z/M, as a signed number in -Half .. Half-1
SDiff(a, b) == LET d == (b - a + M) % M IN IF d >= Half THEN d - M ELSE d
UDiff(a, b) == (b - a + M) % M

Diff(a, b) == IF Deviation = "unsigned-diff" THEN UDiff(a, b) ELSE SDiff(a, b)

\* The two readings of "the counter's increase from a to b" coincide unless the
\* move crosses the sign boundary of the fixed-width difference:
\*   as plain numbers:   b - a if b >= a, a decrease otherwise
\*   in Z/M, signed:     SDiff(a, b)
Agree(a, b) == (b >= a /\ b - a < Half) \/ (b < a /\ a - b <= Half)
\* numerator of the rate under the plain reading (emitted as the alternative a
\* conformant meter may report where the readings differ)
AltNum(a, b) == IF b > a THEN (b - a) * 1000 ELSE 0

\* ------------------------------------------------------------------ sampling rule
Elapsed(i, t) == IF Deviation = "window-gt" THEN t > win[i].last + WLen[i]
                                            ELSE t >= win[i].last + WLen[i]

\* window i is consulted only if every shorter window sampled: the windows that
\* sample at instant t are the longest prefix of windows whose length has elapsed
Cascade(t) == IF ~Elapsed(1, t) THEN {}
              ELSE IF ~Elapsed(2, t) THEN {1}
              ELSE IF ~Elapsed(3, t) THEN {1, 2}
              ELSE {1, 2, 3}

SampleOne(i, t, c) ==
  LET d   == Diff(win[i].c, c)
      den == IF Deviation = "elapsed-div" THEN t - win[i].last ELSE WLen[i]
  IN [c |-> c, last |-> t,
      num |-> IF d <= 0 THEN 0 ELSE d * 1000,
      den |-> IF d <= 0 THEN WLen[i] ELSE den]

\* ------------------------------------------------------------------ average
\* numerator of the average for baseline count a0 and counter c (0 = no growth)
AvgNum(a0, c) ==
  IF c = 0 \/ a0 = 0 THEN 0
  ELSE LET d == Diff(a0, c) IN IF d <= 0 THEN 0 ELSE d * 1000

\* read of the average at instant t with counter c: <<avg0', t0', result>>
AvgRead(t, c) ==
  IF c = 0 THEN <<avg0, t0, <<0, 1>>>>
  ELSE IF avg0 = 0 THEN <<c, t, <<0, 1>>>>
  ELSE LET n   == AvgNum(avg0, c)
           b   == IF Deviation = "avg-late" THEN t ELSE t0
           dur == t - b
       IN <<avg0, b, IF n = 0 \/ dur <= 0 THEN <<0, 1>> ELSE <<n, dur>>>>

\* ------------------------------------------------------------------ actions
Init ==
  /\ now = 0 /\ cnt = 0
  /\ win = [i \in Win |-> [c |-> 0, last |-> 0, num |-> 0, den |-> WLen[i]]]
  /\ avg0 = 0 /\ t0 = 0 /\ avg = <<0, 1>>
  /\ started = FALSE /\ closed = FALSE /\ ever = FALSE /\ steps = 0
  /\ g0 = [c |-> 0, t |-> 0]
  /\ ev = [kind |-> "init"]

Observe(dt, mv) ==
  LET t == now + dt
      c == ApplyMove(cnt, mv)
      r == AvgRead(t, c)
  IN /\ steps < MaxSteps
     /\ (AutoStart => started)
     /\ ~closed                        \* the sampler of a closed meter has stopped
     /\ now' = t /\ cnt' = c /\ steps' = steps + 1
     /\ IF c = 0                       \* a zero counter is not sampled at all
          THEN LET \* windows whose length has elapsed: the library does not sample a zero
                   \* counter; a meter that did would see the counter going backwards
                   m == IF win[1].c = 0 THEN {} ELSE {i \in Win : Elapsed(i, t)}
               IN
               /\ win' = win
               /\ ev' = [kind |-> "observe", fired |-> {}, may |-> m, first |-> FALSE,
                         num |-> [i \in Win |-> IF i \in m THEN SampleOne(i, t, c).num ELSE 0],
                         alt |-> [i \in Win |-> IF i \in m THEN AltNum(win[i].c, c) ELSE 0]]
        ELSE IF win[1].c = 0           \* first non-zero observation: every window starts here
          THEN /\ win' = [i \in Win |-> [win[i] EXCEPT !.c = c, !.last = t]]
               /\ ev' = [kind |-> "observe", fired |-> {}, may |-> {}, first |-> TRUE, num |-> Zero3, alt |-> Zero3]
        ELSE LET f == Cascade(t)
                 \* windows whose own length has elapsed but which are not consulted
                 \* because a shorter window did not sample
                 m == {i \in Win \ f : Elapsed(i, t)}
             IN
               /\ win' = [i \in Win |-> IF i \in f THEN SampleOne(i, t, c) ELSE win[i]]
               /\ ev' = [kind |-> "observe", fired |-> f, may |-> m, first |-> FALSE,
                         \* the rate numerator window i reports if it samples now
                         num |-> [i \in Win |-> IF i \in f \cup m THEN SampleOne(i, t, c).num ELSE 0],
                         alt |-> [i \in Win |-> IF i \in f \cup m THEN AltNum(win[i].c, c) ELSE 0]]
     /\ avg0' = r[1] /\ t0' = r[2] /\ avg' = r[3]
     /\ g0' = IF g0.c = 0 /\ c # 0 THEN [c |-> c, t |-> t] ELSE g0
     /\ UNCHANGED <<started, closed, ever>>

\* also on a closed meter (state "restarted"): the library's Start does not look at closed
Start ==
  /\ ~started
  /\ started' = TRUE /\ ever' = TRUE
  /\ ev' = [kind |-> "start"]
  /\ UNCHANGED <<now, cnt, win, avg0, t0, avg, closed, steps, g0>>

\* always possible, idempotent; the meter keeps what it sampled but is not started any more
Close ==
  /\ closed' = TRUE /\ started' = FALSE
  /\ ev' = [kind |-> "close"]
  /\ UNCHANGED <<now, cnt, win, avg0, t0, avg, ever, steps, g0>>

\* the read guard
Readable ==
  \/ started
  \/ Deviation = "read-unguarded"
  \/ (Deviation = "closed-counts-as-started" /\ closed)

\* reading a rate (i in Win) or the average (i = 4, at the instant of the last
\* observation, where Observe read it already): refused unless the guard is
\* open; never changes the meter
Reads == 1..4
ReadRate(i) ==
  /\ ev' = [kind |-> "read", w |-> i, ok |-> Readable,
            num |-> IF i \in Win THEN win[i].num ELSE avg[1],
            den |-> IF i \in Win THEN win[i].den ELSE avg[2]]
  /\ UNCHANGED <<now, cnt, win, avg0, t0, avg, started, closed, ever, steps, g0>>

Next == \/ \E a \in Alphabet : Observe(a[1], a[2])
        \/ Start
        \/ Close
        \/ \E i \in Reads : ReadRate(i)

Spec == Init /\ [][Next]_vars

\* the meter's life up to Close: the lifecycle is orthogonal to what is sampled,
\* so the large time / counter alphabets are checked without Close (SpecRun)
\* and the whole lifecycle over a small alphabet (Spec)
NextRun == \/ \E a \in Alphabet : Observe(a[1], a[2])
           \/ Start
           \/ \E i \in Win : ReadRate(i)
SpecRun == Init /\ [][NextRun]_vars

\* ------------------------------------------------------------------ the property
TypeOK ==
  /\ now \in Nat /\ cnt \in 0..(M - 1) /\ steps \in 0..MaxSteps /\ started \in BOOLEAN
  /\ closed \in BOOLEAN /\ ever \in BOOLEAN /\ (started => ever)
  /\ \A i \in Win : /\ win[i].c \in 0..(M - 1) /\ win[i].last \in Nat
                    /\ win[i].num \in Nat /\ win[i].den \in Nat
  /\ avg0 \in 0..(M - 1) /\ t0 \in Nat /\ avg[1] \in Nat /\ avg[2] \in Nat

Observed == ev.kind = "observe"

\* every reported value is finite and non-negative, and never astronomically
\* large: no rate exceeds what a growth below the sign boundary can give
Sane ==
  /\ \A i \in Win : win[i].num >= 0 /\ win[i].den >= WLen[i] /\ win[i].num <= (Half - 1) * 1000
  /\ avg[1] >= 0 /\ avg[2] > 0 /\ avg[1] <= (Half - 1) * 1000

\* after a window sampled, its rate is the counter's increase since that window's
\* previous sample divided by the window length (for a non-decreasing counter)
RateDef ==
  [][Observed' =>
       \A i \in ev'.fired :
         LET a == win[i].c  b == cnt' IN
           /\ win'[i].c = b /\ win'[i].last = now'
           /\ (b >= a /\ b - a < Half) => (win'[i].num = (b - a) * 1000 /\ win'[i].den = WLen[i])]_vars

\* a counter that stalls or goes backwards yields 0
BackwardsZero ==
  [][Observed' =>
       \A i \in ev'.fired :
         LET a == win[i].c  b == cnt' IN (b <= a /\ a - b <= Half) => win'[i].num = 0]_vars

\* "the last full window": once the meter runs, a window samples at an observation
\* exactly when its full length has elapsed since its previous sample and every
\* shorter window sampled too; a window that does not sample keeps its rate.
\* (The property itself is silent on the windows in ev.may - own length elapsed,
\* but not consulted because a shorter window did not sample (the library's
\* cascade) or because the counter reads 0 (the library does not sample then).
\* The replay accepts both outcomes for them.)
WindowRule ==
  [][(Observed' /\ cnt' # 0 /\ win[1].c # 0) =>
       /\ ev'.fired = {i \in Win : \A j \in 1..i : now' - win[j].last >= WLen[j]}
       /\ \A i \in Win \ ev'.fired : win'[i] = win[i]]_vars

\* a zero counter is not sampled; the first non-zero observation starts every window
FirstObservation ==
  [][Observed' =>
       /\ cnt' = 0 => win' = win
       /\ (cnt' # 0 /\ win[1].c = 0) =>
            \A i \in Win : win'[i].c = cnt' /\ win'[i].last = now' /\ win'[i].num = win[i].num]_vars

\* the average equals the total increase over the time since the first non-zero observation
AvgDef ==
  (Observed /\ g0.c # 0) =>
     LET a == g0.c  b == cnt  dur == now - g0.t IN
       /\ (b > a /\ b - a < Half /\ dur > 0) => avg = <<(b - a) * 1000, dur>>
       /\ (b = a) => avg[1] = 0
       /\ (b <= a /\ a - b <= Half) => avg[1] = 0
\* ... and the baseline is that observation, for good
Baseline ==
  /\ (g0.c # 0) => (avg0 = g0.c /\ t0 = g0.t)
  /\ (g0.c = 0) => (avg0 = 0 /\ avg[1] = 0)

\* reading a rate before the meter is started is refused, and a read never disturbs the meter
\* (StartedGuard is the library's rule: the guard is the started flag, which Close clears)
StartedGuard == ev.kind = "read" => (ev.ok <=> started)
ReadIsPure   == [][ev'.kind = "read" =>
                     /\ win' = win /\ avg' = avg /\ avg0' = avg0 /\ t0' = t0
                     /\ ev'.w \in Win => (ev'.num = win[ev'.w].num /\ ev'.den = win[ev'.w].den)
                     /\ ev'.w = 4 => (ev'.num = avg[1] /\ ev'.den = avg[2])]_vars

\* ---- lifecycle
\* the property's clause over every history of {Start, Close, Observe, Read}: a
\* read is answered only if Start was called before it - whatever else happened
\* to the meter (in particular: Close does not count as Start)
ReadsRefusedUnlessStarted == ev.kind = "read" => (ev.ok => ever)
\* ... and a running meter (started, not closed) answers
ReadsAnsweredWhileRunning == (ev.kind = "read" /\ started /\ ~closed) => ev.ok
\* the lifecycle state a read happens in, for the generated cases:
\*   0 must be refused (never started)   1 must be answered (running)
\*   2 the property is silent (closed after a start, or started again after Close)
ReadClass == IF ~ever THEN 0 ELSE IF started /\ ~closed THEN 1 ELSE 2
\* closed is for good, Close is idempotent, and a closed meter is not sampled any more
ClosedIsFinal == [][closed => (closed' /\ win' = win /\ cnt' = cnt /\ now' = now)]_vars
CloseIdempotent == [][(closed /\ ~started /\ ev'.kind = "close") => (started' = started /\ closed' = closed /\ ever' = ever)]_vars

\* ------------------------------------------------------------------ MC view
\* absolute time is irrelevant: only ages relative to now matter, and an age
\* beyond the window length behaves like the window length
Min(x, y) == IF x < y THEN x ELSE y
View ==
  <<steps, cnt, started, closed, ever, ev, avg,
    [i \in Win |-> IF win[i].c = 0 THEN <<0, 0, win[i].num, win[i].den>>
                   ELSE <<win[i].c, Min(now - win[i].last, WLen[i]), win[i].num, win[i].den>>],
    avg0, IF avg0 = 0 THEN 0 ELSE now - t0,
    g0.c, IF g0.c = 0 THEN 0 ELSE now - g0.t>>
=============================================================================
