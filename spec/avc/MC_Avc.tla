------------------------------ MODULE MC_Avc ------------------------------
EXTENDS Avc
McHeaders == {<<66, 0, 30>>, <<255, 192, 255>>}
McPatterns == {<<1>>, <<2>>, <<3, 1>>}
McPosHeaders == {<<77, 64, 41>>}
\* start codes at the start / in the middle / at the end of the payload, behind a zero and a non-zero header byte
McMimics == {[sc |-> 0, w |-> "s", nri |-> 0, t |-> 0]}
            \cup {[sc |-> sc, w |-> w, nri |-> h[1], t |-> h[2]] : sc \in {3, 4}, w \in {"s", "m", "e"}, h \in {<<0, 0>>, <<3, 5>>}}
\* the three header bytes are independent: classes of each, crossed
McMatrix == {<<p, c, l>> : p \in {0, 66, 77, 100, 110, 122, 144, 255}, c \in {0, 16, 64, 192, 255}, l \in {0, 11, 255}}
\* the small configuration of the non-vacuity runs (named deviations)
McMatrixSmall == {<<66, 0, 11>>, <<66, 64, 11>>, <<110, 16, 30>>, <<77, 16, 11>>}
=============================================================================
