INIT GenInit
NEXT GenNext
CONSTANTS
  Tier = "thorough"
  WithReserved = TRUE
  Dev = "none"
  Headers <- GenHeaders
  SpsCounts = {0, 1, 2, 3, 30, 31}
  PpsCounts = {0, 1, 2, 3, 254, 255}
  NalCounts = {0, 1, 2, 3, 5, 17}
  SizePatterns <- ThoroughPatterns
  PosSizes = {1, 2, 3, 4, 5, 255, 256, 257, 65535, 65536}
  PosCounts = {2, 3}
  RecPosSizes = {1, 2, 3, 255, 256, 65535}
  RecPosCounts = {0, 1, 2}
  PosHeaders <- GenPosHeaders
  MimicSizes = {1, 2, 4, 5, 6, 9, 300}
  Mimics <- GenMimics
  MimicCounts = {1, 2}
  HeaderMatrix <- GenMatrix
  MatrixLsm1 = {0, 3}
  MaxBytes = 40000000
INVARIANT Emit
CHECK_DEADLOCK FALSE
