INIT GenInit
NEXT GenNext
CONSTANTS
  WithReserved = TRUE
  Headers <- GenHeaders
  SpsCounts = {0, 1, 2, 3, 30, 31}
  PpsCounts = {0, 1, 2, 3, 254, 255}
  NalCounts = {0, 1, 2, 3, 5, 17}
  SizePatterns <- ThoroughPatterns
  MaxBytes = 40000000
INVARIANT Emit
CHECK_DEADLOCK FALSE
