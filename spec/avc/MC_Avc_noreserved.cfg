SPECIFICATION Spec
CONSTANTS
  WithReserved = FALSE
  Dev = "none"
  Headers <- McHeaders
  SpsCounts = {0, 1}
  PpsCounts = {0, 1}
  NalCounts = {0, 1, 2}
  SizePatterns <- McPatterns
  PosSizes = {1, 2}
  PosCounts = {2}
  RecPosSizes = {1, 2}
  RecPosCounts = {0, 1}
  PosHeaders <- McPosHeaders
  MimicSizes = {1, 5}
  Mimics <- McMimics
  MimicCounts = {1}
  HeaderMatrix <- McMatrixSmall
  MatrixLsm1 = {3}
  MaxBytes = 100
INVARIANTS ReservedOk
CHECK_DEADLOCK FALSE
