SPECIFICATION Spec
CONSTANTS
  WithReserved = FALSE
  Headers <- McHeaders
  SpsCounts = {0, 1, 2}
  PpsCounts = {0, 1, 3}
  NalCounts = {0, 1, 2, 3}
  SizePatterns <- McPatterns
  MaxBytes = 100
INVARIANTS ReservedOk
CHECK_DEADLOCK FALSE
