-------------------------------- MODULE Avc --------------------------------
(* AVC (ISO/IEC 14496-15 5.2.4.1, ISO/IEC 14496-10 7.3.1) containers:        *)
(*   NAL unit      = header byte (forbidden_zero 1 bit = 0, nal_ref_idc 2,    *)
(*                   nal_unit_type 5) + payload                               *)
(*   configuration = 1, profile, compat, level, 111111b+lengthSizeMinusOne,   *)
(*   record          111b+numSPS, (u16 len, NAL)*, numPPS, (u16 len, NAL)*    *)
(*   sample        = (length in lengthSizeMinusOne+1 bytes big endian, NAL)*  *)
(* The module is shaped like the library's API: a value is built, marshalled  *)
(* to the wire, unmarshalled into a fresh value and marshalled again.         *)
EXTENDS Naturals, Sequences, LD

CONSTANTS
  Headers,      \* set of <<profile, compat, level>>
  SpsCounts, PpsCounts, NalCounts,
  SizePatterns, \* set of sequences of NAL sizes (header byte included), cycled over the NALs
  MaxBytes,     \* only values whose encoding is at most this long
  WithReserved  \* TRUE: the ISO layout; FALSE: named deviation 'reserved bits not written'

VARIABLES pc, kind, val, wire, back, wire2
vars == <<pc, kind, val, wire, back, wire2>>

Pow256(k) == CASE k = 1 -> 256 [] k = 2 -> 65536 [] k = 3 -> 16777216 [] k = 4 -> 2147483647

\* ---------------------------------------------------------------- values
\* The i-th NAL of a list: size from the pattern, header fields vary with i.
MkNal(i, pat, salt) ==
  [nri |-> (i + salt) % 4, t |-> (i * 7 + salt) % 32,
   n   |-> pat[((i - 1) % Len(pat)) + 1] - 1, id |-> i + 10 * salt]
MkNals(cnt, pat, salt) == [i \in 1..cnt |-> MkNal(i, pat, salt)]

Records ==
  { [profile |-> h[1], compat |-> h[2], level |-> h[3], lsm1 |-> l,
     sps |-> MkNals(ns, pat, 1), pps |-> MkNals(np, pat, 2)] :
      h \in Headers, l \in 0..3, ns \in SpsCounts, np \in PpsCounts, pat \in SizePatterns }
Samples ==
  { [lsm1 |-> l, nals |-> MkNals(c, pat, 3)] : l \in 0..3, c \in NalCounts, pat \in SizePatterns }
NalUnits ==
  { [nri |-> r, t |-> t, n |-> n, id |-> 5] : r \in 0..3, t \in 0..31, n \in {0, 1, 2} }

\* --------------------------------------------------------------- encoders
NalHdr(nal)  == nal.nri * 32 + nal.t
NalEnc(nal)  == <<U8(NalHdr(nal))>> \o (IF nal.n > 0 THEN <<Fill(nal.n, nal.id)>> ELSE <<>>)

RECURSIVE ParamSets(_)
ParamSets(nals) ==
  IF nals = <<>> THEN <<>>
  ELSE <<U16(1 + Head(nals).n)>> \o NalEnc(Head(nals)) \o ParamSets(Tail(nals))

RecEnc(r) ==
  <<U8(1), U8(r.profile), U8(r.compat), U8(r.level),
    U8((IF WithReserved THEN 252 ELSE 0) + r.lsm1),      \* reserved '111111'b + lengthSizeMinusOne
    U8((IF WithReserved THEN 224 ELSE 0) + Len(r.sps))>> \* reserved '111'b + numOfSequenceParameterSets
  \o ParamSets(r.sps) \o <<U8(Len(r.pps))>> \o ParamSets(r.pps)

LenField(k, v) == CASE k = 1 -> U8(v) [] k = 2 -> U16(v) [] k = 3 -> U24(v) [] k = 4 -> U32(v)

RECURSIVE SampleEncNals(_, _)
SampleEncNals(k, nals) ==
  IF nals = <<>> THEN <<>>
  ELSE <<LenField(k, 1 + Head(nals).n)>> \o NalEnc(Head(nals)) \o SampleEncNals(k, Tail(nals))
SampleEnc(s) == SampleEncNals(s.lsm1 + 1, s.nals)

Fits(s) == \A i \in 1..Len(s.nals) : 1 + s.nals[i].n < Pow256(s.lsm1 + 1)

Enc(k, v) == CASE k = "record" -> RecEnc(v) [] k = "sample" -> SampleEnc(v) [] k = "nalu" -> NalEnc(v)

\* ------------------------------------------- byte-level decoders (reference)
\* A decoded NAL carries its payload bytes instead of (n, id).
NalDec(b) == [nri |-> (b[1] \div 32) % 4, t |-> b[1] % 32, data |-> Drop(b, 1)]

\* <<list of NALs, rest>> for cnt length-prefixed NALs with k-byte lengths
BEk(b, k) == CASE k = 1 -> b[1] [] k = 2 -> BE16(b, 1) [] k = 3 -> BE24(b, 1)
               [] k = 4 -> b[1] * 16777216 + BE24(b, 2)
RECURSIVE TakeNals(_, _, _)
TakeNals(b, cnt, k) ==
  IF cnt = 0 THEN <<<<>>, b>>
  ELSE LET l == BEk(b, k)
           r == TakeNals(Drop(b, k + l), cnt - 1, k)
       IN <<<<NalDec(Sub(b, k + 1, l))>> \o r[1], r[2]>>

RecDec(b) ==
  LET s == TakeNals(Drop(b, 6), b[6] % 32, 2)
      p == TakeNals(Drop(s[2], 1), s[2][1], 2)
  IN [version |-> b[1], profile |-> b[2], compat |-> b[3], level |-> b[4], lsm1 |-> b[5] % 4,
      reserved |-> <<b[5] \div 4, b[6] \div 32>>, sps |-> s[1], pps |-> p[1], rest |-> p[2]]

RECURSIVE SampleDecNals(_, _)
SampleDecNals(b, k) ==
  IF b = <<>> THEN <<>>
  ELSE LET l == BEk(b, k) IN <<NalDec(Sub(b, k + 1, l))>> \o SampleDecNals(Drop(b, k + l), k)

\* what a value looks like after decoding its own bytes
CNal(nal)  == [nri |-> nal.nri, t |-> nal.t, data |-> [i \in 1..nal.n |-> FillByte(nal.id, i - 1)]]
CNals(s)   == [i \in 1..Len(s) |-> CNal(s[i])]
CRec(r)    == [version |-> 1, profile |-> r.profile, compat |-> r.compat, level |-> r.level, lsm1 |-> r.lsm1,
               reserved |-> <<63, 7>>, sps |-> CNals(r.sps), pps |-> CNals(r.pps), rest |-> <<>>]

Dec(k, v, b) == CASE k = "record" -> RecDec(b)
                  [] k = "sample" -> SampleDecNals(b, v.lsm1 + 1)
                  [] k = "nalu"   -> NalDec(b)
Concrete(k, v) == CASE k = "record" -> CRec(v) [] k = "sample" -> CNals(v.nals) [] k = "nalu" -> CNal(v)

\* re-encode a decoded (concrete) value
CNalBytes(c) == <<c.nri * 32 + c.t>> \o c.data
RECURSIVE CParamBytes(_, _)
CParamBytes(cs, k) ==
  IF cs = <<>> THEN <<>>
  ELSE LET nb == CNalBytes(Head(cs)) IN Bytes(<<LenField(k, Len(nb))>>) \o nb \o CParamBytes(Tail(cs), k)
ReEnc(k, v, c) ==
  CASE k = "record" -> <<1, c.profile, c.compat, c.level, 252 + c.lsm1, 224 + Len(c.sps)>>
                        \o CParamBytes(c.sps, 2) \o <<Len(c.pps)>> \o CParamBytes(c.pps, 2)
    [] k = "sample" -> CParamBytes(c, v.lsm1 + 1)
    [] k = "nalu"   -> CNalBytes(c)

\* ------------------------------------------------------------ transitions
\* parameter sets carry a 16-bit length
RecFits(r) == /\ \A i \in 1..Len(r.sps) : 1 + r.sps[i].n <= 65535
              /\ \A i \in 1..Len(r.pps) : 1 + r.pps[i].n <= 65535
Values(k) == CASE k = "record" -> {r \in Records : RecFits(r) /\ ByteLenCap(RecEnc(r), MaxBytes) <= MaxBytes}
               [] k = "sample" -> {s \in Samples : Fits(s) /\ ByteLenCap(SampleEnc(s), MaxBytes) <= MaxBytes}
               [] k = "nalu"   -> NalUnits

Init == /\ kind \in {"record", "sample", "nalu"}
        /\ val \in Values(kind)
        /\ pc = "built" /\ wire = <<>> /\ back = <<>> /\ wire2 = <<>>

Marshal   == pc = "built" /\ wire' = Bytes(Enc(kind, val)) /\ pc' = "wire"
             /\ UNCHANGED <<kind, val, back, wire2>>
Unmarshal == pc = "wire" /\ back' = Dec(kind, val, wire) /\ pc' = "back"
             /\ UNCHANGED <<kind, val, wire, wire2>>
Remarshal == pc = "back" /\ wire2' = ReEnc(kind, val, back) /\ pc' = "again"
             /\ UNCHANGED <<kind, val, wire, back>>
Next == Marshal \/ Unmarshal \/ Remarshal
Spec == Init /\ [][Next]_vars

\* -------------------------------------------------------------- properties
SizeOk     == pc # "built" => Len(wire) = ByteLen(Enc(kind, val))
RoundTrip  == pc \in {"back", "again"} => back = Concrete(kind, val)
Canonical  == pc = "again" => wire2 = wire
ReservedOk == (pc \in {"back", "again"} /\ kind = "record") => back.reserved = <<63, 7>>
=============================================================================
