-------------------------------- MODULE Avc --------------------------------
(* AVC (ISO/IEC 14496-15 5.2.4.1, ISO/IEC 14496-10 7.3.1) containers:        *)
(*   NAL unit      = header byte (forbidden_zero 1 bit = 0, nal_ref_idc 2,    *)
(*                   nal_unit_type 5) + payload                               *)
(*   configuration = 1, profile, compat, level, 111111b+lengthSizeMinusOne,   *)
(*   record          111b+numSPS, (u16 len, NAL)*, numPPS, (u16 len, NAL)*    *)
(*   sample        = (length in lengthSizeMinusOne+1 bytes big endian, NAL)*  *)
(* The module is shaped like the library's API: a value is built, marshalled  *)
(* to the wire, unmarshalled into a fresh value and marshalled again.         *)
(*                                                                            *)
(* Value families (every one is a dimension of the configuration):            *)
(*   pattern  - Headers x lengthSize x SPS/PPS/NAL counts x cycled size       *)
(*              patterns (long lists, the 5-bit / 8-bit counters)             *)
(*   pos      - short NAL lists whose sizes are chosen INDEPENDENTLY for      *)
(*              every position (first / middle / last) from PosSizes, for     *)
(*              every length size: a length prefix is just bytes, e.g. the    *)
(*              4-byte length of a 1-byte NAL unit is 00 00 00 01             *)
(*   mimic    - short NAL lists whose payloads carry the byte strings         *)
(*              00 00 01 / 00 00 00 01 (Annex-B start codes) at the start,    *)
(*              in the middle or at the end, also behind a header byte 0:     *)
(*              inside a length-prefixed container they are plain data        *)
(*   matrix   - HeaderMatrix: <<profile, compat, level>> triples with a       *)
(*              minimal body; the three bytes are independent 8-bit fields    *)
(*              and the value read back is the byte                           *)
EXTENDS Naturals, Sequences, LD

CONSTANTS
  Headers,      \* set of <<profile, compat, level>>
  SpsCounts, PpsCounts, NalCounts,
  SizePatterns, \* set of sequences of NAL sizes (header byte included), cycled over the NALs
  MaxBytes,     \* only values whose encoding is at most this long
  WithReserved, \* TRUE: the ISO layout; FALSE: named deviation 'reserved bits not written'
  PosSizes,     \* NAL sizes (header byte included) chosen independently per position ...
  PosCounts,    \* ... in sample NAL lists of these lengths
  RecPosSizes,  \* the same for the SPS and the PPS list of a record ...
  RecPosCounts, \* ... of these lengths (each list)
  PosHeaders,   \* headers of the 'pos' and 'mimic' records
  MimicSizes,   \* NAL sizes of the 'mimic' lists
  Mimics,       \* set of [sc, w, nri, t]: start code length 0 (none) / 3 / 4, where "s" | "m" | "e", NAL header fields
  MimicCounts,  \* lengths of the mimic NAL lists of a sample
  HeaderMatrix, \* set of <<profile, compat, level>> for the 'matrix' records
  MatrixLsm1,   \* their lengthSizeMinusOne values
  Dev           \* named deviation of the READER: "none"
                \*   "annexb": a sample that begins with 00 00 00 01 is taken for an Annex-B byte stream
                \*   "refine": the profile / level read back are 'refined' by the constraint flags of the compatibility byte

VARIABLES pc, kind, val, wire, back, wire2
vars == <<pc, kind, val, wire, back, wire2>>

Pow256(k) == CASE k = 1 -> 256 [] k = 2 -> 65536 [] k = 3 -> 16777216 [] k = 4 -> 2147483647

\* ---------------------------------------------------------------- values
\* A NAL value: header fields, n payload bytes of pattern id; sc > 0: the payload bytes at 0-based
\* offsets at..at+sc-1 are the start code of length sc instead of the pattern.
StartCode(sc) == IF sc = 3 THEN <<0, 0, 1>> ELSE <<0, 0, 0, 1>>

\* The i-th NAL of a list: size from the pattern, header fields vary with i.
MkNal(i, pat, salt) ==
  [nri |-> (i + salt) % 4, t |-> (i * 7 + salt) % 32,
   n   |-> pat[((i - 1) % Len(pat)) + 1] - 1, id |-> i + 10 * salt, sc |-> 0, at |-> 0]
MkNals(cnt, pat, salt) == [i \in 1..cnt |-> MkNal(i, pat, salt)]

\* sizes: a sequence of NAL sizes, one per position
PosNals(sizes, salt) == [i \in 1..Len(sizes) |-> MkNal(i, <<sizes[i]>>, salt)]

\* a NAL of the given size mimicking m (no start code if the payload is too short for it)
MimicNal(i, size, m, salt) ==
  LET n  == size - 1
      sc == IF m.sc > 0 /\ n >= m.sc THEN m.sc ELSE 0
      at == IF sc = 0 \/ m.w = "s" THEN 0 ELSE IF m.w = "m" THEN (n - sc) \div 2 ELSE n - sc
  IN [nri |-> m.nri, t |-> m.t, n |-> n, id |-> i + 10 * salt, sc |-> sc, at |-> at]
\* f: a sequence of <<size, mimic>>
MimicNals(f, salt) == [i \in 1..Len(f) |-> MimicNal(i, f[i][1], f[i][2], salt)]

Lists(S, counts) == UNION {[1..c -> S] : c \in counts}

MkRecord(h, l, sps, pps) ==
  [profile |-> h[1], compat |-> h[2], level |-> h[3], lsm1 |-> l, sps |-> sps, pps |-> pps]

\* families as existential choices (TLC enumerates the dimensions, never one big set)
PickRecord(v) ==
  \/ \E h \in Headers, l \in 0..3, ns \in SpsCounts, np \in PpsCounts, pat \in SizePatterns :
       v = MkRecord(h, l, MkNals(ns, pat, 1), MkNals(np, pat, 2))
  \/ \E h \in PosHeaders, f \in Lists(RecPosSizes, RecPosCounts), g \in Lists(RecPosSizes, RecPosCounts) :
       v = MkRecord(h, (Len(f) + 2 * Len(g)) % 4, PosNals(f, 1), PosNals(g, 2))
  \/ \E h \in PosHeaders, l \in 0..3, f \in Lists(MimicSizes \X Mimics, {0, 1}), g \in Lists(MimicSizes \X Mimics, {1}) :
       v = MkRecord(h, l, MimicNals(f, 1), MimicNals(g, 2))
  \/ \E h \in HeaderMatrix, l \in MatrixLsm1 :
       v = MkRecord(h, l, MkNals(1, <<2>>, 1), MkNals(1, <<1>>, 2))
PickSample(v) ==
  \/ \E l \in 0..3, c \in NalCounts, pat \in SizePatterns : v = [lsm1 |-> l, nals |-> MkNals(c, pat, 3)]
  \/ \E l \in 0..3, f \in Lists(PosSizes, PosCounts) : v = [lsm1 |-> l, nals |-> PosNals(f, 3)]
  \/ \E l \in 0..3, f \in Lists(MimicSizes \X Mimics, MimicCounts) : v = [lsm1 |-> l, nals |-> MimicNals(f, 3)]
PickNalu(v) ==
  \/ \E r \in 0..3, t \in 0..31, n \in {0, 1, 2} \cup {s - 1 : s \in PosSizes} :
       v = [nri |-> r, t |-> t, n |-> n, id |-> 5, sc |-> 0, at |-> 0]
  \/ \E s \in MimicSizes, m \in Mimics : v = MimicNal(5, s, m, 0)

\* --------------------------------------------------------------- encoders
NalHdr(nal)  == nal.nri * 32 + nal.t
Payload(nal) ==
  IF nal.n = 0 THEN <<>>
  ELSE IF nal.sc = 0 THEN <<Fill(nal.n, nal.id)>>
  ELSE (IF nal.at > 0 THEN <<FillOff(nal.at, nal.id, 0)>> ELSE <<>>)
       \o <<Raw(StartCode(nal.sc))>>
       \o (IF nal.n > nal.at + nal.sc THEN <<FillOff(nal.n - nal.at - nal.sc, nal.id, nal.at + nal.sc)>> ELSE <<>>)
NalEnc(nal)  == <<U8(NalHdr(nal))>> \o Payload(nal)

RECURSIVE ParamSets(_)
ParamSets(nals) ==
  IF nals = <<>> THEN <<>>
  ELSE <<U16(1 + Head(nals).n)>> \o NalEnc(Head(nals)) \o ParamSets(Tail(nals))

RecEnc(r) ==
  <<U8(1), U8(r.profile), U8(r.compat), U8(r.level),
    U8((IF WithReserved THEN 252 ELSE 0) + r.lsm1),      \* reserved '111111'b + lengthSizeMinusOne
    U8((IF WithReserved THEN 224 ELSE 0) + Len(r.sps))>> \* reserved '111'b + numOfSequenceParameterSets
  \o ParamSets(r.sps) \o <<U8(Len(r.pps))>> \o ParamSets(r.pps)

LenField(k, v) == CASE k = 1 -> U8(v) [] k = 2 -> U16(v) [] k = 3 -> U24(v) [] k = 4 -> U32(v)

RECURSIVE SampleEncNals(_, _)
SampleEncNals(k, nals) ==
  IF nals = <<>> THEN <<>>
  ELSE <<LenField(k, 1 + Head(nals).n)>> \o NalEnc(Head(nals)) \o SampleEncNals(k, Tail(nals))
SampleEnc(s) == SampleEncNals(s.lsm1 + 1, s.nals)

Fits(s) == \A i \in 1..Len(s.nals) : 1 + s.nals[i].n < Pow256(s.lsm1 + 1)

Enc(k, v) == CASE k = "record" -> RecEnc(v) [] k = "sample" -> SampleEnc(v) [] k = "nalu" -> NalEnc(v)

\* ------------------------------------------- byte-level decoders (reference)
\* A decoded NAL carries its payload bytes instead of (n, id, sc, at).
NalDec(b) == [nri |-> (b[1] \div 32) % 4, t |-> b[1] % 32, data |-> Drop(b, 1)]

\* <<list of NALs, rest>> for cnt length-prefixed NALs with k-byte lengths
BEk(b, k) == CASE k = 1 -> b[1] [] k = 2 -> BE16(b, 1) [] k = 3 -> BE24(b, 1)
               [] k = 4 -> b[1] * 16777216 + BE24(b, 2)
RECURSIVE TakeNals(_, _, _)
TakeNals(b, cnt, k) ==
  IF cnt = 0 THEN <<<<>>, b>>
  ELSE LET l == BEk(b, k)
           r == TakeNals(Drop(b, k + l), cnt - 1, k)
       IN <<<<NalDec(Sub(b, k + 1, l))>> \o r[1], r[2]>>

\* deviation "refine": what some decoders derive from the constraint_set flags (constraint_set1 = 64,
\* constraint_set3 = 16) - but the record's fields are the bytes
Bit(v, m) == (v \div m) % 2 = 1
RefinedProfile(p, c) ==
  IF Dev # "refine" THEN p
  ELSE IF p = 66 /\ Bit(c, 64) THEN 512 + p
  ELSE IF p \in {110, 122, 144} /\ Bit(c, 16) THEN 2048 + p
  ELSE p
RefinedLevel(p, c, l) ==
  IF Dev = "refine" /\ l = 11 /\ Bit(c, 16) /\ p \in {66, 77, 88} THEN 9 ELSE l

RecDec(b) ==
  LET s == TakeNals(Drop(b, 6), b[6] % 32, 2)
      p == TakeNals(Drop(s[2], 1), s[2][1], 2)
  IN [version |-> b[1], profile |-> RefinedProfile(b[2], b[3]), compat |-> b[3],
      level |-> RefinedLevel(b[2], b[3], b[4]), lsm1 |-> b[5] % 4,
      reserved |-> <<b[5] \div 4, b[6] \div 32>>, sps |-> s[1], pps |-> p[1], rest |-> p[2]]

RECURSIVE SampleDecNals(_, _)
SampleDecNals(b, k) ==
  IF b = <<>> THEN <<>>
  ELSE LET l == BEk(b, k) IN <<NalDec(Sub(b, k + 1, l))>> \o SampleDecNals(Drop(b, k + l), k)

\* deviation "annexb": the pieces between the start codes 00 00 00 01
IsSC4(b) == Len(b) >= 4 /\ Sub(b, 1, 4) = <<0, 0, 0, 1>>
RECURSIVE SplitSC(_, _)
SplitSC(b, cur) ==
  IF b = <<>> THEN <<cur>>
  ELSE IF IsSC4(b) THEN <<cur>> \o SplitSC(Drop(b, 4), <<>>)
  ELSE SplitSC(Tail(b), Append(cur, Head(b)))
PieceDec(p) == IF p = <<>> THEN [nri |-> 9, t |-> 99, data |-> <<>>]   \* no NAL unit at all (an error)
               ELSE NalDec(p)
SampleDec(b, k) ==
  IF Dev = "annexb" /\ IsSC4(b)
  THEN LET ps == SplitSC(Drop(b, 4), <<>>) IN [i \in 1..Len(ps) |-> PieceDec(ps[i])]
  ELSE SampleDecNals(b, k)

\* what a value looks like after decoding its own bytes
PayByte(nal, j) == IF nal.sc > 0 /\ j >= nal.at /\ j < nal.at + nal.sc
                   THEN StartCode(nal.sc)[j - nal.at + 1] ELSE FillByte(nal.id, j)   \* j 0-based
CNal(nal)  == [nri |-> nal.nri, t |-> nal.t, data |-> [i \in 1..nal.n |-> PayByte(nal, i - 1)]]
CNals(s)   == [i \in 1..Len(s) |-> CNal(s[i])]
CRec(r)    == [version |-> 1, profile |-> r.profile, compat |-> r.compat, level |-> r.level, lsm1 |-> r.lsm1,
               reserved |-> <<63, 7>>, sps |-> CNals(r.sps), pps |-> CNals(r.pps), rest |-> <<>>]

Dec(k, v, b) == CASE k = "record" -> RecDec(b)
                  [] k = "sample" -> SampleDec(b, v.lsm1 + 1)
                  [] k = "nalu"   -> NalDec(b)
Concrete(k, v) == CASE k = "record" -> CRec(v) [] k = "sample" -> CNals(v.nals) [] k = "nalu" -> CNal(v)

\* re-encode a decoded (concrete) value; the profile and level fields of the wire are 8 bits
CNalBytes(c) == <<c.nri * 32 + c.t>> \o c.data
RECURSIVE CParamBytes(_, _)
CParamBytes(cs, k) ==
  IF cs = <<>> THEN <<>>
  ELSE LET nb == CNalBytes(Head(cs)) IN Bytes(<<LenField(k, Len(nb))>>) \o nb \o CParamBytes(Tail(cs), k)
ReEnc(k, v, c) ==
  CASE k = "record" -> <<1, c.profile % 256, c.compat, c.level % 256, 252 + c.lsm1, 224 + Len(c.sps)>>
                        \o CParamBytes(c.sps, 2) \o <<Len(c.pps)>> \o CParamBytes(c.pps, 2)
    [] k = "sample" -> CParamBytes(c, v.lsm1 + 1)
    [] k = "nalu"   -> CNalBytes(c)

\* ------------------------------------------------------------ transitions
\* parameter sets carry a 16-bit length
RecFits(r) == /\ \A i \in 1..Len(r.sps) : 1 + r.sps[i].n <= 65535
              /\ \A i \in 1..Len(r.pps) : 1 + r.pps[i].n <= 65535
\* encoded lengths by arithmetic (checked against the layouts by the invariant SizeOk); no overflow: the NAL
\* sizes are bounded by RecFits / Fits and the configured size classes, the lists by 31 + 255 resp. NalCounts
RECURSIVE NalsLenFrom(_, _, _)
NalsLenFrom(nals, i, k) == IF i > Len(nals) THEN 0 ELSE k + 1 + nals[i].n + NalsLenFrom(nals, i + 1, k)
EncLen(k, v) == CASE k = "record" -> 7 + NalsLenFrom(v.sps, 1, 2) + NalsLenFrom(v.pps, 1, 2)
                  [] k = "sample" -> NalsLenFrom(v.nals, 1, v.lsm1 + 1)
                  [] k = "nalu"   -> 1 + v.n
Admissible(k, v) ==
  CASE k = "record" -> RecFits(v) /\ EncLen(k, v) <= MaxBytes
    [] k = "sample" -> Fits(v) /\ EncLen(k, v) <= MaxBytes
    [] k = "nalu"   -> TRUE
Init == /\ kind \in {"record", "sample", "nalu"}
        /\ \/ kind = "record" /\ PickRecord(val)
           \/ kind = "sample" /\ PickSample(val)
           \/ kind = "nalu"   /\ PickNalu(val)
        /\ Admissible(kind, val)
        /\ pc = "built" /\ wire = <<>> /\ back = <<>> /\ wire2 = <<>>

Marshal   == pc = "built" /\ wire' = Bytes(Enc(kind, val)) /\ pc' = "wire"
             /\ UNCHANGED <<kind, val, back, wire2>>
Unmarshal == pc = "wire" /\ back' = Dec(kind, val, wire) /\ pc' = "back"
             /\ UNCHANGED <<kind, val, wire, wire2>>
Remarshal == pc = "back" /\ wire2' = ReEnc(kind, val, back) /\ pc' = "again"
             /\ UNCHANGED <<kind, val, wire, back>>
Next == Marshal \/ Unmarshal \/ Remarshal
Spec == Init /\ [][Next]_vars

\* -------------------------------------------------------------- properties
SizeOk     == pc # "built" => Len(wire) = ByteLen(Enc(kind, val)) /\ Len(wire) = EncLen(kind, val)
RoundTrip  == pc \in {"back", "again"} => back = Concrete(kind, val)
Canonical  == pc = "again" => wire2 = wire
ReservedOk == (pc \in {"back", "again"} /\ kind = "record") => back.reserved = <<63, 7>>
=============================================================================
