SPECIFICATION Spec
CONSTANTS
  WithReserved = TRUE
  Dev = "none"
  Headers <- McHeaders
  SpsCounts = {0, 1, 2}
  PpsCounts = {0, 1, 3}
  NalCounts = {0, 1, 2, 3}
  SizePatterns <- McPatterns
  PosSizes = {1, 2, 3, 5}
  PosCounts = {1, 2, 3}
  RecPosSizes = {1, 2, 4}
  RecPosCounts = {0, 1, 2}
  PosHeaders <- McPosHeaders
  MimicSizes = {1, 4, 5, 6, 9}
  Mimics <- McMimics
  MimicCounts = {1, 2}
  HeaderMatrix <- McMatrix
  MatrixLsm1 = {0, 3}
  MaxBytes = 100
INVARIANTS SizeOk RoundTrip Canonical ReservedOk
CHECK_DEADLOCK FALSE
