SPECIFICATION Spec
CONSTANTS
  WithReserved = TRUE
  Headers <- McHeaders
  SpsCounts = {0, 1, 2}
  PpsCounts = {0, 1, 3}
  NalCounts = {0, 1, 2, 3}
  SizePatterns <- McPatterns
  MaxBytes = 100
INVARIANTS SizeOk RoundTrip Canonical ReservedOk
CHECK_DEADLOCK FALSE
