INIT GenInit
NEXT GenNext
CONSTANTS
  Tier = "quick"
  WithReserved = TRUE
  Dev = "none"
  Headers <- GenHeaders
  SpsCounts = {0, 1, 2, 31}
  PpsCounts = {0, 1, 2, 255}
  NalCounts = {0, 1, 2, 3, 5}
  SizePatterns <- QuickPatterns
  PosSizes = {1, 2, 4, 255, 256, 65535}
  PosCounts = {2, 3}
  RecPosSizes = {1, 2, 256, 65535}
  RecPosCounts = {0, 1, 2}
  PosHeaders <- GenPosHeaders
  MimicSizes = {1, 4, 5, 9}
  Mimics <- GenMimics
  MimicCounts = {1, 2}
  HeaderMatrix <- GenMatrix
  MatrixLsm1 = {3}
  MaxBytes = 300000
INVARIANT Emit
CHECK_DEADLOCK FALSE
