INIT GenInit
NEXT GenNext
CONSTANTS
  WithReserved = TRUE
  Headers <- GenHeaders
  SpsCounts = {0, 1, 2, 31}
  PpsCounts = {0, 1, 2, 255}
  NalCounts = {0, 1, 2, 3, 5}
  SizePatterns <- QuickPatterns
  MaxBytes = 300000
INVARIANT Emit
CHECK_DEADLOCK FALSE
