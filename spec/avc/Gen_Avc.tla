------------------------------ MODULE Gen_Avc ------------------------------
(* Case generation: every value of the configured sets with its expected     *)
(* encoding as a layout descriptor, one JSON line per value.                 *)
EXTENDS Avc, TLC, Json
GenHeaders == {<<66, 0, 30>>, <<100, 255, 31>>, <<0, 0, 0>>, <<255, 192, 255>>}
QuickPatterns == {<<1>>, <<2>>, <<255, 256>>, <<65535>>, <<256, 1, 65535>>, <<2, 255>>}
ThoroughPatterns == QuickPatterns \cup {<<65536>>, <<70000, 3>>, <<254, 257, 65534>>, <<16777215>>, <<16777216, 2>>}

\* all 256 NAL header bytes as they arrive from an arbitrary writer
HdrBytes == 0..255

GenInit == /\ kind \in {"record", "sample", "nalu", "hdrbyte"}
           /\ val \in (IF kind = "hdrbyte" THEN {[b |-> b, n |-> n, id |-> 9] : b \in HdrBytes, n \in {0, 1, 300}}
                       ELSE Values(kind))
           /\ pc = "built" /\ wire = <<>> /\ back = <<>> /\ wire2 = <<>>
GenNext == UNCHANGED vars

CaseOf ==
  IF kind = "hdrbyte"
  THEN [kind |-> kind, val |-> val,
        enc |-> <<U8(val.b)>> \o (IF val.n > 0 THEN <<Fill(val.n, val.id)>> ELSE <<>>),
        exp |-> [nri |-> (val.b \div 32) % 4, t |-> val.b % 32], canonical |-> val.b < 128]
  ELSE [kind |-> kind, val |-> val, enc |-> Enc(kind, val)]
Emit == PrintT(<<"CASE", ToJson(CaseOf)>>)
=============================================================================
