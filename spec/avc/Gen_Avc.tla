------------------------------ MODULE Gen_Avc ------------------------------
(* Case generation: every value of the configured families with its expected *)
(* encoding as a layout descriptor, one JSON line per value.                 *)
EXTENDS Avc, TLC, Json
CONSTANTS Tier
Thorough == Tier = "thorough"

GenHeaders == {<<66, 0, 30>>, <<100, 255, 31>>, <<0, 0, 0>>, <<255, 192, 255>>}
QuickPatterns == {<<1>>, <<2>>, <<255, 256>>, <<65535>>, <<256, 1, 65535>>, <<2, 255>>}
ThoroughPatterns == QuickPatterns \cup {<<65536>>, <<70000, 3>>, <<254, 257, 65534>>, <<16777215>>, <<16777216, 2>>}

GenPosHeaders == {<<77, 64, 41>>}

\* Annex-B look-alikes in NAL data: 00 00 01 / 00 00 00 01 at the start (also right behind a header byte 0,
\* so that the NAL unit itself begins with zeros), in the middle and at the end of the payload
GenMimics ==
  {[sc |-> 0, w |-> "s", nri |-> 0, t |-> 0]}
  \cup {[sc |-> sc, w |-> "s", nri |-> h[1], t |-> h[2]] : sc \in {3, 4}, h \in {<<0, 0>>, <<0, 1>>, <<3, 5>>}}
  \cup {[sc |-> sc, w |-> w, nri |-> 2, t |-> 1] : sc \in {3, 4}, w \in (IF Thorough THEN {"m", "e"} ELSE {"e"})}

\* The three header bytes are independent 8-bit fields: the full range of one, classes of the other two.
\* Profile classes: the profile_idc values of ISO/IEC 14496-10 Annex A and the ends of the range;
\* compatibility classes: no flag, every single constraint_set flag / reserved bit, combinations, all;
\* level classes: 1b (9), 1 .. 5.1 representatives and the ends of the range.
AllBytes == 0..255
ProfCls  == IF Thorough THEN {0, 1, 44, 66, 77, 83, 86, 88, 100, 110, 118, 122, 128, 144, 244, 254, 255}
            ELSE {0, 66, 77, 88, 100, 110, 122, 144, 244, 255}
CompCls  == IF Thorough THEN {0, 1, 2, 4, 8, 16, 32, 64, 128, 192, 224, 240, 252, 255} ELSE {0, 64, 16, 192, 255}
LevCls   == IF Thorough THEN {0, 9, 10, 11, 12, 13, 20, 30, 31, 40, 51, 52, 255} ELSE {0, 11, 31, 255}
CompFew  == IF Thorough THEN {0, 16, 64, 192, 255} ELSE {16, 192}
LevFew   == IF Thorough THEN {9, 11, 31, 255} ELSE {11, 31}
GenMatrix == {<<p, c, l>> : p \in AllBytes, c \in CompCls, l \in LevCls}
             \cup {<<p, c, l>> : p \in ProfCls, c \in AllBytes, l \in LevFew}
             \cup {<<p, c, l>> : p \in ProfCls, c \in CompFew, l \in AllBytes}

\* all 256 NAL header bytes as they arrive from an arbitrary writer
HdrBytes == 0..255

GenInit == /\ kind \in {"record", "sample", "nalu", "hdrbyte"}
           /\ \/ kind = "record" /\ PickRecord(val)
              \/ kind = "sample" /\ PickSample(val)
              \/ kind = "nalu"   /\ PickNalu(val)
              \/ kind = "hdrbyte" /\ \E b \in HdrBytes, n \in {0, 1, 300} : val = [b |-> b, n |-> n, id |-> 9]
           /\ kind # "hdrbyte" => Admissible(kind, val)
           /\ pc = "built" /\ wire = <<>> /\ back = <<>> /\ wire2 = <<>>
GenNext == UNCHANGED vars

CaseOf ==
  IF kind = "hdrbyte"
  THEN [kind |-> kind, val |-> val,
        enc |-> <<U8(val.b)>> \o (IF val.n > 0 THEN <<Fill(val.n, val.id)>> ELSE <<>>),
        exp |-> [nri |-> (val.b \div 32) % 4, t |-> val.b % 32], canonical |-> val.b < 128]
  ELSE [kind |-> kind, val |-> val, enc |-> Enc(kind, val)]
Emit == PrintT(<<"CASE", ToJson(CaseOf)>>)
=============================================================================
