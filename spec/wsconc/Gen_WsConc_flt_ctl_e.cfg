INIT GenInit
NEXT GenNext
CONSTANTS
  Program <- GenProgram
  Role = "client"
  WBuf = 256
  Shapes <- S_wmL_wmS
  Ctl <- C_ping_pongclose
  Closer = FALSE
  Rd <- R_none
  Fault <- F_K1_e
  ControlTakesLock = TRUE
  FlushAtomic = TRUE
  LatchChecked = TRUE
  CloseLatches = TRUE
  TimeoutReleases = FALSE
  HandlerControlPath = TRUE
  TimeoutFaultLatches = TRUE
  Fifo = TRUE
  OnlyBad = FALSE
  Family = "flt_ctl_e"
INVARIANT Emit
CHECK_DEADLOCK FALSE
