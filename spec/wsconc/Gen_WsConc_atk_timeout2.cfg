INIT GenInit
NEXT GenNext
CONSTANTS
  Program <- GenProgram
  Role = "server"
  WBuf = 256
  Shapes <- S_nwL_wmS
  Ctl <- C_pingS2_ping
  Closer = TRUE
  Rd <- R_none
  Fault <- F_none
  ControlTakesLock = TRUE
  FlushAtomic = TRUE
  LatchChecked = TRUE
  CloseLatches = TRUE
  TimeoutReleases = TRUE
  HandlerControlPath = TRUE
  TimeoutFaultLatches = TRUE
  Fifo = TRUE
  OnlyBad = TRUE
  Family = "atk_timeout2"
INVARIANT Emit
CHECK_DEADLOCK FALSE
