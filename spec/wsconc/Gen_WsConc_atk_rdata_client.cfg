INIT GenInit
NEXT GenNext
CONSTANTS
  Program <- GenProgram
  Role = "client"
  WBuf = 256
  Shapes <- S_nwMp_wmS
  Ctl <- C_none
  Closer = FALSE
  Rd <- R_pong_pongD
  Fault <- F_none
  ControlTakesLock = TRUE
  FlushAtomic = TRUE
  LatchChecked = TRUE
  CloseLatches = TRUE
  TimeoutReleases = FALSE
  HandlerControlPath = FALSE
  TimeoutFaultLatches = TRUE
  Fifo = TRUE
  OnlyBad = TRUE
  Family = "atk_rdata_client"
INVARIANT Emit
CHECK_DEADLOCK FALSE
