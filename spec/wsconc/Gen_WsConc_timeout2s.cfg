INIT GenInit
NEXT GenNext
CONSTANTS
  Program <- GenProgram
  Role = "server"
  WBuf = 256
  Shapes <- S_wmL
  Ctl <- C_pingS2_ping
  Closer = TRUE
  Rd <- R_none
  Fault <- F_none
  ControlTakesLock = TRUE
  FlushAtomic = TRUE
  LatchChecked = TRUE
  CloseLatches = TRUE
  TimeoutReleases = FALSE
  HandlerControlPath = TRUE
  TimeoutFaultLatches = TRUE
  Fifo = TRUE
  OnlyBad = FALSE
  Family = "timeout2s"
INVARIANT Emit
CHECK_DEADLOCK FALSE
