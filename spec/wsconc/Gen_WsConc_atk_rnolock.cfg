INIT GenInit
NEXT GenNext
CONSTANTS
  Program <- GenProgram
  Role = "server"
  WBuf = 256
  Shapes <- S_wmL
  Ctl <- C_none
  Closer = FALSE
  Rd <- R_pongD_pong
  Fault <- F_none
  ControlTakesLock = FALSE
  FlushAtomic = TRUE
  LatchChecked = TRUE
  CloseLatches = TRUE
  TimeoutReleases = FALSE
  HandlerControlPath = TRUE
  TimeoutFaultLatches = TRUE
  Fifo = TRUE
  OnlyBad = TRUE
  Family = "atk_rnolock"
INVARIANT Emit
CHECK_DEADLOCK FALSE
