INIT GenInit
NEXT GenNextSim
CONSTANTS
  Program <- GenProgram
  Role = "server"
  WBuf = 256
  Shapes <- S_nwLLp_wmL
  Ctl <- C_ping_close
  Closer = TRUE
  Rd <- R_pongD_pong_closeD
  Fault <- F_none
  ControlTakesLock = TRUE
  FlushAtomic = TRUE
  LatchChecked = TRUE
  CloseLatches = TRUE
  TimeoutReleases = FALSE
  HandlerControlPath = TRUE
  TimeoutFaultLatches = TRUE
  Fifo = TRUE
  OnlyBad = FALSE
  Family = "simreader"
INVARIANT Emit
CHECK_DEADLOCK FALSE
