INIT GenInit
NEXT GenNext
CONSTANTS
  Program <- GenProgram
  Role = "server"
  WBuf = 256
  Shapes <- S_nwFp_wmS
  Ctl <- C_ping
  Closer = FALSE
  Rd <- R_pongD_pong
  Fault <- F_R1_t
  ControlTakesLock = TRUE
  FlushAtomic = TRUE
  LatchChecked = TRUE
  CloseLatches = TRUE
  TimeoutReleases = FALSE
  HandlerControlPath = TRUE
  TimeoutFaultLatches = TRUE
  Fifo = TRUE
  OnlyBad = FALSE
  Family = "flt_rd"
INVARIANT Emit
CHECK_DEADLOCK FALSE
