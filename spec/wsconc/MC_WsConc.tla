----------------------------- MODULE MC_WsConc -----------------------------
(* Constant definitions of the exhaustive runs of WsConc (C15).               *)
EXTENDS WsConc

T == TRUE
F == FALSE

\* a program without a reader whose application never pauses inside a message
NoHold(msgs) == [m \in 1..Len(msgs) |-> [f \in 1..Len(msgs[m]) |-> 0]]
P(msgs, ctl, closer) == [msgs |-> msgs, hold |-> NoHold(msgs), ctl |-> ctl, rd |-> <<>>, dclose |-> <<>>, cx |-> <<>>, fault |-> <<>>, closer |-> closer]

\* 1 writer x 3 frames (one with `extra`) in 2 messages x ping sender x close sender x closer
McMain == P(<< <<T, F>>, <<F>> >>, << <<"ping">>, <<"close">> >>, TRUE)

\* two calls per control sender, close in the middle of a sender's program, no closer
McTwoCalls == P(<< <<T>>, <<F>> >>, << <<"ping", "pong">>, <<"close", "ping">> >>, FALSE)

\* two close senders and a closer
McTwoClose == P(<< <<T, T, F>> >>, << <<"close">>, <<"close">> >>, TRUE)

\* control writes with a short deadline: they may give up waiting for the lock
McTimeout    == P(<< <<T, F>> >>, << <<"ping~", "pong~">>, <<"close">> >>, TRUE)
McTimeoutBig == P(<< <<T, F>>, <<F>> >>, << <<"ping~", "pong~">>, <<"ping">>, <<"close~">> >>, TRUE)

\* thorough: longer data program, three control senders
McBig == P(<< <<T, F>>, <<T>>, <<F, F>> >>, << <<"ping">>, <<"close">>, <<"pong">> >>, TRUE)

\* the reader: the peer's Ping (default handler) and Close (application's handler) arrive at any point, the
\* application of D pauses before either frame of its first message (bytes buffered / between two frames)
McReader == [msgs |-> << <<T, F>> >>, hold |-> << <<1, 1>> >>,
             ctl |-> << <<"ping">> >>, rd |-> <<"pong@", "close">>, dclose |-> <<>>, cx |-> <<>>, fault |-> <<>>, closer |-> TRUE]
McReaderBig == [msgs |-> << <<T, F>>, <<F>> >>, hold |-> << <<1, 1>>, <<0>> >>,
                ctl |-> << <<"ping">> >>, rd |-> <<"pong@", "close">>, dclose |-> <<>>, cx |-> <<>>, fault |-> <<>>, closer |-> TRUE]
\* both kinds of handler, the peer's Close echoed by the default close handler, a close sender of the
\* application, two pauses before the first flush
McReader2 == [msgs |-> << <<T, F>> >>, hold |-> << <<2, 1>> >>,
              ctl |-> << <<"close">> >>, rd |-> <<"pong", "pong@", "close@">>, dclose |-> <<>>, cx |-> <<>>, fault |-> <<>>, closer |-> FALSE]

\* control frames that reach the transport in two writes (header, payload): the ping, the close and the
\* answer of the reader's default handler
McCtl2 == [msgs |-> << <<F, F>> >>, hold |-> << <<0, 1>> >>, ctl |-> << <<"ping">>, <<"close">> >>, rd |-> << >>,
           dclose |-> <<>>, cx |-> << [p |-> "K1", c |-> 1, n |-> 2], [p |-> "K2", c |-> 1, n |-> 2] >>, fault |-> <<>>, closer |-> TRUE]
McCtl2Big == [msgs |-> << <<T, F>> >>, hold |-> << <<0, 1>> >>, ctl |-> << <<"ping">>, <<"close">> >>, rd |-> <<"pong@">>,
              dclose |-> <<>>, cx |-> << [p |-> "K1", c |-> 1, n |-> 2], [p |-> "K2", c |-> 1, n |-> 3], [p |-> "R", c |-> 1, n |-> 2] >>,
              fault |-> <<>>, closer |-> TRUE]

\* transport writes that fail with the transport open: the ping is cut off inside its only write by its
\* deadline, D's second message loses the `extra` write (nothing of it accepted) to a plain error
McFault == [msgs |-> << <<F, F>>, <<T>> >>, hold |-> << <<0, 1>>, <<0>> >>, ctl |-> << <<"ping">>, <<"pong", "close">> >>, rd |-> << >>,
            dclose |-> <<>>, cx |-> <<>>, fault |-> << [p |-> "K1", c |-> 1, k |-> 1, some |-> TRUE, kind |-> "timeout"],
                                     [p |-> "D", c |-> 2, k |-> 2, some |-> FALSE, kind |-> "error"] >>, closer |-> FALSE]
McFaultBig == [McFault EXCEPT !.closer = TRUE]
\* ... inside the caller's slice of a data frame, inside the second write of a two-write control frame
McFault2 == [msgs |-> << <<T, F>> >>, hold |-> << <<0, 0>> >>, ctl |-> << <<"ping">>, <<"pong">> >>, rd |-> << >>,
             dclose |-> <<>>, cx |-> << [p |-> "K1", c |-> 1, n |-> 2] >>,
             fault |-> << [p |-> "K1", c |-> 1, k |-> 2, some |-> TRUE, kind |-> "error"],
                          [p |-> "D", c |-> 1, k |-> 2, some |-> TRUE, kind |-> "timeout"] >>, closer |-> FALSE]

\* the data writer sends the Close itself, through the message API, and goes on calling
McDClose == [msgs |-> << <<T, F>>, <<F>>, <<F>>, <<F, F>> >>, hold |-> << <<0, 0>>, <<0>>, <<0>>, <<0, 0>> >>, dclose |-> <<2>>,
             ctl |-> << <<"ping", "pong">> >>, rd |-> << >>, cx |-> <<>>, fault |-> <<>>, closer |-> TRUE]
=============================================================================
