----------------------------- MODULE MC_WsConc -----------------------------
(* Constant definitions of the exhaustive runs of WsConc (C15).               *)
EXTENDS WsConc

T == TRUE
F == FALSE

\* 1 writer x 3 frames (one with `extra`) in 2 messages x ping sender x close sender x closer
McMain == [msgs |-> << <<T, F>>, <<F>> >>, ctl |-> << <<"ping">>, <<"close">> >>, closer |-> TRUE]

\* two calls per control sender, close in the middle of a sender's program, no closer
McTwoCalls == [msgs |-> << <<T>>, <<F>> >>, ctl |-> << <<"ping", "pong">>, <<"close", "ping">> >>, closer |-> FALSE]

\* two close senders and a closer
McTwoClose == [msgs |-> << <<T, T, F>> >>, ctl |-> << <<"close">>, <<"close">> >>, closer |-> TRUE]

\* control writes with a short deadline: they may give up waiting for the lock
McTimeout    == [msgs |-> << <<T, F>> >>, ctl |-> << <<"ping~", "pong~">>, <<"close">> >>, closer |-> TRUE]
McTimeoutBig == [msgs |-> << <<T, F>>, <<F>> >>, ctl |-> << <<"ping~", "pong~">>, <<"ping">>, <<"close~">> >>, closer |-> TRUE]

\* thorough: longer data program, three control senders
McBig == [msgs |-> << <<T, F>>, <<T>>, <<F, F>> >>, ctl |-> << <<"ping">>, <<"close">>, <<"pong">> >>, closer |-> TRUE]
=============================================================================
