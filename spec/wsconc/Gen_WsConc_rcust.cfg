INIT GenInit
NEXT GenNext
CONSTANTS
  Program <- GenProgram
  Role = "server"
  WBuf = 256
  Shapes <- S_nwFp
  Ctl <- C_close
  Closer = FALSE
  Rd <- R_pong_pongD
  Fault <- F_none
  ControlTakesLock = TRUE
  FlushAtomic = TRUE
  LatchChecked = TRUE
  CloseLatches = TRUE
  TimeoutReleases = FALSE
  HandlerControlPath = TRUE
  TimeoutFaultLatches = TRUE
  Fifo = TRUE
  OnlyBad = FALSE
  Family = "rcust"
INVARIANT Emit
CHECK_DEADLOCK FALSE
