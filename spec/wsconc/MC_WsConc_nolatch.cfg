SPECIFICATION Spec
CONSTANTS
  Program <- McMain
  ControlTakesLock = TRUE
  FlushAtomic = TRUE
  LatchChecked = TRUE
  CloseLatches = FALSE
  TimeoutReleases = FALSE
  HandlerControlPath = TRUE
INVARIANTS TypeOK WholeFrames InOrder AfterClose
CHECK_DEADLOCK FALSE
