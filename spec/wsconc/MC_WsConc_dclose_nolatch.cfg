SPECIFICATION Spec
CONSTANTS
  Program <- McDClose
  ControlTakesLock = TRUE
  FlushAtomic = TRUE
  LatchChecked = TRUE
  CloseLatches = FALSE
  TimeoutReleases = FALSE
  HandlerControlPath = TRUE
  TimeoutFaultLatches = TRUE
INVARIANTS TypeOK WholeFrames InOrder AfterClose
CHECK_DEADLOCK FALSE
