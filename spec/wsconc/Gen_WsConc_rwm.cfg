INIT GenInit
NEXT GenNext
CONSTANTS
  Program <- GenProgram
  Role = "server"
  WBuf = 256
  Shapes <- S_wmL_wmS
  Ctl <- C_none
  Closer = FALSE
  Rd <- R_pongD_pong_closeD
  Fault <- F_none
  ControlTakesLock = TRUE
  FlushAtomic = TRUE
  LatchChecked = TRUE
  CloseLatches = TRUE
  TimeoutReleases = FALSE
  HandlerControlPath = TRUE
  TimeoutFaultLatches = TRUE
  Fifo = TRUE
  OnlyBad = FALSE
  Family = "rwm"
INVARIANT Emit
CHECK_DEADLOCK FALSE
