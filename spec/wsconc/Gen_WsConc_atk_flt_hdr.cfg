INIT GenInit
NEXT GenNext
CONSTANTS
  Program <- GenProgram
  Role = "server"
  WBuf = 256
  Shapes <- S_nwL_wmS
  Ctl <- C_ping
  Closer = FALSE
  Rd <- R_none
  Fault <- F_D1hdr_t
  ControlTakesLock = TRUE
  FlushAtomic = TRUE
  LatchChecked = TRUE
  CloseLatches = TRUE
  TimeoutReleases = FALSE
  HandlerControlPath = TRUE
  TimeoutFaultLatches = FALSE
  Fifo = TRUE
  OnlyBad = TRUE
  Family = "atk_flt_hdr"
INVARIANT Emit
CHECK_DEADLOCK FALSE
