\* run with -workers 1
SPECIFICATION TSpec
CONSTANTS
  Program = 0
  ControlTakesLock = TRUE
  FlushAtomic = TRUE
  LatchChecked = TRUE
  CloseLatches = TRUE
  TimeoutReleases = FALSE
  HandlerControlPath = TRUE
  TimeoutFaultLatches = TRUE
POSTCONDITION Accepted
CHECK_DEADLOCK FALSE
