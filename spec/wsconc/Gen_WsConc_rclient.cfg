INIT GenInit
NEXT GenNext
CONSTANTS
  Program <- GenProgram
  Role = "client"
  WBuf = 256
  Shapes <- S_nwMp
  Ctl <- C_none
  Closer = TRUE
  Rd <- R_pongD_pong
  Fault <- F_none
  ControlTakesLock = TRUE
  FlushAtomic = TRUE
  LatchChecked = TRUE
  CloseLatches = TRUE
  TimeoutReleases = FALSE
  HandlerControlPath = TRUE
  TimeoutFaultLatches = TRUE
  Fifo = TRUE
  OnlyBad = FALSE
  Family = "rclient"
INVARIANT Emit
CHECK_DEADLOCK FALSE
