INIT GenInit
NEXT GenNext
CONSTANTS
  Program <- GenProgram
  Role = "server"
  WBuf = 256
  Shapes <- S_nwLL_wmL
  Ctl <- C_ping_pong
  Closer = FALSE
  Rd <- R_none
  Fault <- F_D1f2_K2_t
  ControlTakesLock = TRUE
  FlushAtomic = TRUE
  LatchChecked = TRUE
  CloseLatches = TRUE
  TimeoutReleases = FALSE
  HandlerControlPath = TRUE
  TimeoutFaultLatches = TRUE
  Fifo = TRUE
  OnlyBad = FALSE
  Family = "flt_two"
INVARIANT Emit
CHECK_DEADLOCK FALSE
