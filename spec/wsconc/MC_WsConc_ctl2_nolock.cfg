SPECIFICATION Spec
CONSTANTS
  Program <- McCtl2
  ControlTakesLock = FALSE
  FlushAtomic = TRUE
  LatchChecked = TRUE
  CloseLatches = TRUE
  TimeoutReleases = FALSE
  HandlerControlPath = TRUE
  TimeoutFaultLatches = TRUE
INVARIANTS TypeOK WholeFrames
CHECK_DEADLOCK FALSE
