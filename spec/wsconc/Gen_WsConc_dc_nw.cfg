INIT GenInit
NEXT GenNext
CONSTANTS
  Program <- GenProgram
  Role = "server"
  WBuf = 256
  Shapes <- S_dc_nw
  Ctl <- C_ping_pong
  Closer = FALSE
  Rd <- R_none
  Fault <- F_none
  ControlTakesLock = TRUE
  FlushAtomic = TRUE
  LatchChecked = TRUE
  CloseLatches = TRUE
  TimeoutReleases = FALSE
  HandlerControlPath = TRUE
  TimeoutFaultLatches = TRUE
  Fifo = TRUE
  OnlyBad = FALSE
  Family = "dc_nw"
INVARIANT Emit
CHECK_DEADLOCK FALSE
