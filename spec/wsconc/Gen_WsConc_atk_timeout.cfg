INIT GenInit
NEXT GenNext
CONSTANTS
  Program <- GenProgram
  Role = "server"
  WBuf = 256
  Shapes <- S_wmL
  Ctl <- C_pingS_ping_close
  Closer = FALSE
  Rd <- R_none
  Fault <- F_none
  ControlTakesLock = TRUE
  FlushAtomic = TRUE
  LatchChecked = TRUE
  CloseLatches = TRUE
  TimeoutReleases = TRUE
  HandlerControlPath = TRUE
  TimeoutFaultLatches = TRUE
  Fifo = TRUE
  OnlyBad = TRUE
  Family = "atk_timeout"
INVARIANT Emit
CHECK_DEADLOCK FALSE
