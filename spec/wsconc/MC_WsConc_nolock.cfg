SPECIFICATION Spec
CONSTANTS
  Program <- McMain
  ControlTakesLock = FALSE
  FlushAtomic = TRUE
  LatchChecked = TRUE
  CloseLatches = TRUE
INVARIANTS TypeOK WholeFrames
CHECK_DEADLOCK FALSE
