INIT GenInit
NEXT GenNextSim
CONSTANTS
  Program <- GenProgram
  Role = "client"
  WBuf = 256
  Shapes <- S_nwMp_wmS
  Ctl <- C_ping
  Closer = TRUE
  Rd <- R_pongD_pong
  ControlTakesLock = TRUE
  FlushAtomic = TRUE
  LatchChecked = TRUE
  CloseLatches = TRUE
  TimeoutReleases = FALSE
  HandlerControlPath = TRUE
  Fifo = TRUE
  OnlyBad = FALSE
  Family = "simrclient"
INVARIANT Emit
CHECK_DEADLOCK FALSE
