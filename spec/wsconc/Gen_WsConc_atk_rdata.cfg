INIT GenInit
NEXT GenNext
CONSTANTS
  Program <- GenProgram
  Role = "server"
  WBuf = 256
  Shapes <- S_nwSLp_wmL
  Ctl <- C_none
  Closer = FALSE
  Rd <- R_pongD_pong
  Fault <- F_none
  ControlTakesLock = TRUE
  FlushAtomic = TRUE
  LatchChecked = TRUE
  CloseLatches = TRUE
  TimeoutReleases = FALSE
  HandlerControlPath = FALSE
  TimeoutFaultLatches = TRUE
  Fifo = TRUE
  OnlyBad = TRUE
  Family = "atk_rdata"
INVARIANT Emit
CHECK_DEADLOCK FALSE
