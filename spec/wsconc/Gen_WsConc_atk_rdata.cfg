INIT GenInit
NEXT GenNext
CONSTANTS
  Program <- GenProgram
  Role = "server"
  WBuf = 256
  Shapes <- S_nwSLp_wmL
  Ctl <- C_none
  Closer = FALSE
  Rd <- R_pongD_pong
  ControlTakesLock = TRUE
  FlushAtomic = TRUE
  LatchChecked = TRUE
  CloseLatches = TRUE
  TimeoutReleases = FALSE
  HandlerControlPath = FALSE
  Fifo = TRUE
  OnlyBad = TRUE
  Family = "atk_rdata"
INVARIANT Emit
CHECK_DEADLOCK FALSE
