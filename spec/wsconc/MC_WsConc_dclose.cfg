SPECIFICATION Spec
CONSTANTS
  Program <- McDClose
  ControlTakesLock = TRUE
  FlushAtomic = TRUE
  LatchChecked = TRUE
  CloseLatches = TRUE
  TimeoutReleases = FALSE
  HandlerControlPath = TRUE
  TimeoutFaultLatches = TRUE
INVARIANTS TypeOK LockOK MsgIntact WholeFrames AfterClose InOrder ResultsHonest
CHECK_DEADLOCK FALSE
