INIT GenInit
NEXT GenNext
CONSTANTS
  Program <- GenProgram
  Role = "server"
  WBuf = 256
  Shapes <- S_nwSLp
  Ctl <- C_close
  Closer = TRUE
  Rd <- R_pong_pongD
  Fault <- F_none
  ControlTakesLock = TRUE
  FlushAtomic = TRUE
  LatchChecked = TRUE
  CloseLatches = TRUE
  TimeoutReleases = FALSE
  HandlerControlPath = TRUE
  TimeoutFaultLatches = TRUE
  Fifo = TRUE
  OnlyBad = FALSE
  Family = "rcustbig"
INVARIANT Emit
CHECK_DEADLOCK FALSE
