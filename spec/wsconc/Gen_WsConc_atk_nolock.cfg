INIT GenInit
NEXT GenNext
CONSTANTS
  Program <- GenProgram
  Role = "server"
  WBuf = 256
  Shapes <- S_wmL
  Ctl <- C_ping_close
  Closer = TRUE
  Rd <- R_none
  Fault <- F_none
  ControlTakesLock = FALSE
  FlushAtomic = TRUE
  LatchChecked = TRUE
  CloseLatches = TRUE
  TimeoutReleases = FALSE
  HandlerControlPath = TRUE
  TimeoutFaultLatches = TRUE
  Fifo = TRUE
  OnlyBad = TRUE
  Family = "atk_nolock"
INVARIANT Emit
CHECK_DEADLOCK FALSE
