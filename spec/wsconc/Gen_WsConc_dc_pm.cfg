INIT GenInit
NEXT GenNext
CONSTANTS
  Program <- GenProgram
  Role = "client"
  WBuf = 256
  Shapes <- S_dc_pm
  Ctl <- C_ping
  Closer = FALSE
  Rd <- R_none
  Fault <- F_none
  ControlTakesLock = TRUE
  FlushAtomic = TRUE
  LatchChecked = TRUE
  CloseLatches = TRUE
  TimeoutReleases = FALSE
  HandlerControlPath = TRUE
  TimeoutFaultLatches = TRUE
  Fifo = TRUE
  OnlyBad = FALSE
  Family = "dc_pm"
INVARIANT Emit
CHECK_DEADLOCK FALSE
