SPECIFICATION Spec
CONSTANTS
  Program <- McMain
  ControlTakesLock = TRUE
  FlushAtomic = TRUE
  LatchChecked = FALSE
  CloseLatches = TRUE
  TimeoutReleases = FALSE
  HandlerControlPath = TRUE
  TimeoutFaultLatches = TRUE
INVARIANTS TypeOK WholeFrames InOrder AfterClose
CHECK_DEADLOCK FALSE
