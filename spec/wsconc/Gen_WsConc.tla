---------------------------- MODULE Gen_WsConc ----------------------------
(* Schedule generation for C15 (model -> code).  A behaviour of WsConc is     *)
(* projected on the steps a harness can force: "b" p  = the application of    *)
(* process p makes its next call (its goroutine is started with the first;    *)
(* for the reader R: the peer's next Ping / Close frame is put on the         *)
(* transport and reaches its handler), "w" p = the transport performs the     *)
(* operation process p is blocked in (net.Conn.Write for D, K.. and R,        *)
(* net.Conn.Close for X), "a" D = the application of D, which paused with     *)
(* its message open, goes on.  Everything between (lock hand-off, latch       *)
(* checks, returns) is the library's business.                                *)
(*                                                                            *)
(* The emitted case carries the concrete call plan of every message (API,     *)
(* sizes relative to the write buffer) and the frame structure the contract   *)
(* predicts for it; what the execution looked like is decided afterwards by   *)
(* Trace_WsConc on the recorded trace, not by this projection.                *)
(*                                                                            *)
(* With a deviation constant set to FALSE the same module emits ATTACK        *)
(* schedules: only behaviours that end in a state violating the property are  *)
(* emitted (`OnlyBad`), i.e. schedules that try to force a transport write    *)
(* the contract forbids.  Against a correct library the forbidden step does   *)
(* not arrive at its gate and is skipped after a bounded wait.                *)
EXTENDS WsConc, Json

CONSTANTS Role,        \* "server" | "client"
          WBuf,        \* write buffer size of the connection under test
          Shapes,      \* sequence of message shape names
          Ctl,         \* as Program.ctl
          Closer,      \* as Program.closer
          Rd,          \* as Program.rd
          Fault,       \* as Program.fault
          Fifo,        \* predict the lock hand-off as first-come-first-served
          OnlyBad,     \* emit only behaviours that violate the property (attack cfgs)
          Family       \* name of the cfg, copied into the case

VARIABLES hist,   \* the visible steps so far
          q       \* the processes parked on the lock, longest waiter first
gvars == <<vars, hist, q>>

T == TRUE
F == FALSE

\* call plan and predicted frames of a message shape.  Server frames are unmasked and a
\* Write larger than twice the buffer goes out as header+buffered bytes followed by the
\* caller's slice (`extra`); a client copies everything through the buffer.
\* `pause`: the application calls of a NextWriter message (0 = NextWriter, i = the i-th Write) after
\* which D's application pauses with the message open; `hold`: the same per predicted frame (number
\* of pauses before the frame) - after NextWriter nothing is buffered, after a small Write the bytes
\* are buffered and not flushed, after a large one the pause lies between two frames.
Shape0(role, name) ==
  IF role = "server" THEN
    CASE name = "wmS"  -> [api |-> "wm", writes |-> <<WBuf \div 2>>,         frames |-> <<F>>]
      [] name = "wmL"  -> [api |-> "wm", writes |-> <<3 * WBuf>>,            frames |-> <<T>>]
      [] name = "nwL"  -> [api |-> "nw", writes |-> <<3 * WBuf>>,            frames |-> <<T, F>>]
      [] name = "nwM"  -> [api |-> "nw", writes |-> <<WBuf + WBuf \div 2>>,  frames |-> <<F, F>>]
      [] name = "nwSL" -> [api |-> "nw", writes |-> <<10, 3 * WBuf>>,        frames |-> <<T, F>>]
      [] name = "nwLL" -> [api |-> "nw", writes |-> <<3 * WBuf, 3 * WBuf>>,  frames |-> <<T, T, F>>]
      \* a prepared message: one frame, one transport write whatever its size
      [] name = "pmS"  -> [api |-> "pm", writes |-> <<WBuf \div 2>>,         frames |-> <<F>>]
      [] name = "pmL"  -> [api |-> "pm", writes |-> <<3 * WBuf>>,            frames |-> <<F>>]
      \* a Close frame through the message API: WriteMessage / NextWriter+Write+Close / prepared
      [] name = "wmC"  -> [api |-> "wmc", writes |-> <<10>>,                 frames |-> <<F>>]
      [] name = "nwC"  -> [api |-> "nwc", writes |-> <<10>>,                 frames |-> <<F>>]
      [] name = "pmC"  -> [api |-> "pmc", writes |-> <<10>>,                 frames |-> <<F>>]
      \* with pauses
      [] name = "nwBp"  -> [api |-> "nw", writes |-> <<10, 3 * WBuf>>,       frames |-> <<T, F>>,
                            pause |-> <<1>>, hold |-> <<1, 0>>]              \* bytes buffered, not flushed
      [] name = "nwFp"  -> [api |-> "nw", writes |-> <<3 * WBuf>>,           frames |-> <<T, F>>,
                            pause |-> <<1>>, hold |-> <<0, 1>>]              \* between two frames
      [] name = "nwSLp" -> [api |-> "nw", writes |-> <<10, 3 * WBuf>>,       frames |-> <<T, F>>,
                            pause |-> <<1, 2>>, hold |-> <<1, 1>>]           \* both
      [] name = "nwSp"  -> [api |-> "nw", writes |-> <<10, 20>>,             frames |-> <<F>>,
                            pause |-> <<0, 1>>, hold |-> <<2>>]              \* nothing buffered; bytes buffered
      [] name = "nwLLp" -> [api |-> "nw", writes |-> <<3 * WBuf, 10, 3 * WBuf>>, frames |-> <<T, T, F>>,
                            pause |-> <<0, 1, 2, 3>>, hold |-> <<1, 2, 1>>]
  ELSE
    CASE name = "wmS"  -> [api |-> "wm", writes |-> <<WBuf \div 2>>,         frames |-> <<F>>]
      [] name = "wmL"  -> [api |-> "wm", writes |-> <<WBuf + WBuf \div 2>>,  frames |-> <<F, F>>]
      [] name = "nwL"  -> [api |-> "nw", writes |-> <<2 * WBuf + 10>>,       frames |-> <<F, F, F>>]
      [] name = "nwM"  -> [api |-> "nw", writes |-> <<WBuf + WBuf \div 2>>,  frames |-> <<F, F>>]
      [] name = "pmS"  -> [api |-> "pm", writes |-> <<WBuf \div 2>>,         frames |-> <<F>>]
      [] name = "wmC"  -> [api |-> "wmc", writes |-> <<10>>,                 frames |-> <<F>>]
      [] name = "nwC"  -> [api |-> "nwc", writes |-> <<10>>,                 frames |-> <<F>>]
      [] name = "pmC"  -> [api |-> "pmc", writes |-> <<10>>,                 frames |-> <<F>>]
      \* with pauses (a client copies everything through the buffer: a frame goes out when it is full)
      [] name = "nwMp"  -> [api |-> "nw", writes |-> <<10, WBuf + WBuf \div 2>>, frames |-> <<F, F>>,
                            pause |-> <<1, 2>>, hold |-> <<1, 1>>]
      [] name = "nwSp"  -> [api |-> "nw", writes |-> <<10, 20>>,             frames |-> <<F>>,
                            pause |-> <<0, 1>>, hold |-> <<2>>]
Shape(role, name) ==
  LET sh == Shape0(role, name) IN
  IF "pause" \in DOMAIN sh THEN sh
  ELSE [api |-> sh.api, writes |-> sh.writes, frames |-> sh.frames,
        pause |-> <<>>, hold |-> [f \in 1..Len(sh.frames) |-> 0]]

\* named data programs and control programs of the cfgs
S_nwL_wmS      == <<"nwL", "wmS">>
S_wmL          == <<"wmL">>
S_wmL_wmS      == <<"wmL", "wmS">>
S_nwM_wmS      == <<"nwM", "wmS">>
S_wmL_wmL      == <<"wmL", "wmL">>
S_nwLL         == <<"nwLL">>
S_nwSL_wmL     == <<"nwSL", "wmL">>
S_nwL_wmL_wmS  == <<"nwL", "wmL", "wmS">>
S_nwLL_wmL     == <<"nwLL", "wmL">>
S_nwL_wmL      == <<"nwL", "wmL">>
C_ping_close        == << <<"ping">>, <<"close">> >>
C_close_ping        == << <<"close">>, <<"ping">> >>
C_pong_close        == << <<"pong">>, <<"close">> >>
C_close             == << <<"close">> >>
C_none              == << >>
C_ping_pong         == << <<"ping">>, <<"pong">> >>
C_ping_pongclose    == << <<"ping">>, <<"pong", "close">> >>
C_ping              == << <<"ping">> >>
C_close_close       == << <<"close">>, <<"close">> >>
C_pingpong_closeping == << <<"ping", "pong">>, <<"close", "ping">> >>
C_ping_close_pong   == << <<"ping">>, <<"close">>, <<"pong">> >>
C_ping2_close_pong2 == << <<"ping", "ping">>, <<"close">>, <<"pong", "pong">> >>
\* "~": short deadline
C_pingS_ping_close  == << <<"ping~">>, <<"ping">>, <<"close">> >>
C_pingS2_ping       == << <<"ping~", "ping~">>, <<"ping">> >>
C_pingS_pong        == << <<"ping~">>, <<"pong">> >>
C_mixS              == << <<"ping~", "ping">>, <<"close">>, <<"pong", "pong~">> >>

\* D sends the Close itself (each entry point of the message API) and goes on calling every entry point;
\* a Close of another goroutine and D going on with prepared messages
S_dc_wm        == <<"nwL", "wmC", "wmS", "pmS", "nwM", "pmS">>
S_dc_nw        == <<"pmL", "nwC", "pmS", "pmS", "wmS", "nwM">>
S_dc_pm        == <<"wmS", "pmC", "nwM", "nwM", "wmS", "pmS">>
S_kc_pm        == <<"pmS", "pmS", "pmS", "wmS", "nwM", "pmS">>
S_wmC_wmS      == <<"wmC", "wmS", "pmS">>
S_nwSLp_wmL    == <<"nwSLp", "wmL">>
S_nwSLp        == <<"nwSLp">>
S_nwBp_wmS     == <<"nwBp", "wmS">>
S_nwFp_wmS     == <<"nwFp", "wmS">>
S_nwFp         == <<"nwFp">>
S_nwSp_wmL     == <<"nwSp", "wmL">>
S_nwMp_wmS     == <<"nwMp", "wmS">>
S_nwMp         == <<"nwMp">>
S_nwLLp_wmL    == <<"nwLLp", "wmL">>
S_wmL_nwSLp    == <<"wmL", "nwSLp">>
\* the answers of the reader's handlers; "@": the package's default handler
\* transport writes that fail with the transport open (Program.fault)
F_none         == << >>
Flt(p, c, k, some, kind) == [p |-> p, c |-> c, k |-> k, some |-> some, kind |-> kind]
F_K1_t         == << Flt("K1", 1, 1, T, "timeout") >>            \* a control frame cut off inside its write by its deadline
F_K1_e         == << Flt("K1", 1, 1, T, "error") >>
F_D1hdr_t      == << Flt("D", 1, 1, T, "timeout") >>             \* a data frame cut off inside header+buffer
F_D1extra0_e   == << Flt("D", 1, 2, F, "error") >>               \* ... between header+buffer and the caller's slice
F_D1extra_t    == << Flt("D", 1, 2, T, "timeout") >>             \* ... inside the caller's slice
F_D1f2_K2_t    == << Flt("D", 1, 3, T, "error"), Flt("K2", 1, 1, T, "timeout") >>   \* whichever comes first
F_R1_t         == << Flt("R", 1, 1, T, "timeout") >>             \* the answer of a handler on the reading goroutine
R_none         == << >>
R_pongD        == <<"pong@">>
R_pong         == <<"pong">>
R_pongD_pong   == <<"pong@", "pong">>
R_pong_pongD   == <<"pong", "pong@">>
R_pongD_closeD == <<"pong@", "close@">>
R_pong_close   == <<"pong", "close">>
R_closeD       == <<"close@">>
R_pongD2_closeD == <<"pong@", "pong@", "close@">>
R_pongD_pong_closeD == <<"pong@", "pong", "close@">>

Plan == [i \in 1..Len(Shapes) |-> Shape(Role, Shapes[i])]
\* the messages that are a Close frame sent through the message API, in program order
RECURSIVE DCloseFrom(_)
DCloseFrom(i) == IF i > Len(Shapes) THEN <<>>
                 ELSE (IF Shapes[i] \in {"wmC", "nwC", "pmC"} THEN <<i>> ELSE <<>>) \o DCloseFrom(i + 1)
GenProgram == [msgs |-> [i \in 1..Len(Shapes) |-> Plan[i].frames], hold |-> [i \in 1..Len(Shapes) |-> Plan[i].hold],
               dclose |-> DCloseFrom(1),
               ctl |-> Ctl, rd |-> Rd, cx |-> <<>>, fault |-> Fault, closer |-> Closer]

GenInit == Init /\ hist = <<>> /\ q = <<>>

\* The harness can only force the order of the visible steps; between them the library runs
\* on its own.  So the internal steps are run eagerly (a visible step is taken only when no
\* internal step is enabled) and in a fixed order, and - with Fifo - the lock goes to the
\* longest waiter, which is what the Go runtime does with the receivers of a channel (hand-off
\* to the first parked receiver).  This is a PREDICTION used to pick schedules a harness can
\* force on a conforming library; it is no part of the contract (MC_WsConc explores every
\* hand-off order, Trace_WsConc accepts every one), and a schedule whose prediction fails
\* only loses coverage.  Fifo = FALSE generates every hand-off order.
Waits(pcs, p) == pcs[p] \in {"acq", "acq2"} /\ (p = "D" \/ ControlTakesLock)
CanAcquire(p) == \/ pc[p] = "acq" /\ (lock = NoProc \/ (p # "D" /\ ~ControlTakesLock))
                 \/ p = "D" /\ pc[p] = "acq2" /\ lock = NoProc
Turn(p)  == Fifo /\ Waits(pc, p) => (q # <<>> /\ p = Head(q))
\* a control write with a short deadline that finds the lock taken gives up (the holder is
\* parked at a gate: it certainly waits longer than the deadline); with the lock free it
\* is predicted to get it
GivesUp(p) == p \in KProcs /\ pc[p] = "acq" /\ Short(p) /\ ControlTakesLock /\ lock # NoProc
Busy(p)  == \/ pc[p] \in {"prep", "chk", "latch", "fatal", "rel", "rel1", "ret", "srel"} \/ GivesUp(p)
            \/ pc[p] = "pre" /\ (DOpen => lock = NoProc)
BusySet  == {p \in Procs : Busy(p)}
Rank(p)  == IF p = "R" THEN 100 ELSE KIdx(p)
Before(p, r) == p = "D" \/ (r # "D" /\ (r = "X" \/ (p # "X" /\ Rank(p) < Rank(r))))
First(S) == CHOOSE p \in S : \A r \in S : p = r \/ Before(p, r)
InQ(p)   == \E i \in 1..Len(q) : q[i] = p

\* what the process does next, as far as the harness can see it: "g" it arrives at a gate,
\* "r" its call returns, "l" it parks on the lock, "t" it waits for the lock until its
\* short deadline expires and returns (the harness waits for that return), "p" the
\* application of D pauses with its message open (the harness waits for that)
AfterBegin(p) ==
  IF p = "X" THEN "g"
  ELSE IF p = "D" THEN (IF Failed THEN "r" ELSE IF prog.hold[call[p] + 1][1] > 0 THEN "p"
                        ELSE IF lock # NoProc THEN "l" ELSE "g")
  ELSE IF lock # NoProc /\ ControlTakesLock
         THEN (IF IsShort(CtlSeq(p)[call[p] + 1]) THEN "t" ELSE "l")
  ELSE IF Failed THEN "r" ELSE "g"
AfterWrite(p) ==
  IF ~closed /\ pc[p] # "steal" /\ FaultOf(p) # {} THEN "r"
  ELSE IF p = "R" /\ pc[p] = "steal" /\ ~closed THEN "g"
  ELSE IF p # "D" \/ closed THEN "r"
  ELSE IF pc[p] = "hdr" /\ Msg[fr] THEN (IF FlushAtomic \/ q = <<>> THEN "g" ELSE "l")
  ELSE IF fr = Len(Msg) THEN "r"
  ELSE IF prog.hold[call[p]][fr + 1] > 0 THEN "p"
  ELSE IF q = <<>> THEN "g" ELSE "l"
AfterResume ==
  IF hp > 1 THEN "p"
  ELSE IF lock # NoProc \/ q # <<>> THEN "l"
  ELSE IF Failed THEN "r" ELSE "g"

\* the message D has open when a frame of the peer reaches the reader: "app" the application paused
\* (bytes buffered and not flushed / between two frames), "hdr"/"extra" D is inside a flush
Item(op, p) == [op |-> op, p |-> p,
                exp |-> IF op = "b" THEN AfterBegin(p) ELSE IF op = "a" THEN AfterResume ELSE AfterWrite(p),
                \* the write is a header whose frame still needs its `extra`
                more |-> op = "w" /\ p = "D" /\ pc[p] = "hdr" /\ ~closed /\ Msg[fr],
                dopen |-> IF op = "b" /\ p = "R" /\ pc["D"] \in {"app", "hdr", "extra"} THEN pc["D"] ELSE ""]

Moves ==
  IF BusySet # {}
    THEN LET p == First(BusySet) IN (IF GivesUp(p) THEN Timeout(p) ELSE Steady(p)) /\ UNCHANGED hist
  ELSE IF \E p \in Procs : CanAcquire(p) /\ Turn(p)
    THEN \E p \in Procs : CanAcquire(p) /\ Turn(p) /\ Steady(p) /\ UNCHANGED hist
  ELSE \/ \E p \in Procs : Begin(p) /\ (p = "R" => ~RMayStop) /\ hist' = Append(hist, Item("b", p))
       \/ Resume /\ hist' = Append(hist, Item("a", "D"))
       \/ \E p \in Procs : (TWrite(p) \/ TFault(p)) /\ hist' = Append(hist, Item("w", p))
       \/ XClose /\ hist' = Append(hist, Item("w", "X"))

GenStep ==
  /\ Moves
  /\ q' = LET kept == SelectSeq(q, LAMBDA p : Waits(pc', p))
               new  == {p \in Procs : Waits(pc', p) /\ ~InQ(p)}
           IN IF new = {} THEN kept ELSE Append(kept, First(new))

GenNext    == GenStep \/ (Done /\ UNCHANGED gvars)
GenNextSim == GenStep            \* simulation: a finished behaviour ends the run

Good == WholeFrames /\ AfterClose /\ InOrder /\ MsgIntact

\* "hold D between the header write and the `extra` write of a frame and begin every other process"
Decisive ==
  \E h \in 1..Len(hist) :
    /\ hist[h].more
    /\ LET nxt == {j \in (h + 1)..Len(hist) : hist[j].op = "w" /\ hist[j].p = "D"}
           x   == IF nxt = {} THEN Len(hist) + 1 ELSE CHOOSE j \in nxt : \A k \in nxt : j <= k
       IN \A p \in Procs \ {"D"} : \E j \in (h + 1)..(x - 1) : hist[j].op = "b" /\ hist[j].p = p

\* the peer's frames reach the reader while D has its message open: in which states of D
ROpen == {hist[h].dopen : h \in 1..Len(hist)} \ {""}

Case == [family |-> Family, role |-> Role, wbuf |-> WBuf, msgs |-> Plan, ctl |-> Ctl, rd |-> Rd, fault |-> Fault, closer |-> Closer,
         sched |-> [i \in 1..Len(hist) |-> hist[i].op \o ":" \o hist[i].p \o ":" \o hist[i].exp],
         attack |-> ~Good, decisive |-> Decisive \/ "app" \in ROpen, ropen |-> ROpen]

Emit == (Done /\ (OnlyBad => ~Good)) => PrintT(<<"CASE", ToJson(Case)>>)
=============================================================================
