---------------------------- MODULE Gen_WsConc ----------------------------
(* Schedule generation for C15 (model -> code).  A behaviour of WsConc is     *)
(* projected on the steps a harness can force: "b" p  = the application of    *)
(* process p makes its next call (its goroutine is started with the first),   *)
(* "w" p = the transport performs the operation process p is blocked in       *)
(* (net.Conn.Write for D and K.., net.Conn.Close for X).  Everything between  *)
(* (lock hand-off, latch checks, returns) is the library's business.          *)
(*                                                                            *)
(* The emitted case carries the concrete call plan of every message (API,     *)
(* sizes relative to the write buffer) and the frame structure the contract   *)
(* predicts for it; what the execution looked like is decided afterwards by   *)
(* Trace_WsConc on the recorded trace, not by this projection.                *)
(*                                                                            *)
(* With a deviation constant set to FALSE the same module emits ATTACK        *)
(* schedules: only behaviours that end in a state violating the property are  *)
(* emitted (`OnlyBad`), i.e. schedules that try to force a transport write    *)
(* the contract forbids.  Against a correct library the forbidden step does   *)
(* not arrive at its gate and is skipped after a bounded wait.                *)
EXTENDS WsConc, Json

CONSTANTS Role,        \* "server" | "client"
          WBuf,        \* write buffer size of the connection under test
          Shapes,      \* sequence of message shape names
          Ctl,         \* as Program.ctl
          Closer,      \* as Program.closer
          Fifo,        \* predict the lock hand-off as first-come-first-served
          OnlyBad,     \* emit only behaviours that violate the property (attack cfgs)
          Family       \* name of the cfg, copied into the case

VARIABLES hist,   \* the visible steps so far
          q       \* the processes parked on the lock, longest waiter first
gvars == <<vars, hist, q>>

T == TRUE
F == FALSE

\* call plan and predicted frames of a message shape.  Server frames are unmasked and a
\* Write larger than twice the buffer goes out as header+buffered bytes followed by the
\* caller's slice (`extra`); a client copies everything through the buffer.
Shape(role, name) ==
  IF role = "server" THEN
    CASE name = "wmS"  -> [api |-> "wm", writes |-> <<WBuf \div 2>>,         frames |-> <<F>>]
      [] name = "wmL"  -> [api |-> "wm", writes |-> <<3 * WBuf>>,            frames |-> <<T>>]
      [] name = "nwL"  -> [api |-> "nw", writes |-> <<3 * WBuf>>,            frames |-> <<T, F>>]
      [] name = "nwM"  -> [api |-> "nw", writes |-> <<WBuf + WBuf \div 2>>,  frames |-> <<F, F>>]
      [] name = "nwSL" -> [api |-> "nw", writes |-> <<10, 3 * WBuf>>,        frames |-> <<T, F>>]
      [] name = "nwLL" -> [api |-> "nw", writes |-> <<3 * WBuf, 3 * WBuf>>,  frames |-> <<T, T, F>>]
  ELSE
    CASE name = "wmS"  -> [api |-> "wm", writes |-> <<WBuf \div 2>>,         frames |-> <<F>>]
      [] name = "wmL"  -> [api |-> "wm", writes |-> <<WBuf + WBuf \div 2>>,  frames |-> <<F, F>>]
      [] name = "nwL"  -> [api |-> "nw", writes |-> <<2 * WBuf + 10>>,       frames |-> <<F, F, F>>]
      [] name = "nwM"  -> [api |-> "nw", writes |-> <<WBuf + WBuf \div 2>>,  frames |-> <<F, F>>]

\* named data programs and control programs of the cfgs
S_nwL_wmS      == <<"nwL", "wmS">>
S_wmL          == <<"wmL">>
S_wmL_wmS      == <<"wmL", "wmS">>
S_nwM_wmS      == <<"nwM", "wmS">>
S_wmL_wmL      == <<"wmL", "wmL">>
S_nwLL         == <<"nwLL">>
S_nwSL_wmL     == <<"nwSL", "wmL">>
S_nwL_wmL_wmS  == <<"nwL", "wmL", "wmS">>
S_nwLL_wmL     == <<"nwLL", "wmL">>
S_nwL_wmL      == <<"nwL", "wmL">>
C_ping_close        == << <<"ping">>, <<"close">> >>
C_close_ping        == << <<"close">>, <<"ping">> >>
C_pong_close        == << <<"pong">>, <<"close">> >>
C_close             == << <<"close">> >>
C_ping              == << <<"ping">> >>
C_close_close       == << <<"close">>, <<"close">> >>
C_pingpong_closeping == << <<"ping", "pong">>, <<"close", "ping">> >>
C_ping_close_pong   == << <<"ping">>, <<"close">>, <<"pong">> >>
C_ping2_close_pong2 == << <<"ping", "ping">>, <<"close">>, <<"pong", "pong">> >>
\* "~": short deadline
C_pingS_ping_close  == << <<"ping~">>, <<"ping">>, <<"close">> >>
C_pingS2_ping       == << <<"ping~", "ping~">>, <<"ping">> >>
C_pingS_pong        == << <<"ping~">>, <<"pong">> >>
C_mixS              == << <<"ping~", "ping">>, <<"close">>, <<"pong", "pong~">> >>

Plan == [i \in 1..Len(Shapes) |-> Shape(Role, Shapes[i])]
GenProgram == [msgs |-> [i \in 1..Len(Shapes) |-> Plan[i].frames], ctl |-> Ctl, closer |-> Closer]

GenInit == Init /\ hist = <<>> /\ q = <<>>

\* The harness can only force the order of the visible steps; between them the library runs
\* on its own.  So the internal steps are run eagerly (a visible step is taken only when no
\* internal step is enabled) and in a fixed order, and - with Fifo - the lock goes to the
\* longest waiter, which is what the Go runtime does with the receivers of a channel (hand-off
\* to the first parked receiver).  This is a PREDICTION used to pick schedules a harness can
\* force on a conforming library; it is no part of the contract (MC_WsConc explores every
\* hand-off order, Trace_WsConc accepts every one), and a schedule whose prediction fails
\* only loses coverage.  Fifo = FALSE generates every hand-off order.
Waits(pcs, p) == pcs[p] \in {"acq", "acq2"} /\ (p = "D" \/ ControlTakesLock)
CanAcquire(p) == \/ pc[p] = "acq" /\ (lock = NoProc \/ (p # "D" /\ ~ControlTakesLock))
                 \/ p = "D" /\ pc[p] = "acq2" /\ lock = NoProc
Turn(p)  == Fifo /\ Waits(pc, p) => (q # <<>> /\ p = Head(q))
\* a control write with a short deadline that finds the lock taken gives up (the holder is
\* parked at a gate: it certainly waits longer than the deadline); with the lock free it
\* is predicted to get it
GivesUp(p) == p \in KProcs /\ pc[p] = "acq" /\ Short(p) /\ ControlTakesLock /\ lock # NoProc
Busy(p)  == pc[p] \in {"prep", "chk", "latch", "rel", "rel1", "ret"} \/ GivesUp(p)
BusySet  == {p \in Procs : Busy(p)}
Before(p, r) == p = "D" \/ (r # "D" /\ (r = "X" \/ (p # "X" /\ KIdx(p) < KIdx(r))))
First(S) == CHOOSE p \in S : \A r \in S : p = r \/ Before(p, r)
InQ(p)   == \E i \in 1..Len(q) : q[i] = p

\* what the process does next, as far as the harness can see it: "g" it arrives at a gate,
\* "r" its call returns, "l" it parks on the lock, "t" it waits for the lock until its
\* short deadline expires and returns (the harness waits for that return)
AfterBegin(p) ==
  IF p = "X" THEN "g"
  ELSE IF p = "D" THEN (IF Failed THEN "r" ELSE IF lock # NoProc THEN "l" ELSE "g")
  ELSE IF lock # NoProc /\ ControlTakesLock
         THEN (IF IsShort(prog.ctl[KIdx(p)][call[p] + 1]) THEN "t" ELSE "l")
  ELSE IF Failed THEN "r" ELSE "g"
AfterWrite(p) ==
  IF p # "D" \/ closed THEN "r"
  ELSE IF pc[p] = "hdr" /\ Msg[fr] THEN (IF FlushAtomic \/ q = <<>> THEN "g" ELSE "l")
  ELSE IF fr = Len(Msg) THEN "r"
  ELSE IF q = <<>> THEN "g" ELSE "l"

Item(op, p) == [op |-> op, p |-> p,
                exp |-> IF op = "b" THEN AfterBegin(p) ELSE AfterWrite(p),
                \* the write is a header whose frame still needs its `extra`
                more |-> op = "w" /\ p = "D" /\ pc[p] = "hdr" /\ ~closed /\ Msg[fr]]

Moves ==
  IF BusySet # {}
    THEN LET p == First(BusySet) IN (IF GivesUp(p) THEN Timeout(p) ELSE Steady(p)) /\ UNCHANGED hist
  ELSE IF \E p \in Procs : CanAcquire(p) /\ Turn(p)
    THEN \E p \in Procs : CanAcquire(p) /\ Turn(p) /\ Steady(p) /\ UNCHANGED hist
  ELSE \/ \E p \in Procs : Begin(p) /\ hist' = Append(hist, Item("b", p))
       \/ \E p \in Procs : TWrite(p) /\ hist' = Append(hist, Item("w", p))
       \/ XClose /\ hist' = Append(hist, Item("w", "X"))

GenStep ==
  /\ Moves
  /\ q' = LET kept == SelectSeq(q, LAMBDA p : Waits(pc', p))
               new  == {p \in Procs : Waits(pc', p) /\ ~InQ(p)}
           IN IF new = {} THEN kept ELSE Append(kept, First(new))

GenNext    == GenStep \/ (Done /\ UNCHANGED gvars)
GenNextSim == GenStep            \* simulation: a finished behaviour ends the run

Good == WholeFrames /\ AfterClose /\ InOrder

\* "hold D between the header write and the `extra` write of a frame and begin every other process"
Decisive ==
  \E h \in 1..Len(hist) :
    /\ hist[h].more
    /\ LET nxt == {j \in (h + 1)..Len(hist) : hist[j].op = "w" /\ hist[j].p = "D"}
           x   == IF nxt = {} THEN Len(hist) + 1 ELSE CHOOSE j \in nxt : \A k \in nxt : j <= k
       IN \A p \in Procs \ {"D"} : \E j \in (h + 1)..(x - 1) : hist[j].op = "b" /\ hist[j].p = p

Case == [family |-> Family, role |-> Role, wbuf |-> WBuf, msgs |-> Plan, ctl |-> Ctl, closer |-> Closer,
         sched |-> [i \in 1..Len(hist) |-> hist[i].op \o ":" \o hist[i].p \o ":" \o hist[i].exp],
         attack |-> ~Good, decisive |-> Decisive]

Emit == (Done /\ (OnlyBad => ~Good)) => PrintT(<<"CASE", ToJson(Case)>>)
=============================================================================
