------------------------------- MODULE WsConc -------------------------------
(* C15: concurrent control frames never corrupt the WebSocket frame stream.   *)
(*                                                                            *)
(* The write side of one websocket connection, shaped like                    *)
(* /repo/websocket/conn.go (fork of gorilla/websocket 1.2.0):                 *)
(*                                                                            *)
(*   lock    the 1-slot channel `mu`: held across ALL transport writes of one *)
(*           frame (Conn.write(frameType, deadline, buf, extra) writes the    *)
(*           header+buffer and then `extra` under one acquisition;            *)
(*           WriteControl takes the same lock)                                *)
(*   latch   the sticky write error `writeErr` (set once by writeFatal):      *)
(*           "none", "closesent" (a Close frame was written) or "other" (a    *)
(*           transport write failed); read under writeErrMu by prepWrite      *)
(*           (before a message, WITHOUT the lock), by write() and by          *)
(*           WriteControl (both WITH the lock, before writing)                *)
(*   closed  the transport was closed by Conn.Close (which takes no lock and  *)
(*           sets no latch: later transport writes fail and latch "other")    *)
(*   wire    the transport writes that succeeded, in the transport's order    *)
(*                                                                            *)
(* Processes: "D" the data writer (one call per message: prepWrite, then per  *)
(* frame Acquire; check latch; TWrite(hdr); [TWrite(extra)]; Release), "K1".. *)
(* control senders (per call Acquire; check latch; TWrite(ctl); [latch        *)
(* close-sent]; Release), "X" the closer.  `Begin(p)` is the application      *)
(* calling into the library; it only remembers whether a Close frame was on   *)
(* the wire at that moment.                                                   *)
(*                                                                            *)
(* "R" is the READING goroutine as far as it writes: the peer's Ping and      *)
(* Close frames arrive at any point and their handlers run on the reader; a   *)
(* handler's answer (pong / echoed close) is a control write like any other   *)
(* (WriteControl: the write lock, the latch check under it, one transport     *)
(* write) and never touches the message the data writer has open.  `Begin`    *)
(* of R is the peer's frame reaching the handler; R's program `rd` is the     *)
(* sequence of answers ("pong"/"close": a handler of the application calling  *)
(* WriteControl without deadline; "pong@"/"close@": the package's default     *)
(* handler, whose deadline is writeWait - it may give up like a "~" call and  *)
(* its result is not visible to the application).  The reader stops reading   *)
(* after a Close frame of the peer and when the transport is closed.          *)
(*                                                                            *)
(* The application of D may pause while its message is open: `hold[m][f]` is  *)
(* the number of times it does so before frame f of message m reaches the     *)
(* library's flush (after NextWriter, between two Write calls: bytes          *)
(* buffered and not flushed, between two frames).  D is then in "app"         *)
(* (outside every critical section, the message writer open) until `Resume`.  *)
(*                                                                            *)
(* The program is a VARIABLE that never changes: MC/Gen fix it by the         *)
(* CONSTANT Program, Trace_WsConc sets it per recorded schedule.              *)
(*                                                                            *)
(* Named deviations (all TRUE = the contract):                                *)
(*   ControlTakesLock = FALSE  WriteControl writes without taking `mu`        *)
(*   FlushAtomic      = FALSE  header and `extra` in two locked sections      *)
(*   LatchChecked     = FALSE  the sticky error is not looked at              *)
(*   CloseLatches     = FALSE  writing a Close frame does not latch close-sent*)
(*   TimeoutReleases  = TRUE   a WriteControl that timed out waiting for the  *)
(*                             lock "releases" it all the same (the release   *)
(*                             is deferred before the lock is acquired): a    *)
(*                             second token circulates in the 1-slot channel  *)
(*   HandlerControlPath = FALSE  "pong-through-data-path": a handler running  *)
(*                             on the reader answers through the message path *)
(*                             (WriteMessage): its prepWrite closes the       *)
(*                             message writer D has open - D's buffered bytes *)
(*                             go out as a final frame written by R, D's      *)
(*                             message is truncated and its next call fails   *)
(*   TimeoutFaultLatches = FALSE  "timeout-not-sticky": a transport write     *)
(*                             that failed with a timeout is not latched: the *)
(*                             next writer writes behind the truncated frame  *)
(*                                                                            *)
(* Deadlines.  A control opcode with the suffix "~" ("ping~") is sent with a  *)
(* SHORT deadline: WriteControl waits for the lock in                         *)
(*   select { case <-c.mu: ... case <-timer.C: return errWriteTimeout }       *)
(* so such a call may give up (`Timeout`): it returns the timeout error,      *)
(* writes nothing, latches nothing and leaves the lock alone.  Time is not    *)
(* modelled: Timeout is enabled whenever the call waits (also with the lock   *)
(* free - select chooses at random when both are ready, and the timer may     *)
(* have fired before the goroutine got to the select).  The other opcodes     *)
(* have a deadline far away (or none): they wait for ever.                    *)
EXTENDS Naturals, Sequences, FiniteSets, TLC

CONSTANTS Program,            \* [msgs, hold, dclose, ctl, rd, cx, fault, closer]:
                              \*   msgs   = sequence of messages, message = sequence of frames,
                              \*            frame = BOOLEAN (TRUE: a second transport write `extra`)
                              \*   ctl    = sequence (one per control sender) of sequences of
                              \*            opcodes in {"ping", "pong", "close"}, with "~" appended
                              \*            for a short deadline
                              \*   dclose = sequence of the indices of the "messages" of D that are a Close frame
                              \*            sent through the message API (WriteMessage, NextWriter or a
                              \*            prepared message of type CloseMessage): one frame, one write
                              \*   hold   = per message, per frame: number of pauses of D's
                              \*            application before that frame
                              \*   rd     = sequence of the answers of the reader's handlers
                              \*            ("pong", "close"; "@" appended: default handler)
                              \*   cx     = sequence of [p, c, n]: the control frame of call c of process p
                              \*            reaches the transport in n > 1 writes (the library's
                              \*            choice: e.g. header, then the caller's payload); all others in one
                              \*   fault  = sequence of [p, c, k, some, kind]: the k-th transport write of call c
                              \*            of process p FAILS although the transport stays open (a write
                              \*            deadline inside net.Conn.Write / another transport error: kind
                              \*            "timeout" / "error"); the transport has accepted a proper prefix of
                              \*            the bytes - a non-empty one if `some` - and later writes would succeed
                              \*   closer = BOOLEAN (is there a process calling Conn.Close)
          ControlTakesLock, FlushAtomic, LatchChecked, CloseLatches, TimeoutReleases,
          HandlerControlPath, TimeoutFaultLatches

VARIABLES prog,    \* the program (see Program)
          lock,    \* holder of `mu`, or NoProc
          latch,   \* "none" | "closesent" | "other"
          closed,  \* transport closed
          wire,    \* sequence of [proc, call, frame, part]
          pc,      \* per process
          call,    \* per process: number of calls begun
          fr,      \* D: frame index inside the current message
          hp,      \* D: pauses of the application left before frame fr
          err,     \* per process: result of the call in progress
          late,    \* per process: a Close frame was on the wire when the call began
          res      \* per process: sequence of [r, late] of the calls that returned

vars == <<prog, lock, latch, closed, wire, pc, call, fr, hp, err, late, res>>

NoProc == "-"
KName(i) == "K" \o ToString(i)
KProcsOf(pr) == {KName(i) : i \in 1..Len(pr.ctl)}
\* the processes that send control frames: the senders K.. and the reader R (if the peer sends anything)
CProcsOf(pr) == KProcsOf(pr) \cup (IF Len(pr.rd) > 0 THEN {"R"} ELSE {})
ProcsOf(pr)  == {"D"} \cup CProcsOf(pr) \cup (IF pr.closer THEN {"X"} ELSE {})
KProcs == KProcsOf(prog)
CProcs == CProcsOf(prog)
Procs  == ProcsOf(prog)
KIdx(p) == CHOOSE i \in 1..Len(prog.ctl) : KName(i) = p
CtlSeq(p) == IF p = "R" THEN prog.rd ELSE prog.ctl[KIdx(p)]
NCalls(p) == IF p = "D" THEN Len(prog.msgs)
             ELSE IF p = "X" THEN 1 ELSE Len(CtlSeq(p))
IsShort(o) == o \in {"ping~", "pong~", "close~"}
IsDflt(o)  == o \in {"pong@", "close@"}          \* sent by a default handler (deadline writeWait)
Code(o) == CASE o = "ping~" -> "ping" [] o = "pong~" -> "pong" [] o = "close~" -> "close"
             [] o = "pong@" -> "pong" [] o = "close@" -> "close" [] OTHER -> o
Op(p)    == Code(CtlSeq(p)[call[p]])            \* K, R: opcode of the call in progress
Short(p) == IsShort(CtlSeq(p)[call[p]])         \* K: the call in progress has a short deadline
Bounded(p) == Short(p) \/ IsDflt(CtlSeq(p)[call[p]])   \* ... a deadline it may give up on
Msg    == prog.msgs[call["D"]]                 \* D: message in progress
HasExtra(e) == e.proc = "D" /\ prog.msgs[e.call][e.frame]
\* A control frame is one or more transport writes of its sender: part "ctl" (the first, it holds the
\* frame header) and parts "cext"; the field `frame` of their wire entries numbers them 1..CParts.
CParts(p, j) == LET S == {i \in 1..Len(prog.cx) : prog.cx[i].p = p /\ prog.cx[i].c = j}
                IN IF S = {} THEN 1 ELSE prog.cx[CHOOSE i \in S : TRUE].n
\* A transport write that failed after the transport had accepted a non-empty proper prefix leaves
\* a wire entry whose part is marked "!": the frame stays incomplete for ever.
IsCut(e)    == e.part \in {"hdr!", "extra!", "ctl!", "cext!"}
IsCtl(e)    == e.part \in {"ctl", "cext", "ctl!", "cext!"}
\* the number of the transport write process p is about to make within its call (a failed write ends the call)
WriteNo(p)  == 1 + Cardinality({i \in 1..Len(wire) : wire[i].proc = p /\ wire[i].call = call[p]})
FaultOf(p)  == {i \in 1..Len(prog.fault) : prog.fault[i].p = p /\ prog.fault[i].c = call[p] /\ prog.fault[i].k = WriteNo(p)}
PartsDone(p) == Cardinality({i \in 1..Len(wire) : IsCtl(wire[i]) /\ wire[i].proc = p /\ wire[i].call = call[p]})
IsDClose(m) == \E i \in 1..Len(prog.dclose) : prog.dclose[i] = m
IsClose(e)  == IF e.proc = "D" THEN IsDClose(e.call) ELSE IsCtl(e) /\ Code(CtlSeq(e.proc)[e.call]) = "close"
\* the Close frame has been sent: its last part is on the wire
CloseOnWire == \E i \in 1..Len(wire) : /\ IsClose(wire[i]) /\ ~IsCut(wire[i])
                                        /\ (wire[i].proc # "D" => wire[i].frame = CParts(wire[i].proc, wire[i].call))

InitWith(pr) ==
  /\ prog = pr
  /\ lock = NoProc /\ latch = "none" /\ closed = FALSE /\ wire = <<>>
  /\ pc   = [p \in ProcsOf(pr) |-> "idle"]
  /\ call = [p \in ProcsOf(pr) |-> 0]
  /\ fr = 0 /\ hp = 0
  /\ err  = [p \in ProcsOf(pr) |-> "nil"]
  /\ late = [p \in ProcsOf(pr) |-> FALSE]
  /\ res  = [p \in ProcsOf(pr) |-> <<>>]

Init == InitWith(Program)

Failed == LatchChecked /\ latch # "none"

\* --------------------------------------------------------------- application
\* the reader reads no further: the transport is closed or the peer's Close frame was handled
RStopped == closed \/ \E j \in 1..call["R"] : Code(prog.rd[j]) = "close"

\* ... and it may read no further once a default handler's write failed on the transport (the handler hands
\* the error to the read loop, which the application then leaves - or swallows it: the library's business)
RMayStop == "R" \in Procs /\ (RStopped \/ \E j \in 1..Len(res["R"]) : res["R"][j].r = "other" /\ IsDflt(prog.rd[j]))

\* the application calls WriteMessage / NextWriter.., WriteControl or Close;
\* for R: a Ping / Close frame of the peer reaches its handler on the reading goroutine
Begin(p) ==
  /\ pc[p] = "idle" /\ call[p] < NCalls(p)
  /\ p = "R" => ~RStopped
  /\ call' = [call EXCEPT ![p] = @ + 1]
  /\ pc'   = [pc EXCEPT ![p] = IF p = "D" THEN "prep" ELSE IF p = "X" THEN "close"
                                ELSE IF p = "R" /\ ~HandlerControlPath THEN "pre" ELSE "acq"]
  /\ err'  = [err EXCEPT ![p] = "nil"]
  /\ late' = [late EXCEPT ![p] = CloseOnWire]
  /\ fr' = IF p = "D" THEN 1 ELSE fr
  /\ UNCHANGED <<prog, lock, latch, closed, wire, hp, res>>

\* D's application goes on with the open message (next Write / Close of the message writer)
Resume ==
  /\ pc["D"] = "app"
  /\ hp' = hp - 1
  /\ pc' = [pc EXCEPT !["D"] = IF hp = 1 THEN "acq" ELSE "app"]
  /\ UNCHANGED <<prog, lock, latch, closed, wire, call, fr, err, late, res>>

\* where D goes before frame f of its message: to the application if that pauses, else to the flush
ToFrame(f) == IF prog.hold[call["D"]][f] > 0 THEN "app" ELSE "acq"

\* ------------------------------------------------------------------ library
\* prepWrite: the sticky error is read before a message, without the lock
Prep ==
  /\ pc["D"] = "prep"
  /\ IF Failed THEN /\ err' = [err EXCEPT !["D"] = latch]
                    /\ pc'  = [pc EXCEPT !["D"] = "ret"]
               ELSE /\ pc'  = [pc EXCEPT !["D"] = ToFrame(1)]
                    /\ UNCHANGED err
  /\ hp' = prog.hold[call["D"]][1]
  /\ UNCHANGED <<prog, lock, latch, closed, wire, call, fr, late, res>>

\* <-c.mu (write) / select { case <-c.mu: .. } (WriteControl; its deadline is far away)
Acquire(p) ==
  /\ pc[p] = "acq"
  /\ IF p = "D" \/ ControlTakesLock
       THEN lock = NoProc /\ lock' = p
       ELSE UNCHANGED lock
  /\ pc' = [pc EXCEPT ![p] = "chk"]
  /\ UNCHANGED <<prog, latch, closed, wire, call, fr, hp, err, late, res>>

\* case <-timer.C: return errWriteTimeout   (only a call with a short deadline gets here).
\* Deviation TimeoutReleases: the deferred `c.mu <- true` runs although the lock was never
\* taken; with the channel empty (somebody holds the lock) the send succeeds and the lock
\* looks free while its holder is still writing; with the channel full the send blocks.
Timeout(p) ==
  /\ p \in CProcs /\ pc[p] = "acq" /\ Bounded(p) /\ ControlTakesLock
  /\ IF TimeoutReleases THEN lock # NoProc /\ lock' = NoProc ELSE UNCHANGED lock
  /\ err' = [err EXCEPT ![p] = "timeout"]
  /\ pc'  = [pc EXCEPT ![p] = "ret"]
  /\ UNCHANGED <<prog, latch, closed, wire, call, fr, hp, late, res>>

\* the sticky error is read again under the lock, before anything is written
Check(p) ==
  /\ pc[p] = "chk"
  /\ IF Failed THEN /\ err' = [err EXCEPT ![p] = latch]
                    /\ pc'  = [pc EXCEPT ![p] = "rel"]
               ELSE /\ pc'  = [pc EXCEPT ![p] = IF p = "D" THEN "hdr" ELSE "ctl"]
                    /\ UNCHANGED err
  /\ UNCHANGED <<prog, lock, latch, closed, wire, call, fr, hp, late, res>>

Entry(p) == IF pc[p] = "steal"     \* (deviation) D's buffered bytes, flushed by R as a frame of D's message
              THEN [proc |-> p, call |-> call["D"], frame |-> fr, part |-> "hdr"]
              ELSE [proc |-> p, call |-> call[p], frame |-> IF p = "D" THEN fr ELSE PartsDone(p) + 1, part |-> pc[p]]

\* one net.Conn.Write.  On failure writeFatal(err) latches it (first error wins) - after the
\* transport call has returned: a call that begins in between still finds the latch open
TWrite(p) ==
  /\ pc[p] \in {"hdr", "extra", "ctl", "cext", "steal"}
  /\ closed \/ FaultOf(p) = {}
  /\ IF closed
       THEN /\ err'   = [err EXCEPT ![p] = "other"]
            /\ pc'    = [pc EXCEPT ![p] = "fatal"]
            /\ UNCHANGED <<wire, latch>>
       ELSE /\ wire' = Append(wire, Entry(p))
            /\ IF pc[p] = "steal"
                 THEN \* (deviation) the message writer D had open is closed behind its back
                      /\ pc'  = [pc EXCEPT ![p] = "srel", !["D"] = "ret"]
                      /\ err' = [err EXCEPT !["D"] = "other"]
                      /\ UNCHANGED latch
                 ELSE /\ pc' = [pc EXCEPT ![p] =
                           CASE pc[p] = "hdr" /\ Msg[fr]  -> IF FlushAtomic THEN "extra" ELSE "rel1"
                             [] pc[p] = "hdr" /\ ~Msg[fr] -> IF IsDClose(call["D"]) THEN "latch" ELSE "rel"
                             [] pc[p] = "extra"           -> "rel"
                             [] pc[p] \in {"ctl", "cext"} ->     \* the latch is set after the LAST part
                                  IF PartsDone(p) + 1 < CParts(p, call[p]) THEN "cext"
                                  ELSE IF Op(p) = "close" THEN "latch" ELSE "rel"]
                      /\ UNCHANGED <<latch, err>>
  /\ UNCHANGED <<prog, lock, closed, call, fr, hp, late, res>>

\* one net.Conn.Write that fails although the transport is open (prog.fault): a prefix of the bytes is on
\* the wire; the error is latched like any other (deviation: not if it is a timeout)
TFault(p) ==
  /\ pc[p] \in {"hdr", "extra", "ctl", "cext"} /\ ~closed /\ FaultOf(p) # {}
  /\ LET f == prog.fault[CHOOSE i \in FaultOf(p) : TRUE] IN
       /\ wire' = IF f.some THEN Append(wire, [Entry(p) EXCEPT !.part = @ \o "!"]) ELSE wire
       /\ err'  = [err EXCEPT ![p] = "other"]
       /\ pc'   = [pc EXCEPT ![p] = IF f.kind = "timeout" /\ ~TimeoutFaultLatches THEN "rel" ELSE "fatal"]
  /\ UNCHANGED <<prog, lock, latch, closed, call, fr, hp, late, res>>

\* return c.writeFatal(err)   (still under the lock)
Fatal(p) ==
  /\ pc[p] = "fatal"
  /\ latch' = IF latch = "none" THEN "other" ELSE latch
  /\ pc' = [pc EXCEPT ![p] = "rel"]
  /\ UNCHANGED <<prog, lock, closed, wire, call, fr, hp, err, late, res>>

\* if frameType == CloseMessage { c.writeFatal(ErrCloseSent) }   (still under the lock)
SetLatch(p) ==
  /\ pc[p] = "latch"
  /\ latch' = IF CloseLatches /\ latch = "none" THEN "closesent" ELSE latch
  /\ pc' = [pc EXCEPT ![p] = "rel"]
  /\ UNCHANGED <<prog, lock, closed, wire, call, fr, hp, err, late, res>>

\* c.mu <- true; D goes on with the next frame of the message unless the frame failed
Release(p) ==
  /\ pc[p] = "rel"
  /\ lock' = IF lock = p THEN NoProc ELSE lock
  /\ IF p = "D" /\ err[p] = "nil" /\ fr < Len(Msg)
       THEN fr' = fr + 1 /\ pc' = [pc EXCEPT ![p] = ToFrame(fr + 1)] /\ hp' = prog.hold[call["D"]][fr + 1]
       ELSE UNCHANGED <<fr, hp>> /\ pc' = [pc EXCEPT ![p] = "ret"]
  /\ UNCHANGED <<prog, latch, closed, wire, call, err, late, res>>

\* deviation FlushAtomic = FALSE: the lock is given up between header and extra
Rel1 ==
  /\ pc["D"] = "rel1"
  /\ lock' = NoProc
  /\ pc' = [pc EXCEPT !["D"] = "acq2"]
  /\ UNCHANGED <<prog, latch, closed, wire, call, fr, hp, err, late, res>>
Acq2 ==
  /\ pc["D"] = "acq2" /\ lock = NoProc
  /\ lock' = "D"
  /\ IF Failed THEN /\ err' = [err EXCEPT !["D"] = latch]
                    /\ pc'  = [pc EXCEPT !["D"] = "rel"]
               ELSE /\ pc'  = [pc EXCEPT !["D"] = "extra"]
                    /\ UNCHANGED err
  /\ UNCHANGED <<prog, latch, closed, wire, call, fr, hp, late, res>>

\* deviation HandlerControlPath = FALSE: the handler's answer goes through WriteMessage, whose
\* prepWrite closes the message writer that is open - D's, if D is between two flushes - by
\* flushing what is buffered as a final frame (under the lock), and only then sends the answer
DOpen == pc["D"] \in {"app", "acq"}
Pre ==
  /\ pc["R"] = "pre"
  /\ IF DOpen THEN /\ lock = NoProc /\ lock' = "R"
                    /\ pc' = [pc EXCEPT !["R"] = "steal"]
               ELSE /\ pc' = [pc EXCEPT !["R"] = "acq"]
                    /\ UNCHANGED lock
  /\ UNCHANGED <<prog, latch, closed, wire, call, fr, hp, err, late, res>>
SRel ==
  /\ pc["R"] = "srel"
  /\ lock' = NoProc
  /\ pc' = [pc EXCEPT !["R"] = "acq"]
  /\ UNCHANGED <<prog, latch, closed, wire, call, fr, hp, err, late, res>>

\* Conn.Close: c.conn.Close(), no lock, no latch
XClose ==
  /\ "X" \in Procs /\ pc["X"] = "close"
  /\ closed' = TRUE
  /\ pc' = [pc EXCEPT !["X"] = "ret"]
  /\ UNCHANGED <<prog, lock, latch, wire, call, fr, hp, err, late, res>>

Return(p) ==
  /\ pc[p] = "ret"
  /\ res' = [res EXCEPT ![p] = Append(@, [r |-> err[p], late |-> late[p]])]
  /\ pc'  = [pc EXCEPT ![p] = "idle"]
  /\ UNCHANGED <<prog, lock, latch, closed, wire, call, fr, hp, err, late>>

\* steps the transport does not see
Steady(p)   == \/ (p = "D" /\ (Prep \/ Rel1 \/ Acq2))
               \/ (p = "R" /\ (Pre \/ SRel))
               \/ Acquire(p) \/ Check(p) \/ SetLatch(p) \/ Fatal(p) \/ Release(p) \/ Return(p)
Internal(p) == Steady(p) \/ Timeout(p)

Done == \A p \in Procs : pc[p] = "idle" /\ (call[p] = NCalls(p) \/ (p = "R" /\ RMayStop))

Next == \/ \E p \in Procs : Begin(p) \/ TWrite(p) \/ TFault(p) \/ Internal(p)
        \/ Resume
        \/ XClose
        \/ (Done /\ UNCHANGED vars)

Spec == Init /\ [][Next]_vars

\* --------------------------------------------------------------- properties
TypeOK ==
  /\ lock \in Procs \cup {NoProc}
  /\ latch \in {"none", "closesent", "other"}
  /\ closed \in BOOLEAN
  /\ \A i \in 1..Len(wire) : /\ wire[i].proc \in Procs \ {"X"}
                             /\ wire[i].part \in {"hdr", "extra", "ctl", "cext", "hdr!", "extra!", "ctl!", "cext!"}
  /\ hp \in Nat /\ (pc["D"] = "app" => hp > 0)
  /\ \A p \in Procs : /\ call[p] \in 0..NCalls(p)
                      /\ Len(res[p]) \in {call[p], call[p] - 1}

\* the lock is held exactly inside the critical sections
LockOK == /\ lock # NoProc => pc[lock] \in {"chk", "hdr", "extra", "ctl", "cext", "latch", "fatal", "rel", "rel1", "steal", "srel"}
          /\ pc["D"] \in {"chk", "hdr", "extra", "rel1"} => lock = "D"

\* the transport writes of one frame are adjacent: a header that needs `extra` is
\* followed by it (or is, so far / for ever after Close, the last write), and no
\* `extra` stands anywhere else
\* a frame that a failed transport write left incomplete is the end of the wire: the cut part follows the
\* parts of its frame written before and nothing follows it
CutIsLastAt(i) ==
  IsCut(wire[i]) =>
    /\ i = Len(wire)
    /\ wire[i].part = "extra!" => (i > 1 /\ wire[i - 1] = [wire[i] EXCEPT !.part = "hdr"])
    /\ wire[i].part = "cext!"  => /\ i > 1 /\ wire[i].frame > 1
                                  /\ wire[i - 1] = [wire[i] EXCEPT !.frame = @ - 1,
                                                       !.part = IF wire[i].frame = 2 THEN "ctl" ELSE "cext"]
    /\ wire[i].part = "ctl!" => wire[i].frame = 1
CutIsLast == \A i \in 1..Len(wire) : CutIsLastAt(i)

WholeFrames ==
  \A i \in 1..Len(wire) :
    /\ (wire[i].part = "hdr" /\ HasExtra(wire[i]) /\ i < Len(wire))
          => wire[i + 1] \in {[wire[i] EXCEPT !.part = "extra"], [wire[i] EXCEPT !.part = "extra!"]}
    /\ wire[i].part = "extra" => (i > 1 /\ wire[i - 1] = [wire[i] EXCEPT !.part = "hdr"])
    \* the same for the parts of a control frame
    /\ (IsCtl(wire[i]) /\ wire[i].frame < CParts(wire[i].proc, wire[i].call) /\ i < Len(wire))
          => wire[i + 1] \in {[wire[i] EXCEPT !.part = "cext", !.frame = @ + 1], [wire[i] EXCEPT !.part = "cext!", !.frame = @ + 1]}
    /\ wire[i].part = "cext" => /\ i > 1 /\ wire[i].frame > 1
                                /\ wire[i - 1] = [wire[i] EXCEPT !.frame = @ - 1,
                                                     !.part = IF wire[i].frame = 2 THEN "ctl" ELSE "cext"]
    /\ wire[i].part = "ctl" => wire[i].frame = 1
    /\ CutIsLastAt(i)

\* the frames of a data message are exactly what the data writer wrote: every transport write
\* that carries (part of) a data frame is D's, every one that carries (part of) a control frame is its
\* sender's (how many writes a frame takes is the library's business)
MsgIntact ==
  \A i \in 1..Len(wire) : IsCtl(wire[i]) = (wire[i].proc \in CProcs)

\* nothing reaches the wire after a Close frame
AfterCloseWire == \A i \in 1..Len(wire) : IsClose(wire[i]) =>
                     \A j \in (i + 1)..Len(wire) : /\ wire[j].part \in {"cext", "cext!"} /\ wire[i].proc # "D"
                                                   /\ wire[j].proc = wire[i].proc /\ wire[j].call = wire[i].call

\* a write call that began when a Close frame was on the wire fails with close-sent
\* (a control write with a short deadline may instead have given up waiting for the lock)
ShortCall(p, j) == p \in CProcs /\ (IsShort(CtlSeq(p)[j]) \/ IsDflt(CtlSeq(p)[j]))
AfterCloseRes ==
  \A p \in Procs \ {"X"} : \A j \in 1..Len(res[p]) :
     res[p][j].late => \/ res[p][j].r = "closesent"
                       \/ res[p][j].r = "timeout" /\ ShortCall(p, j)

AfterClose == AfterCloseWire /\ AfterCloseRes

\* data frames reach the wire in program order and without a gap (errors are sticky)
DataHdrs == SelectSeq(wire, LAMBDA e : e.part = "hdr")
InOrder ==
  LET ds == DataHdrs IN
  \A i \in 1..Len(ds) :
    IF i = 1 THEN ds[i].call = 1 /\ ds[i].frame = 1
    ELSE \/ ds[i].call = ds[i - 1].call /\ ds[i].frame = ds[i - 1].frame + 1
         \/ /\ ds[i].call = ds[i - 1].call + 1 /\ ds[i].frame = 1
            /\ ds[i - 1].frame = Len(prog.msgs[ds[i - 1].call])

OnWire(e) == \E i \in 1..Len(wire) : wire[i] = e
\* a call that returned nil has all its transport writes on the wire
ResultsHonest ==
  /\ \A j \in 1..Len(res["D"]) : res["D"][j].r = "nil" =>
        \A f \in 1..Len(prog.msgs[j]) :
          /\ OnWire([proc |-> "D", call |-> j, frame |-> f, part |-> "hdr"])
          /\ prog.msgs[j][f] => OnWire([proc |-> "D", call |-> j, frame |-> f, part |-> "extra"])
  /\ \A p \in CProcs : \A j \in 1..Len(res[p]) : res[p][j].r = "nil" =>
        \A k \in 1..CParts(p, j) :
          OnWire([proc |-> p, call |-> j, frame |-> k, part |-> IF k = 1 THEN "ctl" ELSE "cext"])
  /\ \A p \in Procs : \A j \in 1..Len(res[p]) :
        \/ res[p][j].r \in {"nil", "closesent", "other"}
        \/ /\ res[p][j].r = "timeout" /\ ShortCall(p, j)      \* gave up: nothing of it on the wire
           /\ ~OnWire([proc |-> p, call |-> j, frame |-> 1, part |-> "ctl"])

\* the messages that are completely on the wire (a prefix 1..n by InOrder)
CompleteMsgs ==
  {m \in 1..Len(prog.msgs) : ~IsDClose(m) /\
     \A f \in 1..Len(prog.msgs[m]) :
       /\ OnWire([proc |-> "D", call |-> m, frame |-> f, part |-> "hdr"])
       /\ prog.msgs[m][f] => OnWire([proc |-> "D", call |-> m, frame |-> f, part |-> "extra"])}
=============================================================================
