SPECIFICATION Spec
CONSTANTS
  Program <- McBig
  ControlTakesLock = TRUE
  FlushAtomic = TRUE
  LatchChecked = TRUE
  CloseLatches = TRUE
  TimeoutReleases = FALSE
INVARIANTS TypeOK LockOK WholeFrames AfterClose InOrder ResultsHonest
CHECK_DEADLOCK FALSE
