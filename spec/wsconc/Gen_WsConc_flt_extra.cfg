INIT GenInit
NEXT GenNext
CONSTANTS
  Program <- GenProgram
  Role = "server"
  WBuf = 256
  Shapes <- S_wmL_wmS
  Ctl <- C_ping_pong
  Closer = TRUE
  Rd <- R_none
  Fault <- F_D1extra0_e
  ControlTakesLock = TRUE
  FlushAtomic = TRUE
  LatchChecked = TRUE
  CloseLatches = TRUE
  TimeoutReleases = FALSE
  HandlerControlPath = TRUE
  TimeoutFaultLatches = TRUE
  Fifo = TRUE
  OnlyBad = FALSE
  Family = "flt_extra"
INVARIANT Emit
CHECK_DEADLOCK FALSE
