INIT GenInit
NEXT GenNext
CONSTANTS
  Program <- GenProgram
  Role = "client"
  WBuf = 256
  Shapes <- S_wmL_wmS
  Ctl <- C_ping_close
  Closer = TRUE
  Rd <- R_none
  Fault <- F_none
  ControlTakesLock = TRUE
  FlushAtomic = TRUE
  LatchChecked = TRUE
  CloseLatches = TRUE
  TimeoutReleases = FALSE
  HandlerControlPath = TRUE
  TimeoutFaultLatches = TRUE
  Fifo = TRUE
  OnlyBad = FALSE
  Family = "client"
INVARIANT Emit
CHECK_DEADLOCK FALSE
