INIT GenInit
NEXT GenNext
CONSTANTS
  Program <- GenProgram
  Role = "client"
  WBuf = 256
  Shapes <- S_wmL_wmS
  Ctl <- C_ping_close
  Closer = TRUE
  ControlTakesLock = TRUE
  FlushAtomic = TRUE
  LatchChecked = TRUE
  CloseLatches = TRUE
  TimeoutReleases = FALSE
  Fifo = TRUE
  OnlyBad = FALSE
  Family = "client"
INVARIANT Emit
CHECK_DEADLOCK FALSE
