INIT GenInit
NEXT GenNextSim
CONSTANTS
  Program <- GenProgram
  Role = "server"
  WBuf = 256
  Shapes <- S_nwLL_wmL
  Ctl <- C_ping2_close_pong2
  Closer = TRUE
  ControlTakesLock = TRUE
  FlushAtomic = TRUE
  LatchChecked = TRUE
  CloseLatches = TRUE
  Fifo = TRUE
  OnlyBad = FALSE
  Family = "sim"
INVARIANT Emit
CHECK_DEADLOCK FALSE
