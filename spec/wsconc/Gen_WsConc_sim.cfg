INIT GenInit
NEXT GenNextSim
CONSTANTS
  Program <- GenProgram
  Role = "server"
  WBuf = 256
  Shapes <- S_nwLL_wmL
  Ctl <- C_mixS
  Closer = TRUE
  Rd <- R_none
  Fault <- F_none
  ControlTakesLock = TRUE
  FlushAtomic = TRUE
  LatchChecked = TRUE
  CloseLatches = TRUE
  TimeoutReleases = FALSE
  HandlerControlPath = TRUE
  TimeoutFaultLatches = TRUE
  Fifo = TRUE
  OnlyBad = FALSE
  Family = "sim"
INVARIANT Emit
CHECK_DEADLOCK FALSE
