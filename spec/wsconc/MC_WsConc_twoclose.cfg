SPECIFICATION Spec
CONSTANTS
  Program <- McTwoClose
  ControlTakesLock = TRUE
  FlushAtomic = TRUE
  LatchChecked = TRUE
  CloseLatches = TRUE
INVARIANTS TypeOK LockOK WholeFrames AfterClose InOrder ResultsHonest
CHECK_DEADLOCK FALSE
