INIT GenInit
NEXT GenNext
CONSTANTS
  Program <- GenProgram
  Role = "server"
  WBuf = 256
  Shapes <- S_wmL_wmS
  Ctl <- C_close_ping
  Closer = FALSE
  Rd <- R_none
  Fault <- F_none
  ControlTakesLock = TRUE
  FlushAtomic = TRUE
  LatchChecked = FALSE
  CloseLatches = TRUE
  TimeoutReleases = FALSE
  HandlerControlPath = TRUE
  TimeoutFaultLatches = TRUE
  Fifo = TRUE
  OnlyBad = TRUE
  Family = "atk_nocheck"
INVARIANT Emit
CHECK_DEADLOCK FALSE
