SPECIFICATION Spec
CONSTANTS
  Program <- McTimeout
  ControlTakesLock = TRUE
  FlushAtomic = TRUE
  LatchChecked = TRUE
  CloseLatches = TRUE
  TimeoutReleases = TRUE
  HandlerControlPath = TRUE
  TimeoutFaultLatches = TRUE
INVARIANTS TypeOK WholeFrames
CHECK_DEADLOCK FALSE
