INIT GenInit
NEXT GenNext
CONSTANTS
  Program <- GenProgram
  Role = "server"
  WBuf = 256
  Shapes <- S_kc_pm
  Ctl <- C_close
  Closer = FALSE
  Rd <- R_none
  Fault <- F_none
  ControlTakesLock = TRUE
  FlushAtomic = TRUE
  LatchChecked = TRUE
  CloseLatches = TRUE
  TimeoutReleases = FALSE
  HandlerControlPath = TRUE
  TimeoutFaultLatches = TRUE
  Fifo = TRUE
  OnlyBad = FALSE
  Family = "kc_pm"
INVARIANT Emit
CHECK_DEADLOCK FALSE
