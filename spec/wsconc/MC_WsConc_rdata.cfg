SPECIFICATION Spec
CONSTANTS
  Program <- McReader
  ControlTakesLock = TRUE
  FlushAtomic = TRUE
  LatchChecked = TRUE
  CloseLatches = TRUE
  TimeoutReleases = FALSE
  HandlerControlPath = FALSE
INVARIANTS TypeOK MsgIntact
CHECK_DEADLOCK FALSE
