SPECIFICATION Spec
CONSTANTS
  Program <- McReader
  ControlTakesLock = TRUE
  FlushAtomic = TRUE
  LatchChecked = TRUE
  CloseLatches = TRUE
  TimeoutReleases = FALSE
  HandlerControlPath = FALSE
  TimeoutFaultLatches = TRUE
INVARIANTS TypeOK MsgIntact
CHECK_DEADLOCK FALSE
