--------------------------- MODULE Trace_WsConc ---------------------------
(* Trace validation (code -> model) for C15: is a recorded execution of the   *)
(* real websocket.Conn over the gated transport a behaviour of WsConc that    *)
(* satisfies WholeFrames, AfterClose and InOrder?                             *)
(*                                                                            *)
(* trace.ndjson holds one line per schedule:                                  *)
(*   {"case":n, "prog":{"msgs":[[b,..],..],"hold":[[n,..],..],"ctl":[[op,..],..],*)
(*                      "rd":[op,..],"cx":[{"p":proc,"c":call,"n":parts},..], *)
(*                      "fault":[{"p":proc,"c":call,"k":write,"some":b,"kind":s},..],*)
(*                      "closer":b},                                          *)
(*    "ev":[event,..], "frames":[{"cls":c,"w0":i,"w1":j},..], "delivered":[m,..]} *)
(* An event has the fields ev, proc, call, frame, part, cls, ok, res, cut:    *)
(*   begin   the application of `proc` makes call number `call` (recorded by  *)
(*           the scheduler BEFORE the goroutine is told to make the call; for *)
(*           R: before the peer's frame is put on the transport)              *)
(*   resume  the application of D, which had paused with its message open,    *)
(*           is let go on (recorded by the scheduler before it does)          *)
(*   twrite  one net.Conn.Write of `proc`, in the transport's total order;    *)
(*           frame/part in {"hdr","extra","ctl","cext"} from the tokenisation of the *)
(*           process' own byte stream, cls the class of the frame header      *)
(*           ("first", "cont" [+"+fin"], "ping", "pong", "close"; "raw" for   *)
(*           an extra; "bad"/"foreign.." never accepted); ok = it succeeded   *)
(*           cut = "some"/"none" (else ""): the write FAILED with the         *)
(*           transport open after a non-empty / empty prefix was accepted     *)
(*   close   net.Conn.Close by `proc`, same total order                       *)
(*   ret     call number `call` of `proc` returned class `res` ("nil",        *)
(*           "closesent", "timeout", "other"; "any" for a default handler of  *)
(*           the package, which does not show its result; recorded some       *)
(*           time AFTER it returned: accepted once the model's call returned) *)
(*   end     every goroutine is back                                          *)
(* frames  = the replayer's RFC 6455 tokenizer over the concatenated bytes of *)
(*           the successful writes: class and first/last write of each frame  *)
(* delivered = the data messages a real peer Conn delivered, named by content *)
(*           (0 = not the payload of any message sent)                        *)
(*                                                                            *)
(* Observed events are matched by the actions of WsConc; the steps the        *)
(* transport does not see (Prep, Acquire, Check, SetLatch, Fatal, Release,    *)
(* Return) are interleaved freely.  A schedule is accepted iff all its events *)
(* are consumed.  Every schedule is an initial state of ONE TLC run; the          *)
(* high-water mark of consumed events per schedule is kept with TLCSet (run   *)
(* with -workers 1) and reported by the POSTCONDITION as                      *)
(*   <<"TRACE", "[[consumed, total], ...]">>.                                 *)
EXTENDS WsConc, Json

VARIABLES s,    \* the schedule
          i     \* index of its next event
tvars == <<vars, s, i>>

Trace == ndJsonDeserialize("trace.ndjson")
Ev(k) == Trace[s].ev[k]
Max(a, b) == IF a >= b THEN a ELSE b

\* the class of frame header the contract predicts for the write process p is about to make
DataCls(m, f) == IF IsDClose(m) THEN "close" ELSE (IF f = 1 THEN "first" ELSE "cont") \o (IF f = Len(prog.msgs[m]) THEN "+fin" ELSE "")
WriteCls(p) == IF pc[p] \in {"extra", "cext"} THEN "raw"
               ELSE IF p = "D" THEN DataCls(call[p], fr) ELSE Op(p)

TBegin(e) == /\ e.ev = "begin"
             /\ e.proc \in Procs
             /\ Begin(e.proc)
             /\ call'[e.proc] = e.call

TWriteEv(e) == /\ e.ev = "twrite"
               /\ e.proc \in Procs \ {"X"}
               /\ pc[e.proc] \in {"hdr", "extra", "ctl", "cext"}
               /\ e.part = pc[e.proc]
               /\ e.call = call[e.proc]
               /\ e.frame = (IF e.proc = "D" THEN fr ELSE PartsDone(e.proc) + 1)
               /\ e.cls = WriteCls(e.proc)
               /\ IF e.cut = ""
                    THEN e.ok = ~closed /\ TWrite(e.proc)
                    ELSE /\ ~e.ok /\ FaultOf(e.proc) # {}
                         /\ prog.fault[CHOOSE k \in FaultOf(e.proc) : TRUE].some = (e.cut = "some")
                         /\ TFault(e.proc)
               /\ WholeFrames' /\ AfterCloseWire' /\ InOrder' /\ MsgIntact'

TResume(e) == /\ e.ev = "resume"
              /\ e.proc = "D"
              /\ e.call = call["D"]
              /\ Resume

TCloseEv(e) == /\ e.ev = "close"
               /\ e.proc = "X"
               /\ XClose

TRet(e) == /\ e.ev = "ret"
           /\ e.proc \in Procs
           /\ Len(res[e.proc]) >= e.call
           /\ e.res # "any" =>
                 \/ res[e.proc][e.call].r = e.res
                 \* the error of a transport write that timed out - also as the sticky error of later calls - looks
                 \* like the write timeout error
                 \/ /\ e.res = "timeout" /\ res[e.proc][e.call].r = "other"
                    /\ \E k \in 1..Len(prog.fault) : prog.fault[k].kind = "timeout"
           /\ UNCHANGED vars

\* the frames the model's wire consists of (WholeFrames holds: guard of TWriteEv)
RECURSIVE ModelFrames(_)
ModelFrames(k) ==
  IF k > Len(wire) THEN <<>>
  ELSE LET e == wire[k] IN
       IF IsCut(e) THEN <<[cls |-> "partial", w0 |-> k, w1 |-> k]>>      \* (the last entry: CutIsLast)
       ELSE IF k < Len(wire) /\ IsCut(wire[Len(wire)]) /\ wire[Len(wire)].proc = e.proc /\ wire[Len(wire)].call = e.call
               /\ (e.proc = "D" => wire[Len(wire)].frame = e.frame)
         THEN <<[cls |-> "partial", w0 |-> k, w1 |-> Len(wire)]>>         \* the frame whose later part was cut
       ELSE
       IF e.part = "hdr" /\ HasExtra(e)
         THEN IF k < Len(wire)
                THEN <<[cls |-> DataCls(e.call, e.frame), w0 |-> k, w1 |-> k + 1]>> \o ModelFrames(k + 2)
                ELSE <<[cls |-> "partial", w0 |-> k, w1 |-> k]>>
       ELSE IF e.part = "hdr"
         THEN <<[cls |-> DataCls(e.call, e.frame), w0 |-> k, w1 |-> k]>> \o ModelFrames(k + 1)
       ELSE LET n == CParts(e.proc, e.call) IN    \* a control frame of n adjacent parts
            IF k + n - 1 <= Len(wire)
              THEN <<[cls |-> Code(CtlSeq(e.proc)[e.call]), w0 |-> k, w1 |-> k + n - 1]>> \o ModelFrames(k + n)
              ELSE <<[cls |-> "partial", w0 |-> k, w1 |-> Len(wire)]>>

\* the complete messages are a prefix 1..n of the program (InOrder)
Prefix(n) == [m \in 1..n |-> m]

TEnd(e) == /\ e.ev = "end"
           /\ Done /\ lock = NoProc
           /\ AfterCloseRes /\ ResultsHonest
           /\ Trace[s].frames = ModelFrames(1)
           /\ Trace[s].delivered = Prefix(Cardinality(CompleteMsgs))
           /\ UNCHANGED vars

TInit == /\ s \in 1..Len(Trace)
         /\ i = 1
         /\ InitWith(Trace[s].prog)
         /\ TLCSet(s, 0)

TNext == \/ /\ i <= Len(Trace[s].ev)
            /\ LET e == Ev(i) IN TBegin(e) \/ TResume(e) \/ TWriteEv(e) \/ TCloseEv(e) \/ TRet(e) \/ TEnd(e)
            /\ i' = i + 1 /\ s' = s
            /\ TLCSet(s, Max(TLCGet(s), i))
         \/ /\ \E p \in Procs : Internal(p)
            /\ UNCHANGED <<s, i>>

TSpec == TInit /\ [][TNext]_tvars

Accepted == PrintT(<<"TRACE", ToJson([k \in 1..Len(Trace) |-> <<TLCGet(k), Len(Trace[k].ev)>>])>>)
=============================================================================
