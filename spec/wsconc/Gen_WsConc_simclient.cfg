INIT GenInit
NEXT GenNextSim
CONSTANTS
  Program <- GenProgram
  Role = "client"
  WBuf = 256
  Shapes <- S_nwL_wmL
  Ctl <- C_ping_close_pong
  Closer = TRUE
  Rd <- R_none
  Fault <- F_none
  ControlTakesLock = TRUE
  FlushAtomic = TRUE
  LatchChecked = TRUE
  CloseLatches = TRUE
  TimeoutReleases = FALSE
  HandlerControlPath = TRUE
  TimeoutFaultLatches = TRUE
  Fifo = TRUE
  OnlyBad = FALSE
  Family = "simclient"
INVARIANT Emit
CHECK_DEADLOCK FALSE
