INIT GenInit
NEXT GenNext
CONSTANTS
  Program <- GenProgram
  Role = "server"
  WBuf = 256
  Shapes <- S_wmC_wmS
  Ctl <- C_ping
  Closer = FALSE
  Rd <- R_none
  Fault <- F_none
  ControlTakesLock = TRUE
  FlushAtomic = TRUE
  LatchChecked = TRUE
  CloseLatches = FALSE
  TimeoutReleases = FALSE
  HandlerControlPath = TRUE
  TimeoutFaultLatches = TRUE
  Fifo = TRUE
  OnlyBad = TRUE
  Family = "atk_dnolatch"
INVARIANT Emit
CHECK_DEADLOCK FALSE
