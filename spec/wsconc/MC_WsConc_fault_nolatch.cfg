SPECIFICATION Spec
CONSTANTS
  Program <- McFault
  ControlTakesLock = TRUE
  FlushAtomic = TRUE
  LatchChecked = TRUE
  CloseLatches = TRUE
  TimeoutReleases = FALSE
  HandlerControlPath = TRUE
  TimeoutFaultLatches = FALSE
INVARIANTS TypeOK CutIsLast
CHECK_DEADLOCK FALSE
