SPECIFICATION Spec
CONSTANTS
  Program <- McMain
  ControlTakesLock = TRUE
  FlushAtomic = FALSE
  LatchChecked = TRUE
  CloseLatches = TRUE
  TimeoutReleases = FALSE
  HandlerControlPath = TRUE
  TimeoutFaultLatches = TRUE
INVARIANTS TypeOK WholeFrames
CHECK_DEADLOCK FALSE
