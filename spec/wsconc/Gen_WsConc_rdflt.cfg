INIT GenInit
NEXT GenNext
CONSTANTS
  Program <- GenProgram
  Role = "server"
  WBuf = 256
  Shapes <- S_nwSLp_wmL
  Ctl <- C_ping
  Closer = FALSE
  Rd <- R_pongD_closeD
  Fault <- F_none
  ControlTakesLock = TRUE
  FlushAtomic = TRUE
  LatchChecked = TRUE
  CloseLatches = TRUE
  TimeoutReleases = FALSE
  HandlerControlPath = TRUE
  TimeoutFaultLatches = TRUE
  Fifo = TRUE
  OnlyBad = FALSE
  Family = "rdflt"
INVARIANT Emit
CHECK_DEADLOCK FALSE
