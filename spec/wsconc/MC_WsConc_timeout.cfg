SPECIFICATION Spec
CONSTANTS
  Program <- McTimeout
  ControlTakesLock = TRUE
  FlushAtomic = TRUE
  LatchChecked = TRUE
  CloseLatches = TRUE
  TimeoutReleases = FALSE
INVARIANTS TypeOK LockOK WholeFrames AfterClose InOrder ResultsHonest
CHECK_DEADLOCK FALSE
