--------------------------- MODULE Gen_RateLimiter ---------------------------
(* Behaviour generation: every behaviour of the limiter specification over an *)
(* alphabet, to a fixed number of actions, with what the specification says   *)
(* every call returns.  One JSON object per behaviour:                        *)
(*   fam      family name                                                     *)
(*   unit     units per token;  tick_ms  milliseconds per tick                *)
(*   burst    tokens;  limit0  the limit the limiter is created with, in      *)
(*            units per tick (-1: Inf)                                        *)
(*   mono, noinf, crossed   the ghost flags at the end of the behaviour       *)
(*   bound    the token-bucket bound over the Allow grants holds at the end    *)
(*   h        one entry per call, t = the `now` passed (ticks):               *)
(*     <<0, t, n, ok>>               AllowN(t, n) returns ok (1/0)            *)
(*     <<1, t, n, ok, num, den, id>> ReserveN(t, n): OK() = ok, DelayFrom(t)  *)
(*                                   = num/den ticks; ok = 0: InfDuration;    *)
(*                                   ok = 2: no finite delay exists (limit 0) *)
(*                                   - not OK, or a delay of InfDuration;     *)
(*                                   id: index of the reservation             *)
(*     <<2, t, id>>                  reservation id: CancelAt(t)              *)
(*     <<3, t, l>>                   SetLimitAt(t, l)                         *)
(*     <<4, t, id, d>>               reservation id: DelayFrom(t) = d ticks   *)
(*                                   (-1: InfDuration)                        *)
(*     <<5, t, n, num, den>>         final probe: ReserveN(t, n = burst) is   *)
(*                                   OK with delay num/den ticks - reveals    *)
(*                                   the bucket's content exactly             *)
(*     <<6, t, k>>                   final probe under limit 0: AllowN(t, k)  *)
(*                                   is true (k > 0), then AllowN(t, 1) false *)
(*     <<7>>                         no probe (Inf, burst 0, or halted)       *)
EXTENDS MC_RateLimiter, TLC, Json

CONSTANTS Family, TickMs,
          Kinds    \* the calls of this family (a subset of "allow", "reserve", "cancel", "delay", "setlimit")
VARIABLES hist, done, limit0
gvars == <<vars, hist, done, limit0>>

GDtsQuick == {1, 8}
GDtsFwd   == {1, 3, 8, 24}
GDtsOdd   == {3, 24}
GDtsBack  == {-8, -1, 1, 8}
GDtsSim   == {-8, -1, 0, 1, 2, 3, 4, 8, 12, 24}
GDtsNone  == {}
Rate2     == {2}
Rates18   == {1, 8}
Rate1     == {1}
Rate8     == {8}
GDtsSimFwd == {0, 1, 2, 3, 4, 8, 12, 24}
RatesAll  == {1, 2, 8, Inf}
KAll      == {"allow", "reserve", "cancel", "delay", "setlimit"}
KNoDelay  == {"allow", "reserve", "cancel", "setlimit"}

B01(x) == IF x THEN 1 ELSE 0

EntryOf(r, t) ==
  CASE r.k = "allow"    -> <<0, t, r.n, B01(r.ok)>>
    [] r.k = "reserve"  -> <<1, t, r.n, IF r.num < 0 THEN 2 ELSE B01(r.ok), IF r.num < 0 THEN 0 ELSE r.num, r.den, r.id>>
    [] r.k = "cancel"   -> <<2, t, r.id>>
    [] r.k = "setlimit" -> <<3, t, r.lim>>
    [] r.k = "delay"    -> <<4, t, r.id, r.num>>

ProbeEntry ==
  IF halted \/ limit = Inf \/ burst = 0 THEN <<7>>
  ELSE IF limit = 0 THEN <<6, clock, IF Avail >= 0 THEN Avail \div Unit ELSE 0>>
  ELSE <<5, clock, burst, Deficit(burst), IF Deficit(burst) = 0 THEN 1 ELSE limit>>

GenInit == Init /\ hist = <<>> /\ done = FALSE /\ limit0 = limit

GenNext ==
  \/ /\ ~done
     /\ Next
     /\ ret'.k \in Kinds \cup {"advance"}
     /\ (ret.k = "advance" => ret'.k # "advance")     \* two clock steps in a row are one
     /\ hist' = IF ret'.k = "advance" THEN hist ELSE Append(hist, EntryOf(ret', clock'))
     /\ UNCHANGED <<done, limit0>>
  \/ /\ ~done /\ (nev = MaxEvents \/ halted)
     /\ done' = TRUE
     /\ hist' = Append(hist, ProbeEntry)
     /\ UNCHANGED <<vars, limit0>>

CaseOf == [fam |-> Family, unit |-> Unit, tick_ms |-> TickMs, burst |-> burst, limit0 |-> limit0,
           mono |-> B01(mono), noinf |-> B01(noInf), crossed |-> B01(crossed), bound |-> B01(BucketBound), h |-> hist]
Emit == done => PrintT(<<"CASE", ToJson(CaseOf)>>)
=============================================================================
