SPECIFICATION Spec
CONSTANTS
  Unit = 8
  Bursts = {2}
  Rates <- RatesZero
  SetRates <- RatesZero
  Ns = {1, 2}
  Dts <- DtsSmall
  MaxEvents = 4
  MaxRes = 1
  Deviation = "zero-limit-grants"
VIEW View
INVARIANTS ZeroLimitNoGrant
CHECK_DEADLOCK FALSE
