INIT GenInit
NEXT GenNext
CONSTANTS
  Unit = 8
  TickMs = 125
  Family = "back"
  Bursts = {2}
  Rates <- Rate2
  SetRates <- NoRates
  Ns = {1, 2}
  Dts <- GDtsBack
  MaxEvents = 5
  MaxRes = 2
  Kinds <- KNoDelay
  Deviation = "none"
INVARIANT Emit
CHECK_DEADLOCK FALSE
