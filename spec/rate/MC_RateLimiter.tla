--------------------------- MODULE MC_RateLimiter ---------------------------
(* Exhaustive checks of the documented guarantees on the specification.      *)
(* Unit = 8 units per token, a tick is 1/8 s: rate 1 = 1 token/s, 2 = 2      *)
(* tokens/s, 8 = 8 tokens/s (one token per tick).  Factored configurations:  *)
(*   fixed    one limit for the whole behaviour, monotone clock: every        *)
(*            invariant including the bound over all events                   *)
(*   setlimit SetLimitAt among the calls, finite limits (quick: and Inf)     *)
(*   inf      SetLimitAt between a finite limit and Inf                       *)
(*   back     the clock may go back between calls                            *)
(*   zero     limit 0 and burst 0                                            *)
EXTENDS RateLimiter

DtsFwd   == {1, 4, 8, 24}
DtsSmall == {1, 8}
DtsBack  == {-8, -1, 1, 8}
NoRates  == {}
RatesFin == {1, 2, 8}
RatesSet == {2, 8}
RatesInf == {2, Inf}
RatesSetInf == {2, 8, Inf}
RatesZero == {0, 2}
=============================================================================
