INIT GenInit
NEXT GenNext
CONSTANTS
  Unit = 8
  TickMs = 125
  Family = "fixed"
  Bursts = {1, 3}
  Rates <- RatesFin
  SetRates <- NoRates
  Ns = {1, 2}
  Dts <- GDtsQuick
  MaxEvents = 5
  MaxRes = 2
  Deviation = "none"
INVARIANT Emit
CHECK_DEADLOCK FALSE
