----------------------------- MODULE RateLimiter -----------------------------
(* Token-bucket rate limiter (https/time/rate, a fork of golang.org/x/time/rate). *)
(*                                                                            *)
(* Shaped like the implementation: the limiter's five fields (limit, burst,   *)
(* tokens, last, lastEvent) are the state, every entry point takes `now` as a *)
(* parameter (here: the environment's clock), one action per public call:     *)
(*   Advance(dt)  the caller's clock moves (dt < 0: the next call passes an   *)
(*                EARLIER `now` than the previous one; the code tolerates it)  *)
(*   Allow(n)     AllowN(now, n)            -> bool                           *)
(*   Reserve(n)   ReserveN(now, n)          -> Reservation{OK, DelayFrom}     *)
(*   Cancel(i)    res[i].CancelAt(now)                                        *)
(*   Query(i)     res[i].DelayFrom(now)     (pure)                            *)
(*   SetLimit(l)  SetLimitAt(now, l)                                          *)
(* and the pure helper advance(now) as the operators AdvLast / AdvTokens.     *)
(*                                                                            *)
(* Arithmetic.  Time is an integer number of ticks, tokens are fixed point:   *)
(* Unit units = 1 token, a limit is an integer number of units per tick (or   *)
(* Inf, or 0).  Every rate divides Unit.  The library computes in float64     *)
(* seconds; the replayer maps a tick to 125 ms and Unit to 8, so every        *)
(* quantity the library sees is a dyadic rational with a small numerator and  *)
(* its float arithmetic is exact.  A reservation's waiting time is            *)
(* deficit / limit ticks; Reserve is enabled only where that quotient is an   *)
(* integer (Exact), so the state stays integral.  The return value itself is   *)
(* carried as the fraction num/den and needs no such guard.                   *)
(*                                                                            *)
(* The zero time.Time of a fresh limiter's `last` is ZeroT, far enough in the *)
(* past for any positive rate to fill the bucket before the first call.       *)
EXTENDS Integers, Sequences, FiniteSets

CONSTANTS
  Unit,       \* units per token
  Bursts,     \* burst sizes (tokens) a limiter may be created with
  Rates,      \* limits a limiter may be created with: units per tick, 0, or Inf
  SetRates,   \* limits SetLimitAt may be called with ({}: the limit is fixed)
  Ns,         \* request sizes n (tokens) of Allow / Reserve
  Dts,        \* clock steps (ticks); negative: the clock goes back
  MaxEvents,  \* bound on the number of actions of a behaviour
  MaxRes,     \* bound on the number of reservations the caller obtains
  Deviation   \* "none", or a named wrong behaviour:
              \*  "cancel-due"        CancelAt restores the tokens of a reservation whose time to act has passed
              \*  "no-burst-cap"      advance() does not cap the refilled bucket at burst
              \*  "zero-limit-grants" with limit 0 an uncovered request of n <= burst tokens is granted at once
              \*                      (what the code does on amd64: float64 +Inf converts to a negative Duration)

Inf   == -1
ZeroT == -1000

ASSUME /\ Unit \in Nat \ {0}
       /\ \A r \in Rates \cup SetRates : r = Inf \/ (r \in Nat /\ (r > 0 => Unit % r = 0))
       /\ Bursts \subseteq Nat /\ Ns \subseteq Nat /\ Dts \subseteq Int

VARIABLES
  clock,      \* the `now` the caller passes to the next call
  limit, burst, tokens, last, lastEvent,   \* the Limiter
  res,        \* the caller's reservations, in order of creation:
              \*   [ok, n, tta (timeToAct), lim (limit at reservation time; 0 if made under Inf),
              \*    st: "held" | "cancelled" | "acted" (CancelAt came after the time to act: the event has happened),
              \*    ep (ghost: epoch at reservation time)]
  ret,        \* what the last action returned / observed
  nev,        \* number of actions so far
  halted,     \* the documentation says nothing about what follows (Reserve of uncovered tokens under limit 0)
  \* ---- history (ghost) variables for the token-bucket bound
  pot,        \* refill potential: integral of the limit over the clock's forward movement, in units
  grants,     \* <<time, pot, units>> of every Allow that returned TRUE with n > 0
  mono,       \* the clock never went back
  noInf,      \* the limit never was Inf
  fixed,      \* SetLimitAt never called
  epoch,      \* number of SetLimitAt calls
  crossed     \* a reservation obtained before the latest SetLimitAt was cancelled with effect

limv  == <<limit, burst, tokens, last, lastEvent>>
ghost == <<pot, grants, mono, noInf, fixed, epoch, crossed>>
vars  == <<clock, limv, res, ret, nev, halted, ghost>>

Min(a, b) == IF a < b THEN a ELSE b
Max(a, b) == IF a > b THEN a ELSE b
B == burst * Unit
Finite(l) == l # Inf /\ l > 0

NoRet == [k |-> "init", n |-> 0, ok |-> FALSE, num |-> 0, den |-> 1, id |-> 0, avail |-> 0, lim |-> 0]

\* --------------------------------------------------------------- advance(now)
\* "advance calculates and returns an updated state for lim resulting from the passage of time"
AdvLast(now) == IF now < last THEN now ELSE last
Refill(now)  == IF Finite(limit) THEN (now - AdvLast(now)) * limit ELSE 0
AdvTokens(now) == IF Deviation = "no-burst-cap" THEN tokens + Refill(now)
                  ELSE Min(B, tokens + Refill(now))

\* --------------------------------------------------------------- reserveN
\* the request of n tokens at the clock: what is available, what is missing
Avail      == AdvTokens(clock)
Deficit(n) == Max(0, n * Unit - Avail)
Exact(n)   == Finite(limit) => Deficit(n) % limit = 0
\* with limit 0 missing tokens never arrive
Never(n)   == limit = 0 /\ Deficit(n) > 0

\* an event of n tokens is granted for the instant tta
Grant(n, tta) == /\ last' = clock
                 /\ tokens' = Avail - n * Unit
                 /\ lastEvent' = tta
                 /\ UNCHANGED <<limit, burst>>
\* a refused request only moves `last` back if the clock went back
Refuse == /\ last' = AdvLast(clock)
          /\ UNCHANGED <<limit, burst, tokens, lastEvent>>

Allow(n) ==
  /\ nev < MaxEvents /\ ~halted
  /\ nev' = nev + 1
  /\ UNCHANGED <<clock, res, halted, pot, mono, noInf, fixed, epoch, crossed>>
  /\ IF limit = Inf
     THEN /\ ret' = [NoRet EXCEPT !.k = "allow", !.n = n, !.ok = TRUE, !.lim = limit]
          /\ UNCHANGED <<limv, grants>>
     ELSE LET ok == /\ n <= burst
                    /\ \/ Deficit(n) = 0
                       \/ Deviation = "zero-limit-grants" /\ limit = 0
          IN /\ ret' = [NoRet EXCEPT !.k = "allow", !.n = n, !.ok = ok, !.avail = Avail, !.lim = limit]
             /\ IF ok THEN Grant(n, IF Deficit(n) = 0 THEN clock ELSE ZeroT) ELSE Refuse
             /\ grants' = IF ok /\ n > 0 THEN Append(grants, <<clock, pot, n * Unit>>) ELSE grants

Reserve(n) ==
  /\ nev < MaxEvents /\ ~halted
  /\ Len(res) < MaxRes
  /\ nev' = nev + 1
  /\ UNCHANGED <<clock, pot, grants, mono, noInf, fixed, epoch, crossed>>
  /\ IF limit = Inf
     THEN /\ ret' = [NoRet EXCEPT !.k = "reserve", !.n = n, !.ok = TRUE, !.id = Len(res) + 1, !.lim = limit]
          /\ res' = Append(res, [ok |-> TRUE, n |-> n, tta |-> clock, lim |-> 0, st |-> "held", ep |-> epoch])
          /\ UNCHANGED <<limv, halted>>
     ELSE IF Never(n) /\ n <= burst /\ Deviation # "zero-limit-grants"
     THEN \* no finite delay exists: the reservation is not OK, or its delay is InfDuration
          /\ ret' = [NoRet EXCEPT !.k = "reserve", !.n = n, !.ok = FALSE, !.num = -1, !.id = Len(res) + 1,
                                  !.avail = Avail, !.lim = limit]
          /\ res' = Append(res, [ok |-> FALSE, n |-> n, tta |-> clock, lim |-> limit, st |-> "held", ep |-> epoch])
          /\ halted' = TRUE
          /\ Refuse
     ELSE /\ n <= burst => Exact(n)
          /\ LET ok   == n <= burst
                 d    == Deficit(n)
                 wait == IF Finite(limit) THEN d \div limit ELSE 0
                 tta  == IF limit = 0 /\ d > 0 THEN ZeroT ELSE clock + wait
             IN /\ ret' = [NoRet EXCEPT !.k = "reserve", !.n = n, !.ok = ok, !.id = Len(res) + 1,
                                        !.num = IF limit = 0 THEN 0 ELSE d, !.den = IF d = 0 \/ limit = 0 THEN 1 ELSE limit,
                                        !.avail = Avail, !.lim = limit]
                /\ res' = Append(res, [ok |-> ok, n |-> IF ok THEN n ELSE 0, tta |-> IF ok THEN tta ELSE clock,
                                       lim |-> limit, st |-> "held", ep |-> epoch])
                /\ IF ok THEN Grant(n, tta) ELSE Refuse
          /\ UNCHANGED halted

\* CancelAt: "reverses the effects of this Reservation on the rate limit as much as possible,
\* considering that other reservations may have already been made"
Cancel(i) ==
  /\ nev < MaxEvents /\ ~halted
  /\ i \in DOMAIN res /\ res[i].st = "held"
  /\ nev' = nev + 1
  /\ res' = [res EXCEPT ![i].st = IF res[i].tta < clock THEN "acted" ELSE "cancelled"]
  /\ ret' = [NoRet EXCEPT !.k = "cancel", !.id = i, !.lim = limit]
  /\ UNCHANGED <<clock, halted, pot, grants, mono, noInf, fixed, epoch>>
  /\ LET r == res[i]
         due == r.tta < clock /\ Deviation # "cancel-due"
         \* tokens reserved after r was obtained are not restored
         restore == r.n * Unit - r.lim * (lastEvent - r.tta)
     IN IF ~r.ok \/ limit = Inf \/ r.n = 0 \/ due \/ restore <= 0
        THEN UNCHANGED <<limv, crossed>>
        ELSE /\ crossed' = (crossed \/ r.ep # epoch)
             /\ tokens' = Min(B, Avail + restore)
             /\ last' = clock
             /\ lastEvent' = IF r.tta = lastEvent /\ r.lim > 0 /\ r.tta - (r.n * Unit) \div r.lim >= clock
                             THEN r.tta - (r.n * Unit) \div r.lim
                             ELSE lastEvent
             /\ UNCHANGED <<limit, burst>>

\* DelayFrom(now): pure
DelayOf(r, now) == IF r.ok THEN Max(0, r.tta - now) ELSE -1     \* -1: InfDuration
Query(i) ==
  /\ nev < MaxEvents /\ ~halted
  /\ i \in DOMAIN res
  /\ nev' = nev + 1
  /\ ret' = [NoRet EXCEPT !.k = "delay", !.id = i, !.ok = res[i].ok, !.num = DelayOf(res[i], clock), !.lim = limit]
  /\ UNCHANGED <<clock, limv, res, halted, ghost>>

SetLimit(l) ==
  /\ nev < MaxEvents /\ ~halted
  /\ nev' = nev + 1
  /\ tokens' = Avail
  /\ last' = clock
  /\ limit' = l
  /\ ret' = [NoRet EXCEPT !.k = "setlimit", !.lim = l]
  /\ noInf' = (noInf /\ l # Inf)
  /\ fixed' = FALSE
  /\ epoch' = epoch + 1
  /\ UNCHANGED <<clock, burst, lastEvent, res, halted, pot, grants, mono, crossed>>

Advance(dt) ==
  /\ nev < MaxEvents /\ ~halted
  /\ nev' = nev + 1
  /\ clock' = clock + dt
  /\ pot' = pot + (IF dt > 0 /\ Finite(limit) THEN dt * limit ELSE 0)
  /\ mono' = (mono /\ dt >= 0)
  /\ ret' = [NoRet EXCEPT !.k = "advance", !.lim = limit]
  /\ UNCHANGED <<limv, res, halted, grants, noInf, fixed, epoch, crossed>>

Init ==
  /\ clock = 0
  /\ limit \in Rates /\ burst \in Bursts
  /\ tokens = 0 /\ last = ZeroT /\ lastEvent = ZeroT
  /\ res = <<>> /\ ret = NoRet /\ nev = 0 /\ halted = FALSE
  /\ pot = 0 /\ grants = <<>> /\ mono = TRUE /\ noInf = (limit # Inf) /\ fixed = TRUE /\ epoch = 0 /\ crossed = FALSE

Next ==
  \/ \E dt \in Dts : Advance(dt)
  \/ \E n \in Ns : Allow(n) \/ Reserve(n)
  \/ \E i \in 1..MaxRes : Cancel(i) \/ Query(i)
  \/ \E l \in SetRates : SetLimit(l)

Spec == Init /\ [][Next]_vars

\* ------------------------------------------------------------------ view
\* Behaviour is invariant under a shift of all instants: states are identified up to the clock.
\* A `last` far in the past (the zero time) is the same as any other far past.
Rel(t) == IF clock - t >= 200 THEN -200 ELSE t - clock
View == <<nev, limit, burst, tokens, Rel(last), Rel(lastEvent),
          [i \in DOMAIN res |-> [res[i] EXCEPT !.tta = Rel(@), !.ep = IF @ = epoch THEN 1 ELSE 0]], ret, halted,
          [i \in DOMAIN grants |-> <<Rel(grants[i][1]), grants[i][2] - pot, grants[i][3]>>], mono, noInf, fixed, crossed>>

\* ------------------------------------------------------------------ properties
TypeOK ==
  /\ clock \in Int /\ nev \in 0..MaxEvents
  /\ limit \in Rates \cup SetRates /\ burst \in Bursts
  /\ tokens \in Int /\ last \in Int /\ lastEvent \in Int
  /\ Len(res) <= MaxRes
  /\ \A i \in DOMAIN res : res[i].st \in {"held", "cancelled", "acted"} /\ res[i].n \in Nat
  /\ halted \in BOOLEAN

\* "a token bucket of size b": never more than burst tokens, whatever was cancelled or set
TokensLeBurst == tokens <= B

\* AllowN "reports whether n events may happen at time now": exactly when the bucket, refilled up to now, covers them
AllowIff ==
  (ret.k = "allow" /\ ret.lim # Inf) => (ret.ok <=> ret.avail >= ret.n * Unit)

\* "ReserveN returns false if n exceeds the Limiter's burst size"
ReserveOkIff ==
  (ret.k = "reserve" /\ ret.lim # Inf /\ ret.num >= 0) => (ret.ok <=> ret.n <= burst)

\* the delay of a fresh reservation is exactly the time the bucket needs to refill to cover it
\* (avail + limit * delay = n), and zero if it is covered already
DelayExact ==
  (ret.k = "reserve" /\ ret.ok /\ Finite(ret.lim)) =>
     /\ ret.avail >= ret.n * Unit => ret.num = 0
     /\ ret.avail < ret.n * Unit => ret.avail * ret.den + ret.lim * ret.num = ret.n * Unit * ret.den
     /\ res[ret.id].tta * ret.den = clock * ret.den + ret.num

\* "Inf is the infinite rate limit; it allows all events (even if burst is zero)"
InfAllows ==
  (ret.k \in {"allow", "reserve"} /\ ret.lim = Inf) => (ret.ok /\ ret.num = 0)

\* "A zero Limit allows no events": no refill, nothing uncovered is ever granted
ZeroLimitNoGrant ==
  (ret.k \in {"allow", "reserve"} /\ ret.lim = 0 /\ ret.ok) => ret.avail >= ret.n * Unit

\* "If OK is false, Delay returns InfDuration"; a delay is never negative
DelayFromOk ==
  ret.k = "delay" => (IF ret.ok THEN ret.num >= 0 ELSE ret.num = -1)

\* while the clock is monotone and the limit unchanged, an outstanding debt is cleared no later than the
\* last reserved event: no reservation acts before the bucket has refilled to cover it
DebtClears ==
  (mono /\ fixed /\ Finite(limit) /\ tokens < 0) => tokens + limit * (lastEvent - last) >= 0

\* The defining property of a token bucket: over any interval the tokens granted by Allow are at most
\* burst + (refill over the interval).  Stated over the history of grants; pot is the integral of the limit.
RECURSIVE SumFrom(_, _, _)
SumFrom(s, i, j) == IF i > j THEN 0 ELSE s[i][3] + SumFrom(s, i + 1, j)
BucketBound == \A i, j \in DOMAIN grants : i <= j => SumFrom(grants, i, j) <= B + grants[j][2] - grants[i][2]
\* as documented: whatever was reserved, cancelled or set
AllowBoundDoc == (mono /\ noInf) => BucketBound
\* what holds: CancelAt measures "the tokens reserved after r" by the distance from r's time to act to the last
\* event in units of r's limit; if SetLimitAt raised the limit in between, a later reservation acts EARLIER than r, the
\* distance is negative and more tokens are restored than r took (see the observation in checks/x01.py)
AllowBound == (mono /\ noInf /\ ~crossed) => BucketBound

\* The same bound over ALL events the limiter granted - Allow at its instant, every reservation that was not
\* cancelled at its time to act - for a fixed limit.
AllEv == [i \in DOMAIN grants |-> <<grants[i][1], grants[i][3]>>]
         \o [i \in DOMAIN res |-> IF res[i].ok /\ res[i].st # "cancelled" THEN <<res[i].tta, res[i].n * Unit>> ELSE <<0, 0>>]
RECURSIVE SumIn(_, _, _, _)
SumIn(s, k, t1, t2) ==
  IF k = 0 THEN 0
  ELSE (IF s[k][1] >= t1 /\ s[k][1] <= t2 THEN s[k][2] ELSE 0) + SumIn(s, k - 1, t1, t2)
EventBound ==
  (mono /\ fixed /\ Finite(limit)) =>
     LET ev == AllEv
         times == {ev[k][1] : k \in {k \in DOMAIN ev : ev[k][2] > 0}}
     IN \A t1, t2 \in times : t1 <= t2 => SumIn(ev, Len(ev), t1, t2) <= B + limit * (t2 - t1)
=============================================================================
