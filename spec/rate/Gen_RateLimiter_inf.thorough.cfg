INIT GenInit
NEXT GenNext
CONSTANTS
  Unit = 8
  TickMs = 125
  Family = "inf"
  Bursts = {0, 3}
  Rates <- RatesInf
  SetRates <- RatesInf
  Ns = {0, 1, 3}
  Dts <- GDtsQuick
  MaxEvents = 5
  MaxRes = 2
  Kinds <- KNoDelay
  Deviation = "none"
INVARIANT Emit
CHECK_DEADLOCK FALSE
