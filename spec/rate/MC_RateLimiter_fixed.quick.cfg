SPECIFICATION Spec
CONSTANTS
  Unit = 8
  Bursts = {1, 3}
  Rates <- RatesFin
  SetRates <- NoRates
  Ns = {1, 2}
  Dts <- DtsFwd
  MaxEvents = 5
  MaxRes = 2
  Deviation = "none"
VIEW View
INVARIANTS TypeOK TokensLeBurst AllowIff ReserveOkIff DelayExact InfAllows ZeroLimitNoGrant DelayFromOk DebtClears AllowBound EventBound
CHECK_DEADLOCK FALSE
