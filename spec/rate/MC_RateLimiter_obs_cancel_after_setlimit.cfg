SPECIFICATION Spec
CONSTANTS
  Unit = 8
  Bursts = {3}
  Rates <- RatesSet
  SetRates <- RatesSet
  Ns = {1, 3}
  Dts <- DtsSmall
  MaxEvents = 6
  MaxRes = 2
  Deviation = "none"
VIEW View
INVARIANTS AllowBoundDoc
CHECK_DEADLOCK FALSE
