INIT GenInit
NEXT GenNext
CONSTANTS
  Unit = 8
  TickMs = 125
  Family = "sim"
  Bursts = {0, 1, 2, 3}
  Rates <- RatesAll
  SetRates <- RatesAll
  Ns = {0, 1, 2, 3, 4}
  Dts <- GDtsSim
  MaxEvents = 40
  MaxRes = 6
  Kinds <- KAll
  Deviation = "none"
INVARIANT Emit
CHECK_DEADLOCK FALSE
