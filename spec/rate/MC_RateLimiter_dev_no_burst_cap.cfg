SPECIFICATION Spec
CONSTANTS
  Unit = 8
  Bursts = {2}
  Rates <- RatesSet
  SetRates <- NoRates
  Ns = {1, 2}
  Dts <- DtsSmall
  MaxEvents = 4
  MaxRes = 1
  Deviation = "no-burst-cap"
VIEW View
INVARIANTS TokensLeBurst
CHECK_DEADLOCK FALSE
