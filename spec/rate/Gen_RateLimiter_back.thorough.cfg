INIT GenInit
NEXT GenNext
CONSTANTS
  Unit = 8
  TickMs = 125
  Family = "back"
  Bursts = {1, 3}
  Rates <- RatesSet
  SetRates <- RatesSet
  Ns = {1, 3}
  Dts <- GDtsBack
  MaxEvents = 5
  MaxRes = 2
  Kinds <- KAll
  Deviation = "none"
INVARIANT Emit
CHECK_DEADLOCK FALSE
