INIT GenInit
NEXT GenNext
CONSTANTS
  Unit = 8
  TickMs = 125
  Family = "fixed"
  Bursts = {3}
  Rates <- RatesFin
  SetRates <- NoRates
  Ns = {1, 2}
  Dts <- GDtsQuick
  MaxEvents = 6
  MaxRes = 3
  Kinds <- KNoDelay
  Deviation = "none"
INVARIANT Emit
CHECK_DEADLOCK FALSE
