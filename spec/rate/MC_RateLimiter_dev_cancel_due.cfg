SPECIFICATION Spec
CONSTANTS
  Unit = 8
  Bursts = {2}
  Rates <- RatesSet
  SetRates <- NoRates
  Ns = {1, 2}
  Dts <- DtsSmall
  MaxEvents = 5
  MaxRes = 2
  Deviation = "cancel-due"
VIEW View
INVARIANTS EventBound
CHECK_DEADLOCK FALSE
