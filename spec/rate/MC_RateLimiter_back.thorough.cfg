SPECIFICATION Spec
CONSTANTS
  Unit = 8
  Bursts = {1, 3}
  Rates <- RatesSet
  SetRates <- RatesSet
  Ns = {1, 3}
  Dts <- DtsBack
  MaxEvents = 6
  MaxRes = 2
  Deviation = "none"
VIEW View
INVARIANTS TypeOK TokensLeBurst AllowIff ReserveOkIff DelayExact InfAllows ZeroLimitNoGrant DelayFromOk DebtClears AllowBound EventBound
CHECK_DEADLOCK FALSE
