INIT GenInit
NEXT GenNext
CONSTANTS
  Unit = 8
  TickMs = 125
  Family = "inf"
  Bursts = {0, 2}
  Rates <- RatesInf
  SetRates <- RatesInf
  Ns = {1, 3}
  Dts <- GDtsQuick
  MaxEvents = 4
  MaxRes = 2
  Kinds <- KNoDelay
  Deviation = "none"
INVARIANT Emit
CHECK_DEADLOCK FALSE
