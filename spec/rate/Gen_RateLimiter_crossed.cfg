INIT GenInit
NEXT GenNext
CONSTANTS
  Unit = 8
  TickMs = 125
  Family = "crossed"
  Bursts = {3}
  Rates <- Rate2
  SetRates <- Rate8
  Ns = {1, 3}
  Dts <- GDtsNone
  MaxEvents = 6
  MaxRes = 2
  Kinds <- KNoDelay
  Deviation = "none"
INVARIANT Emit
CHECK_DEADLOCK FALSE
