SPECIFICATION Spec
CONSTANTS
  Unit = 8
  Bursts = {0, 1, 3}
  Rates <- RatesInf
  SetRates <- RatesInf
  Ns = {0, 1, 3}
  Dts <- DtsSmall
  MaxEvents = 6
  MaxRes = 2
  Deviation = "none"
VIEW View
INVARIANTS TypeOK TokensLeBurst AllowIff ReserveOkIff DelayExact InfAllows ZeroLimitNoGrant DelayFromOk DebtClears AllowBound EventBound
CHECK_DEADLOCK FALSE
