INIT GenInit
NEXT GenNext
CONSTANTS
  Unit = 8
  TickMs = 125
  Family = "fixed5"
  Bursts = {1, 2, 3}
  Rates <- RatesFin
  SetRates <- NoRates
  Ns = {0, 1, 2, 4}
  Dts <- GDtsFwd
  MaxEvents = 5
  MaxRes = 3
  Kinds <- KAll
  Deviation = "none"
INVARIANT Emit
CHECK_DEADLOCK FALSE
