SPECIFICATION Spec
CONSTANTS
  Unit = 8
  Bursts = {1, 2, 3}
  Rates <- RatesFin
  SetRates <- NoRates
  Ns = {0, 1, 2, 4}
  Dts <- DtsFwd
  MaxEvents = 6
  MaxRes = 3
  Deviation = "none"
VIEW View
INVARIANTS TypeOK TokensLeBurst AllowIff ReserveOkIff DelayExact InfAllows ZeroLimitNoGrant DelayFromOk DebtClears AllowBound EventBound
CHECK_DEADLOCK FALSE
