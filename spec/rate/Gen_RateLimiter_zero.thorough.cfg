INIT GenInit
NEXT GenNext
CONSTANTS
  Unit = 8
  TickMs = 125
  Family = "zero"
  Bursts = {0, 2}
  Rates <- RatesZero
  SetRates <- RatesZero
  Ns = {0, 1, 3}
  Dts <- GDtsQuick
  MaxEvents = 5
  MaxRes = 2
  Kinds <- KNoDelay
  Deviation = "none"
INVARIANT Emit
CHECK_DEADLOCK FALSE
