SPECIFICATION Spec
CONSTANTS
  Unit = 8
  Bursts = {2}
  Rates <- RatesSetInf
  SetRates <- RatesSetInf
  Ns = {1, 2}
  Dts <- DtsSmall
  MaxEvents = 5
  MaxRes = 2
  Deviation = "none"
VIEW View
INVARIANTS TypeOK TokensLeBurst AllowIff ReserveOkIff DelayExact InfAllows ZeroLimitNoGrant DelayFromOk DebtClears AllowBound EventBound
CHECK_DEADLOCK FALSE
