INIT GenInit
NEXT GenNext
CONSTANTS
  Unit = 8
  TickMs = 125
  Family = "setlimit"
  Bursts = {2}
  Rates <- Rate2
  SetRates <- Rates18
  Ns = {1, 2}
  Dts <- GDtsQuick
  MaxEvents = 5
  MaxRes = 2
  Kinds <- KNoDelay
  Deviation = "none"
INVARIANT Emit
CHECK_DEADLOCK FALSE
