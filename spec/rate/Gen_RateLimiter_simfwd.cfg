INIT GenInit
NEXT GenNext
CONSTANTS
  Unit = 8
  TickMs = 125
  Family = "simfwd"
  Bursts = {1, 2, 3}
  Rates <- RatesFin
  SetRates <- RatesFin
  Ns = {0, 1, 2, 3, 4}
  Dts <- GDtsSimFwd
  MaxEvents = 40
  MaxRes = 6
  Kinds <- KAll
  Deviation = "none"
INVARIANT Emit
CHECK_DEADLOCK FALSE
