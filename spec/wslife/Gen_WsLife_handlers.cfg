INIT GenInit
NEXT GenNext
CONSTANTS
  Dev = "none"
  Family = "handlers"
  WBuf = 128
  MaxOps = 3
  Acts <- ActsCtl
  CloseBodies <- BodiesSmall
  Payloads = {5}
  DataKinds = {"small"}
  ReadModes = {"msg"}
  HandlerSets <- HCustom
  Limits = {0}
  Zs = {FALSE}
  NegSet <- Plain
INVARIANTS Emit
CHECK_DEADLOCK FALSE
