----------------------------- MODULE Gen_WsLifeMx -----------------------------
(* Value matrices of X05: small total functions the session code is built on,  *)
(* one case per argument with the value the RFC / the documentation gives.     *)
(*   closecode   a status code (and reason) through FormatCloseMessage, the    *)
(*               wire, the peer's read and CloseError.Error                    *)
(*   iserr       IsCloseError / IsUnexpectedCloseError                         *)
(*   level       SetCompressionLevel                                           *)
(*   url         what a Dialer does with a URL (RFC 6455 section 3)            *)
(*   subprotos   the Subprotocols(r) helper        isupgrade  IsWebSocketUpgrade *)
EXTENDS Integers, Sequences, FiniteSets, TLC, Json

VARIABLE row

\* ------------------------------------------------------------------ close codes
\* RFC 6455 7.4.1, 7.4.2, IANA registry (1012, 1013); 1004 reserved, 1014 and 1016.. not assigned when RFC 6455 was written
ValidCloseCode(c) == c \in {1000, 1001, 1002, 1003, 1007, 1008, 1009, 1010, 1011, 1012, 1013} \cup (3000..4999)
ReservedCode(c) == c \in {1005, 1006, 1015}       \* "MUST NOT be set as a status code in a Close control frame by an endpoint"
\* a word of the code's definition in 7.4.1 that a description of it can hardly avoid
Keyword(c) == CASE c = 1000 -> "normal"   [] c = 1001 -> "going away" [] c = 1002 -> "protocol"  [] c = 1003 -> "data"
                [] c = 1005 -> "no status" [] c = 1006 -> "abnormal"  [] c = 1007 -> "payload"   [] c = 1008 -> "policy"
                [] c = 1009 -> "big"      [] c = 1010 -> "extension"  [] c = 1011 -> "server"    [] c = 1015 -> "tls"
                [] OTHER -> ""
Codes == {0, 999, 1000, 1001, 1002, 1003, 1004, 1005, 1006, 1007, 1008, 1009, 1010, 1011, 1012, 1013, 1015, 1016, 2999,
          3000, 3999, 4000, 4999, 5000, 65535}
CloseCodeRows ==
  { [kind |-> "closecode", code |-> c, text |-> t,
     body |-> <<c \div 256, c % 256>>,             \* 5.5.1: 2-byte unsigned integer in network byte order, then the reason
     reserved |-> ReservedCode(c), valid |-> ValidCloseCode(c), keyword |-> Keyword(c)] : c \in Codes, t \in {"", "bye"} }

\* ------------------------------------------------------------------ classification
IsErrRows ==
  { [kind |-> "iserr", err |-> e, code |-> c, list |-> l,
     isclose |-> (e = "close" /\ \E i \in DOMAIN l : l[i] = c),
     unexpected |-> (e = "close" /\ ~\E i \in DOMAIN l : l[i] = c)] :
      e \in {"close", "other", "nil"}, c \in {1000, 1001, 1005, 1006, 4000},
      l \in {<<>>, <<1000>>, <<1001, 1000>>, <<1006>>, <<1000, 1001, 1005, 1006>>, <<4000, 4000>>} }

\* ------------------------------------------------------------------ compression levels
\* compress/flate: HuffmanOnly = -2, DefaultCompression = -1, NoCompression = 0, BestSpeed = 1 .. BestCompression = 9
LevelRows == { [kind |-> "level", level |-> l, valid |-> (l >= -2 /\ l <= 9)] : l \in -4..11 }

\* ------------------------------------------------------------------ URLs (RFC 6455 section 3)
\*   ws-URI = "ws:" "//" host [ ":" port ] path [ "?" query ]; default ports 80 / 443; an empty path is "/";
\*   "Fragment identifiers ... MUST NOT be used on these URIs"; no userinfo in the grammar
Url(u, ok, addr, host, uri, frag) == [kind |-> "url", u |-> u, ok |-> ok, addr |-> addr, host |-> host, uri |-> uri, frag |-> frag]
UrlRows == {
  Url("ws://x05.example:8080/p/a?q=1", TRUE, "x05.example:8080", "x05.example:8080", "/p/a?q=1", FALSE),
  Url("ws://x05.example/p", TRUE, "x05.example:80", "x05.example", "/p", FALSE),
  Url("ws://x05.example", TRUE, "x05.example:80", "x05.example", "/", FALSE),
  Url("ws://x05.example?x=y", TRUE, "x05.example:80", "x05.example", "/?x=y", FALSE),
  Url("wss://x05.example/p", TRUE, "x05.example:443", "x05.example", "/p", FALSE),
  Url("wss://x05.example:9443/", TRUE, "x05.example:9443", "x05.example:9443", "/", FALSE),
  Url("ws://[::1]:8080/p", TRUE, "[::1]:8080", "[::1]:8080", "/p", FALSE),
  Url("ws://[::1]/p", TRUE, "[::1]:80", "[::1]", "/p", FALSE),
  Url("ws://x05.example/p%23x", TRUE, "x05.example:80", "x05.example", "/p%23x", FALSE),
  Url("http://x05.example/", FALSE, "", "", "", FALSE),
  Url("https://x05.example/", FALSE, "", "", "", FALSE),
  Url("x05.example/p", FALSE, "", "", "", FALSE),
  Url("", FALSE, "", "", "", FALSE),
  Url("ws:/x05.example/p", FALSE, "", "", "", FALSE),
  Url("ws://user@x05.example/", FALSE, "", "", "", FALSE),
  Url("ws://user:secret@x05.example/", FALSE, "", "", "", FALSE),
  Url("ws://x05.example/p#frag", FALSE, "x05.example:80", "x05.example", "/p", TRUE) }

\* ------------------------------------------------------------------ helpers of server.go
RECURSIVE Flat(_)
Flat(lines) == IF lines = <<>> THEN <<>> ELSE Head(lines) \o Flat(Tail(lines))
OfferLines == { <<>>, <<<<"chat">>>>, <<<<"chat", "superchat">>>>, <<<<"Chat", "chat", "chat">>>>, <<<<"chat">>, <<"superchat">>>>,
                <<<<"mqtt">>, <<"chat", "superchat">>, <<"v2">>>> }
SubprotoRows == { [kind |-> "subprotos", lines |-> l, protos |-> Flat(l)] : l \in OfferLines }

Lower(t) == CASE t \in {"Upgrade", "UPGRADE", "upgrade"} -> "upgrade" [] t \in {"websocket", "WebSocket"} -> "websocket" [] OTHER -> t
HasTok(lines, t) == \E i \in DOMAIN Flat(lines) : Lower(Flat(lines)[i]) = t
TokLines == { <<>>, <<<<"Upgrade">>>>, <<<<"UPGRADE">>>>, <<<<"keep-alive", "upgrade">>>>, <<<<"keep-alive">>, <<"Upgrade">>>>, <<<<"keep-alive">>>>,
              <<<<"websocket">>>>, <<<<"WebSocket">>>>, <<<<"h2c">>, <<"websocket">>>>, <<<<"h2c">>>> }
IsUpgradeRows == { [kind |-> "isupgrade", conn |-> c, upg |-> u, is |-> (HasTok(c, "upgrade") /\ HasTok(u, "websocket"))] : c \in TokLines, u \in TokLines }

Rows == CloseCodeRows \cup IsErrRows \cup LevelRows \cup UrlRows \cup SubprotoRows \cup IsUpgradeRows
Init == row \in Rows
Next == UNCHANGED row
Emit == PrintT(<<"CASE", ToJson(row)>>)
=============================================================================
