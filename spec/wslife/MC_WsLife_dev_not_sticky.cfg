SPECIFICATION Spec
CONSTANTS
  Dev = "not-sticky"
  Configs <- ConfigsDevBody
  NegSet <- Plain
INVARIANTS CloseErrorSticky
CHECK_DEADLOCK FALSE
