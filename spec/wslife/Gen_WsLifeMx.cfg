INIT Init
NEXT Next
INVARIANTS Emit
CHECK_DEADLOCK FALSE
