SPECIFICATION Spec
CONSTANTS
  Dev = "none"
  Configs <- ConfigsMcA
  NegSet <- Plain
INVARIANTS TypeOk NothingAfterClose LatchIsClose EchoMirrors EchoOnce EchoHappens CloseErrorSticky PongMirrorsPing NoDataAfterCloseSent StillReadable CleanCloseAgree AbnormalOnlyIfTransport
CHECK_DEADLOCK FALSE
