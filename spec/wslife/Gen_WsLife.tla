----------------------------- MODULE Gen_WsLife -----------------------------
(* Behaviour generation for X05: every behaviour of WsLife of MaxOps calls     *)
(* within a family's alphabet (or random long ones: SimNext), as the list of   *)
(* its steps: the call, what it returns, the frames each endpoint wrote during *)
(* the call, the handler calls, and the endpoints' states after it.            *)
EXTENDS MC_WsLife, Json

CONSTANT WBuf      \* the write buffer size the replayer gives both connections (the specification does not care)
Family == cf.fam
VARIABLES hist, fin
gvars == <<vars, hist, fin>>

BodyJ(b) == [k |-> b.k, code |-> b.code, pre |-> b.pre, fill |-> b.fill]
FrameJ(f) ==
  CASE f.k = "data"  -> [k |-> "data", t |-> f.t, id |-> f.id, f |-> f.first, l |-> f.last, sz |-> f.sz, z |-> f.z, js |-> f.js]
    [] f.k = "close" -> [k |-> "close", b |-> BodyJ(f.body), auto |-> f.auto]
    [] OTHER         -> [k |-> f.k, p |-> f.p, auto |-> f.auto]
FramesJ(s) == [i \in 1..Len(s) |-> FrameJ(s[i])]

ArgJ(a, g) ==
  CASE a = "wdata"  -> [sz |-> g.sz, t |-> g.t]
    [] a = "wbegin" -> [t |-> g.t]
    [] a = "wclose" -> [body |-> BodyJ(g.body)]
    [] a \in {"wping", "wpong"} -> [p |-> g.p]
    [] a = "setz"   -> [b |-> g.b]
    [] a = "read"   -> [mode |-> g.mode]
    [] OTHER        -> [x |-> 0]
RetJ(r) ==
  CASE r.c = "close" -> [c |-> r.c, code |-> r.code, pre |-> r.pre, fill |-> r.fill]
    [] r.c = "eof"   -> [c |-> r.c, code |-> r.code]
    [] r.c \in {"msg", "part", "json", "jsonerr", "ueof"} -> [c |-> r.c, t |-> r.t, id |-> r.id, sz |-> r.sz]
    [] OTHER -> [c |-> r.c]
HcJ(h) == [i \in 1..Len(h) |-> IF h[i].k = "close" THEN [k |-> "close", code |-> h[i].code, pre |-> h[i].pre, fill |-> h[i].fill]
                                ELSE [k |-> h[i].k, p |-> h[i].p]]

StepRec ==
  [ a |-> last.a, e |-> last.e, arg |-> ArgJ(last.a, last.arg), ret |-> RetJ(last.ret),
    wc |-> FramesJ(last.wrote["c"]), ws |-> FramesJ(last.wrote["s"]),
    hc |-> HcJ(last.hc),
    st |-> <<StateOf("c"), StateOf("s")>>,
    wl |-> <<wl["c"], wl["s"]>>,
    rf |-> <<rs["c"] # Open, rs["s"] # Open>> ]

GenInit == Init /\ hist = <<>> /\ fin = FALSE
GenNext ==
  IF n = MaxOps
  THEN ~fin /\ fin' = TRUE /\ UNCHANGED <<vars, hist>>
  ELSE Next /\ hist' = Append(hist, StepRec') /\ fin' = FALSE

CaseOf == [ fam |-> Family, wbuf |-> WBuf, z |-> z, hc |-> hm["c"], hs |-> hm["s"], lc |-> lim["c"], ls |-> lim["s"], steps |-> hist ]
Emit == fin => PrintT(<<"CASE", ToJson(CaseOf)>>)
=============================================================================
