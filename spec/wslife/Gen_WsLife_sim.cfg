INIT GenInit
NEXT GenNext
CONSTANTS
  Dev = "none"
  Family = "sim"
  WBuf = 128
  MaxOps = 14
  Acts <- ActsAll
  CloseBodies <- BodiesAll
  Payloads = {0, 5, 125, 126}
  DataKinds = {"empty", "small", "big"}
  ReadModes = {"msg", "part", "json"}
  HandlerSets <- HCustom
  Limits = {0, 50}
  Zs = {FALSE, TRUE}
  NegSet <- Plain
INVARIANTS Emit
CHECK_DEADLOCK FALSE
