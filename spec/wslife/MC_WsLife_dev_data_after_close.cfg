SPECIFICATION Spec
CONSTANTS
  Dev = "data-after-close"
  Configs <- ConfigsDevShut
  NegSet <- Plain
INVARIANTS NoDataAfterCloseSent
CHECK_DEADLOCK FALSE
