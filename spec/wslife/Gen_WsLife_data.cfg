INIT GenInit
NEXT GenNext
CONSTANTS
  Dev = "none"
  Family = "data"
  WBuf = 128
  MaxOps = 3
  Acts <- ActsData
  CloseBodies <- BodiesSmall
  Payloads = {5}
  DataKinds = {"empty", "small", "big"}
  ReadModes = {"msg", "part", "json"}
  HandlerSets <- HDefault
  Limits = {0}
  Zs = {FALSE, TRUE}
  NegSet <- Plain
INVARIANTS Emit
CHECK_DEADLOCK FALSE
