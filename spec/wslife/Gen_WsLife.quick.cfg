INIT GenInit
NEXT GenNext
CONSTANTS
  Dev = "none"
  Configs <- ConfigsQuick
  NegSet <- Plain
  WBuf = 128
INVARIANTS Emit TypeOk NothingAfterClose LatchIsClose EchoMirrors EchoOnce EchoHappens CloseErrorSticky PongMirrorsPing NoDataAfterCloseSent StillReadable CleanCloseAgree AbnormalOnlyIfTransport
CHECK_DEADLOCK FALSE
