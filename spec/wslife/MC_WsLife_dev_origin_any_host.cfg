SPECIFICATION Spec
CONSTANTS
  Dev = "origin-any-host"
  Configs <- ConfigsNeg
  NegSet <- NegAll
INVARIANTS SameOriginOnly
CHECK_DEADLOCK FALSE
