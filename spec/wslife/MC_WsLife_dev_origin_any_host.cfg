SPECIFICATION Spec
CONSTANTS
  Dev = "origin-any-host"
  MaxOps = 0
  Acts = {}
  CloseBodies = {}
  Payloads = {}
  DataKinds = {}
  ReadModes = {}
  HandlerSets <- HDefault
  Limits = {0}
  Zs = {FALSE}
  NegSet <- NegAll
INVARIANTS SameOriginOnly
CHECK_DEADLOCK FALSE
