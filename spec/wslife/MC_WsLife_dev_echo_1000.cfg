SPECIFICATION Spec
CONSTANTS
  Dev = "echo-1000"
  Configs <- ConfigsDevBody
  NegSet <- Plain
INVARIANTS CleanCloseAgree
CHECK_DEADLOCK FALSE
