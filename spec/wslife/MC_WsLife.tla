----------------------------- MODULE MC_WsLife -----------------------------
(* Constants of the exhaustive runs of WsLife (and of the generators).        *)
EXTENDS WsLife

\* ------------------------------------------------------------- negotiations
One(x) == <<<<x>>>>                          \* one header line with one element
Subs(l) == [set |-> TRUE, l |-> l]
NoSubs  == [set |-> FALSE, l |-> <<>>]
Base == [kind |-> "lib", method |-> "GET", httpv |-> "1.1", conn |-> One("Upgrade"), upg |-> One("websocket"),
         ver |-> "13", key |-> "ok", origin |-> "absent", policy |-> "default", hook |-> FALSE,
         offer |-> <<>>, via |-> "dialer", subs |-> NoSubs, rh |-> "", rhext |-> FALSE,
         status |-> 101, rproto |-> "", rext |-> "none", rextra |-> FALSE, ccomp |-> FALSE]
Plain == {Base}

\* what clients ask for: nothing, one, several (order, duplicates, case), on one line or several
OfferLines == { <<>>, <<<<"chat">>>>, <<<<"chat", "superchat">>>>, <<<<"superchat", "chat">>>>, <<<<"Chat">>>>,
                <<<<"chat", "chat">>>>, <<<<"mqtt">>>>, <<<<"chat">>, <<"superchat">>>>, <<<<"mqtt">>, <<"chat", "superchat">>>> }
ServerSubs == { NoSubs, Subs(<<>>), Subs(<<"chat">>), Subs(<<"superchat", "chat">>), Subs(<<"chat", "superchat">>), Subs(<<"v2">>) }
Origins == {"absent", "same", "samecase", "samepath", "otherhost", "otherport", "suffix", "malformed", "empty"}

\* Dialer against Upgrader: protocols x server configuration x origin
NegLibProto ==
  { [Base EXCEPT !.offer = o, !.via = v, !.subs = s, !.rh = rh] :
      o \in OfferLines, v \in {"dialer", "header"}, s \in ServerSubs, rh \in {"", "chat", "v2"} }
NegLibFilter(g) == /\ (g.via = "dialer" => Len(g.offer) <= 1)            \* Dialer.Subprotocols is one list
                   /\ (g.offer = <<>> => g.via = "dialer")
NegLib == {g \in NegLibProto : NegLibFilter(g)}
       \cup { [Base EXCEPT !.origin = o, !.policy = p] : o \in Origins, p \in {"default", "allow", "deny"} }
       \cup { [Base EXCEPT !.via = "both", !.offer = <<<<"chat">>>>, !.subs = Subs(<<"chat">>)] }

\* any request against the Upgrader: the rows spec/wswire/WsHandshake.tla does not have
ConnVals == { One("Upgrade"), One("uPgRaDe"), <<<<"keep-alive">>, <<"Upgrade">>>>, <<<<"keep-alive", "Upgrade">>>>,
              <<<<"keep-alive">>>>, <<<<"Upgrade-Insecure">>>> }
UpgVals  == { One("websocket"), One("WEBSOCKET"), <<<<"h2c", "websocket">>>>, <<<<"h2c">>, <<"websocket">>>>, One("websocket13"), One("h2c") }
NegCrafted1 ==
     { [Base EXCEPT !.kind = "crafted", !.method = m, !.hook = h] : m \in {"GET", "get", "HEAD", "PUT"}, h \in BOOLEAN }
  \cup { [Base EXCEPT !.kind = "crafted", !.httpv = "1.0"] }
  \cup { [Base EXCEPT !.kind = "crafted", !.conn = c, !.upg = u] : c \in ConnVals, u \in UpgVals }
  \cup { [Base EXCEPT !.kind = "crafted", !.ver = v, !.hook = h] : v \in {"13", "13.0", "013", "8"}, h \in BOOLEAN }
  \cup { [Base EXCEPT !.kind = "crafted", !.key = k] : k \in {"ok", "short", "long", "notb64", "absent"} }
  \cup { [Base EXCEPT !.kind = "crafted", !.origin = o, !.policy = p, !.hook = h] : o \in Origins, p \in {"default", "allow", "deny"}, h \in BOOLEAN }
  \cup { [Base EXCEPT !.kind = "crafted", !.rhext = TRUE, !.hook = h] : h \in BOOLEAN }
  \cup { [Base EXCEPT !.kind = "crafted", !.offer = o, !.via = "header", !.subs = s, !.rh = rh] :
           o \in OfferLines, s \in ServerSubs, rh \in {"", "chat"} }
NegCrafted == NegCrafted1

\* the Dialer against any response
NegScripted ==
  { [Base EXCEPT !.kind = "scripted", !.offer = o, !.status = st, !.rproto = rp, !.rext = x, !.rextra = xt, !.ccomp = cc] :
      o \in {<<>>, <<<<"chat">>>>, <<<<"chat", "superchat">>>>}, st \in {101, 200, 301, 403},
      rp \in {"", "chat", "superchat", "Chat", "v2"}, x \in {"none", "pmd", "foo"}, xt \in BOOLEAN, cc \in BOOLEAN }

NegAll == NegLib \cup NegCrafted \cup NegScripted

\* ------------------------------------------------------------------ sessions
Ascii(s) == s
B(k, code, pre, fill) == Body(k, code, pre, fill)
Bye == <<98, 121, 101>>
BEmpty == B("empty", 0, <<>>, 0)
BodiesSmall == { BEmpty, B("code", 1000, <<>>, 0), B("code", 1001, Bye, 0), B("code", 999, <<>>, 0) }
BodiesAll == BodiesSmall \cup
  { B("raw1", 0, <<>>, 0),
    B("code", 3000, <<>>, 123), B("code", 3000, <<>>, 124),                 \* the longest reason, and one byte more
    B("code", 4999, <<197, 190>>, 1),                                       \* a two-byte character
    B("code", 1000, <<195, 40>>, 0), B("code", 1000, <<226, 130>>, 0),      \* not UTF-8; a character cut short
    B("code", 1005, <<>>, 0), B("code", 1006, <<>>, 0), B("code", 1015, <<>>, 0),
    B("code", 1012, <<>>, 0), B("code", 2999, <<>>, 0), B("code", 5000, <<>>, 0), B("code", 0, <<>>, 0) }
BodiesCodes == { BEmpty, B("code", 1000, <<>>, 0), B("code", 1001, Bye, 0), B("code", 1005, <<>>, 0), B("code", 3000, <<>>, 123),
                 B("code", 1000, <<195, 40>>, 0), B("code", 3000, <<>>, 124) }
BodiesRaw1 == { B("raw1", 0, <<>>, 0), B("code", 1000, <<>>, 0) }

BodiesQ == { BEmpty, B("code", 1000, <<>>, 0), B("code", 1001, Bye, 0), B("code", 999, <<>>, 0), B("code", 3000, <<>>, 123),
             B("code", 3000, <<>>, 124), B("code", 4999, <<197, 190>>, 1), B("code", 1000, <<195, 40>>, 0), B("code", 1005, <<>>, 0),
             B("code", 1012, <<>>, 0) }
BodiesNoRaw == BodiesAll \ { B("raw1", 0, <<>>, 0) }
BodiesTwo == { BEmpty, B("code", 1001, Bye, 0) }
BodiesOne == { B("code", 1000, <<>>, 0) }

D == [close |-> "default", ping |-> "default", pong |-> "default"]
HDefault == {D}
HCustom == { D, [close |-> "silent", ping |-> "silent", pong |-> "silent"], [close |-> "err", ping |-> "default", pong |-> "default"],
             [close |-> "default", ping |-> "err", pong |-> "default"], [close |-> "default", ping |-> "default", pong |-> "err"],
             [close |-> "own", ping |-> "silent", pong |-> "default"] }

HCustom3 == { D, [close |-> "silent", ping |-> "silent", pong |-> "silent"], [close |-> "err", ping |-> "err", pong |-> "err"],
              [close |-> "own", ping |-> "default", pong |-> "default"] }
HErr == { D, [close |-> "err", ping |-> "default", pong |-> "default"], [close |-> "default", ping |-> "err", pong |-> "default"],
          [close |-> "default", ping |-> "default", pong |-> "err"] }
ActsBody  == {"wclose", "read"}
ActsH     == {"wclose", "wping", "wpong", "read"}
ActsFrag2 == {"wbegin", "wclose", "wping", "read"}
ActsShut  == {"wdata", "wclose", "tclose", "read"}
ActsReaders == {"wdata", "wjson", "read"}
ActsMain  == {"wdata", "wbegin", "wclose", "wping", "wpong", "tclose", "read"}
\* ------------------------------------------------------------- configurations
Cfg(fam, maxops, acts, bodies, payloads, kinds, modes, handlers, limits, zs) ==
  [fam |-> fam, maxops |-> maxops, acts |-> acts, bodies |-> bodies, payloads |-> payloads, kinds |-> kinds, modes |-> modes,
   handlers |-> handlers, limits |-> limits, zs |-> zs]
ActsAll   == {"wdata", "wjson", "wprep", "wbegin", "wclose", "wping", "wpong", "setz", "tclose", "read"}
ActsClose == {"wdata", "wclose", "wping", "tclose", "read"}
ActsCtl   == {"wdata", "wclose", "wping", "wpong", "read"}
ActsFrag  == {"wdata", "wbegin", "wclose", "wping", "read"}
ActsData  == {"wdata", "wjson", "wprep", "setz", "read", "wclose"}
ActsLimit == {"wdata", "wbegin", "wclose", "read"}

S == {"small"}
M == {"msg"}
MP == {"msg", "part"}
MPJ == {"msg", "part", "json"}
\* the families: everything with small alphabets; every Close body; the one-byte body; control payload sizes; handlers the
\* application sets; sizes x read modes with compression; the read limit; messages in two parts; shutdown; readers
FamAll(d, acts, modes) == Cfg("all", d, acts, BodiesSmall, {5}, S, modes, HDefault, {0}, {FALSE})
FamBodies(d, b)  == Cfg("bodies", d, ActsBody, b, {5}, S, M, HDefault, {0}, {FALSE})
FamRaw1(d, h)    == Cfg("raw1", d, ActsClose, BodiesRaw1, {5}, S, M, h, {0}, {FALSE})
FamCtl(d)        == Cfg("ctl", d, ActsCtl, BodiesTwo, {0, 125, 126}, S, M, HDefault, {0}, {FALSE})
FamHandlers(d, h) == Cfg("handlers", d, ActsH, BodiesTwo, {5}, S, M, h, {0}, {FALSE})
FamData(d)       == Cfg("data", d, ActsData, BodiesOne, {5}, {"empty", "big"}, MPJ, HDefault, {0}, {TRUE})
FamLimit(d)      == Cfg("limit", d, ActsLimit, BodiesOne, {5}, {"small", "big"}, MP, HDefault, {50}, {FALSE})
FamFrag(d)       == Cfg("frag", d, ActsFrag2, BodiesOne, {5}, S, MP, HDefault, {0}, {FALSE})
FamShut(d)       == Cfg("shut", d, ActsShut, BodiesOne, {5}, S, M, HDefault, {0}, {FALSE})
FamReaders(d, k) == Cfg("readers", d, ActsReaders, BodiesOne, {5}, k, MPJ, HDefault, {0}, {FALSE})

ConfigsQuick == { FamAll(3, ActsAll, MPJ), FamBodies(3, BodiesQ), FamRaw1(3, HDefault), FamCtl(3), FamHandlers(3, HCustom3), FamData(3),
                  FamLimit(3), FamFrag(4), FamShut(4), FamReaders(4, S) }
\* thorough: the generators (one JVM per group) ...
ConfigsGenA == { FamAll(4, ActsMain, MP) }
ConfigsGenB == { FamHandlers(4, HCustom), FamBodies(3, BodiesNoRaw), FamRaw1(3, HErr) }
ConfigsGenC == { FamCtl(4), FamData(4), FamLimit(4), FamFrag(5), FamShut(5), FamReaders(4, {"small", "big"}) }
\* ... and the state graph without the history variable, a call deeper where that is affordable
ConfigsMcA == { FamAll(4, ActsMain, MP), FamHandlers(4, HCustom), FamCtl(4), FamData(4) }
ConfigsMcB == { FamBodies(4, BodiesNoRaw), FamRaw1(4, HErr), FamLimit(4), FamFrag(6), FamShut(6), FamReaders(5, {"small", "big"}) }
ConfigsSim == { Cfg("sim", 12, ActsAll, BodiesNoRaw, {0, 5, 125, 126}, {"empty", "small", "big"}, MPJ, HCustom, {0, 50}, {FALSE, TRUE}) }
ConfigsNeg == { Cfg("neg", 0, {}, {}, {}, {}, {}, HDefault, {0}, {FALSE}) }
\* small configurations for the named deviations
ConfigsDevBody == { Cfg("dev", 3, ActsBody, BodiesTwo, {5}, S, M, HDefault, {0}, {FALSE}) }
ConfigsDevShut == { Cfg("dev", 3, ActsShut, BodiesOne, {5}, S, M, HDefault, {0}, {FALSE}) }
ConfigsDevCtl  == { Cfg("dev", 3, ActsH, BodiesOne, {5}, S, M, HDefault, {0}, {FALSE}) }
=============================================================================
