----------------------------- MODULE MC_WsLife -----------------------------
(* Constants of the exhaustive runs of WsLife (and of the generators).        *)
EXTENDS WsLife

\* ------------------------------------------------------------- negotiations
One(x) == <<<<x>>>>                          \* one header line with one element
Subs(l) == [set |-> TRUE, l |-> l]
NoSubs  == [set |-> FALSE, l |-> <<>>]
Base == [kind |-> "lib", method |-> "GET", httpv |-> "1.1", conn |-> One("Upgrade"), upg |-> One("websocket"),
         ver |-> "13", key |-> "ok", origin |-> "absent", policy |-> "default", hook |-> FALSE,
         offer |-> <<>>, via |-> "dialer", subs |-> NoSubs, rh |-> "", rhext |-> FALSE,
         status |-> 101, rproto |-> "", rext |-> "none", rextra |-> FALSE, ccomp |-> FALSE]
Plain == {Base}

\* what clients ask for: nothing, one, several (order, duplicates, case), on one line or several
OfferLines == { <<>>, <<<<"chat">>>>, <<<<"chat", "superchat">>>>, <<<<"superchat", "chat">>>>, <<<<"Chat">>>>,
                <<<<"chat", "chat">>>>, <<<<"mqtt">>>>, <<<<"chat">>, <<"superchat">>>>, <<<<"mqtt">>, <<"chat", "superchat">>>> }
ServerSubs == { NoSubs, Subs(<<>>), Subs(<<"chat">>), Subs(<<"superchat", "chat">>), Subs(<<"chat", "superchat">>), Subs(<<"v2">>) }
Origins == {"absent", "same", "samecase", "samepath", "otherhost", "otherport", "suffix", "malformed", "empty"}

\* Dialer against Upgrader: protocols x server configuration x origin
NegLibProto ==
  { [Base EXCEPT !.offer = o, !.via = v, !.subs = s, !.rh = rh] :
      o \in OfferLines, v \in {"dialer", "header"}, s \in ServerSubs, rh \in {"", "chat", "v2"} }
NegLibFilter(g) == /\ (g.via = "dialer" => Len(g.offer) <= 1)            \* Dialer.Subprotocols is one list
                   /\ (g.offer = <<>> => g.via = "dialer")
NegLib == {g \in NegLibProto : NegLibFilter(g)}
       \cup { [Base EXCEPT !.origin = o, !.policy = p] : o \in Origins, p \in {"default", "allow", "deny"} }
       \cup { [Base EXCEPT !.via = "both", !.offer = <<<<"chat">>>>, !.subs = Subs(<<"chat">>)] }

\* any request against the Upgrader: the rows spec/wswire/WsHandshake.tla does not have
ConnVals == { One("Upgrade"), One("uPgRaDe"), <<<<"keep-alive">>, <<"Upgrade">>>>, <<<<"keep-alive", "Upgrade">>>>,
              <<<<"keep-alive">>>>, <<<<"Upgrade-Insecure">>>> }
UpgVals  == { One("websocket"), One("WEBSOCKET"), <<<<"h2c", "websocket">>>>, <<<<"h2c">>, <<"websocket">>>>, One("websocket13"), One("h2c") }
NegCrafted1 ==
     { [Base EXCEPT !.kind = "crafted", !.method = m, !.hook = h] : m \in {"GET", "get", "HEAD", "PUT"}, h \in BOOLEAN }
  \cup { [Base EXCEPT !.kind = "crafted", !.httpv = "1.0"] }
  \cup { [Base EXCEPT !.kind = "crafted", !.conn = c, !.upg = u] : c \in ConnVals, u \in UpgVals }
  \cup { [Base EXCEPT !.kind = "crafted", !.ver = v, !.hook = h] : v \in {"13", "13.0", "013", "8"}, h \in BOOLEAN }
  \cup { [Base EXCEPT !.kind = "crafted", !.key = k] : k \in {"ok", "short", "long", "notb64", "absent"} }
  \cup { [Base EXCEPT !.kind = "crafted", !.origin = o, !.policy = p, !.hook = h] : o \in Origins, p \in {"default", "allow", "deny"}, h \in BOOLEAN }
  \cup { [Base EXCEPT !.kind = "crafted", !.rhext = TRUE, !.hook = h] : h \in BOOLEAN }
  \cup { [Base EXCEPT !.kind = "crafted", !.offer = o, !.via = "header", !.subs = s, !.rh = rh] :
           o \in OfferLines, s \in ServerSubs, rh \in {"", "chat"} }
NegCrafted == NegCrafted1

\* the Dialer against any response
NegScripted ==
  { [Base EXCEPT !.kind = "scripted", !.offer = o, !.status = st, !.rproto = rp, !.rext = x, !.rextra = xt, !.ccomp = cc] :
      o \in {<<>>, <<<<"chat">>>>, <<<<"chat", "superchat">>>>}, st \in {101, 200, 301, 403},
      rp \in {"", "chat", "superchat", "Chat", "v2"}, x \in {"none", "pmd", "foo"}, xt \in BOOLEAN, cc \in BOOLEAN }

NegAll == NegLib \cup NegCrafted \cup NegScripted

\* ------------------------------------------------------------------ sessions
Ascii(s) == s
B(k, code, pre, fill) == Body(k, code, pre, fill)
Bye == <<98, 121, 101>>
BEmpty == B("empty", 0, <<>>, 0)
BodiesSmall == { BEmpty, B("code", 1000, <<>>, 0), B("code", 1001, Bye, 0), B("code", 999, <<>>, 0) }
BodiesAll == BodiesSmall \cup
  { B("raw1", 0, <<>>, 0),
    B("code", 3000, <<>>, 123), B("code", 3000, <<>>, 124),                 \* the longest reason, and one byte more
    B("code", 4999, <<197, 190>>, 1),                                       \* a two-byte character
    B("code", 1000, <<195, 40>>, 0), B("code", 1000, <<226, 130>>, 0),      \* not UTF-8; a character cut short
    B("code", 1005, <<>>, 0), B("code", 1006, <<>>, 0), B("code", 1015, <<>>, 0),
    B("code", 1012, <<>>, 0), B("code", 2999, <<>>, 0), B("code", 5000, <<>>, 0), B("code", 0, <<>>, 0) }
BodiesCodes == { BEmpty, B("code", 1000, <<>>, 0), B("code", 1001, Bye, 0), B("code", 1005, <<>>, 0), B("code", 3000, <<>>, 123),
                 B("code", 1000, <<195, 40>>, 0), B("code", 3000, <<>>, 124) }
BodiesRaw1 == { B("raw1", 0, <<>>, 0), B("code", 1000, <<>>, 0) }

D == [close |-> "default", ping |-> "default", pong |-> "default"]
HDefault == {D}
HCustom == { D, [close |-> "silent", ping |-> "silent", pong |-> "silent"], [close |-> "err", ping |-> "default", pong |-> "default"],
             [close |-> "default", ping |-> "err", pong |-> "default"], [close |-> "default", ping |-> "default", pong |-> "err"],
             [close |-> "own", ping |-> "silent", pong |-> "default"] }

ActsAll   == {"wdata", "wjson", "wprep", "wbegin", "wclose", "wping", "wpong", "setz", "tclose", "read"}
ActsClose == {"wdata", "wclose", "wping", "tclose", "read"}
ActsCtl   == {"wdata", "wclose", "wping", "wpong", "read"}
ActsFrag  == {"wdata", "wbegin", "wclose", "wping", "read"}
ActsData  == {"wdata", "wjson", "wprep", "setz", "read", "wclose"}
ActsLimit == {"wdata", "wbegin", "wclose", "read"}
=============================================================================
