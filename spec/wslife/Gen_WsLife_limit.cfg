INIT GenInit
NEXT GenNext
CONSTANTS
  Dev = "none"
  Family = "limit"
  WBuf = 128
  MaxOps = 3
  Acts <- ActsLimit
  CloseBodies <- BodiesSmall
  Payloads = {5}
  DataKinds = {"small", "big"}
  ReadModes = {"msg", "part"}
  HandlerSets <- HDefault
  Limits = {0, 50}
  Zs = {FALSE}
  NegSet <- Plain
INVARIANTS Emit
CHECK_DEADLOCK FALSE
