SPECIFICATION Spec
CONSTANTS
  Dev = "none"
  MaxOps = 4
  Acts <- ActsAll
  CloseBodies <- BodiesSmall
  Payloads = {0, 5}
  DataKinds = {"small"}
  ReadModes = {"msg", "part"}
  HandlerSets <- HDefault
  Limits = {0}
  Zs = {FALSE}
  NegSet <- Plain
INVARIANTS TypeOk NothingAfterClose LatchIsClose EchoMirrors EchoHappens CloseErrorSticky PongMirrorsPing NoDataAfterCloseSent StillReadable CleanCloseAgree AbnormalOnlyIfTransport
CHECK_DEADLOCK FALSE
