------------------------------- MODULE WsLife -------------------------------
(* X05 (extra, not a listed property): the LIFE of a WebSocket session.        *)
(*                                                                             *)
(* Two endpoints "c" (client role) and "s" (server role) joined by two FIFOs   *)
(* of frames.  Part 1 is the opening negotiation (RFC 6455 4.1, 4.2, 10.2,     *)
(* 11.3.4): which subprotocol both ends end up with, whether the origin is     *)
(* let in, what a request that is no handshake is answered.  Part 2 is the     *)
(* session up to its end (RFC 6455 5.5.1-5.5.3, 7.1.x, 7.4 and the doc         *)
(* comments of /repo/websocket/conn.go): one action per call an application    *)
(* makes on an endpoint,                                                       *)
(*                                                                             *)
(*   AppWriteData / AppWriteJSON / AppWritePrepared   a whole data message     *)
(*   AppBegin / AppEnd       a message written in two parts (NextWriter):      *)
(*                           the first part is on the wire before the second   *)
(*   AppWriteClose(body)     a Close frame with that body                      *)
(*   AppWritePing / AppWritePong                                               *)
(*   AppSetCompress          EnableWriteCompression                            *)
(*   AppRead(mode)           one call of ReadMessage / NextReader+short Read / *)
(*                           ReadJSON: the endpoint works through the frames   *)
(*                           that arrived (Proc below) - control frames go to  *)
(*                           the handlers, which run inside this call -        *)
(*                           until it has something to return                  *)
(*   TransportClose          Conn.Close() / UnderlyingConn().Close(): no       *)
(*                           closing handshake                                 *)
(*                                                                             *)
(* and the guarantees as invariants over the state and the last step.          *)
(* Frames are abstract ([k, t, id, first, last, sz, ...]); a data "piece" is   *)
(* one or more frames of one message with nothing in between (how a message is *)
(* cut into frames is C13's subject, framing rules of a receiver C14's, the    *)
(* write lock C15's).                                                          *)
(*                                                                             *)
(* Named deviations (CONSTANT Dev; "none" = the contract):                      *)
(*   "echo-1000"          the default close handler answers 1000, not the code *)
(*                        it received                                          *)
(*   "echo-reserved"      ... answers an empty Close with the literal 1005     *)
(*   "echo-always"        ... answers even if this endpoint sent a Close before*)
(*   "not-sticky"         a read after the Close was received reports the end  *)
(*                        of the stream instead of the same close error        *)
(*   "data-after-close"   data messages are still written after a Close        *)
(*   "pong-empty"         the default ping handler answers an empty Pong       *)
(*   "server-first-pref"  the server answers its first preference, offered or  *)
(*                        not                                                  *)
(*   "client-unoffered"   the client takes whatever subprotocol the server     *)
(*                        names (what the library does: the observation)       *)
(*   "origin-any-host"    the default origin rule lets every parsable origin in*)
EXTENDS Integers, Sequences, FiniteSets, TLC

CONSTANTS
  Dev,
  Configs,       \* the configurations a behaviour may run in; each is a record
                 \*   fam       a name (for the generators)
                 \*   maxops    bound on the number of application calls of a behaviour
                 \*   acts      names of the calls applications make
                 \*   bodies    bodies applications write into Close frames
                 \*   payloads  ping / pong payload lengths applications use (0..126)
                 \*   kinds     size classes of whole messages: "empty" | "small" | "big"
                 \*   modes     "msg" | "part" | "json"
                 \*   handlers  the [close, ping, pong] handler modes endpoints may be set up with
                 \*   limits    read limits (0: none)
                 \*   zs        subset of BOOLEAN: is permessage-deflate negotiated
  NegSet         \* the negotiations a behaviour may start with

VARIABLE cf      \* the configuration of this behaviour (chosen at the start, never changes)
MaxOps      == cf.maxops
Acts        == cf.acts
CloseBodies == cf.bodies
Payloads    == cf.payloads
DataKinds   == cf.kinds
ReadModes   == cf.modes

E == {"c", "s"}
Peer(e) == IF e = "c" THEN "s" ELSE "c"

\* ===================================================================== part 1
\* --------------------------------------------------------------- negotiation
\* A negotiation is a record
\*   kind    "lib": Dialer against Upgrader   "crafted": any request against the Upgrader
\*           "scripted": the Dialer against any response
\*   method, httpv, conn, upg, ver, key, origin            the request (header values: sequences of
\*           header LINES, a line is a sequence of list elements)
\*   offer   the Sec-WebSocket-Protocol lines of the request; via: how a Dialer is told ("dialer": its
\*           Subprotocols field, "header": the requestHeader argument)
\*   subs    [set, l]: Upgrader.Subprotocols (set = FALSE: nil)      rh: Sec-Websocket-Protocol of the
\*           responseHeader argument ("" none)   rhext: responseHeader carries Sec-Websocket-Extensions
\*   policy  "default" | "allow" | "deny" (CheckOrigin)    hook: Upgrader.Error is set
\*   status, rproto, rext, rextra    the scripted response: status, Sec-WebSocket-Protocol ("" none),
\*           Sec-WebSocket-Extensions ("none" | "pmd" | "foo"), other headers present
\*   ccomp   Dialer.EnableCompression
RECURSIVE Flat(_)
Flat(lines) == IF lines = <<>> THEN <<>> ELSE Head(lines) \o Flat(Tail(lines))
InSeq(x, s) == \E i \in DOMAIN s : s[i] = x

\* tokens of Connection / Upgrade match ASCII case-insensitively (RFC 6455 4.2.1 items 3, 4)
Lower(t) == CASE t \in {"Upgrade", "UPGRADE", "upgrade", "uPgRaDe"}  -> "upgrade"
              [] t \in {"websocket", "WebSocket", "WEBSOCKET"}       -> "websocket"
              [] OTHER                                               -> t
\* RFC 7230 3.2.2: several header lines of one name are one list (RFC 6455 11.3.4 repeats it for Sec-WebSocket-Protocol)
HasTok(lines, t) == \E x \in {Flat(lines)[i] : i \in DOMAIN Flat(lines)} : Lower(x) = t
Offers(g) == Flat(g.offer)

\* origins, as facts about the Origin header relative to the Host header of the request
\*   present: the header is there   parses: it is a URL   host / port: equal to Host's (host names compare
\*   ASCII case-insensitively, RFC 3986 3.2.2, RFC 6454 4)
OriginFacts(o) ==
  CASE o = "absent"     -> [present |-> FALSE, parses |-> TRUE,  host |-> TRUE,  port |-> TRUE]
    [] o = "same"       -> [present |-> TRUE,  parses |-> TRUE,  host |-> TRUE,  port |-> TRUE]
    [] o = "samecase"   -> [present |-> TRUE,  parses |-> TRUE,  host |-> TRUE,  port |-> TRUE]   \* EXAMPLE.test for example.test
    [] o = "samepath"   -> [present |-> TRUE,  parses |-> TRUE,  host |-> TRUE,  port |-> TRUE]   \* with a path; https for http
    [] o = "otherhost"  -> [present |-> TRUE,  parses |-> TRUE,  host |-> FALSE, port |-> TRUE]
    [] o = "otherport"  -> [present |-> TRUE,  parses |-> TRUE,  host |-> TRUE,  port |-> FALSE]
    [] o = "suffix"     -> [present |-> TRUE,  parses |-> TRUE,  host |-> FALSE, port |-> TRUE]   \* Host is a suffix of the origin's host
    [] o = "malformed"  -> [present |-> TRUE,  parses |-> FALSE, host |-> FALSE, port |-> FALSE]
    [] o = "empty"      -> [present |-> TRUE,  parses |-> TRUE,  host |-> FALSE, port |-> FALSE]  \* "Origin:" with no value
\* doc.go "Origin Considerations": the default fails the handshake "if the Origin request header is present and
\* not equal to the Host request header"; a custom CheckOrigin decides alone
OriginOk(o, policy) ==
  CASE policy = "allow" -> TRUE
    [] policy = "deny"  -> FALSE
    [] OTHER -> LET f == OriginFacts(o) IN
                IF Dev = "origin-any-host" THEN f.parses
                ELSE ~f.present \/ (f.parses /\ f.host /\ f.port)

\* RFC 6455 4.2.1 items 1-6 (+ 10.2 origin, + the library's own refusal of application extensions)
ServerFailures(g) ==
     (IF g.method # "GET"                  THEN {"method"}      ELSE {})   \* RFC 7230 3.1.1: methods are case-sensitive
  \cup (IF g.httpv # "1.1"                 THEN {"httpversion"} ELSE {})   \* item 1: HTTP/1.1 or higher
  \cup (IF ~HasTok(g.conn, "upgrade")      THEN {"connection"}  ELSE {})
  \cup (IF ~HasTok(g.upg, "websocket")     THEN {"upgrade"}     ELSE {})
  \cup (IF g.ver # "13"                    THEN {"version"}     ELSE {})
  \cup (IF g.key # "ok"                    THEN {"key"}         ELSE {})   \* item 5: base64 of 16 bytes
  \cup (IF ~OriginOk(g.origin, g.policy)   THEN {"origin"}      ELSE {})
  \cup (IF g.rhext                         THEN {"appext"}      ELSE {})
StatusOf(f) == CASE f = "method"  -> {405, 400}
                 [] f = "version" -> {400, 426}
                 [] f = "origin"  -> {403}
                 [] f = "appext"  -> {500}
                 [] OTHER         -> {400}
RejectStatuses(g) == UNION {StatusOf(f) : f \in ServerFailures(g)}
ServerOk(g) == ServerFailures(g) = {}

\* Upgrader.Subprotocols: "selecting the first match in this list with a protocol requested by the client";
\* not set: the application's choice in responseHeader.  Names compare as they are (RFC 6455 4.1 item 10, 11.5)
FirstMatch(S, O) ==
  LET I == {i \in DOMAIN S : InSeq(S[i], O)}
  IN  IF I = {} THEN "" ELSE S[CHOOSE i \in I : \A j \in I : i <= j]
Chosen(g) ==
  IF g.subs.set
  THEN IF Dev = "server-first-pref" /\ g.subs.l # <<>> THEN g.subs.l[1] ELSE FirstMatch(g.subs.l, Offers(g))
  ELSE g.rh

\* the response the client judges
Response(g) ==
  IF g.kind = "scripted" THEN [status |-> g.status, proto |-> g.rproto, ext |-> g.rext]
  ELSE IF ServerOk(g) THEN [status |-> 101, proto |-> Chosen(g), ext |-> "none"]
  ELSE [status |-> 0, proto |-> "", ext |-> "none"]              \* some status of RejectStatuses
\* RFC 6455 4.1: the client MUST fail the connection if the status is not 101 (item 1 of the response checks), if
\* the response names an extension (item 5) or a subprotocol (item 6) that was not in its handshake
ClientOk(g) ==
  LET r == Response(g) IN
  /\ r.status = 101
  /\ (r.proto = "" \/ InSeq(r.proto, Offers(g)) \/ Dev = "client-unoffered")
  /\ (r.ext = "none" \/ (r.ext = "pmd" /\ g.ccomp))

\* a Dialer refuses to start when it is given the protocols twice (client.go: "duplicate header not allowed")
DialerRefuses(g) == g.kind # "crafted" /\ g.via = "both"
SessionUp(g) == CASE g.kind = "crafted"  -> ServerOk(g)
                  [] g.kind = "scripted" -> ~DialerRefuses(g) /\ ClientOk(g)
                  [] OTHER               -> ~DialerRefuses(g) /\ ServerOk(g) /\ ClientOk(g)
\* Conn.Subprotocol() of each endpoint that exists
SubOf(g, e) == IF e = "s" THEN Chosen(g) ELSE Response(g).proto

\* ===================================================================== part 2
\* ------------------------------------------------------------------- frames
NoBody == [k |-> "none", code |-> 0, pre |-> <<>>, fill |-> 0]
\* a Close body: "empty" | "raw1" (one byte) | "code": 2-byte code, then the reason = bytes pre, then fill times "a"
Body(k, code, pre, fill) == [k |-> k, code |-> code, pre |-> pre, fill |-> fill]
\* a Close the endpoint writes on its own account (echo, 1002, 1009): the reason is the implementation's business
FreeReason == -1
BodyLen(b) == CASE b.k = "empty" -> 0 [] b.k = "raw1" -> 1 [] OTHER -> 2 + Len(b.pre) + b.fill

Data(t, id, first, last, sz, zz, js) ==
  [k |-> "data", t |-> t, id |-> id, first |-> first, last |-> last, sz |-> sz, z |-> zz, js |-> js,
   p |-> 0, body |-> NoBody, auto |-> FALSE]
Ctl(k, p, auto) ==
  [k |-> k, t |-> 0, id |-> 0, first |-> TRUE, last |-> TRUE, sz |-> "ctl", z |-> FALSE, js |-> FALSE,
   p |-> p, body |-> NoBody, auto |-> auto]
Cls(b, auto) ==
  [k |-> "close", t |-> 0, id |-> 0, first |-> TRUE, last |-> TRUE, sz |-> "ctl", z |-> FALSE, js |-> FALSE,
   p |-> 0, body |-> b, auto |-> auto]

\* RFC 3629 (copied from spec/ws/WsReader.tla)
Drop(s, k) == SubSeq(s, k + 1, Len(s))
IsCont(b) == b \in 128..191
RECURSIVE Utf8Ok(_)
Utf8Ok(s) ==
  IF s = <<>> THEN TRUE ELSE
  LET b == s[1]  L == Len(s) IN
  IF b <= 127 THEN Utf8Ok(Drop(s, 1))
  ELSE IF b \in 194..223 THEN L >= 2 /\ IsCont(s[2]) /\ Utf8Ok(Drop(s, 2))
  ELSE IF b = 224 THEN L >= 3 /\ s[2] \in 160..191 /\ IsCont(s[3]) /\ Utf8Ok(Drop(s, 3))
  ELSE IF b \in (225..236) \cup {238, 239} THEN L >= 3 /\ IsCont(s[2]) /\ IsCont(s[3]) /\ Utf8Ok(Drop(s, 3))
  ELSE IF b = 237 THEN L >= 3 /\ s[2] \in 128..159 /\ IsCont(s[3]) /\ Utf8Ok(Drop(s, 3))
  ELSE IF b = 240 THEN L >= 4 /\ s[2] \in 144..191 /\ IsCont(s[3]) /\ IsCont(s[4]) /\ Utf8Ok(Drop(s, 4))
  ELSE IF b \in 241..243 THEN L >= 4 /\ IsCont(s[2]) /\ IsCont(s[3]) /\ IsCont(s[4]) /\ Utf8Ok(Drop(s, 4))
  ELSE IF b = 244 THEN L >= 4 /\ s[2] \in 128..143 /\ IsCont(s[3]) /\ IsCont(s[4]) /\ Utf8Ok(Drop(s, 4))
  ELSE FALSE

\* RFC 6455 7.4.1, 7.4.2 and the IANA registry: codes that may travel in a Close frame
ValidCloseCode(c) == c \in {1000, 1001, 1002, 1003, 1007, 1008, 1009, 1010, 1011, 1012, 1013} \cup (3000..4999)
\* 7.4.1: "MUST NOT be set as a status code in a Close control frame by an endpoint"
ReservedCode(c) == c \in {1005, 1006, 1015}

\* what the receiver of a Close frame makes of its body (5.5.1, 7.1.5, 7.4, 8.1)
CloseDecode(b) ==
  IF b.k = "empty" THEN [ok |-> TRUE, code |-> 1005, pre |-> <<>>, fill |-> 0]     \* 7.1.5: no status code -> 1005
  ELSE IF b.k = "raw1" THEN [ok |-> FALSE, code |-> 0, pre |-> <<>>, fill |-> 0]   \* 5.5.1: a body starts with a 2-byte code
  ELSE IF ValidCloseCode(b.code) /\ Utf8Ok(b.pre)                                  \* 8.1: a reason that is not UTF-8 fails the connection
       THEN [ok |-> TRUE, code |-> b.code, pre |-> b.pre, fill |-> b.fill]
       ELSE [ok |-> FALSE, code |-> 0, pre |-> <<>>, fill |-> 0]

\* ------------------------------------------------------------------- state
VARIABLES
  neg,      \* the negotiation this behaviour started with
  z,        \* permessage-deflate is in use
  hm,       \* e -> [close, ping, pong]: "default" or the mode of a handler the application set
  lim,      \* e -> read limit
  wc,       \* e -> EnableWriteCompression
  wl,       \* e -> write latch: "open" | "closesent" | "io"
  rs,       \* e -> sticky read error, Open: none
  q,        \* e -> frames e wrote that its peer has not worked through yet
  ow,       \* e -> the message whose first part is written ([on, t, id])
  rmid,     \* e -> the application left a reader inside a message ([on, last]: was its piece the message's last)
  td,       \* endpoints that closed the transport
  n,        \* calls so far
  last,     \* the last step: [a, e, arg, ret, wrote, hc]
  sent,     \* e -> every frame e ever wrote (observer)
  ferr,     \* e -> the first error a read of e returned (observer)
  pp        \* e -> [pings, pongs]: payloads of the pings e's default handler answered, and of its answers (observer)
vars == <<cf, neg, z, hm, lim, wc, wl, rs, q, ow, rmid, td, n, last, sent, ferr, pp>>

Open == [c |-> "open", code |-> 0, pre |-> <<>>, fill |-> 0]
Err(c, code, pre, fill) == [c |-> c, code |-> code, pre |-> pre, fill |-> fill]
\* what a call returns: writes "ok" | "closesent" | "io" | "invalid"; reads "msg" | "part" | "json" | "jsonerr" |
\* "ueof" or an error class "close" (code, reason) | "eof" (7.1.5: 1006) | "protocol" | "limit" | "handler" | "io"
Ret(c) == [c |-> c, code |-> 0, pre |-> <<>>, fill |-> 0, t |-> 0, id |-> 0, sz |-> ""]
RetErr(x) == [c |-> x.c, code |-> x.code, pre |-> x.pre, fill |-> x.fill, t |-> 0, id |-> 0, sz |-> ""]
RetMsg(c, f) == [c |-> c, code |-> 0, pre |-> <<>>, fill |-> 0, t |-> f.t, id |-> f.id, sz |-> f.sz]

NoWrite == [e \in E |-> <<>>]
Step(a, e, arg, ret, wrote, hc) == [a |-> a, e |-> e, arg |-> arg, ret |-> ret, wrote |-> wrote, hc |-> hc]
NoArg == [sz |-> "", t |-> 0, p |-> 0, b |-> FALSE, mode |-> "", body |-> NoBody]

\* --------------------------------------------------------------- the writer
\* a frame reaches the wire if no Close was sent, no write failed before, and the transport is there
CanWrite(e) == /\ td = {}
               /\ \/ wl[e] = "open"
                  \/ (Dev = "data-after-close" /\ wl[e] = "closesent")
WClass(e)  == IF wl[e] # "open" THEN wl[e] ELSE "io"       \* what a write that cannot be done returns
WlFail(e)  == IF wl[e] = "open" THEN "io" ELSE wl[e]       \* ... and leaves in the latch
\* control frames (and with them the Close of the handlers) look at the latch in every model
CanWriteCtl(e) == td = {} /\ wl[e] = "open"

Emit1(e, f) == /\ q' = [q EXCEPT ![e] = Append(@, f)]
               /\ sent' = [sent EXCEPT ![e] = Append(@, f)]

\* a write of the application: frame f, or the error
Able(e, f) == IF f.k = "data" THEN CanWrite(e) ELSE CanWriteCtl(e)
AppWrite(a, e, arg, f, closes) ==
  IF Able(e, f)
  THEN /\ Emit1(e, f)
       /\ wl' = IF closes THEN [wl EXCEPT ![e] = "closesent"] ELSE wl
       /\ last' = Step(a, e, arg, Ret("ok"), [NoWrite EXCEPT ![e] = <<f>>], <<>>)
  ELSE /\ wl' = [wl EXCEPT ![e] = WlFail(e)]
       /\ last' = Step(a, e, arg, Ret(WClass(e)), NoWrite, <<>>)
       /\ UNCHANGED <<q, sent>>

Tick == n < MaxOps /\ n' = n + 1

AppWriteData(e) ==
  /\ "wdata" \in Acts /\ Tick /\ ~ow[e].on
  /\ \E sz \in DataKinds, t \in {1, 2} :
       AppWrite("wdata", e, [NoArg EXCEPT !.sz = sz, !.t = t], Data(t, n + 1, TRUE, TRUE, sz, z /\ wc[e], FALSE), FALSE)
  /\ UNCHANGED <<neg, z, hm, lim, wc, rs, ow, rmid, td, ferr, pp>>

AppWriteJSON(e) ==
  /\ "wjson" \in Acts /\ Tick /\ ~ow[e].on
  /\ AppWrite("wjson", e, NoArg, Data(1, n + 1, TRUE, TRUE, "json", z /\ wc[e], TRUE), FALSE)
  /\ UNCHANGED <<neg, z, hm, lim, wc, rs, ow, rmid, td, ferr, pp>>

\* one PreparedMessage (binary, id 0) is shared by both endpoints
AppWritePrepared(e) ==
  /\ "wprep" \in Acts /\ Tick /\ ~ow[e].on
  /\ AppWrite("wprep", e, NoArg, Data(2, 0, TRUE, TRUE, "pm", z /\ wc[e], FALSE), FALSE)
  /\ UNCHANGED <<neg, z, hm, lim, wc, rs, ow, rmid, td, ferr, pp>>

\* NextWriter + a first part larger than the write buffer: at least one non-final frame is on the wire
AppBegin(e) ==
  /\ "wbegin" \in Acts /\ Tick /\ ~ow[e].on /\ ~(z /\ wc[e])
  /\ \E t \in {1, 2} :
       /\ AppWrite("wbegin", e, [NoArg EXCEPT !.t = t], Data(t, n + 1, TRUE, FALSE, "big", FALSE, FALSE), FALSE)
       /\ ow' = IF CanWrite(e) THEN [ow EXCEPT ![e] = [on |-> TRUE, t |-> t, id |-> n + 1]] ELSE ow
  /\ UNCHANGED <<neg, z, hm, lim, wc, rs, rmid, td, ferr, pp>>

\* the second part and Close of the writer
AppEnd(e) ==
  /\ "wbegin" \in Acts /\ Tick /\ ow[e].on
  /\ AppWrite("wend", e, NoArg, Data(ow[e].t, ow[e].id, FALSE, TRUE, "big", FALSE, FALSE), FALSE)
  /\ ow' = [ow EXCEPT ![e] = [on |-> FALSE, t |-> 0, id |-> 0]]
  /\ UNCHANGED <<neg, z, hm, lim, wc, rs, rmid, td, ferr, pp>>

\* 5.5: a control frame carries at most 125 bytes; a larger one is refused and changes nothing
AppWriteClose(e) ==
  /\ "wclose" \in Acts /\ Tick
  /\ \E b \in CloseBodies :
       IF BodyLen(b) > 125
       THEN /\ CanWriteCtl(e)               \* (which of two errors a doubly wrong call gets is nobody's business)
            /\ last' = Step("wclose", e, [NoArg EXCEPT !.body = b], Ret("invalid"), NoWrite, <<>>)
            /\ UNCHANGED <<q, sent, wl>>
       ELSE AppWrite("wclose", e, [NoArg EXCEPT !.body = b], Cls(b, FALSE), TRUE)
  /\ UNCHANGED <<neg, z, hm, lim, wc, rs, ow, rmid, td, ferr, pp>>

AppWriteCtl(e, k) ==
  /\ ("w" \o k) \in Acts /\ Tick
  /\ \E p \in Payloads :
       IF p > 125
       THEN /\ CanWriteCtl(e)
            /\ last' = Step("w" \o k, e, [NoArg EXCEPT !.p = p], Ret("invalid"), NoWrite, <<>>)
            /\ UNCHANGED <<q, sent, wl>>
       ELSE AppWrite("w" \o k, e, [NoArg EXCEPT !.p = p], Ctl(k, p, FALSE), FALSE)
  /\ UNCHANGED <<neg, z, hm, lim, wc, rs, ow, rmid, td, ferr, pp>>

AppSetCompress(e) ==
  /\ "setz" \in Acts /\ Tick /\ z
  /\ wc' = [wc EXCEPT ![e] = ~@]
  /\ last' = Step("setz", e, [NoArg EXCEPT !.b = ~wc[e]], Ret("ok"), NoWrite, <<>>)
  /\ UNCHANGED <<neg, z, hm, lim, wl, rs, q, ow, rmid, td, sent, ferr, pp>>

TransportClose(e) ==
  /\ "tclose" \in Acts /\ Tick /\ e \notin td
  /\ td' = td \cup {e}
  /\ last' = Step("tclose", e, NoArg, Ret("ok"), NoWrite, <<>>)
  /\ UNCHANGED <<neg, z, hm, lim, wc, wl, rs, q, ow, rmid, sent, ferr, pp>>

\* --------------------------------------------------------------- the reader
\* One read call works through the frames that arrived.  The accumulator:
\*   i      next frame of q[Peer(e)]       skip   frames of a message the application abandoned are dropped
\*   cur    a message is being assembled (mode "msg")
\*   out    frames e wrote meanwhile       hc     calls of handlers the application set
\*   pg     pings answered by the default handler
\* The result: [c |-> "block"] if the call would wait for more frames, else what it returns and leaves behind.
Acc0(e) == [i |-> 1, skip |-> rmid[e].on /\ ~rmid[e].last, cur |-> FALSE, out |-> <<>>, hc |-> <<>>, pg |-> <<>>]
HC(k, code, pre, fill, p) == [k |-> k, code |-> code, pre |-> pre, fill |-> fill, p |-> p]

\* the read call ends: ret returned, rs' the sticky error if any, mid' the reader state, closes: e wrote a Close
Term(a, ret, err, mid, closes, wfail) ==
  [c |-> "term", i |-> a.i, ret |-> ret, err |-> err, mid |-> mid, out |-> a.out, hc |-> a.hc, pg |-> a.pg,
   closes |-> closes, wfail |-> wfail]
NoMid == [on |-> FALSE, last |-> FALSE]
\* an error that sticks
Fail(a, x) == Term(a, RetErr(x), x, NoMid, FALSE, FALSE)
\* ... after the endpoint tried to tell the peer with a Close frame of that code (7.1.7: fail the connection)
FailWithClose(e, a, x, code) ==
  IF CanWriteCtl(e)
  THEN Term([a EXCEPT !.out = Append(@, Cls(Body("code", code, <<>>, FreeReason), TRUE))], RetErr(x), x, NoMid, TRUE, FALSE)
  ELSE Term(a, RetErr(x), x, NoMid, FALSE, wl[e] = "open")

EchoBody(d) ==
  CASE Dev = "echo-1000"     -> Body("code", 1000, <<>>, FreeReason)
    [] Dev = "echo-reserved" -> Body("code", d.code, <<>>, FreeReason)
    [] OTHER                 -> IF d.code = 1005 THEN Body("empty", 0, <<>>, 0) ELSE Body("code", d.code, <<>>, FreeReason)

RECURSIVE Proc(_, _, _)
Proc(e, mode, a) ==
  LET Q == q[Peer(e)] IN
  IF a.i > Len(Q)
  THEN \* nothing more has arrived: the end of the stream if the peer closed the transport (7.1.5: 1006), else wait
       IF Peer(e) \in td THEN Fail(a, Err("eof", 1006, <<>>, 0)) ELSE [c |-> "block"]
  ELSE
  LET f == Q[a.i]   nx == [a EXCEPT !.i = @ + 1] IN
  CASE f.k = "ping" ->
         (CASE hm[e].ping = "default" ->
                 \* "The default ping handler sends a pong to the peer" - with the ping's application data (5.5.3)
                 IF CanWriteCtl(e)
                 THEN Proc(e, mode, [nx EXCEPT !.out = Append(@, Ctl("pong", IF Dev = "pong-empty" THEN 0 ELSE f.p, TRUE)),
                                               !.pg = Append(@, f.p)])
                 ELSE IF wl[e] = "closesent" THEN Proc(e, mode, nx)     \* nothing follows a Close (5.5.1)
                 ELSE Term(nx, RetErr(Err("io", 0, <<>>, 0)), Err("io", 0, <<>>, 0), NoMid, FALSE, wl[e] = "open")
            [] hm[e].ping = "silent"  -> Proc(e, mode, [nx EXCEPT !.hc = Append(@, HC("ping", 0, <<>>, 0, f.p))])
            [] hm[e].ping = "err"     -> Fail([nx EXCEPT !.hc = Append(@, HC("ping", 0, <<>>, 0, f.p))], Err("handler", 0, <<>>, 0)))
    [] f.k = "pong" ->
         (CASE hm[e].pong = "default" -> Proc(e, mode, nx)              \* "The default pong handler does nothing"
            [] hm[e].pong = "silent"  -> Proc(e, mode, [nx EXCEPT !.hc = Append(@, HC("pong", 0, <<>>, 0, f.p))])
            [] hm[e].pong = "err"     -> Fail([nx EXCEPT !.hc = Append(@, HC("pong", 0, <<>>, 0, f.p))], Err("handler", 0, <<>>, 0)))
    [] f.k = "close" ->
         LET d == CloseDecode(f.body)
             x == Err("close", d.code, d.pre, d.fill)
             called == [nx EXCEPT !.hc = Append(@, HC("close", d.code, d.pre, d.fill, 0))] IN
         IF ~d.ok THEN FailWithClose(e, nx, Err("protocol", 0, <<>>, 0), 1002)
         ELSE (CASE hm[e].close = "default" ->
                      \* "The default close handler sends a close frame back to the peer" (5.5.1: "typically echos
                      \* the status code it received"; 7.4.1: never the reserved 1005) unless this endpoint sent one
                      IF CanWriteCtl(e) \/ (Dev = "echo-always" /\ td = {} /\ wl[e] = "closesent")
                      THEN Term([nx EXCEPT !.out = Append(@, Cls(EchoBody(d), TRUE))], RetErr(x), x, NoMid, TRUE, FALSE)
                      ELSE Term(nx, RetErr(x), x, NoMid, FALSE, wl[e] = "open")
                 [] hm[e].close = "silent" -> Fail(called, x)
                 [] hm[e].close = "err"    -> Fail(called, Err("handler", 0, <<>>, 0))
                 [] hm[e].close = "own"    -> \* the handler sends its own Close 1000 "bye"
                      IF CanWriteCtl(e)
                      THEN Term([called EXCEPT !.out = Append(@, Cls(Body("code", 1000, <<98, 121, 101>>, 0), FALSE))],
                                RetErr(x), x, NoMid, TRUE, FALSE)
                      ELSE Term(called, RetErr(x), x, NoMid, FALSE, wl[e] = "open"))
    [] OTHER -> \* a data piece
         IF a.skip THEN Proc(e, mode, [nx EXCEPT !.skip = ~f.last])
         ELSE IF lim[e] > 0 /\ f.sz = "big"
              \* SetReadLimit: "the connection sends a close frame to the peer and returns ErrReadLimit" (7.4.1: 1009)
              THEN FailWithClose(e, nx, Err("limit", 0, <<>>, 0), 1009)
         ELSE IF mode = "msg" \/ (f.first /\ f.sz = "empty")
              THEN IF f.last THEN Term(nx, RetMsg(IF f.sz = "empty" /\ mode = "json" THEN "ueof" ELSE "msg", f), Open, NoMid, FALSE, FALSE)
                   ELSE Proc(e, mode, [nx EXCEPT !.cur = TRUE])
         ELSE IF mode = "json" /\ f.js
              THEN Term(nx, RetMsg("json", f), Open, [on |-> TRUE, last |-> f.last], FALSE, FALSE)
         ELSE \* "part": the application reads a few bytes and leaves; "json" on something else: the decoder gives up
              Term(nx, RetMsg(IF mode = "json" THEN "jsonerr" ELSE "part", f), Open, [on |-> TRUE, last |-> f.last], FALSE, FALSE)

AppRead(e) ==
  /\ "read" \in Acts /\ Tick /\ e \notin td
  /\ \E mode \in ReadModes :
     IF rs[e] # Open
     THEN \* NextReader: "Once this method returns a non-nil error, all subsequent calls to this method return the same error"
          /\ last' = Step("read", e, [NoArg EXCEPT !.mode = mode],
                          IF Dev = "not-sticky" /\ rs[e].c = "close" THEN RetErr(Err("eof", 1006, <<>>, 0)) ELSE RetErr(rs[e]),
                          NoWrite, <<>>)
          /\ UNCHANGED <<q, sent, wl, rs, rmid, ferr, pp>>
     ELSE LET r == Proc(e, mode, Acc0(e)) IN
          /\ r.c = "term"
          /\ q' = [q EXCEPT ![Peer(e)] = SubSeq(@, r.i, Len(@)), ![e] = @ \o r.out]
          /\ sent' = [sent EXCEPT ![e] = @ \o r.out]
          /\ wl' = [wl EXCEPT ![e] = IF r.closes THEN "closesent" ELSE IF r.wfail THEN "io" ELSE @]
          /\ rs' = [rs EXCEPT ![e] = r.err]
          /\ rmid' = [rmid EXCEPT ![e] = r.mid]
          /\ ferr' = [ferr EXCEPT ![e] = IF @ = Open THEN r.err ELSE @]
          /\ pp' = [pp EXCEPT ![e] = [pings |-> @.pings \o r.pg,
                                      pongs |-> @.pongs \o [j \in 1..Len(SelectSeq(r.out, LAMBDA g : g.k = "pong")) |->
                                                              SelectSeq(r.out, LAMBDA g : g.k = "pong")[j].p]]]
          /\ last' = Step("read", e, [NoArg EXCEPT !.mode = mode], r.ret, [NoWrite EXCEPT ![e] = r.out], r.hc)
  /\ UNCHANGED <<neg, z, hm, lim, wc, ow, td>>

\* --------------------------------------------------------------------- spec
NoOw == [on |-> FALSE, t |-> 0, id |-> 0]
Init ==
  /\ cf \in Configs
  /\ neg \in NegSet
  /\ z \in cf.zs
  /\ hm \in [E -> cf.handlers]
  /\ lim \in [E -> cf.limits]
  /\ \A e \in E : lim[e] > 0 => ~z              \* a limit counts bytes of frames: not combined with compression
  /\ wc = [e \in E |-> TRUE]
  /\ wl = [e \in E |-> "open"] /\ rs = [e \in E |-> Open]
  /\ q = [e \in E |-> <<>>] /\ sent = [e \in E |-> <<>>]
  /\ ow = [e \in E |-> NoOw] /\ rmid = [e \in E |-> NoMid]
  /\ td = {} /\ n = 0
  /\ last = Step("init", "c", NoArg, Ret("ok"), NoWrite, <<>>)
  /\ ferr = [e \in E |-> Open]
  /\ pp = [e \in E |-> [pings |-> <<>>, pongs |-> <<>>]]

Live == SessionUp(neg) /\ neg.kind = "lib"        \* both endpoints exist
Next == /\ Live
        /\ cf' = cf
        /\ \E e \in E : \/ AppWriteData(e) \/ AppWriteJSON(e) \/ AppWritePrepared(e) \/ AppBegin(e) \/ AppEnd(e)
                        \/ AppWriteClose(e) \/ AppWriteCtl(e, "ping") \/ AppWriteCtl(e, "pong")
                        \/ AppSetCompress(e) \/ TransportClose(e) \/ AppRead(e)
Spec == Init /\ [][Next]_vars

\* =============================================================== properties
\* ---------------------------------------------------------------- negotiation
\* 4.2.2 item 5 /subprotocol/: "MUST be derived from the client's handshake": a server that negotiates
\* (Upgrader.Subprotocols set) only names what was offered
ServerSelectsOffered == (neg.kind # "scripted" /\ neg.subs.set /\ ServerOk(neg)) => (Chosen(neg) = "" \/ InSeq(Chosen(neg), Offers(neg)))
\* ... and it names its most preferred one of them
ServerPrefers == (neg.kind # "scripted" /\ neg.subs.set /\ ServerOk(neg) /\ Dev = "none") =>
                   \A i \in DOMAIN neg.subs.l : InSeq(neg.subs.l[i], Offers(neg)) =>
                     \E j \in 1..i : neg.subs.l[j] = Chosen(neg)
\* 4.1 item 6: no session with a subprotocol the client did not ask for
NegotiatedProtocolOffered == (neg.kind # "crafted" /\ SessionUp(neg)) => (SubOf(neg, "c") = "" \/ InSeq(SubOf(neg, "c"), Offers(neg)))
\* Conn.Subprotocol() is the same at both ends
AgreeSubprotocol == (neg.kind = "lib" /\ SessionUp(neg)) => SubOf(neg, "c") = SubOf(neg, "s")
\* 10.2 / doc.go: under the default rule no session with an origin of another host or port
SameOriginOnly == (neg.kind # "scripted" /\ neg.policy = "default" /\ ServerOk(neg)) =>
                    LET f == OriginFacts(neg.origin) IN ~f.present \/ (f.host /\ f.port)
\* a session needs a handshake
UpOnlyIfHandshake == (neg.kind # "scripted" /\ SessionUp(neg)) => ServerFailures(neg) = {}

\* ---------------------------------------------------------------- lifecycle
Closes(s) == SelectSeq(s, LAMBDA f : f.k = "close")
\* RFC 6455 state of an endpoint
StateOf(e) ==
  LET snt == Closes(sent[e]) # <<>>   rcv == rs[e].c = "close" IN
  CASE td # {} \/ (snt /\ rcv) -> "Closed"
    [] snt -> "CloseSent"
    [] rcv -> "CloseReceived"
    [] rs[e].c \in {"eof", "io"} -> "Closed"
    [] OTHER -> "Open"

TypeOk ==
  /\ wl \in [E -> {"open", "closesent", "io"}]
  /\ \A e \in E : rs[e].c \in {"open", "close", "eof", "protocol", "limit", "handler", "io"}
  /\ td \subseteq E /\ n \in 0..MaxOps
  /\ \A e \in E : Len(q[e]) <= Len(sent[e])

\* 5.5.1 / 1.4: "After sending a control frame indicating the connection should be closed, a peer does not send any
\* further data": a Close frame is the last frame of its direction (so at most one: no second echo, no data, no pong)
NothingAfterClose == \A e \in E : \A i \in DOMAIN sent[e] : sent[e][i].k = "close" => i = Len(sent[e])
\* ... and the latch knows it
LatchIsClose == \A e \in E : (wl[e] = "closesent") = (Closes(sent[e]) # <<>>)
\* the echo: a Close frame written by the endpoint itself answers a Close it received, carries that code
\* (or no body for "no status"), and is never a reserved code
EchoMirrors ==
  \A e \in E : \A i \in DOMAIN sent[e] :
    LET f == sent[e][i] IN
    (f.k = "close" /\ f.auto) =>
      /\ f.body.k = "empty" \/ (f.body.k = "code" /\ ValidCloseCode(f.body.code))
      /\ rs[e].c = "close" => (IF rs[e].code = 1005 THEN f.body.k = "empty" ELSE f.body.k = "code" /\ f.body.code = rs[e].code)
      /\ rs[e].c \in {"close", "protocol", "limit"}
\* at most one Close of an endpoint's own making, and none after the endpoint sent a Close itself
EchoOnce ==
  \A e \in E : LET own == SelectSeq(sent[e], LAMBDA f : f.k = "close" /\ f.auto) IN
     /\ Len(own) <= 1
     /\ own # <<>> => Len(Closes(sent[e])) = 1
\* a Close that arrives at an endpoint with default handlers, nothing sent yet and the transport up is answered
EchoHappens ==
  \A e \in E : (last.a = "read" /\ last.e = e /\ last.ret.c = "close" /\ hm[e].close = "default" /\ td = {}) =>
     Closes(sent[e]) # <<>>
\* the read error is permanent: every read after the first failing one returns that error
CloseErrorSticky ==
  (last.a = "read" /\ ferr[last.e] # Open) =>
     /\ last.ret = RetErr(ferr[last.e])
     /\ rs[last.e] = ferr[last.e]
\* 5.5.3: "A Pong frame sent in response to a Ping frame must have identical Application data"
PongMirrorsPing == \A e \in E : pp[e].pongs = pp[e].pings
\* after its own Close an endpoint writes no data but still hears the peer: ErrCloseSent for writes ...
NoDataAfterCloseSent ==
  (last.a \in {"wdata", "wjson", "wprep", "wbegin", "wend", "wping", "wpong", "wclose"} /\ last.ret.c = "ok") =>
     \A i \in 1..(Len(sent[last.e]) - 1) : sent[last.e][i].k # "close"
\* ... and a whole message of the peer that has arrived is still delivered
StillReadable ==
  \A e \in E : (wl[e] = "closesent" /\ rs[e] = Open /\ e \notin td /\ ~rmid[e].on /\ q[Peer(e)] # <<>> /\
                q[Peer(e)][1].k = "data" /\ q[Peer(e)][1].first /\ q[Peer(e)][1].last /\ lim[e] = 0) =>
     Proc(e, "msg", Acc0(e)).ret.c = "msg"
\* a clean closing handshake: when both ends hold a close error and only one of them started, both hold the
\* same code (default handlers)
CleanCloseAgree ==
  (/\ rs["c"].c = "close" /\ rs["s"].c = "close"
   /\ hm["c"].close = "default" /\ hm["s"].close = "default"
   /\ \E e \in E : Closes(sent[e])[1].auto /\ ~Closes(sent[Peer(e)])[1].auto)
  => rs["c"].code = rs["s"].code
\* 7.1.5: an endpoint that saw the stream end without a Close frame reports 1006, and only then
AbnormalOnlyIfTransport == \A e \in E : rs[e].c = "eof" => (Peer(e) \in td /\ rs[e].code = 1006)
=============================================================================
