INIT GenInit
NEXT GenNext
CONSTANTS
  Dev = "none"
  Family = "ctl"
  WBuf = 128
  MaxOps = 3
  Acts <- ActsCtl
  CloseBodies <- BodiesSmall
  Payloads = {0, 5, 125, 126}
  DataKinds = {"small"}
  ReadModes = {"msg"}
  HandlerSets <- HDefault
  Limits = {0}
  Zs = {FALSE}
  NegSet <- Plain
INVARIANTS Emit
CHECK_DEADLOCK FALSE
