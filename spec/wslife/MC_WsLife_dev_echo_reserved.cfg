SPECIFICATION Spec
CONSTANTS
  Dev = "echo-reserved"
  Configs <- ConfigsDevBody
  NegSet <- Plain
INVARIANTS EchoMirrors
CHECK_DEADLOCK FALSE
