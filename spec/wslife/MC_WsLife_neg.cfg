SPECIFICATION Spec
CONSTANTS
  Dev = "none"
  MaxOps = 0
  Acts = {}
  CloseBodies = {}
  Payloads = {}
  DataKinds = {}
  ReadModes = {}
  HandlerSets <- HDefault
  Limits = {0}
  Zs = {FALSE}
  NegSet <- NegAll
INVARIANTS ServerSelectsOffered ServerPrefers NegotiatedProtocolOffered AgreeSubprotocol SameOriginOnly UpOnlyIfHandshake
CHECK_DEADLOCK FALSE
