INIT GenInit
NEXT GenNext
CONSTANTS
  Dev = "echo-1000"
  Configs <- ConfigsDevBody
  NegSet <- Plain
  WBuf = 128
INVARIANTS Emit
CHECK_DEADLOCK FALSE
