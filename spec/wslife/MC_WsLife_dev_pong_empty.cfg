SPECIFICATION Spec
CONSTANTS
  Dev = "pong-empty"
  Configs <- ConfigsDevCtl
  NegSet <- Plain
INVARIANTS PongMirrorsPing
CHECK_DEADLOCK FALSE
