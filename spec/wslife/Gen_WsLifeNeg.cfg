SPECIFICATION Spec
CONSTANTS
  Dev = "none"
  Configs <- ConfigsNeg
  NegSet <- NegAll
INVARIANTS EmitNeg ServerSelectsOffered ServerPrefers NegotiatedProtocolOffered AgreeSubprotocol SameOriginOnly UpOnlyIfHandshake
CHECK_DEADLOCK FALSE
