SPECIFICATION Spec
CONSTANTS
  Dev = "echo-always"
  Configs <- ConfigsDevBody
  NegSet <- Plain
INVARIANTS EchoOnce
CHECK_DEADLOCK FALSE
