INIT GenInit
NEXT GenNext
CONSTANTS
  Dev = "none"
  Family = "all3"
  WBuf = 128
  MaxOps = 3
  Acts <- ActsAll
  CloseBodies <- BodiesSmall
  Payloads = {5}
  DataKinds = {"small"}
  ReadModes = {"msg", "part", "json"}
  HandlerSets <- HDefault
  Limits = {0}
  Zs = {FALSE}
  NegSet <- Plain
INVARIANTS Emit
CHECK_DEADLOCK FALSE
