INIT GenInit
NEXT GenNext
CONSTANTS
  Dev = "none"
  Family = "bodies"
  WBuf = 128
  MaxOps = 3
  Acts <- ActsClose
  CloseBodies <- BodiesAll
  Payloads = {5}
  DataKinds = {"small"}
  ReadModes = {"msg"}
  HandlerSets <- HDefault
  Limits = {0}
  Zs = {FALSE}
  NegSet <- Plain
INVARIANTS Emit
CHECK_DEADLOCK FALSE
