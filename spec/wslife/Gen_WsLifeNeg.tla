---------------------------- MODULE Gen_WsLifeNeg ----------------------------
(* Case generation for part 1 of WsLife: one case per negotiation of NegSet    *)
(* (the behaviour is its initial state), with everything the specification     *)
(* says about it: is the request a handshake, which statuses may refuse it,    *)
(* the subprotocol the server names, whether the client goes along, and what   *)
(* Conn.Subprotocol() is at either end.                                        *)
EXTENDS MC_WsLife, Json

Exp(g) ==
  [ serverOk |-> ServerOk(g), failures |-> ServerFailures(g), statuses |-> RejectStatuses(g),
    chosen |-> Chosen(g), clientOk |-> ClientOk(g), refuses |-> DialerRefuses(g), up |-> SessionUp(g),
    subc |-> SubOf(g, "c"), subs |-> SubOf(g, "s"),
    \* what a server that looks at the first Sec-WebSocket-Protocol line only would name (to recognise that deviation)
    firstline |-> IF g.subs.set /\ g.offer # <<>> THEN FirstMatch(g.subs.l, g.offer[1]) ELSE Chosen(g) ]
EmitNeg == PrintT(<<"CASE", ToJson([neg |-> neg, exp |-> Exp(neg)])>>)
=============================================================================
