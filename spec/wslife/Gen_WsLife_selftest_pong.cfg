INIT GenInit
NEXT GenNext
CONSTANTS
  Dev = "pong-empty"
  Configs <- ConfigsDevCtl
  NegSet <- Plain
  WBuf = 128
INVARIANTS Emit
CHECK_DEADLOCK FALSE
