SPECIFICATION Spec
CONSTANTS
  Dev = "server-first-pref"
  MaxOps = 0
  Acts = {}
  CloseBodies = {}
  Payloads = {}
  DataKinds = {}
  ReadModes = {}
  HandlerSets <- HDefault
  Limits = {0}
  Zs = {FALSE}
  NegSet <- NegAll
INVARIANTS ServerSelectsOffered
CHECK_DEADLOCK FALSE
