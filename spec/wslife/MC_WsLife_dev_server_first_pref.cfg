SPECIFICATION Spec
CONSTANTS
  Dev = "server-first-pref"
  Configs <- ConfigsNeg
  NegSet <- NegAll
INVARIANTS ServerSelectsOffered
CHECK_DEADLOCK FALSE
