INIT GenInit
NEXT GenNext
CONSTANTS
  Dev = "none"
  Family = "close"
  WBuf = 128
  MaxOps = 4
  Acts <- ActsClose
  CloseBodies <- BodiesSmall
  Payloads = {5}
  DataKinds = {"small"}
  ReadModes = {"msg"}
  HandlerSets <- HDefault
  Limits = {0}
  Zs = {FALSE}
  NegSet <- Plain
INVARIANTS Emit
CHECK_DEADLOCK FALSE
