SPECIFICATION Spec
CONSTANTS
  Dev = "client-unoffered"
  MaxOps = 0
  Acts = {}
  CloseBodies = {}
  Payloads = {}
  DataKinds = {}
  ReadModes = {}
  HandlerSets <- HDefault
  Limits = {0}
  Zs = {FALSE}
  NegSet <- NegAll
INVARIANTS NegotiatedProtocolOffered
CHECK_DEADLOCK FALSE
