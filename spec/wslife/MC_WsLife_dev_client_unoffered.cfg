SPECIFICATION Spec
CONSTANTS
  Dev = "client-unoffered"
  Configs <- ConfigsNeg
  NegSet <- NegAll
INVARIANTS NegotiatedProtocolOffered
CHECK_DEADLOCK FALSE
