INIT MatrixInit
NEXT MatrixNext
CONSTANTS
  Formats = {}
  SeedCap = 0
  MaxMut = 0
  Ops1 = {}
  Ops2 = {}
  NestDepths = {}
  SpliceWindow = 8
  OctetSel = {"empty", "b1", "m1", "p1", "flip0", "x2", "badb64", "null"}
  JweCbcAlgs = {"dir", "RSA1_5", "ECDH-ES+A128KW", "A128GCMKW"}
  StructAllSeeds = FALSE
  SpliceOther = FALSE
  RandLens = {}
  NRand = 0
  NodeIdx = {}
  ByteOpsAllSeeds = FALSE
  PanicOnForbidden = FALSE
  ScaleSkip = {"amf0.nest.objecta", "amf0.nest.ecma"}
  ByteSizes <- QuickSizes
INVARIANT EmitMatrix
CHECK_DEADLOCK FALSE
