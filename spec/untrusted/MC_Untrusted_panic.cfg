SPECIFICATION Spec
CONSTANTS
  Formats = {"amf0", "aac", "rtmpchunk", "jweforge", "ocspreq"}
  SeedCap = 1
  MaxMut = 2
  Ops1 = {"trunc", "set", "drop", "nest", "tlv", "random", "restate", "forge"}
  Ops2 = {"trunc"}
  NestDepths = {1, 2}
  SpliceWindow = 2
  OctetSel = {"empty", "b1", "m1", "p1", "flip0", "x2", "badb64", "null"}
  JweCbcAlgs = {"dir", "RSA1_5", "ECDH-ES+A128KW", "A128GCMKW"}
  StructAllSeeds = FALSE
  SpliceOther = TRUE
  RandLens = {0, 1, 7}
  NRand = 2
  InnerNodeIdx = {0, 2}
  ForgeAlgs = {"dir"}
  NodeIdx = {}
  ByteOpsAllSeeds = FALSE
  PanicOnForbidden = TRUE
VIEW McView
INVARIANTS Total
CHECK_DEADLOCK FALSE
