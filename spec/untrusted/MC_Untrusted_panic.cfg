SPECIFICATION Spec
CONSTANTS
  Formats = {"amf0", "aac", "avc", "ocspreq"}
  SeedCap = 1
  MaxMut = 2
  Ops1 = {"trunc", "set", "drop", "dup", "splice", "nest", "tlv", "random"}
  Ops2 = {"trunc", "drop"}
  NestDepths = {1, 2}
  SpliceWindow = 2
  StructAllSeeds = FALSE
  SpliceOther = TRUE
  RandLens = {0, 1, 7}
  NRand = 2
  NodeIdx = {}
  ByteOpsAllSeeds = FALSE
  PanicOnForbidden = TRUE
VIEW McView
INVARIANTS Total
CHECK_DEADLOCK FALSE
