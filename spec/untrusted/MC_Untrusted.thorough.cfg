SPECIFICATION Spec
CONSTANTS
  Formats = {"amf0", "aac", "ws", "ocspreq"}
  SeedCap = 2
  MaxMut = 2
  Ops1 = {"trunc", "set", "dup", "drop", "splice", "nest", "field", "tlv", "random"}
  Ops2 = {"trunc", "drop", "tlv"}
  NestDepths = {1, 2}
  SpliceWindow = 8
  StructAllSeeds = FALSE
  SpliceOther = TRUE
  RandLens = {0, 1, 7}
  NRand = 2
  NodeIdx = {0, 3}
  ByteOpsAllSeeds = FALSE
  PanicOnForbidden = FALSE
VIEW McView
INVARIANTS Total WellFormed Bounded
CHECK_DEADLOCK FALSE
