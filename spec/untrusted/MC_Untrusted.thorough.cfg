SPECIFICATION Spec
CONSTANTS
  Formats = {"amf0", "aac", "ws", "rtmpchunk", "jweforge", "ocspreq"}
  SeedCap = 2
  MaxMut = 2
  Ops1 = {"trunc", "set", "dup", "drop", "splice", "nest", "field", "tlv", "random", "restate", "forge"}
  Ops2 = {"trunc", "drop", "tlv"}
  NestDepths = {1, 2}
  SpliceWindow = 8
  OctetSel = {"empty", "b1", "m1", "p1", "flip0", "fliplast", "x2", "badb64", "pad", "null", "num", "obj", "arr"}
  JweCbcAlgs = {"RSA1_5", "RSA-OAEP", "RSA-OAEP-256", "A128KW", "A192KW", "A256KW", "dir", "ECDH-ES", "ECDH-ES+A128KW", "ECDH-ES+A192KW", "ECDH-ES+A256KW", "A128GCMKW", "A192GCMKW", "A256GCMKW"}
  StructAllSeeds = FALSE
  SpliceOther = TRUE
  RandLens = {0, 1, 7}
  NRand = 2
  InnerNodeIdx = {0, 2}
  ForgeAlgs = {"dir"}
  NodeIdx = {0, 3}
  ByteOpsAllSeeds = FALSE
  PanicOnForbidden = FALSE
VIEW McView
INVARIANTS Total WellFormed Bounded
CHECK_DEADLOCK FALSE
