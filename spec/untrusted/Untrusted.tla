----------------------------- MODULE Untrusted -----------------------------
(* C07: untrusted bytes never crash or stall a decoder.                      *)
(*                                                                           *)
(* The state machine is the life of one decoder call on hostile input:       *)
(*    Pick (format, seed)  ->  Mutate (0..MaxMut operators)  ->  Ready       *)
(*                         ->  Decode  ->  returned \in {"ok", "error"}      *)
(* What the specification contributes (DESIGN.md section 5, C07):            *)
(*  (1) grammars: for every decoder of the library a few VALID encodings,    *)
(*      written as layout descriptors (LD) from the standards (RTMP 1.0,     *)
(*      AMF0, FLV v1, ISO 13818-7, ISO 14496-15, RFC 6455/7692); decoders    *)
(*      whose inputs need real cryptography / DER / text (JOSE, OCSP, JSON+) *)
(*      are described by a symbolic grammar: seed names and field names, the *)
(*      replayer concretises them with the library's own Sign/Encrypt etc.;  *)
(*  (2) mutation operators as actions on the field list (Truncate, SetField, *)
(*      DupField, DropField, Splice, Nest) resp. as symbolic tuples          *)
(*      (operator, position class, value class);                             *)
(*  (3) the totality oracle  Total;                                          *)
(*  (4) the enum ranges (EnumTypes) and the scaling families (ScaleFamilies) *)
(*      of the linear-time clause.                                           *)
(* "All byte strings" is not a state space: the level is exploration.        *)
EXTENDS Naturals, Sequences, FiniteSets, LD

CONSTANTS
  Formats,          \* formats handled by this configuration (LD and symbolic ones)
  SeedCap,          \* at most this many seeds per format (MC: small)
  MaxMut,           \* number of mutation steps, 0..2
  Ops1, Ops2,       \* operator kinds enabled for the first / the second step
  NestDepths,       \* depths 2^k of Nest
  SpliceOther,      \* TRUE: splice with every seed of the format, FALSE: with itself only
  SpliceWindow,     \* splice resumes at most this many fields away from where it cut
  OctetSel,         \* value classes of octet-valued parts / header members used in this configuration
  JweCbcAlgs,       \* key algorithms that are also combined with A128CBC-HS256 (all of them in the thorough tier)
  StructAllSeeds,   \* FALSE: the structural JOSE operators skip the non-representative full JSON seeds
  RandLens, NRand,  \* purely random inputs: lengths and how many per length
  NodeIdx,          \* DER node indices for the TLV operators (in addition to the position classes)
  InnerNodeIdx,     \* DER node indices (pre-order) the inner-truncation operators are applied to
  ForgeAlgs,        \* key management algorithms of the Forge family
  ByteOpsAllSeeds,  \* FALSE: the byte-level operators of JWS/JWE run on representative seeds only (they are
                    \* blind to the algorithm), the structural ones on every seed
  PanicOnForbidden  \* named deviation (non-vacuity): a decoder that panics on a forbidden marker

VARIABLES pc, fmt, seed, ld, wrap, sym, nmut, hist, returned
vars == <<pc, fmt, seed, ld, wrap, sym, nmut, hist, returned>>

LdFormats  == {"rtmpchunk", "rtmpmsg", "amf0", "flv", "flvtag", "aac", "avc", "ws"}
SymFormats == {"jws", "jwe", "jweforge", "jwk", "ocspresp", "ocspreq", "jsonplus"}

\* ======================================================================
\* (1) GRAMMARS: valid encodings as layout descriptors
\* ======================================================================
S_connect      == <<99,111,110,110,101,99,116>>
S_result       == <<95,114,101,115,117,108,116>>
S_error        == <<95,101,114,114,111,114>>
S_createStream == <<99,114,101,97,116,101,83,116,114,101,97,109>>
S_publish      == <<112,117,98,108,105,115,104>>
S_play         == <<112,108,97,121>>
S_live         == <<108,105,118,101>>
S_app          == <<97,112,112>>
S_onStatus     == <<111,110,83,116,97,116,117,115>>
S_onMetaData   == <<111,110,77,101,116,97,68,97,116,97>>
S_a == <<97>>  S_k == <<107>>  S_s == <<115>>  S_o == <<111>>  S_b == <<98>>

\* ---- AMF0 (amf0_spec_121207: marker byte, U16 length strings, 0x000009 end)
Num(id)     == <<U8(0), Fill(8, id)>>
NumLit(b)   == <<U8(0), Raw(b)>>
Num0        == NumLit(<<0,0,0,0,0,0,0,0>>)
Num1        == NumLit(<<63,240,0,0,0,0,0,0>>)
Num2        == NumLit(<<64,0,0,0,0,0,0,0>>)
Bool(b)     == <<U8(1), U8(b)>>
Key(s)      == IF s = <<>> THEN <<U16(0)>> ELSE <<U16(Len(s)), Raw(s)>>
StrV(s)     == <<U8(2)>> \o Key(s)
Null        == <<U8(5)>>
Undef       == <<U8(6)>>
ObjEnd      == <<U16(0), U8(9)>>
Obj(props)  == <<U8(3)>> \o props \o ObjEnd
Ecma(n, props)    == <<U8(8), U32(n)>> \o props \o ObjEnd
StrictStd(n, vs)  == <<U8(10), U32(n)>> \o vs          \* the standard's layout
StrictKeyed(n, p) == <<U8(10), U32(n)>> \o p           \* the library's dialect (known finding C06)
Props3 == Key(S_k) \o Num(1) \o Key(S_s) \o StrV(S_live) \o Key(S_o) \o Obj(Key(S_b) \o Bool(1))

Amf0Seeds == <<
  [name |-> "num",      arg |-> 0, ok |-> "amf0.Number",      ld |-> Num(3)],
  [name |-> "obj",      arg |-> 0, ok |-> "amf0.Object",      ld |-> Obj(Props3)],
  [name |-> "str",      arg |-> 0, ok |-> "amf0.String",      ld |-> StrV(S_connect)],
  [name |-> "ecma",     arg |-> 0, ok |-> "amf0.EcmaArray",   ld |-> Ecma(2, Key(S_a) \o Num(2) \o Key(S_b) \o Null)],
  [name |-> "strictk",  arg |-> 0, ok |-> "amf0.StrictArray", ld |-> StrictKeyed(2, Key(S_a) \o Num(4) \o Key(S_b) \o StrV(S_app))],
  [name |-> "stricts",  arg |-> 0, ok |-> "",                 ld |-> StrictStd(2, Num(5) \o StrV(S_app))],
  [name |-> "bool",     arg |-> 0, ok |-> "amf0.Boolean",     ld |-> Bool(1)],
  [name |-> "null",     arg |-> 0, ok |-> "amf0.Null",        ld |-> Null],
  [name |-> "undef",    arg |-> 0, ok |-> "amf0.Undefined",   ld |-> Undef],
  [name |-> "strempty", arg |-> 0, ok |-> "amf0.String",      ld |-> StrV(<<>>)],
  [name |-> "objempty", arg |-> 0, ok |-> "amf0.Object",      ld |-> Obj(<<>>)],
  [name |-> "strict0",  arg |-> 0, ok |-> "amf0.StrictArray", ld |-> StrictStd(0, <<>>)],
  [name |-> "objend",   arg |-> 0, ok |-> "",                 ld |-> <<U8(9)>>],
  [name |-> "ref",      arg |-> 0, ok |-> "",                 ld |-> <<U8(7), U16(0)>>],
  [name |-> "date",     arg |-> 0, ok |-> "",                 ld |-> <<U8(11), Fill(8, 6), U16(0)>>],
  [name |-> "longstr",  arg |-> 0, ok |-> "",                 ld |-> <<U8(12), U32(3), Raw(S_app)>>],
  [name |-> "dupkeys",  arg |-> 0, ok |-> "amf0.Object",      ld |-> Obj(Key(S_a) \o Num(7) \o Key(S_a) \o Bool(0))]
>>

\* ---- RTMP message payloads (RTMP 1.0 section 5.4, 7.1, 7.2); arg = message type id
AppObj   == Obj(Key(S_app) \o StrV(S_live))
CmdHead(name, tid) == StrV(name) \o tid
RtmpMsgSeeds == <<
  [name |-> "connect",    arg |-> 20, ok |-> "rtmp.msg", ld |-> CmdHead(S_connect, Num1) \o AppObj],
  [name |-> "scs",        arg |-> 1,  ok |-> "rtmp.msg", ld |-> <<U32(4096)>>],
  [name |-> "uc_buflen",  arg |-> 4,  ok |-> "rtmp.msg", ld |-> <<U16(3), U32(1), U32(1000)>>],
  [name |-> "connectres", arg |-> 20, ok |-> "rtmp.msg", ld |-> CmdHead(S_result, Num1) \o AppObj \o Obj(Key(S_k) \o Num(2))],
  [name |-> "publish",    arg |-> 20, ok |-> "rtmp.msg", ld |-> CmdHead(S_publish, Num(3)) \o Null \o StrV(S_live) \o StrV(S_live)],
  [name |-> "csres",      arg |-> 20, ok |-> "rtmp.msg", ld |-> CmdHead(S_result, Num2) \o Null \o Num(4)],
  [name |-> "connectarg", arg |-> 20, ok |-> "rtmp.msg", ld |-> CmdHead(S_connect, Num1) \o AppObj \o AppObj],
  [name |-> "cs",         arg |-> 20, ok |-> "rtmp.msg", ld |-> CmdHead(S_createStream, Num2) \o Null],
  [name |-> "play",       arg |-> 20, ok |-> "rtmp.msg", ld |-> CmdHead(S_play, Num0) \o Null \o StrV(S_live)],
  [name |-> "call",       arg |-> 20, ok |-> "rtmp.msg", ld |-> CmdHead(S_onStatus, Num0) \o Null \o AppObj],
  [name |-> "errres",     arg |-> 20, ok |-> "",         ld |-> CmdHead(S_error, Num1) \o Null \o AppObj],
  [name |-> "amf3cmd",    arg |-> 17, ok |-> "rtmp.msg", ld |-> <<U8(0)>> \o CmdHead(S_connect, Num1) \o AppObj],
  [name |-> "data",       arg |-> 18, ok |-> ""        , ld |-> StrV(S_onMetaData) \o Ecma(1, Key(S_a) \o Num(9))],
  [name |-> "wack",       arg |-> 5,  ok |-> "rtmp.msg", ld |-> <<U32(2500000)>>],
  [name |-> "spb",        arg |-> 6,  ok |-> "rtmp.msg", ld |-> <<U32(2500000), U8(2)>>],
  [name |-> "uc_begin",   arg |-> 4,  ok |-> "rtmp.msg", ld |-> <<U16(0), U32(1)>>],
  [name |-> "uc_fms",     arg |-> 4,  ok |-> "rtmp.msg", ld |-> <<U16(26), U8(1)>>],
  [name |-> "uc_ping",    arg |-> 4,  ok |-> "rtmp.msg", ld |-> <<U16(6), U32(77777)>>]
>>

\* ---- RTMP chunk streams (RTMP 1.0 section 5.3): basic header, message header 0..3
BH(f, cid)  == U8(f * 64 + cid)                       \* 2 <= cid <= 63
H0(cid, ts, len, ty, sid) == <<BH(0, cid), U24(ts), U24(len), U8(ty), U32LE(sid)>>
H1(cid, dts, len, ty)     == <<BH(1, cid), U24(dts), U24(len), U8(ty)>>
H2(cid, dts)              == <<BH(2, cid), U24(dts)>>
H3(cid)                   == <<BH(3, cid)>>
ConnectBody == CmdHead(S_connect, Num1) \o AppObj

\* A chunk stream as a sequence of chunks that know the message they carry: recv = bytes of that message the receiver
\* holds before this chunk, len = the declared message length (RTMP 1.0 5.3.1: a message is split into chunks of at most
\* the chunk size; continuation chunks use fmt 3).  The operator Restate works on this structure.
Min2(a, b) == IF a < b THEN a ELSE b
MsgChunks(cid, ts, len, ty, sid, csz, id) ==
  [i \in 1..((len + csz - 1) \div csz) |->
     [cid |-> cid, f |-> IF i = 1 THEN 0 ELSE 3, ts |-> ts, len |-> len, ty |-> ty, sid |-> sid,
      n |-> Min2(csz, len - (i - 1) * csz), id |-> id, off |-> (i - 1) * csz, recv |-> (i - 1) * csz]]
ChunkHdr(c) == CASE c.f = 0 -> H0(c.cid, c.ts, c.len, c.ty, c.sid)
                 [] c.f = 1 -> H1(c.cid, c.ts, c.len, c.ty)
                 [] c.f = 2 -> H2(c.cid, c.ts)
                 [] OTHER   -> H3(c.cid)
RECURSIVE ChunksLD(_)
ChunksLD(cs) == IF cs = <<>> THEN <<>> ELSE ChunkHdr(Head(cs)) \o <<FillOff(Head(cs).n, Head(cs).id, Head(cs).off)>> \o ChunksLD(Tail(cs))
SeqLD(q) == q.pre \o ChunksLD(q.chunks)
MsgA == MsgChunks(7, 0, 200, 9, 1, 128, 14)
MsgB == MsgChunks(8, 0, 150, 8, 1, 128, 15)
ChunkSeqs ==
  [multi      |-> [pre |-> <<>>, chunks |-> MsgChunks(7, 40, 300, 9, 1, 128, 1)],
   scs1       |-> [pre |-> H0(2, 0, 4, 1, 0) \o <<U32(1)>>, chunks |-> MsgChunks(5, 0, 3, 18, 1, 1, 11)],
   interleave |-> [pre |-> <<>>, chunks |-> <<MsgA[1], MsgB[1], MsgA[2], MsgB[2]>>],
   scs4k      |-> [pre |-> H0(2, 0, 4, 1, 0) \o <<U32(4096)>>,
                  chunks |-> MsgChunks(6, 5, 9000, 9, 1, 4096, 19) \o MsgChunks(6, 45, 20, 8, 1, 4096, 20)]]
\* Restate: while a message is in progress (recv > 0) the next chunk of its chunk stream carries a full header
\* (fmt 0 or 1) that states the message length again, with boundary values relative to what was received and
\* declared, resp. another type id / stream id.
RestateVals == {"0", "1", "recv-1", "recv", "recv+1", "decl-1", "decl", "decl+1", "max", "ty0", "ty1", "ty255", "tyinc", "sid0", "sidinc"}
Restated(c, f, v) ==
  LET l == CASE v = "0" -> 0 [] v = "1" -> 1 [] v = "recv-1" -> c.recv - 1 [] v = "recv" -> c.recv [] v = "recv+1" -> c.recv + 1
             [] v = "decl-1" -> c.len - 1 [] v = "decl+1" -> c.len + 1 [] v = "max" -> 16777215 [] OTHER -> c.len
      t == CASE v = "ty0" -> 0 [] v = "ty1" -> 1 [] v = "ty255" -> 255 [] v = "tyinc" -> c.ty + 1 [] OTHER -> c.ty
      sd == CASE v = "sid0" -> 0 [] v = "sidinc" -> c.sid + 1 [] OTHER -> c.sid
  IN [c EXCEPT !.f = f, !.len = l, !.ty = t, !.sid = sd]
RtmpChunkSeeds == <<
  [name |-> "multi", arg |-> 0, ok |-> "rtmp.read", ld |-> SeqLD(ChunkSeqs.multi)],
  [name |-> "single", arg |-> 0, ok |-> "rtmp.read",
   ld |-> H0(3, 0, ByteLen(ConnectBody), 20, 0) \o ConnectBody],
  [name |-> "scs", arg |-> 0, ok |-> "rtmp.read",
   ld |-> H0(2, 0, 4, 1, 0) \o <<U32(4096)>> \o H0(7, 0, 300, 9, 1) \o <<Fill(300, 2)>>],
  [name |-> "extts", arg |-> 0, ok |-> "rtmp.read",
   ld |-> H0(4, 16777215, 10, 8, 1) \o <<U32(20000000), Fill(10, 3)>> \o H3(4) \o <<U32(20000000), Fill(10, 4)>>],
  [name |-> "fmt12", arg |-> 0, ok |-> "rtmp.read",
   ld |-> H0(6, 10, 5, 8, 1) \o <<Fill(5, 5)>> \o H1(6, 20, 6, 9) \o <<Fill(6, 6)>> \o H2(6, 30) \o <<Fill(6, 7)>> \o H3(6) \o <<Fill(6, 8)>>],
  [name |-> "bh2", arg |-> 0, ok |-> "rtmp.read",
   ld |-> <<U8(0), U8(10), U24(0), U24(3), U8(8), U32LE(1), Fill(3, 9)>>],
  [name |-> "bh3", arg |-> 0, ok |-> "rtmp.read",
   ld |-> <<U8(1), U8(1), U8(1), U24(0), U24(3), U8(9), U32LE(1), Fill(3, 10)>>],
  [name |-> "ping1", arg |-> 0, ok |-> "rtmp.read",
   ld |-> H1(2, 0, 6, 4) \o <<U16(6), U32(0)>>],
  [name |-> "scs1", arg |-> 0, ok |-> "rtmp.read", ld |-> SeqLD(ChunkSeqs.scs1)],
  [name |-> "interleave", arg |-> 0, ok |-> "rtmp.read", ld |-> SeqLD(ChunkSeqs.interleave)],
  [name |-> "scs4k", arg |-> 0, ok |-> "rtmp.read", ld |-> SeqLD(ChunkSeqs.scs4k)],
  [name |-> "ctl", arg |-> 0, ok |-> "rtmp.read",
   ld |-> H0(2, 0, 4, 5, 0) \o <<U32(2500000)>> \o H0(2, 0, 5, 6, 0) \o <<U32(2500000), U8(2)>>
          \o H0(2, 0, 6, 4, 0) \o <<U16(0), U32(1)>> \o H0(2, 0, 4, 2, 0) \o <<U32(7)>> \o H0(2, 0, 4, 3, 0) \o <<U32(100)>>],
  [name |-> "zero", arg |-> 0, ok |-> "rtmp.read",
   ld |-> H0(9, 0, 0, 8, 1) \o H0(9, 1, 2, 8, 1) \o <<Fill(2, 18)>>]
>>

\* ---- AVC (ISO/IEC 14496-15 5.2.4.1): configuration record, length-prefixed samples
AvcRec1 == <<U8(1), U8(66), U8(0), U8(30), U8(252 + 3), U8(224 + 1), U16(9), U8(103), Fill(8, 20),
             U8(1), U16(4), U8(104), Fill(3, 21)>>
AvcRec2 == <<U8(1), U8(100), U8(0), U8(31), U8(252 + 1), U8(224 + 2), U16(2), U8(103), Fill(1, 22), U16(1), U8(39),
             U8(2), U16(1), U8(104), U16(3), U8(40), Fill(2, 23)>>
Sample4 == <<U32(5), U8(101), Fill(4, 24), U32(3), U8(65), Fill(2, 25)>>
AvcSeeds == <<
  [name |-> "record",  arg |-> 0, ok |-> "avc.record", ld |-> AvcRec1],
  [name |-> "sample4", arg |-> 3, ok |-> "avc.sample", ld |-> Sample4],
  [name |-> "sample2", arg |-> 1, ok |-> "avc.sample", ld |-> <<U16(2), U8(6), Fill(1, 26), U16(1), U8(9), U16(4), U8(33), Fill(3, 27)>>],
  [name |-> "record2", arg |-> 0, ok |-> "avc.record", ld |-> AvcRec2],
  [name |-> "sample1", arg |-> 0, ok |-> "avc.sample", ld |-> <<U8(3), U8(101), Fill(2, 28), U8(1), U8(65)>>],
  [name |-> "sample3", arg |-> 2, ok |-> "avc.sample", ld |-> <<U24(300), U8(101), Fill(299, 29)>>],
  [name |-> "nalu",    arg |-> 0, ok |-> "avc.nalu",   ld |-> <<U8(101), Fill(10, 30)>>],
  [name |-> "record0", arg |-> 0, ok |-> "avc.record", ld |-> <<U8(1), U8(77), U8(64), U8(40), U8(255), U8(224), U8(0)>>]
>>

\* ---- ADTS (ISO/IEC 13818-7 6.2) and AudioSpecificConfig (ISO/IEC 14496-3 1.6.2.1)
Adts(profile, sfi, chan, n, id, crc) ==
  LET flen == n + 7 + (IF crc THEN 2 ELSE 0) IN
  <<U8(255), U8(IF crc THEN 240 ELSE 241),
    U8(profile * 64 + sfi * 4 + chan \div 4),
    U8((chan % 4) * 64 + flen \div 2048),
    U8((flen \div 8) % 256),
    U8((flen % 8) * 32 + 31),
    U8(252)>> \o (IF crc THEN <<U16(4660)>> ELSE <<>>) \o (IF n > 0 THEN <<Fill(n, id)>> ELSE <<>>)
Asc(ot, sfi, chan) == <<U8(ot * 8 + sfi \div 2), U8((sfi % 2) * 128 + chan * 8)>>
AacSeeds == <<
  [name |-> "lc",    arg |-> 0, ok |-> "aac.adts", ld |-> Adts(1, 4, 2, 20, 31, FALSE)],
  [name |-> "asc",   arg |-> 0, ok |-> "aac.asc",  ld |-> Asc(2, 4, 2)],
  [name |-> "crc",   arg |-> 0, ok |-> "aac.adts", ld |-> Adts(1, 3, 1, 9, 32, TRUE)],
  [name |-> "two",   arg |-> 0, ok |-> "aac.adts", ld |-> Adts(0, 11, 1, 300, 33, FALSE) \o Adts(2, 12, 7, 1, 34, TRUE)],
  [name |-> "zero",  arg |-> 0, ok |-> "aac.adts", ld |-> Adts(1, 4, 2, 0, 35, FALSE) \o Adts(1, 4, 2, 2, 36, FALSE)],
  [name |-> "asche", arg |-> 0, ok |-> "aac.asc",  ld |-> Asc(5, 6, 2) \o <<Fill(3, 37)>>],
  [name |-> "asc29", arg |-> 0, ok |-> "aac.asc",  ld |-> Asc(29, 12, 1)]
>>

\* ---- FLV tag bodies (FLV v10.1 E.4.2.1 audio, E.4.3.1 video; Opus side fields of this library)
AudioHdr(fmtv, rate, size, ty) == U8(fmtv * 16 + rate * 4 + size * 2 + ty)
VideoHdr(ft, codec) == U8(ft * 16 + codec)
FlvTagSeeds == <<
  [name |-> "aacseq",  arg |-> 8, ok |-> "flv.audio", ld |-> <<AudioHdr(10, 3, 1, 1), U8(0)>> \o Asc(2, 4, 2)],
  [name |-> "avcseq",  arg |-> 9, ok |-> "flv.video", ld |-> <<VideoHdr(1, 7), U8(0), U24(0)>> \o AvcRec1],
  [name |-> "opus",    arg |-> 8, ok |-> "flv.audio", ld |-> <<AudioHdr(13, 0, 1, 1), U8(2 + 4 + 8), U8(48), U16(513), Fill(12, 40)>>],
  [name |-> "aacraw",  arg |-> 8, ok |-> "flv.audio", ld |-> <<AudioHdr(10, 3, 1, 1), U8(1), Fill(20, 41)>>],
  [name |-> "avcnalu", arg |-> 9, ok |-> "flv.video", ld |-> <<VideoHdr(2, 7), U8(1), U24(80)>> \o Sample4],
  [name |-> "mp3",     arg |-> 8, ok |-> "flv.audio", ld |-> <<AudioHdr(2, 3, 1, 0), Fill(30, 42)>>],
  [name |-> "opusraw", arg |-> 8, ok |-> "flv.audio", ld |-> <<AudioHdr(13, 0, 1, 1), U8(2), Fill(9, 43)>>],
  [name |-> "hevc",    arg |-> 9, ok |-> "flv.video", ld |-> <<VideoHdr(1, 12), U8(1), U24(16777215), Fill(7, 44)>>],
  [name |-> "h263",    arg |-> 9, ok |-> "flv.video", ld |-> <<VideoHdr(2, 2), Fill(16, 45)>>],
  [name |-> "avceos",  arg |-> 9, ok |-> "flv.video", ld |-> <<VideoHdr(1, 7), U8(2), U24(0)>>]
>>

\* ---- FLV files (FLV v10.1 E.2 header, E.3 body, E.4.1 tag)
FlvHdr(flags) == <<Raw(<<70, 76, 86>>), U8(1), U8(flags), U32(9), U32(0)>>
Tag(ty, ts, body) ==
  <<U8(ty), U24(ByteLen(body)), U24(ts % 16777216), U8(ts \div 16777216), U24(0)>> \o body \o <<U32(11 + ByteLen(body))>>
FlvSeeds == <<
  [name |-> "audio", arg |-> 0, ok |-> "flv.demux",
   ld |-> FlvHdr(4) \o Tag(8, 0, <<AudioHdr(2, 3, 1, 0), Fill(30, 48)>>) \o Tag(8, 26, <<AudioHdr(2, 3, 1, 0), Fill(300, 49)>>)],
  [name |-> "hdr", arg |-> 0, ok |-> "flv.demux", ld |-> FlvHdr(1)],
  [name |-> "av", arg |-> 0, ok |-> "flv.demux",
   ld |-> FlvHdr(5) \o Tag(18, 0, StrV(S_onMetaData) \o Ecma(1, Key(S_a) \o Num(46)))
          \o Tag(9, 0, <<VideoHdr(1, 7), U8(0), U24(0)>> \o AvcRec1)
          \o Tag(8, 0, <<AudioHdr(10, 3, 1, 1), U8(0)>> \o Asc(2, 4, 2))
          \o Tag(9, 40, <<VideoHdr(2, 7), U8(1), U24(80)>> \o Sample4)
          \o Tag(8, 16777239, <<AudioHdr(10, 3, 1, 1), U8(1), Fill(20, 47)>>)],
  [name |-> "empty", arg |-> 0, ok |-> "flv.demux", ld |-> FlvHdr(5) \o Tag(9, 0, <<>>) \o Tag(8, 0, <<>>)]
>>

\* ---- WebSocket frames (RFC 6455 5.2; RFC 7692 7.2.3.1: "Hello" deflated)
\* _c: what a client reads (unmasked), _s: what a server reads (masked)
Mask == Raw(<<55, 250, 33, 61>>)
Hello7692 == Raw(<<242, 72, 205, 201, 201, 7, 0>>)
FrC(b0, n, id) == <<U8(b0), U8(n)>> \o (IF n > 0 THEN <<Fill(n, id)>> ELSE <<>>)
FrS(b0, n, id) == <<U8(b0), U8(128 + n), Mask>> \o (IF n > 0 THEN <<Fill(n, id)>> ELSE <<>>)
WsSeeds == <<
  [name |-> "text_c",  arg |-> 0, ok |-> "ws.client.nc", ld |-> FrC(129, 5, 50)],
  [name |-> "text_s",  arg |-> 0, ok |-> "ws.server.nc", ld |-> FrS(129, 5, 51)],
  [name |-> "frag_c",  arg |-> 0, ok |-> "ws.client.nc",
   ld |-> FrC(1, 3, 52) \o FrC(0, 2, 53) \o FrC(137, 2, 54) \o FrC(128, 1, 55) \o FrC(130, 4, 56)],
  [name |-> "len16_s", arg |-> 0, ok |-> "ws.server.nc", ld |-> <<U8(130), U8(128 + 126), U16(300), Mask, Fill(300, 57)>>],
  [name |-> "len64_c", arg |-> 0, ok |-> "ws.client.nc", ld |-> <<U8(130), U8(127), U32(0), U32(70000), Fill(70000, 58)>>],
  [name |-> "defl_c",  arg |-> 0, ok |-> "ws.client.c",  ld |-> <<U8(128 + 64 + 1), U8(7), Hello7692>>],
  [name |-> "close_c", arg |-> 0, ok |-> "",             ld |-> <<U8(136), U8(6), U16(1000), Raw(<<100, 111, 110, 101>>)>>],
  [name |-> "frag_s",  arg |-> 0, ok |-> "ws.server.nc",
   ld |-> FrS(1, 3, 59) \o FrS(138, 0, 60) \o FrS(128, 2, 61)],
  [name |-> "len16_c", arg |-> 0, ok |-> "ws.client.nc", ld |-> <<U8(130), U8(126), U16(300), Fill(300, 62)>>],
  [name |-> "len64_s", arg |-> 0, ok |-> "ws.server.nc", ld |-> <<U8(130), U8(128 + 127), U32(0), U32(66000), Mask, Fill(66000, 63)>>],
  [name |-> "defl_s",  arg |-> 0, ok |-> "ws.server.c",  ld |-> <<U8(128 + 64 + 1), U8(128 + 7), Raw(<<0, 0, 0, 0>>), Hello7692>>],
  [name |-> "deflfrag_c", arg |-> 0, ok |-> "ws.client.c",
   ld |-> <<U8(64 + 1), U8(3), Raw(<<242, 72, 205>>), U8(128), U8(4), Raw(<<201, 201, 7, 0>>)>>],
  [name |-> "close_s", arg |-> 0, ok |-> "",             ld |-> <<U8(136), U8(128 + 2), Mask, U16(1001)>>]
>>

AllSeeds(f) ==
  CASE f = "amf0" -> Amf0Seeds [] f = "rtmpmsg" -> RtmpMsgSeeds [] f = "rtmpchunk" -> RtmpChunkSeeds
    [] f = "avc" -> AvcSeeds [] f = "aac" -> AacSeeds [] f = "flvtag" -> FlvTagSeeds
    [] f = "flv" -> FlvSeeds [] f = "ws" -> WsSeeds
Cap(s) == IF Len(s) <= SeedCap THEN s ELSE SubSeq(s, 1, SeedCap)
Seeds(f) == Cap(AllSeeds(f))

\* a symbolic operator instance: (operator, position class / member name / part, value class, integer)
Y(o, p, v, n) == [o |-> o, p |-> p, v |-> v, n |-> n]

\* ---- symbolic grammars: the replayer builds these objects with the library / crypto/x509
JwsAlgs == {"RS256", "RS384", "RS512", "PS256", "PS384", "PS512", "ES256", "ES384", "ES512", "HS256", "HS384", "HS512"}
JweKeyAlgs == {"RSA1_5", "RSA-OAEP", "RSA-OAEP-256", "A128KW", "A192KW", "A256KW", "dir", "ECDH-ES",
               "ECDH-ES+A128KW", "ECDH-ES+A192KW", "ECDH-ES+A256KW", "A128GCMKW", "A192GCMKW", "A256GCMKW"}
JweEncs == {"A128GCM", "A192GCM", "A256GCM", "A128CBC-HS256", "A192CBC-HS384", "A256CBC-HS512"}
JwsSeedSet == {[alg |-> a, form |-> fo] : a \in JwsAlgs, fo \in {"compact", "full"}}
              \cup {[alg |-> "HS256", form |-> "fullhdr"], [alg |-> "ES256", form |-> "fullhdr"], [alg |-> "RS256", form |-> "multi"]}
JweSeedSet == {[alg |-> a, enc |-> "A128GCM", form |-> fo] : a \in JweKeyAlgs, fo \in {"compact", "full"}}
              \cup {[alg |-> a, enc |-> "A128CBC-HS256", form |-> fo] : a \in JweKeyAlgs \cap JweCbcAlgs, fo \in {"compact", "full"}}
              \cup {[alg |-> a, enc |-> e, form |-> "compact"] : a \in {"dir", "A256KW"}, e \in JweEncs}
              \cup {[alg |-> a, enc |-> "A128GCM", form |-> fo] : a \in {"dir", "A128KW", "ECDH-ES", "RSA-OAEP"}, fo \in {"fullaad", "zip"}}
              \cup {[alg |-> a, enc |-> "A128GCM", form |-> "multi"] : a \in {"A128KW", "RSA-OAEP", "ECDH-ES+A128KW", "A256GCMKW"}}
              \* RFC 7516 7.2.1: "protected" is optional, all header parameters may be unprotected (written by the replayer
              \* with AES-GCM over an empty AAD: the library's encrypter always protects the header)
              \cup {[alg |-> "dir", enc |-> "A128GCM", form |-> "unprotected"], [alg |-> "A128KW", enc |-> "A128GCM", form |-> "perrecipient"]}
JwkSeedSet == {[name |-> n] : n \in {"rsa.pub", "rsa.priv", "ec256.pub", "ec256.priv", "ec384.pub", "ec384.priv",
                                       "ec521.pub", "ec521.priv", "oct", "ec256.x5c", "set"}}
OcspRespSeedSet == {[name |-> n] : n \in {"vec.cert", "vec.nocert", "vec.ext", "vec.critext", "vec.multi", "vec.error",
                                            "built.keyhash", "built.name", "built.cert", "built.revoked"}}
OcspReqSeedSet == {[name |-> n] : n \in {"vec", "created.sha1", "created.sha256"}}
JsonPlusSeedSet == {[name |-> n] : n \in {"plain", "line", "block", "mixed", "strings", "squote", "escaped", "nested",
                                           "commentlike", "unterminated.str", "unterminated.block", "slashes"}}
\* Forge: the hostile sender HOLDS the content encryption key.  With RSA1_5 / RSA-OAEP / ECDH-ES(+KW) every sender picks
\* the CEK itself (it only needs the recipient's public key), with dir / A*KW / A*GCMKW a key-holding peer does.  Such a
\* sender authenticates whatever it likes, so everything behind the tag check is reachable with hostile content: the
\* replayer (with its own AES-CBC / HMAC-SHA2 per RFC 7518 5.2.2.1, AES-GCM, RFC 3394 key wrap, Concat KDF - not the
\* library's) builds objects whose INNER content is hostile but correctly authenticated, for every content encryption
\* and key management class, in both serialisations.  The unmutated seed of this format is an honest object of that
\* writer (the library must decrypt it: that binds the writer to RFC 7516).
\* Nothing like it is needed for JWS: a signature covers the payload only, nothing is parsed after it verified.
JweForgeSeedSet == {[alg |-> a, enc |-> e, form |-> fo] : a \in ForgeAlgs, e \in JweEncs, fo \in {"compact", "full"}}
ForgeOps ==
  \* ciphertext body: empty; not a multiple of the block; one block whose padding byte is 0 / 17 / 255 / not
  \* repeated; a full block of padding (valid: empty plaintext); a single byte (GCM)
  {Y("forge", "ct", v, 0) : v \in {"empty", "notblock", "pad0", "pad17", "pad255", "padmix", "pad16", "one"}}
  \* authenticated initialisation vectors of the wrong length
  \cup {Y("forge", "iv", v, 0) : v \in {"0", "11", "13", "15", "17"}}
  \* "zip":"DEF" over an authenticated plaintext that is not / not completely a DEFLATE stream, or a very compressible one
  \cup {Y("forge", "zip", v, 0) : v \in {"notdeflate", "truncated", "empty", "bomb64k", "bomb1m"}}
  \* an encrypted_key that unwraps correctly - to a CEK of the wrong size
  \cup {Y("forge", "cek", v, 0) : v \in {"0", "1", "8", "15", "17", "24", "31", "33", "40", "47", "63", "72"}}
SymSeedSet(f) ==
  CASE f = "jws" -> JwsSeedSet [] f = "jwe" -> JweSeedSet [] f = "jweforge" -> JweForgeSeedSet [] f = "jwk" -> JwkSeedSet
    [] f = "ocspresp" -> OcspRespSeedSet [] f = "ocspreq" -> OcspReqSeedSet [] f = "jsonplus" -> JsonPlusSeedSet

\* named parts of the serialisations (RFC 7515 7.1/7.2, RFC 7516 7.1/7.2) and header members (RFC 7515 4.1, RFC 7518 4.6/4.7)
FieldsOf(f) ==
  CASE f = "jws" -> {"protected", "payload", "signature", "header", "signatures"}
    [] f = "jwe" -> {"protected", "unprotected", "header", "recipients", "aad", "encrypted_key", "iv", "ciphertext", "tag"}
    [] f = "jwk" -> {"kty", "crv", "x", "y", "d", "n", "e", "p", "q", "dp", "dq", "qi", "k", "x5c", "kid", "alg", "use"}
    [] OTHER -> {}
HeaderMembers == {"alg", "enc", "zip", "crit", "kid", "nonce", "jwk", "epk", "epk.kty", "epk.crv", "epk.x", "epk.y", "apu", "apv", "iv", "tag"}
OctetVals == {"empty", "b1", "m1", "p1", "flip0", "fliplast", "x2", "badb64", "pad", "null", "num", "obj", "arr"}
HeaderVals(m) ==
  CASE m = "alg" -> JwsAlgs \cup JweKeyAlgs \cup {"", "none", "num"}
    [] m = "enc" -> JweEncs \cup {"", "num"}
    [] m = "zip" -> {"DEF", "", "GZ", "num"}
    [] m = "crit" -> {"arr", "empty", "num", "null"}
    [] m = "epk" -> {"null", "num", "rsa", "oct", "p256", "p384", "p521", "priv"}
    [] m = "jwk" -> {"null", "num", "rsa", "oct", "p256", "priv"}
    [] m = "epk.crv" -> {"P-256", "P-384", "P-521", "", "num"}
    [] m = "epk.kty" -> {"EC", "RSA", "oct", "", "num"}
    [] OTHER -> OctetVals \cap OctetSel

PosClasses == {"0", "1", "quarter", "half", "end-1", "end"}
ByteVals == {"00", "ff", "flip01", "flip80", "dec", "inc", "quote", "squote", "bslash", "slash2", "slashstar",
             "starslash", "nl", "dot", "lbrace", "rbrace", "lbrack", "rbrack", "comma", "colon", "eq", "sp"}
LenClasses == {"1", "2", "8", "quarter"}
TlvLenVals == {"0", "1", "m1", "p1", "max", "indef", "long", "huge"}
TlvTagVals == {"00", "1f", "seq", "set", "int", "octet", "oid", "bits", "ctx0", "ctx1", "ctx2", "enum", "bool", "time", "ff"}

\* ======================================================================
\* (2) MUTATION OPERATORS
\* ======================================================================
IsNum(f) == f.k \in {"u8", "u16", "u24", "u32", "u32le"}
Width(f) == FieldLen(f)
MaxOf(f) == CASE f.k = "u8" -> 255 [] f.k = "u16" -> 65535 [] f.k = "u24" -> 16777215 [] OTHER -> 2147483647
HalfOf(f) == CASE f.k = "u8" -> 128 [] f.k = "u16" -> 32768 [] f.k = "u24" -> 8388608 [] OTHER -> 1073741824

\* values of SetField: {0, 1, max-1, max, value-1, value+1} plus the sign boundary; 32 bit fields get their
\* values beyond 2^31-1 as literal bytes (TLC integers are 32 bit)
SetVals == {"0", "1", "max-1", "max", "dec", "inc", "half", "half-1"}
Lit32(f, b) == IF f.k = "u32le" THEN Raw(<<b[4], b[3], b[2], b[1]>>) ELSE Raw(b)
WithV(f, v) == [k |-> f.k, v |-> v]
SetTo(f, c) ==
  CASE c = "0"      -> WithV(f, 0)
    [] c = "1"      -> WithV(f, 1)
    [] c = "dec"    -> IF f.v > 0 THEN WithV(f, f.v - 1) ELSE f
    [] c = "inc"    -> IF f.v < MaxOf(f) THEN WithV(f, f.v + 1) ELSE f
    [] c = "half-1" -> IF Width(f) = 4 THEN WithV(f, 2147483647) ELSE WithV(f, HalfOf(f) - 1)
    [] c = "half"   -> IF Width(f) = 4 THEN Lit32(f, <<128, 0, 0, 0>>) ELSE WithV(f, HalfOf(f))
    [] c = "max-1"  -> IF Width(f) = 4 THEN Lit32(f, <<255, 255, 255, 254>>) ELSE WithV(f, MaxOf(f) - 1)
    [] c = "max"    -> IF Width(f) = 4 THEN Lit32(f, <<255, 255, 255, 255>>) ELSE WithV(f, MaxOf(f))

Replace(l, k, f) == [l EXCEPT ![k] = f]
SetField(l, k, c) == Replace(l, k, SetTo(l[k], c))
DupField(l, k)  == SubSeq(l, 1, k) \o <<l[k]>> \o SubSeq(l, k + 1, Len(l))
DropField(l, k) == SubSeq(l, 1, k - 1) \o SubSeq(l, k + 1, Len(l))
Splice(l, k1, o, k2) == SubSeq(l, 1, k1) \o SubSeq(o, k2, Len(o))

PartField(f, r) ==
  CASE f.k = "fill"  -> Fill(r, f.id)
    [] f.k = "fillo" -> FillOff(r, f.id, f.off)
    [] OTHER         -> Raw(SubSeq(FieldBytes(f), 1, r))
RECURSIVE TruncLD(_, _)
TruncLD(l, n) ==
  IF n <= 0 \/ l = <<>> THEN <<>>
  ELSE LET f == Head(l)
           w == FieldLen(f)
       IN IF w <= n THEN <<f>> \o TruncLD(Tail(l), n - w) ELSE <<PartField(f, n)>>

PrefixLen(l, k) == ByteLen(SubSeq(l, 1, k))
\* every field boundary and the bytes next to it, the whole string excluded
TruncPoints(l) ==
  LET total == ByteLen(l) IN
  {n \in {PrefixLen(l, k) + d - 1 : k \in 0..Len(l), d \in 0..2} : n >= 0 /\ n < total}

\* containers of the nestable formats: <<head, pre, inner, post>>
NoWrap == [head |-> <<>>, pre |-> <<>>, post |-> <<>>, depth |-> 0, close |-> 0]
Containers(f) ==
  CASE f = "amf0" ->
        {[head |-> <<>>, pre |-> <<U8(3)>> \o Key(S_a), post |-> ObjEnd],
         [head |-> <<>>, pre |-> <<U8(3)>> \o Key(<<>>), post |-> ObjEnd],
         [head |-> <<>>, pre |-> <<U8(8), U32(1)>> \o Key(S_a), post |-> ObjEnd],
         [head |-> <<>>, pre |-> <<U8(10), U32(1)>> \o Key(S_a), post |-> <<>>],
         [head |-> <<>>, pre |-> <<U8(10), U32(1)>>, post |-> <<>>]}
    [] f = "rtmpmsg" ->
        {[head |-> CmdHead(S_connect, Num1), pre |-> <<U8(3)>> \o Key(S_a), post |-> ObjEnd],
         [head |-> CmdHead(S_onStatus, Num0) \o Null, pre |-> <<U8(8), U32(1)>> \o Key(S_a), post |-> ObjEnd]}
    [] OTHER -> {}
Closings(d) == {d, d - 1, 0}

\* ======================================================================
\* the state machine
\* ======================================================================
Init ==
  /\ pc = "pick" /\ fmt = "" /\ seed = [name |-> ""] /\ ld = <<>> /\ wrap = NoWrap
  /\ sym = <<>> /\ nmut = 0 /\ hist = <<>> /\ returned = "none"

PickLd ==
  /\ pc = "pick"
  /\ \E f \in Formats \cap LdFormats : \E i \in 1..Len(Seeds(f)) :
       /\ fmt' = f
       /\ seed' = [name |-> Seeds(f)[i].name, arg |-> Seeds(f)[i].arg, ok |-> Seeds(f)[i].ok]
       /\ ld' = Seeds(f)[i].ld
  /\ pc' = "mut"
  /\ UNCHANGED <<wrap, sym, nmut, hist, returned>>

PickSym ==
  /\ pc = "pick"
  /\ \E f \in Formats \cap SymFormats : \E s \in SymSeedSet(f) : fmt' = f /\ seed' = s
  /\ pc' = "mut"
  /\ UNCHANGED <<ld, wrap, sym, nmut, hist, returned>>

OpsNow == IF nmut = 0 THEN Ops1 ELSE Ops2
CanMutate == pc = "mut" /\ nmut < MaxMut
H(o, a, b, c) == [o |-> o, a |-> a, b |-> b, c |-> c]
Step(l, h) == /\ ld' = l /\ l # ld /\ hist' = Append(hist, h) /\ nmut' = nmut + 1
              /\ UNCHANGED <<pc, fmt, seed, wrap, sym, returned>>

Truncate ==
  /\ CanMutate /\ fmt \in LdFormats /\ "trunc" \in OpsNow
  /\ \E n \in TruncPoints(ld) : Step(TruncLD(ld, n), H("trunc", n, 0, ""))
SetFieldA ==
  /\ CanMutate /\ fmt \in LdFormats /\ "set" \in OpsNow
  /\ \E k \in 1..Len(ld) : IsNum(ld[k]) /\ \E c \in SetVals : Step(SetField(ld, k, c), H("set", k, 0, c))
DupFieldA ==
  /\ CanMutate /\ fmt \in LdFormats /\ "dup" \in OpsNow
  /\ \E k \in 1..Len(ld) : Step(DupField(ld, k), H("dup", k, 0, ""))
DropFieldA ==
  /\ CanMutate /\ fmt \in LdFormats /\ "drop" \in OpsNow
  /\ \E k \in 1..Len(ld) : Step(DropField(ld, k), H("drop", k, 0, ""))
SpliceA ==
  /\ CanMutate /\ fmt \in LdFormats /\ "splice" \in OpsNow
  /\ \E o \in (IF SpliceOther THEN {Seeds(fmt)[i].ld : i \in 1..Len(Seeds(fmt))} ELSE {ld}) :
       \E k1 \in 0..Len(ld) : \E k2 \in 1..Len(o) + 1 :
          /\ k2 <= k1 + 1 + SpliceWindow /\ k1 <= k2 + SpliceWindow
          /\ Step(Splice(ld, k1, o, k2), H("splice", k1, k2, ""))
RestateA ==
  /\ CanMutate /\ nmut = 0 /\ fmt = "rtmpchunk" /\ "restate" \in OpsNow /\ seed.name \in DOMAIN ChunkSeqs
  /\ LET q == ChunkSeqs[seed.name] IN
       \E k \in 1..Len(q.chunks) : q.chunks[k].recv > 0 /\ \E f \in {0, 1} : \E v \in RestateVals :
          LET c2 == Restated(q.chunks[k], f, v) IN
          /\ c2.len >= 0 /\ c2.len <= 16777215 /\ c2.ty <= 255
          /\ Step(q.pre \o ChunksLD([q.chunks EXCEPT ![k] = c2]), H("restate", k, f, v))
NestA ==
  /\ CanMutate /\ fmt \in LdFormats /\ "nest" \in OpsNow /\ wrap = NoWrap
  /\ \E c \in Containers(fmt) : \E d \in NestDepths : \E cl \in Closings(d) :
       /\ wrap' = [head |-> c.head, pre |-> c.pre, post |-> c.post, depth |-> d, close |-> cl]
       /\ ld' = (IF fmt = "rtmpmsg" THEN Null ELSE ld)
  /\ hist' = Append(hist, H("nest", wrap'.depth, wrap'.close, "")) /\ nmut' = nmut + 1
  /\ UNCHANGED <<pc, fmt, seed, sym, returned>>

\* symbolic operators: (operator, position class / member name, value class, integer), concretised by the replayer
SymStep(o) == /\ sym' = Append(sym, o) /\ nmut' = nmut + 1
              /\ UNCHANGED <<pc, fmt, seed, ld, wrap, hist, returned>>
TlvOps(p, n) ==
  {Y("tlvlen", p, v, n) : v \in TlvLenVals} \cup {Y("tlvtag", p, v, n) : v \in TlvTagVals}
  \cup {Y("tlvdrop", p, "", n), Y("tlvdup", p, "", n), Y("tlvempty", p, "", n)}
  \cup {Y("tlvnest", p, "d" , n + 1000 * d) : d \in NestDepths}
\* a node is replaced by a truncated / inconsistent version of ITSELF while every enclosing layer stays well formed
\* (lengths re-computed), so that the mutation reaches the parser of the inner value: the tag byte only, tag and
\* length without content (the enclosing content ends there), tag and length 0, a length one larger than / far beyond
\* what is there, another tag over the same content, the content cut to one byte / by one byte
TlvInnerVals == {"tagonly", "taglen", "taglen0", "lenbig", "lenhuge", "wrongtag", "cut1", "cutm1"}
TlvInnerOps == {Y("tlvinner", "idx", v, n) : v \in TlvInnerVals, n \in InnerNodeIdx}
\* seeds the byte-level operators run on
Representative(f, sd) ==
  IF ByteOpsAllSeeds \/ f \notin {"jws", "jwe"} THEN TRUE
  ELSE IF f = "jws" THEN sd.alg \in {"RS256", "ES256", "HS256"}
  ELSE sd.enc = "A128GCM" /\ sd.alg \in {"dir", "RSA-OAEP", "ECDH-ES", "A128GCMKW", "A128KW"}
ByteLevel(o) == o.o \in {"trunc", "set", "ins", "del", "dup", "splice", "nest"}
Structural(o) == o.o \in {"fdrop", "fdup", "fset", "hset", "hdrop", "hmove"}
StructSeed(f, sd) == IF StructAllSeeds \/ f \notin {"jws", "jwe"} THEN TRUE
                     ELSE IF sd.form # "full" THEN TRUE ELSE Representative(f, sd)
SymOpsOf(f) ==
  (IF "trunc" \in OpsNow THEN {Y("trunc", p, "", 0) : p \in PosClasses} ELSE {})
  \cup (IF "set" \in OpsNow THEN {Y("set", p, v, 0) : p \in PosClasses, v \in ByteVals} ELSE {})
  \cup (IF "ins" \in OpsNow THEN {Y("ins", p, v, 0) : p \in PosClasses, v \in ByteVals} ELSE {})
  \cup (IF "drop" \in OpsNow THEN {Y("del", p, v, 0) : p \in PosClasses, v \in LenClasses} ELSE {})
  \cup (IF "dup" \in OpsNow THEN {Y("dup", p, v, 0) : p \in PosClasses, v \in LenClasses} ELSE {})
  \cup (IF "splice" \in OpsNow THEN {Y("splice", p, v, 0) : p \in PosClasses, v \in PosClasses} ELSE {})
  \cup (IF "nest" \in OpsNow /\ f \in {"jsonplus", "jwk", "jws", "jwe"}
        THEN {Y("nest", "", v, d) : v \in {"array", "object", "block", "string"}, d \in NestDepths} ELSE {})
  \cup (IF "field" \in OpsNow /\ f \in {"jws", "jwe", "jwk"}
        THEN {Y("fdrop", m, "", 0) : m \in FieldsOf(f)} \cup {Y("fdup", m, "", 0) : m \in FieldsOf(f)}
             \cup {Y("fset", m, v, 0) : m \in FieldsOf(f), v \in OctetVals \cap OctetSel}
        ELSE {})
  \cup (IF "header" \in OpsNow /\ f \in {"jws", "jwe"}
        THEN UNION {{Y("hset", m, v, 0) : v \in HeaderVals(m)} : m \in HeaderMembers}
             \cup {Y("hdrop", m, "", 0) : m \in HeaderMembers}
             \cup {Y("hmove", m, w, 0) : m \in {"alg", "enc", "zip", "epk", "iv", "tag"}, w \in {"protected", "unprotected", "header"}}
        ELSE {})
  \cup (IF "forge" \in OpsNow /\ f = "jweforge" /\ nmut = 0 THEN ForgeOps ELSE {})
  \cup (IF "tlv" \in OpsNow /\ f \in {"ocspresp", "ocspreq"}
        THEN UNION {TlvOps(p, 0) : p \in PosClasses} \cup UNION {TlvOps("idx", n) : n \in NodeIdx} \cup TlvInnerOps
        ELSE {})
SymMutate ==
  /\ CanMutate /\ fmt \in SymFormats
  /\ \E o \in SymOpsOf(fmt) :
       /\ (IF fmt = "jweforge" /\ nmut = 0 THEN o.o = "forge" ELSE TRUE)
       /\ (IF ByteLevel(o) THEN Representative(fmt, seed) ELSE TRUE)
       /\ (IF Structural(o) THEN StructSeed(fmt, seed) ELSE TRUE)
       /\ SymStep(o)

\* purely random input of a given length (the replayer draws it from its seed); n = length * 100 + index
Randomize ==
  /\ pc = "mut" /\ nmut = 0 /\ "random" \in Ops1
  /\ \E n \in RandLens : \E i \in 0..NRand - 1 : sym' = <<Y("random", "", "", n * 100 + i)>>
  /\ ld' = <<>> /\ nmut' = 1 /\ pc' = "call" /\ seed' = [name |-> "random"]
  /\ UNCHANGED <<fmt, wrap, hist, returned>>

Ready == /\ pc = "mut" /\ pc' = "call"
         /\ UNCHANGED <<fmt, seed, ld, wrap, sym, nmut, hist, returned>>

\* (3) the totality oracle: the call returns a value or an error - nothing else is allowed
FirstByte == IF wrap.depth > 0 /\ wrap.head \o wrap.pre # <<>> THEN Bytes(<<Head(wrap.head \o wrap.pre)>>)[1]
             ELSE IF ld # <<>> /\ FieldLen(Head(ld)) > 0 THEN FieldBytes(Head(ld))[1] ELSE 0
Decode ==
  /\ pc = "call"
  /\ returned' \in (IF PanicOnForbidden /\ fmt = "amf0" /\ FirstByte = 255 THEN {"panic"} ELSE {"ok", "error"})
  /\ pc' = "done"
  /\ UNCHANGED <<fmt, seed, ld, wrap, sym, nmut, hist>>

Mutate == Truncate \/ SetFieldA \/ DupFieldA \/ DropFieldA \/ SpliceA \/ NestA \/ RestateA \/ SymMutate \/ Randomize
Next == PickLd \/ PickSym \/ Mutate \/ Ready \/ Decode
Spec == Init /\ [][Next]_vars
GenNext == PickLd \/ PickSym \/ Mutate \/ Ready        \* generation stops at the call

\* ---------------------------------------------------------------- properties
Total == pc = "done" => returned \in {"ok", "error"}

FieldOk(f) ==
  CASE f.k = "u8"    -> f.v \in 0..255
    [] f.k = "u16"   -> f.v \in 0..65535
    [] f.k = "u24"   -> f.v \in 0..16777215
    [] f.k = "u32"   -> f.v >= 0
    [] f.k = "u32le" -> f.v >= 0
    [] f.k = "raw"   -> \A i \in 1..Len(f.b) : f.b[i] \in 0..255
    [] f.k = "fill"  -> f.n >= 0
    [] f.k = "fillo" -> f.n >= 0 /\ f.off >= 0
    [] OTHER -> FALSE
LdOk(l) == \A i \in 1..Len(l) : FieldOk(l[i])
\* the operators keep the descriptor well formed (the expander never sees a negative length or an overflowing value)
WellFormed == LdOk(ld) /\ LdOk(wrap.head) /\ LdOk(wrap.pre) /\ LdOk(wrap.post)
              /\ wrap.close \in 0..wrap.depth /\ nmut \in 0..MaxMut /\ Len(hist) + Len(sym) = nmut
\* a mutated input is never longer than two seeds and a duplicated field
MaxSeedLen(f) == LET S == {ByteLen(Seeds(f)[i].ld) : i \in 1..Len(Seeds(f))} IN CHOOSE m \in S : \A x \in S : x <= m
Bounded == fmt \in LdFormats => ByteLen(ld) <= (MaxMut + 2) * MaxSeedLen(fmt)
\* an unmutated seed is a valid encoding: the replayer expects "ok" from the decoder named by the seed
Expect == IF nmut = 0 /\ fmt \in LdFormats /\ seed.ok # "" THEN "ok" ELSE "any"

\* ======================================================================
\* (4) enum ranges and scaling families
\* ======================================================================
\* every integer enum type of the wire formats: name, bits of the underlying type
EnumTypes == {
  [t |-> "flv.TagType", bits |-> 8], [t |-> "flv.AudioFrameTrait", bits |-> 8], [t |-> "flv.AudioChannels", bits |-> 8],
  [t |-> "flv.AudioSampleBits", bits |-> 8], [t |-> "flv.AudioSamplingRate", bits |-> 8], [t |-> "flv.AudioCodec", bits |-> 8],
  [t |-> "flv.VideoFrameType", bits |-> 8], [t |-> "flv.VideoCodec", bits |-> 8], [t |-> "flv.VideoFrameTrait", bits |-> 8],
  [t |-> "aac.ObjectType", bits |-> 8], [t |-> "aac.Profile", bits |-> 8], [t |-> "aac.SampleRateIndex", bits |-> 8],
  [t |-> "aac.Channels", bits |-> 8],
  [t |-> "avc.NALUType", bits |-> 8], [t |-> "avc.NALRefIDC", bits |-> 8], [t |-> "avc.AVCLevel", bits |-> 8],
  [t |-> "avc.AVCProfile", bits |-> 16],
  [t |-> "rtmp.MessageType", bits |-> 8], [t |-> "rtmp.LimitType", bits |-> 8], [t |-> "rtmp.EventType", bits |-> 16],
  [t |-> "amf0.marker", bits |-> 8],
  [t |-> "ocsp.ResponseStatus", bits |-> 16], [t |-> "websocket.closeCode", bits |-> 16]}
\* 8 bit types: one case per value; 16 bit types: one case per block of 256 values
EnumCases ==
  UNION {IF e.bits = 8 THEN {[t |-> e.t, lo |-> v, n |-> 1] : v \in 0..255}
         ELSE {[t |-> e.t, lo |-> 256 * b, n |-> 256] : b \in 0..255} : e \in EnumTypes}

\* scaling families: input(n) = head \o item^n \o tail \o post^n, measured at doubling byte sizes B (n = B / |item|)
C_obj    == [head |-> <<>>, pre |-> <<U8(3)>> \o Key(<<>>), post |-> ObjEnd]
C_obja   == [head |-> <<>>, pre |-> <<U8(3)>> \o Key(S_a), post |-> ObjEnd]
C_ecma   == [head |-> <<>>, pre |-> <<U8(8), U32(1)>> \o Key(S_a), post |-> ObjEnd]
C_strict == [head |-> <<>>, pre |-> <<U8(10), U32(1)>> \o Key(S_a), post |-> <<>>]
Max2(a, b) == IF a > b THEN a ELSE b
RepsFor(B, item, post) == Max2(1, B \div (ByteLen(item) + ByteLen(post)))
Fam(name, f, dec, arg, B, head, item, tail, post) ==
  [name |-> name, fmt |-> f, dec |-> dec, arg |-> arg, bytes |-> B, head |-> head, item |-> item,
   reps |-> RepsFor(B, item, post), tail |-> tail, post |-> post]
NestFam(name, dec, c, B) == Fam(name, "amf0", dec, 0, B, c.head, c.pre, Null, c.post)
ScaleCasesLd(B) ==
  LET n128 == RepsFor(B, H3(7) \o <<Fill(128, 2)>>, <<>>)
      npair == RepsFor(B, Key(S_a) \o Num(1), <<>>)
  IN {
  NestFam("amf0.nest.object", "amf0.Object", C_obj, B),
  NestFam("amf0.nest.objecta", "amf0.discovery", C_obja, B),
  NestFam("amf0.nest.ecma", "amf0.EcmaArray", C_ecma, B),
  NestFam("amf0.nest.strict", "amf0.StrictArray", C_strict, B),
  Fam("amf0.pairs.object", "amf0", "amf0.Object", 0, B, <<U8(3)>>, Key(S_a) \o Num(1), ObjEnd, <<>>),
  Fam("amf0.pairs.ecma", "amf0", "amf0.EcmaArray", 0, B, <<U8(8), U32(0)>>, Key(S_k) \o StrV(S_app), ObjEnd, <<>>),
  Fam("amf0.pairs.strict", "amf0", "amf0.StrictArray", 0, B, <<U8(10), U32(npair)>>, Key(S_a) \o Num(1), <<>>, <<>>),
  Fam("rtmp.msg.pairs", "rtmpmsg", "rtmp.msg", 20, B, CmdHead(S_connect, Num1) \o <<U8(3)>>, Key(S_a) \o Num(1), ObjEnd, <<>>),
  Fam("rtmp.messages", "rtmpchunk", "rtmp.read", 0, B, <<>>, H0(5, 1, 8, 9, 1) \o <<Fill(8, 2)>>, <<>>, <<>>),
  Fam("rtmp.bigmessage", "rtmpchunk", "rtmp.read", 0, B, H0(7, 0, 128 * (n128 + 1), 9, 1) \o <<Fill(128, 1)>>, H3(7) \o <<Fill(128, 2)>>, <<>>, <<>>),
  Fam("rtmp.bigmessage1", "rtmpchunk", "rtmp.read", 0, B,
      H0(2, 0, 4, 1, 0) \o <<U32(1)>> \o H0(7, 0, RepsFor(B, H3(7) \o <<Fill(1, 2)>>, <<>>) + 1, 9, 1) \o <<Fill(1, 1)>>, H3(7) \o <<Fill(1, 2)>>, <<>>, <<>>),
  Fam("rtmp.chunks1", "rtmpchunk", "rtmp.read", 0, B,
      H0(2, 0, 4, 1, 0) \o <<U32(1)>>, H0(5, 1, 2, 9, 1) \o <<Fill(1, 3)>> \o H3(5) \o <<Fill(1, 4)>>, <<>>, <<>>),
  Fam("rtmp.emptymessages", "rtmpchunk", "rtmp.read", 0, B, <<>>, H0(5, 1, 0, 9, 1), <<>>, <<>>),
  Fam("flv.tags", "flv", "flv.demux", 0, B, FlvHdr(5), Tag(9, 40, <<VideoHdr(2, 7), U8(1), U24(0), Fill(11, 5)>>), <<>>, <<>>),
  Fam("flv.emptytags", "flv", "flv.demux", 0, B, FlvHdr(5), Tag(8, 0, <<>>), <<>>, <<>>),
  Fam("flv.audio.raw", "flvtag", "flv.audio", 0, B, <<AudioHdr(10, 3, 1, 1), U8(1)>>, <<Fill(16, 6)>>, <<>>, <<>>),
  Fam("flv.video.raw", "flvtag", "flv.video", 0, B, <<VideoHdr(1, 7), U8(1), U24(0)>>, <<Fill(16, 7)>>, <<>>, <<>>),
  Fam("aac.frames", "aac", "aac.adts", 0, B, <<>>, Adts(1, 4, 2, 9, 8, FALSE), <<>>, <<>>),
  Fam("aac.emptyframes", "aac", "aac.adts", 0, B, <<>>, Adts(1, 4, 2, 0, 9, FALSE), Adts(1, 4, 2, 1, 9, FALSE), <<>>),
  Fam("avc.sample.nalus", "avc", "avc.sample", 3, B, <<>>, <<U32(4), U8(65), Fill(3, 10)>>, <<>>, <<>>),
  Fam("avc.sample.tiny", "avc", "avc.sample", 0, B, <<>>, <<U8(1), U8(65)>>, <<>>, <<>>),
  Fam("avc.nalu", "avc", "avc.nalu", 0, B, <<U8(101)>>, <<Fill(16, 11)>>, <<>>, <<>>),
  Fam("ws.frames.client", "ws", "ws.client.nc", 0, B, FrC(1, 1, 12), FrC(0, 1, 13), FrC(128, 1, 14), <<>>),
  Fam("ws.frames.server", "ws", "ws.server.nc", 0, B, FrS(2, 1, 15), FrS(0, 1, 16), FrS(128, 1, 17), <<>>),
  Fam("ws.messages.client", "ws", "ws.client.nc", 0, B, <<>>, FrC(130, 2, 18), <<>>, <<>>),
  Fam("ws.pings.server", "ws", "ws.server.c", 0, B, FrS(1, 1, 19), FrS(137, 0, 20), FrS(128, 1, 21), <<>>),
  Fam("ws.emptyframes.client", "ws", "ws.client.c", 0, B, FrC(1, 0, 22), FrC(0, 0, 23), FrC(128, 0, 24), <<>>)}
\* families of the symbolic formats, built by the replayer for a size n (items or bytes)
ScaleCasesSym(B) == {
  [name |-> n, fmt |-> f, dec |-> "", arg |-> 0, bytes |-> B, head |-> <<>>, item |-> <<>>, reps |-> 0, tail |-> <<>>, post |-> <<>>] :
     <<f, n>> \in {<<"jsonplus", "jsonplus.blockcomments">>, <<"jsonplus", "jsonplus.linecomments">>, <<"jsonplus", "jsonplus.onestring">>,
                   <<"jsonplus", "jsonplus.strings">>, <<"jsonplus", "jsonplus.plain">>, <<"jsonplus", "jsonplus.longshort">>,
                   <<"jsonplus", "jsonplus.onecomment">>, <<"jsonplus", "jsonplus.escapes">>,
                   <<"jws", "jws.signatures">>, <<"jws", "jws.payload">>, <<"jwe", "jwe.recipients">>, <<"jwe", "jwe.ciphertext">>,
                   <<"jwe", "jwe.zip">>, <<"jwk", "jwk.x5c">>, <<"ocspresp", "ocsp.responses">>, <<"ocspresp", "ocsp.extensions">>,
                   <<"ocspreq", "ocsp.requests">>}}
=============================================================================
