INIT ScaleInit
NEXT MatrixNext
CONSTANTS
  Formats = {}
  SeedCap = 0
  MaxMut = 0
  Ops1 = {}
  Ops2 = {}
  NestDepths = {}
  SpliceOther = FALSE
  RandLens = {}
  NRand = 0
  NodeIdx = {}
  PanicOnForbidden = FALSE
  ScaleSkip = {"amf0.nest.objecta", "amf0.nest.ecma"}
  ByteSizes <- QuickSizes
INVARIANT EmitMatrix
CHECK_DEADLOCK FALSE
