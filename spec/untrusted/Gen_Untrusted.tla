---------------------------- MODULE Gen_Untrusted ----------------------------
(* Case generation for C07.                                                   *)
(*  mutation families (Gen_Untrusted.ld.*.cfg, Gen_Untrusted.sym.*.cfg):      *)
(*    every state "call" of the state machine of Untrusted is one case: the   *)
(*    mutated layout descriptor (or the symbolic operator tuples) and the     *)
(*    specification's expectation ("ok" for an unmutated valid encoding,      *)
(*    "any" = a value or an error otherwise).  States that differ only in the *)
(*    history of operators are one case (VIEW).                               *)
(*  enum totality (Gen_Untrusted.enum.cfg): [type, first value, count]        *)
(*  scaling families (Gen_Untrusted.scale.*.cfg): one case per family and     *)
(*    byte size: head, item, repetitions, tail, post                          *)
EXTENDS Untrusted, TLC, Json

CONSTANTS ByteSizes,     \* scaling families: sequence of input sizes in bytes (doubling)
          ScaleSkip      \* scaling families left to the thorough tier
VARIABLE c
NoSizes       == <<>>
QuickSizes    == <<4096, 8192, 16384, 32768, 65536, 131072, 262144>>
ThoroughSizes == <<4096, 8192, 16384, 32768, 65536, 131072, 262144, 524288, 1048576>>
gvars == <<vars, c>>

GenView == <<pc, fmt, seed, ld, wrap, sym, nmut, c>>

\* ---------------------------------------------------------- mutation cases
MutInit == Init /\ c = 0
MutNext == GenNext /\ UNCHANGED c
HasWrap == wrap.depth > 0
CaseOf ==
  [f |-> fmt, s |-> seed, ld |-> ld, y |-> sym, h |-> hist, x |-> Expect,
   w |-> IF HasWrap THEN <<wrap>> ELSE <<>>]
EmitMut == pc = "call" => PrintT(<<"CASE", ToJson(CaseOf)>>)

\* ------------------------------------------------------------ value matrices
Fixed == /\ pc = "matrix" /\ fmt = "" /\ seed = [name |-> ""] /\ ld = <<>> /\ wrap = NoWrap
         /\ sym = <<>> /\ nmut = 0 /\ hist = <<>> /\ returned = "none"
EnumInit == Fixed /\ \E e \in EnumCases : c = e
\* one case per family: the family at every size of ByteSizes
AllScale(B) == ScaleCasesLd(B) \cup ScaleCasesSym(B)
FamilyNames == {e.name : e \in AllScale(4096)} \ ScaleSkip
FamilyCase(nm) ==
  LET first == CHOOSE e \in AllScale(ByteSizes[1]) : e.name = nm IN
  [name |-> nm, fmt |-> first.fmt, dec |-> first.dec, arg |-> first.arg,
   pts |-> [i \in 1..Len(ByteSizes) |->
              LET e == CHOOSE x \in AllScale(ByteSizes[i]) : x.name = nm
              IN [bytes |-> e.bytes, head |-> e.head, item |-> e.item, reps |-> e.reps, tail |-> e.tail, post |-> e.post]]]
ScaleInit == Fixed /\ \E nm \in FamilyNames : c = FamilyCase(nm)
MatrixInit == EnumInit \/ ScaleInit
MatrixNext == UNCHANGED gvars
EmitMatrix == PrintT(<<"CASE", ToJson(c)>>)
=============================================================================
