INIT MatrixInit
NEXT MatrixNext
CONSTANTS
  Formats = {}
  SeedCap = 0
  MaxMut = 0
  Ops1 = {}
  Ops2 = {}
  NestDepths = {}
  SpliceWindow = 8
  OctetSel = {"empty", "b1", "m1", "p1", "flip0", "fliplast", "x2", "badb64", "pad", "null", "num", "obj", "arr"}
  JweCbcAlgs = {"RSA1_5", "RSA-OAEP", "RSA-OAEP-256", "A128KW", "A192KW", "A256KW", "dir", "ECDH-ES", "ECDH-ES+A128KW", "ECDH-ES+A192KW", "ECDH-ES+A256KW", "A128GCMKW", "A192GCMKW", "A256GCMKW"}
  StructAllSeeds = FALSE
  SpliceOther = FALSE
  RandLens = {}
  NRand = 0
  InnerNodeIdx = {0, 1, 2, 3, 4, 5, 6, 7, 8, 9, 10, 11, 12, 13, 14, 15, 16, 17, 18, 19, 20, 21, 22, 23, 24, 25, 26, 27, 28, 29, 30, 31, 32, 33, 34, 35, 36, 37, 38, 39, 40, 41, 42, 43, 44, 45, 46, 47, 48, 49, 50, 51, 52, 53, 54, 55, 56, 57, 58, 59, 60, 61, 62, 63, 64, 65, 66, 67, 68, 69, 70, 71, 72, 73, 74, 75, 76, 77, 78, 79, 80, 81, 82, 83, 84, 85, 86, 87, 88, 89, 90, 91, 92, 93, 94, 95, 96, 97, 98, 99, 100, 101, 102, 103, 104, 105, 106, 107, 108, 109, 110, 111, 112, 113, 114, 115, 116, 117, 118, 119}
  ForgeAlgs = {"RSA1_5", "RSA-OAEP", "RSA-OAEP-256", "A128KW", "A192KW", "A256KW", "dir", "ECDH-ES", "ECDH-ES+A128KW", "ECDH-ES+A192KW", "ECDH-ES+A256KW", "A128GCMKW", "A192GCMKW", "A256GCMKW"}
  NodeIdx = {}
  ByteOpsAllSeeds = FALSE
  PanicOnForbidden = FALSE
  ScaleSkip = {}
  ByteSizes <- ThoroughSizes
INVARIANT EmitMatrix
CHECK_DEADLOCK FALSE
