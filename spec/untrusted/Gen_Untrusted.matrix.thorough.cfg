INIT MatrixInit
NEXT MatrixNext
CONSTANTS
  Formats = {}
  SeedCap = 0
  MaxMut = 0
  Ops1 = {}
  Ops2 = {}
  NestDepths = {}
  SpliceWindow = 8
  StructAllSeeds = FALSE
  SpliceOther = FALSE
  RandLens = {}
  NRand = 0
  NodeIdx = {}
  ByteOpsAllSeeds = FALSE
  PanicOnForbidden = FALSE
  ScaleSkip = {}
  ByteSizes <- ThoroughSizes
INVARIANT EmitMatrix
CHECK_DEADLOCK FALSE
