INIT MatrixInit
NEXT MatrixNext
CONSTANTS
  Formats = {}
  SeedCap = 0
  MaxMut = 0
  Ops1 = {}
  Ops2 = {}
  NestDepths = {}
  SpliceWindow = 8
  OctetSel = {"empty", "b1", "m1", "p1", "flip0", "fliplast", "x2", "badb64", "pad", "null", "num", "obj", "arr"}
  JweCbcAlgs = {"RSA1_5", "RSA-OAEP", "RSA-OAEP-256", "A128KW", "A192KW", "A256KW", "dir", "ECDH-ES", "ECDH-ES+A128KW", "ECDH-ES+A192KW", "ECDH-ES+A256KW", "A128GCMKW", "A192GCMKW", "A256GCMKW"}
  StructAllSeeds = FALSE
  SpliceOther = FALSE
  RandLens = {}
  NRand = 0
  NodeIdx = {}
  ByteOpsAllSeeds = FALSE
  PanicOnForbidden = FALSE
  ScaleSkip = {}
  ByteSizes <- ThoroughSizes
INVARIANT EmitMatrix
CHECK_DEADLOCK FALSE
