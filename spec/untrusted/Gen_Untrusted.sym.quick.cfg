INIT MutInit
NEXT MutNext
CONSTANTS
  Formats = {"jws", "jwe", "jwk", "ocspresp", "ocspreq", "jsonplus", "rtmpchunk", "rtmpmsg", "amf0", "flv", "flvtag", "aac", "avc", "ws"}
  SeedCap = 1
  MaxMut = 1
  Ops1 = {"trunc", "set", "ins", "drop", "dup", "splice", "nest", "field", "header", "tlv", "random"}
  Ops2 = {}
  NestDepths = {1, 16, 256}
  SpliceOther = FALSE
  RandLens = {0, 1, 2, 3, 7, 64, 1000, 65536}
  NRand = 2
  NodeIdx = {}
  PanicOnForbidden = FALSE
  ScaleSkip = {}
  ByteSizes <- NoSizes
VIEW GenView
INVARIANT EmitMut
CHECK_DEADLOCK FALSE
