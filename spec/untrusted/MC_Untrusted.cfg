SPECIFICATION Spec
CONSTANTS
  Formats = {"amf0", "aac", "ws", "avc", "flvtag", "ocspreq"}
  SeedCap = 1
  MaxMut = 2
  Ops1 = {"trunc", "set", "dup", "drop", "splice", "nest", "field", "tlv", "random"}
  Ops2 = {"trunc", "drop"}
  NestDepths = {1, 2}
  SpliceOther = TRUE
  RandLens = {0, 1, 7}
  NRand = 2
  NodeIdx = {0}
  PanicOnForbidden = FALSE
VIEW McView
INVARIANTS Total WellFormed Bounded
CHECK_DEADLOCK FALSE
