INIT ScaleInit
NEXT MatrixNext
CONSTANTS
  Formats = {}
  SeedCap = 0
  MaxMut = 0
  Ops1 = {}
  Ops2 = {}
  NestDepths = {}
  SpliceOther = FALSE
  RandLens = {}
  NRand = 0
  NodeIdx = {}
  PanicOnForbidden = FALSE
  ScaleSkip = {}
  ByteSizes <- ThoroughSizes
INVARIANT EmitMatrix
CHECK_DEADLOCK FALSE
