INIT MutInit
NEXT MutNext
CONSTANTS
  Formats = {"rtmpchunk", "rtmpmsg", "amf0", "flv", "flvtag", "aac", "avc", "ws", "jws", "jwe", "jwk", "ocspresp", "ocspreq", "jsonplus"}
  SeedCap = 100
  MaxMut = 1
  Ops1 = {"trunc", "set", "ins", "drop", "dup", "splice", "nest", "field", "header", "tlv", "random"}
  Ops2 = {}
  NestDepths = {1, 2, 16, 256}
  SpliceWindow = 8
  OctetSel = {"empty", "b1", "m1", "p1", "flip0", "x2", "badb64", "null"}
  JweCbcAlgs = {"dir", "RSA1_5", "ECDH-ES+A128KW", "A128GCMKW"}
  StructAllSeeds = FALSE
  SpliceOther = FALSE
  RandLens = {0, 1, 2, 3, 7, 64, 1000, 65536}
  NRand = 2
  NodeIdx = {}
  ByteOpsAllSeeds = FALSE
  PanicOnForbidden = FALSE
  ScaleSkip = {}
  ByteSizes <- NoSizes
VIEW GenView
INVARIANT EmitMut
CHECK_DEADLOCK FALSE
