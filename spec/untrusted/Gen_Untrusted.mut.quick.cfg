INIT MutInit
NEXT MutNext
CONSTANTS
  Formats = {"rtmpchunk", "rtmpmsg", "amf0", "flv", "flvtag", "aac", "avc", "ws", "jws", "jwe", "jweforge", "jwk", "ocspresp", "ocspreq", "jsonplus"}
  SeedCap = 100
  MaxMut = 1
  Ops1 = {"trunc", "set", "ins", "drop", "dup", "splice", "nest", "field", "header", "tlv", "random", "restate", "forge"}
  Ops2 = {}
  NestDepths = {1, 2, 16, 256}
  SpliceWindow = 8
  OctetSel = {"empty", "b1", "m1", "p1", "flip0", "x2", "badb64", "null"}
  JweCbcAlgs = {"dir", "RSA1_5", "ECDH-ES+A128KW", "A128GCMKW"}
  StructAllSeeds = FALSE
  SpliceOther = FALSE
  RandLens = {0, 1, 2, 3, 7, 64, 1000, 65536}
  NRand = 2
  InnerNodeIdx = {0, 1, 2, 3, 4, 5, 6, 7, 8, 9, 10, 11, 12, 13, 14, 15, 16, 17, 18, 19, 20, 21, 22, 23, 24, 25, 26, 27, 28, 29, 30, 31, 32, 33, 34, 35, 36, 37, 38, 39, 40, 41, 42, 43, 44, 45, 46, 47, 48, 49, 50, 51, 52, 53, 54, 55, 56, 57, 58, 59, 60, 61, 62, 63}
  ForgeAlgs = {"dir", "A128KW", "A256GCMKW", "RSA-OAEP", "RSA1_5", "ECDH-ES", "ECDH-ES+A192KW"}
  NodeIdx = {}
  ByteOpsAllSeeds = FALSE
  PanicOnForbidden = FALSE
  ScaleSkip = {}
  ByteSizes <- NoSizes
VIEW GenView
INVARIANT EmitMut
CHECK_DEADLOCK FALSE
