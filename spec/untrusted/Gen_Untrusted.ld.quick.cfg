INIT MutInit
NEXT MutNext
CONSTANTS
  Formats = {"rtmpchunk", "rtmpmsg", "amf0", "flv", "flvtag", "aac", "avc", "ws"}
  SeedCap = 100
  MaxMut = 1
  Ops1 = {"trunc", "set", "dup", "drop", "splice", "nest"}
  Ops2 = {}
  NestDepths = {1, 2, 16, 256}
  SpliceOther = FALSE
  RandLens = {}
  NRand = 0
  NodeIdx = {}
  PanicOnForbidden = FALSE
  ScaleSkip = {}
  ByteSizes <- NoSizes
VIEW GenView
INVARIANT EmitMut
CHECK_DEADLOCK FALSE
