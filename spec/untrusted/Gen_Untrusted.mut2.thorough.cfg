INIT MutInit
NEXT MutNext
CONSTANTS
  Formats = {"rtmpchunk", "rtmpmsg", "amf0", "flv", "flvtag", "aac", "avc", "ws"}
  SeedCap = 2
  MaxMut = 2
  Ops1 = {"set", "drop"}
  Ops2 = {"trunc", "set"}
  NestDepths = {}
  SpliceWindow = 0
  OctetSel = {"empty", "m1", "p1", "null"}
  JweCbcAlgs = {}
  StructAllSeeds = FALSE
  SpliceOther = FALSE
  RandLens = {}
  NRand = 0
  NodeIdx = {}
  ByteOpsAllSeeds = FALSE
  PanicOnForbidden = FALSE
  ScaleSkip = {}
  ByteSizes <- NoSizes
VIEW GenView
INVARIANT EmitMut
CHECK_DEADLOCK FALSE
