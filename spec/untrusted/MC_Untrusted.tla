---------------------------- MODULE MC_Untrusted ----------------------------
EXTENDS Untrusted
McView == <<pc, fmt, seed, ld, wrap, sym, nmut, returned>>
=============================================================================
