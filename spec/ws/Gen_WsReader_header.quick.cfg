INIT GenInit
NEXT GenNext
CONSTANTS
  Roles = {"server", "client"}
  Limits = {0, 1, 126}
  MaxFrames = 1
  Family = "header"
  Alpha <- GenAlpha
  Probe <- Probes
  AcceptTopBit = FALSE
  LimitPerFrame = FALSE
  PongEmpty = FALSE
  BufSizes = {0}
  CtlNeedsBuffer = FALSE
INVARIANTS Emit
CHECK_DEADLOCK FALSE
