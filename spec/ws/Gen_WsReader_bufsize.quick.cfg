INIT GenInit
NEXT GenNext
CONSTANTS
  Roles = {"server", "client"}
  Limits = {0}
  MaxFrames = 2
  JudgeRsv1NonFirst = TRUE
  Family = "bufsize"
  Alpha <- GenAlpha
  Probe <- Probes
  AcceptTopBit = FALSE
  LimitPerFrame = FALSE
  PongEmpty = FALSE
  Compress = {FALSE}
  Rsv1Shadows = FALSE
  Rsv1Anywhere = FALSE
  BufSizes = {0, 1, 2, 13, 14, 15, 64, 124, 125, 126, 1024}
  CtlNeedsBuffer = FALSE
INVARIANTS Emit
CHECK_DEADLOCK FALSE
