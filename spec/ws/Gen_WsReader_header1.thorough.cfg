INIT GenInit
NEXT GenNext
CONSTANTS
  Roles = {"server", "client"}
  Limits = {0, 1, 126}
  MaxFrames = 1
  JudgeRsv1NonFirst = TRUE
  Family = "header"
  Alpha <- GenAlpha
  Probe <- Probes
  AcceptTopBit = FALSE
  LimitPerFrame = FALSE
  PongEmpty = FALSE
  Compress = {FALSE, TRUE}
  Rsv1Shadows = FALSE
  Rsv1Anywhere = FALSE
  BufSizes = {0}
  CtlNeedsBuffer = FALSE
INVARIANTS Emit
CHECK_DEADLOCK FALSE
