INIT PInit
NEXT PNext
CONSTANTS
  Roles = {"server", "client"}
  Limits = {0}
  MaxFrames = 2
  Alpha <- BufMc
  Probe <- Probes
  AcceptTopBit = FALSE
  LimitPerFrame = FALSE
  PongEmpty = FALSE
  Compress = {FALSE}
  Rsv1Shadows = FALSE
  Rsv1Anywhere = FALSE
  BufSizes = {0, 1, 64}
  CtlNeedsBuffer = TRUE
INVARIANTS PTypeOk BufferBlind
CHECK_DEADLOCK FALSE
