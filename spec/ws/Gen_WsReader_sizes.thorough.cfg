INIT GenInit
NEXT GenNext
CONSTANTS
  Roles = {"server", "client"}
  Limits = {0, 65535, 65536, 131071}
  MaxFrames = 3
  JudgeRsv1NonFirst = TRUE
  Family = "sizes"
  Alpha <- GenAlpha
  Probe <- Probes
  AcceptTopBit = FALSE
  LimitPerFrame = FALSE
  PongEmpty = FALSE
  Compress = {FALSE}
  Rsv1Shadows = FALSE
  Rsv1Anywhere = FALSE
  BufSizes = {0}
  CtlNeedsBuffer = FALSE
INVARIANTS Emit
CHECK_DEADLOCK FALSE
