--------------------------- MODULE MC_WsReaderBuf ---------------------------
(* C14, configuration independence.  Two receivers of WsReader run in lockstep *)
(* on the same frames of the same peer, with the same role and read limit; they *)
(* differ only in the configured read buffer size.  BufferBlind: they agree on  *)
(* everything observable (messages delivered, frames written back, failure and  *)
(* its class, the message in progress) after every frame and at the end of the  *)
(* stream - RFC 6455 has no read buffer, so no size of it may change what a     *)
(* receiver does.  With the named deviation CtlNeedsBuffer (control payloads    *)
(* need to fit the buffer) TLC must report BufferBlind violated.                *)
EXTENDS MC_WsReader

VARIABLES role2, limit2, pmd2, zopen2, taken2, bufsize2, open2, accLen2, frags2, failed2, alts2, cc2, delivered2, back2, pending2, ended2, n2,
          pings2, fins2

B == INSTANCE WsReader WITH
       role <- role2, limit <- limit2, pmd <- pmd2, zopen <- zopen2, taken <- taken2, bufsize <- bufsize2, open <- open2, accLen <- accLen2, frags <- frags2,
       failed <- failed2, alts <- alts2, cc <- cc2, delivered <- delivered2, back <- back2, pending <- pending2,
       ended <- ended2, n <- n2, pings <- pings2, fins <- fins2

PInit == Init /\ B!Init /\ role2 = role /\ limit2 = limit /\ pmd2 = pmd

\* the peer does not know the receiver's buffer: one frame, both receivers (the end inside a frame is left to
\* WsReader's own CutIn: its outcome is a free choice among classes, not a function)
PNext == \/ \E f \in Sendable : Frame(f) /\ B!Frame(f)
         \/ CutBoundary /\ B!CutBoundary

PTypeOk == TypeOk /\ B!TypeOk /\ role2 = role /\ limit2 = limit /\ pmd2 = pmd
BufferBlind == Observable = B!Observable
=============================================================================
