INIT GenInit
NEXT GenNext
CONSTANTS
  Roles = {"server", "client"}
  Limits = {1, 125, 126, 1000}
  MaxFrames = 3
  Family = "limit"
  Alpha <- GenAlpha
  Probe <- Probes
  AcceptTopBit = FALSE
  LimitPerFrame = FALSE
  PongEmpty = FALSE
  BufSizes = {0}
  CtlNeedsBuffer = FALSE
INVARIANTS Emit
CHECK_DEADLOCK FALSE
