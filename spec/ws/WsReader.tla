------------------------------ MODULE WsReader ------------------------------
(* C14. An RFC 6455 RECEIVER as a state machine: what an endpoint of a given   *)
(* role must deliver, answer and reject for a sequence of frames sent by an    *)
(* arbitrary peer, with a read limit on the size of a message.                 *)
(*                                                                             *)
(* One action Frame(f) per frame arriving, Cut* for the end of the byte stream *)
(* (at a frame boundary, or inside frame f).  The rules are written from RFC   *)
(* 6455 section 5 (framing), 5.5 (control frames), 7.4 (status codes) and RFC  *)
(* 3629 (UTF-8), in the order section 5.2 lays the header out - not from the   *)
(* Go source.  The frame layout is an LD (spec/common/LD.tla).                 *)
(*                                                                             *)
(* Lengths: a length is [form, val, big]; the three 64-bit values that do not  *)
(* fit TLC's integers are symbolic classes (big = "p63m1" is 2^63-1, "p63" is  *)
(* 2^63, "p64m1" is 2^64-1), all arithmetic on them is by case: they exceed    *)
(* every configured limit and their payload can never arrive completely.       *)
(* Not in the domain (DESIGN.md section 8): non-minimal length forms, RSV1     *)
(* with compression negotiated, UTF-8 validity of text payloads, close bodies  *)
(* of one byte, close code 1014.                                               *)
(*                                                                             *)
(* Configuration that DOES matter: `pmd` - the permessage-deflate extension of  *)
(* RFC 7692 was negotiated in the opening handshake.  RFC 6455 5.2: a reserved  *)
(* bit MUST be 0 "unless an extension is negotiated that defines meanings for   *)
(* non-zero values"; RFC 7692 6 defines exactly one: RSV1 on the FIRST frame of *)
(* a data message says that the message is compressed ("An endpoint MUST NOT    *)
(* set the Per-Message Compressed bit of control frames and non-first fragments *)
(* of a data message.  An endpoint receiving such a frame MUST _Fail the        *)
(* WebSocket Connection_").  RSV2 / RSV3 have no meaning under any setting.     *)
(* The payload of a compressed message is a DEFLATE stream (rendered by the     *)
(* replayer); lengths, and so the read limit, are those on the wire.            *)
(*                                                                             *)
(* Configuration that must NOT matter: `bufsize` is the size of the read       *)
(* buffer the application configured (0 = the default).  RFC 6455 knows no     *)
(* such thing: what is delivered, answered and rejected is a function of the   *)
(* role, the limit and the frames alone.  No action of the receiver reads      *)
(* bufsize (only the named deviation CtlNeedsBuffer does); BufferBlind in      *)
(* MC_WsReaderBuf.tla states the independence on two receivers run in lockstep,*)
(* NoSpontaneousFailure states its consequence on a single receiver.           *)
EXTENDS Naturals, Sequences, FiniteSets, LD

CONSTANTS
  Roles,            \* subset of {"server", "client"}: the role of the READING endpoint
  Limits,           \* read limits tried; 0 = no limit
  MaxFrames,        \* bound on the number of frames of a behaviour
  Alpha(_, _),      \* role, limit -> the set of frames the peer may send (input alphabet)
  Probe(_),         \* role -> frames still sent after the reader failed (stickiness probes)
  AcceptTopBit,     \* named deviation C14/length-top-bit: a 64-bit length with the top bit set is taken as an empty frame
  LimitPerFrame,    \* named deviation C14/limit-per-frame: the limit is compared with the frame, not the message
  PongEmpty,        \* named deviation C14/pong-empty: pongs do not carry the ping's payload
  Compress,         \* subset of BOOLEAN: permessage-deflate negotiated or not
  Rsv1Shadows,      \* named deviation C14/rsv1-shadows-reserved-bits: with the extension negotiated and RSV1 set, RSV2 and
                    \* RSV3 are not looked at
  Rsv1Anywhere,     \* named deviation C14/rsv1-on-non-first-frame-accepted: with the extension negotiated RSV1 is ignored
                    \* on control frames and continuation frames instead of failing the connection
  BufSizes,         \* read buffer sizes the application may configure; 0 = default
  CtlNeedsBuffer    \* named deviation C14/control-needs-buffer: a control frame whose payload is longer than the
                    \* configured read buffer cannot be taken in: the read fails, nothing is answered

VARIABLES
  role, limit,
  pmd,         \* permessage-deflate negotiated (RFC 7692)
  zopen,       \* the message in progress is compressed (its first frame carried RSV1)
  taken,       \* observation: {[op, rsv]} of the frames the receiver took in (did not fail on)
  bufsize,     \* configured size of the read buffer (0: default); NO action below reads it
  open,        \* 0: no message in progress; 1 / 2: a fragmented text / binary message is in progress
  accLen,      \* payload bytes of the message in progress so far
  frags,       \* its fragments so far: <<[n, id, big]>> (id names the fill pattern of the payload)
  failed,      \* sticky: "no", or the class of the first failure: "protocol", "limit", "close", "io"
  alts,        \* classes of outcome the PROPERTY allows for that failure (see Classes)
  cc,          \* status code of the peer's close frame (1005: none), 0 otherwise
  delivered,   \* <<[type, len, frags]>> messages handed to the application
  back,        \* <<[t, code, n, id]>> frames the endpoint wrote back: pong(n,id), close(code)
  pending,     \* a frame of 2^63-1 bytes was accepted: everything that follows is its payload
  ended,       \* the byte stream has ended
  n,           \* frames sent so far
  pings,       \* observation: payloads of the pings processed <<[n, id]>>
  fins         \* observation: number of final data frames accepted

vars == <<role, limit, pmd, zopen, taken, bufsize, open, accLen, frags, failed, alts, cc, delivered, back, pending, ended, n, pings, fins>>

\* ---------------------------------------------------------------- frames
Lengths(v) == IF v <= 125 THEN [form |-> 7, val |-> v, big |-> "no"]
              ELSE IF v <= 65535 THEN [form |-> 16, val |-> v, big |-> "no"]
              ELSE [form |-> 64, val |-> v, big |-> "no"]          \* minimal form (5.2)
BigLen(c)  == [form |-> 64, val |-> 0, big |-> c]
NoBody     == [code |-> 0, reason |-> <<>>]

\* data, ping, pong, reserved opcodes: payload is `len` pattern bytes
Fr(op, fin, rsv, masked, len) ==
  [op |-> op, fin |-> fin, rsv |-> rsv, masked |-> masked, len |-> len, body |-> NoBody]
\* close with a body: 2-byte status code + reason bytes (5.5.1); code 0 here = empty body
CloseFr(fin, rsv, masked, code, reason) ==
  [op |-> 8, fin |-> fin, rsv |-> rsv, masked |-> masked,
   len |-> Lengths(IF code = 0 THEN 0 ELSE 2 + Len(reason)), body |-> [code |-> code, reason |-> reason]]

IsControl(op) == op >= 8                       \* 5.2: 0x8-0xF are control opcodes
IsData(op)    == op \in {0, 1, 2}
Reserved(op)  == op \in (3..7) \cup (11..15)
Rsv1(f)       == f.rsv >= 4                    \* rsv = 4 * RSV1 + 2 * RSV2 + RSV3
Rsv23(f)      == f.rsv % 4 # 0
TopBit(f)     == f.len.big \in {"p63", "p64m1"}
Giant(f)      == f.len.big = "p63m1"

\* ---------------------------------------------------------------- layout (5.2)
\*   0: FIN RSV1 RSV2 RSV3 opcode(4)     1: MASK len7(7)     [ext len 16 | 64]  [mask key 4]  payload
B0(f) == (IF f.fin THEN 128 ELSE 0) + f.rsv * 16 + f.op        \* rsv: RSV1 = 4, RSV2 = 2, RSV3 = 1
B1(f) == (IF f.masked THEN 128 ELSE 0) +
         (CASE f.len.form = 7 -> f.len.val [] f.len.form = 16 -> 126 [] f.len.form = 64 -> 127)
BigBytes(c) == CASE c = "p63m1" -> <<127, 255, 255, 255, 255, 255, 255, 255>>
                 [] c = "p63"   -> <<128, 0, 0, 0, 0, 0, 0, 0>>
                 [] c = "p64m1" -> <<255, 255, 255, 255, 255, 255, 255, 255>>
ExtLen(f) == CASE f.len.form = 7  -> <<>>
               [] f.len.form = 16 -> <<U16(f.len.val)>>
               [] f.len.form = 64 -> IF f.len.big = "no" THEN <<Raw(<<0, 0, 0, 0>>), U32(f.len.val)>>
                                     ELSE <<Raw(BigBytes(f.len.big))>>
HeaderLD(f) == <<U8(B0(f)), U8(B1(f))>> \o ExtLen(f)
\* masking key of the frame with fill id `id` (5.3: any 32-bit value; contains a zero byte on purpose)
MaskKey(id) == <<(id * 37 + 11) % 256, (id * 101 + 7) % 256, 0, (id * 53 + 255) % 256>>
\* the payload BEFORE masking; the expander applies the XOR of 5.3 when the frame is masked
PayloadLD(f, id) ==
  IF f.op = 8 /\ f.body.code # 0
  THEN <<U16(f.body.code)>> \o (IF f.body.reason = <<>> THEN <<>> ELSE <<Raw(f.body.reason)>>)
  ELSE IF f.len.big # "no" \/ f.len.val = 0 THEN <<>> ELSE <<Fill(f.len.val, id)>>
HeaderLen(f) == ByteLen(HeaderLD(f)) + (IF f.masked THEN 4 ELSE 0)

\* ---------------------------------------------------------------- RFC 3629
IsCont(b) == b \in 128..191
RECURSIVE Utf8Ok(_)
Utf8Ok(s) ==
  IF s = <<>> THEN TRUE ELSE
  LET b == s[1]  L == Len(s) IN
  IF b <= 127 THEN Utf8Ok(Drop(s, 1))
  ELSE IF b \in 194..223 THEN L >= 2 /\ IsCont(s[2]) /\ Utf8Ok(Drop(s, 2))
  ELSE IF b = 224 THEN L >= 3 /\ s[2] \in 160..191 /\ IsCont(s[3]) /\ Utf8Ok(Drop(s, 3))
  ELSE IF b \in (225..236) \cup {238, 239} THEN L >= 3 /\ IsCont(s[2]) /\ IsCont(s[3]) /\ Utf8Ok(Drop(s, 3))
  ELSE IF b = 237 THEN L >= 3 /\ s[2] \in 128..159 /\ IsCont(s[3]) /\ Utf8Ok(Drop(s, 3))
  ELSE IF b = 240 THEN L >= 4 /\ s[2] \in 144..191 /\ IsCont(s[3]) /\ IsCont(s[4]) /\ Utf8Ok(Drop(s, 4))
  ELSE IF b \in 241..243 THEN L >= 4 /\ IsCont(s[2]) /\ IsCont(s[3]) /\ IsCont(s[4]) /\ Utf8Ok(Drop(s, 4))
  ELSE IF b = 244 THEN L >= 4 /\ s[2] \in 128..143 /\ IsCont(s[3]) /\ IsCont(s[4]) /\ Utf8Ok(Drop(s, 4))
  ELSE FALSE

\* 7.4.1 / 7.4.2 and the IANA registry: codes an endpoint may put into a Close frame
ValidCloseCode(c) == c \in {1000, 1001, 1002, 1003, 1007, 1008, 1009, 1010, 1011, 1012, 1013} \cup (3000..4999)

\* ---------------------------------------------------------------- the rules
\* Reserved bits: without the extension every bit is reserved. With it, RSV1 has a meaning on the first frame of a
\* data message (opcode 1 / 2) and nowhere else; RSV2 and RSV3 never have one.
RsvBroken(f) ==
  IF pmd /\ Rsv1(f)
  THEN \/ (Rsv23(f) /\ ~Rsv1Shadows)
       \/ (f.op \notin {1, 2} /\ ~Rsv1Anywhere)
  ELSE f.rsv # 0

\* Header rules, in the order of the fields of section 5.2.
Broken(f) ==
  [ rsv       |-> RsvBroken(f),                           \* 5.2: MUST be 0 unless an extension is negotiated
    opcode    |-> Reserved(f.op),                         \* 5.2: unknown opcode -> fail the connection
    ctlLen    |-> IsControl(f.op) /\ f.len.form # 7,      \* 5.5: control payload <= 125
    ctlFrag   |-> IsControl(f.op) /\ ~f.fin,              \* 5.5: control frames MUST NOT be fragmented
    contNoMsg |-> f.op = 0 /\ open = 0,                   \* 5.4: continuation needs a started message
    dataInMsg |-> f.op \in {1, 2} /\ open # 0,            \* 5.4: fragments of messages are not interleaved
    mask      |-> f.masked # (role = "server"),           \* 5.1: client->server masked, server->client not
    topBit    |-> TopBit(f) /\ ~AcceptTopBit ]            \* 5.2: most significant bit MUST be 0
HeaderOrder == <<"rsv", "opcode", "ctlLen", "ctlFrag", "contNoMsg", "dataInMsg", "mask", "topBit">>
HeaderBroken(f) == \E i \in 1..Len(HeaderOrder) : Broken(f)[HeaderOrder[i]]
FirstBroken(f)  == LET I == {i \in 1..Len(HeaderOrder) : Broken(f)[HeaderOrder[i]]}
                   IN  HeaderOrder[CHOOSE i \in I : \A j \in I : i <= j]

\* payload length the receiver accounts for this frame (natural; symbolic lengths never get here as numbers)
EffLen(f) == IF f.len.big = "no" THEN f.len.val ELSE 0

\* accLen + len > limit over unbounded naturals: a symbolic length is larger than every configured limit
Exceeds(f) ==
  /\ IsData(f.op)
  /\ limit > 0
  /\ IF f.len.big # "no" /\ ~(TopBit(f) /\ AcceptTopBit) THEN TRUE
     ELSE (IF LimitPerFrame THEN 0 ELSE accLen) + EffLen(f) > limit

\* named deviation C14/control-needs-buffer: the payload of a control frame (<= 125 bytes, so a legal frame) is
\* demanded in one piece from a buffer of the configured size
BufCap      == IF bufsize = 0 THEN 4096 ELSE bufsize
BufShort(f) == CtlNeedsBuffer /\ IsControl(f.op) /\ EffLen(f) > BufCap

CloseBroken(f) == f.op = 8 /\ f.body.code # 0 /\ (~ValidCloseCode(f.body.code) \/ ~Utf8Ok(f.body.reason))

\* The classes of outcome the property allows when frame f arrives in the current state.
\*   "protocol": one of the listed rules is broken: reading fails, a Close 1002 is sent.
\*   "length"  : the property's weaker clause for a 64-bit length with the top bit set: "never accepted as a
\*               frame" - reading fails, nothing else is demanded.
\*   "limit"   : the message would exceed the read limit: the read fails with the limit error.
\* When several apply the property does not say which one wins; the reference receiver below takes
\* the first in RFC order (header rules before the limit, which needs the length).
Classes(f) ==
  (IF HeaderBroken(f) \/ (~HeaderBroken(f) /\ CloseBroken(f)) THEN {"protocol"} ELSE {})
  \cup (IF TopBit(f) /\ ~AcceptTopBit THEN {"length"} ELSE {})
  \cup (IF Exceeds(f) THEN {"limit"} ELSE {})

Close1002 == [t |-> "close", code |-> 1002, n |-> 0, id |-> 0]
Close1009 == [t |-> "close", code |-> 1009, n |-> 0, id |-> 0]
CloseEcho(c) == [t |-> "close", code |-> c, n |-> 0, id |-> 0]     \* 5.5.1: typically echoes the status code; 0: no body
Pong(l, id) == [t |-> "pong", code |-> 0, n |-> l, id |-> id]       \* 5.5.3: identical application data

\* ---------------------------------------------------------------- actions
Init ==
  /\ role \in Roles /\ limit \in Limits /\ bufsize \in BufSizes /\ pmd \in Compress
  /\ zopen = FALSE /\ taken = {}
  /\ open = 0 /\ accLen = 0 /\ frags = <<>>
  /\ failed = "no" /\ alts = {} /\ cc = 0
  /\ delivered = <<>> /\ back = <<>>
  /\ pending = FALSE /\ ended = FALSE /\ n = 0
  /\ pings = <<>> /\ fins = 0

Fail(class, allowed, frame) ==
  /\ failed' = class /\ alts' = allowed
  /\ back' = Append(back, frame)
  /\ UNCHANGED <<open, accLen, frags, cc, delivered, pending, pings, fins, zopen, taken>>

\* (deviation only) the frame cannot be taken in: the reader gives up without a word
FailSilent(class, allowed) ==
  /\ failed' = class /\ alts' = allowed
  /\ UNCHANGED <<open, accLen, frags, cc, delivered, back, pending, pings, fins, zopen, taken>>

DataFrame(f, id) ==
  LET typ == IF f.op = 0 THEN open ELSE f.op
      z   == IF f.op = 0 THEN zopen ELSE pmd /\ Rsv1(f)      \* RFC 7692 6: the first frame says it for the whole message
      l   == EffLen(f)
      fr  == Append(frags, [n |-> l, id |-> id, big |-> f.len.big])
  IN  IF Giant(f)
      THEN \* 2^63-1 bytes are announced; they can never all arrive, so nothing of this message is ever delivered
           /\ pending' = TRUE
           /\ UNCHANGED <<open, accLen, frags, failed, alts, cc, delivered, back, pings, fins, zopen, taken>>
      ELSE /\ IF f.fin
              THEN /\ delivered' = Append(delivered, [type |-> typ, len |-> accLen + l, frags |-> fr, z |-> z])
                   /\ open' = 0 /\ accLen' = 0 /\ frags' = <<>> /\ fins' = fins + 1 /\ zopen' = FALSE
              ELSE /\ open' = typ /\ accLen' = accLen + l /\ frags' = fr /\ zopen' = z
                   /\ UNCHANGED <<delivered, fins>>
           /\ taken' = taken \cup {[op |-> f.op, rsv |-> f.rsv]}
           /\ UNCHANGED <<failed, alts, cc, back, pending, pings>>

PingFrame(f, id) ==
  /\ back' = Append(back, Pong(IF PongEmpty THEN 0 ELSE f.len.val, id))
  /\ pings' = Append(pings, [n |-> f.len.val, id |-> id])
  /\ taken' = taken \cup {[op |-> f.op, rsv |-> f.rsv]}
  /\ UNCHANGED <<open, accLen, frags, failed, alts, cc, delivered, pending, fins, zopen>>

CloseFrame(f) ==   \* header rules and body rules hold
  /\ failed' = "close" /\ alts' = {"close"}
  /\ cc' = IF f.body.code = 0 THEN 1005 ELSE f.body.code          \* 7.1.5: 1005 = no status code present
  /\ back' = Append(back, CloseEcho(f.body.code))
  /\ taken' = taken \cup {[op |-> f.op, rsv |-> f.rsv]}
  /\ UNCHANGED <<open, accLen, frags, delivered, pending, pings, fins, zopen>>

\* the reader is working: frame f is judged
Judge(f, id) ==
  IF HeaderBroken(f)        THEN Fail("protocol", Classes(f), Close1002)
  ELSE IF Exceeds(f)        THEN Fail("limit", Classes(f), Close1009)
  ELSE IF BufShort(f)       THEN FailSilent("io", {"io"})
  ELSE IF IsData(f.op)      THEN DataFrame(f, id)
  ELSE IF f.op = 9          THEN PingFrame(f, id)
  ELSE IF f.op = 10         THEN /\ taken' = taken \cup {[op |-> f.op, rsv |-> f.rsv]}
                                 /\ UNCHANGED <<open, accLen, frags, failed, alts, cc, delivered, back, pending, pings, fins, zopen>>
  ELSE IF CloseBroken(f)    THEN Fail("protocol", Classes(f), Close1002)
  ELSE CloseFrame(f)

Frame(f) ==
  /\ ~ended /\ n < MaxFrames
  /\ n' = n + 1
  /\ UNCHANGED <<role, limit, pmd, bufsize, ended>>
  /\ IF failed # "no" \/ pending
     THEN \* after a failure nothing is read any more; inside a giant frame everything is payload
          UNCHANGED <<open, accLen, frags, failed, alts, cc, delivered, back, pending, pings, fins, zopen, taken>>
     ELSE Judge(f, n + 1)

\* The stream ends at a frame boundary (also: inside the payload of a giant frame).
CutBoundary ==
  /\ ~ended /\ ended' = TRUE
  /\ IF failed = "no" THEN failed' = "io" /\ alts' = {"io"} ELSE UNCHANGED <<failed, alts>>
  /\ UNCHANGED <<role, limit, pmd, zopen, taken, bufsize, open, accLen, frags, cc, delivered, back, pending, n, pings, fins>>

\* Classes of outcome when the stream ends somewhere inside frame f (header or payload): an i/o error,
\* or the failure the frame causes anyway if the receiver already saw enough of it. Never a delivery, never a pong.
CutClasses(f) ==
  IF failed # "no" THEN alts
  ELSE IF pending THEN {"io"}
  ELSE {"io"} \cup Classes(f)

CutIn(f) ==
  /\ ~ended /\ n < MaxFrames /\ ended' = TRUE /\ n' = n + 1
  /\ IF failed # "no" THEN UNCHANGED <<failed, alts, back>>
     ELSE \E c \in CutClasses(f) :
            /\ failed' = (IF c = "length" THEN "protocol" ELSE c) /\ alts' = CutClasses(f)
            /\ back' = (CASE c = "io" -> back [] c = "limit" -> Append(back, Close1009) [] OTHER -> Append(back, Close1002))
  /\ UNCHANGED <<role, limit, pmd, zopen, taken, bufsize, open, accLen, frags, cc, delivered, pending, pings, fins>>

\* what the peer may send next: anything of its alphabet while the reader works, the probes afterwards
Sendable == IF failed # "no" \/ pending THEN Probe(role) ELSE Alpha(role, limit)
Next == (\E f \in Sendable : Frame(f) \/ CutIn(f)) \/ CutBoundary
Spec == Init /\ [][Next]_vars

\* ---------------------------------------------------------------- the property on the specification
Sum(s) == LET RECURSIVE S(_)  S(i) == IF i = 0 THEN 0 ELSE s[i].n + S(i - 1) IN S(Len(s))
Last(s) == s[Len(s)]
Pongs(b) == SelectSeq(b, LAMBDA x : x.t = "pong")
Closes(b) == SelectSeq(b, LAMBDA x : x.t = "close")

TypeOk ==
  /\ open \in {0, 1, 2} /\ failed \in {"no", "protocol", "limit", "close", "io"}
  /\ (open = 0) => (accLen = 0 /\ frags = <<>>)
  /\ (failed = "no") <=> (alts = {})
  /\ (cc # 0) <=> (failed = "close")
  /\ bufsize \in BufSizes /\ pmd \in Compress /\ zopen \in BOOLEAN
  /\ (open = 0) => ~zopen
  /\ zopen => pmd

\* after the first failure nothing more is delivered, nothing more is written, the failure stays
Sticky == [][failed # "no" => (failed' = failed /\ delivered' = delivered /\ back' = back /\ cc' = cc)]_vars

\* no message larger than the limit is delivered, under any framing of it
LimitOk == \A i \in 1..Len(delivered) : limit > 0 => delivered[i].len <= limit

\* a protocol failure <=> a Close 1002 is the last frame written; at most one close frame is ever written
ProtocolClose ==
  /\ (failed = "protocol") <=> (back # <<>> /\ Last(back) = Close1002)
  /\ Len(Closes(back)) <= 1
  /\ Closes(back) # <<>> => Last(back).t = "close"
  /\ (failed = "limit") => Last(back) = Close1009
  /\ (failed = "close") => (Last(back).t = "close" /\ Last(back).code \in {0, cc})

\* every ping processed is answered, in order, by a pong with the same payload
PongOk ==
  /\ Len(Pongs(back)) = Len(pings)
  /\ \A i \in 1..Len(pings) : Pongs(back)[i].n = pings[i].n /\ Pongs(back)[i].id = pings[i].id

\* a frame whose 64-bit length has the top bit set is never accepted as a frame (of any message)
NoTopBitFrame ==
  /\ \A i \in 1..Len(delivered) : \A j \in 1..Len(delivered[i].frags) : delivered[i].frags[j].big = "no"
  /\ \A j \in 1..Len(frags) : frags[j].big = "no"

\* messages are delivered whole: exactly one per final data frame, made of all its fragments;
\* the end of the stream delivers nothing (no short message), whatever was in progress
Whole ==
  /\ Len(delivered) = fins
  /\ \A i \in 1..Len(delivered) : delivered[i].len = Sum(delivered[i].frags) /\ delivered[i].type \in {1, 2}
  /\ accLen = Sum(frags)
  /\ ended => failed # "no"
CutDeliversNothing == [][ended' => delivered' = delivered]_vars

\* the receiver fails only for a reason the PEER gave: a rule broken, the limit exceeded, a close frame, or the end
\* of the byte stream. While the stream goes on, an i/o failure cannot arise from the receiver's own configuration
\* (buffer sizes): "delivers exactly the messages a conformant receiver would, up to the first rule violation".
NoSpontaneousFailure == failed = "io" => ended
\* the observable outcome; BufferBlind (MC_WsReaderBuf.tla): two receivers that differ in bufsize only agree on it
\* no frame with a reserved bit set is ever taken in - except RSV1 on the first frame of a data message when the
\* extension that gives it a meaning was negotiated; and only such a message is delivered as a compressed one
ReservedBitsOk ==
  /\ \A x \in taken : x.rsv = 0 \/ (pmd /\ x.rsv = 4 /\ x.op \in {1, 2})
  /\ \A i \in 1..Len(delivered) : delivered[i].z => pmd
Observable == <<zopen, open, accLen, frags, failed, alts, cc, delivered, back, pending, ended, n, pings, fins>>
=============================================================================
