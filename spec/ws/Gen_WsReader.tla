---------------------------- MODULE Gen_WsReader ----------------------------
(* Behaviour generation for C14: every sequence of frames of the chosen       *)
(* family up to MaxFrames, with the specification's outcome after every step. *)
(* A case is a whole behaviour (the history); the replayer ends the stream    *)
(* after the last frame (CutBoundary) and inside the last frame (CutIn).      *)
EXTENDS MC_WsReader, TLC, Json

CONSTANTS JudgeRsv1NonFirst   \* see Judged
CONSTANTS Family     \* "framing" | "more" | "limit" | "sizes" | "seq" | "header" | "bufsize" | "bufsizes" | "sim"

VARIABLE hist        \* <<step records>>
gvars == <<vars, hist>>

\* --- simulation alphabet: a mostly conformant peer (it follows the sequencing of 5.4, sizes are random),
\* now and then one frame of the violation / close sets
SimAlpha(r, L) == LET m == M(r)  B == IF L > 0 THEN L ELSE 300 IN
  { Fr(op, fin, 0, m, Lengths(v)) : op \in (IF open = 0 THEN {1, 2} ELSE {0}), fin \in BOOLEAN,
       v \in {0, 1, RandomElement(0..B), RandomElement(0..(B \div 3)), RandomElement(0..(B \div 8))} } \cup
  { Fr(op, TRUE, 0, m, Lengths(v)) : op \in {9, 10}, v \in {0, 125, RandomElement(1..124)} } \cup
  (IF pmd /\ open = 0 THEN { Fr(op, fin, 4, m, Lengths(v)) : op \in {1, 2}, fin \in BOOLEAN, v \in {6, RandomElement(6..(B + 6))} } ELSE {}) \cup
  (IF RandomElement(1..4) = 1
   THEN { RandomElement(BadFrames(r) \cup MoreFrames(r) \cup GoodCtl(r) \cup GoodData(r)) } ELSE {})

\* RSV1 alone on a control or continuation frame with the extension negotiated: judged (RFC 7692 6: fail) unless the
\* family's cfg says otherwise
Judged(A) == IF JudgeRsv1NonFirst THEN A ELSE {f \in A : ~(pmd /\ f.rsv = 4 /\ f.op \in {0, 8, 9, 10})}

GenAlphaRaw(r, L) ==
  CASE Family = "framing" -> Framing(r)
    [] Family = "more"    -> Framing(r) \cup MoreFrames(r)
    [] Family = "limit"   -> LimAlpha(r, L)
    [] Family = "sizes"   -> SizeAlpha(r, L)
    [] Family = "seq"     -> SeqAlpha(r, L)
    [] Family = "header"  -> Judged(McHeader(r, L))
    [] Family = "bufsize" -> BufAlphaThin(r, bufsize)
    [] Family = "bufsizes" -> BufAlpha(r, bufsize)
    [] Family = "pmd"     -> Judged(PmdAlpha(r, L))
    [] Family = "sim"     -> SimAlpha(r, L)
GenAlpha(r, L) == {ZFix(f) : f \in GenAlphaRaw(r, L)}     \* compressed messages are DEFLATE streams

\* how the close frame of an outcome class is judged: "must" / "may" be written; code 0: not judged
Outcome(c) ==
  CASE c = "protocol" -> [class |-> c, close |-> "must", code |-> 1002]   \* reason text free
    [] c = "length"   -> [class |-> c, close |-> "may",  code |-> 0]
    [] c = "limit"    -> [class |-> c, close |-> "may",  code |-> 0]      \* the property only names the error
    [] c = "io"       -> [class |-> c, close |-> "may",  code |-> 0]
    [] c = "close"    -> [class |-> c, close |-> "must", code |-> cc]     \* echo of the code, or no body
Outcomes(S) == {Outcome(c) : c \in S}

Absorbing == failed # "no" \/ pending

StepRec(f) ==
  [ h    |-> HeaderLD(f),
    k    |-> IF f.masked THEN MaskKey(n') ELSE <<>>,
    p    |-> PayloadLD(f, n'),
    op   |-> f.op,
    fin  |-> f.fin,
    z1   |-> pmd /\ Rsv1(f),               \* the sender marks the frame "per-message compressed"
    big  |-> f.len.big,
    abs  |-> Absorbing,                       \* the frame is sent into a reader that has already failed / is inside a giant frame
    cut  |-> {Outcome(c) : c \in CutClasses(f)},   \* stream ends inside this frame
    failed |-> failed',
    nd   |-> Len(delivered'),
    np   |-> Len(Pongs(back')) ]

GenInit == Init /\ hist = <<>>

\* at most one probe frame after the reader has failed
MayContinue == IF hist = <<>> THEN TRUE ELSE ~hist[Len(hist)].abs
GenNext ==
  /\ MayContinue
  /\ \E f \in (IF Absorbing THEN Probe(role) ELSE GenAlpha(role, limit)) :
        /\ Frame(f)
        /\ hist' = Append(hist, StepRec(f))

\* simulation: one behaviour per trace, emitted when the stream ends
SimNext ==
  IF n >= MaxFrames \/ ~MayContinue
  THEN CutBoundary /\ UNCHANGED hist
  ELSE GenNext

CaseOf ==
  [ role |-> role, limit |-> limit, fam |-> Family, pmd |-> pmd,
    \* the configured read buffer: a dimension of the case where the family has one (bufdim), otherwise the replayer
    \* sweeps it on its own - the expectation below never depends on it
    bufsize |-> bufsize, bufdim |-> Cardinality(BufSizes) > 1,
    steps |-> [i \in 1..Len(hist) |-> IF i = Len(hist) THEN hist[i] ELSE [hist[i] EXCEPT !.cut = {}]],   \* cuts: last frame only
    delivered |-> [i \in 1..Len(delivered) |->
                     [type |-> delivered[i].type, len |-> delivered[i].len, z |-> delivered[i].z,
                      frags |-> [j \in 1..Len(delivered[i].frags) |-> [n |-> delivered[i].frags[j].n, id |-> delivered[i].frags[j].id]]]],
    pongs |-> [i \in 1..Len(Pongs(back)) |-> [n |-> Pongs(back)[i].n, id |-> Pongs(back)[i].id]],
    failed |-> failed,
    cc |-> cc,
    \* the stream ends after the last frame; if every frame was acceptable a Close 1002 would accuse a conformant peer
    end |-> Outcomes(IF failed = "no" THEN {"io"} ELSE alts),
    clean |-> failed = "no" /\ ~pending ]

Emit    == n >= 1 => PrintT(<<"CASE", ToJson(CaseOf)>>)
EmitEnd == ended  => PrintT(<<"CASE", ToJson(CaseOf)>>)
=============================================================================
