SPECIFICATION Spec
CONSTANTS
  Roles = {"server", "client"}
  Limits = {0, 20}
  MaxFrames = 2
  Alpha <- PmdAlpha
  Probe <- Probes
  AcceptTopBit = FALSE
  LimitPerFrame = FALSE
  PongEmpty = FALSE
  Compress = {FALSE, TRUE}
  Rsv1Shadows = FALSE
  Rsv1Anywhere = TRUE
  BufSizes = {0}
  CtlNeedsBuffer = FALSE
INVARIANTS TypeOk LimitOk ProtocolClose PongOk NoTopBitFrame Whole NoSpontaneousFailure ReservedBitsOk
PROPERTIES Sticky CutDeliversNothing
CHECK_DEADLOCK FALSE
