INIT GenInit
NEXT GenNext
CONSTANTS
  Roles = {"server", "client"}
  Limits = {0, 20}
  MaxFrames = 2
  JudgeRsv1NonFirst = TRUE
  Family = "pmd"
  Alpha <- GenAlpha
  Probe <- Probes
  AcceptTopBit = FALSE
  LimitPerFrame = FALSE
  PongEmpty = FALSE
  Compress = {FALSE, TRUE}
  Rsv1Shadows = FALSE
  Rsv1Anywhere = FALSE
  BufSizes = {0}
  CtlNeedsBuffer = FALSE
INVARIANTS Emit
CHECK_DEADLOCK FALSE
