SPECIFICATION Spec
CONSTANTS
  Roles = {"server", "client"}
  Limits = {0, 2, 126}
  MaxFrames = 3
  Alpha <- McDeep
  Probe <- Probes
  AcceptTopBit = FALSE
  LimitPerFrame = FALSE
  PongEmpty = FALSE
  Compress = {FALSE}
  Rsv1Shadows = FALSE
  Rsv1Anywhere = FALSE
  BufSizes = {0}
  CtlNeedsBuffer = FALSE
INVARIANTS TypeOk LimitOk ProtocolClose PongOk NoTopBitFrame Whole NoSpontaneousFailure ReservedBitsOk
PROPERTIES Sticky CutDeliversNothing
CHECK_DEADLOCK FALSE
