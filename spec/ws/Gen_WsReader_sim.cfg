INIT GenInit
NEXT SimNext
CONSTANTS
  Roles = {"server", "client"}
  Limits = {0, 1, 125, 126, 1000}
  MaxFrames = 30
  Family = "sim"
  Alpha <- GenAlpha
  Probe <- Probes
  AcceptTopBit = FALSE
  LimitPerFrame = FALSE
  PongEmpty = FALSE
INVARIANTS EmitEnd
CHECK_DEADLOCK FALSE
