INIT GenInit
NEXT SimNext
CONSTANTS
  Roles = {"server", "client"}
  Limits = {0, 1, 125, 126, 1000}
  MaxFrames = 30
  JudgeRsv1NonFirst = TRUE
  Family = "sim"
  Alpha <- GenAlpha
  Probe <- Probes
  AcceptTopBit = FALSE
  LimitPerFrame = FALSE
  PongEmpty = FALSE
  Compress = {FALSE, TRUE}
  Rsv1Shadows = FALSE
  Rsv1Anywhere = FALSE
  BufSizes = {0, 1, 2, 13, 14, 15, 64, 124, 125, 126, 1024}
  CtlNeedsBuffer = FALSE
INVARIANTS EmitEnd
CHECK_DEADLOCK FALSE
