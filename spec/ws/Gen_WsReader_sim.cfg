INIT GenInit
NEXT SimNext
CONSTANTS
  Roles = {"server", "client"}
  Limits = {0, 1, 125, 126, 1000}
  MaxFrames = 30
  Family = "sim"
  Alpha <- GenAlpha
  Probe <- Probes
  AcceptTopBit = FALSE
  LimitPerFrame = FALSE
  PongEmpty = FALSE
  BufSizes = {0, 1, 2, 13, 14, 15, 64, 124, 125, 126, 1024}
  CtlNeedsBuffer = FALSE
INVARIANTS EmitEnd
CHECK_DEADLOCK FALSE
