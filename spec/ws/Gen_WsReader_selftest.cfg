INIT GenInit
NEXT GenNext
CONSTANTS
  Roles = {"server", "client"}
  Limits = {0}
  MaxFrames = 2
  JudgeRsv1NonFirst = TRUE
  Family = "framing"
  Alpha <- GenAlpha
  Probe <- Probes
  AcceptTopBit = TRUE
  LimitPerFrame = FALSE
  PongEmpty = TRUE
  Compress = {FALSE}
  Rsv1Shadows = FALSE
  Rsv1Anywhere = FALSE
  BufSizes = {0}
  CtlNeedsBuffer = FALSE
INVARIANTS Emit
CHECK_DEADLOCK FALSE
