INIT GenInit
NEXT GenNext
CONSTANTS
  Roles = {"server", "client"}
  Limits = {0}
  MaxFrames = 2
  Family = "framing"
  Alpha <- GenAlpha
  Probe <- Probes
  AcceptTopBit = TRUE
  LimitPerFrame = FALSE
  PongEmpty = TRUE
  BufSizes = {0}
  CtlNeedsBuffer = FALSE
INVARIANTS Emit
CHECK_DEADLOCK FALSE
