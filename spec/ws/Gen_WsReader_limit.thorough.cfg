INIT GenInit
NEXT GenNext
CONSTANTS
  Roles = {"server", "client"}
  Limits = {1, 2, 125, 126, 1000, 65535}
  MaxFrames = 4
  JudgeRsv1NonFirst = TRUE
  Family = "limit"
  Alpha <- GenAlpha
  Probe <- Probes
  AcceptTopBit = FALSE
  LimitPerFrame = FALSE
  PongEmpty = FALSE
  Compress = {FALSE}
  Rsv1Shadows = FALSE
  Rsv1Anywhere = FALSE
  BufSizes = {0}
  CtlNeedsBuffer = FALSE
INVARIANTS Emit
CHECK_DEADLOCK FALSE
