---------------------------- MODULE MC_WsReader ----------------------------
(* Input alphabets of the C14 configurations (model checking and generation). *)
(* A frame is what an arbitrary PEER may put on the wire; m is the mask bit a  *)
(* conformant peer of the reading role sets (5.1).                             *)
EXTENDS WsReader

M(r) == r = "server"

Ascii   == <<98, 121, 101>>                 \* "bye"
Utf8Two == <<195, 169, 226, 130, 172>>      \* U+00E9 U+20AC
Utf8Max == <<240, 159, 152, 128, 244, 143, 191, 191>>   \* U+1F600 U+10FFFF
BadByte == <<98, 255, 101>>                 \* 0xFF never occurs in UTF-8
\* the longest reason a close frame can carry (123 bytes), valid and with one invalid byte in the middle
LongAscii == [i \in 1..123 |-> 97]
BadLong   == [i \in 1..123 |-> IF i = 60 THEN 255 ELSE 97]
BadTrunc == <<98, 195>>                     \* 2-byte sequence cut short
BadOverlong == <<192, 128>>                 \* overlong NUL
BadSurrogate == <<237, 160, 128>>           \* U+D800
BadRange == <<244, 144, 128, 128>>          \* U+110000
BadCont == <<128>>                          \* lone continuation byte

ValidCodes   == {1000, 3000, 4999}
InvalidCodes == {999, 1004, 1005, 1006, 1015, 2999, 5000}

\* frames that are still sent after the reader has failed / inside a giant frame
Probes(r) == {Fr(1, TRUE, 0, M(r), Lengths(3)), Fr(9, TRUE, 0, M(r), Lengths(2))}

\* ------------------------------------------------------------ "framing": every rule, one factor at a time
GoodData(r) == LET m == M(r) IN
  { Fr(1, TRUE, 0, m, Lengths(0)), Fr(1, TRUE, 0, m, Lengths(5)), Fr(2, TRUE, 0, m, Lengths(126)),
    Fr(1, FALSE, 0, m, Lengths(1)), Fr(2, FALSE, 0, m, Lengths(0)),
    Fr(0, TRUE, 0, m, Lengths(2)), Fr(0, FALSE, 0, m, Lengths(126)), Fr(0, TRUE, 0, m, Lengths(0)) }
GoodCtl(r) == LET m == M(r) IN
  { Fr(9, TRUE, 0, m, Lengths(0)), Fr(9, TRUE, 0, m, Lengths(125)), Fr(10, TRUE, 0, m, Lengths(3)),
    CloseFr(TRUE, 0, m, 0, <<>>), CloseFr(TRUE, 0, m, 1000, Ascii), CloseFr(TRUE, 0, m, 3000, <<>>),
    CloseFr(TRUE, 0, m, 4999, Utf8Two) }
BadFrames(r) == LET m == M(r) IN
  { \* reserved bits (no extension negotiated: RSV1 is just a reserved bit)
    Fr(1, TRUE, 4, m, Lengths(5)), Fr(1, TRUE, 2, m, Lengths(5)), Fr(2, TRUE, 1, m, Lengths(5)),
    Fr(9, TRUE, 4, m, Lengths(0)), Fr(0, TRUE, 4, m, Lengths(2)),
    \* reserved opcodes
    Fr(3, TRUE, 0, m, Lengths(0)), Fr(11, TRUE, 0, m, Lengths(0)),
    \* control frames: payload > 125, fragmented
    Fr(9, TRUE, 0, m, Lengths(126)), CloseFr(TRUE, 0, m, 1000, [i \in 1..124 |-> 97]), Fr(10, TRUE, 0, m, BigLen("p63m1")),
    Fr(9, FALSE, 0, m, Lengths(0)), Fr(10, FALSE, 0, m, Lengths(3)), CloseFr(FALSE, 0, m, 1000, <<>>),
    \* masking wrong for the role
    Fr(1, TRUE, 0, ~m, Lengths(5)), Fr(9, TRUE, 0, ~m, Lengths(2)), Fr(0, TRUE, 0, ~m, Lengths(2)),
    CloseFr(TRUE, 0, ~m, 1000, <<>>),
    \* 64-bit lengths 2^63-1, 2^63, 2^64-1
    Fr(2, TRUE, 0, m, BigLen("p63m1")), Fr(2, TRUE, 0, m, BigLen("p63")), Fr(2, TRUE, 0, m, BigLen("p64m1")),
    Fr(0, TRUE, 0, m, BigLen("p63")), Fr(1, FALSE, 0, m, BigLen("p64m1")),
    \* close bodies
    CloseFr(TRUE, 0, m, 999, <<>>), CloseFr(TRUE, 0, m, 1005, <<>>), CloseFr(TRUE, 0, m, 1006, Ascii),
    CloseFr(TRUE, 0, m, 1015, <<>>), CloseFr(TRUE, 0, m, 2999, <<>>), CloseFr(TRUE, 0, m, 5000, <<>>),
    CloseFr(TRUE, 0, m, 1004, <<>>),
    CloseFr(TRUE, 0, m, 1000, BadByte), CloseFr(TRUE, 0, m, 3000, BadTrunc) }
Framing(r) == GoodData(r) \cup GoodCtl(r) \cup BadFrames(r)

\* more of each class (thorough tier)
MoreFrames(r) == LET m == M(r) IN
  { Fr(2, FALSE, 0, m, Lengths(125)), Fr(0, FALSE, 0, m, Lengths(0)), Fr(10, TRUE, 0, m, Lengths(0)),
    Fr(1, TRUE, 7, m, Lengths(0)), Fr(10, TRUE, 1, m, Lengths(0)), CloseFr(TRUE, 2, m, 1000, <<>>),
    Fr(7, TRUE, 0, m, Lengths(1)), Fr(15, TRUE, 0, m, Lengths(0)), Fr(12, FALSE, 0, m, Lengths(0)),
    Fr(2, FALSE, 0, ~m, Lengths(0)), Fr(10, TRUE, 0, ~m, Lengths(0)),
    Fr(9, TRUE, 0, m, BigLen("p63")), Fr(0, FALSE, 0, m, BigLen("p63m1")),
    CloseFr(TRUE, 0, m, 1001, <<>>), CloseFr(TRUE, 0, m, 1011, Utf8Max), CloseFr(TRUE, 0, m, 1000, [i \in 1..123 |-> 97]),
    CloseFr(TRUE, 0, m, 0, <<>>), CloseFr(TRUE, 0, m, 1004, <<>>), CloseFr(TRUE, 0, m, 1016, <<>>), CloseFr(TRUE, 0, m, 65535, <<>>),
    CloseFr(TRUE, 0, m, 1000, BadOverlong), CloseFr(TRUE, 0, m, 1000, BadSurrogate), CloseFr(TRUE, 0, m, 1000, BadRange),
    CloseFr(TRUE, 0, m, 1000, BadCont) }

\* ------------------------------------------------------------ "limit": message sizes relative to the read limit L > 0
LimAlpha(r, L) == LET m == M(r) IN
  { Fr(1, TRUE, 0, m, Lengths(v)) : v \in {0, 1, L - 1, L, L + 1} } \cup
  { Fr(2, FALSE, 0, m, Lengths(v)) : v \in {1, L - 1, L} } \cup
  { Fr(0, TRUE, 0, m, Lengths(v)) : v \in {0, 1, L - 1, L} } \cup
  { Fr(0, FALSE, 0, m, Lengths(v)) : v \in {1, L - 1} } \cup
  { Fr(9, TRUE, 0, m, Lengths(5)),
    Fr(2, TRUE, 0, m, BigLen("p63m1")), Fr(0, TRUE, 0, m, BigLen("p63m1")), Fr(0, FALSE, 0, m, BigLen("p63m1")),
    Fr(1, TRUE, 0, m, BigLen("p63")), Fr(0, TRUE, 0, m, BigLen("p64m1")),
    Fr(1, TRUE, 0, ~m, Lengths(L + 1)), Fr(0, TRUE, 4, m, Lengths(L + 1)) }

\* ------------------------------------------------------------ "sizes": the three length forms with real payloads
SizeAlpha(r, L) == LET m == M(r) IN
  { Fr(2, TRUE, 0, m, Lengths(v)) : v \in {125, 126, 127, 65535, 65536} } \cup
  { Fr(1, FALSE, 0, m, Lengths(65535)), Fr(0, TRUE, 0, m, Lengths(1)), Fr(0, TRUE, 0, m, Lengths(65536)) }

\* ------------------------------------------------------------ "seq": opcode x FIN only (sequencing rules)
SeqAlpha(r, L) == LET m == M(r) IN
  { IF op = 8 THEN CloseFr(fin, 0, m, 0, <<>>) ELSE Fr(op, fin, 0, m, Lengths(2)) :
      op \in {0, 1, 2, 3, 8, 9, 10, 11}, fin \in BOOLEAN }

\* ------------------------------------------------------------ "header": the full product of the header fields
\* A compressed message is a DEFLATE stream with its last four octets removed (RFC 7692 7.2.1): one octet (the empty
\* message) or at least six. A frame that starts a compressed message gets a length from which every completion is
\* such a stream (what a receiver does with other octets is inflation, not framing: not judged).
ZFix(f) ==
  IF pmd /\ Rsv1(f) /\ f.op \in {1, 2} /\ f.len.big = "no" /\ f.len.val < 6 /\ ~(f.fin /\ f.len.val = 1)
  THEN [f EXCEPT !.len = Lengths(6 + f.len.val)] ELSE f
\* the reserved bits: the full product for single frames where the limit does not matter, one bit at a time otherwise
RsvSet(L) == IF L = 0 /\ MaxFrames = 1 THEN 0..7 ELSE {0, 1, 2, 4}
HeaderAlpha(r, L) ==
  { Fr(op, fin, rsv, mk, l) : op \in {0, 1, 2, 3, 8, 9, 10, 11}, fin \in BOOLEAN, rsv \in RsvSet(L), mk \in BOOLEAN,
                              l \in {Lengths(0), Lengths(1), Lengths(126), BigLen("p63m1"), BigLen("p63"), BigLen("p64m1")} }
  \ { Fr(8, fin, rsv, mk, Lengths(1)) : fin \in BOOLEAN, rsv \in 0..7, mk \in BOOLEAN }   \* no 1-byte close bodies
CloseBodies(r) ==
  { CloseFr(TRUE, 0, M(r), c, rs) : c \in ValidCodes \cup InvalidCodes,
                                   rs \in {<<>>, Ascii, Utf8Two, BadByte, BadTrunc, BadOverlong, BadSurrogate, BadRange, BadCont, LongAscii, BadLong} }
McHeader(r, L) == HeaderAlpha(r, L) \cup CloseBodies(r)

\* ------------------------------------------------------------ "bufsize": frame sizes relative to the configured read buffer
\* b = configured read buffer size (0: default). Control frames of every legal payload size around b (they are the
\* frames a receiver has to take in whole), data frames whose payload / whose whole frame is around b, one oversized
\* control frame. The expected outcome does not depend on b - only the alphabet is placed relative to it.
BufDefault == 4096
CapOf(b)   == IF b = 0 THEN BufDefault ELSE b
Near(s)    == {v \in {s - 1, s, s + 1} : v >= 0}
CtlSizes(b) == {v \in {0, 1, 124, 125} \cup Near(CapOf(b)) : v <= 125}
Reason(k)  == [i \in 1..k |-> 97]
BufAlpha(r, b) == LET m == M(r)  s == CapOf(b) IN
  { Fr(9, TRUE, 0, m, Lengths(v)) : v \in CtlSizes(b) } \cup
  { Fr(10, TRUE, 0, m, Lengths(v)) : v \in CtlSizes(b) \ {1, 124} } \cup
  { CloseFr(TRUE, 0, m, 1000, Reason(v - 2)) : v \in {w \in CtlSizes(b) : w >= 2} } \cup
  { Fr(1, TRUE, 0, m, Lengths(v)) : v \in Near(s) \cup (IF s >= 6 THEN {s - 6, s - 2} ELSE {}) } \cup
  { Fr(2, FALSE, 0, m, Lengths(v)) : v \in Near(s) } \cup
  { Fr(0, TRUE, 0, m, Lengths(v)) : v \in Near(s) } \cup
  { Fr(0, FALSE, 0, m, Lengths(s)), Fr(9, TRUE, 0, m, Lengths(126)) }
\* thinned (quick tier): every control size, fewer data frames
BufAlphaThin(r, b) == LET m == M(r)  s == CapOf(b) IN
  { Fr(9, TRUE, 0, m, Lengths(v)) : v \in CtlSizes(b) } \cup
  { Fr(10, TRUE, 0, m, Lengths(v)) : v \in CtlSizes(b) \ {0, 1, 124} } \cup
  { CloseFr(TRUE, 0, m, 1000, Reason(v - 2)) : v \in {w \in CtlSizes(b) : w >= 2 /\ w # 124} } \cup
  { Fr(1, TRUE, 0, m, Lengths(v)) : v \in Near(s) } \cup
  { Fr(2, FALSE, 0, m, Lengths(s)), Fr(0, TRUE, 0, m, Lengths(s + 1)), Fr(9, TRUE, 0, m, Lengths(126)) }

\* the same for two receivers in lockstep (MC_WsReaderBuf): one alphabet for every buffer size
BufMc(r, L) == LET m == M(r) IN
  { Fr(9, TRUE, 0, m, Lengths(v)) : v \in {0, 1, 2, 14, 15, 64, 65, 125} } \cup
  { Fr(10, TRUE, 0, m, Lengths(v)) : v \in {0, 65, 125} } \cup
  { CloseFr(TRUE, 0, m, 1000, Reason(v - 2)) : v \in {2, 15, 65, 125} } \cup
  { Fr(1, TRUE, 0, m, Lengths(v)) : v \in {0, 15, 126} } \cup
  { Fr(2, FALSE, 0, m, Lengths(1)), Fr(0, TRUE, 0, m, Lengths(64)), Fr(0, FALSE, 0, m, Lengths(2)),
    Fr(9, TRUE, 0, m, Lengths(126)), Fr(9, FALSE, 0, m, Lengths(2)), Fr(1, TRUE, 4, m, Lengths(5)) }

\* ------------------------------------------------------------ "pmd": sequences with and without permessage-deflate
\* compressed and uncompressed messages, whole and fragmented, with control frames in between; RSV1 where RFC 7692
\* allows it and where it does not (control frames, continuation frames), RSV1 together with RSV2 / RSV3, RSV2 / RSV3
\* alone; message sizes on the wire around the limit. The same frames are sent without the extension negotiated.
PmdAlpha(r, L) == LET m == M(r)  B == IF L > 6 THEN L ELSE 20 IN
  { Fr(1, TRUE, 4, m, Lengths(1)), Fr(1, TRUE, 4, m, Lengths(B)), Fr(2, TRUE, 4, m, Lengths(B + 1)),
    Fr(2, FALSE, 4, m, Lengths(10)), Fr(1, TRUE, 0, m, Lengths(5)), Fr(2, FALSE, 0, m, Lengths(3)),
    Fr(0, TRUE, 0, m, Lengths(7)), Fr(0, FALSE, 0, m, Lengths(2)), Fr(0, TRUE, 0, m, Lengths(B - 9)),
    Fr(9, TRUE, 0, m, Lengths(3)), Fr(10, TRUE, 0, m, Lengths(0)), CloseFr(TRUE, 0, m, 1000, <<>>),
    \* RSV1 where no extension gives it a meaning
    Fr(0, TRUE, 4, m, Lengths(7)), Fr(0, FALSE, 4, m, Lengths(2)), Fr(9, TRUE, 4, m, Lengths(3)), Fr(10, TRUE, 4, m, Lengths(0)),
    CloseFr(TRUE, 4, m, 1000, <<>>),
    \* RSV2 / RSV3, alone and next to RSV1
    Fr(1, TRUE, 6, m, Lengths(12)), Fr(2, TRUE, 5, m, Lengths(12)), Fr(1, FALSE, 7, m, Lengths(12)), Fr(1, TRUE, 2, m, Lengths(12)),
    Fr(2, TRUE, 1, m, Lengths(12)), Fr(9, TRUE, 6, m, Lengths(3)), Fr(9, TRUE, 1, m, Lengths(3)), Fr(0, TRUE, 5, m, Lengths(7)) }

\* model checking, deeper, thinned
McDeep(r, L) == Framing(r) \cup (IF L > 0 THEN LimAlpha(r, L) ELSE {})
=============================================================================
