CONSTANTS
  Proc = {1, 2, 3}
  Atomic = FALSE
INIT Init
NEXT Next
INVARIANT IndInv
