----------------------------- MODULE CidCounter -----------------------------
(* The connection-id counter of the logger (C18) as a small integer/set       *)
(* specification whose uniqueness invariant is INDUCTIVE: it holds for any    *)
(* number of steps, not only up to a bound.  Checked with Apalache:           *)
(*   Init => IndInv            (length 0)                                     *)
(*   IndInv /\ Next => IndInv' (length 1, from any state satisfying IndInv)   *)
(* Process p creates contexts with New(p) - the locked critical section       *)
(* `gCid += 1; cid := gCid` - or, with Atomic = FALSE, the unsynchronised     *)
(* read / write pair, for which the same obligation must FAIL.                *)
EXTENDS Integers, FiniteSets, Apalache

CONSTANTS
  \* @type: Set(Int);
  Proc,
  \* @type: Bool;
  Atomic

VARIABLES
  \* @type: Int;
  next,       \* the counter (last id handed out)
  \* @type: Set(<<Int, Int>>);
  issued,     \* pairs <<serial, id>>: every context ever created with its id
  \* @type: Int;
  serial,     \* number of contexts created so far
  \* @type: Int -> Int;
  reg,        \* per process: the value read from the counter (non-atomic variant)
  \* @type: Int -> Bool;
  busy        \* per process: between read and write (non-atomic variant)

vars == <<next, issued, serial, reg, busy>>

Init == /\ next = 999 /\ issued = {} /\ serial = 0
        /\ reg = [p \in Proc |-> 0] /\ busy = [p \in Proc |-> FALSE]

\* the whole critical section in one step
New(p) == /\ Atomic
          /\ next' = next + 1
          /\ serial' = serial + 1
          /\ issued' = issued \union {<<serial + 1, next + 1>>}
          /\ UNCHANGED <<reg, busy>>

\* what an unsynchronised `gCid += 1` is
ReadCounter(p)  == /\ ~Atomic /\ ~busy[p]
                   /\ reg' = [reg EXCEPT ![p] = next] /\ busy' = [busy EXCEPT ![p] = TRUE]
                   /\ UNCHANGED <<next, issued, serial>>
WriteCounter(p) == /\ ~Atomic /\ busy[p]
                   /\ next' = reg[p] + 1
                   /\ serial' = serial + 1
                   /\ issued' = issued \union {<<serial + 1, reg[p] + 1>>}
                   /\ busy' = [busy EXCEPT ![p] = FALSE]
                   /\ UNCHANGED reg

Next == \E p \in Proc : New(p) \/ ReadCounter(p) \/ WriteCounter(p)

\* the property: no two contexts share an id
Unique == \A a \in issued : \A b \in issued : a[2] = b[2] => a[1] = b[1]

\* the inductive strengthening: every issued id is at most the counter, serials are at most `serial`
\* and pairwise distinct contexts have distinct ids
IndInv == /\ next >= 999 /\ serial >= 0
          /\ \A a \in issued : a[2] <= next /\ a[2] > 999 /\ a[1] >= 1 /\ a[1] <= serial
          /\ Unique
          /\ \A a \in issued : \A b \in issued : a[1] = b[1] => a[2] = b[2]

\* an arbitrary state satisfying IndInv: integers are unconstrained, the set of issued contexts is any set
\* of up to 6 elements (Apalache's symbolic data-structure generator)
IndInit == /\ next = Gen(1) /\ serial = Gen(1) /\ issued = Gen(6)
           /\ reg = Gen(3) /\ busy = Gen(3)
           /\ DOMAIN reg = Proc /\ DOMAIN busy = Proc
           /\ IndInv
=============================================================================
