-------------------------- MODULE CidCounterProof --------------------------
(* TLAPS proof that the locked id counter never hands out an id twice, for    *)
(* any number of processes and any number of steps (machine-checked by tlapm; *)
(* complements the bounded TLC runs and the Apalache check of CidCounter).    *)
EXTENDS Integers, TLAPS

CONSTANT Proc

VARIABLES next, issued, serial
vars == <<next, issued, serial>>

Init == next = 999 /\ issued = {} /\ serial = 0

\* the critical section `gCid += 1; cid := gCid` under the lock, one atomic step
New(p) == /\ next' = next + 1
          /\ serial' = serial + 1
          /\ issued' = issued \cup {<<serial + 1, next + 1>>}

Next == \E p \in Proc : New(p)
Spec == Init /\ [][Next]_vars

Unique == \A a \in issued : \A b \in issued : a[2] = b[2] => a[1] = b[1]

IndInv == /\ next \in Int /\ serial \in Int
          /\ issued \subseteq (Int \X Int)
          /\ \A a \in issued : a[2] <= next /\ a[1] <= serial
          /\ Unique

THEOREM InitInv == Init => IndInv
  BY DEF Init, IndInv, Unique

THEOREM StepInv == IndInv /\ [Next]_vars => IndInv'
<1> SUFFICES ASSUME IndInv, [Next]_vars PROVE IndInv'
  OBVIOUS
<1>1. CASE UNCHANGED vars
  BY <1>1 DEF IndInv, Unique, vars
<1>2. ASSUME NEW p \in Proc, New(p) PROVE IndInv'
  <2>1. next' \in Int /\ serial' \in Int
    BY <1>2 DEF New, IndInv
  <2>2. issued' \subseteq (Int \X Int)
    BY <1>2 DEF New, IndInv
  <2>3. \A a \in issued' : a[2] <= next' /\ a[1] <= serial'
    BY <1>2 DEF New, IndInv
  <2>4. Unique'
    BY <1>2 DEF New, IndInv, Unique
  <2> QED BY <2>1, <2>2, <2>3, <2>4 DEF IndInv
<1> QED BY <1>1, <1>2 DEF Next

THEOREM Safety == Spec => []Unique
<1>1. IndInv => Unique
  BY DEF IndInv
<1> QED BY InitInv, StepInv, <1>1, PTL DEF Spec
=============================================================================
