CONSTANTS
  Proc = {1, 2, 3}
  Atomic = TRUE
INIT Init
NEXT Next
INVARIANT IndInv
