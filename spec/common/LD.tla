------------------------------- MODULE LD -------------------------------
(* Layout descriptors: a wire format is a sequence of typed fields.          *)
(* The specification modules build LDs; the Go expander (harness/ld) turns   *)
(* them into bytes, and Bytes(ld) below does the same inside TLC for small   *)
(* values so that Dec(Bytes(Enc(v))) = v can be model-checked.               *)
EXTENDS Naturals, Sequences

U8(v)       == [k |-> "u8",    v |-> v]
U16(v)      == [k |-> "u16",   v |-> v]           \* big endian
U24(v)      == [k |-> "u24",   v |-> v]           \* big endian
U32(v)      == [k |-> "u32",   v |-> v]           \* big endian, v < 2^31
U32X(hi,lo) == [k |-> "u32x",  hi |-> hi, lo |-> lo] \* big endian, hi16/lo16 limbs
U32F(hi,lo) == [k |-> "u32f",  hi |-> hi, lo |-> lo] \* like U32X, but a field whose value the format leaves to the
                                                  \* writer: bytes written by the code are not compared at these 4 positions
U32LE(v)    == [k |-> "u32le", v |-> v]           \* little endian, v < 2^31
Raw(b)      == [k |-> "raw",   b |-> b]           \* literal bytes
Fill(n, id) == [k |-> "fill",  n |-> n, id |-> id] \* n distinguishable payload bytes
FillOff(n, id, off) == [k |-> "fillo", n |-> n, id |-> id, off |-> off] \* bytes off..off+n-1 of that pattern

FieldLen(f) ==
  CASE f.k = "u8"    -> 1
    [] f.k = "u16"   -> 2
    [] f.k = "u24"   -> 3
    [] f.k = "u32"   -> 4
    [] f.k = "u32x"  -> 4
    [] f.k = "u32f"  -> 4
    [] f.k = "u32le" -> 4
    [] f.k = "raw"   -> Len(f.b)
    [] f.k = "fill"  -> f.n
    [] f.k = "fillo" -> f.n

RECURSIVE ByteLen(_)
ByteLen(ld) == IF ld = <<>> THEN 0 ELSE FieldLen(Head(ld)) + ByteLen(Tail(ld))

\* min(ByteLen(ld), cap + 1) without ever leaving 32-bit integers (filters over huge layouts)
RECURSIVE ByteLenCap(_, _)
ByteLenCap(ld, cap) ==
  IF ld = <<>> THEN 0
  ELSE LET h == FieldLen(Head(ld)) IN
       IF h > cap THEN cap + 1
       ELSE LET r == ByteLenCap(Tail(ld), cap - h) IN IF r > cap - h THEN cap + 1 ELSE h + r

\* The pattern of a fill: never constant, able to look like any header byte.
FillByte(id, i) == (id * 131 + i * 7) % 251      \* i is 0-based, seed 0

FieldBytes(f) ==
  CASE f.k = "u8"    -> <<f.v>>
    [] f.k = "u16"   -> <<f.v \div 256, f.v % 256>>
    [] f.k = "u24"   -> <<f.v \div 65536, (f.v \div 256) % 256, f.v % 256>>
    [] f.k = "u32"   -> <<f.v \div 16777216, (f.v \div 65536) % 256, (f.v \div 256) % 256, f.v % 256>>
    [] f.k = "u32x"  -> <<f.hi \div 256, f.hi % 256, f.lo \div 256, f.lo % 256>>
    [] f.k = "u32f"  -> <<f.hi \div 256, f.hi % 256, f.lo \div 256, f.lo % 256>>
    [] f.k = "u32le" -> <<f.v % 256, (f.v \div 256) % 256, (f.v \div 65536) % 256, f.v \div 16777216>>
    [] f.k = "raw"   -> f.b
    [] f.k = "fill"  -> [i \in 1..f.n |-> FillByte(f.id, i - 1)]
    [] f.k = "fillo" -> [i \in 1..f.n |-> FillByte(f.id, f.off + i - 1)]

RECURSIVE Bytes(_)
Bytes(ld) == IF ld = <<>> THEN <<>> ELSE FieldBytes(Head(ld)) \o Bytes(Tail(ld))

\* Byte-sequence helpers for the decoders written inside the specifications.
Sub(s, a, n) == SubSeq(s, a, a + n - 1)          \* n bytes starting at 1-based a
Drop(s, n)   == SubSeq(s, n + 1, Len(s))
BE16(s, a)   == s[a] * 256 + s[a+1]
BE24(s, a)   == s[a] * 65536 + s[a+1] * 256 + s[a+2]
=============================================================================
