SPECIFICATION Spec
CONSTANTS
  StrictKeyed = FALSE
  Dev = "none"
  Scalars = {}
  Keys = {}
  Kinds = {}
  MaxDepth = 0
  MaxPairs = 0
  MaxCalls = 0
  RawVals = {}
INVARIANTS MarkersOk
CHECK_DEADLOCK FALSE
