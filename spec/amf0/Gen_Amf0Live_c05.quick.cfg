INIT DirInit
NEXT DirNext
CONSTANTS
  StrictKeyed = TRUE
  Dev = "none"
  Kinds = {"obj", "ecma", "strict"}
  MaxDepth = 0
  MaxCalls = 0
  RawVals = {}
  LoadVals = {}
  Scalars = {}
  Keys = {}
  DirKinds = {"obj", "ecma", "strict"}
  DirKeys <- DirKeysQ
  DirScalars <- DirScalarsQ
  MaxPairs = 3
  MaxNodes = 8
  MaxSteps = 1
  COrigins = {}
  SOrigins = {}
INVARIANT DirEmit
CHECK_DEADLOCK FALSE
