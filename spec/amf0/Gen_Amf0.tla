------------------------------ MODULE Gen_Amf0 ------------------------------
(* Case generation for C05 (StrictKeyed = TRUE) and C06 (StrictKeyed = FALSE). *)
(* Matrix mode (INIT GenInit / NEXT GenNext): every member of the value         *)
(* families below, built level by level from small explicit alphabets.          *)
(* Simulation mode (INIT SimInit / NEXT SimNext): random New/Set call           *)
(* sequences of the module's builder; the case carries the calls.               *)
(* Every case carries the specification's expectation: the encoding as an LD,   *)
(* the size, the value that follows in the stream, and for C06 the encoding     *)
(* and the decoding outcome under the named deviation StrictKeyed.              *)
EXTENDS Amf0, TLC, Json

CONSTANTS
  Families,   \* which families this run emits
  TextLens    \* lengths of names and strings: {0, 1, 2, 300} / + 65535

VARIABLES fam, hist
gvars == <<vars, fam, hist>>

\* ------------------------------------------------------------- alphabets
NumPats == {
  <<0, 0, 0, 0, 0, 0, 0, 0>>,                  \* +0
  <<128, 0, 0, 0, 0, 0, 0, 0>>,                \* -0
  <<63, 240, 0, 0, 0, 0, 0, 0>>,               \* 1.0
  <<192, 9, 33, 251, 84, 68, 45, 24>>,         \* -pi
  <<127, 240, 0, 0, 0, 0, 0, 0>>,              \* +Inf
  <<255, 240, 0, 0, 0, 0, 0, 0>>,              \* -Inf
  <<127, 248, 0, 0, 0, 0, 0, 0>>,              \* quiet NaN
  <<127, 240, 0, 0, 0, 0, 0, 1>>,              \* signalling NaN, payload 1
  <<255, 255, 255, 255, 255, 255, 255, 255>>,  \* negative NaN, every payload bit
  <<0, 0, 0, 0, 0, 0, 0, 1>>,                  \* smallest denormal
  <<127, 239, 255, 255, 255, 255, 255, 255>> } \* largest finite

One  == Num(<<63, 240, 0, 0, 0, 0, 0, 0>>)
NaNp == Num(<<127, 240, 0, 0, 0, 0, 0, 1>>)
KE == Fill(0, 0)     \* the empty name
KA == Fill(1, 1)
KB == Fill(1, 2)
KC == Fill(2, 3)
Key(n, j) == IF n = 0 THEN KE ELSE Fill(n, 10 + j)

AllScalars == {Num(b) : b \in NumPats} \cup {Bool(TRUE), Bool(FALSE), Null, Undef}
              \cup {Str(Fill(n, 20)) : n \in TextLens}

Lists1(S) == {<<a>> : a \in S}
Lists2(S) == {<<a, b>> : a, b \in S}
Lists3(S) == {<<a, b, c>> : a, b, c \in S}
UpTo2(S)  == {<<>>} \cup Lists1(S) \cup Lists2(S)
UpTo3(S)  == UpTo2(S) \cup Lists3(S)

Exact(l) == <<0, Len(l)>>
\* every container kind around a pair list; ECMA arrays with a zero, an exact and a wrong count
Around(l)  == {Obj(l), Ecma(<<0, 0>>, l), Ecma(Exact(l), l), StrictOf(l)}
AroundX(l) == Around(l) \cup {Ecma(<<65535, 65535>>, l)}
SA(vals)   == StrictOf([i \in 1..Len(vals) |-> <<IdxKey(i), vals[i]>>])

\* -------------------------------------------------------------- families
FamScalar == AllScalars

\* one pair: every name length x every scalar x every container kind
FamSingle(z) == UNION {Around(<<<<Key(n, 0), s>>>>) : n \in TextLens, s \in AllScalars}

\* pair lists up to 3: order, repeated names, the empty name in every position
ShapePairs == {<<k, v>> : k \in {KA, KB, KE}, v \in {Null, One, Str(Fill(1, 9))}}
FamShape(z)   == UNION {AroundX(l) : l \in UpTo3(ShapePairs)}

\* several long names / strings in one container
FamLong(z) == UNION {Around(<<<<Key(n, 1), Str(Fill(m, 21))>>, <<Key(n, 2), Str(Fill(m, 22))>>, <<KA, NaNp>>>>) :
                    n \in TextLens, m \in TextLens}

\* depth 2: a capped set of level-1 containers nested into every kind
L1Lists == {<<>>, <<<<KA, Null>>>>, <<<<KE, Str(Fill(2, 9))>>>>, <<<<KA, One>>, <<KB, Null>>>>,
            <<<<KA, Null>>, <<KA, Bool(TRUE)>>>>}
L1      == UNION {Around(l) : l \in L1Lists}
NestPairs == {<<k, v>> : k \in {KA, KB}, v \in L1 \cup {Null, Str(Fill(1, 9))}}
FamNest(z)   == UNION {Around(l) : l \in UpTo2(NestPairs)}
WidePairs == {<<k, v>> : k \in {KA, KB, KE}, v \in {Obj(<<>>), SA(<<Null>>), Ecma(<<0, 1>>, <<<<KE, One>>>>)}}
FamWide(z)   == UNION {{Obj(l), StrictOf(l)} : l \in Lists3(WidePairs)}

\* depth 3 and 4 (thorough): capped by a residue of the size, so the cap is arbitrary but fixed.
\* (Operators with a dummy argument: TLC evaluates constant definitions eagerly, these are only
\* wanted when their family is selected.)
L2Cap(z) == {v \in FamNest(0) : Size(v) % 11 = 3}
L1Small  == {Obj(<<<<KE, Undef>>>>), SA(<<One, Null>>), Ecma(<<0, 7>>, <<<<KC, Bool(FALSE)>>>>)}
FamDeep3(z) == UNION {Around(<<<<KA, x>>, <<KB, y>>>>) : x \in L2Cap(z), y \in L1Small}
               \cup UNION {Around(<<<<KC, x>>>>) : x \in FamWide(0)}
L3Cap(z) == {v \in FamDeep3(z) : Size(v) % 13 = 5}
FamDeep4(z) == UNION {Around(<<<<KB, y>>, <<KA, x>>>>) : x \in L3Cap(z), y \in {Null, SA(<<Obj(<<>>)>>)}}

\* FFmpeg / Flash shaped onMetaData bodies (names and strings are the real ASCII bytes)
A_duration  == Raw(<<100, 117, 114, 97, 116, 105, 111, 110>>)
A_width     == Raw(<<119, 105, 100, 116, 104>>)
A_height    == Raw(<<104, 101, 105, 103, 104, 116>>)
A_framerate == Raw(<<102, 114, 97, 109, 101, 114, 97, 116, 101>>)
A_vcodecid  == Raw(<<118, 105, 100, 101, 111, 99, 111, 100, 101, 99, 105, 100>>)
A_stereo    == Raw(<<115, 116, 101, 114, 101, 111>>)
A_encoder   == Raw(<<101, 110, 99, 111, 100, 101, 114>>)
A_filesize  == Raw(<<102, 105, 108, 101, 115, 105, 122, 101>>)
A_keyframes == Raw(<<107, 101, 121, 102, 114, 97, 109, 101, 115>>)
A_times     == Raw(<<116, 105, 109, 101, 115>>)
A_filepos   == Raw(<<102, 105, 108, 101, 112, 111, 115, 105, 116, 105, 111, 110, 115>>)
A_lavf      == Raw(<<76, 97, 118, 102, 53, 56, 46, 50, 57, 46, 49, 48, 48>>)
D(a, b, c)  == Num(<<a, b, c, 0, 0, 0, 0, 0>>)
MetaPairs ==
  << <<A_duration, D(0, 0, 0)>>, <<A_width, D(64, 148, 0)>>, <<A_height, D(64, 134, 128)>>,
     <<A_framerate, D(64, 57, 0)>>, <<A_vcodecid, D(64, 28, 0)>>, <<A_stereo, Bool(TRUE)>>,
     <<A_encoder, Str(A_lavf)>>, <<A_filesize, D(0, 0, 0)>> >>
KeyFrames == Obj(<< <<A_filepos, SA(<<D(64, 42, 0), D(64, 144, 0), D(65, 32, 0)>>)>>,
                    <<A_times, SA(<<D(0, 0, 0), D(64, 0, 0), D(64, 16, 0)>>)>> >>)
WithKF == Append(MetaPairs, <<A_keyframes, KeyFrames>>)
FamMeta(z) == {Ecma(<<0, 8>>, MetaPairs), Ecma(<<0, 0>>, MetaPairs), Obj(MetaPairs),
            Ecma(<<0, 9>>, WithKF), Ecma(<<0, 0>>, WithKF), Obj(WithKF),
            Ecma(<<0, 1>>, <<<<A_times, SA(<<>>)>>>>),
            SA(<<D(0, 0, 0), D(64, 0, 0), D(64, 16, 0)>>), SA(<<Str(A_lavf), Null, Bool(FALSE)>>),
            KeyFrames,
            \* a denormal whose bytes a StrictKeyed reader takes for (empty name, null): the deviation decodes, but wrongly
            SA(<<Num(<<0, 5, 0, 0, 0, 0, 0, 0>>)>>)}

\* decodable encodings that are not canonical: a boolean byte other than 0 / 1
RawBoolCases ==
  {[wire |-> <<U8(1), U8(w)>>, v |-> Bool(TRUE)] : w \in {2, 128, 255}}
  \cup {[wire |-> <<U8(3)>> \o Utf8(KA) \o <<U8(1), U8(255)>> \o Utf8(KB) \o <<U8(5)>> \o ObjEnd,
         v |-> Obj(<<<<KA, Bool(TRUE)>>, <<KB, Null>>>>)]}

\* the 16-bit length limit of names and strings, and one below
FamMax(z) == {Str(Fill(65535, 20)), Str(Fill(65534, 20)), Obj(<<<<Fill(65535, 11), Null>>>>),
              Obj(<<<<KA, Str(Fill(65535, 21))>>, <<KB, One>>>>), Ecma(<<0, 0>>, <<<<Fill(65534, 12), Str(Fill(65535, 22))>>>>)}

\* text is a sequence of BYTES with a 16-bit BYTE count: well-formed multi-byte UTF-8 (2, 3 and 4 byte
\* sequences: e-acute, two CJK characters, an emoji) as string values and as names
U_e    == Raw(<<195, 169>>)
U_cjk  == Raw(<<231, 155, 180, 230, 146, 173>>)
U_emo  == Raw(<<240, 159, 152, 128>>)
U_mix  == Raw(<<97, 195, 169, 98, 240, 159, 152, 128, 99>>)
FamUtf8(z) == {Str(U_e), Str(U_cjk), Str(U_emo), Str(U_mix)}
              \cup UNION {Around(<<<<k, Str(v)>>, <<KA, One>>>>) : k \in {U_e, U_cjk, U_mix}, v \in {U_emo, U_mix}}

FamVals(f) ==
  CASE f = "scalar" -> FamScalar
    [] f = "utf8"   -> FamUtf8(0)
    [] f = "maxlen" -> FamMax(0)
    [] f = "single" -> FamSingle(0)
    [] f = "shape"  -> FamShape(0)
    [] f = "long"   -> FamLong(0)
    [] f = "nest"   -> FamNest(0)
    [] f = "wide"   -> FamWide(0)
    [] f = "deep3"  -> FamDeep3(0)
    [] f = "deep4"  -> FamDeep4(0)
    [] f = "meta"   -> FamMeta(0)
    [] f = "rawbool" -> RawBoolCases
    [] f = "marker" -> {[t |-> "marker", m |-> m] : m \in 0..255}

\* ----------------------------------------------------------------- cases
\* buildable through New/Set: names distinct in every container, ECMA count 0
RECURSIVE Buildable(_)
PairsOk(p) == /\ \A i, j \in 1..Len(p) : i < j => FieldBytes(p[i][1]) # FieldBytes(p[j][1])
              /\ \A i \in 1..Len(p) : Buildable(p[i][2])
Buildable(v) ==
  CASE v.t = "obj"     -> PairsOk(v.p)
    [] v.t = "ecma"    -> v.c = <<0, 0>> /\ PairsOk(v.p)
    [] v.t = "strictk" -> PairsOk(v.p)
    [] v.t = "strict"  -> \A i \in 1..Len(v.e) : Buildable(v.e[i])
    [] OTHER           -> TRUE

\* what the stream continues with: chosen by the size, so that it varies without multiplying the cases
NextVals == <<Num(<<64, 9, 33, 251, 84, 68, 45, 24>>), Str(Fill(3, 30)), Null,
              Obj(<<<<KA, Bool(FALSE)>>>>), Bool(TRUE), Str(Fill(0, 0)), Undef>>
Trail3   == <<0, 0, 9>>

\* the deviation's prediction for reading the specification's bytes: a StrictKeyed decoder
Dk(bytes) == LET r == DecAt(bytes, 1, TRUE)
             IN IF r.ok THEN [ok |-> TRUE, n |-> r.n, re |-> Enc(r.v)] ELSE [ok |-> FALSE]  \* re: a layout (free ECMA counts)

TreeCase(v) ==
  LET sz == Size(v)
      nx == NextVals[(sz % Len(NextVals)) + 1]
      base == [kind |-> "tree", fam |-> fam, v |-> v, enc |-> Enc(v), size |-> sz, api |-> Buildable(v),
               next |-> nx, enc_next |-> Enc(nx), size_next |-> Size(nx),
               trail |-> <<Raw(SubSeq(Trail3, 1, 1 + (((sz \div 7) % 3))))>>]
      withh == IF hist # <<>> THEN base @@ [calls |-> hist] ELSE base
  IN IF ~StrictKeyed /\ HasStrict(v)
     THEN withh @@ [has_strict |-> TRUE, enc_keyed |-> Enc(Keyed(v)), dk |-> Dk(EncBytes(v))]
     ELSE withh

RawCase(c) ==
  [kind |-> "raw", fam |-> fam, v |-> c.v, wire |-> c.wire, enc |-> Enc(c.v), size |-> ByteLen(c.wire)]

Item(w, bytes, keyed) ==
  LET r == DecAt(bytes, 1, keyed)
      \* the same bytes as a layout of the decoded value where that is possible, so that the fields the format leaves
      \* to the writer (ECMA counts) are marked as such
      lay == IF r.ok /\ EncBytes(r.v) = SubSeq(bytes, 1, r.n) THEN Enc(r.v) \o <<Raw(Drop(bytes, r.n))>> ELSE <<Raw(bytes)>>
  IN [w |-> w, enc |-> lay, ok |-> r.ok, size |-> IF r.ok THEN r.n ELSE 0]
MarkerCase(m) ==
  [kind |-> "marker", fam |-> fam, m |-> m, class |-> Discover(m),
   items |-> << Item("top", WrapTop(m), FALSE), Item("obj", WrapObj(m), FALSE), Item("ecma", WrapEcma(m), FALSE),
                Item("strict", WrapStrict(m), FALSE) @@ [dk |-> Dk(WrapStrict(m))],
                Item("keyed", WrapKeyed(m), TRUE) >>]

CaseOf ==
  CASE fam = "marker"  -> MarkerCase(val.m)
    [] fam = "rawbool" -> RawCase(val)
    [] OTHER           -> TreeCase(val)

\* ------------------------------------------------------------ matrix mode
GenInit == /\ fam \in Families /\ val \in FamVals(fam) /\ hist = <<>>
           /\ pc = "built" /\ stack = <<>> /\ ncalls = 0 /\ Clean
GenNext == UNCHANGED gvars
Emit    == PrintT(<<"CASE", ToJson(CaseOf)>>)

\* -------------------------------------------------------- simulation mode
SimScalarSeq == <<One, Null, Str(Fill(5, 23)), NaNp, Bool(TRUE), Undef, Str(Fill(0, 0)), Str(Fill(300, 24)),
                  Bool(FALSE), Num(<<255, 255, 255, 255, 255, 255, 255, 255>>), Str(Fill(1, 25))>>
SimScalars == {SimScalarSeq[i] : i \in 1..Len(SimScalarSeq)}
SimKeys    == {KE, KA, KB, KC, Fill(1, 3), Fill(1, 4), Fill(300, 4)}

SimInit == /\ fam = "sim" /\ hist = <<>> /\ val = None
           /\ pc = "build" /\ stack = <<>> /\ ncalls = 0 /\ Clean
SimNext ==
  /\ UNCHANGED fam
  /\ \/ \E k \in Kinds : New(k) /\ hist' = Append(hist, <<"new", k>>)
     \* the simulator picks uniformly among successor states: the scalar is a function of the call
     \* number (all of them occur), so that New / Set(scalar) / Set(container) stay comparably likely
     \/ \E k \in Keys : LET s == SimScalarSeq[(ncalls % Len(SimScalarSeq)) + 1]
                         IN SetScalar(k, s) /\ hist' = Append(hist, <<"set", k, s>>)
     \/ \E k \in Keys : SetChild(k) /\ hist' = Append(hist, <<"child", k>>)
     \/ Finish /\ ncalls >= MaxCalls \div 3 /\ hist' = hist
     \* TLC's simulator evaluates invariants on every successor, chosen or not: emit only
     \* behind a step that exists solely for the finished tree the walk really chose
     \/ pc = "built" /\ pc' = "emit" /\ UNCHANGED <<stack, ncalls, val, wire, back, back2, wire2, hist>>
EmitDone == pc = "emit" => PrintT(<<"CASE", ToJson(CaseOf)>>)

=============================================================================
