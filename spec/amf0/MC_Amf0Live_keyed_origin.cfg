INIT LiveInit
NEXT LiveNext
CONSTANTS
  StrictKeyed = TRUE
  Dev = "marker-by-constructor"
  Scalars <- LiveScalars
  Keys <- LiveKeys
  Kinds = {"obj", "ecma", "strict"}
  MaxDepth = 0
  MaxPairs = 2
  MaxCalls = 0
  RawVals = {}
  MaxNodes = 5
  MaxSteps = 1
  LoadVals <- LiveChainsQ
  COrigins = {"new", "zero"}
  SOrigins = {"new"}
INVARIANTS LiveDecodes
CHECK_DEADLOCK FALSE
