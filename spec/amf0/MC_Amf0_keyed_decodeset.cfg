SPECIFICATION Spec
CONSTANTS
  StrictKeyed = TRUE
  Dev = "decode-with-set"
  Scalars <- McScalars
  Keys <- McKeys
  Kinds = {"obj", "ecma", "strict"}
  MaxDepth = 2
  MaxPairs = 2
  MaxCalls = 4
  RawVals <- McRaw
INVARIANTS Consumed
CHECK_DEADLOCK FALSE
