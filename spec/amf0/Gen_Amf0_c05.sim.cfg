INIT SimInit
NEXT SimNext
CONSTANTS
  StrictKeyed = TRUE
  Dev = "none"
  Families = {}
  TextLens = {}
  Scalars <- SimScalars
  Keys <- SimKeys
  Kinds = {"obj", "ecma", "strict"}
  MaxDepth = 4
  MaxPairs = 4
  MaxCalls = 24
  RawVals = {}
INVARIANT EmitDone
CHECK_DEADLOCK FALSE
