INIT GenInit
NEXT GenNext
CONSTANTS
  StrictKeyed = TRUE
  Dev = "none"
  Families = {"utf8", "maxlen", "scalar", "single", "shape", "long", "nest", "wide", "meta", "rawbool"}
  TextLens = {0, 1, 2, 300}
  Scalars = {}
  Keys = {}
  Kinds = {}
  MaxDepth = 0
  MaxPairs = 0
  MaxCalls = 0
  RawVals = {}
INVARIANT Emit
CHECK_DEADLOCK FALSE
