INIT OrigInit
NEXT OrigNext
CONSTANTS
  StrictKeyed = TRUE
  Dev = "none"
  Kinds = {"obj", "ecma", "strict"}
  MaxDepth = 0
  MaxCalls = 0
  RawVals = {}
  LoadVals = {}
  Scalars = {}
  Keys = {}
  DirKinds = {"obj", "ecma", "strict"}
  DirKeys <- DirKeysQ
  DirScalars <- DirScalarsQ
  MaxPairs = 3
  MaxNodes = 8
  MaxSteps = 1
  COrigins = {"new", "zero", "lit", "alloc"}
  SOrigins = {"new", "conv", "zero"}
INVARIANT OrigEmit
CHECK_DEADLOCK FALSE
