SPECIFICATION Spec
CONSTANTS
  StrictKeyed = TRUE
  Dev = "strict-count-zero"
  Scalars <- McScalars
  Keys <- McKeys
  Kinds = {"obj", "ecma", "strict"}
  MaxDepth = 2
  MaxPairs = 2
  MaxCalls = 4
  RawVals <- McRaw
INVARIANTS RoundTrip
CHECK_DEADLOCK FALSE
