INIT LiveInit
NEXT LiveNext
CONSTANTS
  StrictKeyed = TRUE
  Dev = "marshal-cache"
  Scalars <- LiveScalars
  Keys <- LiveKeys
  Kinds = {"obj", "ecma", "strict"}
  MaxDepth = 0
  MaxPairs = 2
  MaxCalls = 0
  RawVals = {}
  MaxNodes = 5
  MaxSteps = 1
  LoadVals <- LiveChainsQ
  COrigins = {"new", "zero"}
  SOrigins = {"new"}
INVARIANTS LiveSize
CHECK_DEADLOCK FALSE
