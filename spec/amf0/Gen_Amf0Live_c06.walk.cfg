INIT WalkInit
NEXT WalkNext
CONSTANTS
  StrictKeyed = FALSE
  Dev = "none"
  Kinds = {"obj", "ecma", "strict"}
  MaxDepth = 0
  MaxCalls = 0
  RawVals = {}
  LoadVals = {}
  Scalars <- WalkScalars
  Keys <- WalkKeys
  DirKinds = {}
  DirKeys = {}
  DirScalars = {}
  MaxPairs = 3
  MaxNodes = 10
  MaxSteps = 14
  COrigins = {}
  SOrigins = {}
INVARIANT WalkEmit
CHECK_DEADLOCK FALSE
