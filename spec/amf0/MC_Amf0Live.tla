----------------------------- MODULE MC_Amf0Live -----------------------------
(* Exhaustive configuration of the live-object machine: every history of     *)
(* observation, call, observation (quick) / two calls, each followed by an   *)
(* observation (thorough) from the empty heap and from three-level chains of *)
(* container kinds, so that root, child and grandchild exist from the start: *)
(* marshal -> change below -> marshal at every level, on every node.         *)
EXTENDS Amf0Live

LA == Num(<<63, 240, 0, 0, 0, 0, 0, 0>>)
LB == Num(<<127, 240, 0, 0, 0, 0, 0, 1>>)
LS == Str(Fill(2, 3))
LiveScalars == {LA, LB, LS}
LiveKeys    == {Fill(1, 1), Fill(1, 2)}
K1 == Fill(1, 1)
Wrap(kind, x) == Mk([t |-> kind, p |-> <<<<K1, x>>>>])
LiveChains  == {Wrap(a, Wrap(b, Wrap(c, LA))) : a, b, c \in {"obj", "ecma", "strict"}}
\* quick: every kind at every level once
LiveChainsQ == {Wrap(c[1], Wrap(c[2], Wrap(c[3], LA))) :
                c \in {<<"obj", "obj", "obj">>, <<"ecma", "ecma", "ecma">>, <<"strict", "strict", "strict">>,
                       <<"obj", "ecma", "strict">>, <<"strict", "obj", "ecma">>, <<"ecma", "strict", "obj">>}}
=============================================================================
