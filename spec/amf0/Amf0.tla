-------------------------------- MODULE Amf0 --------------------------------
(* AMF0 (Action Message Format, amf0_spec_121207) value codec.               *)
(*                                                                           *)
(*   value-type  = number | boolean | string | object | null | undefined     *)
(*               | ecma-array | strict-array          (the supported subset) *)
(*   number      = 00 DOUBLE          (8 bytes, IEEE-754 big endian)         *)
(*   boolean     = 01 U8              (0 false, anything else true)          *)
(*   string      = 02 UTF-8           UTF-8 = U16 length, that many bytes    *)
(*   object      = 03 *(UTF-8 value-type) 00 00 09                           *)
(*   null        = 05        undefined = 06                                  *)
(*   ecma-array  = 08 U32 count *(UTF-8 value-type) 00 00 09                 *)
(*   strict-array= 0A U32 count count*(value-type)                           *)
(*   09 (object-end) exists only after an empty UTF-8 name inside object /   *)
(*   ecma-array; every other marker (04 07 0B..11 and 12..FF) is not         *)
(*   supported and must be an error wherever it appears.                     *)
(*                                                                           *)
(* The library has its own convention for strict arrays: the count is        *)
(* followed by count (UTF-8 name, value) pairs. This is the named layout     *)
(* StrictKeyed. C05 (self-consistency of the library) is checked with        *)
(* StrictKeyed = TRUE, C06 (the AMF0 specification's wire format) with       *)
(* StrictKeyed = FALSE.                                                      *)
(*                                                                           *)
(* The module is shaped like the library's API: a tree is built by           *)
(* New*/Set calls (Set replaces the value of an existing key in place,       *)
(* otherwise appends), marshalled, unmarshalled from a stream in which       *)
(* another value and stray bytes follow, located by Size(), and marshalled   *)
(* again. Trees that no Set sequence can build (repeated keys, ECMA counts)  *)
(* enter as raw values: they exist on the wire only.                         *)
(* Here a container is complete when it is Set into its parent and a value   *)
(* is marshalled once; Amf0Live.tla is the machine of the histories in which *)
(* attached objects are changed, decoded trees edited, and the same object   *)
(* marshalled again.                                                         *)
EXTENDS Naturals, Sequences, LD

CONSTANTS
  StrictKeyed,  \* TRUE: strict arrays in the library's keyed layout; FALSE: AMF0 specification
  Dev,          \* named deviation switched on ("none" for the specification itself):
                \*   "decode-with-set"    the decoder stores pairs with Set semantics
                \*   "strict-count-zero"  a strict array built with Set is written with count 0
                \*   "keyed-writer"       the writer uses the keyed strict layout, the reader the specification's
                \*   "skip-unknown"       an unsupported marker is skipped as a 1-byte value
                \*   "marker-by-constructor" (Amf0Live.tla) a container's marker byte is a field that only the New*
                \*                        constructors fill in: a zero-value container is written with marker 0
                \*   "marshal-cache"      (Amf0Live.tla) a container remembers the bytes of its last marshal and forgets
                \*                        them only when Set is called on itself, not when a value below it changes
  Scalars,      \* builder alphabet: scalar values
  Keys,         \* builder alphabet: property names (text fields)
  Kinds,        \* builder alphabet: container kinds, subset of {"obj", "ecma", "strict"}
  MaxDepth, MaxPairs, MaxCalls,
  RawVals       \* values that enter on the wire only

VARIABLES pc, stack, ncalls, val, wire, back, back2, wire2
vars == <<pc, stack, ncalls, val, wire, back, back2, wire2>>

\* ------------------------------------------------------------------ values
\* A text (property name, string content) is an LD field: Fill(n, id) - n pattern
\* bytes - or Raw(bytes); at most 65535 bytes. A decoded text is always Raw.
Num(b)     == [t |-> "num", b |-> b]           \* b: the 8 bytes of the double
Bool(x)    == [t |-> "bool", v |-> x]
Str(s)     == [t |-> "str", s |-> s]
Null       == [t |-> "null"]
Undef      == [t |-> "undef"]
Obj(p)     == [t |-> "obj", p |-> p]           \* p: sequence of <<name, value>>, wire order
Ecma(c, p) == [t |-> "ecma", c |-> c, p |-> p] \* c: the 32-bit count as <<hi16, lo16>>
Strict(e)  == [t |-> "strict", e |-> e]        \* e: sequence of values (AMF0 specification)
StrictK(p) == [t |-> "strictk", p |-> p]       \* p: sequence of <<name, value>> (layout StrictKeyed)

StrictOf(p) == IF StrictKeyed THEN StrictK(p) ELSE Strict([i \in 1..Len(p) |-> p[i][2]])

\* the name the keyed layout gives to element i of a specification strict array
IdxKey(i) == Fill(1, i)

RECURSIVE Keyed(_)
Keyed(v) ==
  CASE v.t = "obj"    -> Obj([i \in 1..Len(v.p) |-> <<v.p[i][1], Keyed(v.p[i][2])>>])
    [] v.t = "ecma"   -> Ecma(v.c, [i \in 1..Len(v.p) |-> <<v.p[i][1], Keyed(v.p[i][2])>>])
    [] v.t = "strict" -> StrictK([i \in 1..Len(v.e) |-> <<IdxKey(i), Keyed(v.e[i])>>])
    [] OTHER          -> v

\* the tree contains a strict array with at least one element
RECURSIVE HasStrict(_)
HasStrict(v) ==
  CASE v.t \in {"obj", "ecma"} -> \E i \in 1..Len(v.p) : HasStrict(v.p[i][2])
    [] v.t = "strict"          -> Len(v.e) > 0
    [] v.t = "strictk"         -> Len(v.p) > 0
    [] OTHER                   -> FALSE

\* what a value looks like after it went over the wire: texts are bytes
CText(s) == Raw(FieldBytes(s))
RECURSIVE Conc(_)
CPairs(p) == [i \in 1..Len(p) |-> <<CText(p[i][1]), Conc(p[i][2])>>]
Conc(v) ==
  CASE v.t = "str"     -> Str(CText(v.s))
    [] v.t = "obj"     -> Obj(CPairs(v.p))
    [] v.t = "ecma"    -> Ecma(v.c, CPairs(v.p))
    [] v.t = "strict"  -> Strict([i \in 1..Len(v.e) |-> Conc(v.e[i])])
    [] v.t = "strictk" -> StrictK(CPairs(v.p))
    [] OTHER           -> v

\* ----------------------------------------------------------------- encoder
Utf8(s) == <<U16(FieldLen(s))>> \o (IF FieldLen(s) > 0 THEN <<s>> ELSE <<>>)
ObjEnd  == <<U16(0), U8(9)>>                   \* UTF-8-empty, object-end-marker

\* zc: the deviation "strict-count-zero"
RECURSIVE EncX(_, _), EncPairs(_, _), EncVals(_, _)
EncPairs(p, zc) == IF p = <<>> THEN <<>> ELSE Utf8(Head(p)[1]) \o EncX(Head(p)[2], zc) \o EncPairs(Tail(p), zc)
EncVals(e, zc)  == IF e = <<>> THEN <<>> ELSE EncX(Head(e), zc) \o EncVals(Tail(e), zc)
EncX(v, zc) ==
  CASE v.t = "num"     -> <<U8(0), Raw(v.b)>>
    [] v.t = "bool"    -> <<U8(1), U8(IF v.v THEN 1 ELSE 0)>>
    [] v.t = "str"     -> <<U8(2)>> \o Utf8(v.s)
    [] v.t = "obj"     -> <<U8(3)>> \o EncPairs(v.p, zc) \o ObjEnd
    [] v.t = "null"    -> <<U8(5)>>
    [] v.t = "undef"   -> <<U8(6)>>
    [] v.t = "ecma"    -> <<U8(8), U32F(v.c[1], v.c[2])>> \o EncPairs(v.p, zc) \o ObjEnd  \* the count is the writer's choice
    [] v.t = "strict"  -> <<U8(10), U32(Len(v.e))>> \o EncVals(v.e, zc)
    [] v.t = "strictk" -> <<U8(10), U32(IF zc THEN 0 ELSE Len(v.p))>> \o EncPairs(v.p, zc)

Enc(v)  == EncX(v, FALSE)
Size(v) == ByteLen(Enc(v))

\* ------------------------------------------------------------ marker table
Supported == {0, 1, 2, 3, 5, 6, 8, 10}
Discover(m) ==
  CASE m = 0 -> "num"  [] m = 1 -> "bool"  [] m = 2 -> "str"  [] m = 3  -> "obj"
    [] m = 5 -> "null" [] m = 6 -> "undef" [] m = 8 -> "ecma" [] m = 10 -> "strict"
    [] m = 9 -> "objend"                     \* not a value: only after an empty name
    [] OTHER -> "error"

\* ------------------------------------------- byte-level decoder (reference)
\* DecX(b, o, keyed, ws, skip): the value that starts at the 1-based offset o of the
\* byte sequence b, as [ok |-> TRUE, v |-> value, n |-> bytes consumed], or Err.
\* Total: short input, unsupported markers, impossible counts are Err.
\* keyed: strict arrays in layout StrictKeyed. ws, skip: deviations.
Err      == [ok |-> FALSE]
Ok(v, n) == [ok |-> TRUE, v |-> v, n |-> n]
ErrP     == [ok |-> FALSE]
Avail(b, o) == IF o > Len(b) THEN 0 ELSE Len(b) - o + 1

SetOp(p, k, v) ==
  IF \E i \in 1..Len(p) : p[i][1] = k
  THEN [i \in 1..Len(p) |-> IF p[i][1] = k THEN <<k, v>> ELSE p[i]]
  ELSE Append(p, <<k, v>>)
Put(p, k, v, ws) == IF ws THEN SetOp(p, k, v) ELSE Append(p, <<k, v>>)

\* N elements need at least N bytes: larger counts can not be satisfied
CountTooBig(hi, lo, a) == hi >= 16384 \/ hi * 65536 + lo > a

RECURSIVE DecX(_, _, _, _, _), DecPairs(_, _, _, _, _, _), DecKeyedN(_, _, _, _, _, _, _), DecVals(_, _, _, _, _, _)

\* (name, value)* up to and including 00 00 09: [ok, p, n]
DecPairs(b, o, acc, keyed, ws, skip) ==
  IF Avail(b, o) < 2 THEN ErrP
  ELSE LET kl == BE16(b, o) IN
    IF Avail(b, o) < 2 + kl THEN ErrP
    ELSE IF kl = 0 /\ Avail(b, o) >= 3 /\ b[o + 2] = 9 THEN [ok |-> TRUE, p |-> acc, n |-> 3]
    ELSE LET r == DecX(b, o + 2 + kl, keyed, ws, skip) IN
      IF ~r.ok THEN ErrP
      ELSE LET rest == DecPairs(b, o + 2 + kl + r.n, Put(acc, Raw(SubSeq(b, o + 2, o + 1 + kl)), r.v, ws), keyed, ws, skip)
           IN IF rest.ok THEN [ok |-> TRUE, p |-> rest.p, n |-> 2 + kl + r.n + rest.n] ELSE ErrP

\* layout StrictKeyed: (name, value) pairs until N are held, no end marker
DecKeyedN(b, o, acc, N, keyed, ws, skip) ==
  IF Len(acc) >= N THEN [ok |-> TRUE, p |-> acc, n |-> 0]
  ELSE IF Avail(b, o) < 2 THEN ErrP
  ELSE LET kl == BE16(b, o) IN
    IF Avail(b, o) < 2 + kl THEN ErrP
    ELSE LET r == DecX(b, o + 2 + kl, keyed, ws, skip) IN
      IF ~r.ok THEN ErrP
      ELSE LET rest == DecKeyedN(b, o + 2 + kl + r.n, Put(acc, Raw(SubSeq(b, o + 2, o + 1 + kl)), r.v, ws), N, keyed, ws, skip)
           IN IF rest.ok THEN [ok |-> TRUE, p |-> rest.p, n |-> 2 + kl + r.n + rest.n] ELSE ErrP

\* AMF0 specification: N values
DecVals(b, o, N, keyed, ws, skip) ==
  IF N = 0 THEN [ok |-> TRUE, e |-> <<>>, n |-> 0]
  ELSE LET r == DecX(b, o, keyed, ws, skip) IN
    IF ~r.ok THEN ErrP
    ELSE LET rest == DecVals(b, o + r.n, N - 1, keyed, ws, skip)
         IN IF rest.ok THEN [ok |-> TRUE, e |-> <<r.v>> \o rest.e, n |-> r.n + rest.n] ELSE ErrP

DecX(b, o, keyed, ws, skip) ==
  IF Avail(b, o) < 1 THEN Err
  ELSE LET m == b[o]
           a == Avail(b, o) - 1        \* bytes after the marker
  IN CASE m = 0  -> IF a < 8 THEN Err ELSE Ok(Num(SubSeq(b, o + 1, o + 8)), 9)
       [] m = 1  -> IF a < 1 THEN Err ELSE Ok(Bool(b[o + 1] # 0), 2)
       [] m = 2  -> IF a < 2 THEN Err
                    ELSE LET l == BE16(b, o + 1)
                         IN IF a < 2 + l THEN Err ELSE Ok(Str(Raw(SubSeq(b, o + 3, o + 2 + l))), 3 + l)
       [] m = 3  -> LET r == DecPairs(b, o + 1, <<>>, keyed, ws, skip)
                    IN IF r.ok THEN Ok(Obj(r.p), 1 + r.n) ELSE Err
       [] m = 5  -> Ok(Null, 1)
       [] m = 6  -> Ok(Undef, 1)
       [] m = 8  -> IF a < 4 THEN Err
                    ELSE LET r == DecPairs(b, o + 5, <<>>, keyed, ws, skip)
                         IN IF r.ok THEN Ok(Ecma(<<BE16(b, o + 1), BE16(b, o + 3)>>, r.p), 5 + r.n) ELSE Err
       [] m = 10 -> IF a < 4 THEN Err
                    ELSE IF CountTooBig(BE16(b, o + 1), BE16(b, o + 3), a - 4) THEN Err
                    ELSE LET N == BE16(b, o + 1) * 65536 + BE16(b, o + 3) IN
                      IF keyed
                      THEN LET r == DecKeyedN(b, o + 5, <<>>, N, keyed, ws, skip)
                           IN IF r.ok THEN Ok(StrictK(r.p), 5 + r.n) ELSE Err
                      ELSE LET r == DecVals(b, o + 5, N, keyed, ws, skip)
                           IN IF r.ok THEN Ok(Strict(r.e), 5 + r.n) ELSE Err
       [] OTHER  -> IF skip /\ m # 9 THEN Ok(Undef, 1) ELSE Err

DecAt(b, o, keyed) == DecX(b, o, keyed, FALSE, FALSE)
Dec(b)             == DecAt(b, 1, StrictKeyed)
EncBytes(v)        == Bytes(Enc(v))

\* --------------------------------------------------------- the marker matrix
\* A plausible body for every marker byte: the AMF0 layout of the type where the
\* specification defines one (so that a decoder which skipped it "correctly"
\* would stay aligned), eight arbitrary bytes otherwise.
Body(m) ==
  CASE m = 0  -> <<63, 240, 0, 0, 0, 0, 0, 0>>               \* number 1.0
    [] m = 1  -> <<1>>
    [] m = 2  -> <<0, 2, 104, 105>>                          \* string "hi"
    [] m = 3  -> <<0, 0, 9>>                                 \* empty object
    [] m = 4  -> <<>>                                        \* movieclip: reserved, no body
    [] m = 5  -> <<>>
    [] m = 6  -> <<>>
    [] m = 7  -> <<0, 0>>                                    \* reference: U16 index
    [] m = 8  -> <<0, 0, 0, 0, 0, 0, 9>>                     \* empty ECMA array
    [] m = 9  -> <<>>
    [] m = 10 -> <<0, 0, 0, 0>>                              \* empty strict array
    [] m = 11 -> <<66, 118, 188, 221, 229, 96, 0, 0, 0, 0>>  \* date: DOUBLE, S16 time zone
    [] m = 12 -> <<0, 0, 0, 2, 104, 105>>                    \* long string: U32 length
    [] m = 13 -> <<>>                                        \* unsupported: no body
    [] m = 14 -> <<>>                                        \* recordset: reserved
    [] m = 15 -> <<0, 0, 0, 4, 60, 97, 47, 62>>              \* XML document: U32 length, "<a/>"
    [] m = 16 -> <<0, 1, 67, 0, 0, 9>>                       \* typed object: class name "C", no members
    [] m = 17 -> <<1>>                                       \* AVM+: AMF3 null
    [] OTHER  -> <<0, 0, 0, 0, 0, 0, 0, 9>>

Marked(m) == <<m>> \o Body(m)
KeyZ      == <<0, 1, 122>>                                   \* name "z"
\* the value with marker m in every position a value can have, followed by null / name z: null
WrapTop(m)    == Marked(m) \o <<5>>
WrapObj(m)    == <<3, 0, 1, 107>> \o Marked(m) \o KeyZ \o <<5, 0, 0, 9>>
WrapEcma(m)   == <<8, 0, 0, 0, 2, 0, 1, 107>> \o Marked(m) \o KeyZ \o <<5, 0, 0, 9>>
WrapStrict(m) == <<10, 0, 0, 0, 2>> \o Marked(m) \o <<5>>
WrapKeyed(m)  == <<10, 0, 0, 0, 2, 0, 1, 107>> \o Marked(m) \o KeyZ \o <<5>>

\* what the specification says about the wrapped marker: decodable iff supported,
\* and then exactly as long as its type says
DecM(b, keyed) == DecX(b, 1, keyed, FALSE, Dev = "skip-unknown")
MarkerTableOk ==
  \A m \in 0..255 :
    /\ (Discover(m) = "error") = (m \notin Supported \cup {9})
    /\ DecM(WrapTop(m), FALSE).ok = (m \in Supported)
    /\ DecM(WrapObj(m), FALSE).ok = (m \in Supported)
    /\ DecM(WrapEcma(m), FALSE).ok = (m \in Supported)
    /\ DecM(WrapStrict(m), FALSE).ok = (m \in Supported)
    /\ DecM(WrapKeyed(m), TRUE).ok = (m \in Supported)
    /\ m \in Supported =>
         /\ DecM(WrapTop(m), FALSE).n = 1 + Len(Body(m))
         /\ DecM(WrapObj(m), FALSE).n = Len(WrapObj(m))
         /\ DecM(WrapEcma(m), FALSE).n = Len(WrapEcma(m))
         /\ DecM(WrapStrict(m), FALSE).n = Len(WrapStrict(m))
         /\ DecM(WrapKeyed(m), TRUE).n = Len(WrapKeyed(m))

\* ----------------------------------------------- transitions (API shaped)
\* What follows a marshalled value in the stream it is read from: another value
\* (the next field of an RTMP command) and bytes that look like an object end.
FollowVal == Num(<<64, 9, 33, 251, 84, 68, 45, 24>>)
Trail     == <<0, 0, 9>>

Frame(k)  == [t |-> k, p |-> <<>>]
Mk(f)     == CASE f.t = "obj" -> Obj(f.p) [] f.t = "ecma" -> Ecma(<<0, 0>>, f.p) [] f.t = "strict" -> StrictOf(f.p)
Top       == stack[Len(stack)]
SetTop(k, v) == [stack EXCEPT ![Len(stack)].p = SetOp(@, k, v)]
\* without the keyed layout a strict array has no names: elements are appended
KeyOk(k)  == (Top.t = "strict" /\ ~StrictKeyed) => k = IdxKey(Len(Top.p) + 1)
Room(k)   == Len(Top.p) < MaxPairs \/ \E i \in 1..Len(Top.p) : Top.p[i][1] = k

None == [t |-> "none"]
Clean == /\ wire = <<>> /\ back = Err /\ back2 = Err /\ wire2 = <<>>

Init ==
  /\ Clean
  /\ \/ pc = "build" /\ stack = <<>> /\ ncalls = 0 /\ val = None            \* API path
     \/ pc = "built" /\ stack = <<>> /\ ncalls = 0 /\ val \in Scalars       \* NewNumber, NewString, ...
     \/ pc = "built" /\ stack = <<>> /\ ncalls = 0 /\ val \in RawVals       \* wire only

\* NewObject / NewEcmaArray / NewStrictArray
New(k) ==
  /\ pc = "build" /\ Len(stack) < MaxDepth /\ ncalls < MaxCalls
  /\ IF stack = <<>> THEN TRUE ELSE Len(Top.p) < MaxPairs   \* there will be room to Set it into its parent
  /\ stack' = Append(stack, Frame(k)) /\ ncalls' = ncalls + 1
  /\ UNCHANGED <<pc, val, wire, back, back2, wire2>>

\* container.Set(name, scalar)
SetScalar(k, s) ==
  /\ pc = "build" /\ stack # <<>> /\ ncalls < MaxCalls /\ KeyOk(k) /\ Room(k)
  /\ stack' = SetTop(k, s) /\ ncalls' = ncalls + 1
  /\ UNCHANGED <<pc, val, wire, back, back2, wire2>>

\* parent.Set(name, the container just finished)
SetChild(k) ==
  /\ pc = "build" /\ Len(stack) >= 2
  /\ LET child == Mk(Top)
         rest  == SubSeq(stack, 1, Len(stack) - 1)
         par   == rest[Len(rest)]
     IN /\ (par.t = "strict" /\ ~StrictKeyed) => k = IdxKey(Len(par.p) + 1)
        /\ Len(par.p) < MaxPairs \/ \E i \in 1..Len(par.p) : par.p[i][1] = k
        /\ stack' = [rest EXCEPT ![Len(rest)].p = SetOp(@, k, child)]
  /\ UNCHANGED <<pc, ncalls, val, wire, back, back2, wire2>>

Finish ==
  /\ pc = "build" /\ Len(stack) = 1
  /\ val' = Mk(Top) /\ stack' = <<>> /\ pc' = "built"
  /\ UNCHANGED <<ncalls, wire, back, back2, wire2>>

Written(v) ==
  CASE Dev = "strict-count-zero" -> EncX(v, TRUE)
    [] Dev = "keyed-writer"      -> Enc(Keyed(v))
    [] OTHER                     -> Enc(v)

Marshal ==
  /\ pc = "built" /\ wire' = Bytes(Written(val)) /\ pc' = "wire"
  /\ UNCHANGED <<stack, ncalls, val, back, back2, wire2>>

\* UnmarshalBinary into a fresh value, then the caller advances by Size() of what
\* it got and reads the next value there (rtmp command parsers)
Unmarshal ==
  /\ pc = "wire"
  /\ LET stream == wire \o EncBytes(FollowVal) \o Trail
         r      == DecX(stream, 1, StrictKeyed, Dev = "decode-with-set", Dev = "skip-unknown")
     IN /\ back' = r
        /\ back2' = IF r.ok THEN DecX(stream, 1 + Size(r.v), StrictKeyed, Dev = "decode-with-set", Dev = "skip-unknown") ELSE Err
  /\ pc' = "back"
  /\ UNCHANGED <<stack, ncalls, val, wire, wire2>>

Remarshal ==
  /\ pc = "back" /\ back.ok
  /\ wire2' = EncBytes(back.v) /\ pc' = "again"
  /\ UNCHANGED <<stack, ncalls, val, wire, back, back2>>

Next ==
  \/ \E k \in Kinds : New(k)
  \/ \E k \in Keys, s \in Scalars : SetScalar(k, s)
  \/ \E k \in Keys : SetChild(k)
  \/ Finish \/ Marshal \/ Unmarshal \/ Remarshal
Spec == Init /\ [][Next]_vars

\* -------------------------------------------------------------- properties
Decoded == pc \in {"back", "again"}
\* marshalling yields exactly Size() bytes
SizeOk     == pc \in {"wire", "back", "again"} => Len(wire) = Size(val)
\* unmarshalling yields the tree, names in wire order, and says how long it was
RoundTrip  == Decoded => back = Ok(Conc(val), Size(val))
\* Size() of what was decoded is what the decoder consumed ...
Consumed   == (Decoded /\ back.ok) => Size(back.v) = back.n
\* ... so the caller finds the next value
Aligned    == Decoded => back2 = Ok(Conc(FollowVal), Size(FollowVal))
\* marshalling the decoded value reproduces the bytes
Canonical  == pc = "again" => wire2 = wire
=============================================================================
